import RtenVerif.Model.Graph
import RtenVerif.Model.Planner
/-!
# Partial evaluation — a model of `Graph::partial_run`, `Planner::prune_plan`, `Graph::run`
(src/graph.rs, src/graph/planner.rs)

Import-free (core Lean + the graph IR and planner model), executable.

## What is modelled

* `Planner::prune_plan` (planner.rs:184): the forward walk over the plan with the four pieces
  of state `resolved_values`, `pruned_plan`, `candidate_outputs` (+ `candidate_ids`),
  `pruned_ops_resolved_inputs`; an operator is pruned iff `!is_deterministic()`, or one of its
  `operator_dependencies` is not resolved, or one of its capture names does not resolve in this
  graph; `new_outputs` = the candidates (supplied inputs, then outputs of kept operators not
  listed yet, in that order) that are requested outputs or resolved inputs of pruned operators.
* `Graph::run_plan` (graph.rs:880) reduced to what determines *which value each operator reads
  and which value is returned*: owned inputs start in `temp_values`, borrowed inputs (views)
  are found through `inputs_by_id`; value lookup is constant → borrowed input → `temp_values`
  (→ panic); operator outputs are inserted into `temp_values` (later insertions overwrite)
  unless their id was supplied by the caller (commit "fix: run_plan: values supplied as inputs
  take precedence over operator outputs with the same id");
  an operator error / a short output list ends the run; requested outputs are collected in
  order by constant → borrowed input → `temp_values.remove` (→ panic "missing output value").
  Operators are abstract: `sem ω id args` is the result of running operator `id` on the values
  of its dependencies, `ω` being whatever the run reads besides its arguments (an RNG, the
  clock); a *deterministic* operator is one whose `sem` does not look at `ω`.
  Not modelled here (C02): reference counts, release to the pool, in-place execution,
  by-value captures, prepacked weights, profiling, the thread pool; a value is never removed
  from `temps` before output collection.  Subgraph captures are treated like inputs (looked
  up eagerly; the code looks them up lazily inside the subgraph).
* `Graph::run` = `create_plan(allow_missing_inputs = false, captures_available = false)` ∘
  `run_plan`; `Graph::partial_run` = `create_plan(allow_missing_inputs = true,
  captures_available = false)` ∘ `prune_plan` ∘ `run_plan(pruned_plan, new_outputs)`, returning
  `new_outputs.zip(values)`.  `validate_inputs` (dtype/shape metadata) and the plan cache
  (C22) are not modelled.
* `evalAt` / `evalFull`: the naive demand-driven evaluation of a value id (constant, supplied
  value, else run the producing operator on the evaluation of its dependencies) — the reference
  the theorems of `Props/C04.lean` compare against.
-/
namespace RtenVerif.PartialRun
open RtenVerif.Graph RtenVerif.Planner

/-! ## Operators with subgraphs: the deep determinism flag

`If` and `Loop` own subgraphs.  Since commit "fix: If and Loop are deterministic only if every
operator in their subgraphs is", `Operator::is_deterministic` of these operators is the
conjunction over every operator of every branch/body, recursively.  The graph IR
(`Model/Graph.lean`, shared) has one Boolean `deterministic` per operator node and no subgraphs;
here it is read as that *deep* flag, and `DTree` is the side table that says what the flag is
made of: the operator's own flag and, per subgraph, the trees of the subgraph's operators. -/

/-- Own `is_deterministic` flag of an operator and of the operators nested in its subgraphs. -/
inductive DTree where
  | node (own : Bool) (subs : List (List DTree))
deriving Repr, Inhabited

def DTree.own : DTree → Bool
  | .node o _ => o

mutual
/-- The recursive `is_deterministic`: own flag, and every operator of every subgraph is deep-deterministic. -/
def DTree.deep : DTree → Bool
  | .node own subs => own && deepSubs subs
def deepSubs : List (List DTree) → Bool
  | [] => true
  | ops :: rest => deepOps ops && deepSubs rest
def deepOps : List DTree → Bool
  | [] => true
  | t :: ts => t.deep && deepOps ts
end

mutual
/-- The operator itself and every operator at any nesting depth below it. -/
def DTree.nodes : DTree → List DTree
  | .node own subs => .node own subs :: nodesSubs subs
def nodesSubs : List (List DTree) → List DTree
  | [] => []
  | ops :: rest => nodesOps ops ++ nodesSubs rest
def nodesOps : List DTree → List DTree
  | [] => []
  | t :: ts => t.nodes ++ nodesOps ts
end

/-! ## `prune_plan` -/

/-- Loop state of `prune_plan`. -/
structure PruneSt where
  /-- `resolved_values` (constants are handled by `rContains`). -/
  resolved : List Nat
  /-- `pruned_plan`: the operators that are kept. -/
  kept : List Nat
  /-- `candidate_outputs`. -/
  cand : List Nat
  /-- `pruned_ops_resolved_inputs`. -/
  prIn : List Nat
deriving Repr, DecidableEq, Inhabited

/-- `op_node.capture_names().any(|name| graph.get_node_id(name).is_none())`: a subgraph of the
operator captures a value that is not a node of this graph (in the IR a capture id outside the
node table stands for a name that does not resolve). -/
def hasUnresolvedCaptures (g : Graph) (op : OpNode) : Bool :=
  op.captureIds.any (fun c => !decide (c < g.nodes.length))

/-- `for id in outputs { if candidate_ids.insert(id) { candidate_outputs.push(id) } }`. -/
def addNew (cand : List Nat) : List Nat → List Nat
  | [] => cand
  | o :: os => if cand.contains o then addNew cand os else addNew (cand ++ [o]) os

/-- The operator is pruned when the loop reaches it with resolved set `r`: it is
non-deterministic, or a dependency is unresolved, or it captures a value from outside the graph. -/
def prunedAt (g : Graph) (r : List Nat) (op : OpNode) : Bool :=
  !op.deterministic || !depsResolved g r op || hasUnresolvedCaptures g op

/-- One iteration of `for &node_id in plan`. -/
def pruneStep (g : Graph) (st : PruneSt) (id : Nat) : PruneSt :=
  match getOp g id with
  | none => st
  | some op =>
    if prunedAt g st.resolved op then
      { st with prIn := st.prIn ++ (opDeps g op).filter (rContains g st.resolved) }
    else
      { resolved := st.resolved ++ opOutputs op
        kept := st.kept ++ [id]
        cand := addNew st.cand (opOutputs op)
        prIn := st.prIn }

/-- State before the loop (`ResolvedValueSet::new(graph, inputs, false)`). -/
def pruneInit (inputs : List Nat) : PruneSt :=
  { resolved := inputs, kept := [], cand := inputs, prIn := [] }

def pruneFold (g : Graph) (plan inputs : List Nat) : PruneSt :=
  plan.foldl (pruneStep g) (pruneInit inputs)

/-- The final `filter` of `prune_plan`. -/
def newOutputs (st : PruneSt) (outputs : List Nat) : List Nat :=
  st.cand.filter (fun o => outputs.contains o || st.prIn.contains o)

/-- `Planner::prune_plan`: `(pruned_plan, new_outputs)`. -/
def prunePlan (g : Graph) (plan inputs outputs : List Nat) : List Nat × List Nat :=
  let st := pruneFold g plan inputs
  (st.kept, newOutputs st outputs)

/-- `prune_plan` as it was before commit "fix: prune_plan lists a value that is both supplied and
produced only once": `candidate_outputs.extend(outputs)` without the `candidate_ids` check (kept
for the witnesses in `Props/C04.lean`). -/
def pruneStepOrig (g : Graph) (st : PruneSt) (id : Nat) : PruneSt :=
  match getOp g id with
  | none => st
  | some op =>
    if prunedAt g st.resolved op then
      { st with prIn := st.prIn ++ (opDeps g op).filter (rContains g st.resolved) }
    else
      { resolved := st.resolved ++ opOutputs op
        kept := st.kept ++ [id]
        cand := st.cand ++ opOutputs op
        prIn := st.prIn }

def prunePlanOrig (g : Graph) (plan inputs outputs : List Nat) : List Nat × List Nat :=
  let st := plan.foldl (pruneStepOrig g) (pruneInit inputs)
  (st.kept, newOutputs st outputs)

/-! ## `run_plan` -/

/-- Outcome classes of `run` / `partial_run` other than success. -/
inductive RunErr where
  | plan (e : PlanError)  -- `RunErrorImpl::PlanningError` from `create_plan`
  | opNotFound            -- "operator node not found"
  | opError               -- `RunErrorImpl::OperatorError`
  | outputMismatch        -- `RunErrorImpl::OutputMismatch`
  | panic                 -- "Invalid plan did not produce input value" / "missing output value" / "not a value or constant"
deriving Repr, DecidableEq, Inhabited

/-- Operator semantics: oracle → operator node id → values of `operator_dependencies` →
the operator's output list, or `none` for an operator error. -/
abbrev Sem (Ω V : Type) := Ω → Nat → List V → Option (List V)

section
variable {Ω V : Type}

/-- constant → borrowed input → `temp_values`; `none` is the panic. -/
def lookupVal (g : Graph) (cv : Nat → V) (views temps : List (Nat × V)) (id : Nat) : Option V :=
  match getNode g id with
  | some .constant => some (cv id)
  | some .value =>
    match views.lookup id with
    | some v => some v
    | none => temps.lookup id
  | _ => none

/-- All values or nothing. -/
def gather (lk : Nat → Option V) : List Nat → Option (List V)
  | [] => some []
  | d :: ds =>
    match lk d, gather lk ds with
    | some v, some vs => some (v :: vs)
    | _, _ => none

/-- `output_ids().zip(outputs).filter_map(|(id, v)| id.map(|id| (id, v)))`. -/
def zipOuts : List (Option Nat) → List V → List (Nat × V)
  | some o :: os, v :: vs => (o, v) :: zipOuts os vs
  | none :: os, _ :: vs => zipOuts os vs
  | _, _ => []

/-- One iteration of the executor loop: the new `temp_values`.  `supplied` = ids of all values
passed by the caller (`supplied_ids`): an operator output with such an id is not stored. -/
def stepOp (g : Graph) (sem : Sem Ω V) (ω : Ω) (cv : Nat → V) (supplied : List Nat)
    (views temps : List (Nat × V)) (id : Nat) : Except RunErr (List (Nat × V)) :=
  match getOp g id with
  | none => .error .opNotFound
  | some op =>
    match gather (lookupVal g cv views temps) (opDeps g op) with
    | none => .error .panic
    | some args =>
      match sem ω id args with
      | none => .error .opError
      | some outs =>
        if outs.length < op.outputs.length then .error .outputMismatch
        else .ok ((zipOuts op.outputs outs).reverse.filter (fun p => !supplied.contains p.1) ++ temps)

/-- The executor loop. -/
def execPlan (g : Graph) (sem : Sem Ω V) (ω : Ω) (cv : Nat → V) (supplied : List Nat)
    (views : List (Nat × V)) : List Nat → List (Nat × V) → Except RunErr (List (Nat × V))
  | [], temps => .ok temps
  | id :: rest, temps =>
    match stepOp g sem ω cv supplied views temps id with
    | .ok temps' => execPlan g sem ω cv supplied views rest temps'
    | .error e => .error e

/-- "Return the requested outputs". -/
def collect (g : Graph) (cv : Nat → V) (views : List (Nat × V)) :
    List Nat → List (Nat × V) → Except RunErr (List V)
  | [], _ => .ok []
  | o :: os, temps =>
    match getNode g o with
    | some .constant =>
      match collect g cv views os temps with
      | .ok vs => .ok (cv o :: vs)
      | .error e => .error e
    | some .value =>
      match views.lookup o with
      | some v =>
        match collect g cv views os temps with
        | .ok vs => .ok (v :: vs)
        | .error e => .error e
      | none =>
        match temps.lookup o with
        | some v =>
          match collect g cv views os (temps.filter (fun p => p.1 != o)) with
          | .ok vs => .ok (v :: vs)
          | .error e => .error e
        | none => .error .panic
    | _ => .error .panic

/-- `Graph::run_plan`. `views`: inputs passed as `ValueOrView::View`; `owned`: inputs passed
as `ValueOrView::Value` (moved into `temp_values` first, unless supplied for a constant node). -/
def runPlan (g : Graph) (sem : Sem Ω V) (ω : Ω) (cv : Nat → V) (views owned : List (Nat × V))
    (plan outs : List Nat) : Except RunErr (List V) :=
  match execPlan g sem ω cv ((views ++ owned).map (fun p => p.1)) views plan
      (owned.filter (fun p => !isConstant g p.1)) with
  | .ok temps => collect g cv views outs temps
  | .error e => .error e

/-- Options of `Graph::run` for a top-level graph. -/
def runOpts : PlanOptions := { allowMissing := false, capturesAvailable := false }
/-- Options of `Graph::partial_run`. -/
def partialOpts : PlanOptions := { allowMissing := true, capturesAvailable := false }

/-- `Graph::run`. -/
def run (g : Graph) (sem : Sem Ω V) (ω : Ω) (cv : Nat → V) (views owned : List (Nat × V))
    (outs : List Nat) : Except RunErr (List V) :=
  match createPlan g ((views ++ owned).map (fun p => p.1)) outs runOpts with
  | .error e => .error (.plan e)
  | .ok plan => runPlan g sem ω cv views owned plan outs

/-- The ids `partial_run` is going to return: `(pruned_plan, new_outputs)`. -/
def partialPlan (g : Graph) (ins outs : List Nat) : Except PlanError (List Nat × List Nat) :=
  match createPlan g ins outs partialOpts with
  | .error e => .error e
  | .ok plan => .ok (prunePlan g plan ins outs)

/-- `partialPlan` with the pre-fix `prune_plan`. -/
def partialPlanOrig (g : Graph) (ins outs : List Nat) : Except PlanError (List Nat × List Nat) :=
  match createPlan g ins outs partialOpts with
  | .error e => .error e
  | .ok plan => .ok (prunePlanOrig g plan ins outs)

/-- `Graph::partial_run`. -/
def partialRun (g : Graph) (sem : Sem Ω V) (ω : Ω) (cv : Nat → V) (views owned : List (Nat × V))
    (outs : List Nat) : Except RunErr (List (Nat × V)) :=
  match partialPlan g ((views ++ owned).map (fun p => p.1)) outs with
  | .error e => .error (.plan e)
  | .ok (kept, newOuts) =>
    match runPlan g sem ω cv views owned kept newOuts with
    | .ok vals => .ok (newOuts.zip vals)
    | .error e => .error e

/-! ## Naive full evaluation -/

/-- Demand-driven evaluation of value `id` with recursion budget `fuel`: a constant is its
value, a supplied value is itself, anything else is the output (at the position the operator
lists it) of its producing operator run on the evaluation of its dependencies. -/
def evalAt (g : Graph) (sem : Sem Ω V) (ω : Ω) (cv : Nat → V) (views : List (Nat × V)) :
    Nat → Nat → Option V
  | 0, _ => none
  | fuel + 1, id =>
    match getNode g id with
    | some .constant => some (cv id)
    | some .value =>
      match views.lookup id with
      | some v => some v
      | none =>
        match getSource g id with
        | none => none
        | some (p, op) =>
          match gather (evalAt g sem ω cv views fuel) (opDeps g op) with
          | none => none
          | some args =>
            match sem ω p args with
            | none => none
            | some outs =>
              if outs.length < op.outputs.length then none
              else (zipOuts op.outputs outs).reverse.lookup id
    | _ => none

/-- `evalFull`: budget = number of nodes + 1 (enough for every acyclic graph). -/
def evalFull (g : Graph) (sem : Sem Ω V) (ω : Ω) (cv : Nat → V) (views : List (Nat × V))
    (id : Nat) : Option V :=
  evalAt g sem ω cv views (g.nodes.length + 1) id

end

end RtenVerif.PartialRun
