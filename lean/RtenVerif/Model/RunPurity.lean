/-!
# RunPurity — who may `run_plan` hand out mutably? (src/graph.rs, src/graph/capture_env.rs)

A small, import-free, executable model of `Graph::run_plan` that keeps exactly what
property C25 needs:

* the **places** a value can live in during a run — a constant node's storage, a buffer
  the caller lent (`ValueOrView::View`), the run's own `temp_values` map, the by-value map
  of the capture environment — and, per plan step, which operand is handed to the operator
  **mutably** (taken out of its place and moved into `run_in_place` / into the by-value
  map of a subgraph's `CaptureEnv`) and which only as a **view**;
* the decisions that lead there, in code order: owned inputs are moved into
  `temp_values`; `NodeRefCount` (`u8`, sticky at 255; only `Node::Value` dependencies are
  counted, requested outputs are counted regardless of kind); the in-place candidates
  (declared positions, or for commutative operators the *last* present input with the
  largest length in `temp_values`, 0 if absent); `run_in_place` ⇔ candidates ≠ ∅ ∧ every
  candidate has count 1 ∧ (is in `temp_values` ∨ is a takeable capture); `take_value`
  (`temp_values.remove`, else `CaptureEnv::take_input` for ids in `Graph::captures`);
  by-value capture extraction for subgraph operators; operand collection
  (constant / borrowed input → `temp_values` → capture → panic); output storage; post-step
  decrement and release; output collection (constant / borrowed input / capture are
  **cloned** with `to_owned`, everything else is removed from `temp_values`).

Operators are abstract (`Ops`): the executor only ever inspects `len`.  `Ops.dirty` is the
content an operator leaves in a buffer that was handed to it mutably — the theorems hold
for *every* such function (adversarial operators).

`Variant.viewsTakeable` is **not** the code: it is the mutant in which the
`temp_values.get(id).is_some()` conjunct of `run_in_place` is dropped and `take_value`
falls back to the constant / borrowed view.  It exists only so that `Props/C25.lean` can
show that the theorems discriminate (negation witnesses).

Not modelled: timing/profiling, `OutputMask`, prepacked weights (functions of a constant),
the out-of-bounds panic of `NodeRefCount` for ids `≥ next_node_id`, the pool's contents.
-/
namespace RtenVerif.RunPurity

/-- Point update of a total map. -/
def upd {β : Type} (f : Nat → β) (k : Nat) (b : β) : Nat → β := fun x => if x = k then b else f x

/-! ## Graph description -/

/-- What `run_plan` consults of an `OperatorNode`. -/
structure Op where
  /-- `input_ids()` (`none` = omitted optional input). -/
  inputs : List (Option Nat)
  /-- `output_ids()`. -/
  outputs : List (Option Nat)
  /-- `operator().in_place_inputs()`. -/
  inPlace : List Nat
  /-- `operator().is_commutative()`. -/
  commutative : Bool
  /-- `operator_dependencies` after the inputs: captured names that resolve to a node of
  this graph and are not also inputs. -/
  capDeps : List Nat
  /-- `operator().as_subgraph_op().is_some()`. -/
  subgraph : Bool
deriving Repr, DecidableEq, Inhabited

inductive Node where
  | value
  | constant
  | op (o : Op)
  | absent
deriving Repr, DecidableEq, Inhabited

structure G where
  nodes : List Node
  /-- `Graph::captures()`. -/
  captures : List Nat
deriving Repr, Inhabited

def G.node (g : G) (id : Nat) : Node := g.nodes.getD id .absent

/-- `operator_dependencies`. -/
def opDeps (o : Op) : List Nat := o.inputs.filterMap id ++ o.capDeps

/-! ## Places, operators, runs -/

/-- Where a value that is handed out was found. -/
inductive Loc where
  /-- the run's own `temp_values` map -/
  | temp (id : Nat)
  /-- the by-value map of the capture environment (`CaptureEnv::take_input`) -/
  | capVal (id : Nat)
  /-- the storage of a constant node (only reachable as a view in the code) -/
  | const (id : Nat)
  /-- a buffer the caller passed as a view (only reachable as a view in the code) -/
  | borrowed (id : Nat)
deriving Repr, DecidableEq, Inhabited

/-- `true` for the two places whose contents the run owns. -/
def Loc.owned : Loc → Bool
  | .temp _ => true
  | .capVal _ => true
  | _ => false

/-- How an entry got into `temp_values`. -/
inductive Origin where
  | ownedIn
  | opOut (op : Nat)
deriving Repr, DecidableEq, Inhabited

structure Ops (V : Type) where
  /-- `Value::len`. -/
  len : V → Nat
  /-- `run` / `run_in_place` / `run_subgraph` of the operator at plan position `step`:
  the `(pos, value)`s passed mutably, the remaining inputs (`none` at taken / omitted
  positions), the values moved into the subgraph environment, the views of the captured
  dependencies.  `none` = the operator returned an error. -/
  run : (step op : Nat) → List (Nat × V) → List (Option V) → List (Nat × V) → List (Option V)
    → Option (List V)
  /-- What the operator leaves in a buffer it was given mutably. -/
  dirty : (step op : Nat) → V → V

inductive Variant where
  | code
  | viewsTakeable
deriving Repr, DecidableEq, Inhabited

/-- Everything fixed during one `run_plan` call. -/
structure Run (V : Type) where
  g : G
  /-- `constant.as_view()`. -/
  consts : Nat → V
  /-- inputs passed as views (`inputs_by_id`). -/
  borrowed : Nat → Option V
  /-- inputs passed by value, in argument order. -/
  owned : List (Nat × V)
  /-- `captures.get_input(name of id)`; `none` everywhere at top level. -/
  envView : Nat → Option V
  /-- `captures.take_input(name of id)` at entry (`can_take_input` ⇔ `isSome`). -/
  envTake : Nat → Option V
  /-- `env_flag("RTEN_USE_POOL", true)`. -/
  usePool : Bool := true

/-- `supplied_ids.contains(id)`: was a value supplied for `id` by the caller (owned or view)? -/
def Run.isInput {V : Type} (r : Run V) (id : Nat) : Bool :=
  (r.borrowed id).isSome || r.owned.any (fun e => e.1 == id)

/-- One value handed out mutably. `pos = some p`: in-place operand at input position `p`;
`pos = none`: moved into the subgraph's by-value capture map. -/
structure Take (V : Type) where
  pos : Option Nat
  id : Nat
  loc : Loc
  val : V
deriving DecidableEq, Repr

/-- The record of one executed plan step. -/
structure StepRec (V : Type) where
  step : Nat
  op : Nat
  inPlace : Bool
  takes : List (Take V)
deriving DecidableEq, Repr

abbrev Temps (V : Type) := List (Nat × Origin × V)

def tGet {V : Type} (ts : Temps V) (id : Nat) : Option (Origin × V) :=
  match ts with
  | [] => none
  | (k, e) :: r => if k = id then some e else tGet r id

def tRemove {V : Type} (ts : Temps V) (id : Nat) : Temps V := ts.filter (fun e => e.1 != id)

def tInsert {V : Type} (ts : Temps V) (id : Nat) (o : Origin) (v : V) : Temps V :=
  (id, o, v) :: tRemove ts id

/-- Mutable state of `run_plan`. -/
structure St (V : Type) where
  temps : Temps V
  rc : Nat → Nat
  /-- remaining by-value captures of the environment -/
  capTake : Nat → Option V
  /-- executed steps, most recent first -/
  recs : List (StepRec V)

inductive Err where
  | planErr
  | opErr (step : Nat)
  /-- `expect("input is available")` -/
  | panicTake (step : Nat)
  /-- `panic!("Invalid plan did not produce input value …")` / not a value or constant -/
  | panicInput (step : Nat)
  /-- `expect("missing output value")` / not a value or constant -/
  | panicOut
deriving Repr, DecidableEq, Inhabited

/-! ## `NodeRefCount` -/

def rcInc (c : Nat) : Nat := if c < 255 then c + 1 else 255
def rcDecCount (c : Nat) : Nat := if c = 255 then 255 else c - 1
def rcDecRet (c : Nat) : Option Nat := if c = 255 then some 255 else if c = 0 then none else some (c - 1)

def isValue (g : G) (id : Nat) : Bool :=
  match g.node id with
  | .value => true
  | _ => false

def incDeps (g : G) (rc : Nat → Nat) : List Nat → Nat → Nat
  | [] => rc
  | d :: ds => incDeps g (if isValue g d then upd rc d (rcInc (rc d)) else rc) ds

def incPlan (g : G) : (Nat → Nat) → List Nat → Option (Nat → Nat)
  | rc, [] => some rc
  | rc, i :: is =>
    match g.node i with
    | .op o => incPlan g (incDeps g rc (opDeps o)) is
    | _ => none

def incOuts (rc : Nat → Nat) : List Nat → Nat → Nat
  | [] => rc
  | o :: os => incOuts (upd rc o (rcInc (rc o))) os

/-! ## Views -/

inductive Look (V : Type) where
  | found (v : V) (loc : Loc)
  | missing
  | bad

/-- `get_value_from_constant_or_input`: constants and borrowed inputs, as views. -/
def constOrInput {V : Type} (r : Run V) (id : Nat) : Look V :=
  match r.g.node id with
  | .constant => .found (r.consts id) (.const id)
  | .value =>
    match r.borrowed id with
    | some v => .found v (.borrowed id)
    | none => .missing
  | _ => .bad

/-- `get_value_from_capture` during the run (a taken by-value capture is gone). -/
def capView {V : Type} (r : Run V) (st : St V) (id : Nat) : Option V :=
  match r.envTake id, st.capTake id with
  | some _, none => none
  | _, _ => r.envView id

/-- The view an operator gets for operand `id` (`none` = panic). -/
def viewOf {V : Type} (r : Run V) (st : St V) (id : Nat) : Option V :=
  match constOrInput r id with
  | .found v _ => some v
  | .bad => none
  | .missing =>
    match tGet st.temps id with
    | some (_, v) => some v
    | none => capView r st id

/-! ## In-place candidates, taking values -/

def enumSome : List (Option Nat) → Nat → List (Nat × Nat)
  | [], _ => []
  | none :: r, i => enumSome r (i + 1)
  | some x :: r, i => (i, x) :: enumSome r (i + 1)

/-- `Iterator::max_by_key`: the last element with the maximal key. -/
def maxByKeyLast {α : Type} (key : α → Nat) : Option α → List α → Option α
  | acc, [] => acc
  | none, x :: xs => maxByKeyLast key (some x) xs
  | some m, x :: xs => maxByKeyLast key (if key m ≤ key x then some x else some m) xs

def tempLen {V : Type} (ops : Ops V) (ts : Temps V) (id : Nat) : Nat :=
  match tGet ts id with
  | some (_, v) => ops.len v
  | none => 0

/-- `in_place_candidates`. -/
def candidates {V : Type} (ops : Ops V) (o : Op) (ts : Temps V) : List (Nat × Nat) :=
  if o.inPlace.isEmpty then []
  else if o.commutative then
    match maxByKeyLast (fun c => tempLen ops ts c.2) none (enumSome o.inputs 0) with
    | some c => [c]
    | none => []
  else
    o.inPlace.filterMap (fun pos =>
      match o.inputs[pos]? with
      | some (some id) => some (pos, id)
      | _ => none)

/-- Is a view of `id` reachable through `get_value_from_constant_or_input`? (mutant only) -/
def viewable {V : Type} (r : Run V) (id : Nat) : Bool :=
  match constOrInput r id with
  | .found _ _ => true
  | _ => false

/-- Second conjunct of the `run_in_place` condition for one candidate. -/
def available {V : Type} (var : Variant) (r : Run V) (st : St V) (id : Nat) : Bool :=
  (tGet st.temps id).isSome
    || (r.g.captures.contains id && (st.capTake id).isSome)
    || (var == .viewsTakeable && viewable r id)

def runInPlaceOk {V : Type} (var : Variant) (r : Run V) (st : St V) (cs : List (Nat × Nat)) : Bool :=
  !cs.isEmpty && cs.all (fun c => st.rc c.2 == 1 && available var r st c.2)

/-- `take_value`. -/
def takeValue {V : Type} (var : Variant) (r : Run V) (st : St V) (id : Nat) :
    Option (V × Loc × St V) :=
  if st.rc id = 1 then
    match tGet st.temps id with
    | some (_, v) => some (v, .temp id, { st with temps := tRemove st.temps id })
    | none =>
      if r.g.captures.contains id then
        match st.capTake id with
        | some v => some (v, .capVal id, { st with capTake := upd st.capTake id none })
        | none => none
      else
        match var with
        | .code => none
        | .viewsTakeable =>
          match constOrInput r id with
          | .found v loc => some (v, loc, st)
          | _ => none
  else none

/-- Take every in-place candidate (`expect("input is available")` ⇒ `none`). -/
def takeAll {V : Type} (var : Variant) (r : Run V) : St V → List (Nat × Nat) → Option (List (Take V) × St V)
  | st, [] => some ([], st)
  | st, (pos, id) :: cs =>
    match takeValue var r st id with
    | none => none
    | some (v, loc, st') =>
      match takeAll var r st' cs with
      | none => none
      | some (ts, st'') => some ({ pos := some pos, id := id, loc := loc, val := v } :: ts, st'')

/-- By-value capture extraction of a subgraph operator. -/
def takeByValue {V : Type} (var : Variant) (r : Run V) : St V → List Nat → List (Take V) × St V
  | st, [] => ([], st)
  | st, d :: ds =>
    match takeValue var r st d with
    | none => takeByValue var r st ds
    | some (v, loc, st') =>
      let res := takeByValue var r st' ds
      ({ pos := none, id := d, loc := loc, val := v } :: res.1, res.2)

/-- Operand collection; `none` = panic. -/
def collect {V : Type} (r : Run V) (st : St V) (takenPos : List Nat) :
    List (Option Nat) → Nat → Option (List (Option V))
  | [], _ => some []
  | none :: rest, pos => (collect r st takenPos rest (pos + 1)).map (none :: ·)
  | some id :: rest, pos =>
    if takenPos.contains pos then (collect r st takenPos rest (pos + 1)).map (none :: ·)
    else
      match viewOf r st id with
      | none => none
      | some v => (collect r st takenPos rest (pos + 1)).map (some v :: ·)

/-- `temp_values.extend(output_ids.zip(outputs))`, never under an id the caller supplied a value
for (fix 204e787: supplied values take precedence over operator outputs with the same id). -/
def storeOutputs {V : Type} (r : Run V) (opId : Nat) : Temps V → List (Option Nat) → List V → Temps V
  | ts, [], _ => ts
  | ts, _, [] => ts
  | ts, none :: ids, _ :: vs => storeOutputs r opId ts ids vs
  | ts, some id :: ids, v :: vs =>
    if r.isInput id then storeOutputs r opId ts ids vs
    else storeOutputs r opId (tInsert ts id (.opOut opId) v) ids vs

/-- Post-step decrement and release. -/
def decDeps {V : Type} (usePool : Bool) : St V → List Nat → St V
  | st, [] => st
  | st, d :: ds =>
    let ret := rcDecRet (st.rc d)
    let st1 := { st with rc := upd st.rc d (rcDecCount (st.rc d)) }
    let st2 := if ret = some 0 && usePool then { st1 with temps := tRemove st1.temps d } else st1
    decDeps usePool st2 ds

/-- One plan step. On failure the state reached so far is returned with the error. -/
def step {V : Type} (var : Variant) (ops : Ops V) (r : Run V) (st : St V) (k opId : Nat) :
    St V × Option Err :=
  match r.g.node opId with
  | .op o =>
    let cands := candidates ops o st.temps
    let rip := runInPlaceOk var r st cands
    match (if rip then takeAll var r st cands else some ([], st)) with
    | none => (st, some (.panicTake k))
    | some (ipTakes, st1) =>
      let bv := if o.subgraph then takeByValue var r st1 o.capDeps else ([], st1)
      let st2 := bv.2
      let takes := ipTakes ++ bv.1
      let st3 := { st2 with recs := { step := k, op := opId, inPlace := rip, takes := takes } :: st2.recs }
      match collect r st3 (ipTakes.filterMap (·.pos)) o.inputs 0 with
      | none => (st3, some (.panicInput k))
      | some ins =>
        match ops.run k opId (ipTakes.filterMap (fun t => t.pos.map (·, t.val))) ins
            (bv.1.map (fun t => (t.id, t.val))) (o.capDeps.map (viewOf r st3)) with
        | none => (st3, some (.opErr k))
        | some outs =>
          if outs.length < o.outputs.length then (st3, some (.opErr k))
          else
            let st4 := { st3 with temps := storeOutputs r opId st3.temps o.outputs outs }
            (decDeps r.usePool st4 (opDeps o), none)
  | _ => (st, some .planErr)

/-- The execution loop over (a prefix of) the plan. -/
def steps {V : Type} (var : Variant) (ops : Ops V) (r : Run V) : St V → Nat → List Nat → St V × Option Err
  | st, _, [] => (st, none)
  | st, k, opId :: rest =>
    match step var ops r st k opId with
    | (st', none) => steps var ops r st' (k + 1) rest
    | (st', some e) => (st', some e)

/-- How a requested output was produced. -/
inductive OutSrc where
  /-- `view.to_owned()` of a constant, borrowed input or capture -/
  | cloned (loc : Option Loc)
  /-- removed from `temp_values` -/
  | moved (o : Origin)
deriving Repr, DecidableEq, Inhabited

/-- Output collection; `none` = panic. -/
def collectOutputs {V : Type} (r : Run V) : St V → List Nat → Option (List (Nat × OutSrc × V))
  | _, [] => some []
  | st, o :: os =>
    match constOrInput r o with
    | .bad => none
    | .found v loc => (collectOutputs r st os).map ((o, .cloned (some loc), v) :: ·)
    | .missing =>
      match capView r st o with
      | some v => (collectOutputs r st os).map ((o, .cloned none, v) :: ·)
      | none =>
        match tGet st.temps o with
        | none => none
        | some (org, v) =>
          (collectOutputs r { st with temps := tRemove st.temps o } os).map ((o, .moved org, v) :: ·)

/-- Owned inputs are moved into `temp_values` — except a value supplied for a constant node,
which stays in `inputs` and is never looked at (fix 204e787: constants always win). -/
def initTemps {V : Type} (g : G) : Temps V → List (Nat × V) → Temps V
  | ts, [] => ts
  | ts, (id, v) :: rest =>
    if g.node id = .constant then initTemps g ts rest
    else initTemps g (tInsert ts id .ownedIn v) rest

def initSt {V : Type} (r : Run V) (plan outs : List Nat) : Option (St V) :=
  match incPlan r.g (fun _ => 0) plan with
  | none => none
  | some rc =>
    some { temps := initTemps r.g [] r.owned, rc := incOuts rc outs, capTake := r.envTake, recs := [] }

/-- Everything observable about one `run_plan` call. -/
structure Result (V : Type) where
  /-- `Ok(outputs)` or the failure class -/
  outcome : Except Err (List (Nat × OutSrc × V))
  /-- executed steps in order -/
  recs : List (StepRec V)

/-- `run_plan`. -/
def runPlan {V : Type} (var : Variant) (ops : Ops V) (r : Run V) (plan outs : List Nat) : Result V :=
  match initSt r plan outs with
  | none => { outcome := .error .planErr, recs := [] }
  | some st0 =>
    match steps var ops r st0 0 plan with
    | (st, some e) => { outcome := .error e, recs := st.recs.reverse }
    | (st, none) =>
      match collectOutputs r st outs with
      | none => { outcome := .error .panicOut, recs := st.recs.reverse }
      | some os => { outcome := .ok os, recs := st.recs.reverse }

/-- All values handed out mutably during the recorded steps. -/
def allTakes {V : Type} (recs : List (StepRec V)) : List (Take V) := recs.flatMap (·.takes)

/-! ## The memory outside the run: constants and lent buffers

If `run_plan` ever handed a constant's storage or a lent buffer to an operator mutably,
the operator would write through it.  `memAfter` applies those writes. -/

structure Mem (V : Type) where
  consts : Nat → V
  borrowed : Nat → Option V

def writeOne {V : Type} (ops : Ops V) (k op : Nat) (m : Mem V) (t : Take V) : Mem V :=
  match t.loc with
  | .const id => { m with consts := upd m.consts id (ops.dirty k op t.val) }
  | .borrowed id => { m with borrowed := upd m.borrowed id (some (ops.dirty k op t.val)) }
  | _ => m

def writeRec {V : Type} (ops : Ops V) (m : Mem V) (s : StepRec V) : Mem V :=
  s.takes.foldl (writeOne ops s.step s.op) m

/-- Constants and lent buffers after the recorded steps. -/
def memAfter {V : Type} (ops : Ops V) (m : Mem V) (recs : List (StepRec V)) : Mem V :=
  recs.foldl (writeRec ops) m

/-! ## Runs of a model over time (T2)

A model is a graph plus its constants; the only other state that survives a run is the
plan cache.  `planner` is `Planner::create_plan` (C03), abstract here. -/

structure Cached where
  ins : List Nat
  outs : List Nat
  plan : List Nat
deriving Repr, DecidableEq

def insertSorted (x : Nat) : List Nat → List Nat
  | [] => [x]
  | y :: ys => if x ≤ y then x :: y :: ys else y :: insertSorted x ys

def sortIds : List Nat → List Nat
  | [] => []
  | x :: xs => insertSorted x (sortIds xs)

/-- `CachedPlan::matches` (after fix 2040994: sorted ids equal). -/
def Cached.matches (c : Cached) (ins outs : List Nat) : Bool :=
  sortIds ins == c.ins && sortIds outs == c.outs

structure ModelSt (V : Type) where
  consts : Nat → V
  cache : Option Cached

/-- One request: inputs in argument order (`true` = passed by value), output ids. -/
structure Req (V : Type) where
  ins : List (Nat × Bool × V)
  outs : List Nat

def Req.ids {V : Type} (q : Req V) : List Nat := q.ins.map (·.1)
def Req.ownedIns {V : Type} (q : Req V) : List (Nat × V) :=
  q.ins.filterMap (fun e => if e.2.1 then some (e.1, e.2.2) else none)
def Req.borrowedFn {V : Type} (q : Req V) : Nat → Option V := fun id =>
  (q.ins.find? (fun e => e.1 == id && !e.2.1)).map (·.2.2)

/-- `get_cached_plan`: the plan that is run and the cache afterwards (`none` = planning error,
cache unchanged). -/
def getPlan (planner : List Nat → List Nat → Option (List Nat)) (cache : Option Cached)
    (ins outs : List Nat) : Option (List Nat × Option Cached) :=
  match cache with
  | some c =>
    if c.matches ins outs then some (c.plan, cache)
    else
      match planner ins outs with
      | some p => some (p, some { ins := sortIds ins, outs := sortIds outs, plan := p })
      | none => none
  | none =>
    match planner ins outs with
    | some p => some (p, some { ins := sortIds ins, outs := sortIds outs, plan := p })
    | none => none

/-- What the caller of `Model::run` can observe of one run: the result and the contents of
the buffers it lent. -/
structure Observed (V : Type) where
  outcome : Except Err (List V)
  lent : List (Option V)

def observe {V : Type} (q : Req V) (res : Result V) (m : Mem V) : Observed V :=
  { outcome := res.outcome.map (·.map (·.2.2)),
    lent := q.ins.filterMap (fun e => if e.2.1 then none else some (m.borrowed e.1)) }

/-- Run with a given plan on the model's current constants. -/
def runWith {V : Type} (var : Variant) (ops : Ops V) (g : G) (consts : Nat → V) (q : Req V)
    (plan : List Nat) : Observed V × (Nat → V) :=
  let r : Run V := { g := g, consts := consts, borrowed := q.borrowedFn, owned := q.ownedIns,
                     envView := fun _ => none, envTake := fun _ => none }
  let res := runPlan var ops r plan q.outs
  let m := memAfter ops { consts := consts, borrowed := q.borrowedFn } res.recs
  (observe q res m, m.consts)

/-- `Graph::run` on the state the previous runs left behind. -/
def runReq {V : Type} (var : Variant) (ops : Ops V) (g : G)
    (planner : List Nat → List Nat → Option (List Nat)) (m : ModelSt V) (q : Req V) :
    Observed V × ModelSt V :=
  match getPlan planner m.cache q.ids q.outs with
  | none => ({ outcome := .error .planErr, lent := q.ins.filterMap (fun e => if e.2.1 then none else some (q.borrowedFn e.1)) }, m)
  | some (plan, cache') =>
    let res := runWith var ops g m.consts q plan
    (res.1, { consts := res.2, cache := cache' })

/-- A sequence of runs on one model. -/
def runSeq {V : Type} (var : Variant) (ops : Ops V) (g : G)
    (planner : List Nat → List Nat → Option (List Nat)) : ModelSt V → List (Req V) → List (Observed V)
  | _, [] => []
  | m, q :: qs =>
    let res := runReq var ops g planner m q
    res.1 :: runSeq var ops g planner res.2 qs

end RtenVerif.RunPurity
