import RtenVerif.Model.TensorBounds
import RtenVerif.Model.ExtData

/-!
Model of the constant-construction arithmetic of the two model loaders (property C05):

* `src/model/onnx_loader.rs`: `load_constant` (shape conversion `i64 → usize`, data location,
  data-type dispatch), `make_constant`, `convert_constant`, `convert_f16_constant`,
  `tensor_from_bytes`, `tensor_from_external_data`, `tensor_from_elements`,
  `elements_from_le_bytes`;
* `src/model/rten_loader.rs`: `add_graph_constant`, `constant_data_from_flatbuffers_vec`,
  `constant_data_from_storage_offset`, and the model-segment slice of `load`;
* the pieces of `src/constant_storage.rs` / `rten-base/src/byte_cast.rs` they go through
  (`ArcSlice::from_bytes`, `cast_slice`: length divisibility and alignment).

`usize` is `UInt64` (the harness runs on 64-bit targets).  Arithmetic that the code performs
with plain `*` / `+` is modelled in two modes: release (wrap-around) and a build with overflow
checks (`ovf = true`: overflow is a panic).  `checked_*` calls are modelled by what they compute.
Tensor construction is `TensorBounds.M.tryFromData` (C06's machine model of
`TensorBase::try_from_data` after fix 977f98f); `from_data` panics where `try_from_data` errs.

Everything that can panic in the code is an explicit `Outcome.panic` here, guarded by the
condition under which the real code panics: the `unwrap`/`expect` on `ArcSlice::new`
(onnx_loader.rs `tensor_from_external_data`, rten_loader.rs both constant builders), the
`ArcSlice::from_bytes(Vec::new()).unwrap()` fallback, the slice index of `DataSlice::data()`
(external_data.rs), `spare_capacity[..n]` in `convert_f16_constant`, `chunk.try_into().unwrap()`
in the copying branch of `constant_data_from_storage_offset`, the infallible `Tensor::from_data`
of the `Constant` operator's `value_int(s)`/`value_float(s)` attributes and of attribute-to-input
promotion, and (overflow-checking builds) the unchecked `*`/`+`/`-` inside
`DynLayout::from_shape` / `Layout::min_data_len`, which `try_from_data` runs after
`checked_shape_len`.  `Props/C05.lean` proves every one of these guards unreachable.  `Old.*` is the
`.rten` constant code before the C05 `fix:` commits (kept for the negation witnesses); the
un-prefixed definitions are the code as it is now.

Assumed, not modelled: the flatbuffers verifier (every vector lies inside the model buffer, so
`ArcSlice::new(..).expect("storage does not contain data")` cannot fail), the global allocator
returning buffers aligned for `f32`/`i32`, `unsafe` slice casts, mmap.
-/
namespace RtenVerif.LoaderConst
open RtenVerif.TensorBounds

abbrev U := UInt64

/-- Classes of `LoadError` produced on the constant-construction paths. -/
inductive ErrC where
  | shape      -- "initializer has invalid shape" (negative ONNX dim)
  | location   -- "unsupported data location"
  | extmeta    -- malformed `external_data` key/value list
  | extdata    -- `ExternalDataError` from the data loader
  | dtype      -- unsupported / missing data type
  | align      -- "data has incorrect alignment" / "f16 tensor data is not 2-byte aligned"
  | mismatch   -- "length N does not match shape S"
  | offset     -- "invalid tensor data offset"
  | nodata     -- "tensor data section missing"
  | opinvalid  -- "operator error: …" (`Constant` node without / with several / with unsupported value attributes)
  deriving DecidableEq, Repr

def ErrC.toString : ErrC → String
  | .shape => "shape" | .location => "location" | .extmeta => "extmeta" | .extdata => "extdata"
  | .dtype => "dtype" | .align => "align" | .mismatch => "mismatch" | .offset => "offset"
  | .nodata => "nodata" | .opinvalid => "opinvalid"

/-- Result of building one constant: the tensor's shape and the number of elements of the
storage it was paired with; or a `LoadError`; or a panic. -/
inductive Outcome where
  | ok (shape : List Nat) (len : Nat)
  | err (c : ErrC)
  | panic
  deriving DecidableEq, Repr

/-! ## Machine arithmetic -/

/-- `a * b` on `usize`: wraps in release, panics (`none`) with overflow checks. -/
def mulMode (ovf : Bool) (a b : U) : Option U :=
  if ovf = true ∧ wordSize ≤ a.toNat * b.toNat then none else some (a * b)

/-- `a + b` on `usize`: wraps in release, panics (`none`) with overflow checks. -/
def addMode (ovf : Bool) (a b : U) : Option U :=
  if ovf = true ∧ wordSize ≤ a.toNat + b.toNat then none else some (a + b)

/-- `iter().product()` (left fold from `1`). -/
def prodMode (ovf : Bool) : List U → U → Option U
  | [], acc => some acc
  | d :: ds, acc =>
    match mulMode ovf acc d with
    | none => none
    | some a => prodMode ovf ds a

/-- `usize::checked_mul`. -/
def checkedMul (a b : U) : Option U :=
  if a.toNat * b.toNat < wordSize then some (a * b) else none

/-- `usize::checked_add`. -/
def checkedAdd (a b : U) : Option U :=
  if a.toNat + b.toNat < wordSize then some (a + b) else none

/-- `shape.iter().try_fold(init, |len, &dim| len.checked_mul(dim))`. -/
def checkedProd : List U → U → Option U
  | [], acc => some acc
  | d :: ds, acc =>
    match checkedMul acc d with
    | none => none
    | some a => checkedProd ds a

/-! ## Tensor construction step -/

/-- `try_from_data(shape, data)` with the failure mapped to a `LoadError` (`map_err`), on the
wrap-around machine model of C06 (no arithmetic panics: see `tryFromDataG`). -/
def tryFromData (shape : List U) (len : U) : Outcome :=
  match M.tryFromData shape len with
  | .ok _ => .ok (M.toNs shape) len.toNat
  | .error _ => .err .mismatch

/-- `from_data(shape, data)`: panics where `try_from_data` fails. -/
def fromData (shape : List U) (len : U) : Outcome :=
  match M.tryFromData shape len with
  | .ok _ => .ok (M.toNs shape) len.toNat
  | .error _ => .panic

/-! ### The unchecked arithmetic inside `try_from_data` (mode aware)

After `checked_shape_len(&shape)` succeeded, `L::from_shape` computes the contiguous strides
with `stride *= shape[i]` and `Layout::min_data_len` sums `(size - 1) * stride` — plain
operators, which panic on overflow in a build with overflow checks.  `none` = such a panic. -/

/-- `DynLayout::contiguous_shape_and_strides`: strides (outermost first) and the final value of
the running `stride` (the loop multiplies by the outermost size as well). -/
def stridesMode (ovf : Bool) : List U → Option (List U × U)
  | [] => some ([], 1)
  | s :: ss =>
    match stridesMode ovf ss with
    | none => none
    | some (st, run) =>
      match mulMode ovf run s with
      | none => none
      | some run' => some (run :: st, run')

/-- `usize - 1`: wraps in release, panics with overflow checks when the operand is 0. -/
def predMode (ovf : Bool) (a : U) : Option U :=
  if ovf = true ∧ a = 0 then none else some (a - 1)

/-- `.map(|(size, stride)| (size - 1) * stride).sum()` (left fold from `acc`). -/
def maxOffsetMode (ovf : Bool) : List (U × U) → U → Option U
  | [], acc => some acc
  | (size, stride) :: ds, acc =>
    match predMode ovf size with
    | none => none
    | some p =>
      match mulMode ovf p stride with
      | none => none
      | some t =>
        match addMode ovf acc t with
        | none => none
        | some a => maxOffsetMode ovf ds a

/-- `Layout::min_data_len`. -/
def minDataLenMode (ovf : Bool) (dims : List (U × U)) : Option U :=
  if M.hasZero dims then some 0
  else
    match maxOffsetMode ovf dims 0 with
    | none => none
    | some mo => addMode ovf mo 1

/-- `TensorBase::try_from_data` including the arithmetic panics of its unchecked part. -/
def tryFromDataMode (ovf : Bool) (shape : List U) (len : U) :
    Option (Except Err (List (U × U))) :=
  if (M.checkedShapeLen shape).isNone then some (.error .mismatch)
  else
    match stridesMode ovf shape with
    | none => none
    | some (st, _) =>
      match minDataLenMode ovf (shape.zip st) with
      | none => none
      | some m => some (if m ≠ len then .error .mismatch else .ok (shape.zip st))

/-- `try_from_data(..).map_err(..)` as the loaders call it, with every panic explicit. -/
def tryFromDataG (ovf : Bool) (shape : List U) (len : U) : Outcome :=
  match tryFromDataMode ovf shape len with
  | none => .panic
  | some (.ok _) => .ok (M.toNs shape) len.toNat
  | some (.error _) => .err .mismatch

/-- `Tensor::from_data(shape, data)` (infallible constructor) with every panic explicit. -/
def fromDataG (ovf : Bool) (shape : List U) (len : U) : Outcome :=
  match tryFromDataMode ovf shape len with
  | none => .panic
  | some (.ok _) => .ok (M.toNs shape) len.toNat
  | some (.error _) => .panic

/-! ### `ArcSlice` construction -/

/-- `ArcSlice::new(storage, data).is_some()` (`ConstantStorage::byte_range_of`): `slen` is the
storage length in bytes, `start` the byte offset of `data` inside the storage (`none`: `data`
lives elsewhere — e.g. the `&[]` literal `cast_slice` returns for empty input), `bytes` its
size.  Outside or overhanging slices are accepted only when empty. -/
def arcSliceNewOk (slen : Nat) (start : Option Nat) (bytes : Nat) : Bool :=
  match start with
  | some st => if st < slen ∧ st + bytes ≤ slen then true else decide (bytes = 0)
  | none => decide (bytes = 0)

/-- `ArcSlice::<T>::from_bytes(buf)` on an allocator-aligned buffer of `bytes` bytes. -/
def fromBytesLen (size bytes : U) : Option U :=
  if bytes % size = 0 then some (bytes / size) else none

/-- Result of the element-count step of a constant builder. -/
inductive Cnt where
  | n (k : U)
  | err (e : ErrC)
  | panic
  deriving DecidableEq, Repr

/-! ## ONNX initializers -/

inductive DType where
  | float | int32 | uint8 | int8      -- stored natively (`make_constant`)
  | int64 | bool | double             -- converted element-wise (`convert_constant`)
  | float16                           -- `convert_f16_constant`
  | unsupported | missing
  deriving DecidableEq, Repr

/-- Lengths (element counts) of the typed repeated fields of a `TensorProto`. -/
structure Typed where
  floats : U
  int32s : U
  int64s : U
  doubles : U
  deriving DecidableEq, Repr

/-- Which typed field `load_constant` passes for a data type. -/
def typedLen (t : Typed) : DType → U
  | .float => t.floats
  | .int32 | .uint8 | .int8 | .bool | .float16 => t.int32s
  | .int64 => t.int64s
  | .double => t.doubles
  | .unsupported | .missing => 0

/-- Which `DataLoader` resolves external data. -/
inductive LoaderKind where
  | mem | mmap | file
  deriving DecidableEq, Repr

/-- The data-location part of a `TensorProto`. -/
inductive Ext where
  | none                           -- `data_location` absent or DEFAULT
  | badLocation                    -- a `data_location` other than DEFAULT / EXTERNAL
  | badMeta                        -- `external_data_location` failed
  | loadErr                        -- the `DataLoader` refused the path (not found / not allowed)
  /-- `offset`/`length` into an external data file / registered buffer of `bufLen` bytes, resolved
  by the loader of the entry point used: `MemLoader` (`load`), `MmapLoader` (`load_mmap`),
  `FileLoader` (`load_file`) -/
  | ref (kind : LoaderKind) (length offset bufLen : U)
  deriving DecidableEq, Repr

structure OnnxInit where
  dims : List Int
  dtype : DType
  raw : Option U          -- length of `raw_data`, if the field is present
  ext : Ext
  typed : Typed
  deriving DecidableEq, Repr

/-- `initializer.dims.iter().map(|&dim| dim.try_into()).collect::<Result<Vec<usize>, _>>()`. -/
def onnxShape : List Int → Option (List U)
  | [] => some []
  | d :: ds =>
    if d < 0 then none
    else match onnxShape ds with
      | none => none
      | some s => some (UInt64.ofNat d.toNat :: s)

/-- A `DataSlice`: byte range `start..stop` of a storage of `bufLen` bytes. -/
structure ExtSlice where
  start : Nat
  stop : Nat
  bufLen : Nat
  deriving DecidableEq, Repr

/-- Data location + `DataLoader::load`, on C21's models of the three loaders:
`MemLoader` (`ExtData.memRange`), `MmapLoader` (`ExtData.mmapRange`: same check, but the range
end is recomputed as `offset as usize + length as usize`), `FileLoader` (`ExtData.fileRead` into
a fresh buffer; the `DataSlice` is `0..bytes.len()` of that buffer). -/
def loadExt : Ext → Except ErrC (Option ExtSlice)
  | .none => .ok none
  | .badLocation => .error .location
  | .badMeta => .error .extmeta
  | .loadErr => .error .extdata
  | .ref .mem len off buf =>
    match ExtData.memRange off.toNat len.toNat buf.toNat with
    | .error _ => .error .extdata
    | .ok (s, e) => .ok (some ⟨s, e, buf.toNat⟩)
  | .ref .mmap len off buf =>
    match ExtData.mmapRange off.toNat len.toNat buf.toNat with
    | .error _ => .error .extdata
    | .ok (s, e) => .ok (some ⟨s, e, buf.toNat⟩)
  | .ref .file len off buf =>
    match ExtData.fileRead (List.replicate buf.toNat 0) off.toNat len.toNat with
    | .error _ => .error .extdata
    | .ok bytes => .ok (some ⟨0, bytes.length, bytes.length⟩)

/-- `MmapLoader::load` computes the range end with a plain `+` (external_data.rs:449): with
overflow checks that is a panic when `offset + length` does not fit in `usize`. -/
def extAddPanics (ovf : Bool) : Ext → Bool
  | .ref .mmap len off _ => ovf && decide (wordSize ≤ off.toNat + len.toNat)
  | _ => false

/-- `DataSlice::data()` = `&self.storage.data()[self.bytes.clone()]`: `(length, offset)` of the
byte slice, `none` = the slice index panics. -/
def ExtSlice.data (d : ExtSlice) : Option (U × U) :=
  if d.start ≤ d.stop ∧ d.stop ≤ d.bufLen then
    some (UInt64.ofNat (d.stop - d.start), UInt64.ofNat d.start)
  else none

/-- `cast_slice::<u8, T>` on `bytes` bytes starting `offset` bytes into a buffer whose base is
aligned for `T` (`size = size_of::<T>() = align_of::<T>()`): element count, or `none`. -/
def castSliceLen (size bytes offset : U) : Option U :=
  if bytes = 0 then some 0
  else if offset % size = 0 ∧ bytes % size = 0 then some (bytes / size)
  else none

/-- Element count of `make_constant::<T>` (`size = size_of::<T>()`): `tensor_from_bytes`,
`tensor_from_external_data` or the typed field. -/
def makeCount (size : U) (raw : Option U) (ext : Option ExtSlice) (typed : U) : Cnt :=
  match raw with
  | some b =>
    -- `ArcSlice::from_bytes(data)`: "data has incorrect alignment" if the length is no multiple
    match fromBytesLen size b with
    | some k => .n k
    | none => .err .align
  | none =>
    match ext with
    | some d =>
      match d.data with
      | none => .panic                                  -- external_data.rs `DataSlice::data`
      | some (bytes, off) =>
        match castSliceLen size bytes off with
        | some k =>
          -- `ArcSlice::new(data.storage.clone(), elements).unwrap()`
          if arcSliceNewOk d.bufLen (if bytes = 0 then none else some off.toNat)
              (k.toNat * size.toNat) then .n k
          else .panic
        | none =>
          if bytes = 0 then
            -- `ArcSlice::from_bytes(Vec::new()).unwrap()`
            match fromBytesLen size 0 with
            | some k => .n k
            | none => .panic
          else .err .align
    | none => .n typed

/-- Element count of `convert_constant` (`n` = size of a source element):
`elements_from_le_bytes` ignores a trailing partial chunk. -/
def convCount (n : U) (raw : Option U) (ext : Option ExtSlice) (typed : U) : Cnt :=
  match raw with
  | some b => .n (b / n)
  | none =>
    match ext with
    | some d =>
      match d.data with
      | none => .panic
      | some (bytes, _) => .n (bytes / n)
    | none => .n typed

/-- Capacity of `Vec::with_capacity(n)`.  The allocator contract (capacity ≥ n) is ASSUMED here
by taking the capacity to be exactly `n`; the `spare_capacity[..n]` guard below is therefore a
restated contract, not a proved fact (listed in `modelled_not_verified`). -/
def vecCapacity (n : U) : U := n

/-- Element count of `convert_f16_constant`: `external_data.map(|d| d.data())` is evaluated
first (even if `raw_data` is present), `f16_slice_from_le_bytes` = `cast_slice` to `u16`, then
`Vec::with_capacity(n)` and `&mut spare_capacity[..n]`. -/
def f16Count (raw : Option U) (ext : Option ExtSlice) (typed : U) : Cnt :=
  let extBytes : Option (Option (U × U)) := ext.map ExtSlice.data
  match extBytes with
  | some none => .panic
  | _ =>
    let cast : Option (Option U) :=
      match raw, extBytes with
      | some b, _ => some (castSliceLen 2 b 0)
      | none, some (some (bytes, off)) => some (castSliceLen 2 bytes off)
      | none, _ => none
    match cast with
    | some none => .err .align
    | some (some k) => if k.toNat ≤ (vecCapacity k).toNat then .n k else .panic
    | none => if typed.toNat ≤ (vecCapacity typed).toNat then .n typed else .panic

/-- Constant from an element-count step. -/
def finish (ovf : Bool) (shape : List U) : Cnt → Outcome
  | .n k => tryFromDataG ovf shape k
  | .err e => .err e
  | .panic => .panic

/-- The element-count step `load_constant` dispatches to. -/
def onnxCount (c : OnnxInit) (ext : Option ExtSlice) : Cnt :=
  let t := typedLen c.typed c.dtype
  match c.dtype with
  | .float | .int32 => makeCount 4 c.raw ext t
  | .uint8 | .int8 => makeCount 1 c.raw ext t
  | .int64 | .double => convCount 8 c.raw ext t
  | .bool => convCount 1 c.raw ext t
  | .float16 => f16Count c.raw ext t
  | .unsupported | .missing => .err .dtype

/-- `load_constant`. -/
def loadConstant (ovf : Bool) (c : OnnxInit) : Outcome :=
  match onnxShape c.dims with
  | none => .err .shape
  | some shape =>
    match loadExt c.ext with
    | .error e => .err e
    | .ok ext =>
      if extAddPanics ovf c.ext then .panic else finish ovf shape (onnxCount c ext)

/-- Size in bytes of one *source* element of a byte-backed initializer. -/
def srcElemSize : DType → Nat
  | .float | .int32 => 4
  | .uint8 | .int8 | .bool => 1
  | .int64 | .double => 8
  | .float16 => 2
  | .unsupported | .missing => 1

/-! ### Constants that do not go through `load_constant` -/

/-- Value attributes of a `Constant` node, in file order. -/
inductive ConstAttr where
  | value (t : OnnxInit)     -- `value`: a TensorProto → `load_constant`
  | valueInt                 -- `Tensor::from_data(&[], vec![x])`
  | valueInts (n : U)        -- `Tensor::from_data(&[n], ints)` with `n = ints.len()`
  | valueFloat
  | valueFloats (n : U)
  | valueNoTensor            -- `value` without a tensor payload
  | unnamed                  -- attribute without a name: skipped
  | other                    -- sparse_tensor, value_string(s), anything else
  deriving DecidableEq, Repr

/-- The constant one value attribute builds. -/
def constAttr (ovf : Bool) : ConstAttr → Outcome
  | .value t => loadConstant ovf t
  | .valueInt | .valueFloat => fromDataG ovf [] 1
  | .valueInts n | .valueFloats n => fromDataG ovf [n] n
  | .valueNoTensor | .other | .unnamed => .err .opinvalid

/-- Attribute loop of `load_constant_from_constant_op`. -/
def constOpGo (ovf : Bool) : List ConstAttr → Option (List Nat × Nat) → Outcome
  | [], none => .err .opinvalid            -- "value attribute not found"
  | [], some (s, n) => .ok s n
  | .unnamed :: as, cur => constOpGo ovf as cur
  | a :: as, cur =>
    match constAttr ovf a with
    | .ok s n => if cur.isSome then .err .opinvalid else constOpGo ovf as (some (s, n))
    | o => o

/-- `load_constant_from_constant_op` (`outputs` = number of outputs of the node). -/
def constOp (ovf : Bool) (outputs : Nat) (attrs : List ConstAttr) : Outcome :=
  if outputs ≠ 1 then .err .opinvalid else constOpGo ovf attrs none

/-- `constant_from_attr_value`: an attribute promoted to an operator input
(`Tensor::from(scalar)` → `from_scalar`, `Tensor::from(vec)` → `from_data(&[len], vec)`). -/
def attrConstant (ovf : Bool) : Option U → Outcome
  | none => fromDataG ovf [] 1
  | some n => fromDataG ovf [n] n

/-! ## `.rten` constants -/

/-- Element type of a `.rten` constant: the `dtype` field for constants stored in the tensor
data segment, the union member for inline constants. -/
inductive RType where
  | f32 | i32 | i8 | u8 | other
  deriving DecidableEq, Repr

def RType.size : RType → U
  | .f32 | .i32 => 4
  | .i8 | .u8 => 1
  | .other => 1

inductive RData where
  /-- inline vector with `n` elements whose bytes start `start` bytes into the file (the
  flatbuffers verifier guarantees the vector lies inside the buffer) -/
  | inline (n : U) (start : U)
  | stored (dataOffset : U)  -- `data_offset` into the tensor data segment
  deriving DecidableEq, Repr

structure RtenConst where
  dims : List U              -- `u32` values widened with `as_usize`
  ty : RType
  data : RData
  deriving DecidableEq, Repr

/-- What the constant is loaded from: the header's `tensor_data_offset` (absent for V1 files)
and the length of the whole file (`storage.data().len()`). -/
structure RtenFile where
  tensorDataOffset : Option U
  storageLen : U
  deriving DecidableEq, Repr

/-- `cast_le_bytes(bytes)` succeeds: empty, or (little-endian host) aligned with a length that
is a multiple of the element size.  The storage base is allocator/page aligned. -/
def castLeOk (size bytes offset : U) : Bool :=
  bytes == 0 || (offset % size == 0 && bytes % size == 0)

/-- Both branches of the two `.rten` constant builders for `bytes` bytes at `offset`:
view (`ArcSlice::new(..).expect("storage does not contain data")`) or copy
(`bytes.chunks(size).map(|chunk| T::from_le_bytes(chunk.try_into().unwrap()))`). -/
def rtenCount (size bytes offset slen : U) : Cnt :=
  if castLeOk size bytes offset then
    if arcSliceNewOk slen.toNat (if bytes = 0 then none else some offset.toNat) bytes.toNat then
      .n (bytes / size)
    else .panic
  else if bytes % size = 0 then .n (bytes / size)
  else .panic

/-- `constant_data_from_storage_offset::<T>`: `try_fold(1, checked_mul)` over the dims, then
`checked_mul(size_of::<T>())`, `checked_add(offset)`, `slice::get`, view or copy,
`try_from_data`. -/
def fromStorageOffset (ovf : Bool) (size : U) (shape : List U) (offset storageLen : U) : Outcome :=
  match checkedProd shape 1 with
  | none => .err .offset
  | some n =>
    match checkedMul n size with
    | none => .err .offset
    | some byteLen =>
      match checkedAdd offset byteLen with
      | none => .err .offset
      | some stop =>
        if stop ≤ storageLen then finish ovf shape (rtenCount size byteLen offset storageLen)
        else .err .offset

/-- `constant_data_from_flatbuffers_vec`: `n` elements at `start`; the copying branch collects
`fb_vec.iter()` (no chunking). -/
def inlineCount (size n start slen : U) : Cnt :=
  if castLeOk size (n * size) start then
    if arcSliceNewOk slen.toNat (if n * size = 0 then none else some start.toNat)
        (n * size).toNat then .n n
    else .panic
  else .n n

/-- `add_graph_constant`. -/
def addGraphConstant (ovf : Bool) (f : RtenFile) (c : RtenConst) : Outcome :=
  match c.data with
  | .stored dataOffset =>
    match f.tensorDataOffset with
    | none => .err .nodata
    | some tdo =>
      match checkedAdd tdo dataOffset with
      | none => .err .offset
      | some offset =>
        if c.ty = .other then .err .dtype
        else fromStorageOffset ovf c.ty.size c.dims offset f.storageLen
  | .inline n start =>
    if c.ty = .other then .err .dtype
    else finish ovf c.dims (inlineCount c.ty.size n start f.storageLen)

namespace Old

/-- `constant_data_from_storage_offset::<T>` before the fix: unchecked `product`, `* size_of`,
`offset + byte_len`; `slice::get(offset..end)`; `from_data`. -/
def fromStorageOffset (ovf : Bool) (size : U) (shape : List U) (offset storageLen : U) : Outcome :=
  match prodMode ovf shape 1 with
  | none => .panic
  | some n =>
    match mulMode ovf n size with
    | none => .panic
    | some byteLen =>
      match addMode ovf offset byteLen with
      | none => .panic
      | some stop =>
        if offset ≤ stop ∧ stop ≤ storageLen then fromData shape ((stop - offset) / size)
        else .err .offset

/-- `add_graph_constant` before the fix (inline constants use `from_data`). -/
def addGraphConstant (ovf : Bool) (f : RtenFile) (c : RtenConst) : Outcome :=
  match c.data with
  | .stored dataOffset =>
    match f.tensorDataOffset with
    | none => .err .nodata
    | some tdo =>
      match checkedAdd tdo dataOffset with
      | none => .err .offset
      | some offset =>
        if c.ty = .other then .err .dtype
        else fromStorageOffset ovf c.ty.size c.dims offset f.storageLen
  | .inline n _ =>
    if c.ty = .other then .err .dtype else fromData c.dims n

end Old

/-! ## Whole graph: constants are built in order, the first failure aborts the load -/

/-- `load_graph`'s loop restricted to constant nodes: the shapes/lengths of all constants, or
the first non-`ok` outcome. -/
def loadAll {α : Type} (build : α → Outcome) : List α → Except Outcome (List (List Nat × Nat))
  | [] => .ok []
  | c :: cs =>
    match build c with
    | .ok s n =>
      match loadAll build cs with
      | .ok rest => .ok ((s, n) :: rest)
      | .error e => .error e
    | o => .error o

/-! ## The model-segment slice of `rten_loader::load` -/

/-- `&file_data[offset..offset + len]` for an accepted header: `none` = panic (overflow with
overflow checks, or slice index out of range). -/
def modelSlice (ovf : Bool) (modelOffset modelLen fileLen : U) : Option (Nat × Nat) :=
  match addMode ovf modelOffset modelLen with
  | none => none
  | some stop =>
    if modelOffset ≤ stop ∧ stop ≤ fileLen then some (modelOffset.toNat, stop.toNat) else none

end RtenVerif.LoaderConst
