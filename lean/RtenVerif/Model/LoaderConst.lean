import RtenVerif.Model.TensorBounds

/-!
Model of the constant-construction arithmetic of the two model loaders (property C05):

* `src/model/onnx_loader.rs`: `load_constant` (shape conversion `i64 → usize`, data location,
  data-type dispatch), `make_constant`, `convert_constant`, `convert_f16_constant`,
  `tensor_from_bytes`, `tensor_from_external_data`, `tensor_from_elements`,
  `elements_from_le_bytes`;
* `src/model/rten_loader.rs`: `add_graph_constant`, `constant_data_from_flatbuffers_vec`,
  `constant_data_from_storage_offset`, and the model-segment slice of `load`;
* the pieces of `src/constant_storage.rs` / `rten-base/src/byte_cast.rs` they go through
  (`ArcSlice::from_bytes`, `cast_slice`: length divisibility and alignment).

`usize` is `UInt64` (the harness runs on 64-bit targets).  Arithmetic that the code performs
with plain `*` / `+` is modelled in two modes: release (wrap-around) and a build with overflow
checks (`ovf = true`: overflow is a panic).  `checked_*` calls are modelled by what they compute.
Tensor construction is `TensorBounds.M.tryFromData` (C06's machine model of
`TensorBase::try_from_data` after fix 977f98f); `from_data` panics where `try_from_data` errs.

Everything that can panic in the code is an explicit `Outcome.panic` here.  `Old.*` is the
`.rten` constant code before the C05 `fix:` commits (kept for the negation witnesses); the
un-prefixed definitions are the code as it is now.

Assumed, not modelled: the flatbuffers verifier (every vector lies inside the model buffer, so
`ArcSlice::new(..).expect("storage does not contain data")` cannot fail), the global allocator
returning buffers aligned for `f32`/`i32`, `unsafe` slice casts, mmap.
-/
namespace RtenVerif.LoaderConst
open RtenVerif.TensorBounds

abbrev U := UInt64

/-- Classes of `LoadError` produced on the constant-construction paths. -/
inductive ErrC where
  | shape      -- "initializer has invalid shape" (negative ONNX dim)
  | location   -- "unsupported data location"
  | extmeta    -- malformed `external_data` key/value list
  | extdata    -- `ExternalDataError` from the data loader
  | dtype      -- unsupported / missing data type
  | align      -- "data has incorrect alignment" / "f16 tensor data is not 2-byte aligned"
  | mismatch   -- "length N does not match shape S"
  | offset     -- "invalid tensor data offset"
  | nodata     -- "tensor data section missing"
  deriving DecidableEq, Repr

def ErrC.toString : ErrC → String
  | .shape => "shape" | .location => "location" | .extmeta => "extmeta" | .extdata => "extdata"
  | .dtype => "dtype" | .align => "align" | .mismatch => "mismatch" | .offset => "offset"
  | .nodata => "nodata"

/-- Result of building one constant: the tensor's shape and the number of elements of the
storage it was paired with; or a `LoadError`; or a panic. -/
inductive Outcome where
  | ok (shape : List Nat) (len : Nat)
  | err (c : ErrC)
  | panic
  deriving DecidableEq, Repr

/-! ## Machine arithmetic -/

/-- `a * b` on `usize`: wraps in release, panics (`none`) with overflow checks. -/
def mulMode (ovf : Bool) (a b : U) : Option U :=
  if ovf = true ∧ wordSize ≤ a.toNat * b.toNat then none else some (a * b)

/-- `a + b` on `usize`: wraps in release, panics (`none`) with overflow checks. -/
def addMode (ovf : Bool) (a b : U) : Option U :=
  if ovf = true ∧ wordSize ≤ a.toNat + b.toNat then none else some (a + b)

/-- `iter().product()` (left fold from `1`). -/
def prodMode (ovf : Bool) : List U → U → Option U
  | [], acc => some acc
  | d :: ds, acc =>
    match mulMode ovf acc d with
    | none => none
    | some a => prodMode ovf ds a

/-- `usize::checked_mul`. -/
def checkedMul (a b : U) : Option U :=
  if a.toNat * b.toNat < wordSize then some (a * b) else none

/-- `usize::checked_add`. -/
def checkedAdd (a b : U) : Option U :=
  if a.toNat + b.toNat < wordSize then some (a + b) else none

/-- `shape.iter().try_fold(init, |len, &dim| len.checked_mul(dim))`. -/
def checkedProd : List U → U → Option U
  | [], acc => some acc
  | d :: ds, acc =>
    match checkedMul acc d with
    | none => none
    | some a => checkedProd ds a

/-! ## Tensor construction step -/

/-- `try_from_data(shape, data)` with the failure mapped to a `LoadError` (`map_err`). -/
def tryFromData (shape : List U) (len : U) : Outcome :=
  match M.tryFromData shape len with
  | .ok _ => .ok (M.toNs shape) len.toNat
  | .error _ => .err .mismatch

/-- `from_data(shape, data)`: panics where `try_from_data` fails. -/
def fromData (shape : List U) (len : U) : Outcome :=
  match M.tryFromData shape len with
  | .ok _ => .ok (M.toNs shape) len.toNat
  | .error _ => .panic

/-! ## ONNX initializers -/

inductive DType where
  | float | int32 | uint8 | int8      -- stored natively (`make_constant`)
  | int64 | bool | double             -- converted element-wise (`convert_constant`)
  | float16                           -- `convert_f16_constant`
  | unsupported | missing
  deriving DecidableEq, Repr

/-- Lengths (element counts) of the typed repeated fields of a `TensorProto`. -/
structure Typed where
  floats : U
  int32s : U
  int64s : U
  doubles : U
  deriving DecidableEq, Repr

/-- Which typed field `load_constant` passes for a data type. -/
def typedLen (t : Typed) : DType → U
  | .float => t.floats
  | .int32 | .uint8 | .int8 | .bool | .float16 => t.int32s
  | .int64 => t.int64s
  | .double => t.doubles
  | .unsupported | .missing => 0

/-- The data-location part of a `TensorProto`, after the data loader ran. -/
inductive Ext where
  | none                           -- `data_location` absent or DEFAULT
  | badLocation                    -- a `data_location` other than DEFAULT / EXTERNAL
  | badMeta                        -- `external_data_location` failed
  | loadErr                        -- the `DataLoader` returned an error
  | ok (bytes : U) (offset : U)    -- a slice of `bytes` bytes at `offset` in an aligned buffer
  deriving DecidableEq, Repr

structure OnnxInit where
  dims : List Int
  dtype : DType
  raw : Option U          -- length of `raw_data`, if the field is present
  ext : Ext
  typed : Typed
  deriving DecidableEq, Repr

/-- `initializer.dims.iter().map(|&dim| dim.try_into()).collect::<Result<Vec<usize>, _>>()`. -/
def onnxShape : List Int → Option (List U)
  | [] => some []
  | d :: ds =>
    if d < 0 then none
    else match onnxShape ds with
      | none => none
      | some s => some (UInt64.ofNat d.toNat :: s)

/-- The data source the constructors use: `raw_data` wins over external data, which wins over
the typed field. -/
inductive Src where
  | raw (bytes : U)
  | ext (bytes : U) (offset : U)
  | typed (n : U)
  deriving DecidableEq, Repr

def pickSrc (c : OnnxInit) : Src :=
  match c.raw, c.ext with
  | some b, _ => .raw b
  | none, .ok b o => .ext b o
  | none, _ => .typed (typedLen c.typed c.dtype)

/-- `cast_slice::<u8, T>` on `bytes` bytes starting `offset` bytes into a buffer whose base is
aligned for `T` (`size = size_of::<T>() = align_of::<T>()`): element count, or `none`. -/
def castSliceLen (size bytes offset : U) : Option U :=
  if bytes = 0 then some 0
  else if offset % size = 0 ∧ bytes % size = 0 then some (bytes / size)
  else none

/-- Element count for `make_constant::<T>` (`size = size_of::<T>()`):
`tensor_from_bytes` (`ArcSlice::from_bytes`: allocator-aligned buffer, length must be a
multiple of the element size), `tensor_from_external_data` (`cast_slice`; the
`data.is_empty()` fallback is dead code because `cast_slice` accepts every empty slice), or the
typed field. -/
def directLen (size : U) : Src → Option U
  | .raw b => if b % size = 0 then some (b / size) else none
  | .ext b o => castSliceLen size b o
  | .typed n => some n

/-- Element count for `convert_constant` (`n = size of the source element`):
`elements_from_le_bytes` ignores a trailing partial chunk. -/
def convLen (n : U) : Src → U
  | .raw b => b / n
  | .ext b _ => b / n
  | .typed k => k

/-- Element count for `convert_f16_constant`: `f16_slice_from_le_bytes` = `cast_slice` to `u16`. -/
def f16Len : Src → Option U
  | .raw b => castSliceLen 2 b 0
  | .ext b o => castSliceLen 2 b o
  | .typed n => some n

/-- `load_constant`. -/
def loadConstant (c : OnnxInit) : Outcome :=
  match onnxShape c.dims with
  | none => .err .shape
  | some shape =>
    match c.ext with
    | .badLocation => .err .location
    | .badMeta => .err .extmeta
    | .loadErr => .err .extdata
    | _ =>
      let src := pickSrc c
      let direct (size : U) : Outcome :=
        match directLen size src with
        | none => .err .align
        | some n => tryFromData shape n
      match c.dtype with
      | .float | .int32 => direct 4
      | .uint8 | .int8 => direct 1
      | .int64 | .double => tryFromData shape (convLen 8 src)
      | .bool => tryFromData shape (convLen 1 src)
      | .float16 =>
        match f16Len src with
        | none => .err .align
        | some n => tryFromData shape n
      | .unsupported | .missing => .err .dtype

/-- Size in bytes of one *source* element of a byte-backed initializer. -/
def srcElemSize : DType → Nat
  | .float | .int32 => 4
  | .uint8 | .int8 | .bool => 1
  | .int64 | .double => 8
  | .float16 => 2
  | .unsupported | .missing => 1

/-! ## `.rten` constants -/

/-- Element type of a `.rten` constant: the `dtype` field for constants stored in the tensor
data segment, the union member for inline constants. -/
inductive RType where
  | f32 | i32 | i8 | u8 | other
  deriving DecidableEq, Repr

def RType.size : RType → U
  | .f32 | .i32 => 4
  | .i8 | .u8 => 1
  | .other => 1

inductive RData where
  | inline (n : U)           -- inline vector with `n` elements
  | stored (dataOffset : U)  -- `data_offset` into the tensor data segment
  deriving DecidableEq, Repr

structure RtenConst where
  dims : List U              -- `u32` values widened with `as_usize`
  ty : RType
  data : RData
  deriving DecidableEq, Repr

/-- What the constant is loaded from: the header's `tensor_data_offset` (absent for V1 files)
and the length of the whole file (`storage.data().len()`). -/
structure RtenFile where
  tensorDataOffset : Option U
  storageLen : U
  deriving DecidableEq, Repr

/-- `constant_data_from_storage_offset::<T>` (both the aligned-view and the copy branch build
`bytes.len() / size_of::<T>()` elements): `try_fold(1, checked_mul)` over the dims, then
`checked_mul(size_of::<T>())`, `checked_add(offset)`, `slice::get`, `try_from_data`. -/
def fromStorageOffset (size : U) (shape : List U) (offset storageLen : U) : Outcome :=
  match checkedProd shape 1 with
  | none => .err .offset
  | some n =>
    match checkedMul n size with
    | none => .err .offset
    | some byteLen =>
      match checkedAdd offset byteLen with
      | none => .err .offset
      | some stop =>
        if stop ≤ storageLen then tryFromData shape (byteLen / size) else .err .offset

/-- `add_graph_constant`. -/
def addGraphConstant (f : RtenFile) (c : RtenConst) : Outcome :=
  match c.data with
  | .stored dataOffset =>
    match f.tensorDataOffset with
    | none => .err .nodata
    | some tdo =>
      match checkedAdd tdo dataOffset with
      | none => .err .offset
      | some offset =>
        if c.ty = .other then .err .dtype
        else fromStorageOffset c.ty.size c.dims offset f.storageLen
  | .inline n =>
    if c.ty = .other then .err .dtype else tryFromData c.dims n

namespace Old

/-- `constant_data_from_storage_offset::<T>` before the fix: unchecked `product`, `* size_of`,
`offset + byte_len`; `slice::get(offset..end)`; `from_data`. -/
def fromStorageOffset (ovf : Bool) (size : U) (shape : List U) (offset storageLen : U) : Outcome :=
  match prodMode ovf shape 1 with
  | none => .panic
  | some n =>
    match mulMode ovf n size with
    | none => .panic
    | some byteLen =>
      match addMode ovf offset byteLen with
      | none => .panic
      | some stop =>
        if offset ≤ stop ∧ stop ≤ storageLen then fromData shape ((stop - offset) / size)
        else .err .offset

/-- `add_graph_constant` before the fix (inline constants use `from_data`). -/
def addGraphConstant (ovf : Bool) (f : RtenFile) (c : RtenConst) : Outcome :=
  match c.data with
  | .stored dataOffset =>
    match f.tensorDataOffset with
    | none => .err .nodata
    | some tdo =>
      match checkedAdd tdo dataOffset with
      | none => .err .offset
      | some offset =>
        if c.ty = .other then .err .dtype
        else fromStorageOffset ovf c.ty.size c.dims offset f.storageLen
  | .inline n =>
    if c.ty = .other then .err .dtype else fromData c.dims n

end Old

/-! ## Whole graph: constants are built in order, the first failure aborts the load -/

/-- `load_graph`'s loop restricted to constant nodes: the shapes/lengths of all constants, or
the first non-`ok` outcome. -/
def loadAll {α : Type} (build : α → Outcome) : List α → Except Outcome (List (List Nat × Nat))
  | [] => .ok []
  | c :: cs =>
    match build c with
    | .ok s n =>
      match loadAll build cs with
      | .ok rest => .ok ((s, n) :: rest)
      | .error e => .error e
    | o => .error o

/-! ## The model-segment slice of `rten_loader::load` -/

/-- `&file_data[offset..offset + len]` for an accepted header: `none` = panic (overflow with
overflow checks, or slice index out of range). -/
def modelSlice (ovf : Bool) (modelOffset modelLen fileLen : U) : Option (Nat × Nat) :=
  match addMode ovf modelOffset modelLen with
  | none => none
  | some stop =>
    if modelOffset ≤ stop ∧ stop ≤ fileLen then some (modelOffset.toNat, stop.toNat) else none

end RtenVerif.LoaderConst
