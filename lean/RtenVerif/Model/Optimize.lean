/-!
# C01 — rewriting framework of `src/optimize.rs` (import-free model)

A graph is a plan-ordered list of operator nodes over value ids. An operator reads its inputs
**and** the values captured (by name) by its nested subgraphs (`If`/`Loop` bodies): the second
kind of read is invisible to `Graph::get_consumers`, which is why `apply_fusion` has a separate
"captured by a subgraph" guard. Values and operator semantics are abstract (`Sem`).

`usedOutside` / `capturedRemoved` transcribe `find_operator_output_used_outside_subgraph` and
`find_operator_output_captured_by_subgraph`; `fuse` is the rewrite `apply_fusion` performs for a
`Fusion::Op` (remove the unfused operators, add the fused operator producing the same output
ids); `substReads` is `replace_value` (used by `Fusion::Identity` / `Fusion::Constant`, constant
propagation and shape-inference constants).
-/
namespace RtenVerif.Optimize

abbrev Id := Nat

/-- Operator node. `oid` is the node id of the operator itself. -/
structure Op (K : Type) where
  oid : Nat
  kind : K
  ins : List Id
  caps : List Id
  outs : List Id
deriving Repr, DecidableEq

variable {K V : Type}

/-- Everything the operator's result depends on. -/
def Op.reads (o : Op K) : List Id := o.ins ++ o.caps

abbrev Env (V : Type) := Id → Option V

/-- Abstract operator semantics: values of `ins ++ caps` ↦ values of `outs` (or failure). -/
structure Sem (K V : Type) where
  app : K → List V → Option (List V)

def readAll (E : Env V) : List Id → Option (List V)
  | [] => some []
  | i :: is =>
    match E i, readAll E is with
    | some v, some vs => some (v :: vs)
    | _, _ => none

def bind (E : Env V) : List Id → List V → Env V
  | i :: is, v :: vs => fun j => if j = i then some v else bind E is vs j
  | _, _ => E

/-- Result of one operator in environment `E`: `none` = the operator (hence the run) fails. -/
def result (sem : Sem K V) (E : Env V) (o : Op K) : Option (List V) :=
  match readAll E o.reads with
  | none => none
  | some vs =>
    match sem.app o.kind vs with
    | some rs => if rs.length = o.outs.length then some rs else none
    | none => none

/-- A failing operator leaves its outputs undefined (and so fails every dependent). -/
def step (sem : Sem K V) (E : Env V) (o : Op K) : Env V :=
  match result sem E o with
  | none => E
  | some rs => bind E o.outs rs

/-- Denotation of a plan: `eval G env id`. -/
def run (sem : Sem K V) : List (Op K) → Env V → Env V
  | [], E => E
  | o :: os, E => run sem os (step sem E o)

def outsAll : List (Op K) → List Id
  | [] => []
  | o :: os => o.outs ++ outsAll os

/-- Plan well-formedness: an operator reads nothing produced by itself or later operators,
and output ids are not produced twice. -/
def WF : List (Op K) → Prop
  | [] => True
  | o :: os => (∀ i ∈ o.reads, i ∉ outsAll (o :: os)) ∧ (∀ i ∈ o.outs, i ∉ outsAll os) ∧ WF os

/-! ## The guards of `apply_fusion`, as coded -/

/-- `Graph::get_consumers`: operators with `v` among their *inputs* (captures are not edges). -/
def consumers (g : List (Op K)) (v : Id) : List Nat :=
  (g.filter (fun o => o.ins.contains v)).map (·.oid)

/-- `find_operator_output_used_outside_subgraph(graph, subgraph_ops, output_ids)`. -/
def usedOutside (g : List (Op K)) (graphOuts : List Id) (sub : List Nat) (outIds : List Id) : Option Id :=
  ((g.filter (fun o => sub.contains o.oid)).flatMap (·.outs)).find? fun out =>
    !outIds.contains out &&
      (graphOuts.contains out || (consumers g out).any (fun c => !sub.contains c))

/-- `Graph::subgraph_capture_value_ids` (capture names already resolved to ids). -/
def capturedValues (g : List (Op K)) : List Id := g.flatMap (·.caps)

/-- `find_operator_output_captured_by_subgraph(graph, captured, unfused_ops, fusion)`;
`preserved` = the fused operator's output ids (`[]` for Identity / Constant fusions). -/
def capturedRemoved (g : List (Op K)) (sub : List Nat) (preserved : List Id) : Option Id :=
  ((g.filter (fun o => sub.contains o.oid)).flatMap (·.outs)).find? fun out =>
    (capturedValues g).contains out && !preserved.contains out

/-- Both guards pass. -/
def guardsOk (g : List (Op K)) (graphOuts : List Id) (sub : List Nat) (outIds : List Id) : Bool :=
  (usedOutside g graphOuts sub outIds).isNone && (capturedRemoved g sub outIds).isNone

/-- The rewrite for `Fusion::Op`: drop the unfused operators, put the fused operator where the
last unfused operator was (`remove_nodes` + `add_op`; the plan is recomputed by the planner — any
topological order has the same denotation, so the model fixes this one). -/
def fuse (g : List (Op K)) (sub : List Nat) (last : Nat) (f : Op K) : List (Op K) :=
  g.flatMap fun o => if o.oid = last then [f] else if sub.contains o.oid then [] else [o]

/-- `GraphMutator::replace_value(old, new)` on operator inputs (captures are by name and are
not rewritten — hence `preserved = []` for Identity fusions). -/
def substIns (old new : Id) (o : Op K) : Op K :=
  { o with ins := o.ins.map fun i => if i = old then new else i }

def substOuts (old new : Id) (outs : List Id) : List Id :=
  outs.map fun i => if i = old then new else i

end RtenVerif.Optimize
