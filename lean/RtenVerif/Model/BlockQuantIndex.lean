/-!
# Index arithmetic of the block-quantized kernels (property C37)

Import-free.  Pure `Nat` transcriptions of *which scale index* each kernel of
`rten-gemm/src/block_quant.rs` uses for the element at position `k` (K index) of a column.

Common notation: `epv` = elements per SIMD "vblock" (`u8_ops.len() * 2`: 32 generic, 64 AVX2,
128 AVX-512), `bs` = elements per quantization block, `nb` = blocks per column, `K = nb * bs`.
Elements are processed `epv` at a time by the main loop (`chunks_exact`), the remaining `K % epv`
elements by a scalar tail.

* `VecDotMatrix::eval_impl` (Float): a vblock is widened into 8 sub-vectors of `epv / 8` elements;
  `SCALES_PER_VBLOCK = max(epv / bs, 1) ∈ {1,2,4,8}`; sub-vector `i` of vblock `v` uses
  `col_scales[v >> vecs_per_block_log2]` (1), `[2v + i/4]` (2), `[4v + i/2]` (4), `[8v + i]` (8);
  tail: `tail_scales = col_scales[len − nb % S ..]`, pair `p` uses
  `tail_scales[p / (pairs / tail_scales.len())]`.
* `VecDotMatrixQuant::eval_impl` (Int8): the vblock is split into a low and a high half of
  `epv / 2` elements, each reduced 4 elements per i32 lane (`L = epv / 8` lanes); scale per lane:
  one for both halves (1), one per half (2), `select` by `first_n_mask(L/2)` (4), by the quarter
  masks (8); tail: whole blocks, block `i` uses `col_scales[len − nb % blocks_per_vec + i]`.
-/
namespace RtenVerif.BlockQuantIndex

/-- `SCALES_PER_VBLOCK`. -/
def scalesPerVblock (epv bs : Nat) : Nat := max (epv / bs) 1

/-- Number of elements handled by the vectorised main loop. -/
def mainLen (epv bs nb : Nat) : Nat := (nb * bs / epv) * epv

/-- `vecs_per_block_log2` (`ilog2` of `bs / epv`, 0 when that is 0). -/
def vecsPerBlockLog2 (epv bs : Nat) : Nat := if bs / epv ≠ 0 then Nat.log2 (bs / epv) else 0

/-- Scale index used by the Float kernel's main loop for sub-vector `i` (of 8) of vblock `v`. -/
def floatMainIdx (epv bs v i : Nat) : Nat :=
  match scalesPerVblock epv bs with
  | 1 => v >>> vecsPerBlockLog2 epv bs
  | 2 => v * 2 + i / 4
  | 4 => v * 4 + i / 2
  | 8 => v * 8 + i
  | _ => 0   -- `unreachable!`

/-- Scale index used by the Float kernel's scalar tail for pair `p` of the remainder. -/
def floatTailIdx (epv bs nb p : Nat) : Nat :=
  let nTailScales := nb % scalesPerVblock epv bs
  let pairs := (nb * bs - mainLen epv bs nb) / 2
  let elementsPerScale := pairs / nTailScales
  (nb - nTailScales) + p / elementsPerScale

/-- **Float kernel**: scale index used for element `k`. -/
def scaleIdxFloat (epv bs nb k : Nat) : Nat :=
  if k < mainLen epv bs nb then floatMainIdx epv bs (k / epv) ((k % epv) / (epv / 8))
  else floatTailIdx epv bs nb ((k - mainLen epv bs nb) / 2)

/-- Seeded slip C37_a: `block_idx = vblock_idx * 4` in the 8-scales arm. -/
def scaleIdxFloatSeedA (epv bs nb k : Nat) : Nat :=
  if k < mainLen epv bs nb then
    (if scalesPerVblock epv bs = 8 then (k / epv) * 4 + (k % epv) / (epv / 8)
     else floatMainIdx epv bs (k / epv) ((k % epv) / (epv / 8)))
  else floatTailIdx epv bs nb ((k - mainLen epv bs nb) / 2)

/-- Seeded slip C37_b: `elements_per_scale = pairs >> tail_scales.len().ilog2()`. -/
def scaleIdxFloatSeedB (epv bs nb k : Nat) : Nat :=
  if k < mainLen epv bs nb then floatMainIdx epv bs (k / epv) ((k % epv) / (epv / 8))
  else
    let nTailScales := nb % scalesPerVblock epv bs
    let pairs := (nb * bs - mainLen epv bs nb) / 2
    (nb - nTailScales) + ((k - mainLen epv bs nb) / 2) / (pairs >>> Nat.log2 nTailScales)

/-- `ops.select(x, y, first_n_mask(n))` at lane `l`: `x` for the first `n` lanes. -/
def selectLane (n l x y : Nat) : Nat := if l < n then x else y

/-- Block (0..3) whose scale lane `l` of an `L`-lane accumulator gets in the 8-scales arm:
`select(select(s0, s1, quad), select(s2, s3, three_quads), half)`. -/
def quadLane (L l : Nat) : Nat :=
  selectLane (L / 2) l (selectLane (L / 4) l 0 1) (selectLane (3 * L / 4) l 2 3)

/-- Scale index used by the Int8 kernel's main loop for i32 lane `l` of the low (`half = 0`) or
high (`half = 1`) accumulator of vblock `v`; `L = epv / 8` lanes. -/
def int8MainIdx (epv bs v half l : Nat) : Nat :=
  let L := epv / 8
  match scalesPerVblock epv bs with
  | 1 => v >>> vecsPerBlockLog2 epv bs
  | 2 => v * 2 + half
  | 4 => v * 4 + 2 * half + selectLane (L / 2) l 0 1
  | 8 => v * 8 + 4 * half + quadLane L l
  | _ => 0

/-- `blocks_per_vec = epv.div_ceil(bs)`. -/
def blocksPerVec (epv bs : Nat) : Nat := (epv + bs - 1) / bs

/-- **Int8 kernel**: scale index (column scale and LHS row scale alike) used for element `k`. -/
def scaleIdxInt8 (epv bs nb k : Nat) : Nat :=
  if k < mainLen epv bs nb then
    int8MainIdx epv bs (k / epv) ((k % epv) / (epv / 2)) (((k % epv) % (epv / 2)) / 4)
  else
    let nTailBlocks := nb % blocksPerVec epv bs
    (nb - nTailBlocks) + (k - mainLen epv bs nb) / bs

end RtenVerif.BlockQuantIndex
