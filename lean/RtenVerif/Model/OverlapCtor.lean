import RtenVerif.Model.Overlap
import RtenVerif.Model.Layout

/-!
Model of *where* `rten-tensor` applies the overlap check when tensors are constructed from
explicit shapes/strides and when their storage is converted (`tensor.rs`, `storage.rs`), for
property C08 ("accepted … for mutable tensors … or explicit construction").

* `Kind`   – the storage types of the API (`Vec<T>`, `ViewData`, `ViewMutData`,
  `CowData::{Borrowed, Owned}`, `Arc<Vec<T>>`) with `Storage::MUTABLE` as coded;
* `Table`  – which `OverlapPolicy` a constructor applies, keyed by the storage's `MUTABLE`;
  `codeTable` is the code, `seededTable` the variant "from_data_with_strides checks only
  mutable storage";
* `construct` / `convert` – the constructors and the storage-converting methods, as coded
  (`convert false` = `into_owned` before fix `f62aa2c`, which moved the layout of an owned
  copy-on-write tensor into a `Vec` tensor unconditionally).
Imports only Model files, so it links into `model_C08`.
-/
namespace RtenVerif.OverlapCtor
open RtenVerif.Overlap RtenVerif.Layout

inductive Kind
  | vec | view | viewMut | cowB | cowO | arc
  deriving DecidableEq, Repr

/-- `Storage::MUTABLE` (storage.rs): `Vec`, `ViewMutData`, `Arc<Vec>` are `true`;
`ViewData` and `CowData` are `false`. -/
def Kind.mutable : Kind → Bool
  | .vec | .viewMut | .arc => true
  | .view | .cowB | .cowO => false

/-- Constructors taking explicit strides or a pre-built layout:
`from_data_with_strides`, `from_slice_with_strides`, `from_storage_and_layout`. -/
inductive Ctor
  | fdws | fsws | fsl
  deriving DecidableEq, Repr

inductive Policy
  | allow | disallow
  deriving DecidableEq, Repr

/-- Overlap policy per constructor, keyed by the storage's `MUTABLE`. -/
abbrev Table := Ctor → Bool → Policy

/-- The code: `from_data_with_strides` always `DisallowOverlap`; `from_slice_with_strides`
`AllowOverlap` (views only); `from_storage_and_layout` asserts
`!S::MUTABLE || !may_have_internal_overlap(..)`. -/
def codeTable : Table
  | .fdws, _ => .disallow
  | .fsws, _ => .allow
  | .fsl, m => if m then .disallow else .allow

/-- Seeded variant C08_c: `from_data_with_strides` picks the policy from `S::MUTABLE`. -/
def seededTable : Table
  | .fdws, m => if m then .disallow else .allow
  | .fsws, _ => .allow
  | .fsl, m => if m then .disallow else .allow

/-- `from_slice_with_strides` exists only for `ViewData` storage. -/
def Ctor.applies : Ctor → Kind → Bool
  | .fsws, k => k == .view
  | _, _ => true

/-- A tensor as far as this property is concerned: storage kind and layout. -/
structure T where
  kind : Kind
  dims : List (Nat × Nat)
  deriving DecidableEq, Repr

/-- Explicit construction over storage of `dataLen` elements.  `none` = `Err(..)` / panic
(`MayOverlap`, `StorageTooShort`, failed assertion) or the constructor does not exist for
that storage type. -/
def construct (P : Table) (c : Ctor) (k : Kind) (dims : List (Nat × Nat)) (dataLen : Nat) :
    Option T :=
  if !c.applies k then none
  else if P c k.mutable == .disallow && mayOverlap dims then none
  else if dataLen < minDataLen dims then none
  else some ⟨k, dims⟩

/-- The contiguous layout of the same shape (`L::from_shape(self.shape())`). -/
def fresh (d : List (Nat × Nat)) : List (Nat × Nat) := contigDims (sizes d)

/-- Storage-converting methods (those that consume or copy the tensor). -/
inductive Conv
  | intoCow | intoArc | intoOwned | toTensor | asCow | clone | toContiguous | reshapedSame
  | intoShapeSame | intoContiguous | intoDyn | intoPermutedRev
  deriving DecidableEq, Repr

/-- The conversions as coded; `none` = the method does not exist for that storage type.
`fixed = false` is `into_owned` before fix `f62aa2c`. -/
def convert (fixed : Bool) : Conv → T → Option T
  -- `Tensor::into_cow`: `CowData::Owned(data)`, layout kept
  | .intoCow, ⟨.vec, d⟩ => some ⟨.cowO, d⟩
  -- `Tensor::into_arc`: layout kept
  | .intoArc, ⟨.vec, d⟩ => some ⟨.arc, d⟩
  -- `CowTensor::into_owned`: the owned arm moves data and layout (after the fix only when the
  -- layout has no internal overlap); otherwise `to_vec` + `from_shape`
  | .intoOwned, ⟨.cowO, d⟩ =>
    if fixed && mayOverlap d then some ⟨.vec, fresh d⟩ else some ⟨.vec, d⟩
  | .intoOwned, ⟨.cowB, d⟩ => some ⟨.vec, fresh d⟩
  -- `AsView::to_tensor`: always a copy into a fresh contiguous tensor
  | .toTensor, ⟨_, d⟩ => some ⟨.vec, fresh d⟩
  -- `TensorView::as_cow`: borrowed, layout kept
  | .asCow, ⟨.view, d⟩ => some ⟨.cowB, d⟩
  -- `Clone` (`Vec`, `ViewData`, `Arc<Vec>` storage): same kind, same layout
  | .clone, ⟨.vec, d⟩ => some ⟨.vec, d⟩
  | .clone, ⟨.view, d⟩ => some ⟨.view, d⟩
  | .clone, ⟨.arc, d⟩ => some ⟨.arc, d⟩
  -- `TensorView::to_contiguous`: borrows when contiguous, else copies
  | .toContiguous, ⟨.view, d⟩ =>
    if isContiguous d then some ⟨.cowB, d⟩ else some ⟨.cowO, fresh d⟩
  -- `TensorView::reshaped(same shape)`: `from_shape` layout; borrows when contiguous
  | .reshapedSame, ⟨.view, d⟩ =>
    if isContiguous d then some ⟨.cowB, fresh d⟩ else some ⟨.cowO, fresh d⟩
  -- `Tensor::into_shape(same shape)`: contiguous result, `from_shape` layout
  | .intoShapeSame, ⟨.vec, d⟩ => some ⟨.vec, fresh d⟩
  -- `Tensor::into_contiguous`: `make_contiguous` keeps a contiguous layout, else copies
  | .intoContiguous, ⟨.vec, d⟩ => if isContiguous d then some ⟨.vec, d⟩ else some ⟨.vec, fresh d⟩
  -- `into_dyn` (also `into_rank`, `assume_init`): any storage, storage and layout kept
  | .intoDyn, t => some t
  -- `into_permuted(reversed axes)`: any storage, storage kept, dims permuted
  | .intoPermutedRev, ⟨k, d⟩ => some ⟨k, d.reverse⟩
  | _, _ => none

/-- Public constructor / conversion methods of `tensor.rs` whose result is a tensor, with
their classification (used by the `cov` request: a method the source gains shows up as
unclassified).  `checked` = runs the overlap check for mutable storage; `fresh` = result has
a new contiguous layout; `keep` = storage kind's mutability unchanged or towards immutable,
layout unchanged or derived by view operations (C09); `cow2vec` = immutable → mutable. -/
def apiTable : List (String × String) := [
  ("from_data", "fresh"), ("try_from_data", "fresh"), ("from_storage_and_layout", "checked"),
  ("from_storage_and_layout_unchecked", "crate-private"),
  ("from_data_with_strides", "checked"), ("from_slice_with_strides", "immutable"),
  ("into_dyn", "keep"), ("with_new_axis", "keep"), ("with_axis_removed", "keep"),
  ("into_rank", "keep"), ("into_permuted", "keep"),
  ("as_dyn_mut", "keep"), ("axis_chunks_mut", "keep"), ("index_axis_mut", "keep"),
  ("nd_view_mut", "keep"), ("permuted_mut", "keep"), ("reshaped_mut", "fresh"),
  ("slice_axis_mut", "keep"), ("slice_mut", "keep"), ("try_slice_mut", "keep"),
  ("view_mut", "keep"), ("weakly_checked_view_mut", "keep"), ("split_at_mut", "keep"),
  ("arange", "fresh"), ("from_vec", "fresh"), ("into_cow", "to-immutable"),
  ("into_arc", "keep"), ("into_shape", "fresh"), ("into_shape_in", "fresh"),
  ("from_fn", "fresh"), ("from_fn_in", "fresh"),
  ("from_simple_fn", "fresh"), ("from_simple_fn_in", "fresh"), ("from_scalar", "fresh"),
  ("full", "fresh"), ("full_in", "fresh"), ("into_contiguous", "fresh-or-keep"),
  ("rand", "fresh"), ("zeros", "fresh"), ("zeros_in", "fresh"), ("uninit", "fresh"),
  ("uninit_in", "fresh"), ("with_capacity", "fresh"), ("with_capacity_in", "fresh"),
  ("into_owned", "cow2vec"), ("into_owned_in", "cow2vec"), ("assume_init", "keep"),
  ("init_from", "keep"), ("as_dyn", "immutable"), ("as_cow", "immutable"),
  ("broadcast", "immutable"), ("try_broadcast", "immutable"), ("index_axis", "immutable"),
  ("nd_view", "immutable"), ("permuted", "immutable"), ("reshaped", "immutable"),
  ("reshaped_in", "immutable"), ("slice", "immutable"), ("slice_axis", "immutable"),
  ("try_slice", "immutable"), ("try_slice_dyn", "immutable"), ("squeezed", "immutable"),
  ("split_at", "immutable"), ("to_contiguous", "immutable"),
  ("to_contiguous_in", "immutable"), ("transposed", "immutable"), ("view", "immutable"),
  ("weakly_checked_view", "immutable"), ("map", "fresh"), ("to_shape", "fresh"),
  ("to_tensor", "fresh"), ("to_tensor_in", "fresh"), ("slice_copy", "fresh"),
  ("slice_copy_in", "fresh"), ("from_iter", "fresh"), ("from", "fresh-or-keep"),
  ("try_from", "keep"), ("clone", "keep"), ("expanded_layout", "checked"),
  ("mut:clip_dim", "shrink"), ("mut:insert_axis", "viewop"), ("mut:remove_axis", "viewop"),
  ("mut:merge_axes", "viewop"), ("mut:move_axis", "viewop"), ("mut:permute", "viewop"),
  ("mut:transpose", "viewop"), ("mut:append", "grow-checked"), ("mut:make_contiguous", "fresh"),
  ("mut:reshape", "fresh"), ("mut:reshape_in", "fresh"),
  ("concat", "fresh"), ("map_in", "fresh"), ("mut_view_ref", "keep"), ("view_ref", "immutable")]

end RtenVerif.OverlapCtor
