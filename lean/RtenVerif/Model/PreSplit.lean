/-
Model of `rten-text/src/pre_tokenizers.rs`, `Split::pre_tokenize`, over the regex match list
`(start, end)` (byte ranges, in order) that `find_iter` yields on the text of `len` bytes.
Chunks are byte ranges of the input.  Import-free.

* `invert = true`: the matches are the chunks (`Remove`), with the text between them as extra
  chunks (`Isolate`); empty matches / empty in-between text are skipped.
* `invert = false`: `regex.split(text)` yields the text between the matches (`gaps`); the loop
  then treats those pieces exactly as the inverted loop treats matches.
`Split::gpt2()` and `ByteLevel { use_regex }` are `invert = true`, `Remove`.
-/
namespace RtenVerif.PreSplit

/-- The loop of `Split::pre_tokenize` over pieces `(s, e)` with `last_match_end = last`,
followed by the trailing `Isolate` chunk. -/
def splitInvert (isolate : Bool) (len : Nat) : List (Nat × Nat) → Nat → List (Nat × Nat)
  | [], last => if isolate && last < len then [(last, len)] else []
  | (s, e) :: ms, last =>
    (if isolate && last < s then [(last, s)] else []) ++ (if s < e then [(s, e)] else []) ++
      splitInvert isolate len ms e

/-- `regex.split(text)`: the text before, between and after the matches. -/
def gaps (len : Nat) : List (Nat × Nat) → Nat → List (Nat × Nat)
  | [], g => [(g, len)]
  | (s, e) :: ms, g => (g, s) :: gaps len ms e

/-- `Split::pre_tokenize`. -/
def split (invert isolate : Bool) (len : Nat) (ms : List (Nat × Nat)) : List (Nat × Nat) :=
  if invert then splitInvert isolate len ms 0 else splitInvert isolate len (gaps len ms 0) 0

/-- Regex contract: matches in order, non-overlapping, within the text. -/
def Ordered : List (Nat × Nat) → Nat → Nat → Prop
  | [], last, len => last ≤ len
  | (s, e) :: ms, last, len => last ≤ s ∧ s ≤ e ∧ Ordered ms e len

/-- The matches cover the text without gaps: the first starts at `last`, each starts where the
previous one ended, the last one ends at `len`. -/
def noGaps : List (Nat × Nat) → Nat → Nat → Bool
  | [], last, len => last == len
  | (s, e) :: ms, last, len => s == last && noGaps ms e len

end RtenVerif.PreSplit
