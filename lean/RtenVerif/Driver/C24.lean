import RtenVerif.Driver.Util
import RtenVerif.Model.ControlFlow

/-! `model_C24`: parses a nested If/Loop program (grammar in harness/rten/src/bin/c24.rs) and
evaluates it with the *naive* semantics `evalG` (ONNX reading of empty scan outputs) over int32
tensors. -/
namespace RtenVerif.Driver.C24
open RtenVerif.Driver RtenVerif.ControlFlow

abbrev G := Graph Prim Tens
abbrev O := Op Prim Tens

def takeN {α : Type} (p : List String → Option (α × List String)) : Nat → List String → Option (List α × List String)
  | 0, ts => some ([], ts)
  | n + 1, ts => do
    let (x, ts) ← p ts
    let (xs, ts) ← takeN p n ts
    pure (x :: xs, ts)

def pNat : List String → Option (Nat × List String)
  | t :: ts => t.toNat?.map (·, ts)
  | [] => none

def pInt : List String → Option (Int × List String)
  | t :: ts => t.toInt?.map (·, ts)
  | [] => none

def pNats (ts : List String) : Option (List Nat × List String) := do
  let (n, ts) ← pNat ts
  takeN pNat n ts

def pTensor (ts : List String) : Option (Tens × List String) := do
  let (shape, ts) ← pNats ts
  let (data, ts) ← takeN pInt (shape.foldl (· * ·) 1) ts
  pure (⟨shape, data⟩, ts)

def pOptNat : List String → Option (Option Nat × List String)
  | "-" :: ts => some (none, ts)
  | ts => (pNat ts).map (fun (n, ts) => (some n, ts))

def pKind : String → Option Prim
  | "add" => some .add | "sub" => some .sub | "mul" => some .mul | "neg" => some .neg
  | "abs" => some .abs | "id" => some .ident | "less" => some .less | "mm" => some .matmul
  | _ => none

mutual
partial def pGraph : List String → Option (G × List String)
  | "G" :: ts => do
    let (ins, ts) ← pNats ts
    let (nc, ts) ← pNat ts
    let (cs, ts) ← takeN (fun ts => do
      let (n, ts) ← pNat ts
      let (t, ts) ← pTensor ts
      pure ((n, t), ts)) nc ts
    let (no, ts) ← pNat ts
    let (ops, ts) ← takeN pOp no ts
    let (outs, ts) ← pNats ts
    pure (.mk ins cs ops outs, ts)
  | _ => none
partial def pOp : List String → Option (O × List String)
  | "P" :: k :: ts => do
    let k ← pKind k
    let (ins, ts) ← pNats ts
    let (out, ts) ← pNat ts
    pure (.prim k ins out, ts)
  | "I" :: ts => do
    let (c, ts) ← pNat ts
    let (t, ts) ← pGraph ts
    let (e, ts) ← pGraph ts
    let (outs, ts) ← pNats ts
    pure (.ifOp c t e outs, ts)
  | "L" :: ts => do
    let (trip, ts) ← pOptNat ts
    let (cond, ts) ← pOptNat ts
    let (car, ts) ← pNats ts
    let (b, ts) ← pGraph ts
    let (outs, ts) ← pNats ts
    pure (.loop trip cond car b outs, ts)
  | _ => none
end

def showT (t : Tens) : String :=
  joinWith "x" (t.shape.map toString) ++ ":" ++ joinWith "," (t.data.map toString)

def showErr : Err → String
  | .outputMismatch => "err:output_mismatch"
  | .missing => "panic"
  | .fuel => "err:fuel"
  | _ => "err:op"

def handle (line : String) : String :=
  match words line with
  | "run" :: _tag :: ts =>
    match pGraph ts with
    | some (g, "ARGS" :: rest) =>
      match takeN pTensor g.inputs.length rest with
      | some (args, []) =>
        match evalG intSem true 16 [] g args with
        | .ok vs => "ok " ++ joinWith ";" (vs.map showT)
        | .error e => showErr e
      | _ => "bad-request"
    | _ => "bad-request"
  | _ => "bad-request"

end RtenVerif.Driver.C24

/-- `model_C24`: reads request lines on stdin, prints the model's answer per line. -/
def main : IO Unit := RtenVerif.Driver.loopPure RtenVerif.Driver.C24.handle
