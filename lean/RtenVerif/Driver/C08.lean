import RtenVerif.Driver.Util
import RtenVerif.Model.Overlap

namespace RtenVerif.Driver.C08
open RtenVerif.Driver RtenVerif.Overlap

def parseDim (w : String) : Option (Nat × Nat) :=
  match w.splitOn "," with
  | [a, b] => do let x ← a.toNat?; let y ← b.toNat?; pure (x, y)
  | _ => none

def handle (line : String) : String :=
  match words line with
  | "ov" :: ds =>
    match ds.mapM parseDim with
    | some dims => s!"overlap={b01 (mayOverlap dims)} contig={b01 (isContiguous dims)}"
    | none => "bad-request"
  | _ => "bad-request"

def run : IO Unit := loopPure handle

end RtenVerif.Driver.C08
