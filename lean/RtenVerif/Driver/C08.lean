import RtenVerif.Driver.Util
import RtenVerif.Model.Overlap
import RtenVerif.Model.Layout

namespace RtenVerif.Driver.C08
open RtenVerif.Driver RtenVerif.Overlap RtenVerif.Layout RtenVerif.Arr

def parseDim (w : String) : Option (Nat × Nat) :=
  match w.splitOn "," with
  | [a, b] => do let x ← a.toNat?; let y ← b.toNat?; pure (x, y)
  | _ => none

/-! `dv <shape|-> | <op> | <op> …`: a contiguous view of `shape` pushed through the layout
model of C09 (`Model/Layout.lean`), the operations `Props/C08Views.lean` proves `Derived` to be
closed under.  Answer: the resulting `(size,stride)` list and the overlap verdict on it.
Op syntax = C09's (`perm 2,1,0`, `tr`, `mv a b`, `sl i:k r:s:e:t …`, `sa a s e`, `ix a i`,
`spl a m`, `spr a m`, `ia k`, `ra k`, `sq`, `ma`). -/

def parseItem (w : String) : Option SliceItem :=
  match w.splitOn ":" with
  | ["i", x] => x.toInt?.map SliceItem.index
  | ["r", a, b, c] => do
    let s ← a.toInt?
    let e ← if b == "_" then some none else b.toInt?.map some
    let t ← c.toInt?
    pure (SliceItem.range ⟨s, e, t⟩)
  | _ => none

def applyOp (ws : List String) (v : View) : Option (Except Err View) :=
  match ws with
  | ["perm", p] => do pure (permuted v (← parseNatList "," p))
  | ["tr"] => some (.ok (transposed v))
  | ["mv", a, b] => do pure (moveAxis v (← a.toNat?) (← b.toNat?))
  | "sl" :: items => do pure (trySlice v (← items.mapM parseItem))
  | ["sa", a, b, c] => do pure (sliceAxis v (← a.toNat?) (← b.toNat?) (← c.toNat?))
  | ["ix", a, b] => do pure (indexAxis v (← a.toNat?) (← b.toNat?))
  | ["spl", a, m] => do pure (splitAt v (← a.toNat?) (← m.toNat?) false)
  | ["spr", a, m] => do pure (splitAt v (← a.toNat?) (← m.toNat?) true)
  | ["ia", k] => do pure (insertAxis v (← k.toNat?))
  | ["ra", k] => do pure (removeAxis v (← k.toNat?))
  | ["sq"] => some (.ok (squeezed v))
  | ["ma"] => some (.ok (mergedAxes v))
  | _ => none

def runChain : List String → View → String
  | [], v =>
    let ds := joinWith " " (v.dims.map (fun d => s!"{d.1},{d.2}"))
    s!"dims={ds} overlap={b01 (mayOverlap v.dims)} contig={b01 (isContiguous v.dims)}"
  | op :: ops, v =>
    match applyOp (words op) v with
    | none => "bad-request"
    | some (.error _) => "err"
    | some (.ok v') => runChain ops v'

def handle (line : String) : String :=
  match words line with
  | "ov" :: ds =>
    match ds.mapM parseDim with
    | some dims => s!"overlap={b01 (mayOverlap dims)} contig={b01 (isContiguous dims)}"
    | none => "bad-request"
  | "dv" :: _ =>
    match (line.drop 3).toString.splitOn " | " with
    | sh :: ops =>
      let w := sh.trimAscii.toString
      match (if w == "-" then some [] else parseNatList "," w) with
      | some shape => runChain ops ⟨0, numel shape, contigDims shape⟩
      | none => "bad-request"
    | [] => "bad-request"
  | _ => "bad-request"

end RtenVerif.Driver.C08

/-- `model_C08`: reads request lines on stdin, prints the model's answer per line. -/
def main : IO Unit := RtenVerif.Driver.loopPure RtenVerif.Driver.C08.handle
