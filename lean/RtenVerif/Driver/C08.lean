import RtenVerif.Driver.Util
import RtenVerif.Model.Overlap
import RtenVerif.Model.Layout
import RtenVerif.Model.OverlapCtor

namespace RtenVerif.Driver.C08
open RtenVerif.Driver RtenVerif.Overlap RtenVerif.Layout RtenVerif.Arr RtenVerif.OverlapCtor

def parseDim (w : String) : Option (Nat × Nat) :=
  match w.splitOn "," with
  | [a, b] => do let x ← a.toNat?; let y ← b.toNat?; pure (x, y)
  | _ => none

/-! `dv <shape|-> | <op> | <op> …`: a contiguous view of `shape` pushed through the layout
model of C09 (`Model/Layout.lean`), the operations `Props/C08Views.lean` proves `Derived` to be
closed under.  Answer: the resulting `(size,stride)` list and the overlap verdict on it.
Op syntax = C09's (`perm 2,1,0`, `tr`, `mv a b`, `sl i:k r:s:e:t …`, `sa a s e`, `ix a i`,
`spl a m`, `spr a m`, `ia k`, `ra k`, `sq`, `ma`). -/

def parseItem (w : String) : Option SliceItem :=
  match w.splitOn ":" with
  | ["i", x] => x.toInt?.map SliceItem.index
  | ["r", a, b, c] => do
    let s ← a.toInt?
    let e ← if b == "_" then some none else b.toInt?.map some
    let t ← c.toInt?
    pure (SliceItem.range ⟨s, e, t⟩)
  | _ => none

def applyOp (ws : List String) (v : View) : Option (Except Err View) :=
  match ws with
  | ["perm", p] => do pure (permuted v (← parseNatList "," p))
  | ["tr"] => some (.ok (transposed v))
  | ["mv", a, b] => do pure (moveAxis v (← a.toNat?) (← b.toNat?))
  | "sl" :: items => do pure (trySlice v (← items.mapM parseItem))
  | ["sa", a, b, c] => do pure (sliceAxis v (← a.toNat?) (← b.toNat?) (← c.toNat?))
  | ["ix", a, b] => do pure (indexAxis v (← a.toNat?) (← b.toNat?))
  | ["spl", a, m] => do pure (splitAt v (← a.toNat?) (← m.toNat?) false)
  | ["spr", a, m] => do pure (splitAt v (← a.toNat?) (← m.toNat?) true)
  | ["ia", k] => do pure (insertAxis v (← k.toNat?))
  | ["ra", k] => do pure (removeAxis v (← k.toNat?))
  | ["sq"] => some (.ok (squeezed v))
  | ["ma"] => some (.ok (mergedAxes v))
  | _ => none

def runChain : List String → View → String
  | [], v =>
    let ds := joinWith " " (v.dims.map (fun d => s!"{d.1},{d.2}"))
    s!"dims={ds} overlap={b01 (mayOverlap v.dims)} contig={b01 (isContiguous v.dims)}"
  | op :: ops, v =>
    match applyOp (words op) v with
    | none => "bad-request"
    | some (.error _) => "err"
    | some (.ok v') => runChain ops v'

/-! `mk <ctor> <kind> <dataLen> <size,stride …> | <conv> | …`: explicit construction over a
storage kind followed by storage conversions (`Model/OverlapCtor.lean`, `codeTable`, fixed
`into_owned`).  Answer `rej`, or `ok <kind> <size,stride …>` for the final tensor.
`cov <method> …`: every listed method must be classified in `apiTable`. -/

def parseKind : String → Option Kind
  | "vec" => some .vec | "view" => some .view | "viewmut" => some .viewMut
  | "cowb" => some .cowB | "cowo" => some .cowO | "arc" => some .arc | _ => none

def showKind : Kind → String
  | .vec => "vec" | .view => "view" | .viewMut => "viewmut"
  | .cowB => "cowb" | .cowO => "cowo" | .arc => "arc"

def parseCtor : String → Option Ctor
  | "fdws" | "fdws_nd" => some .fdws | "fsws" | "fsws_nd" => some .fsws
  | "fsl" | "fsl_nd" => some .fsl | _ => none

def parseConv : String → Option Conv
  | "into_cow" => some .intoCow | "into_arc" => some .intoArc | "into_owned" => some .intoOwned
  | "to_tensor" => some .toTensor | "as_cow" => some .asCow | "clone" => some .clone
  | "to_contiguous" => some .toContiguous | "reshaped" => some .reshapedSame
  | "into_shape" => some .intoShapeSame | "into_contiguous" => some .intoContiguous
  | "into_dyn" => some .intoDyn | "into_permuted" => some .intoPermutedRev
  | _ => none

def runConvs : List String → T → String
  | [], t =>
    let ds := joinWith " " (t.dims.map (fun d => s!"{d.1},{d.2}"))
    s!"ok {showKind t.kind} {ds}"
  | c :: cs, t =>
    match parseConv c.trimAscii.toString with
    | none => "bad-request"
    | some cv =>
      match convert true cv t with
      | none => "na"
      | some t' => runConvs cs t'

def handleMk (line : String) : String :=
  match (line.drop 3).toString.splitOn " | " with
  | head :: convs =>
    match words head with
    | c :: k :: len :: ds =>
      match parseCtor c, parseKind k, len.toNat?, ds.mapM parseDim with
      | some c, some k, some len, some dims =>
        match construct codeTable c k dims len with
        | none => "rej"
        | some t => runConvs convs t
      | _, _, _, _ => "bad-request"
    | _ => "bad-request"
  | [] => "bad-request"

def handleCov (names : List String) : String :=
  let unknown := names.filter (fun n => !(apiTable.any (fun e => e.1 == n)))
  if unknown.isEmpty then "all-classified" else "unclassified: " ++ joinWith "," unknown

def handle (line : String) : String :=
  match words line with
  | "ov" :: ds =>
    match ds.mapM parseDim with
    | some dims => s!"overlap={b01 (mayOverlap dims)} contig={b01 (isContiguous dims)}"
    | none => "bad-request"
  | "mk" :: _ => handleMk line
  | "cov" :: names => handleCov names
  | "dv" :: _ =>
    match (line.drop 3).toString.splitOn " | " with
    | sh :: ops =>
      let w := sh.trimAscii.toString
      match (if w == "-" then some [] else parseNatList "," w) with
      | some shape => runChain ops ⟨0, numel shape, contigDims shape⟩
      | none => "bad-request"
    | [] => "bad-request"
  | _ => "bad-request"

end RtenVerif.Driver.C08

/-- `model_C08`: reads request lines on stdin, prints the model's answer per line. -/
def main : IO Unit := RtenVerif.Driver.loopPure RtenVerif.Driver.C08.handle
