import RtenVerif.Driver.Util
import RtenVerif.Model.Overlap

namespace RtenVerif.Driver.C08
open RtenVerif.Driver RtenVerif.Overlap

def parseDim (w : String) : Option (Nat × Nat) :=
  match w.splitOn "," with
  | [a, b] => do let x ← a.toNat?; let y ← b.toNat?; pure (x, y)
  | _ => none

def handle (line : String) : String :=
  match words line with
  | "ov" :: ds =>
    match ds.mapM parseDim with
    | some dims => s!"overlap={b01 (mayOverlap dims)} contig={b01 (isContiguous dims)}"
    | none => "bad-request"
  | _ => "bad-request"

end RtenVerif.Driver.C08

/-- `model_C08`: reads request lines on stdin, prints the model's answer per line. -/
def main : IO Unit := RtenVerif.Driver.loopPure RtenVerif.Driver.C08.handle
