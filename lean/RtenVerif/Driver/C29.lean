import RtenVerif.Driver.Util
import RtenVerif.Model.Chunks
import RtenVerif.Generated.EncodeOptionsFields

/-!
Line protocol for C29.

* `cwo n=<len> size=<k> ov=<k>` — `(0..n).chunks_with_overlap(size, ov)`.
  Answer: `0,1,2|2,3,4|…` (chunks separated by `|`), `none` for no chunk, `panic`.
* `enc n1=<len> n2=<len|-> cls=<0|1> sep=<0|1> lim=<k|-> ov=<k>` — `Tokenizer::encode_chunks` on a
  text of `n1` (and a second text of `n2`) two-letter words separated by single spaces, encoded
  one token per word: token `j` of the first text has id `3+j` and offset `3j`, token `j` of the
  second text id `103+j` and offset `len1+3j`; `[CLS]`=0, `[SEP]`=1.
  `cls`/`sep` = 2 configures a special-token string the model does not know; `api=encode` calls
  `Tokenizer::encode` (first chunk or the fabricated empty chunk) instead of `encode_chunks`.
  Answer: per chunk `ids;offsets;first_seq_tokens`, chunks separated by `|`; `none`; `panic`;
  `err:tokenid`.
* `fields` — the public option surface (`EncodeOptions`, `TokenizerOptions`, `EncoderInput`) as
  extracted from the source by translate/encode_options.py.
-/
namespace RtenVerif.Driver.C29
open RtenVerif.Driver RtenVerif.Chunks

def field (ws : List String) (k : String) : Option String :=
  (ws.find? (fun w => w.startsWith (k ++ "="))).map (fun w => (w.drop (k.length + 1)).toString)

def natField (ws : List String) (k : String) : Option Nat := (field ws k).bind String.toNat?

def optNatField (ws : List String) (k : String) : Option (Option Nat) :=
  match field ws k with
  | some "-" => some none
  | some s => s.toNat?.map some
  | none => none

def showChunks (cs : List (List Nat)) : String :=
  if cs.isEmpty then "none" else joinWith "|" (cs.map (showNats ","))

def textLen (n : Nat) : Nat := if n = 0 then 0 else 3 * n - 1

def showEnc (cs : List Chunk) : String :=
  if cs.isEmpty then "none" else
    joinWith "|" (cs.map (fun c => showNats "," c.ids ++ ";" ++ showNats "," c.offsets ++ ";" ++ toString c.firstSeq))

def handle (line : String) : String :=
  match words line with
  | "cwo" :: ws =>
    match natField ws "n", natField ws "size", natField ws "ov" with
    | some n, some size, some ov =>
      match chunksWithOverlap (List.range n) size ov with
      | none => "panic"
      | some cs => showChunks cs
    | _, _, _ => "bad-request"
  | "enc" :: ws =>
    match natField ws "n1", optNatField ws "n2", natField ws "cls", natField ws "sep",
        optNatField ws "lim", natField ws "ov" with
    | some n1, some n2, some cls, some sep, some lim, some ov =>
      let special (k : Nat) (id : Nat) : Special :=
        if k = 0 then .absent else if k = 1 then .tok id else .unknown
      let toks1 := (List.range n1).map (· + 3)
      let offs1 := (List.range n1).map (· * 3)
      let len1 := textLen n1
      let inp : Input := match n2 with
        | none => .item toks1 offs1 len1
        | some n2 =>
          .pair toks1 offs1 ((List.range n2).map (· + 103))
            ((List.range n2).map (fun j => len1 + 3 * j)) len1 (textLen n2)
      if field ws "api" == some "encode" then
        match encode (special cls 0) (special sep 1) lim ov inp with
        | .error _ => "err:tokenid"
        | .ok none => "panic"
        | .ok (some c) => showEnc [c]
      else
        match encodeChunks (special cls 0) (special sep 1) lim ov inp with
        | .error _ => "err:tokenid"
        | .ok none => "panic"
        | .ok (some cs) => showEnc cs
    | _, _, _, _, _, _ => "bad-request"
  | ["fields"] =>
    "EncodeOptions:" ++ joinWith "," RtenVerif.Generated.EncodeOptionsFields.encodeOptions ++
    " TokenizerOptions:" ++ joinWith "," RtenVerif.Generated.EncodeOptionsFields.tokenizerOptions ++
    " EncoderInput:" ++ joinWith "," RtenVerif.Generated.EncodeOptionsFields.encoderInput
  | _ => "bad-request"

end RtenVerif.Driver.C29

/-- `model_C29` -/
def main : IO Unit := RtenVerif.Driver.loopPure RtenVerif.Driver.C29.handle
