import RtenVerif.Driver.Util
import RtenVerif.Model.BlockQuant
import RtenVerif.Model.BlockQuantIndex

/-!
`model_C37`: line protocol of `harness/gemm/src/bin/c37.rs`.

`bq mode=<float|int8|gemm> isa=<…> bs= batch= m= n= nb= lhs= q= sc2=` → `2·out` as integers (RLE);
`bqerr bits= bb= nb= n= k= out= m= batch=` → `ok` / `err:<class>`.
All arithmetic is done in `Int` with scales doubled (`sc2 = 2·scale`), i.e. the model is
instantiated at the commutative ring `Int`.
-/
namespace RtenVerif.Driver.C37
open RtenVerif.Driver RtenVerif.BlockQuant RtenVerif.BlockQuantIndex

def parseRle (s : String) : Option (List Int) :=
  if s == "_" then some [] else
  (s.splitOn ",").foldr (fun tok acc => do
    let rest ← acc
    match tok.splitOn "*" with
    | [v] => do let x ← v.toInt?; pure (x :: rest)
    | [v, c] => do let x ← v.toInt?; let n ← c.toNat?; pure (List.replicate n x ++ rest)
    | _ => none) (some [])

partial def showRle (xs : List Int) : String :=
  if xs.isEmpty then "_" else
  let rec go (l : List Int) (acc : List String) : List String :=
    match l with
    | [] => acc.reverse
    | x :: rest =>
      let run := (rest.takeWhile (· == x)).length + 1
      let rest' := rest.drop (run - 1)
      if run ≥ 3 then go rest' (s!"{x}*{run}" :: acc)
      else go rest' ((List.replicate run (toString x)) ++ acc)
  joinWith "," (go xs [])

def field (kvs : List (String × String)) (k : String) : Option String :=
  (kvs.find? (·.1 == k)).map (·.2)

def parseKv (w : String) : Option (String × String) :=
  match w.splitOn "=" with
  | [k, v] => some (k, v)
  | _ => none

/-- Consecutive chunks of length `n` (`fuel` = number of chunks). -/
def chunks (n : Nat) : Nat → List Int → List (List Int)
  | 0, _ => []
  | fuel + 1, xs => xs.take n :: chunks n fuel (xs.drop n)

/-- Elements per SIMD vblock of the ISA a hook line names. -/
def epvOf (isa : String) : Option Nat :=
  if isa == "generic" then some 32 else if isa == "avx2" then some 64
  else if isa == "avx512" || isa == "avx512-vnni" then some 128 else none

def handleBq (ws : List String) : Option String := do
  let kvs ← ws.mapM parseKv
  let mode ← field kvs "mode"
  let isa ← field kvs "isa"
  let bs ← (← field kvs "bs").toNat?
  let batch ← (← field kvs "batch").toNat?
  let m ← (← field kvs "m").toNat?
  let n ← (← field kvs "n").toNat?
  let nb ← (← field kvs "nb").toNat?
  let lhs ← parseRle (← field kvs "lhs")
  let qbytes ← parseRle (← field kvs "q")
  let sc2 ← parseRle (← field kvs "sc2")
  let k := nb * bs
  let rows := batch * m
  if lhs.length != rows * k || qbytes.length != n * nb * (bs / 2) || sc2.length != n * nb then none
  -- columns: 4-bit elements (low nibble first) and doubled scales per block
  let colBytes := chunks (nb * (bs / 2)) n qbytes
  let colQ : List (List Int) := colBytes.map fun bytes =>
    (unpackBytes (bytes.map Int.toNat)).map Int.ofNat
  let colS := chunks nb n sc2
  let lhsRows := chunks k rows lhs
  -- Int8 mode is used by the public API only for single-row inputs; the hooks always use it.
  -- MatMulNBits (`op-*`): rows == 1 → `BlockQuantizedGemm` with the requested accuracy level
  -- (Int8 for accuracy_level 4), otherwise the f32 GEMM with a block-quantized RHS.
  let useInt8 := ((mode == "int8" && (isa != "api" || m == 1)) || (mode == "op-int8" && m == 1))
    && k != 0
  let unsignedLhs := isa != "generic"
  -- per-ISA hook lines are answered through the kernels' own index arithmetic
  let hookEpv := epvOf isa
  let mut out : List Int := []
  for row in lhsRows do
    if useInt8 then
      match quantizeExact bs row.length row with
      | none => return "skip"
      | some (l, rs) =>
        for (q, s) in colQ.zip colS do
          match hookEpv with
          | some epv => out := int8KernelDot epv bs nb s rs l q :: out
          | none =>
            match int8BlocksChecked unsignedLhs bs s rs l q with
            | some v => out := v :: out
            | none => return "err:scales"
    else
      for (q, s) in colQ.zip colS do
        match hookEpv with
        | some epv => out := floatKernelDot epv bs nb s row q :: out
        | none =>
          match refDotChecked bs s row q with
          | some v => out := v :: out
          | none => return "err:scales"
  return showRle out.reverse

def errName : Err → String
  | .unsupportedElementSize => "UnsupportedElementSize"
  | .unsupportedBlockSize => "UnsupportedBlockSize"
  | .outputSizeMismatch => "OutputSizeMismatch"
  | .kSizeMismatch => "KSizeMismatch"
  | .quantBitsNotSupported => "QuantBitsNotSupported"
  | .scalesShapeMismatch => "ScalesShapeMismatch"

def handleErr (ws : List String) : Option String := do
  let kvs ← ws.mapM parseKv
  let bits ← (← field kvs "bits").toNat?
  let bb ← (← field kvs "bb").toNat?
  let nb ← (← field kvs "nb").toNat?
  let n ← (← field kvs "n").toNat?
  let k ← (← field kvs "k").toNat?
  let outLen ← (← field kvs "out").toNat?
  let m ← (← field kvs "m").toNat?
  let batch ← (← field kvs "batch").toNat?
  match checkNew bb bits with
  | .error e => return s!"err:{errName e}"
  | .ok _ =>
    match checkGemm outLen batch m k n nb bb bits with
    | .error e => return s!"err:{errName e}"
    | .ok () => return "ok"

def handleScales (ws : List String) : Option String := do
  let kvs ← ws.mapM parseKv
  let nat (k : String) : Option Nat := do (← field kvs k).toNat?
  match checkNewScales (← nat "n") (← nat "nb") (← nat "bb") 4 (← nat "sn") (← nat "snb") with
  | .error e => return s!"err:{errName e}"
  | .ok _ => return "ok unwritten=0"

/-- `sidx mode= isa= bs= nb=`: the scale index the kernel uses for every element position. -/
def handleSidx (ws : List String) : Option String := do
  let kvs ← ws.mapM parseKv
  let mode ← field kvs "mode"
  let epv ← epvOf (← field kvs "isa")
  let bs ← (← field kvs "bs").toNat?
  let nb ← (← field kvs "nb").toNat?
  let f := if mode == "int8" then scaleIdxInt8 epv bs nb else scaleIdxFloat epv bs nb
  return s!"idx={showRle ((List.range (nb * bs)).map fun k => (f k : Int))}"

/-- `hot … col= kb= byte= nib= q=`: a single non-zero (dequantised) weight; which LHS position
and output column see it, and with which value (×2). -/
def handleHot (ws : List String) : Option String := do
  let kvs ← ws.mapM parseKv
  let nat (k : String) : Option Nat := do (← field kvs k).toNat?
  let bs ← nat "bs"
  let col ← nat "col"
  let kb ← nat "kb"
  let byte ← nat "byte"
  let nib ← nat "nib"
  let q ← nat "q"
  let k := posElem bs (kb, byte, nib)
  let sc2 : Int := ((1 <<< ((col + kb) % 4) : Nat) : Int)
  return s!"k={k} col={col} val2={((q : Int) - 8) * sc2}"

def handleQrow (ws : List String) : Option String := do
  let kvs ← ws.mapM parseKv
  let bs ← (← field kvs "bs").toNat?
  let x ← parseRle (← field kvs "x")
  match quantizeExact bs x.length x with
  | none => return "skip"
  | some (q, s) => return s!"q={showRle q} s={showRle s}"

def handle (line : String) : String :=
  match words line with
  | "bq" :: ws => (handleBq ws).getD "bad-request"
  | "bqerr" :: ws => (handleErr ws).getD "bad-request"
  | "operr" :: _ => "err"
  | "qrow" :: ws => (handleQrow ws).getD "bad-request"
  | "sidx" :: ws => (handleSidx ws).getD "bad-request"
  | "hot" :: ws => (handleHot ws).getD "bad-request"
  | "bqscales" :: ws => (handleScales ws).getD "bad-request"
  | "#" :: _ => "skip"
  | _ => "bad-request"

end RtenVerif.Driver.C37

def main : IO Unit := RtenVerif.Driver.loopPure RtenVerif.Driver.C37.handle
