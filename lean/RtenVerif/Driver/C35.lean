import RtenVerif.Driver.Util
import RtenVerif.Model.Poly

/-!
Line protocol for C35.

* `dp <closed 0|1> <eps> <pts> <table>` — `eps` is the bit pattern of the non-negative `f32`
  epsilon or `n` (negative or NaN: the assertion fails); `pts` = `x,y;x,y;…` (`-` if empty);
  `table` = comma-separated bit patterns (`n` = NaN) of `Line(i, j).distance(k)` for all
  `i < k < j` over the polyline (for `closed` the polygon with its first point appended), in
  the order `for i, for j ≥ i+2, for k in i+1..j` (`-` if empty).
  Answer: the kept points `x,y;…` (`-` if none), or `panic`, or `nofuel`.
* `hull <pts>` — integer points `x,y;…` (`-` if empty).  Answer: hull points, then
  ` min=<0|1>` telling whether the hull starts at the `min_by` point.
* anything starting with `#` is not compared (answer `skip`).
-/
namespace RtenVerif.Driver.C35
open RtenVerif.Driver RtenVerif.Poly

def parsePt (w : String) : Option Pt :=
  match w.splitOn "," with
  | [a, b] => do let x ← a.toInt?; let y ← b.toInt?; pure (x, y)
  | _ => none

def parsePts (s : String) : Option (List Pt) :=
  if s == "-" then some [] else (s.splitOn ";").mapM parsePt

def showPts (ps : List Pt) : String :=
  if ps.isEmpty then "-" else joinWith ";" (ps.map fun p => s!"{p.1},{p.2}")

def parseDist (w : String) : Option (Option Nat) :=
  if w == "n" then some none else (w.toNat?).map some

/-- Offsets of the `(i, j)` blocks in the flattened table; `m` = number of polyline points. -/
def blockOffsets (m : Nat) : Array Nat := Id.run do
  let mut offs : Array Nat := Array.replicate (m * m) 0
  let mut pos := 0
  for i in [0:m] do
    for j in [i+2:m] do
      offs := offs.set! (i * m + j) pos
      pos := pos + (j - i - 1)
  return offs

def tableDist (m : Nat) (offs : Array Nat) (tab : Array (Option Nat)) (a b p : Nat) : Option Nat :=
  -- the closing point of a polygon is point 0 again: as a segment end it is index `m - 1`
  let b := if b = 0 then m - 1 else b
  if a < p ∧ p < b ∧ b < m then (tab.getD (offs.getD (a * m + b) 0 + (p - a - 1)) none) else none

def showOutcome (pts : Array Pt) : Outcome (List Nat) → String
  | .ok idx => showPts (idx.map fun i => pts.getD i (0, 0))
  | .panic => "panic"
  | .nofuel => "nofuel"

def handleDp (closed epsW ptsW tabW : String) : String :=
  match parsePts ptsW, parseDist epsW,
        (if tabW == "-" then some [] else (tabW.splitOn ",").mapM parseDist) with
  | some pts, some eps, some tab =>
    let n := pts.length
    let isClosed := closed == "1"
    let poly : List Pt := if isClosed then (match pts with | [] => [] | a :: _ => pts ++ [a]) else pts
    let m := poly.length
    let offs := blockOffsets m
    let dist := tableDist m offs tab.toArray
    let arr := poly.toArray
    if isClosed then
      showOutcome arr (simplifyPolygon natCmp dist eps (List.range n))
    else
      showOutcome arr (simplifyPolyline natCmp dist eps (List.range n))
  | _, _, _ => "bad-request"

def handleHull (w : String) : String :=
  match parsePts w with
  | some pts =>
    let h := hullKey pts
    let isMin := match minPoint pts, h.head? with
      | some m, some q => m == q
      | none, none => true
      | _, _ => false
    s!"{showPts h} min={b01 isMin}"
  | none => "bad-request"

def handle (line : String) : String :=
  if line.startsWith "#" then "skip" else
  match words line with
  | ["dp", closed, eps, pts, tab] => handleDp closed eps pts tab
  | ["dp", closed, eps, pts, tab, _] => handleDp closed eps pts tab
  | ["hull", es] => handleHull es
  | ["hull", es, _] => handleHull es
  | _ => "bad-request"

end RtenVerif.Driver.C35

/-- `model_C35`: reads request lines on stdin, prints the model's answer per line. -/
def main : IO Unit := RtenVerif.Driver.loopPure RtenVerif.Driver.C35.handle
