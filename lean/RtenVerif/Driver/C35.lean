import RtenVerif.Driver.Util
import RtenVerif.Model.Poly
import RtenVerif.Model.PolyRect

/-!
Line protocol for C35.

* `dp <closed 0|1> <eps> <pts> <table>` — `eps` is the bit pattern of the non-negative `f32`
  epsilon or `n` (negative or NaN: the assertion fails); `pts` = `x,y;x,y;…` (`-` if empty);
  `table` = comma-separated bit patterns (`n` = NaN) of `Line(i, j).distance(k)` for all
  `i < k < j` over the polyline (for `closed` the polygon with its first point appended), in
  the order `for i, for j ≥ i+2, for k in i+1..j` (`-` if empty).
  Answer: the kept points `x,y;…` (`-` if none), or `panic`, or `nofuel`.
* `hull <pts>` — integer points `x,y;…` (`-` if empty).  Answer: hull points, then
  ` min=<0|1>` telling whether the hull starts at the `min_by` point.
* anything starting with `#` is not compared (answer `skip`).
-/
namespace RtenVerif.Driver.C35
open RtenVerif.Driver RtenVerif.Poly

def parsePt (w : String) : Option Pt :=
  match w.splitOn "," with
  | [a, b] => do let x ← a.toInt?; let y ← b.toInt?; pure (x, y)
  | _ => none

def parsePts (s : String) : Option (List Pt) :=
  if s == "-" then some [] else (s.splitOn ";").mapM parsePt

def showPts (ps : List Pt) : String :=
  if ps.isEmpty then "-" else joinWith ";" (ps.map fun p => s!"{p.1},{p.2}")

def parseDist (w : String) : Option (Option Nat) :=
  if w == "n" then some none else (w.toNat?).map some

/-- Offsets of the `(i, j)` blocks in the flattened table; `m` = number of polyline points. -/
def blockOffsets (m : Nat) : Array Nat := Id.run do
  let mut offs : Array Nat := Array.replicate (m * m) 0
  let mut pos := 0
  for i in [0:m] do
    for j in [i+2:m] do
      offs := offs.set! (i * m + j) pos
      pos := pos + (j - i - 1)
  return offs

def tableDist (m : Nat) (offs : Array Nat) (tab : Array (Option Nat)) (a b p : Nat) : Option Nat :=
  -- the closing point of a polygon is point 0 again: as a segment end it is index `m - 1`
  let b := if b = 0 then m - 1 else b
  if a < p ∧ p < b ∧ b < m then (tab.getD (offs.getD (a * m + b) 0 + (p - a - 1)) none) else none

def showOutcome (pts : Array Pt) : Outcome (List Nat) → String
  | .ok idx => showPts (idx.map fun i => pts.getD i (0, 0))
  | .panic => "panic"
  | .nofuel => "nofuel"

def handleDp (closed epsW ptsW tabW : String) : String :=
  match parsePts ptsW, parseDist epsW,
        (if tabW == "-" then some [] else (tabW.splitOn ",").mapM parseDist) with
  | some pts, some eps, some tab =>
    let n := pts.length
    let isClosed := closed == "1"
    let poly : List Pt := if isClosed then (match pts with | [] => [] | a :: _ => pts ++ [a]) else pts
    let m := poly.length
    let offs := blockOffsets m
    let dist := tableDist m offs tab.toArray
    let arr := poly.toArray
    if isClosed then
      showOutcome arr (simplifyPolygon natCmp dist eps (List.range n))
    else
      showOutcome arr (simplifyPolyline natCmp dist eps (List.range n))
  | _, _, _ => "bad-request"

def handleHull (w : String) : String :=
  match parsePts w with
  | some pts =>
    let h := hullKey pts
    let isMin := match minPoint pts, h.head? with
      | some m, some q => m == q
      | none, none => true
      | _, _ => false
    s!"{showPts h} min={b01 isMin}"
  | none => "bad-request"

/-! `rect <pts> <corners>`: `min_area_rect` on an integer point set whose hull edges all have
integer length; `<corners>` are the four corners of the rect the code returned, in units of
1/1000.  The model builds every candidate rect exactly over `Rat` (initial bounding rect and one
per hull edge, as coded) and answers `match` iff the shipped corners agree (within 0.05) with the
corners of a candidate of minimal area — the code's own selection among *equal* areas depends on
`f32` rounding — else `nomatch` with the exact selection. -/

open RtenVerif.PolyRect in
def rectCorners (r : RRect Rat) : List (Rat × Rat) :=
  let hx := r.ux * (r.h / 2); let hy := r.uy * (r.h / 2)
  let wx := r.uy * (r.w / 2); let wy := -r.ux * (r.w / 2)
  [(r.cx - hx - wx, r.cy - hy - wy), (r.cx - hx + wx, r.cy - hy + wy),
   (r.cx + hx + wx, r.cy + hy + wy), (r.cx + hx - wx, r.cy + hy - wy)]

def rabs (a : Rat) : Rat := if a < 0 then -a else a

def near (a b : Rat × Rat) : Bool :=
  decide (rabs (a.1 - b.1) ≤ (1 : Rat) / 20) && decide (rabs (a.2 - b.2) ≤ (1 : Rat) / 20)

def sameCorners (xs ys : List (Rat × Rat)) : Bool :=
  xs.all (fun a => ys.any (near a)) && ys.all (fun b => xs.any (near b))

def showRat (a : Rat) : String := if a.den == 1 then toString a.num else s!"{a.num}/{a.den}"

open RtenVerif.PolyRect in
def handleRect (ptsW cornersW : String) : String :=
  match parsePts ptsW, parsePts cornersW with
  | some pts, some cs =>
    match hullKey pts with
    | [] => "none"
    | p0 :: ps =>
      let toR := fun (p : Pt) => ((p.1 : Rat), (p.2 : Rat))
      let hull := p0 :: ps
      let nexts := ps ++ [p0]
      let lensN := (hull.zip nexts).map fun e => Nat.sqrt (sqDist e.1 e.2).toNat
      let exact := (hull.zip nexts).zip lensN |>.all fun x => (x.2 * x.2 : Nat) == (sqDist x.1.1 x.1.2).toNat
      if !exact then "skip" else
      let rp0 := toR p0
      let rps := ps.map toR
      let lens : List Rat := lensN.map fun n => ((n : Nat) : Rat)
      let cands : List (RRect Rat) :=
        if ps.isEmpty then [bboxRect rp0 rps]
        else bboxRect rp0 rps ::
          (((hull.zip nexts).zip lens).map fun x => edgeRect (toR x.1.1) (toR x.1.2) x.2 rp0 rps)
      let minA := cands.foldl (fun m r => if area r < m then area r else m) (area (bboxRect rp0 rps))
      let impl := cs.map fun c => ((c.1 : Rat) / 1000, (c.2 : Rat) / 1000)
      if cands.any fun r => area r == minA && sameCorners (rectCorners r) impl then "match"
      else
        let r := minAreaRect rp0 rps lens
        s!"nomatch exact: c={showRat r.cx},{showRat r.cy} up={showRat r.ux},{showRat r.uy} w={showRat r.w} h={showRat r.h}"
  | _, _ => "bad-request"

def handle (line : String) : String :=
  if line.startsWith "#" then "skip" else
  match words line with
  | ["dp", closed, eps, pts, tab] => handleDp closed eps pts tab
  | ["dp", closed, eps, pts, tab, _] => handleDp closed eps pts tab
  | ["rect", pts, cs] => handleRect pts cs
  | ["hull", es] => handleHull es
  | ["hull", es, _] => handleHull es
  | _ => "bad-request"

end RtenVerif.Driver.C35

/-- `model_C35`: reads request lines on stdin, prints the model's answer per line. -/
def main : IO Unit := RtenVerif.Driver.loopPure RtenVerif.Driver.C35.handle
