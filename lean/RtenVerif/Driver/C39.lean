import RtenVerif.Driver.Util
import RtenVerif.Model.Ctc

/-!
Line protocol for C39 (all numbers are `Nat`; `w` = `T*L` weights, row-major; the harness
feeds the implementation `ln(w/D)` as `f32`, `-inf` for `w = 0`):

* `greedy L T w…`          → `decode_greedy`
* `beam B N L T w…`        → `decode_beam_nbest(beam_size = B, n_best = N)`
* `best B L T w…`          → `decode_beam(beam_size = B)`

Answer: `panic`, or hypotheses joined by `|` (`none` for an empty list), each
`label@pos,label@pos,…:score` where `score` is `z` when the exact score is 0 (−inf),
the exact numerator when `Π_t Σ_l w[t][l] ≤ 4096` (small enough for the harness to
recover it from the `f32` log score by rounding), and `-` otherwise.

The beam model is run over the exact `Nat` weights paired with a hash of the expression
that produced each value.  Float rounding can only change the outcome of the decoder's
comparisons when two candidate probabilities are (a) exactly equal but computed by
different expressions, or (b) closer than a relative 2⁻¹²; in those cases the driver
answers `skip` (the harness's own oracles still check the implementation's output).
-/
namespace RtenVerif.Driver.C39
open RtenVerif.Driver RtenVerif.Ctc

/-- Exact value with an expression hash (robustness shadow; never printed). -/
structure V where
  val : Nat
  h : UInt64

def mix (tag a b : UInt64) : UInt64 :=
  let x := (a ^^^ (b * 0x9E3779B97F4A7C15) ^^^ (tag * 0xD6E8FEB86659FD93)) * 0xBF58476D1CE4E5B9
  (x ^^^ (x >>> 29)) * 0x94D049BB133111EB + 0x2545F4914F6CDD1D

def vZero : V := ⟨0, 0⟩
def vOne : V := ⟨1, 0x1111⟩
def leaf (w : Nat) : V := if w = 0 then vZero else ⟨w, mix 7 (UInt64.ofNat w) 3⟩

/-- `log_sum_exp` ignores `-inf` operands exactly; `0. + x = x` exactly. -/
def vOps : Ops V where
  zero := vZero
  one := vOne
  add a b := if a.val = 0 then b else if b.val = 0 then a else ⟨a.val + b.val, mix 1 a.h b.h⟩
  mul a b :=
    if a.val = 0 ∨ b.val = 0 then vZero
    else if a.h = vOne.h then b else if b.h = vOne.h then a
    else ⟨a.val * b.val, mix 2 a.h b.h⟩
  gt a b := decide (b.val < a.val)
  argGt a b := decide (b.val < a.val)
  sortGe a b := decide (b.val ≤ a.val)
  isZero a := a.val == 0

def fragilePair (a b : V) : Bool :=
  if a.val = 0 ∨ b.val = 0 then false
  else if a.val = b.val then a.h != b.h
  else
    let hi := max a.val b.val
    let lo := min a.val b.val
    decide (4096 * (hi - lo) < hi)

def anyFragile : List V → Bool
  | [] => false
  | x :: xs => xs.any (fragilePair x) || anyFragile xs

/-- `beamLoop` with a per-step robustness check on the candidate probabilities. -/
def robustLoop (B L : Nat) : List (BState V) → List (List V) → Bool
  | _, [] => true
  | beam, row :: rows =>
    let t := extendAll vOps L beam row
    let cs := (candidates vOps L beam.length t).map (·.prob)
    if anyFragile cs then false
    else robustLoop B L (beamStep vOps B L beam 0 row) rows

def chunk (L : Nat) : Nat → List Nat → List (List Nat)
  | 0, _ => []
  | t + 1, ws => ws.take L :: chunk L t (ws.drop L)

def showSteps (p : List Step) : String :=
  joinWith "," (p.map fun s => s!"{s.label}@{s.pos}")

def showHyp (small : Bool) (steps : List Step) (score : Nat) : String :=
  let sc := if score = 0 then "z" else if small then toString score else "-"
  s!"{showSteps steps}:{sc}"

def isSmall (rows : List (List Nat)) : Bool :=
  decide (rows.foldl (fun acc r => acc * r.foldl (· + ·) 0) 1 ≤ 4096)

def showHyps (small : Bool) (hs : List (Hyp V)) : String :=
  if hs.isEmpty then "none" else joinWith "|" (hs.map fun h => showHyp small h.steps h.score.val)

def handle (line : String) : String :=
  match words line with
  | "greedy" :: rest =>
    match rest.mapM String.toNat? with
    | some (L :: T :: ws) =>
      if ws.length != T * L then "bad-request" else
      let rows := chunk L T ws
      match decodeGreedy natOps L rows with
      | none => "panic"
      | some h => showHyp (isSmall rows) h.steps h.score
    | _ => "bad-request"
  | "beam" :: rest =>
    match rest.mapM String.toNat? with
    | some (B :: N :: L :: T :: ws) =>
      if ws.length != T * L then "bad-request" else
      let rows := chunk L T ws
      let vrows := rows.map (·.map leaf)
      match decodeBeamNbest vOps B N L vrows with
      | none => "panic"
      | some hs =>
        if robustLoop B L (initBeam vOps) vrows then showHyps (isSmall rows) hs else "skip"
    | _ => "bad-request"
  | "best" :: rest =>
    match rest.mapM String.toNat? with
    | some (B :: L :: T :: ws) =>
      if ws.length != T * L then "bad-request" else
      let rows := chunk L T ws
      let vrows := rows.map (·.map leaf)
      match decodeBeam vOps B L vrows with
      | none => "panic"
      | some h =>
        if robustLoop B L (initBeam vOps) vrows then showHyps (isSmall rows) [h] else "skip"
    | _ => "bad-request"
  | _ => "bad-request"

end RtenVerif.Driver.C39

/-- `model_C39`: reads request lines on stdin, prints the model's answer per line. -/
def main : IO Unit := RtenVerif.Driver.loopPure RtenVerif.Driver.C39.handle
