import RtenVerif.Driver.Util
import RtenVerif.Model.Ctc
import RtenVerif.Model.CtcShadow

/-!
Line protocol for C39 (all numbers are `Nat`; `w` = `T*L` weights, row-major; the harness
feeds the implementation `ln(w/D)` as `f32`, `-inf` for `w = 0`):

* `greedy L T w…`          → `decode_greedy`
* `beam B N L T w…`        → `decode_beam_nbest(beam_size = B, n_best = N)`
* `best B L T w…`          → `decode_beam(beam_size = B)`
* `greedyn L T w…`         → `decode_greedy` where a weight written `n` is NaN (score printed
  as `nan` when it is NaN; carrier `nanOps`)

Answer: `panic`, or hypotheses joined by `|` (`none` for an empty list), each
`label@pos,label@pos,…:score` where `score` is `z` when the exact score is 0 (−inf),
the exact numerator when `Π_t Σ_l w[t][l] ≤ 4096` (small enough for the harness to
recover it from the `f32` log score by rounding), and `-` otherwise.

The beam model is run over `vOps` (`Model/CtcShadow.lean`): the exact `Nat` weights paired
with a hash of the expression that produced each value; `V.val` is a homomorphism onto the
`natOps` model (`c39_driver_nbest_eq_nat`, `c39_driver_best_eq_nat`).  Float rounding can only change the outcome of the decoder's
comparisons when two candidate probabilities are (a) exactly equal but computed by
different expressions, or (b) closer than a relative 2⁻¹²; in those cases the driver
answers `skip` (the harness's own oracles still check the implementation's output).
-/
namespace RtenVerif.Driver.C39
open RtenVerif.Driver RtenVerif.Ctc

def fragilePair (a b : V) : Bool :=
  if a.val = 0 ∨ b.val = 0 then false
  else if a.val = b.val then a.h != b.h
  else
    let hi := max a.val b.val
    let lo := min a.val b.val
    decide (4096 * (hi - lo) < hi)

def anyFragile : List V → Bool
  | [] => false
  | x :: xs => xs.any (fragilePair x) || anyFragile xs

/-- `beamLoop` with a per-step robustness check on the candidate probabilities. -/
def robustLoop (B L : Nat) : List (BState V) → List (List V) → Bool
  | _, [] => true
  | beam, row :: rows =>
    let t := extendAll vOps L beam row
    let cs := (candidates vOps L beam.length t).map (·.prob)
    if anyFragile cs then false
    else robustLoop B L (beamStep vOps B L beam 0 row) rows

def chunk (L : Nat) : Nat → List Nat → List (List Nat)
  | 0, _ => []
  | t + 1, ws => ws.take L :: chunk L t (ws.drop L)

def chunkG {γ : Type} (L : Nat) : Nat → List γ → List (List γ)
  | 0, _ => []
  | t + 1, ws => ws.take L :: chunkG L t (ws.drop L)

def showSteps (p : List Step) : String :=
  joinWith "," (p.map fun s => s!"{s.label}@{s.pos}")

def showHyp (small : Bool) (steps : List Step) (score : Nat) : String :=
  let sc := if score = 0 then "z" else if small then toString score else "-"
  s!"{showSteps steps}:{sc}"

def isSmall (rows : List (List Nat)) : Bool :=
  decide (rows.foldl (fun acc r => acc * r.foldl (· + ·) 0) 1 ≤ 4096)

def showHyps (small : Bool) (hs : List (Hyp V)) : String :=
  if hs.isEmpty then "none" else joinWith "|" (hs.map fun h => showHyp small h.steps h.score.val)

def handle (line : String) : String :=
  match words line with
  | "greedy" :: rest =>
    match rest.mapM String.toNat? with
    | some (L :: T :: ws) =>
      if ws.length != T * L then "bad-request" else
      let rows := chunk L T ws
      match decodeGreedy natOps L rows with
      | none => "panic"
      | some h => showHyp (isSmall rows) h.steps h.score
    | _ => "bad-request"
  | "greedyn" :: rest =>
    match rest with
    | l :: t :: ws =>
      match l.toNat?, t.toNat?, ws.mapM (fun w => if w == "n" then some (none : NN) else w.toNat?.map some) with
      | some L, some T, some vs =>
        if vs.length != T * L then "bad-request" else
        let rows := chunkG L T vs
        match decodeGreedy nanOps L rows with
        | none => "panic"
        | some h =>
          match h.score with
          | none => s!"{showSteps h.steps}:nan"
          | some sc => showHyp (isSmall (rows.map (·.map (·.getD 0)))) h.steps sc
      | _, _, _ => "bad-request"
    | _ => "bad-request"
  | "beam" :: rest =>
    match rest.mapM String.toNat? with
    | some (B :: N :: L :: T :: ws) =>
      if ws.length != T * L then "bad-request" else
      let rows := chunk L T ws
      let vrows := rows.map (·.map leaf)
      match decodeBeamNbest vOps B N L vrows with
      | none => "panic"
      | some hs =>
        if robustLoop B L (initBeam vOps) vrows then showHyps (isSmall rows) hs else "skip"
    | _ => "bad-request"
  | "best" :: rest =>
    match rest.mapM String.toNat? with
    | some (B :: L :: T :: ws) =>
      if ws.length != T * L then "bad-request" else
      let rows := chunk L T ws
      let vrows := rows.map (·.map leaf)
      match decodeBeam vOps B L vrows with
      | none => "panic"
      | some h =>
        if robustLoop B L (initBeam vOps) vrows then showHyps (isSmall rows) [h] else "skip"
    | _ => "bad-request"
  | _ => "bad-request"

end RtenVerif.Driver.C39

/-- `model_C39`: reads request lines on stdin, prints the model's answer per line. -/
def main : IO Unit := RtenVerif.Driver.loopPure RtenVerif.Driver.C39.handle
