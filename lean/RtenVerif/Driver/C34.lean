import RtenVerif.Driver.Util
import RtenVerif.Model.Npy
import RtenVerif.Model.Safetensors

/-! Line-protocol driver for C34 (`model_C34`). Byte strings travel as lower-case hex, `-` = empty. -/
namespace RtenVerif.Driver.C34
open RtenVerif.Driver RtenVerif.Npy

def hexDigit (c : Char) : Option Nat :=
  if '0' ≤ c ∧ c ≤ '9' then some (c.toNat - 48)
  else if 'a' ≤ c ∧ c ≤ 'f' then some (c.toNat - 87)
  else none

def unhexAux : List Char → List Nat → Option (List Nat)
  | [], acc => some acc.reverse
  | [_], _ => none
  | a :: b :: rest, acc =>
    match hexDigit a, hexDigit b with
    | some x, some y => unhexAux rest ((16 * x + y) :: acc)
    | _, _ => none

def unhex (s : String) : Option (List Nat) :=
  if s = "-" then some [] else unhexAux s.toList []

def hexChar (n : Nat) : Char := if n < 10 then Char.ofNat (48 + n) else Char.ofNat (87 + n)

def hex (bs : List Nat) : String :=
  if bs.isEmpty then "-"
  else String.ofList (bs.foldr (fun b acc => hexChar (b / 16 % 16) :: hexChar (b % 16) :: acc) [])

def parseDims (s : String) : Option (List Nat) :=
  if s = "-" then some [] else (s.splitOn ",").mapM String.toNat?

def showDims (l : List Nat) : String := if l.isEmpty then "-" else showNats "," l

def parseDt (s : String) : Option DataType := DataType.all.find? (fun d => d.name = s)

def showHeader (h : Header) : String :=
  s!"ok be={b01 h.dtype.bigEndian} kind={h.dtype.kind} size={h.dtype.itemSize} fortran={b01 h.fortran} shape={showDims h.shape}"

def showErr (e : Err) : String := "err:" ++ e.name

def showArray (a : Array) : String :=
  s!"ok {a.dtype.name} shape={showDims a.shape} vals={hex ((a.vals.map (encodeElem a.dtype)).flatten)}"

def handle (line : String) : String :=
  match words line with
  | ["hdr", dt, dims] =>
    match parseDt dt, parseDims dims with
    | some dt, some sh =>
      match buildHeader dt sh with
      | .ok b => "ok " ++ hex b
      | .error e => showErr e
    | _, _ => "bad-request"
  | ["parse", h] =>
    match unhex h with
    | some b => match parseHeader b with
      | .ok h => showHeader h
      | .error e => showErr e
    | none => "bad-request"
  | ["rhdr", h] =>
    match unhex h with
    | some b => match readHeader b with
      | .ok (h, data) => showHeader h ++ s!" data={data.length}"
      | .error e => showErr e
    | none => "bad-request"
  | ["read", h] =>
    match unhex h with
    | some b => match read b with
      | .ok a => showArray a
      | .error e => showErr e
    | none => "bad-request"
  | ["write", dt, dims, data] =>
    match parseDt dt, parseDims dims, unhex data with
    | some dt, some sh, some bytes =>
      let n := bytes.length / dt.itemSize
      let vals := (chunks dt.itemSize n bytes).map fromLE
      match write ⟨dt, sh, vals⟩ with
      | .ok b => "ok " ++ hex b
      | .error e => showErr e
    | _, _, _ => "bad-request"
  | ["fortran", dims, n] =>
    match parseDims dims, n.toNat? with
    | some sh, some n => showDims (fortranToRowMajor sh (List.range n))
    | _, _ => "bad-request"
  | ["npzname", h] =>
    match unhex h with
    | some b => match npzFileName b with
      | some f => "ok " ++ hex f
      | none => "err:empty"
    | none => "bad-request"
  | ["npzkey", h] =>
    match unhex h with
    | some b => match npzKey b with
      | some f => "some " ++ hex f
      | none => "none"
    | none => "bad-request"
  | ["stenc", dt, dims, strides, data] =>
    match parseDt dt, parseDims dims, parseDims strides, unhex data with
    | some dt, some sh, some st, some bytes =>
      let n := bytes.length / dt.itemSize
      let storage := (chunks dt.itemSize n bytes).map fromLE
      let v : SView := ⟨storage, sh, st⟩
      s!"contig={b01 (isContig sh st)} data={hex (stToLeBytes dt v)}"
    | _, _, _, _ => "bad-request"
  | ["stdec", dt, data] =>
    match parseDt dt, unhex data with
    | some dt, some bytes =>
      "vals=" ++ hex (((stFromLeBytes dt bytes).map (encodeElem dt)).flatten)
    | _, _ => "bad-request"
  | ["stdtype", name] =>
    match StDtype.all.find? (fun d => d.name = name) with
    | none => "err:other"
    | some d => match dataTypeFromSafetensors d with
      | some dt => "ok " ++ dt.name
      | none => "err:unsupported"
  | ["tfd", dims, n] =>
    match parseDims dims, n.toNat? with
    | some sh, some n => b01 (tryFromDataOk sh n)
    | _, _ => "bad-request"
  | ["utf8", h] =>
    match unhex h with
    | some b => b01 (validUtf8 b)
    | none => "bad-request"
  | _ => "bad-request"

end RtenVerif.Driver.C34

/-- `model_C34`: reads request lines on stdin, prints the model's answer per line. -/
def main : IO Unit := RtenVerif.Driver.loopPure RtenVerif.Driver.C34.handle
