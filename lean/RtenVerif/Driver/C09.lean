import RtenVerif.Driver.Util
import RtenVerif.Model.Layout
import RtenVerif.Model.Copy
import RtenVerif.Model.CopyRange

/-!
`model_C09`: one chain of layout operations per request line.

Request:  `S <size>,<stride> ... / <storelen> | <op> | <op> ...`
  source = view with the given dims over the buffer `[0, 1, .., storelen-1]`.
Ops: `perm 1,0` `tr` `mv a b` `sl <item>..` `slc <item>..` `sa axis start stop` `ix axis i`
  `bc <shape>` `ia k` `ra k` `sq` `ma` `spl axis mid` `spr axis mid` `rs <shape>` `tc`
  `app axis cap <shape>` `clip axis start stop`
  items: `i:<int>` or `r:<start>:<stop|_>:<step>`; shapes: csv or `-` for rank 0.
Answer: `ok shape=.. strides=.. off=.. data=..` (shape/data from the reference chain,
strides/off from the layout model) or `err@k` / `panic@k` (index of the failing op).
-/
namespace RtenVerif.Driver.C09
open RtenVerif.Driver RtenVerif.Arr RtenVerif.Layout

inductive Op
  | perm (p : List Nat)
  | tr
  | mv (a b : Nat)
  | sl (items : List SliceItem)
  | slc (items : List SliceItem)
  | sa (axis start stop : Nat)
  | ix (axis i : Nat)
  | bc (shape : List Nat)
  | ia (k : Nat)
  | ra (k : Nat)
  | sq
  | ma
  | split (axis mid : Nat) (right : Bool)
  | rs (shape : List Nat)
  | tc
  | app (axis cap : Nat) (shape : List Nat)
  | clip (axis start stop : Nat)

def parseShape (w : String) : Option (List Nat) :=
  if w == "-" then some [] else parseNatList "," w

def parseItem (w : String) : Option SliceItem :=
  match w.splitOn ":" with
  | ["i", x] => x.toInt?.map SliceItem.index
  | ["r", a, b, c] => do
    let s ← a.toInt?
    let e ← if b == "_" then some none else b.toInt?.map some
    let t ← c.toInt?
    pure (SliceItem.range ⟨s, e, t⟩)
  | _ => none

def parseOp (ws : List String) : Option Op :=
  match ws with
  | ["perm", p] => (parseShape p).map Op.perm
  | ["tr"] => some .tr
  | ["mv", a, b] => do pure (.mv (← a.toNat?) (← b.toNat?))
  | "sl" :: items => (items.mapM parseItem).map Op.sl
  | "slc" :: items => (items.mapM parseItem).map Op.slc
  | ["sa", a, b, c] => do pure (.sa (← a.toNat?) (← b.toNat?) (← c.toNat?))
  | ["ix", a, b] => do pure (.ix (← a.toNat?) (← b.toNat?))
  | ["bc", s] => (parseShape s).map Op.bc
  | ["ia", k] => k.toNat?.map Op.ia
  | ["ra", k] => k.toNat?.map Op.ra
  | ["sq"] => some .sq
  | ["ma"] => some .ma
  | ["spl", a, m] => do pure (.split (← a.toNat?) (← m.toNat?) false)
  | ["spr", a, m] => do pure (.split (← a.toNat?) (← m.toNat?) true)
  | ["rs", s] => (parseShape s).map Op.rs
  | ["tc"] => some .tc
  | ["app", a, c, s] => do pure (.app (← a.toNat?) (← c.toNat?) (← parseShape s))
  | ["clip", a, b, c] => do pure (.clip (← a.toNat?) (← b.toNat?) (← c.toNat?))
  | _ => none

def liftView (t : TState) (r : Except Err View) : Except Err TState :=
  r.map (fun v => { t with view := v })

/-- Layout-model side of one op. -/
def applyL (op : Op) (t : TState) : Except Err TState :=
  match op with
  | .perm p => liftView t (permuted t.view p)
  | .tr => .ok { t with view := transposed t.view }
  | .mv a b => liftView t (moveAxis t.view a b)
  | .sl items => liftView t (trySlice t.view items)
  | .slc items => sliceCopy t items
  | .sa a s e => liftView t (sliceAxis t.view a s e)
  | .ix a i => liftView t (indexAxis t.view a i)
  | .bc s => liftView t (broadcast t.view s)
  | .ia k => liftView t (insertAxis t.view k)
  | .ra k => liftView t (removeAxis t.view k)
  | .sq => .ok { t with view := squeezed t.view }
  | .ma => .ok { t with view := mergedAxes t.view }
  | .split a m r => liftView t (splitAt t.view a m r)
  | .rs s => reshaped t s
  | .tc => .ok (toContiguous t)
  | .app a c s => appendOp t a c s
  | .clip a s e => clipDim t a s e

/-- Reference side of one op (`Lshape` = shape produced by the layout op, only used by
`ma`, whose result shape is layout-dependent by design). -/
def applyR (op : Op) (lshape : List Nat) (A : NArr Nat) : Except Err (NArr Nat) :=
  match op with
  | .perm p => A.permute p
  | .tr => .ok A.transpose
  | .mv a b => A.moveAxis a b
  | .sl items => A.slice (items.map toRefItem)
  | .slc items => A.sliceCopy (items.map toRefItem)
  | .sa a s e => A.sliceAxis a s e
  | .ix a i => A.indexAxis a i
  | .bc s => A.broadcastTo s
  | .ia k => A.insertAxis k
  | .ra k => A.removeAxis k
  | .sq => .ok A.squeeze
  | .ma => match A.reshape lshape with | some B => .ok B | none => .error .panic
  | .split a m r => A.splitAt a m r
  | .rs s => match A.reshape s with | some B => .ok B | none => .error .panic
  | .tc => .ok A
  | .app a _ s =>
    let B : NArr Nat := NArr.ofFn s (fun idx => 1000 + (idxs s).idxOf idx)
    if NArr.concatOk a A.shape s then .ok (A.concat a B) else .error .err
  | .clip a s e => A.sliceAxis a s e

/-- For a `slc` op on the copying path: does the loop-level model of `copy_range_into_slice`
(`CopyRange.copyRangeIntoSlice`, run on a buffer of `∏ sliced_shape` marker elements) produce
exactly what the gather-level `sliceCopy` installs (or panic exactly when it panics)? -/
def loopAgrees (t : TState) (items : List SliceItem) : Bool :=
  match trySlice t.view items with
  | .ok _ => true
  | .error _ =>
    match slicedShape t.view.dims items, copyRanges t.view.dims items with
    | .ok shp, .ok lists =>
      let A := t.arr
      let loop := RtenVerif.CopyRange.copyRangeIntoSlice A.get (List.replicate (numel shp) 4242) lists
      match loop, sliceCopy t items with
      | .ok data, .ok t' => data == t'.store
      | .error _, .error _ => true
      | _, _ => false
    | _, _ => true

def showErr : Err → String
  | .err => "err"
  | .panic => "panic"

def showShape (xs : List Nat) : String := if xs.isEmpty then "-" else showNats "," xs

def run (ops : List Op) (t0 : TState) : String := Id.run do
  let mut t := t0
  let mut r : Option (NArr Nat) := some t0.arr
  let mut k := 0
  let mut refErr : Option Nat := none
  let mut loopOk := true
  for op in ops do
    match op with
    | .slc items => if !(loopAgrees t items) then loopOk := false
    | _ => pure ()
    match applyL op t with
    | .error e => return s!"{showErr e}@{k}{if loopOk then "" else " LOOPDIFF"}"
    | .ok t' =>
      match r with
      | some A =>
        match applyR op (sizes t'.view.dims) A with
        | .ok B => r := some B
        | .error _ => r := none; refErr := some k
      | none => pure ()
      t := t'
    k := k + 1
  let la := t.arr
  let head := s!"strides={showShape (strides t.view.dims)} off={t.view.base}"
  match r with
  | some A =>
    let diff := if A.shape == la.shape && A.data == la.data then "" else s!" MODELDIFF layout-data={showNats "," la.data}"
    s!"ok shape={showShape A.shape} {head} data={showNats "," A.data}{diff}{if loopOk then "" else " LOOPDIFF"}"
  | none =>
    s!"ok shape={showShape la.shape} {head} data={showNats "," la.data} REFERR@{refErr.getD 0}"

def parseDim (w : String) : Option (Nat × Nat) :=
  match w.splitOn "," with
  | [a, b] => do pure (← a.toNat?, ← b.toNat?)
  | _ => none

def showRange (r : Option (Nat × Nat)) : String :=
  match r with
  | some (a, b) => s!"{a}..{b}"
  | none => "none"

/-- `R start stop step n`: `SliceRange::{steps, resolve, resolve_clamped}`. -/
def handleRange (ws : List String) : String :=
  match ws with
  | [a, b, c, n] =>
    match a.toInt?, (if b == "_" then some none else b.toInt?.map some), c.toInt?, n.toNat? with
    | some s, some e, some t, some n =>
      let r : SliceRange := ⟨s, e, t⟩
      match r.resolveClamped n with
      | some cl => s!"steps={r.steps n} resolve={showRange (r.resolve n)} clamped={showRange (some cl)}"
      | none => "panic"
    | _, _, _, _ => "bad-request"
  | _ => "bad-request"

def handle (line : String) : String :=
  if line.startsWith "R " then handleRange ((words line).drop 1) else
  if line.startsWith "CB " then
    match (words line).drop 1 |>.mapM String.toNat? with
    | some [rows, cols, rs, cs] => showNats "," (RtenVerif.Copy.copyBlocked rows cols rs cs (fun i => i))
    | _ => "bad-request"
  else
  match line.splitOn " | " with
  | src :: opsS =>
    match words src with
    | "S" :: rest =>
      let dimWs := rest.takeWhile (· != "/")
      let tail := rest.dropWhile (· != "/")
      match dimWs.mapM parseDim, tail with
      | some dims, ["/", n] =>
        match n.toNat?, opsS.mapM (fun s => parseOp (words s)) with
        | some len, some ops => run ops ⟨List.range len, ⟨0, len, dims⟩⟩
        | _, _ => "bad-request"
      | _, _ => "bad-request"
    | _ => "bad-request"
  | [] => "bad-request"

end RtenVerif.Driver.C09

/-- `model_C09`: reads request lines on stdin, prints the model's answer per line. -/
def main : IO Unit := RtenVerif.Driver.loopPure RtenVerif.Driver.C09.handle
