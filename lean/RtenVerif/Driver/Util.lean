/-! Shared helpers for the line-protocol drivers (import-free). -/
namespace RtenVerif.Driver

/-- Read stdin line by line, threading a state; print one answer per request line. -/
partial def loopLines {σ : Type} (step : σ → String → σ × String) (init : σ) : IO Unit := do
  let stdin ← IO.getStdin
  let stdout ← IO.getStdout
  let rec go (s : σ) : IO Unit := do
    let line ← stdin.getLine
    if line.isEmpty then
      stdout.flush
      return ()
    let l := if line.endsWith "\n" then (line.dropEnd 1).toString else line
    let (s', out) := step s l
    stdout.putStrLn out
    go s'
  go init

/-- Stateless variant. -/
def loopPure (f : String → String) : IO Unit :=
  loopLines (fun (_ : Unit) l => ((), f l)) ()

def words (s : String) : List String :=
  (s.splitOn " ").filter (fun w => !w.isEmpty)

def parseNatList (sep : String) (s : String) : Option (List Nat) :=
  if s.isEmpty then some [] else (s.splitOn sep).mapM String.toNat?

def parseIntList (sep : String) (s : String) : Option (List Int) :=
  if s.isEmpty then some [] else (s.splitOn sep).mapM String.toInt?

def joinWith (sep : String) (xs : List String) : String := sep.intercalate xs

def showNats (sep : String) (xs : List Nat) : String := joinWith sep (xs.map toString)
def showInts (sep : String) (xs : List Int) : String := joinWith sep (xs.map toString)

def b01 (b : Bool) : String := if b then "1" else "0"

end RtenVerif.Driver
