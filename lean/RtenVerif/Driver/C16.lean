import RtenVerif.Driver.Util
import RtenVerif.Model.Gemm
import RtenVerif.Generated.GemmConsts

/-! Line-protocol driver for C16 (`model_C16`).

Header fields (both request kinds):
`<kid> <mr> <nr> <threads> <M> <Ka> <Kb> <N> <outLen> <bias> <aIn> <bIn> <bRowStride1> <aq> <bq>`
* `aq`/`bq`: `n` | `q<len>` (zero-point vector passed for A / B)
* `bias`: `n` | `r<len>` | `c<len>`
* `aIn`: `u` | `p:<kid>:<mr>:<nr>` (prepacked with that kernel)
* `bIn`: `u` | `o` (im2col) | `p:<kid>:<mr>:<nr>`

`sched <betaClass z|o|x> <header>`       → kernel-call schedule (canonically sorted)
`gemm <header> <alpha> <beta> | A | B | C | bias` → exact result over `Int`
   (`C` = `u` means uninitialised output memory).
`pack a <mr> <rows> <cols> …` / `pack b <nr> <rows> <cols> …` (further words ignored)
   → `len=<slots> stride=<panel stride> slots=<r.c|_,…> off=<offset of each block element, row-major>`
   from `packASlots`/`packAOffset` resp. `packBSlots`/`packBOffset`.
-/
namespace RtenVerif.Driver.C16
open RtenVerif.Driver RtenVerif.Gemm

def consts : BlockConsts := RtenVerif.Gemm.Generated.consts
def elemSize : Nat := RtenVerif.Gemm.Generated.f32Size

def parsePacked (w : String) (panelIsMr : Bool) (depth : Nat) : Option (Option PackedMeta × Bool) :=
  if w == "u" then some (none, false)
  else if w == "o" then some (none, true)
  else match w.splitOn ":" with
    | ["p", kid, mr, nr] => do
      let kid ← kid.toNat?; let mr ← mr.toNat?; let nr ← nr.toNat?
      let kern : KernelCfg := { id := kid, mr := mr, nr := nr, elemSize := elemSize }
      pure (some (prepackMeta consts kern panelIsMr depth), false)
    | _ => none

def parseBias (w : String) : Option (Option Nat × Option Nat) :=
  if w == "n" then some (none, none)
  else if w.startsWith "r" then do let l ← (w.drop 1).toString.toNat?; pure (some l, none)
  else if w.startsWith "c" then do let l ← (w.drop 1).toString.toNat?; pure (none, some l)
  else none

def parseQuant (w : String) : Option (Option Nat) :=
  if w == "n" then some none
  else if w.startsWith "q" then do let l ← (w.drop 1).toString.toNat?; pure (some l)
  else none

def parseHeader (ws : List String) : Option (KernelCfg × Problem) :=
  match ws with
  | [kid, mr, nr, th, m, ka, kb, n, ol, bias, aIn, bIn, rs1, aq, bq] => do
    let kid ← kid.toNat?; let mr ← mr.toNat?; let nr ← nr.toNat?; let th ← th.toNat?
    let m ← m.toNat?; let ka ← ka.toNat?; let kb ← kb.toNat?; let n ← n.toNat?; let ol ← ol.toNat?
    let (rb, cb) ← parseBias bias
    let (ap, _) ← parsePacked aIn true ka
    let (bp, bo) ← parsePacked bIn false kb
    let aql ← parseQuant aq
    let bql ← parseQuant bq
    let kern : KernelCfg := { id := kid, mr := mr, nr := nr, elemSize := elemSize }
    pure (kern, { M := m, Ka := ka, Kb := kb, N := n, outLen := ol, rowBiasLen := rb, colBiasLen := cb,
                  aQuantLen := aql, bQuantLen := bql,
                  aPacked := ap, bPacked := bp, bOther := bo, bRowStride1 := rs1 == "1", threads := th })
  | _ => none

def errName : GemmErr → String
  | .kSizeMismatch => "err:KSizeMismatch"
  | .wrongBiasSize => "err:WrongBiasSize"
  | .wrongQuantParamSize => "err:WrongQuantParamSize"
  | .outputSizeMismatch => "err:OutputSizeMismatch"
  | .packedDataKernelMismatch => "err:PackedDataKernelMismatch"
  | .packedDataBlockingMismatch => "err:PackedDataBlockingMismatch"

/-- Class of the effective beta: `bc` (class of the caller's beta: `z` zero, `o` one, `x` other)
if the call uses the caller's beta, else `o`. -/
def betaClass (bc : String) (betaUser : Bool) : String := if betaUser then bc else "o"

def showCall (bc : String) (c : Call) : String :=
  s!"{c.rowTile},{c.colTile},{c.usedRows},{c.usedCols},{c.dStart},{c.dEnd},{betaClass bc c.betaUser},{b01 c.bias}"

def callLt (a b : Call) : Bool :=
  a.rowTile < b.rowTile || (a.rowTile == b.rowTile &&
    (a.colTile < b.colTile || (a.colTile == b.colTile && a.dStart < b.dStart)))

def showEv (bc : String) : GemvEv → String
  | .kernel cs ce ds de bu => s!"k,{cs},{ce},{ds},{de},{betaClass bc bu}"
  | .bias cs ce => s!"b,{cs},{ce}"

def handleSched (ws : List String) : String :=
  match ws with
  | [] => "bad-request"
  | bc :: ws =>
  match parseHeader ws with
  | none => "bad-request"
  | some (kern, p) =>
    match gemmPath consts kern p with
    | .error e => errName e
    | .ok .none => "none"
    | .ok (.gemv evs) => "gemv " ++ joinWith ";" (evs.map (showEv bc))
    | .ok (.gemm _ _ _ calls) =>
      "gemm " ++ joinWith ";" ((calls.toArray.qsort callLt).toList.map (showCall bc))

def matFn (a : Array Int) (cols : Nat) : Nat → Nat → Int := fun r c => a.getD (r * cols + c) 0

def handleGemm (hdr : List String) (rest : List String) : String :=
  match hdr.reverse with
  | beta :: alpha :: hrev =>
    match parseHeader hrev.reverse, alpha.toInt?, beta.toInt?, rest with
    | some (kern, p), some alpha, some beta, [sa, sb, sc, sbias] =>
      match parseIntList "," sa.trimAscii.toString, parseIntList "," sb.trimAscii.toString,
            parseIntList "," sbias.trimAscii.toString with
      | some la, some lb, some lbias =>
        let A := matFn la.toArray p.Ka
        let B := matFn lb.toArray p.N
        let sc := sc.trimAscii.toString
        let C? : Option (OutMat Int) :=
          if sc == "u" then some (fun _ _ => none)
          else match parseIntList "," sc with
            | some lc => let arr := lc.toArray; some (fun r c => some (arr.getD (r * p.N + c) 0))
            | none => none
        match C? with
        | none => "bad-request"
        | some C =>
          let barr := lbias.toArray
          let bias : Bias Int :=
            if p.rowBiasLen.isSome then .row (fun c => barr.getD c 0)
            else if p.colBiasLen.isSome then .col (fun r => barr.getD r 0)
            else .none
          match gemmImpl consts kern p alpha beta bias A B C with
          | .error e => errName e
          | .ok out =>
            let cells := (List.range p.M).flatMap fun r => (List.range p.N).map fun c => out r c
            if cells.any Option.isNone then "poison"
            else "ok " ++ joinWith "," (cells.map fun v => toString (v.getD 0))
      | _, _, _ => "bad-request"
    | _, _, _, _ => "bad-request"
  | _ => "bad-request"

def showSlot : Option (Nat × Nat) → String
  | some (r, c) => s!"{r}.{c}"
  | none => "_"

def handlePack (ws : List String) : String :=
  match ws with
  | kind :: t :: rows :: cols :: _ =>
    match t.toNat?, rows.toNat?, cols.toNat? with
    | some t, some rows, some cols =>
      let elems := (List.range rows).flatMap fun r => (List.range cols).map fun c => (r, c)
      if kind == "a" then
        let slots := packASlots t rows cols
        s!"len={slots.length} stride={t * cols} slots={joinWith "," (slots.map showSlot)} off={showNats "," (elems.map fun e => packAOffset t cols e.1 e.2)}"
      else if kind == "b" then
        let slots := packBSlots t rows cols
        s!"len={slots.length} stride={rows * t} slots={joinWith "," (slots.map showSlot)} off={showNats "," (elems.map fun e => packBOffset t rows e.1 e.2)}"
      else "bad-request"
    | _, _, _ => "bad-request"
  | _ => "bad-request"

/-- `pblock a|b <t> <nm> <K> <bs>`: `prepack_a` / `prepack_b` of an index-valued operand
(`A[r,k] = r*K + k + 1`, `B[k,c] = k*nm + c + 1`) with panel size `t`: total buffer length, the
span `start,len,stride` of `block(s..e, idx)` for every block of size `bs` and every depth block,
and the buffer contents. -/
def handlePBlock (ws : List String) : String :=
  match ws with
  | kind :: t :: nm :: k :: bs :: _ =>
    match t.toNat?, nm.toNat?, k.toNat?, bs.toNat? with
    | some t, some nm, some K, some bs =>
      let kc := depthBlockSize consts elemSize K none
      let base := prepackBase t nm K kc
      let spans := (List.range (divCeil nm bs)).flatMap fun i =>
        (List.range (divCeil K kc)).map fun idx =>
          let r := blockRange nm bs i
          let b := base.block r.1 r.2 idx
          s!"{b.1},{b.2.1 - b.1},{b.2.2}"
      let buf : List Int :=
        if kind == "a" then prepackABuf (fun r c => (r * K + c + 1 : Nat)) t nm K kc
        else prepackBBuf (fun r c => (r * nm + c + 1 : Nat)) t nm K kc
      s!"total={base.totalLen} spans={joinWith ";" spans} buf={showInts "," buf}"
    | _, _, _, _ => "bad-request"
  | _ => "bad-request"

def showOff : Option Nat → String
  | some o => toString o
  | none => "_"

/-- `packsrc a|b <t> <row_stride> <col_stride> <r0> <r1> <c0> <c1>`: storage offsets read by
`pack_a_block` / `pack_b_block` for the block, in write order (`packASrc` / `packBSrc`). -/
def handlePackSrc (ws : List String) : String :=
  match ws with
  | kind :: rest =>
    match (rest.take 7).mapM String.toNat? with
    | some [t, rstr, cstr, r0, r1, c0, c1] =>
      if kind == "a" then joinWith "," ((packASrc t rstr cstr r0 r1 c0 c1).map showOff)
      else if kind == "b" then joinWith "," ((packBSrc t rstr cstr r0 r1 c0 c1).map showOff)
      else "bad-request"
    | _ => "bad-request"
  | _ => "bad-request"

def handle (line : String) : String :=
  match line.splitOn "|" with
  | [] => "bad-request"
  | h :: rest =>
    match words h with
    | "sched" :: ws => handleSched ws
    | "gemm" :: ws => handleGemm ws rest
    | "pack" :: ws => handlePack ws
    | "pblock" :: ws => handlePBlock ws
    | "packsrc" :: ws => handlePackSrc ws
    | _ => "bad-request"

end RtenVerif.Driver.C16

/-- `model_C16`: reads request lines on stdin, prints the model's answer per line. -/
def main : IO Unit := RtenVerif.Driver.loopPure RtenVerif.Driver.C16.handle
