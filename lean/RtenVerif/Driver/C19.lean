import RtenVerif.Driver.Util
import RtenVerif.Model.ExpBits

/-!
Line protocol of `model_C19`:

* `recon <k>`   → `is=<hex8> it=<hex8> e1=<exp|none> e2=<exp|none>` (Exp's two factors)
* `rrecon <k>`  → `p=<hex8> e=<exp|none>` (ReducedRangeExp's factor)
* `sel exp <v>` → value class of `Exp(v)` predicted by the select chain:
                  `zero` | `inf` | `nan` | `finite`   (`core` is `nan` for NaN input, else `finite`)
* `sel tanh <v> <input sign bit>` → `sign=<0|1> class=<one|zero|nan|other>`
* `kreach` → the bound on `|k|` for `|x| < 104`
`<v>` is `nan`, `pinf`, `ninf` or `q:<int>` meaning `int · 2^-149`.
-/
namespace RtenVerif.Driver.C19
open RtenVerif.Driver RtenVerif.ExpBits

def hexDigit (n : Nat) : Char := "0123456789abcdef".toList.getD n '0'

def hex8 (n : Nat) : String :=
  String.ofList ((List.range 8).reverse.map (fun i => hexDigit (n / 16 ^ i % 16)))

def showOpt : Option Int → String
  | some i => toString i
  | none => "none"

def parseVal (s : String) : Option FVal :=
  if s == "nan" then some .nan
  else if s == "pinf" then some .posInf
  else if s == "ninf" then some .negInf
  else if s.startsWith "q:" then (s.drop 2).toString.toInt?.map .fin
  else none

def handle (line : String) : String :=
  match words line with
  | ["recon", k] =>
    match k.toInt? with
    | some k =>
      let p := expRecon (BitVec.ofInt 32 k)
      let e := expFactorExps k
      s!"is={hex8 p.1.toNat} it={hex8 p.2.toNat} e1={showOpt e.1} e2={showOpt e.2}"
    | none => "bad-request"
  | ["rrecon", k] =>
    match k.toInt? with
    | some k => s!"p={hex8 (reducedRecon (BitVec.ofInt 32 k)).toNat} e={showOpt (reducedReconExp k)}"
    | none => "bad-request"
  | ["sel", "exp", v] =>
    match parseVal v with
    | some x =>
      -- `expValue` with the arithmetic result abstracted to: NaN for a NaN input, a finite
      -- non-zero value otherwise (true for |x| <= 80; the harness does not send 80 < |x| < 104,
      -- where the arithmetic itself overflows / underflows)
      match expValue (fun v => if v == FVal.nan then .nan else .val) x with
      | .zero => "zero"
      | .inf => "inf"
      | .nan => "nan"
      | .val => "finite"
    | none => "bad-request"
  | ["sel", "tanh", v, sb] =>
    match parseVal v with
    | some x =>
      let (br, neg) := tanhSelect x (sb == "1")
      if x == FVal.nan then "sign=0 class=nan"
      else
        let cls := match br with
          | .one => "one"
          | .tiny => if x == FVal.fin 0 then "zero" else "other"
          | _ => "other"
        s!"sign={b01 neg} class={cls}"
    | none => "bad-request"
  | ["kreach"] => toString kReach
  | _ => "bad-request"

end RtenVerif.Driver.C19

/-- `model_C19`: reads request lines on stdin, prints the model's answer per line. -/
def main : IO Unit := RtenVerif.Driver.loopPure RtenVerif.Driver.C19.handle
