import RtenVerif.Driver.Util
import RtenVerif.Model.LoaderConst
import RtenVerif.Model.RtenHeader
import RtenVerif.Model.Protobuf

namespace RtenVerif.Driver.C05
open RtenVerif.Driver RtenVerif.LoaderConst

def showOutcome : Outcome → String
  | .ok s n => s!"ok {if s.isEmpty then "-" else showNats "," s} {n}"
  | .err c => s!"err:{c.toString}"
  | .panic => "panic"

def parseU (s : String) : Option U := s.toNat?.map UInt64.ofNat

def parseDims (s : String) : Option (List Int) :=
  if s == "-" then some [] else parseIntList "," s

def parseUDims (s : String) : Option (List U) :=
  if s == "-" then some [] else (parseNatList "," s).map (·.map UInt64.ofNat)

/-- `key=value` → value -/
def kv (key : String) (s : String) : Option String :=
  if s.startsWith (key ++ "=") then some ((s.drop (key.length + 1)).toString) else none

def parseOptU (s : String) : Option (Option U) :=
  if s == "-" then some none else (parseU s).map some

def parseDType : String → Option DType
  | "float" => some .float | "int32" => some .int32 | "uint8" => some .uint8 | "int8" => some .int8
  | "int64" => some .int64 | "bool" => some .bool | "double" => some .double
  | "float16" => some .float16 | "unsupported" => some .unsupported | "missing" => some .missing
  | _ => none

def parseExt (s : String) : Option Ext :=
  match s.splitOn ":" with
  | ["none"] => some .none
  | ["loc"] => some .badLocation
  | ["meta"] => some .badMeta
  | ["fail"] => some .loadErr
  | ["ok", b, o] => do some (.ok (← parseU b) (← parseU o))
  | _ => none

def parseRType : String → Option RType
  | "f32" => some .f32 | "i32" => some .i32 | "i8" => some .i8 | "u8" => some .u8
  | "other" => some .other
  | _ => none

def parseMode : String → Option Bool
  | "rel" => some false | "ovf" => some true | _ => none

open RtenVerif.RtenHeader in
/-- `hdr version model_offset model_len tensor_data_offset file_len`: `Header::from_buf` on a
file of `file_len` bytes starting with that header, then the model-segment slice. -/
def handleHdr (ovf : Bool) (v mo ml tdo flen : Nat) : String :=
  let h : Header := { version := v, modelOffset := mo, modelLen := ml, tensorDataOffset := tdo }
  let buf := (toBuf h ++ List.replicate (flen - 32) 0).take flen
  match fromBuf buf with
  | .error _ => "err:header"
  | .ok h =>
    match modelSlice ovf (UInt64.ofNat h.modelOffset) (UInt64.ofNat h.modelLen) (UInt64.ofNat flen) with
    | none => "panic"
    | some _ => "ok"

/-- Requests (answers: `ok <dims|-> <len>` | `err:<class>` | `panic`):
* `onnx <dtype> <dims|-> raw=<n|-> ext=<none|loc|meta|fail|ok:bytes:offset> f=<n> i32=<n> i64=<n> f64=<n>`
* `rten <rel|ovf> inline <ty> <dims|-> n=<n>`
* `rten <rel|ovf> stored <ty> <dims|-> tdo=<n|-> off=<n> slen=<n>`
* `rtenold …` same, answered by the model of the code before the C05 fixes
* `hdr <rel|ovf> <version> <model_offset> <model_len> <tensor_data_offset> <file_len>`
* `nest <subgraph|raw> <depth>`: an ONNX file whose embedded messages nest `depth` levels below the
  top-level message, along fields the schema decodes as messages → `err:parse` iff
  `depth > Protobuf.maxDepth` (C38 `c38_depth_limit`: an embedded message at depth ≥ 100 is refused),
  else `past-parse` -/
def handle (line : String) : String :=
  match words line with
  | ["onnx", dt, dims, raw, ext, f, i32, i64, f64] =>
    let r : Option String := do
      let dt ← parseDType dt
      let dims ← parseDims dims
      let raw ← parseOptU (← kv "raw" raw)
      let ext ← parseExt (← kv "ext" ext)
      let f ← parseU (← kv "f" f)
      let i32 ← parseU (← kv "i32" i32)
      let i64 ← parseU (← kv "i64" i64)
      let f64 ← parseU (← kv "f64" f64)
      let c : OnnxInit := { dims := dims, dtype := dt, raw := raw, ext := ext,
                            typed := { floats := f, int32s := i32, int64s := i64, doubles := f64 } }
      some (showOutcome (loadConstant c))
    r.getD "bad-request"
  | [kw, mode, "inline", ty, dims, n] =>
    let r : Option String := do
      let ovf ← parseMode mode
      let ty ← parseRType ty
      let dims ← parseUDims dims
      let n ← parseU (← kv "n" n)
      let c : RtenConst := { dims := dims, ty := ty, data := .inline n }
      let f : RtenFile := { tensorDataOffset := none, storageLen := 0 }
      if kw == "rten" then some (showOutcome (addGraphConstant f c))
      else if kw == "rtenold" then some (showOutcome (Old.addGraphConstant ovf f c))
      else none
    r.getD "bad-request"
  | [kw, mode, "stored", ty, dims, tdo, off, slen] =>
    let r : Option String := do
      let ovf ← parseMode mode
      let ty ← parseRType ty
      let dims ← parseUDims dims
      let tdo ← parseOptU (← kv "tdo" tdo)
      let off ← parseU (← kv "off" off)
      let slen ← parseU (← kv "slen" slen)
      let c : RtenConst := { dims := dims, ty := ty, data := .stored off }
      let f : RtenFile := { tensorDataOffset := tdo, storageLen := slen }
      if kw == "rten" then some (showOutcome (addGraphConstant f c))
      else if kw == "rtenold" then some (showOutcome (Old.addGraphConstant ovf f c))
      else none
    r.getD "bad-request"
  | ["nest", _, d] =>
    match d.toNat? with
    | some d => if d > RtenVerif.Protobuf.maxDepth then "err:parse" else "past-parse"
    | none => "bad-request"
  | ["hdr", mode, v, mo, ml, tdo, flen] =>
    match parseMode mode, v.toNat?, mo.toNat?, ml.toNat?, tdo.toNat?, flen.toNat? with
    | some ovf, some v, some mo, some ml, some tdo, some flen => handleHdr ovf v mo ml tdo flen
    | _, _, _, _, _, _ => "bad-request"
  | _ => "bad-request"

end RtenVerif.Driver.C05

def main : IO Unit := RtenVerif.Driver.loopPure RtenVerif.Driver.C05.handle
