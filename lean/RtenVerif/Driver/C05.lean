import RtenVerif.Driver.Util
import RtenVerif.Model.LoaderConst
import RtenVerif.Model.RtenHeader
import RtenVerif.Model.Protobuf

namespace RtenVerif.Driver.C05
open RtenVerif.Driver RtenVerif.LoaderConst

def showOutcome : Outcome → String
  | .ok s n => s!"ok {if s.isEmpty then "-" else showNats "," s} {n}"
  | .err c => s!"err:{c.toString}"
  | .panic => "panic"

def parseU (s : String) : Option U := s.toNat?.map UInt64.ofNat

def parseDims (s : String) : Option (List Int) :=
  if s == "-" then some [] else parseIntList "," s

def parseUDims (s : String) : Option (List U) :=
  if s == "-" then some [] else (parseNatList "," s).map (·.map UInt64.ofNat)

/-- `key=value` → value -/
def kv (key : String) (s : String) : Option String :=
  if s.startsWith (key ++ "=") then some ((s.drop (key.length + 1)).toString) else none

def parseOptU (s : String) : Option (Option U) :=
  if s == "-" then some none else (parseU s).map some

def parseDType : String → Option DType
  | "float" => some .float | "int32" => some .int32 | "uint8" => some .uint8 | "int8" => some .int8
  | "int64" => some .int64 | "bool" => some .bool | "double" => some .double
  | "float16" => some .float16 | "unsupported" => some .unsupported | "missing" => some .missing
  | _ => none

def parseExt (s : String) : Option Ext :=
  match s.splitOn ":" with
  | ["none"] => some .none
  | ["loc"] => some .badLocation
  | ["meta"] => some .badMeta
  | ["fail"] => some .loadErr
  | ["mem", l, o, b] => do some (.ref .mem (← parseU l) (← parseU o) (← parseU b))
  | ["mmap", l, o, b] => do some (.ref .mmap (← parseU l) (← parseU o) (← parseU b))
  | ["file", l, o, b] => do some (.ref .file (← parseU l) (← parseU o) (← parseU b))
  | _ => none

def parseRType : String → Option RType
  | "f32" => some .f32 | "i32" => some .i32 | "i8" => some .i8 | "u8" => some .u8
  | "other" => some .other
  | _ => none

def parseMode : String → Option Bool
  | "rel" => some false | "ovf" => some true | _ => none

open RtenVerif.RtenHeader in
/-- `hdr version model_offset model_len tensor_data_offset file_len`: `Header::from_buf` on a
file of `file_len` bytes starting with that header, then the model-segment slice. -/
def handleHdr (ovf : Bool) (v mo ml tdo flen : Nat) : String :=
  let h : Header := { version := v, modelOffset := mo, modelLen := ml, tensorDataOffset := tdo }
  let buf := (toBuf h ++ List.replicate (flen - 32) 0).take flen
  match fromBuf buf with
  | .error _ => "err:header"
  | .ok h =>
    match modelSlice ovf (UInt64.ofNat h.modelOffset) (UInt64.ofNat h.modelLen) (UInt64.ofNat flen) with
    | none => "panic"
    | some _ => "ok"

/-- `<dtype> <dims|-> raw=<n|-> ext=<…> f=<n> i32=<n> i64=<n> f64=<n>` -/
def parseTensor : List String → Option OnnxInit
  | [dt, dims, raw, ext, f, i32, i64, f64] => do
    let dt ← parseDType dt
    let dims ← parseDims dims
    let raw ← parseOptU (← kv "raw" raw)
    let ext ← parseExt (← kv "ext" ext)
    let f ← parseU (← kv "f" f)
    let i32 ← parseU (← kv "i32" i32)
    let i64 ← parseU (← kv "i64" i64)
    let f64 ← parseU (← kv "f64" f64)
    some { dims := dims, dtype := dt, raw := raw, ext := ext,
           typed := { floats := f, int32s := i32, int64s := i64, doubles := f64 } }
  | _ => none

/-- `inline <ty> <dims|-> n=<n>` | `stored <ty> <dims|-> off=<n>`.  For inline constants the
vector is placed at offset 0 of a file long enough to hold it (the flatbuffers verifier's
guarantee); the outcome does not depend on where it is. -/
def parseRConst : List String → Option RtenConst
  | ["inline", ty, dims, n] => do
    some { dims := ← parseUDims dims, ty := ← parseRType ty, data := .inline (← parseU (← kv "n" n)) 0 }
  | ["stored", ty, dims, off] => do
    some { dims := ← parseUDims dims, ty := ← parseRType ty, data := .stored (← parseU (← kv "off" off)) }
  | _ => none

def inlineFileLen (c : RtenConst) (slen : U) : U :=
  match c.data with
  | .inline n _ => if slen < n * 4 then n * 4 else slen
  | .stored _ => slen

def parseConstAttr (t : Option OnnxInit) (tok : String) : Option ConstAttr :=
  match tok.splitOn ":" with
  | ["int"] => some .valueInt
  | ["float"] => some .valueFloat
  | ["ints", n] => (parseU n).map .valueInts
  | ["floats", n] => (parseU n).map .valueFloats
  | ["value"] => t.map .value
  | ["notensor"] => some .valueNoTensor
  | ["unnamed"] => some .unnamed
  | ["other"] => some .other
  | _ => none

def showAll : Except Outcome (List (List Nat × Nat)) → String
  | .ok rs => "ok " ++ joinWith ";" (rs.map fun r =>
      s!"{if r.1.isEmpty then "-" else showNats "," r.1} {r.2}")
  | .error o => showOutcome o

def splitBar (line : String) : List (List String) := (line.splitOn " | ").map words

/-- Requests (answers: `ok <dims|-> <len>` | `err:<class>` | `panic`):
* `onnx <tensor>` with `<tensor>` = `<dtype> <dims|-> raw=<n|-> ext=<none|loc|meta|fail|<mem|mmap|file>:len:off:buflen> f=<n> i32=<n> i64=<n> f64=<n>`
* `onnxall <tensor> | <tensor> | …` → `loadAll loadConstant`
* `constop <outputs> <attr,…|-> | <tensor>` → `constOp`; `attrconst <-|n>` → `attrConstant`
* `rten <rel|ovf> inline <ty> <dims|-> n=<n>`
* `rten <rel|ovf> stored <ty> <dims|-> tdo=<n|-> off=<n> slen=<n>`
* `rtenall <rel|ovf> tdo=<n> slen=<n> | inline … | stored … | …` → `loadAll addGraphConstant`
* `rtenold …` same as `rten`, answered by the model of the code before the C05 fixes
* `hdr <rel|ovf> <version> <model_offset> <model_len> <tensor_data_offset> <file_len>`
* `nest <subgraph|raw> <depth>`: an ONNX file whose embedded messages nest `depth` levels below the
  top-level message, along fields the schema decodes as messages → `err:parse` iff
  `depth > Protobuf.maxDepth` (C38 `c38_depth_limit`: an embedded message at depth ≥ 100 is refused),
  else `past-parse` -/
def handle (line : String) : String :=
  match splitBar line with
  | ("onnx" :: t) :: [] =>
    ((parseTensor t).map fun c => showOutcome (loadConstant false c)).getD "bad-request"
  | ("onnxall" :: t) :: rest =>
    ((t :: rest).mapM parseTensor |>.map fun cs => showAll (loadAll (loadConstant false) cs)).getD
      "bad-request"
  | ["constop", outs, attrs] :: rest =>
    let r : Option String := do
      let outs ← outs.toNat?
      let t : Option OnnxInit := match rest with | [t] => parseTensor t | _ => none
      let attrs ← if attrs == "-" then some [] else (attrs.splitOn ",").mapM (parseConstAttr t)
      some (showOutcome (constOp false outs attrs))
    r.getD "bad-request"
  | ["attrconst", n] :: [] =>
    if n == "-" then showOutcome (attrConstant false none)
    else ((parseU n).map fun k => showOutcome (attrConstant false (some k))).getD "bad-request"
  | ["rtenall", mode, tdo, slen] :: rest =>
    let r : Option String := do
      let ovf ← parseMode mode
      let tdo ← parseOptU (← kv "tdo" tdo)
      let slen ← parseU (← kv "slen" slen)
      let cs ← rest.mapM parseRConst
      some (showAll (loadAll (addGraphConstant ovf { tensorDataOffset := tdo, storageLen := slen }) cs))
    r.getD "bad-request"
  | [kw, mode, "inline", ty, dims, n] :: [] =>
    let r : Option String := do
      let ovf ← parseMode mode
      let c ← parseRConst ["inline", ty, dims, n]
      let f : RtenFile := { tensorDataOffset := none, storageLen := inlineFileLen c 0 }
      if kw == "rten" then some (showOutcome (addGraphConstant ovf f c))
      else if kw == "rtenold" then some (showOutcome (Old.addGraphConstant ovf f c))
      else none
    r.getD "bad-request"
  | [kw, mode, "stored", ty, dims, tdo, off, slen] :: [] =>
    let r : Option String := do
      let ovf ← parseMode mode
      let c ← parseRConst ["stored", ty, dims, off]
      let tdo ← parseOptU (← kv "tdo" tdo)
      let slen ← parseU (← kv "slen" slen)
      let f : RtenFile := { tensorDataOffset := tdo, storageLen := slen }
      if kw == "rten" then some (showOutcome (addGraphConstant ovf f c))
      else if kw == "rtenold" then some (showOutcome (Old.addGraphConstant ovf f c))
      else none
    r.getD "bad-request"
  | ["nest", _, d] :: [] =>
    match d.toNat? with
    | some d => if d > RtenVerif.Protobuf.maxDepth then "err:parse" else "past-parse"
    | none => "bad-request"
  | ["hdr", mode, v, mo, ml, tdo, flen] :: [] =>
    match parseMode mode, v.toNat?, mo.toNat?, ml.toNat?, tdo.toNat?, flen.toNat? with
    | some ovf, some v, some mo, some ml, some tdo, some flen => handleHdr ovf v mo ml tdo flen
    | _, _, _, _, _, _ => "bad-request"
  | _ => "bad-request"

end RtenVerif.Driver.C05

def main : IO Unit := RtenVerif.Driver.loopPure RtenVerif.Driver.C05.handle
