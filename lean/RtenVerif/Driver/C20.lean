import RtenVerif.Driver.Util
import RtenVerif.Model.RtenHeader
import RtenVerif.Model.ConstNarrow

namespace RtenVerif.Driver.C20
open RtenVerif.Driver RtenVerif.RtenHeader RtenVerif.ConstNarrow

/-- `cst <kind> v1,v2,…`: the constant as both loaders must deliver it (see harness `c20_e2e.rs`):
`i64` → saturated i32s; `f64` (u64 bit patterns) → f32 bit patterns, RNE, NaN canonical;
`f16` (bit patterns) → f32 bit patterns; `bool` → 0/1; `u8t` / `i8t` (`int32_data` elements) →
wrapped; `i32` / `f32` unchanged. -/
def cst (kind vals : String) : String :=
  match kind with
  | "i64" => (match parseIntList "," vals with
      | some xs => "i32 " ++ showInts "," (xs.map satCastI64ToI32) | none => "bad-request")
  | "f64" => (match parseNatList "," vals with
      | some xs => "f32 " ++ showNats "," (xs.map fun b => canonNaN32 (f64ToF32Bits b)) | none => "bad-request")
  | "f16" => (match parseNatList "," vals with
      | some xs => "f32 " ++ showNats "," (xs.map fun b => canonNaN32 (f16ToF32Bits (b % 65536))) | none => "bad-request")
  | "bool" => (match parseIntList "," vals with
      | some xs => "i32 " ++ showInts "," (xs.map loaderBool) | none => "bad-request")
  | "u8t" => (match parseIntList "," vals with
      | some xs => "u8 " ++ showInts "," (xs.map wrapU8) | none => "bad-request")
  | "i8t" => (match parseIntList "," vals with
      | some xs => "i8 " ++ showInts "," (xs.map wrapI8) | none => "bad-request")
  | "i32" => (match parseIntList "," vals with
      | some xs => "i32 " ++ showInts "," xs | none => "bad-request")
  | "f32" => (match parseNatList "," vals with
      | some xs => "f32 " ++ showNats "," (xs.map canonNaN32) | none => "bad-request")
  | _ => "bad-request"

def errName : HeaderError → String
  | .tooShort => "TooShort" | .unsupportedVersion => "UnsupportedVersion"
  | .invalidMagic => "InvalidMagic" | .invalidOffset => "InvalidOffset"
  | .invalidLength => "InvalidLength"

/-- Requests:
* `hdr b0,b1,…`            → `ok <version> <model_offset> <model_len> <tensor_data_offset>` | `err:<class>`
* `tobuf v off len tdo`    → comma separated bytes
* `f16 i`                  → f32 bit pattern (decimal)
* `sat x1,x2,…`            → saturated i32 values
* `cst kind v1,v2,…`       → narrowed constant, see `cst` -/
def handle (line : String) : String :=
  match words line with
  | ["hdr"] => (match fromBuf [] with | .ok _ => "ok" | .error e => s!"err:{errName e}")
  | ["hdr", bs] =>
    match parseNatList "," bs with
    | some bytes =>
      (match fromBuf bytes with
       | .ok h => s!"ok {h.version} {h.modelOffset} {h.modelLen} {h.tensorDataOffset}"
       | .error e => s!"err:{errName e}")
    | none => "bad-request"
  | ["tobuf", v, o, l, t] =>
    match v.toNat?, o.toNat?, l.toNat?, t.toNat? with
    | some v, some o, some l, some t =>
      showNats "," (toBuf { version := v, modelOffset := o, modelLen := l, tensorDataOffset := t })
    | _, _, _, _ => "bad-request"
  | ["f16", i] =>
    match i.toNat? with
    | some i => toString (f16ToF32Bits i)
    | none => "bad-request"
  | ["cst", kind, vals] => cst kind vals
  | ["sat", xs] =>
    match parseIntList "," xs with
    | some xs => showInts "," (xs.map satCastI64ToI32)
    | none => "bad-request"
  | _ => "bad-request"

end RtenVerif.Driver.C20

def main : IO Unit := RtenVerif.Driver.loopPure RtenVerif.Driver.C20.handle
