import RtenVerif.Driver.Util
import RtenVerif.Model.RtenHeader

namespace RtenVerif.Driver.C20
open RtenVerif.Driver RtenVerif.RtenHeader

def errName : HeaderError → String
  | .tooShort => "TooShort" | .unsupportedVersion => "UnsupportedVersion"
  | .invalidMagic => "InvalidMagic" | .invalidOffset => "InvalidOffset"
  | .invalidLength => "InvalidLength"

/-- Requests:
* `hdr b0,b1,…`            → `ok <version> <model_offset> <model_len> <tensor_data_offset>` | `err:<class>`
* `tobuf v off len tdo`    → comma separated bytes
* `f16 i`                  → f32 bit pattern (decimal)
* `sat x1,x2,…`            → saturated i32 values -/
def handle (line : String) : String :=
  match words line with
  | ["hdr"] => (match fromBuf [] with | .ok _ => "ok" | .error e => s!"err:{errName e}")
  | ["hdr", bs] =>
    match parseNatList "," bs with
    | some bytes =>
      (match fromBuf bytes with
       | .ok h => s!"ok {h.version} {h.modelOffset} {h.modelLen} {h.tensorDataOffset}"
       | .error e => s!"err:{errName e}")
    | none => "bad-request"
  | ["tobuf", v, o, l, t] =>
    match v.toNat?, o.toNat?, l.toNat?, t.toNat? with
    | some v, some o, some l, some t =>
      showNats "," (toBuf { version := v, modelOffset := o, modelLen := l, tensorDataOffset := t })
    | _, _, _, _ => "bad-request"
  | ["f16", i] =>
    match i.toNat? with
    | some i => toString (f16ToF32Bits i)
    | none => "bad-request"
  | ["sat", xs] =>
    match parseIntList "," xs with
    | some xs => showInts "," (xs.map satCastI64ToI32)
    | none => "bad-request"
  | _ => "bad-request"

end RtenVerif.Driver.C20

def main : IO Unit := RtenVerif.Driver.loopPure RtenVerif.Driver.C20.handle
