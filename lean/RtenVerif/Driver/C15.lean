import RtenVerif.Driver.Util
import RtenVerif.Model.OnnxRefRun

/-!
Line protocol of `model_C15`.

Request: `<Op> tok tok …` where a token is
* `name=1,2,3`  integer(s) attribute (`name=` = empty list), `name=$text` string attribute,
* `i:<dims>:<data>` an input tensor (dims and data comma separated, both may be empty),
* `-` an omitted optional input,
* `@…` harness annotation (dtype / opset / how the value was encoded), ignored.
Answer: output tensors `i:<dims>:<data>` separated by spaces, or `err` / `skip`.
-/
namespace RtenVerif.Driver.C15
open RtenVerif.Driver RtenVerif.OnnxRef

def parseTensor (w : String) : Option Tensor :=
  match w.splitOn ":" with
  | [_, dims, data] => do
    let s ← parseNatList "," dims
    let d ← parseIntList "," data
    if d.length == prod s then some ⟨s, d⟩ else none
  | _ => none

structure Req where
  attrs : Attrs := {}
  inputs : Inputs := []
  bad : Bool := false

def addTok (r : Req) (w : String) : Req :=
  if w.startsWith "@" then r
  else if w == "-" then { r with inputs := r.inputs ++ [none] }
  else if w.startsWith "i:" then
    match parseTensor w with
    | some t => { r with inputs := r.inputs ++ [some t] }
    | none => { r with bad := true }
  else
    match w.splitOn "=" with
    | [n, v] =>
      if v.startsWith "$" then
        { r with attrs := { r.attrs with strs := r.attrs.strs ++ [(n, (v.drop 1).toString)] } }
      else
        match parseIntList "," v with
        | some l => { r with attrs := { r.attrs with ints := r.attrs.ints ++ [(n, l)] } }
        | none => { r with bad := true }
    | _ => { r with bad := true }

def showTensor (t : Tensor) : String :=
  s!"i:{showNats "," t.shape}:{showInts "," t.data}"

def handle (line : String) : String :=
  match words line with
  | op :: toks =>
    let r := toks.foldl addTok {}
    if r.bad then "bad-request"
    else
      match runOp op r.attrs r.inputs with
      | .ok outs => joinWith " " (outs.map showTensor)
      | .error e => e
  | [] => "bad-request"

end RtenVerif.Driver.C15

/-- `model_C15`: reads request lines on stdin, prints the reference's answer per line. -/
def main : IO Unit := RtenVerif.Driver.loopPure RtenVerif.Driver.C15.handle
