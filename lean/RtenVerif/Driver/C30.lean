import RtenVerif.Driver.Util
import RtenVerif.Model.Normalizer

/-!
`model_C30` line protocol (all code points decimal, no spaces):

`N;<chain>;<text>;<L>;<D>;<K>;<M>;<C>`

* `<chain>` ::= `b<l><s>` | `nfc` | `nfd` | `nfkc` | `nfkd`
  | `r(<pattern cps>/<content cps>/<start>-<end>,…)` | `q[<chain>+…]`
  (`r(<pattern>/<content>/!)`: `find_iter` returned a runtime `Err` on this stage's input)
* `<text>`: code points joined by `,`
* `<L>`,`<D>`,`<K>`: `c:a,b,…` entries joined by `_` (non-identity entries of to_lowercase,
  canonical and compatibility decomposition); `<M>`: the nonspacing marks; `<C>`: `a,b:c` entries.

Answer: `ok <normalized cps>;<offsets>`, `err:regex` or `panic`.

`I` (coverage): the harness lists every `impl Normalizer for X` of the source; the model answers
with the types it models.
-/
namespace RtenVerif.Driver.C30
open RtenVerif.Driver RtenVerif.Normalizer

def cps (s : String) : Option (List Char) := (parseNatList "," s).map (·.map Char.ofNat)

def parseMatch (w : String) : Option (Nat × Nat) :=
  match w.splitOn "-" with
  | [a, b] => do let x ← a.toNat?; let y ← b.toNat?; pure (x, y)
  | _ => none

def parseMatches (s : String) : Option (List (Nat × Nat)) :=
  if s.isEmpty then some [] else (s.splitOn ",").mapM parseMatch

/-- Recursive-descent parser for `<chain>`; returns the rest of the input. -/
partial def parseChain : List Char → Option (Norm × List Char)
  | 'b' :: l :: s :: rest =>
    if (l == '0' || l == '1') && (s == '0' || s == '1') then some (.bert (l == '1') (s == '1'), rest)
    else none
  | 'n' :: 'f' :: 'k' :: 'c' :: rest => some (.unicode .nfkc, rest)
  | 'n' :: 'f' :: 'k' :: 'd' :: rest => some (.unicode .nfkd, rest)
  | 'n' :: 'f' :: 'c' :: rest => some (.unicode .nfc, rest)
  | 'n' :: 'f' :: 'd' :: rest => some (.unicode .nfd, rest)
  | 'r' :: '(' :: rest =>
    let body := rest.takeWhile (· != ')')
    let rest := (rest.dropWhile (· != ')')).drop 1
    match (String.ofList body).splitOn "/" with
    | [_pat, _content, "!"] => some (.replaceErr, rest)
    | [_pat, content, ms] => do
      let c ← cps content
      let m ← parseMatches ms
      pure (.replace c m, rest)
    | _ => none
  | 'q' :: '[' :: ']' :: rest => some (.seq [], rest)
  | 'q' :: '[' :: rest =>
    let rec items (acc : List Norm) (inp : List Char) : Option (List Norm × List Char) :=
      match parseChain inp with
      | none => none
      | some (n, '+' :: more) => items (n :: acc) more
      | some (n, ']' :: more) => some ((n :: acc).reverse, more)
      | some _ => none
    (items [] rest).map fun (ns, more) => (.seq ns, more)
  | _ => none

def parseEntry (w : String) : Option (Nat × List Char) :=
  match w.splitOn ":" with
  | [c, v] => do let x ← c.toNat?; let l ← cps v; pure (x, l)
  | _ => none

def parseTable (s : String) : Option (List (Nat × List Char)) :=
  if s.isEmpty then some [] else (s.splitOn "_").mapM parseEntry

def parseCompose (s : String) : Option (List ((Nat × Nat) × Char)) :=
  if s.isEmpty then some [] else (s.splitOn "_").mapM fun w =>
    match w.splitOn ":" with
    | [ab, c] =>
      match ab.splitOn "," with
      | [a, b] => do let x ← a.toNat?; let y ← b.toNat?; let z ← c.toNat?; pure ((x, y), Char.ofNat z)
      | _ => none
    | _ => none

def mkUni (l d k : List (Nat × List Char)) (m : List Nat) (c : List ((Nat × Nat) × Char)) : Uni where
  lower ch := (l.lookup ch.toNat).getD [ch]
  decompCanon ch := (d.lookup ch.toNat).getD [ch]
  decompCompat ch := (k.lookup ch.toNat).getD [ch]
  isMn ch := m.contains ch.toNat
  compose a b := c.lookup (a.toNat, b.toNat)

def showChars (t : List Char) : String := showNats "," (t.map Char.toNat)

/-- The `impl Normalizer for …` types the model covers (coverage request `I`). -/
def modelled : String := "Bert,Replace,Sequence,Unicode"

def handle (line : String) : String :=
  match line.splitOn ";" with
  | ["I"] => modelled
  | ["N", chain, text, l, d, k, m, c] =>
    let r : Option String := do
      let (n, rest) ← parseChain chain.toList
      if !rest.isEmpty then none
      let t ← cps text
      let u := mkUni (← parseTable l) (← parseTable d) (← parseTable k) (← parseNatList "," m) (← parseCompose c)
      pure <| match run u n t with
        | some (norm, offs) => s!"ok {showChars norm};{showNats "," offs}"
        | none => if hasRegexErr n then "err:regex" else "panic"
    r.getD "bad-request"
  | _ => "bad-request"

end RtenVerif.Driver.C30

/-- `model_C30`: reads request lines on stdin, prints the model's answer per line. -/
def main : IO Unit := RtenVerif.Driver.loopPure RtenVerif.Driver.C30.handle
