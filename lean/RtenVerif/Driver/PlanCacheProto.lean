import RtenVerif.Driver.Util
import RtenVerif.Model.Graph
import RtenVerif.Model.Planner
import RtenVerif.Model.PlanCache
/-!
Parsers / printers shared by the C26 and C22 line protocols (library module, no `main`).

* `<nodes>`: `;`-separated node descriptors in id order: `V`, `C`,
  `O/<inputs>/<outputs>/<captureIds>/<inPlace>/<deterministic>` (`,`-separated ids, `_` = None, `-` = empty);
* `<meta>`: `;`-separated per node: `-` or `<dtype|_>:<shape>` with shape `_` (undeclared), `.` (rank 0)
  or `,`-separated dims (`?` = symbolic);
* a request is `<inputs>><outputs>`; inputs `,`-separated `id/dtype/flags/shape` (flags: `o` owned | `v` view,
  then `s` for a sequence; shape `.` or `x`-separated), outputs `,`-separated ids; `-` = empty list.
-/
namespace RtenVerif.Driver.PlanCacheProto
open RtenVerif.Driver RtenVerif.Graph RtenVerif.Planner RtenVerif.PlanCache

def parseIds (s : String) : Option (List Nat) :=
  if s == "-" || s.isEmpty then some [] else (s.splitOn ",").mapM String.toNat?

def parseOptIds (s : String) : Option (List (Option Nat)) :=
  if s == "-" || s.isEmpty then some []
  else (s.splitOn ",").mapM (fun w => if w == "_" then some none else (w.toNat?).map some)

def parseNode (s : String) : Option Node :=
  if s == "V" then some .value
  else if s == "C" then some .constant
  else match s.splitOn "/" with
    | ["O", i, o, c, ip, det] => do
      let ins ← parseOptIds i
      let outs ← parseOptIds o
      let caps ← parseIds c
      pure (.operator { inputs := ins, outputs := outs, captureIds := caps, inPlace := ip == "1",
                        deterministic := det == "1" })
    | _ => none

def parseNodes (s : String) : Option (List Node) :=
  if s == "-" then some [] else (s.splitOn ";").mapM parseNode

def parseMeta (s : String) : Option VMeta :=
  if s == "-" then some {}
  else match s.splitOn ":" with
    | [d, sh] => do
      let dtype ← if d == "_" then some none else (d.toNat?).map some
      let shape ←
        if sh == "_" then some none
        else if sh == "." then some (some [])
        else ((sh.splitOn ",").mapM (fun w => if w == "?" then some none else (w.toNat?).map some)).map some
      pure { dtype := dtype, shape := shape }
    | _ => none

def parseMetas (s : String) : Option (List VMeta) :=
  if s == "-" then some [] else (s.splitOn ";").mapM parseMeta

def parseInput (s : String) : Option (Nat × InVal) :=
  match s.splitOn "/" with
  | [id, d, fl, sh] => do
    let id ← id.toNat?
    let d ← d.toNat?
    let shape ← if sh == "." then some [] else (sh.splitOn "x").mapM String.toNat?
    pure (id, { dtype := d, seq := fl.contains 's', shape := shape, owned := fl.contains 'o' })
  | _ => none

def parseReq (s : String) : Option Req :=
  match s.splitOn ">" with
  | [i, o] => do
    let ins ← if i == "-" then some [] else (i.splitOn ",").mapM parseInput
    let outs ← parseIds o
    pure { inputs := ins, outs := outs }
  | _ => none

def parseReqs (s : String) : Option (List Req) :=
  if s == "-" then some [] else (s.splitOn ";").mapM parseReq

def showErr : PlanError → String
  | .dupOutput => "err:dup-output"
  | .badOutput => "err:bad-output"
  | .dupInput => "err:dup-input"
  | .badInput => "err:bad-input"
  | .cycle => "err:cycle"
  | .missingInput => "err:missing-input"
  | .noSource => "err:no-source"
  | .outOfFuel => "diverges"

def showOutcome : Outcome → String
  | .ok => "ok"
  | .okIds ids => if ids.isEmpty then "ok -" else "ok " ++ showNats "," ids
  | .errInvalidInput => "err:invalid-input"
  | .errPlan e => showErr e
  | .errOpNotFound => "err:op-not-found"
  | .errOp => "err:op"
  | .panic _ => "panic"


/-- Answer to `assume <nodes>`: the executable graph hypotheses on the IR read back from the real
graph (`ok` or `violated:` + the failing ones, in the harness's order). -/
def assumeAnswer (g : Graph) : String :=
  let bad := (if wfgB g then [] else ["wfg"]) ++ (if wfgoB g then [] else ["wfgo"]) ++
    (if outsValueB g then [] else ["outs-value"]) ++ (if uniqueProducerB g then [] else ["unique-producer"])
  if bad.isEmpty then "ok" else "violated:" ++ joinWith "," bad

/-- Model-level wrappers (src/model.rs): `node_id(name)` = `find_node(name).ok_or(InvalidNodeName)`
(kind `NodeNotFound`); `run_one` takes the first input / output id and fails with `InvalidNodeId`
(kind `NodeNotFound`) when the model has none. -/
def wrapAnswer (kind : String) : String :=
  if kind == "unknown-name" then "err:node-not-found"
  else if kind == "run-one-no-input" then "err:node-not-found"
  else if kind == "known-name" then "ok"
  else "bad-request"

end RtenVerif.Driver.PlanCacheProto
