import RtenVerif.Driver.Util
import RtenVerif.Model.TensorBounds

/-!
`model_C06`: answers the request lines of `harness/tensor/src/bin/c06.rs` with the machine
(`UInt64`) model of the fixed constructors and the ideal model of the view arithmetic
(which `Props/C06.lean` proves equal to the machine arithmetic on every accepted tensor).
-/
namespace RtenVerif.Driver.C06
open RtenVerif.Driver RtenVerif.TensorBounds

abbrev U := UInt64

def field (ws : List String) (key : String) : String :=
  match ws.find? (fun w => w.startsWith (key ++ "=")) with
  | some w => (w.drop (key.length + 1)).toString
  | none => ""

def parseList (s : String) : Option (List Nat) :=
  if s == "-" || s.isEmpty then some [] else (s.splitOn ",").mapM String.toNat?

def showList (xs : List Nat) : String :=
  if xs.isEmpty then "-" else ",".intercalate (xs.map toString)

def toU (xs : List Nat) : List U := xs.map (fun x => x.toUInt64)

def showView (tag : String) (v : View) : String :=
  s!"{tag}{v.start}+{v.stop - v.start}[{showList (shapeOf v.dims)}]"

/-- `i5`, `-2:3`, `1:_`; `none` for a range with step -1 (`n…`, always a `SliceError`). -/
def parseSItem (w : String) : Option (Option SItem) :=
  if w.startsWith "n" then some none
  else if w.startsWith "i" then (w.drop 1).toString.toInt?.map (fun i => some (.index i))
  else
    match w.splitOn ":" with
    | [a, b] =>
      match a.toInt? with
      | none => none
      | some s =>
        if b == "_" then some (some (.range s none))
        else b.toInt?.map (fun e => some (.range s (some e)))
    | _ => none

def toMR : RItem → M.RItem
  | .pick p => .pick p.toUInt64
  | .span s e => .span s.toUInt64 e.toUInt64
  | .keep => .keep

/-- The `r:` probe: `try_slice` / `try_slice_mut`.  Items are resolved on ideal integers
(`SliceRange::resolve` works on `isize`; with `|index| ≤ 2^63` and `dim_size < 2^63` its
positive-step arithmetic cannot overflow), then `slice_layout`'s fast path, the range end and
the range assertion are evaluated on `UInt64` (`M.trySliceR`, the subject of `c06_T3_slice`). -/
def sliceProbe (ovf : Bool) (dims : List (U × U)) (storageLen : Nat) (arg : String) : String :=
  let dn := M.toN dims
  let ws := if arg == "-" then [] else arg.splitOn "/"
  match ws.mapM parseSItem with
  | none => "bad-probe"
  | some its =>
    match its.mapM id with
    | none => "err"
    | some items =>
      match resolveItems true dn items with
      | none => "err"
      | some rs =>
        -- overflow-checks builds: `offset += stride * start` traps when the running sum passes
        -- 2^64 (only possible for empty results, whose offset a release build resets to 0)
        if ovf && decide ((sliceLoopR dn rs).1 ≥ wordSize) then "panic" else
        match M.trySliceR dims storageLen.toUInt64 (rs.map toMR) with
        | none => "panic"
        | some v =>
          s!"V{v.start.toNat}+{v.storageLen.toNat}[{showList (v.dims.map (fun d => d.1.toNat))}]st[{showList (v.dims.map (fun d => d.2.toNat))}]len={(M.len v.dims).toNat}"

/-- One probe on an accepted tensor `dims` (machine values) with `storageLen` elements. -/
def probe (ovf nd : Bool) (dims : List (U × U)) (storageLen : Nat) (p : String) : String :=
  if p.startsWith "r:" then sliceProbe ovf dims storageLen (p.drop 2).toString else
  let (kind, arg) :=
    match p.splitOn ":" with
    | [k, a] => (k, a)
    | _ => (p, "")
  match parseList arg with
  | none => "bad-probe"
  | some a =>
    let dn := M.toN dims
    let getLike (missing : String) : String :=
      if ovf && !nd then
        match M.dynOffsetTrap dims (toU a) (a.length == dims.length) 0 with
        | none => "panic"
        | some none => missing
        | some (some o) => toString o.toNat
      else
        match M.offsetOf dims (toU a) with
        | none => missing
        | some o => toString o.toNat
    match kind with
    | "g" => getLike "none"
    | "m" => getLike "none"
    | "i" => getLike "panic"
    | "s" =>
      match a with
      | [axis, mid] =>
        match splitAtMut dn storageLen axis mid with
        | none => "panic"
        | some (l, r) => showView "L" l ++ "," ++ showView "R" r
      | _ => "bad-probe"
    | "x" =>
      match a with
      | [axis, s, e] =>
        match sliceAxis dn storageLen axis s e with
        | none => "panic"
        | some v => showView "S" v
      | _ => "bad-probe"
    | "b" =>
      match broadcast dn a with
      | none => "err"
      | some b => s!"B[{showList (b.map (fun d => d.2))}]len={len b}"
    | "it" => if len dn > 4096 then "big" else s!"n={len dn}"
    | _ => "bad-probe"

def metaStr (dims : List (U × U)) : String :=
  s!"ok mdl={(M.minDataLen dims).toNat} len={(M.len dims).toNat} st={showList (dims.map (fun d => d.2.toNat))}"

structure GState where
  dims : List (U × U)
  dataLen : Nat
  cap : Nat

def ofN (d : List (Nat × Nat)) : List (U × U) := d.map (fun p => (p.1.toUInt64, p.2.toUInt64))

def stateStr (st : GState) : String :=
  s!"@{showList (st.dims.map (fun d => d.1.toNat))}|{showList (st.dims.map (fun d => d.2.toNat))};dl={st.dataLen}"

/-- One step of a program on an owned tensor. A failing call leaves the state unchanged
(that is what the fixed code does; the harness reports the layout after every call). -/
def growOp (nd : Bool) (st : GState) (op : String) : Option (GState × String) :=
  let ndim := st.dims.length
  let dn := M.toN st.dims
  let r : Option (GState × String) :=
    match op.splitOn ":" with
    | ["hc", arg] =>
      match parseList arg with
      | some [axis, n] =>
        if axis ≥ ndim then some (st, "panic")
        else some (st, b01 (M.expandedLayout st.dims st.cap.toUInt64 axis n.toUInt64).isSome)
      | _ => none
    | ["ap", arg] =>
      match arg.splitOn "/" with
      | [ax, sh] =>
        match ax.toNat?, parseList sh with
        | some axis, some o =>
          if (nd && o.length != ndim) || (checkedShapeLen o).isNone then some (st, "noother")
          else
            -- the function `c06_T2_append` is about
            match append ⟨dn, st.dataLen, st.cap⟩ axis (o.map (fun s => (s, 0))) with
            | .error e => some (st, e.toString)
            | .ok t =>
              some ({ st with dims := ofN t.dims, dataLen := t.dataLen },
                s!"ok[{showList (shapeOf t.dims)}]dl={t.dataLen}")
        | _, _ => none
      | _ => none
    | ["cl", arg] =>
      match parseList arg with
      | some [dim, s, e] =>
        match clipDim ⟨dn, st.dataLen, st.cap⟩ dim s e with
        | none => some (st, "panic")
        | some t =>
          some ({ st with dims := ofN t.dims, dataLen := t.dataLen },
            s!"ok[{showList (shapeOf t.dims)}]dl={t.dataLen}")
      | _ => none
    | ["ra", arg] =>
      match arg.toNat? with
      | some i =>
        if nd then some (st, "n/a")
        else match removeAxis dn i with
          | none => some (st, "panic")
          | some d => some ({ st with dims := ofN d }, "ok")
      | none => none
    | ["ia", arg] =>
      match arg.toNat? with
      | some i =>
        if nd then some (st, "n/a")
        else match insertAxis dn i with
          | none => some (st, "panic")
          | some d => some ({ st with dims := ofN (d.map (fun p => (p.1, p.2 % wordSize))) }, "ok")
      | none => none
    | ["mv", arg] =>
      match parseList arg with
      | some [f, t] =>
        match moveAxis dn f t with
        | none => some (st, "panic")
        | some d => some ({ st with dims := ofN d }, "ok")
      | _ => none
    | ["rs", arg] =>
      match parseList arg with
      | some shape =>
        if nd then some (st, "n/a")
        else match reshape ⟨dn, st.dataLen, st.cap⟩ shape with
          | none => some (st, "panic")
          | some t => some ({ dims := ofN t.dims, dataLen := t.dataLen, cap := t.cap }, "ok")
      | none => none
    | ["mc", _] =>
      let t := makeContiguous ⟨dn, st.dataLen, st.cap⟩
      some ({ dims := ofN t.dims, dataLen := t.dataLen, cap := t.cap }, "ok")
    | ["sz", arg] =>
      match arg.toNat? with
      | some d => some (st, match sizeOf? dn d with | some x => toString x | none => "panic")
      | none => none
    | ["sd", arg] =>
      match arg.toNat? with
      | some d => some (st, match strideOf? dn d with | some x => toString x | none => "panic")
      | none => none
    | _ => none
  r.map (fun (st', a) => (st', a ++ stateStr st'))

def growOps (nd : Bool) : GState → List String → Option (List String)
  | _, [] => some []
  | st, op :: rest =>
    match growOp nd st op with
    | none => none
    | some (st', a) => (growOps nd st' rest).map (fun as => a :: as)

def handleGrow (ws : List String) : String :=
  let nd := field ws "k" == "nd"
  match parseList (field ws "shape"), (field ws "len").toNat?, (field ws "cap").toNat? with
  | some shape, some dataLen, some cap =>
    let stridesS := field ws "strides"
    match (if stridesS == "n" then some [] else parseList stridesS) with
    | none => "bad-request"
    | some strides =>
      let shapeU := toU shape
      let res : Except Err (List (U × U)) :=
        if stridesS == "n" then M.tryFromData shapeU dataLen.toUInt64
        else M.fromDataWithStrides (shapeU.zip (toU strides)) dataLen.toUInt64
      match res with
      | .error e => e.toString
      | .ok l =>
        let opsS := field ws "ops"
        let ops := if opsS == "-" then [] else opsS.splitOn ";"
        match growOps nd ⟨l, dataLen, cap⟩ ops with
        | none => "skip"
        | some answers =>
          s!"ok st={showList (l.map (fun d => d.2.toNat))} | " ++ " ".intercalate answers
  | _, _, _ => "bad-request"

def handle (line : String) : String :=
  let ws := words line
  match ws with
  | "a" :: _ => handleGrow ws
  | "t" :: _ =>
    let ovf := field ws "ovf" == "1"
    let nd := field ws "k" == "nd"
    let ctor := field ws "c"
    match parseList (field ws "shape"), (field ws "len").toNat? with
    | some shape, some dataLen =>
      let stridesS := field ws "strides"
      let strides := if stridesS == "n" then some [] else parseList stridesS
      match strides with
      | none => "bad-request"
      | some strides =>
        if stridesS != "n" && strides.length != shape.length then "skip" else
        let shapeU := toU shape
        let dims := shapeU.zip (toU strides)
        let n := dataLen.toUInt64
        let res : Except Err (List (U × U)) :=
          match ctor with
          | "fs" => M.fromShape shapeU
          | "tfd" => M.tryFromData shapeU n
          | "fd" => M.fromData shapeU n
          | "fdws" => M.fromDataWithStrides dims n
          | "fsws" => M.fromSliceWithStrides dims n
          | "fsalm" => M.fromStorageAndLayout dims n true
          | "fsalv" => M.fromStorageAndLayout dims n false
          | _ => .error .panic
        match res with
        | .error e => e.toString
        | .ok l =>
          if ctor == "fs" then metaStr l
          else
            let ps := field ws "p"
            let answers := if ps == "-" then [] else (ps.splitOn ";").map (probe ovf nd l dataLen)
            metaStr l ++ " | " ++ " ".intercalate answers
    | _, _ => "bad-request"
  | _ => "bad-request"

end RtenVerif.Driver.C06

/-- `model_C06`: reads request lines on stdin, prints the model's answer per line. -/
def main : IO Unit := RtenVerif.Driver.loopPure RtenVerif.Driver.C06.handle
