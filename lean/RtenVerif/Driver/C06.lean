import RtenVerif.Driver.Util
import RtenVerif.Model.TensorBounds

/-!
`model_C06`: answers the request lines of `harness/tensor/src/bin/c06.rs` with the machine
(`UInt64`) model of the fixed constructors and the ideal model of the view arithmetic
(which `Props/C06.lean` proves equal to the machine arithmetic on every accepted tensor).
-/
namespace RtenVerif.Driver.C06
open RtenVerif.Driver RtenVerif.TensorBounds

abbrev U := UInt64

def field (ws : List String) (key : String) : String :=
  match ws.find? (fun w => w.startsWith (key ++ "=")) with
  | some w => (w.drop (key.length + 1)).toString
  | none => ""

def parseList (s : String) : Option (List Nat) :=
  if s == "-" || s.isEmpty then some [] else (s.splitOn ",").mapM String.toNat?

def showList (xs : List Nat) : String :=
  if xs.isEmpty then "-" else ",".intercalate (xs.map toString)

def toU (xs : List Nat) : List U := xs.map (fun x => x.toUInt64)

def showView (tag : String) (v : View) : String :=
  s!"{tag}{v.start}+{v.stop - v.start}[{showList (shapeOf v.dims)}]"

/-- One probe on an accepted tensor `dims` (machine values) with `storageLen` elements. -/
def probe (ovf nd : Bool) (dims : List (U × U)) (storageLen : Nat) (p : String) : String :=
  let (kind, arg) :=
    match p.splitOn ":" with
    | [k, a] => (k, a)
    | _ => (p, "")
  match parseList arg with
  | none => "bad-probe"
  | some a =>
    let dn := M.toN dims
    let getLike (missing : String) : String :=
      if ovf && !nd then
        match M.dynOffsetTrap dims (toU a) (a.length == dims.length) 0 with
        | none => "panic"
        | some none => missing
        | some (some o) => toString o.toNat
      else
        match M.offsetOf dims (toU a) with
        | none => missing
        | some o => toString o.toNat
    match kind with
    | "g" => getLike "none"
    | "m" => getLike "none"
    | "i" => getLike "panic"
    | "s" =>
      match a with
      | [axis, mid] =>
        match splitAtMut dn storageLen axis mid with
        | none => "panic"
        | some (l, r) => showView "L" l ++ "," ++ showView "R" r
      | _ => "bad-probe"
    | "x" =>
      match a with
      | [axis, s, e] =>
        match sliceAxis dn storageLen axis s e with
        | none => "panic"
        | some v => showView "S" v
      | _ => "bad-probe"
    | "b" =>
      match broadcast dn a with
      | none => "err"
      | some b => s!"B[{showList (b.map (fun d => d.2))}]len={len b}"
    | "it" => if len dn > 4096 then "big" else s!"n={len dn}"
    | _ => "bad-probe"

def metaStr (dims : List (U × U)) : String :=
  s!"ok mdl={(M.minDataLen dims).toNat} len={(M.len dims).toNat} st={showList (dims.map (fun d => d.2.toNat))}"

def handle (line : String) : String :=
  let ws := words line
  match ws with
  | "t" :: _ =>
    let ovf := field ws "ovf" == "1"
    let nd := field ws "k" == "nd"
    let ctor := field ws "c"
    match parseList (field ws "shape"), (field ws "len").toNat? with
    | some shape, some dataLen =>
      let stridesS := field ws "strides"
      let strides := if stridesS == "n" then some [] else parseList stridesS
      match strides with
      | none => "bad-request"
      | some strides =>
        if stridesS != "n" && strides.length != shape.length then "skip" else
        let shapeU := toU shape
        let dims := shapeU.zip (toU strides)
        let n := dataLen.toUInt64
        let res : Except Err (List (U × U)) :=
          match ctor with
          | "fs" => M.fromShape shapeU
          | "tfd" => M.tryFromData shapeU n
          | "fd" => M.fromData shapeU n
          | "fdws" => M.fromDataWithStrides dims n
          | "fsws" => M.fromSliceWithStrides dims n
          | "fsalm" => M.fromStorageAndLayout dims n true
          | "fsalv" => M.fromStorageAndLayout dims n false
          | _ => .error .panic
        match res with
        | .error e => e.toString
        | .ok l =>
          if ctor == "fs" then metaStr l
          else
            let ps := field ws "p"
            let answers := if ps == "-" then [] else (ps.splitOn ";").map (probe ovf nd l dataLen)
            metaStr l ++ " | " ++ " ".intercalate answers
    | _, _ => "bad-request"
  | _ => "bad-request"

end RtenVerif.Driver.C06

/-- `model_C06`: reads request lines on stdin, prints the model's answer per line. -/
def main : IO Unit := RtenVerif.Driver.loopPure RtenVerif.Driver.C06.handle
