import RtenVerif.Driver.Util
import RtenVerif.Model.Filter

/-!
`model_C31` line protocol (scores are decimal f32 bit patterns, items are `id:bits`,
an empty item list is `-`; `<m>` is `d` (dense input) or `s` (sparse), ignored here):

* `cmp <a> <b>`                         → `<lt|eq|gt> <0|1>`  (`total_cmp`, IEEE `a > b`)
* `topk <m> <k> | <items>`              → items | `panic`   (also `topk@<isa> …`: same answer)
* `topk0 <m> <k> | <items>`             → same for the code before the clamp fix
* `topp <m> <pbits> | <items>`          → items   (any p and scores, incl. ±inf / NaN)
* `sort <m> | <items>`                  → items
* `chain <m> <spec>,<spec>,… | <items>` → items | `panic` | `skip`
  specs: `k<k>` `p<pbits>` `s` `m<m>.<r>` `g<c>` `T<tbits>` (temperature bit pattern: `panic` if
  NaN/negative, `skip` unless 1.0 or an exactly scaling power of two); `e` = empty chain.
-/
namespace RtenVerif.Driver.C31
open RtenVerif.Driver RtenVerif.Filter

/-- SIMD width used when evaluating the model (the result does not depend on it:
`RtenVerif.Filter.topK_eq_seq`). -/
def lanes : Nat := 16

def parseItem (w : String) : Option Item :=
  match w.splitOn ":" with
  | [a, b] => do let x ← a.toNat?; let y ← b.toNat?; pure ⟨x, y⟩
  | _ => none

def parseItems (ws : List String) : Option (List Item) :=
  if ws == ["-"] then some [] else ws.mapM parseItem

def showItems (xs : List Item) : String :=
  if xs.isEmpty then "-" else joinWith " " (xs.map (fun a => s!"{a.id}:{a.bits}"))

def parseSpec (w : String) : Option Spec :=
  let rest := (w.drop 1).toString
  if w == "s" then some .sort
  else if w.startsWith "k" then rest.toNat?.map .topK
  else if w.startsWith "p" then rest.toNat?.map .topP
  else if w.startsWith "g" then rest.toNat?.map .idGe
  else if w.startsWith "T" then rest.toNat?.map .temp
  else if w.startsWith "m" then
    match rest.splitOn "." with
    | [a, b] => do let m ← a.toNat?; let r ← b.toNat?; pure (.idMod m r)
    | _ => none
  else none

def parseSpecs (w : String) : Option (List Spec) :=
  if w == "e" then some [] else (w.splitOn ",").mapM parseSpec

def showRes : Option (Option (List Item)) → String
  | none => "skip"
  | some none => "panic"
  | some (some xs) => showItems xs

def splitBar (ws : List String) : List String × List String :=
  (ws.takeWhile (· != "|"), (ws.dropWhile (· != "|")).drop 1)

def handle (line : String) : String :=
  match words line with
  | ["cmp", a, b] =>
    match a.toNat?, b.toNat? with
    | some x, some y =>
      let o := if tkey x < tkey y then "lt" else if tkey x = tkey y then "eq" else "gt"
      s!"{o} {b01 (fgt x y)}"
    | _, _ => "bad-request"
  | cmd0 :: _m :: rest =>
    -- `topk@avx2` etc.: the ISA the harness forced; the model's answer does not depend on it
    let cmd := (cmd0.splitOn "@").headD cmd0
    let (hd, tl) := splitBar rest
    match parseItems tl with
    | none => "bad-request"
    | some xs =>
      match cmd, hd with
      | "topk", [k] =>
        match k.toNat? with
        | some k => showRes (runChain true lanes [.topK k] xs)
        | none => "bad-request"
      | "topk0", [k] =>
        match k.toNat? with
        | some k => showRes (runChain false lanes [.topK k] xs)
        | none => "bad-request"
      | "topp", [p] =>
        match p.toNat? with
        | some p => showRes (runChain true lanes [.topP p] xs)
        | none => "bad-request"
      | "sort", [] => showRes (runChain true lanes [.sort] xs)
      | "chain", [specs] =>
        match parseSpecs specs with
        | some fs => showRes (runChain true lanes fs xs)
        | none => "bad-request"
      | _, _ => "bad-request"
  | _ => "bad-request"

end RtenVerif.Driver.C31

/-- `model_C31`: reads request lines on stdin, prints the model's answer per line. -/
def main : IO Unit := RtenVerif.Driver.loopPure RtenVerif.Driver.C31.handle
