import RtenVerif.Driver.Util
import RtenVerif.Model.Optimize

namespace RtenVerif.Driver.C01
open RtenVerif.Driver

def handle (_line : String) : String := "skip"

end RtenVerif.Driver.C01

/-- `model_C01`: reads request lines on stdin, prints the model's answer per line. -/
def main : IO Unit := RtenVerif.Driver.loopPure RtenVerif.Driver.C01.handle
