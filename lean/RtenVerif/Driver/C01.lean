import RtenVerif.Driver.Util
import RtenVerif.Model.Optimize
import RtenVerif.Model.Pattern
import RtenVerif.Model.FusionPatterns

/-!
`model_C01`: model of `GraphOptimizer::optimize` for the modelled fusions. Reads the description of
the unoptimized graph (+ value metadata the optimizer sees), runs early fusions, the fusion fixpoint
(≤ 3 passes) with the guard functions of `Model/Optimize.lean` (the ones `c01_rewrite_sound` is about)
and the matcher of `Model/Pattern.lean`, and prints one term per graph output. Answers `skip` for
graphs outside the modelled fragment (operator types of unmodelled fusions, constant propagation,
shape-inference constants).
-/
namespace RtenVerif.Driver.C01
open RtenVerif.Driver RtenVerif.Pattern RtenVerif.Pattern.Fusions

structure VInfo where
  id : Nat
  name : String
  dtype : String
  shape : Option (List String)
deriving Repr

structure DOp where
  oid : Nat
  ty : String
  attrs : List (String × List Int)
  ins : List (Option Nat)
  outs : List Nat
  caps : List Nat
deriving Repr

structure DG where
  vals : List VInfo := []
  consts : List ConstInfo := []
  ops : List DOp := []
  inputs : List Nat := []
  /-- `graph.output_ids()` (not updated until `finalize_graph`) -/
  outputs : List Nat := []
  /-- `GraphMutator::output_ids` -/
  mouts : List Nat := []
  outNames : List String := []
  next : Nat := 0
  hasK : Bool := false
  /-- a run-time assertion of a T1 side condition (`hFreads`) failed -/
  assertBad : Bool := false
deriving Repr

def DG.view (g : DG) : GView :=
  { ops := g.ops.map fun o => { oid := o.oid, ty := o.ty, ins := o.ins, outs := o.outs },
    consts := g.consts, values := g.vals.map (·.id) }

def DG.rank (g : DG) (v : Nat) : Option Nat :=
  match g.consts.find? (·.id == v) with
  | some c => some c.shape.length
  | none => ((g.vals.find? (·.id == v)).bind (·.shape)).map (·.length)

def DG.shape (g : DG) (v : Nat) : Option (List String) :=
  match g.consts.find? (·.id == v) with
  | some c => some (c.shape.map toString)
  | none => (g.vals.find? (·.id == v)).bind (·.shape)

def DG.dtype (g : DG) (v : Nat) : String :=
  match g.consts.find? (·.id == v) with
  | some c => c.dtype
  | none => ((g.vals.find? (·.id == v)).map (·.dtype)).getD "?"

def DG.op? (g : DG) (oid : Nat) : Option DOp := g.ops.find? (·.oid == oid)
def DG.source (g : DG) (v : Nat) : Option DOp := g.ops.find? (fun o => o.outs.contains v)
def DOp.attr (o : DOp) (k : String) : Option (List Int) := (o.attrs.find? (·.1 == k)).map (·.2)
def attr1 (o : DOp) (k : String) (dflt : Int) : Int :=
  match o.attr k with | some [x] => x | _ => dflt

/-! ## parsing -/

def parseShape (s : String) : Option (List String) :=
  if s == "*" then none else if s == "_" then some [] else some (s.splitOn ",")

def parseIds (names : List (String × Nat)) (s : String) : List (Option Nat) :=
  if s == "-" then [] else (s.splitOn ",").map fun n => if n == "~" then none else (names.find? (·.1 == n)).map (·.2)

def parseAttrs (s : String) : List (String × List Int) :=
  if s == "-" then [] else
    (s.splitOn "/").filterMap fun kv =>
      match kv.splitOn "=" with
      | [k, v] => some (k, if v == "-" then [] else (v.splitOn ",").filterMap String.toInt?)
      | _ => none

structure PState where
  g : DG := {}
  names : List (String × Nat) := []
  ok : Bool := true

def PState.idOf (st : PState) (n : String) : PState × Nat :=
  match st.names.find? (·.1 == n) with
  | some (_, i) => (st, i)
  | none =>
    let i := st.g.next
    ({ st with names := st.names ++ [(n, i)], g := { st.g with next := i + 1 } }, i)

def parseTok (st : PState) (tok : String) : PState :=
  match tok.splitOn ":" with
  | ["I", n, dtv, sh] =>
    let (st, i) := st.idOf n
    { st with g := { st.g with vals := st.g.vals ++ [{ id := i, name := n, dtype := dtv, shape := parseShape sh }], inputs := st.g.inputs ++ [i] } }
  | ["C", n, dtv, sh, vs] =>
    let (st, i) := st.idOf n
    let shape := ((parseShape sh).getD []).filterMap String.toNat?
    let raw := if vs == "~" || vs == "-" then [] else vs.splitOn ","
    let bitsV : List Nat := if dtv == "f" then raw.filterMap String.toNat? else []
    let intsV : List Int := if dtv == "f" then [] else raw.filterMap String.toInt?
    let c : ConstInfo := ⟨i, dtv, shape, bitsV, intsV⟩
    { st with g := { st.g with consts := st.g.consts ++ [c] } }
  | ["N", ty, attrs, ins, outs, caps] =>
    -- output value nodes
    let (st, outIds) := (outs.splitOn ",").foldl (fun (acc : PState × List Nat) n =>
      let (s, i) := acc.1.idOf n
      let s := if s.g.vals.any (·.id == i) then s else { s with g := { s.g with vals := s.g.vals ++ [{ id := i, name := n, dtype := "?", shape := none }] } }
      (s, acc.2 ++ [i])) (st, [])
    let oid := st.g.next
    let op : DOp := ⟨oid, ty, parseAttrs attrs, parseIds st.names ins, outIds, (parseIds st.names caps).filterMap id⟩
    { st with g := { st.g with ops := st.g.ops ++ [op], next := oid + 1 } }
  | ["O", outs] =>
    let ids := (parseIds st.names outs).filterMap id
    { st with g := { st.g with outputs := ids, mouts := ids, outNames := outs.splitOn "," } }
  | ["V", n, dtv, sh] =>
    match st.names.find? (·.1 == n) with
    | some (_, i) =>
      { st with g := { st.g with vals := st.g.vals.map fun v => if v.id == i then { v with dtype := dtv, shape := parseShape sh } else v } }
    | none => st
  | "K" :: _ => { st with g := { st.g with hasK := true } }
  | _ => st

/-! ## plan order -/

/-- operators reachable (backwards, through inputs and captures) from `outs`, stopping at `stop`. -/
def reach (g : DG) (stop : List Nat) : Nat → List Nat → List Nat → List Nat
  | 0, _, acc => acc
  | fuel + 1, frontier, acc =>
    match frontier with
    | [] => acc
    | v :: rest =>
      if stop.contains v then reach g stop fuel rest acc
      else
        match g.source v with
        | none => reach g stop fuel rest acc
        | some o =>
          if acc.contains o.oid then reach g stop fuel rest acc
          else reach g stop fuel (o.ins.filterMap id ++ o.caps ++ rest) (o.oid :: acc)

/-- a topological order of the selected operators (Kahn, list order as tie-break) -/
def topo (g : DG) (sel : List Nat) : Nat → List Nat → List Nat → List Nat
  | 0, _, acc => acc
  | fuel + 1, remaining, acc =>
    if remaining.isEmpty then acc
    else
      let produced (v : Nat) : Bool := remaining.any fun oid => match g.op? oid with | some o => o.outs.contains v | none => false
      match remaining.find? (fun oid => match g.op? oid with
          | some o => (o.ins.filterMap id ++ o.caps).all (fun v => !produced v)
          | none => true) with
      | some oid => topo g sel fuel (remaining.filter (· != oid)) (acc ++ [oid])
      | none => acc

def planFor (g : DG) (ins outs : List Nat) : List Nat :=
  let sel := reach g ins 4096 outs []
  let sel := (g.ops.map (·.oid)).filter sel.contains
  topo g sel 4096 sel []

/-! ## fusions -/

inductive Fus where
  | op (ty : String) (attrs : List (String × List Int)) (ins : List (Option Nat)) (outs : List Nat) (unused : List Nat)
  | ident (inp out : Nat)
  /-- fused operator with one NEW f32 constant of shape `cshape` at input position `cidx` (ConvAdd's bias) -/
  | opc (ty : String) (attrs : List (String × List Int)) (ins : List (Option Nat)) (outs : List Nat) (cidx : Nat) (cshape : List Nat)
deriving Repr

def cfgOf (g : DG) : MatchCfg := { strictKeys := true, rankGuard := true, rank := g.rank }

def tryMatch (g : DG) (p : Pat) (oid : Nat) : Option Syms := matchPat g.view (cfgOf g) 64 p oid []

def singleF (g : DG) (v : Nat) : Bool :=
  match g.consts.find? (·.id == v) with
  | some c => c.dtype == "f" && c.shape.foldl (· * ·) 1 == 1
  | none => false

/-- `get_scalar_operand` (fixed code) -/
def scalarOperand (g : DG) (v other : Nat) : Bool :=
  singleF g v && (match g.rank v with
    | some 0 => true
    | some r => (match g.rank other with | some ro => ro ≥ r | none => false)
    | none => false)

/-- `op_applied_to_last_axis` -/
def lastAxis (g : DG) (oid : Nat) (axisOf : DOp → Option Int) : Bool :=
  match g.op? oid with
  | none => false
  | some o =>
    match axisOf o with
    | none => false
    | some ax =>
      if ax == -1 then true
      else
        match (o.ins.head?.bind id).bind g.rank with
        | some (r + 1) => (r : Int) == ax
        | _ => false

def meanAxis (o : DOp) : Option Int :=
  if o.ty != "ReduceMean" then none else match o.attr "axes" with | some [a] => some a | _ => none
def softmaxAxis (o : DOp) : Option Int :=
  if o.ty != "Softmax" then none else match o.attr "axis" with | some [a] => some a | _ => some (-1)

def patFusion (g : DG) (o : DOp) (p : Pat) (newTy : String) (inputs : List String)
    (check : Syms → Option (List (String × List Int))) : Option Fus :=
  (tryMatch g p o.oid).bind fun s =>
    (check s).map fun attrs => Fus.op newTy attrs (inputs.map s.find) o.outs []

def onnxDt (to : Int) : String :=
  if to == 1 then "f" else if to == 6 || to == 7 || to == 9 then "i" else if to == 2 then "u8" else if to == 3 then "i8" else "other"

def vIdentity (g : DG) (o : DOp) : Option Fus :=
  (tryMatch g identityPat o.oid).bind fun s =>
    match s.find "x", o.outs with
    | some x, [out] => some (.ident x out)
    | _, _ => none

def vCast (g : DG) (o : DOp) : Option Fus :=
  if o.ty != "Cast" then none else
  match o.attr "to", o.ins, o.outs with
  | some [to], [some i], [out] => if g.dtype i != "?" && g.dtype i == onnxDt to then some (.ident i out) else none
  | _, _, _ => none

def constBits (g : DG) (v : Nat) : Nat :=
  match (g.consts.find? (·.id == v)).map (·.bits) with
  | some [b] => b
  | _ => 0

/-- `get_scale_factor`: the non-constant operand and the f32 scale (bits) if `o` is a Mul/Div by a
constant scalar (`1. / rhs_scale` for Div, an f32 division) -/
def scaleFactor (g : DG) (o : DOp) : Option (Nat × Nat) :=
  if o.ty == "Mul" then
    match o.ins with
    | [some l, some r] =>
      match scalarOperand g l r, scalarOperand g r l with
      | true, false => some (r, constBits g l)
      | false, true => some (l, constBits g r)
      | _, _ => none
    | _ => none
  else if o.ty == "Div" then
    match o.ins with
    | [some l, some r] =>
      if !scalarOperand g l r && scalarOperand g r l then some (l, recipF32 (constBits g r)) else none
    | _ => none
  else none

/-- `MatMulScaleFusion`: `alpha` is accumulated in f32 exactly as the code does
(`alpha = 1.0; alpha *= output_scale; alpha *= lhs_scale; alpha *= rhs_scale`); no effect if `alpha == 1.0`. -/
def vMatMulScale (g : DG) (o : DOp) : Option Fus :=
  let mm : Option (DOp × Nat) :=
    if o.ty == "Mul" || o.ty == "Div" then
      (scaleFactor g o).bind fun (inp, sc) => (g.source inp).map fun m => (m, sc)
    else some (o, bOne)
  mm.bind fun (m, so) =>
    if m.ty != "MatMul" then none else
    match m.ins with
    | [some l, some r] =>
      let side (v : Nat) : Nat × Nat :=
        match g.source v with
        | some sop => (match scaleFactor g sop with | some (inp, sc) => (inp, sc) | none => (v, bOne))
        | none => (v, bOne)
      let (li, ls) := side l
      let (ri, rs) := side r
      let alpha := mulF32 (mulF32 (mulF32 bOne so) ls) rs
      if alpha == bOne then none
      else some (Fus.op "FusedMatMul" [("alpha", [(alpha : Int)])] [some li, some ri] o.outs [])
    | _ => none

def visitorsEarly : List (DG → DOp → Option Fus) := [vCast, vIdentity]

def vLayerNorm (g : DG) (o : DOp) : Option Fus :=
  patFusion g o layerNormPat "LayerNormalization" ["x", "scale", "bias"] fun s =>
    match s.find "norm_mean", s.find "center_mean", s.find "epsilon", s.find "scale" with
    | some nm, some cm, some eps, some sc =>
      let vecOk (v : Option Nat) : Bool := match v with | some v => (match g.rank v with | some r => r ≤ 1 | none => false) | none => true
      let epsOk := match (g.op? nm).bind (·.outs.head?) with | some mo => scalarOperand g eps mo | none => false
      if lastAxis g nm meanAxis && lastAxis g cm meanAxis && epsOk && vecOk (some sc) && vecOk (s.find "bias")
      then some [("axis", [-1]), ("eps", [(constBits g eps : Int)])] else none
    | _, _, _, _ => none

def vRmsNorm (g : DG) (o : DOp) : Option Fus :=
  patFusion g o rmsNormPat "RMSNormalization" ["x", "scale"] fun s =>
    match s.find "norm_mean", s.find "epsilon", s.find "scale" with
    | some nm, some eps, some sc =>
      let epsOk := match (g.op? nm).bind (·.outs.head?) with | some mo => scalarOperand g eps mo | none => false
      if epsOk && lastAxis g nm meanAxis && (match g.rank sc with | some r => r ≤ 1 | none => false)
      then some [("axis", [-1]), ("eps", [(constBits g eps : Int)])] else none
    | _, _, _ => none

def vMatMulAdd (g : DG) (o : DOp) : Option Fus :=
  patFusion g o matmulAddPat "FusedMatMul" ["a", "b", "bias"] fun s =>
    match s.find "bias", s.find "b" with
    | some bias, some b =>
      match (g.consts.find? (·.id == bias)).map (·.shape) with
      | some [len] =>
        match g.shape b with
        | none => some []
        | some sh =>
          if sh.length < 2 then none
          else
            let last := sh.getLast!
            if last.startsWith "$" || last == toString len then some [] else none
      | _ => none
    | _, _ => none

def vReduceMeanAxes (g : DG) (o : DOp) : Option Fus :=
  patFusion g o reduceMeanAxesPat "ReduceMean" ["x"] fun s =>
    match (s.find "axes").bind (fun a => g.consts.find? (·.id == a)) with
    | some c =>
      if c.dtype == "i" && c.shape.length == 1 then
        some ([("axes", c.ints)] ++ (o.attrs.filter fun kv => kv.1 != "axes"))
      else none
    | none => none

/-- `ConvAddFusion`: `Add(Conv(x, w), bias)` (either operand order; the Conv has no bias yet; the
weight's shape is known with a fixed first dim = out_channels; `bias` is an f32 constant of the
weight's rank with shape `[1, out_channels, 1, …]`) becomes `Conv(x, w, bias')` with a new
`[out_channels]` constant. -/
def vConvAdd (g : DG) (o : DOp) : Option Fus :=
  if o.ty != "Add" then none else
  match o.ins with
  | [some l, some r] =>
    let isConv (v : Nat) : Option DOp := (g.source v).bind fun so => if so.ty == "Conv" then some so else none
    let pick : Option (DOp × Nat) := match isConv l with
      | some c => some (c, r)
      | none => (isConv r).map fun c => (c, l)
    pick.bind fun (conv, biasId) =>
      let inw : Option (Nat × Nat) := match conv.ins with
        | [some i, some w] => some (i, w)
        | [some i, some w, none] => some (i, w)
        | _ => none
      inw.bind fun (inp, w) =>
        match g.shape w with
        | some wsh =>
          match wsh.head?.bind String.toNat? with
          | some oc =>
            match g.consts.find? (·.id == biasId) with
            | some bc =>
              let okShape := bc.shape.length == wsh.length &&
                ((List.range bc.shape.length).zip bc.shape).all fun (ax, sz) => sz == (if ax == 1 then oc else 1)
              if okShape && bc.dtype == "f" then some (Fus.opc "Conv" conv.attrs [some inp, some w, none] o.outs 2 [oc])
              else none
            | none => none
          | none => none
        | none => none
  | _ => none

/-- is the operator `oid` a `Cast` to float (`cast_to_float`, fix 37b9d6f) -/
def castToFloat (g : DG) (oid : Nat) : Bool :=
  match g.op? oid with
  | some c => c.ty == "Cast" && c.attr "to" == some [1]
  | none => false

/-- `MatMulIntegerToFloatFusion`: the Cast produces floats, the scale's shape is known with rank ≤ 1. -/
def vMatMulInt (g : DG) (o : DOp) : Option Fus :=
  patFusion g o matmulIntPat "MatMulIntegerToFloat" ["a", "b", "a_zero", "b_zero", "scale"] fun s =>
    match s.find "cast", s.find "scale" with
    | some c, some sc =>
      match g.shape sc with
      | some sh => if castToFloat g c && sh.length ≤ 1 then some [] else none
      | none => none
    | _, _ => none

/-- `ConvIntegerToFloatFusion`: the Cast produces floats, the scale has shape `[]` or `[1]`. -/
def vConvInt (g : DG) (o : DOp) : Option Fus :=
  patFusion g o convIntPat "ConvIntegerToFloat" ["x", "w", "x_zero", "w_zero", "scale"] fun s =>
    match s.find "cast", s.find "scale" with
    | some c, some sc =>
      match g.shape sc with
      | some sh => if castToFloat g c && (sh == [] || sh == ["1"]) then some [] else none
      | none => none
    | _, _ => none

/-- `RepeatInterleaveFusion` (fixed code, c04060d): shapes of `x` and of the Reshape output known and
of equal rank, exactly one axis differs, both sizes fixed, output a multiple of input; the Unsqueeze
inserts the new axis directly after the repeated axis; `x` is a float tensor. -/
def vRepeatInterleave (g : DG) (o : DOp) : Option Fus :=
  (tryMatch g repeatInterleavePat o.oid).bind fun s =>
    match s.find "x", s.find "axes", s.find "expand_shape", s.find "reshape_shape", o.outs with
    | some x, some axes, some es, some rs, [out] =>
      match g.shape x, g.shape out with
      | some inS, some outS =>
        if inS.length != outS.length then none else
        let diffs := ((List.range inS.length).zip (inS.zip outS)).filter fun (_, a, b) => a != b
        match diffs with
        | [(axis, a, b)] =>
          match a.toNat?, b.toNat? with
          | some fa, some fb =>
            if fa == 0 || fb % fa != 0 then none else
            match (g.consts.find? (·.id == axes)) with
            | some c =>
              if c.dtype == "i" && c.shape.length == 1 then
                match c.ints with
                | [ua] =>
                  let ua := if ua < 0 then ua + (inS.length : Int) + 1 else ua
                  if ua == (axis : Int) + 1 && g.dtype x == "f" then
                    some (Fus.op "RepeatInterleave" [("axis", [(axis : Int)]), ("repeats", [((fb / fa : Nat) : Int)])] [some x] o.outs [es, rs])
                  else none
                | _ => none
              else none
            | none => none
          | _, _ => none
        | _ => none
      | _, _ => none
    | _, _, _, _, _ => none

/-- `GroupedQueryAttentionMatMulFusion` (with the fix: an RHS Transpose must be `perm = [0,1,3,2]`):
`MatMul(a, RepeatInterleave(b))` or `FusedMatMul(a, Transpose(RepeatInterleave(b)))`; repeated axis 1,
both operands of known rank 4 with fixed head counts, `query_heads = kv_heads * repeats`. -/
def vGqa (g : DG) (o : DOp) : Option Fus :=
  patFusion g o gqaPat "GroupedQueryAttentionMatMul" ["a", "b"] fun s =>
    match (s.find "repeat").bind g.op?, s.find "a", s.find "b" with
    | some rep, some a, some b =>
      let repeats := attr1 rep "repeats" 0
      match g.shape a, g.shape b with
      | some sa, some sb =>
        if attr1 rep "axis" 0 != 1 || sa.length != 4 || sb.length != 4 then none else
        match (sa.getD 1 "").toNat?, (sb.getD 1 "").toNat? with
        | some qh, some kvh =>
          if (qh : Int) != (kvh : Int) * repeats then none else
          match (s.find "transpose").bind g.op? with
          | some tr =>
            if tr.attr "perm" != some [0, 1, 3, 2] then none else
            let alpha := ((s.find "scaled_matmul").bind g.op?).bind (·.attr "alpha")
            some ([("repeats", [repeats]), ("trhs", [1])] ++ (match alpha with | some al => [("alpha", al)] | none => []))
          | none => some [("repeats", [repeats]), ("trhs", [0])]
        | _, _ => none
      | _, _ => none
    | _, _, _ => none

/-- `TransposeFusion`: a Transpose (with its one input present) feeding any input position of
MatMul / FusedMatMul / Concat / Expand / Slice / Split is folded into a `TransformInputs(<op>)`
wrapper that permutes that input's view; no restriction on `perm` (absent = reverse the axes).
Attributes `tr<i>` = permutation applied to input `i` (`[-1]` = reverse). -/
def vTranspose (g : DG) (o : DOp) : Option Fus :=
  if !["MatMul", "FusedMatMul", "Concat", "Expand", "Slice", "Split"].contains o.ty then none
  else
    let idx := (List.range o.ins.length).zip o.ins
    let tr : List (Nat × Option Nat × Option (List Int)) := idx.map fun (i, inp) =>
      match inp.bind g.source with
      | some so =>
        if so.ty == "Transpose" then
          match so.ins with
          | [ti] => (i, ti, some ((so.attr "perm").getD [-1]))
          | _ => (i, inp, none)
        else (i, inp, none)
      | none => (i, inp, none)
    if tr.all (fun t => t.2.2.isNone) then none
    else
      let attrs := tr.filterMap fun (i, _, p) => p.map fun perm => ("tr" ++ toString i, perm)
      some (Fus.op ("TransformInputs(" ++ o.ty ++ ")") attrs (tr.map (·.2.1)) o.outs [])

def visitorsMain : List (DG → DOp → Option Fus) :=
  [ vIdentity,
    fun g o => patFusion g o reciprocalPat "Reciprocal" ["x"] fun _ => some [],
    vReduceMeanAxes,
    fun g o => patFusion g o siluPat "Silu" ["x"] fun _ => some [],
    fun g o => patFusion g o swishPat "Swish" ["x"] fun s =>
      match s.find "alpha", s.find "x" with
      | some a, some x => if scalarOperand g a x then some [("alpha", [(constBits g a : Int)])] else none
      | _, _ => none,
    fun g o => patFusion g o geluPat "Gelu" ["x"] fun _ => some [("approx", [0])],
    fun g o => patFusion g o approxGeluPat "Gelu" ["x"] fun _ => some [("approx", [1])],
    vLayerNorm, vRmsNorm, vMatMulAdd, vMatMulScale, vMatMulInt,
    vConvAdd, vConvInt,
    fun g o => patFusion g o safeSoftmaxPat "Softmax" ["x"] fun s =>
      ((s.find "softmax").bind g.op?).map fun so => so.attrs ++ [("flush", [1])],
    fun g o => patFusion g o addSoftmaxPat "AddSoftmax" ["qk", "mask"] fun s =>
      match s.find "softmax" with
      | some sm =>
        -- the fused operator inherits `flush_nans_to_zero` from the Softmax it replaces
        if lastAxis g sm softmaxAxis then some [("flush", [((g.op? sm).map fun so => attr1 so "flush" 0).getD 0])] else none
      | none => none,
    vRepeatInterleave, vGqa,
    vTranspose ]

/-! ## apply_fusion -/

/-- sentinel id for an absent optional input (never produced by any operator) -/
def noneId : Nat := 4000000000

/-- the operator nodes as the IR of `Model/Optimize.lean` — the type the T1 theorems are about -/
abbrev MOp := RtenVerif.Optimize.Op (String × List (String × List Int))

def toM (o : DOp) : MOp := ⟨o.oid, (o.ty, o.attrs), o.ins.map (·.getD noneId), o.caps, o.outs⟩
def ofM (m : MOp) : DOp :=
  ⟨m.oid, m.kind.1, m.kind.2, m.ins.map (fun i => if i == noneId then none else some i), m.outs, m.caps⟩

def toModel (g : DG) : List MOp := g.ops.map toM

/-- `replace_value`: `Optimize.substIns` on every operator, `Optimize.substOuts` on the output ids -/
def replaceValue (g : DG) (old new : Nat) : DG :=
  { g with
    mouts := RtenVerif.Optimize.substOuts old new g.mouts,
    ops := (toModel g).map fun m => ofM (RtenVerif.Optimize.substIns old new m) }

structure Repl where
  fus : Fus
  unfused : List Nat
  /-- the visited operator (produces the fusion's outputs) -/
  root : Nat
  /-- the fused operator would read an output of a removed operator (`hFreads` violated) -/
  bad : Bool := false

def fusInputs : Fus → List Nat
  | .op _ _ ins _ unused => ins.filterMap id ++ unused
  | .ident i _ => [i]
  | .opc _ _ ins _ _ _ => ins.filterMap id
def fusOutputs : Fus → List Nat
  | .op _ _ _ outs _ => outs
  | .ident _ o => [o]
  | .opc _ _ _ outs _ _ => outs

def collect (g : DG) (visitors : List (DG → DOp → Option Fus)) : List Nat → List Nat → List Repl → List Repl
  | [], _, acc => acc
  | oid :: rest, pending, acc =>
    if pending.contains oid then collect g visitors rest pending acc
    else
      match g.op? oid with
      | none => collect g visitors rest pending acc
      | some o =>
        match visitors.findSome? (fun v => v g o) with
        | none => collect g visitors rest pending acc
        | some fus =>
          let unfused := planFor g (fusInputs fus).eraseDups (fusOutputs fus)
          -- claim operators one by one; stop at the first one already claimed
          let rec claim : List Nat → List Nat → List Nat × Bool
            | [], p => (p, true)
            | u :: us, p => if p.contains u then (p, false) else claim us (u :: p)
          let (pending', ok) := claim unfused pending
          let removedOuts := unfused.flatMap fun u => match g.op? u with | some uo => uo.outs | none => []
          let hFreadsOk := (fusInputs fus).all fun i => !removedOuts.contains i || (fusOutputs fus).contains i
          if !ok then collect g visitors rest pending' acc
          else if !hFreadsOk then collect g visitors rest pending' (acc ++ [{ fus := fus, unfused := [], root := oid, bad := true }])
          else
            let m := toModel g
            let g1 := (RtenVerif.Optimize.usedOutside m g.outputs unfused (fusOutputs fus)).isNone
            let preserved := match fus with | .op _ _ _ outs _ => outs | .ident _ _ => [] | .opc _ _ _ outs _ _ => outs
            let g2 := (RtenVerif.Optimize.capturedRemoved m unfused preserved).isNone
            if g1 && g2 then collect g visitors rest pending' (acc ++ [{ fus := fus, unfused := unfused, root := oid }])
            else collect g visitors rest pending' acc

/-- decidable `WF` of the plan-ordered operators (hypothesis `hwf` of the T1 theorems) -/
def wfCheck : List MOp → Bool
  | [] => true
  | o :: os =>
    let later := RtenVerif.Optimize.outsAll (o :: os)
    (o.ins ++ o.caps).all (fun i => !later.contains i) &&
      o.outs.all (fun i => !(RtenVerif.Optimize.outsAll os).contains i) && wfCheck os

/-- apply the collected replacements with `Optimize.fuse` (the rewrite `c01_rewrite_sound` is about) -/
def applyFusions (g : DG) (visitors : List (DG → DOp → Option Fus)) : DG × Nat :=
  let plan := planFor g g.inputs g.outputs
  let repls := collect g visitors plan.reverse [] []
  -- run-time assertion of the hypotheses of `c01_rewrite_sound` on the very list `fuse` rewrites:
  -- `hwf` (the list is a well-formed plan), `hL` (the root is one of the removed operators), `hpre` /
  -- `hpost` (the root occurs once and no removed operator comes after it), `hfresh` (no graph input /
  -- constant is an operator output)
  let hypsOk (g : DG) (r : Repl) : Bool :=
    let m := toModel g
    let after := (m.dropWhile (fun o => o.oid != r.root)).drop 1
    wfCheck m && r.unfused.contains r.root &&
      (m.filter (fun o => o.oid == r.root)).length == 1 &&
      after.all (fun o => !r.unfused.contains o.oid && o.oid != r.root) &&
      (g.inputs ++ g.consts.map (·.id)).all (fun i => !(RtenVerif.Optimize.outsAll m).contains i)
  let fuseWith (g : DG) (r : Repl) (f : DOp) : DG :=
    { g with ops := (RtenVerif.Optimize.fuse (toModel g) r.unfused r.root (toM f)).map ofM, next := g.next + 1,
             assertBad := g.assertBad || !hypsOk g r }
  let g := repls.foldl (fun (g : DG) r =>
    if r.bad then { g with assertBad := true } else
    match r.fus with
    | .op ty attrs ins outs _ => fuseWith g r ⟨g.next, ty, attrs, ins, outs, []⟩
    | .opc ty attrs ins outs cidx cshape =>
      let cid := g.next
      let g := { g with consts := g.consts ++ [⟨cid, "f", cshape, [], []⟩], next := g.next + 1 }
      fuseWith g r ⟨g.next, ty, attrs, ins.set cidx (some cid), outs, []⟩
    | .ident inp out =>
      if g.outputs.contains out then fuseWith g r ⟨g.next, "Identity", [], [some inp], [out], []⟩
      else
        -- the operator is removed (`fuse` with nothing put in its place is a plain filter) and the value replaced
        let bad := !hypsOk g r
        let g := { g with ops := g.ops.filter fun o => !r.unfused.contains o.oid, assertBad := g.assertBad || bad }
        replaceValue g out inp) g
  (g, repls.length)

/-! ## pipeline, printing -/

def knownTypes : List String :=
  ["Add", "Sub", "Mul", "Div", "Identity", "Cast", "Neg", "Abs", "Relu", "Sigmoid", "Erf", "Tanh", "Pow", "Sqrt",
   "Reciprocal", "ReduceMean", "Softmax", "IsNaN", "Where", "MatMul", "If", "Transpose", "Concat", "Expand", "Slice", "Split", "Unsqueeze", "Reshape", "MatMulInteger", "ConvInteger", "Conv"]

def isConstV (g : DG) (v : Nat) : Bool := g.consts.any (·.id == v)

/-- would constant propagation fold something? (an operator of the plan with only constant inputs) -/
def constPropFires (g : DG) : Bool :=
  let plan := planFor g [] g.mouts
  plan.any fun oid => match g.op? oid with
    | some o => o.caps.isEmpty && (o.ins.filterMap id).all (isConstV g)
    | none => false

def constCode (c : ConstInfo) : String :=
  let sh := ",".intercalate (c.shape.map toString)
  if c.dtype == "f" then s!"#f[{sh}]"
  else if c.dtype == "i" then
    if c.shape.foldl (· * ·) 1 ≤ 8 && (c.ints.length == c.shape.foldl (· * ·) 1) then
      "#i[" ++ sh ++ "]{" ++ ",".intercalate (c.ints.map toString) ++ "}"
    else s!"#i[{sh}]"
  else s!"#{c.dtype}[{sh}]"

/-- attribute text, same format as the harness' `attr_suffix` -/
def attrText (o : DOp) : String :=
  let bitsOrNone (k : String) : String := match o.attr k with | some [x] => toString x | _ => "none"
  if o.ty == "Gelu" then "{approx=" ++ toString (attr1 o "approx" 0) ++ "}"
  else if o.ty == "Swish" then "{alpha=" ++ bitsOrNone "alpha" ++ "}"
  else if o.ty == "LayerNormalization" || o.ty == "RMSNormalization" then
    "{axis=" ++ toString (attr1 o "axis" (-1)) ++ ",eps=" ++ bitsOrNone "eps" ++ "}"
  else if o.ty == "FusedMatMul" then "{alpha=" ++ bitsOrNone "alpha" ++ "}"
  else if o.ty == "ReduceMean" then
    let axes := match o.attr "axes" with | some l => ";".intercalate (l.map toString) | none => "none"
    "{axes=" ++ axes ++ ",keep=" ++ toString (attr1 o "keepdims" 1) ++ ",noop=" ++ toString (attr1 o "noop_with_empty_axes" 0) ++ "}"
  else if o.ty == "Softmax" then
    "{axis=" ++ toString (attr1 o "axis" (-1)) ++ ",flush=" ++ toString (attr1 o "flush" 0) ++ "}"
  else if o.ty == "AddSoftmax" then "{flush=" ++ toString (attr1 o "flush" 0) ++ "}"
  else if o.ty == "GroupedQueryAttentionMatMul" then
    let al := match o.attr "alpha" with | some [x] => toString x | _ => "none"
    "{repeats=" ++ toString (attr1 o "repeats" 0) ++ ",alpha=" ++ al ++ ",trhs=" ++ toString (attr1 o "trhs" 0) ++ "}"
  else if o.ty == "RepeatInterleave" then
    "{axis=" ++ toString (attr1 o "axis" 0) ++ ",repeats=" ++ toString (attr1 o "repeats" 0) ++ "}"
  else if o.ty.startsWith "TransformInputs(" then
    let parts := (o.attrs.filter fun kv => kv.1.startsWith "tr").map fun (k, perm) =>
      (k.drop 2).toString ++ ":" ++ (if perm == [-1] then "rev" else ".".intercalate (perm.map toString))
    "{" ++ ";".intercalate parts ++ "}"
  else ""

def term (g : DG) : Nat → Nat → String
  | 0, _ => "..."
  | fuel + 1, v =>
    match g.consts.find? (·.id == v) with
    | some c => constCode c
    | none =>
      match g.source v with
      | none => ((g.vals.find? (·.id == v)).map (·.name)).getD "?missing"
      | some o =>
        let args := o.ins.map fun i => match i with | none => "~" | some i => term g fuel i
        let idx := (o.outs.idxOf v)
        let nm := o.ty ++ attrText o
        if o.outs.length > 1 then s!"{nm}.{idx}({",".intercalate args})" else s!"{nm}({",".intercalate args})"

/-- run-time assertion of the T1 side conditions on this graph: the plan is well-formed (`hwf`), no
graph input / constant is an operator output (`hfresh`). -/
def sideConditionsOk (g : DG) : Bool :=
  let plan := planFor g g.inputs g.outputs
  let ops := plan.filterMap fun oid => (g.op? oid).map toM
  wfCheck ops &&
    (g.inputs ++ g.consts.map (·.id)).all (fun i => !(RtenVerif.Optimize.outsAll ops).contains i)

def optimize (g : DG) : Option DG :=
  if g.hasK then none
  else if g.ops.any (fun o => !knownTypes.contains o.ty) then none

  else
    let (g, _) := applyFusions g visitorsEarly
    if constPropFires g then none
    else
      let rec loop : Nat → DG → DG
        | 0, g => g
        | n + 1, g =>
          let (g', k) := applyFusions g visitorsMain
          if k == 0 then g' else loop n g'
      some (loop 3 g)

def handle (line : String) : String :=
  let toks := words line
  let st := toks.foldl parseTok ({} : PState)
  match optimize st.g with
  | none => "skip"
  | some g =>
    if !sideConditionsOk st.g || !sideConditionsOk g then "assert-failed:hwf/hfresh" else
    if g.assertBad then "assert-failed:hFreads/hwf/hpre/hpost/hL" else
    let parts := (g.outNames.zip g.mouts).map fun (n, v) => s!"{n}={term g 60 v}"
    ";".intercalate parts

end RtenVerif.Driver.C01

/-- `model_C01`: reads request lines on stdin, prints the model's answer per line. -/
def main : IO Unit := RtenVerif.Driver.loopPure RtenVerif.Driver.C01.handle
