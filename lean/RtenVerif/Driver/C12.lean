import RtenVerif.Driver.Util
import RtenVerif.Model.OutputTypes
import RtenVerif.Generated.OutputTypeTable

namespace RtenVerif.Driver.C12
open RtenVerif.Driver RtenVerif.OutputTypes

def dtypeOf? : String → Option DType
  | "float" => some .float
  | "int32" => some .int32
  | "int8" => some .int8
  | "uint8" => some .uint8
  | _ => none

def dtypeName : DType → String
  | .float => "float"
  | .int32 => "int32"
  | .int8 => "int8"
  | .uint8 => "uint8"

def vtypeName : VType → String
  | .tensor d => dtypeName d
  | .sequence d => s!"seq({dtypeName d})"

def ruleText : Rule → String
  | .fixed t => s!"fixed:{vtypeName t}"
  | .copyFromInput i => s!"copy:{i}"
  | .elementTypeOfInputSequence i => s!"elem:{i}"
  | .sequenceWithElementTypeOfInput i => s!"seqof:{i}"
  | .fixedAttr n _ => s!"attr:{n}"
  | .attrOr n _ _ => s!"attror:{n}"

/-- `key=value` fields of a request line. -/
def field (ws : List String) (k : String) : Option String :=
  ws.findSome? fun w => if w.startsWith (k ++ "=") then some ((w.drop (k.length + 1)).toString) else none

def parseAttrs (s : String) : Option Attrs :=
  if s == "-" then some [] else
  (s.splitOn ",").mapM fun kv =>
    match kv.splitOn "=" with
    | [k, v] => (dtypeOf? v).map fun d => (k, d)
    | _ => none

def rulesFor (key attrs : String) (nout : Nat) : Option (Option (List Rule)) := do
  let e ← findEntry Generated.table key
  let a ← parseAttrs attrs
  e.body.rules a nout

def parseIds (s : String) : Option (List (Option Nat)) :=
  if s == "-" || s.isEmpty then some [] else
  (s.splitOn ",").mapM fun w => if w == "_" then some none else w.toNat?.map some

def showMap (m : TypeMap) : String :=
  -- latest binding wins; print sorted by id
  let ids := (m.map (·.1)).eraseDups
  let sorted := ids.toArray.qsort (· < ·) |>.toList
  let parts := sorted.filterMap fun id => (m.get id).map fun t => s!"{id}:{vtypeName t}"
  if parts.isEmpty then "-" else joinWith "," parts

def handle (line : String) : String :=
  let ws := words line
  match ws with
  | "rules" :: key :: _ =>
    match (field ws "nout").bind String.toNat?, field ws "attrs" with
    | some n, some a =>
      match rulesFor key a n with
      | none => "skip"
      | some none => "none"
      | some (some rs) => joinWith ";" (rs.map ruleText)
    | _, _ => "bad-request"
  | "lab" :: key :: _ =>
    match (field ws "nout").bind String.toNat?, field ws "attrs", field ws "decl" with
    | some n, some a, some decl =>
      match rulesFor key a n with
      | none => "skip"
      | some rules =>
        let ds : List String := if decl == "-" then [] else decl.splitOn ","
        let inputs : List (Option Nat) := ds.zipIdx.map fun (w, i) => if w == "_" then none else some i
        let static : Nat → Option VType := fun id => (ds[id]?).bind fun w => (dtypeOf? w).map VType.tensor
        -- `mask`: which output slots are connected (`1`) or left unconnected (`0`, a `None` id)
        let mask : List Char := ((field ws "mask").getD "").toList
        let usedSlot (j : Nat) : Bool := (mask[j]?).getD '1' == '1'
        let outs := (List.range n).map fun j => if usedSlot j then some (100 + j) else none
        let op : OpNode := { rules := rules, inputs := inputs, outputs := outs }
        let strict := match propagate true static [op] [] with | none => "typefail" | some _ => "pass"
        match propagate false static [op] [] with
        | none => "error"
        | some m => joinWith ";" ((List.range n).map fun j =>
            if !usedSlot j then "-" else
            match m.get (100 + j) with
            | some t => vtypeName t
            | none => "?") ++ s!" strict={strict}"
    | _, _, _ => "bad-request"
  | "graph" :: _ =>
    match field ws "decl", field ws "ops" with
    | some decl, some ops =>
      let declPairs : Option (List (Nat × VType)) :=
        if decl.isEmpty then some [] else
        (decl.splitOn ",").mapM fun w =>
          match w.splitOn ":" with
          | [i, t] => do
            let i ← i.toNat?
            let d ← dtypeOf? t
            pure (i, VType.tensor d)
          | _ => none
      let opNodes : Option (List (Option OpNode)) :=
        (ops.splitOn ";").mapM fun o =>
          match o.splitOn "/" with
          | [key, a, ins, outs] => do
            let ins ← parseIds ins
            let outs ← parseIds outs
            pure ((rulesFor key a outs.length).map fun r => { rules := r, inputs := ins, outputs := outs : OpNode })
          | _ => none
      match declPairs, opNodes with
      | some dp, some ons =>
        match ons.mapM id with
        | none => "skip"
        | some plan =>
          match propagate false (fun id => List.lookup id dp) plan [] with
          | some m => showMap m
          | none => "error"
      | _, _ => "bad-request"
    | _, _ => "bad-request"
  | "castelim" :: _ =>
    match field ws "pre", field ws "decl", (field ws "to").bind dtypeOf? with
    | some pre, some decl, some to =>
      let zp : Option VType := ((field ws "zp").bind dtypeOf?).map VType.tensor
      -- `lie`: dtype declared by a value_info on the Cast's input (id 1)
      let lie : Option VType := ((field ws "lie").bind dtypeOf?).map VType.tensor
      let static : Nat → Option VType := fun id =>
        if id == 0 then (dtypeOf? decl).map VType.tensor else if id == 2 then zp
        else if id == 1 then lie else none
      if pre == "-" then
        s!"elim={b01 (castElimGuard (label static [] 0) to)}"
      else
        let nout := ((field ws "nout").bind String.toNat?).getD 1
        let slot := ((field ws "slot").bind String.toNat?).getD 0
        match rulesFor pre "-" nout with
        | none => "skip"
        | some rules =>
          let outs := (List.range nout).map fun j => if j == slot then some 1 else none
          let op : OpNode := { rules := rules, inputs := [some 0, some 0, some 2], outputs := outs }
          match propagate false static [op] [] with
          | some m => s!"elim={b01 (castElimGuard (label static m 1) to)}"
          | none => "error"
    | _, _, _ => "bad-request"
  | _ => "bad-request"

end RtenVerif.Driver.C12

/-- `model_C12`: reads request lines on stdin, prints the model's answer per line. -/
def main : IO Unit := RtenVerif.Driver.loopPure RtenVerif.Driver.C12.handle
