import RtenVerif.Driver.Util
import RtenVerif.Model.ExtData

/-!
Line protocol of `model_C21` (strings travel as lower-case hex of their bytes, `-` = empty):

* `p <hex>`                     → `allowed=<0|1> comps=<c,c,..|-> fname=<hex|none> ext=<hex|none>`
                                  components: `R` root, `C` cur, `P` parent, `N<hex>` normal
* `j <dirhex> <phex>`           → `<hex of PathBuf::from(dir).push(p)> comps=<..>`
* `m <off> <len> <flen>`        → MemLoader range:   `ok <start> <end> <sum>` | `err:tooshort <required> <actual>`
* `mm <off> <len> <flen>`       → MmapLoader range:  same
* `f <off> <len> <flen>`        → FileLoader read:   `ok 0 <len> <sum>` | `err:invalidlength` | `err:io` | `err:tooshort <r> <a>`
* `u <hex>`                     → `str::parse::<u64>`: `some <n>` | `none`
* `L <loader> <lochex> <offhex> <lenhex> <flen|none>` → whole `Model::load*` path, see `loadAll`.
* `c <loader> <namehex> <loc1hex> <loc2hex> <f1|none> <f2|none> <off> <len>` → two loads through one
  loader instance (PathBuf-keyed cache), answer `<r1>;<r2>`, see `twoLoads`.

The data file of length `flen` has byte `i` equal to `(i*31+7) % 251`; `<sum>` is
`Σ (k+1)·b_k mod 1000003` over the returned bytes.
-/
namespace RtenVerif.Driver.C21
open RtenVerif.Driver RtenVerif.ExtData

def hexVal (c : Char) : Option Nat :=
  if '0' ≤ c ∧ c ≤ '9' then some (c.toNat - 48)
  else if 'a' ≤ c ∧ c ≤ 'f' then some (c.toNat - 87)
  else none

def unhexChars : List Char → Option (List Nat)
  | [] => some []
  | [_] => none
  | a :: b :: rest => do
    let x ← hexVal a
    let y ← hexVal b
    let r ← unhexChars rest
    pure ((x * 16 + y) :: r)

def unhex (s : String) : Option (List Nat) :=
  if s = "-" then some [] else unhexChars s.toList

def hexDigit (n : Nat) : Char := if n < 10 then Char.ofNat (48 + n) else Char.ofNat (87 + n)

def hex (bs : List Nat) : String :=
  if bs.isEmpty then "-"
  else String.ofList (bs.flatMap (fun b => [hexDigit (b / 16 % 16), hexDigit (b % 16)]))

def showComp : Comp → String
  | .root => "R"
  | .cur => "C"
  | .parent => "P"
  | .normal n => "N" ++ hex n

def showComps (cs : List Comp) : String :=
  if cs.isEmpty then "-" else joinWith "," (cs.map showComp)

def showOpt : Option (List Nat) → String
  | some b => hex b
  | none => "none"

def pattern (i : Nat) : Nat := (i * 31 + 7) % 251

def fileOf (flen : Nat) : List Nat := (List.range flen).map pattern

def checksum (bs : List Nat) : Nat :=
  (bs.foldl (fun (acc : Nat × Nat) b => ((acc.1 + (acc.2 + 1) * b) % 1000003, acc.2 + 1)) (0, 0)).1

def showErr : LoadErr → String
  | .invalidLength => "err:invalidlength"
  | .io => "err:io"
  | .notFound => "err:io"
  | .disallowed => "err:disallowed"
  | .tooShort r a => s!"err:tooshort {r} {a}"

def showRange (file : List Nat) : Except LoadErr (Nat × Nat) → String
  | .error e => showErr e
  | .ok r =>
    match sliceOf file r with
    | some bs => s!"ok {r.1} {r.2} {checksum bs}"
    | none => "panic"

def showRead : Except LoadErr (List Nat) → String
  | .error e => showErr e
  | .ok bs => s!"ok 0 {bs.length} {checksum bs}"

/-- Largest file the driver materialises. -/
def maxFile : Nat := 200000

/-- Whole path of `Model::load*` for one `uint8` initializer with `dims = [dimLen]`:
`loadExternal` of the model (`external_data_location` parsing, allow-list, file lookup,
loader range check) followed by the length-vs-shape check of `load_constant`.
`flen = none` means no file of that name exists in the model directory. -/
def loadAll (loader : String) (loc offS lenS : List Nat) (flen : Option Nat) (dimLen : Nat) : String :=
  let ld : Loader := if loader = "file" then .file else if loader = "mmap" then .mmap else .mem
  match loadExternal ld (fun _ => flen.map fileOf) loc offS lenS with
  | .error .badOffset => "err:badoffset"
  | .error .badLength => "err:badlength"
  | .error (.load e) => showErr e
  | .ok bs => if bs.length = dimLen then s!"ok {bs.length} {checksum bs}" else "err:shape"

/-- Result of the loader-specific range step on an opened file, as `ok <len> <sum>` / error. -/
def rangeOn (ld : Loader) (file : List Nat) (off len : Nat) : String :=
  let viaRange (r : Except LoadErr (Nat × Nat)) : String :=
    match r with
    | .error e => showErr e
    | .ok rg => match sliceOf file rg with
      | some bs => s!"ok {bs.length} {checksum bs}"
      | none => "panic"
  match ld with
  | .file => match fileRead file off len with
    | .error e => showErr e
    | .ok bs => s!"ok {bs.length} {checksum bs}"
  | .mmap => viaRange (mmapRange off len file.length)
  | .mem => viaRange (memRange off len file.length)

/-- Two consecutive loads through ONE loader instance (`c` request).  `f1`/`f2`: length of
the regular file that `File::open(dir/loc_i)` would open (`none` = the OS refuses, or for
`MemLoader` no such key).  File/mmap loaders go through the `PathBuf`-keyed cache of the
model (`getOrOpen`); `MemLoader` has no cache and is keyed by the raw string. -/
def twoLoads (ld : Loader) (loc1 loc2 : List Nat) (f1 f2 : Option Nat) (off len : Nat) : String :=
  match ld with
  | .mem =>
    let r (loc : List Nat) (f : Option Nat) : String :=
      if !allowed loc then showErr .disallowed
      else match f with
        | none => showErr .notFound
        | some n => rangeOn .mem (fileOf n) off len
    r loc1 f1 ++ ";" ++ r loc2 f2
  | _ =>
    let (r1, cache1) : String × Cache :=
      match getOrOpen [] (fun _ => f1.map fileOf) loc1 with
      | .error e => (showErr e, [])
      | .ok (file, c) => (rangeOn ld file off len, c)
    let r2 : String :=
      match getOrOpen cache1 (fun _ => f2.map fileOf) loc2 with
      | .error e => showErr e
      | .ok (file, _) => rangeOn ld file off len
    r1 ++ ";" ++ r2

def parseOptNat (s : String) : Option (Option Nat) :=
  if s = "none" then some none else (s.toNat?).map some

def handle (line : String) : String :=
  match words line with
  | ["p", h] =>
    match unhex h with
    | some p =>
      s!"allowed={b01 (allowed p)} comps={showComps (components p)} fname={showOpt (fileName p)} ext={showOpt (extension p)}"
    | none => "bad-request"
  | ["j", d, h] =>
    match unhex d, unhex h with
    | some d, some p => s!"{hex (push d p)} comps={showComps (components (push d p))}"
    | _, _ => "bad-request"
  | ["m", o, l, f] =>
    match o.toNat?, l.toNat?, f.toNat? with
    | some o, some l, some f =>
      if f > maxFile then "skip" else showRange (fileOf f) (memRange o l f)
    | _, _, _ => "bad-request"
  | ["mm", o, l, f] =>
    match o.toNat?, l.toNat?, f.toNat? with
    | some o, some l, some f =>
      if f > maxFile then "skip" else showRange (fileOf f) (mmapRange o l f)
    | _, _, _ => "bad-request"
  | ["f", o, l, f] =>
    match o.toNat?, l.toNat?, f.toNat? with
    | some o, some l, some f =>
      if f > maxFile then "skip" else showRead (fileRead (fileOf f) o l)
    | _, _, _ => "bad-request"
  | ["u", h] =>
    match unhex h with
    | some s => match parseU64 s with
      | some n => s!"some {n}"
      | none => "none"
    | none => "bad-request"
  | ["L", loader, loc, o, l, f, dl] =>
    match unhex loc, unhex o, unhex l, dl.toNat? with
    | some loc, some o, some l, some dl =>
      let fl := if f = "none" then some none else (f.toNat?).map some
      match fl with
      | some fl => loadAll loader loc o l fl dl
      | none => "bad-request"
    | _, _, _, _ => "bad-request"
  | ["c", loader, _n, l1, l2, f1, f2, o, l] =>
    match unhex l1, unhex l2, parseOptNat f1, parseOptNat f2, o.toNat?, l.toNat? with
    | some l1, some l2, some f1, some f2, some o, some l =>
      let ld : Loader := if loader = "file" then .file else if loader = "mmap" then .mmap else .mem
      twoLoads ld l1 l2 f1 f2 o l
    | _, _, _, _, _, _ => "bad-request"
  | _ => "bad-request"

end RtenVerif.Driver.C21

/-- `model_C21`: reads request lines on stdin, prints the model's answer per line. -/
def main : IO Unit := RtenVerif.Driver.loopPure RtenVerif.Driver.C21.handle
