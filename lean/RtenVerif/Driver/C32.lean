import RtenVerif.Driver.Util
import RtenVerif.Model.Generator

/-!
`model_C32` line protocol.

Request: `kv=<0|1> cfg=<layout> <op> <op> …` with ops
`W:<csv>` with_prompt, `A:<csv>` append_prompt, `C` clear_prompt, `P` process_prompt,
`N:<tok>` next (sampler returns `tok`), `E` next with a filter that removes every candidate,
`PF` / `NF` process_prompt / next where `Model::run` fails.
`<layout>` is ignored except for the letters `a<0|1>` (model has an `attention_mask` input) and
`e<0|1>` (model has encoder caches and a `use_cache_branch` input), which only select what is
printed.

Answer: one section per op, joined by ` | `:
`<call> <filter> <outcome> in=<csv> prev=<csv> kv=<len|->` where
`<call>` = `R(<csv>@<start>;<cache>;L<0|1>;m<mask len|->;u<flag|->;e<encoder cache id|->;<ok|FAIL>)`
or `-` (`<start>` is `_` when no token is fed: the position range is then empty and the start
is not observable in the call; `<cache>` = `c<id>:<len>`, `c-` when the model has no KV inputs,
`cMISSING` when it has but none was supplied; an empty cache is always printed `c0:0` because
empty caches are indistinguishable),
`<filter>` = `F(<prev_tokens seen by the filter>)` or `-`,
`<outcome>` = `ok` | `tok=<t>` | `err=empty` | `err=run` | `panic`.

`api <names…>`: the public methods of `Generator` found in the source (plus `next`); the answer
is `api-ok` iff they are exactly the ones this model classifies (history operations, observers,
configuration), so a new method shows up as a disagreement.
-/
namespace RtenVerif.Driver.C32
open RtenVerif.Driver RtenVerif.Generator

/-- The recording rule of the code under test (current tree). -/
def currentRule : Rule := .tracked

def parseOp (w : String) : Option Op :=
  if w == "C" then some .clear
  else if w == "P" then some .process
  else if w == "E" then some .nextEmpty
  else if w == "PF" then some .processFail
  else if w == "NF" then some .nextFail
  else match w.splitOn ":" with
    | ["W", l] => (parseNatList "," l).map .withPrompt
    | ["A", l] => (parseNatList "," l).map .append
    | ["N", t] => t.toNat?.map .next
    | _ => none

def showCache : Option (Option (Nat × Nat)) → String
  | none => "c-"
  | some none => "cMISSING"
  | some (some (id, len)) => if len == 0 then "c0:0" else s!"c{id}:{len}"

structure Show where
  attn : Bool
  enc : Bool

def showCall (sh : Show) : Option Call → String
  | none => "-"
  | some c =>
    let start := if c.toks.isEmpty then "_" else toString c.start
    let m := if sh.attn then toString c.attn else "-"
    let u := if sh.enc then b01 c.flag else "-"
    let e := if sh.enc then toString c.encIn else "-"
    let ok := if c.ok then "ok" else "FAIL"
    s!"R({showNats "," c.toks}@{start};{showCache c.cacheIn};L{b01 c.logits};m{m};u{u};e{e};{ok})"

def showFilt : Option (List Nat) → String
  | none => "-"
  | some p => s!"F({showNats "," p})"

def showOut : Outcome → String
  | .unit => "ok"
  | .tok t => s!"tok={t}"
  | .errEmpty => "err=empty"
  | .panicNoRow => "panic"
  | .errRun => "err=run"

def showKv : Option (Option (Nat × Nat)) → String
  | some (some (_, len)) => toString len
  | _ => "-"

def section_ (sh : Show) (o : StepOut) : String :=
  s!"{showCall sh o.call} {showFilt o.filt} {showOut o.out} in={showNats "," o.st.inputIds} prev={showNats "," o.st.prev} kv={showKv o.st.kv}"

def trace (sh : Show) (r : Rule) : State → List Op → List String
  | _, [] => []
  | s, op :: ops => let o := step r s op; section_ sh o :: trace sh r o.st ops

/-- Public API of `Generator` as classified by this model. -/
def historyOps : List String := ["with_prompt", "append_prompt", "clear_prompt", "process_prompt", "next"]
def observers : List String := ["prompt", "prev_tokens", "kv_cache_len"]
def configuration : List String :=
  ["from_model", "from_model_config", "with_constant_input", "with_varying_input",
   "with_logits_filter", "with_sampler", "with_run_options"]

def apiAnswer (names : List String) : String :=
  let known := historyOps ++ observers ++ configuration
  let extra := names.filter (fun n => !known.contains n)
  let missing := known.filter (fun n => !names.contains n)
  if extra.isEmpty && missing.isEmpty then "api-ok"
  else s!"api-changed unmodelled=[{joinWith "," extra}] missing=[{joinWith "," missing}]"

def handle (line : String) : String :=
  match words line with
  | "api" :: names => apiAnswer names
  | kvw :: rest =>
    let hasKv? := if kvw == "kv=1" then some true else if kvw == "kv=0" then some false else none
    let opsw := rest.filter (fun w => !w.startsWith "cfg=")
    let cfg := (rest.find? (·.startsWith "cfg=")).getD ""
    let sh : Show := { attn := (cfg.splitOn "a1").length > 1, enc := (cfg.splitOn "e1").length > 1 }
    match hasKv?, opsw.mapM parseOp with
    | some hasKv, some ops => joinWith " | " (trace sh currentRule (State.init hasKv) ops)
    | _, _ => "bad-request"
  | _ => "bad-request"

end RtenVerif.Driver.C32

/-- `model_C32`: reads request lines on stdin, prints the model's answer per line. -/
def main : IO Unit := RtenVerif.Driver.loopPure RtenVerif.Driver.C32.handle
