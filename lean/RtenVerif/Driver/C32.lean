import RtenVerif.Driver.Util
import RtenVerif.Model.Generator

/-!
`model_C32` line protocol.

Request: `kv=<0|1> cfg=<layout> <op> <op> …` with ops
`W:<csv>` with_prompt, `A:<csv>` append_prompt, `C` clear_prompt, `P` process_prompt,
`N:<tok>` next (sampler returns `tok`), `E` next with a filter that removes every candidate,
`PF` / `NF` process_prompt / next where `Model::run` fails, `NL` next where the run succeeds
but the logits output has the wrong rank.
`<layout>` is ignored except for the letters `a<0|1>` (model has an `attention_mask` input) and
`e<0|1>` (model has encoder caches and a `use_cache_branch` input), which only select what is
printed.

Answer: one section per op, joined by ` | `:
`<call> <filter> <outcome> in=<csv> prev=<csv> kv=<len|->` where
`<call>` = `R(<csv>@<start>;<cache>;L<0|1>;m<mask len|->;u<flag|->;e<encoder cache id|->;<ok|FAIL>)`
or `-` (`<start>` is `_` when no token is fed: the position range is then empty and the start
is not observable in the call; `<cache>` = `c<id>:<len>`, `c-` when the model has no KV inputs,
`cMISSING` when it has but none was supplied; an empty cache is always printed `c0:0` because
empty caches are indistinguishable),
`<filter>` = `F(<prev_tokens seen by the filter>)` or `-`,
`<outcome>` = `ok` | `tok=<t>` | `err=empty` | `err=run` | `err=logits` | `panic`.

`spec kv=<0|1> cfg=… <ops> :: <observed calls> :: prev=<csv> in=<csv>`: the *specification* side
evaluated on what the implementation did: the observed calls (same syntax as inside `R(…)`)
are parsed into the model's `Call` records and checked with the Lean predicates the theorems
are about — `Spec.run` (`calls`, `hist`, `pend`), `logOk`/`logOkNoKv`, `positions ∘ okCalls`,
`submitted`.  Answer `spec-ok` or `spec-FAIL:<failed predicates>`.  Only sent for mock layouts
where every field is observable (attention mask present; encoder layout when there is a KV
cache).  An observed empty cache `c0:0` is identified with the expected cache when that is
empty too (empty tensors carry no stamp).

`api <names…>`: the public methods of `Generator` found in the source (plus `next`); the answer
is `api-ok` iff they are exactly the ones this model classifies (history operations, observers,
configuration), so a new method shows up as a disagreement.
-/
namespace RtenVerif.Driver.C32
open RtenVerif.Driver RtenVerif.Generator

/-- The recording rule of the code under test (current tree). -/
def currentRule : Rule := .tracked

def parseOp (w : String) : Option Op :=
  if w == "C" then some .clear
  else if w == "P" then some .process
  else if w == "E" then some .nextEmpty
  else if w == "PF" then some .processFail
  else if w == "NF" then some .nextFail
  else if w == "NL" then some .nextBadLogits
  else match w.splitOn ":" with
    | ["W", l] => (parseNatList "," l).map .withPrompt
    | ["A", l] => (parseNatList "," l).map .append
    | ["N", t] => t.toNat?.map .next
    | _ => none

def showCache : Option (Option (Nat × Nat)) → String
  | none => "c-"
  | some none => "cMISSING"
  | some (some (id, len)) => if len == 0 then "c0:0" else s!"c{id}:{len}"

structure Show where
  attn : Bool
  enc : Bool

def showCall (sh : Show) : Option Call → String
  | none => "-"
  | some c =>
    let start := if c.toks.isEmpty then "_" else toString c.start
    let m := if sh.attn then toString c.attn else "-"
    let u := if sh.enc then b01 c.flag else "-"
    let e := if sh.enc then toString c.encIn else "-"
    let ok := if c.ok then "ok" else "FAIL"
    s!"R({showNats "," c.toks}@{start};{showCache c.cacheIn};L{b01 c.logits};m{m};u{u};e{e};{ok})"

def showFilt : Option (List Nat) → String
  | none => "-"
  | some p => s!"F({showNats "," p})"

def showOut : Outcome → String
  | .unit => "ok"
  | .tok t => s!"tok={t}"
  | .errEmpty => "err=empty"
  | .panicNoRow => "panic"
  | .errRun => "err=run"
  | .errLogits => "err=logits"

def showKv : Option (Option (Nat × Nat)) → String
  | some (some (_, len)) => toString len
  | _ => "-"

def section_ (sh : Show) (o : StepOut) : String :=
  s!"{showCall sh o.call} {showFilt o.filt} {showOut o.out} in={showNats "," o.st.inputIds} prev={showNats "," o.st.prev} kv={showKv o.st.kv}"

def trace (sh : Show) (r : Rule) : State → List Op → List String
  | _, [] => []
  | s, op :: ops => let o := step r s op; section_ sh o :: trace sh r o.st ops

/-- Public API of `Generator` as classified by this model. -/
def historyOps : List String := ["with_prompt", "append_prompt", "clear_prompt", "process_prompt", "next"]
def observers : List String := ["prompt", "prev_tokens", "kv_cache_len"]
def configuration : List String :=
  ["from_model", "from_model_config", "with_constant_input", "with_varying_input",
   "with_logits_filter", "with_sampler", "with_run_options"]

def apiAnswer (names : List String) : String :=
  let known := historyOps ++ observers ++ configuration
  let extra := names.filter (fun n => !known.contains n)
  let missing := known.filter (fun n => !names.contains n)
  if extra.isEmpty && missing.isEmpty then "api-ok"
  else s!"api-changed unmodelled=[{joinWith "," extra}] missing=[{joinWith "," missing}]"

def parseCache (w : String) : Option (Option (Option (Nat × Nat))) :=
  if w == "c-" then some none
  else if w == "cMISSING" then some (some none)
  else match (w.drop 1).toString.splitOn ":" with
    | [i, l] => do let i ← i.toNat?; let l ← l.toNat?; pure (some (some (i, l)))
    | _ => none

/-- `toks@start;cache;L<b>;m<n>;u<b|->;e<n|->;ok|FAIL` -/
def parseObs (w : String) : Option Call :=
  match w.splitOn ";" with
  | [ts, cache, lg, m, u, e, ok] => do
    let (toksS, startS) ← match ts.splitOn "@" with
      | [a, b] => some (a, b)
      | _ => none
    let toks ← parseNatList "," toksS
    let start ← startS.toNat?
    let cacheIn ← parseCache cache
    let attn ← (m.drop 1).toString.toNat?
    let flag := u == "u1"
    let encIn := ((e.drop 1).toString.toNat?).getD 0
    pure { toks := toks, start := start, cacheIn := cacheIn, logits := lg == "L1", attn := attn,
           flag := flag, encIn := encIn, ok := ok == "ok" }
  | _ => none

/-- Identify an observed empty cache with the expected one when that is empty as well. -/
def reconcile : LogSt → List Call → List Call
  | _, [] => []
  | st, c :: cs =>
    let c' := match c.cacheIn, st.held with
      | some (some (0, 0)), some (i, 0) => { c with cacheIn := some (some (i, 0)) }
      | _, _ => c
    c' :: reconcile (logStep st c') cs

def specAnswer (hasKv : Bool) (ops : List Op) (obs : List Call) (prev pend : List Nat) : String :=
  let sp := Spec.run hasKv ops
  let obs := if hasKv then reconcile LogSt.init obs else obs
  let checks : List (String × Bool) :=
    [("calls", obs.map (fun c => (c.toks, c.ok)) == sp.calls),
     ("hist", prev == sp.hist),
     ("pend", pend == sp.pend.map (·.1)),
     ("log", if hasKv then logOk obs else logOkNoKv obs),
     ("positions", !hasKv || positions (okCalls obs) == List.range (fed (okCalls obs)).length),
     ("submitted", !hasKv || fed (okCalls obs) ++ pend == submitted ops)]
  let bad := (checks.filter (fun c => !c.2)).map (·.1)
  if bad.isEmpty then "spec-ok" else "spec-FAIL:" ++ joinWith "," bad

def handleSpec (ws : List String) : String :=
  match (joinWith " " ws).splitOn " :: " with
  | [opsPart, obsPart, finPart] =>
    let ow := words opsPart
    let hasKv? := match ow with
      | "kv=1" :: _ => some true
      | "kv=0" :: _ => some false
      | _ => none
    let opsw := (ow.drop 1).filter (fun w => !w.startsWith "cfg=")
    let fw := words finPart
    match hasKv?, opsw.mapM parseOp, ((words obsPart).filter (· != "-")).mapM parseObs,
          (field "prev" fw).bind (parseNatList ","), (field "in" fw).bind (parseNatList ",") with
    | some hasKv, some ops, some obs, some prev, some pend => specAnswer hasKv ops obs prev pend
    | _, _, _, _, _ => "bad-request"
  | [opsPart, finPart] =>   -- no call observed
    handleSpecNoCalls opsPart finPart
  | _ => "bad-request"
where
  field (key : String) (ws : List String) : Option String :=
    (ws.find? (·.startsWith (key ++ "="))).map (fun w => (w.drop (key.length + 1)).toString)
  handleSpecNoCalls (opsPart finPart : String) : String :=
    let ow := words opsPart
    let hasKv? := match ow with
      | "kv=1" :: _ => some true
      | "kv=0" :: _ => some false
      | _ => none
    let opsw := (ow.drop 1).filter (fun w => !w.startsWith "cfg=")
    let fw := words finPart
    match hasKv?, opsw.mapM parseOp,
          (field "prev" fw).bind (parseNatList ","), (field "in" fw).bind (parseNatList ",") with
    | some hasKv, some ops, some prev, some pend => specAnswer hasKv ops [] prev pend
    | _, _, _, _ => "bad-request"

def handle (line : String) : String :=
  match words line with
  | "api" :: names => apiAnswer names
  | "spec" :: ws => handleSpec ws
  | kvw :: rest =>
    let hasKv? := if kvw == "kv=1" then some true else if kvw == "kv=0" then some false else none
    let opsw := rest.filter (fun w => !w.startsWith "cfg=")
    let cfg := (rest.find? (·.startsWith "cfg=")).getD ""
    let sh : Show := { attn := (cfg.splitOn "a1").length > 1, enc := (cfg.splitOn "e1").length > 1 }
    match hasKv?, opsw.mapM parseOp with
    | some hasKv, some ops => joinWith " | " (trace sh currentRule (State.init hasKv) ops)
    | _, _ => "bad-request"
  | _ => "bad-request"

end RtenVerif.Driver.C32

/-- `model_C32`: reads request lines on stdin, prints the model's answer per line. -/
def main : IO Unit := RtenVerif.Driver.loopPure RtenVerif.Driver.C32.handle
