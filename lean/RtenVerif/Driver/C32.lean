import RtenVerif.Driver.Util
import RtenVerif.Model.Generator

/-!
`model_C32` line protocol.

Request: `kv=<0|1> [cfg=<ignored>] <op> <op> …` with ops
`W:<csv>` with_prompt, `A:<csv>` append_prompt, `C` clear_prompt, `P` process_prompt,
`N:<tok>` next (sampler returns `tok`), `E` next with a filter that removes every candidate.

Answer: one section per op, joined by ` | `:
`<call> <filter> <outcome> in=<csv> prev=<csv> kv=<len|->` where
`<call>` = `R(<csv>@<start>;c<id>:<len>;L<0|1>)` or `-` (`<start>` is `_` when no token is fed:
the position range is then empty and the start is not observable in the call; cache `c-` when the model has no
KV inputs; an empty cache is always printed `c0:0` because empty caches are indistinguishable),
`<filter>` = `F(<prev_tokens seen by the filter>)` or `-`,
`<outcome>` = `ok` | `tok=<t>` | `err=empty` | `panic`.
-/
namespace RtenVerif.Driver.C32
open RtenVerif.Driver RtenVerif.Generator

/-- The recording rule of the code under test (current tree). -/
def currentRule : Rule := .tracked

def parseOp (w : String) : Option Op :=
  if w == "C" then some .clear
  else if w == "P" then some .process
  else if w == "E" then some .nextEmpty
  else match w.splitOn ":" with
    | ["W", l] => (parseNatList "," l).map .withPrompt
    | ["A", l] => (parseNatList "," l).map .append
    | ["N", t] => t.toNat?.map .next
    | _ => none

def showCache : Option (Nat × Nat) → String
  | none => "c-"
  | some (id, len) => if len == 0 then "c0:0" else s!"c{id}:{len}"

def showCall : Option Call → String
  | none => "-"
  | some c =>
    let start := if c.toks.isEmpty then "_" else toString c.start
    s!"R({showNats "," c.toks}@{start};{showCache c.cacheIn};L{b01 c.logits})"

def showFilt : Option (List Nat) → String
  | none => "-"
  | some p => s!"F({showNats "," p})"

def showOut : Outcome → String
  | .unit => "ok"
  | .tok t => s!"tok={t}"
  | .errEmpty => "err=empty"
  | .panicNoRow => "panic"

def showKv : Option (Nat × Nat) → String
  | none => "-"
  | some (_, len) => toString len

def section_ (o : StepOut) : String :=
  s!"{showCall o.call} {showFilt o.filt} {showOut o.out} in={showNats "," o.st.inputIds} prev={showNats "," o.st.prev} kv={showKv o.st.kv}"

def trace (r : Rule) : State → List Op → List String
  | _, [] => []
  | s, op :: ops => let o := step r s op; section_ o :: trace r o.st ops

def handle (line : String) : String :=
  match words line with
  | kvw :: rest =>
    let hasKv? := if kvw == "kv=1" then some true else if kvw == "kv=0" then some false else none
    let opsw := rest.filter (fun w => !w.startsWith "cfg=")
    match hasKv?, opsw.mapM parseOp with
    | some hasKv, some ops => joinWith " | " (trace currentRule (State.init hasKv) ops)
    | _, _ => "bad-request"
  | _ => "bad-request"

end RtenVerif.Driver.C32

/-- `model_C32`: reads request lines on stdin, prints the model's answer per line. -/
def main : IO Unit := RtenVerif.Driver.loopPure RtenVerif.Driver.C32.handle
