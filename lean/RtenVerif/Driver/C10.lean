import RtenVerif.Driver.Util
import RtenVerif.Model.ShapeInfer
import RtenVerif.Model.ShapeExec
import RtenVerif.Model.PoolSize

namespace RtenVerif.Driver.C10
open RtenVerif.Driver RtenVerif.ShapeInfer

/-! Parser for the expression / tensor syntax of `harness/rten/src/bin/c10.rs`. -/

def isIdent (c : Char) : Bool := c.isAlphanum || c == '_'

def takeWhile (p : Char → Bool) : List Char → List Char × List Char
  | c :: cs => if p c then let (a, b) := takeWhile p cs; (c :: a, b) else ([], c :: cs)
  | [] => ([], [])

/-- Parse one expression; `fuel` bounds the recursion depth. -/
def parseExpr : Nat → List Char → Option (Sym × List Char)
  | 0, _ => none
  | fuel + 1, cs =>
    match cs with
    | '$' :: rest => let (n, r) := takeWhile isIdent rest; some (.var (String.ofList n) true, r)
    | '%' :: rest => let (n, r) := takeWhile isIdent rest; some (.var (String.ofList n) false, r)
    | '-' :: rest =>
      let (n, r) := takeWhile Char.isDigit rest
      (String.ofList n).toNat?.map fun v => (.val (-(v : Int)), r)
    | c :: rest =>
      if c.isDigit then
        let (n, r) := takeWhile Char.isDigit (c :: rest)
        (String.ofList n).toNat?.map fun v => (.val (v : Int), r)
      else
        match rest with
        | '(' :: rest' =>
          if c == 'n' then
            match parseExpr fuel rest' with
            | some (a, ')' :: r) => some (.neg a, r)
            | _ => none
          else
            match parseExpr fuel rest' with
            | some (a, ',' :: r1) =>
              match parseExpr fuel r1 with
              | some (b, ')' :: r2) =>
                let mk : Option (Sym → Sym → Sym) :=
                  match c with
                  | 'a' => some .add | 's' => some .sub | 'm' => some .mul | 'd' => some .div
                  | 'c' => some .divCeil | 'x' => some .max | 'i' => some .min | 'b' => some .bcast
                  | _ => none
                mk.map fun f => (f a b, r2)
              | _ => none
            | _ => none
        | _ => none
    | [] => none

def parseList (fuel : Nat) : Nat → List Char → Option (List Sym × List Char)
  | 0, _ => none
  | n + 1, cs =>
    match cs with
    | ')' :: r => some ([], r)
    | _ =>
      match parseExpr fuel cs with
      | some (e, ',' :: r) => (parseList fuel n r).map fun (es, r') => (e :: es, r')
      | some (e, ')' :: r) => some ([e], r)
      | _ => none

def parseTensor (w : String) : Option (Option STn) :=
  match w.toList with
  | ['_'] => some none
  | ['U'] => some (some .unknown)
  | 'S' :: '(' :: r =>
    match parseExpr 64 r with
    | some (e, [')']) => some (some (.scalar e))
    | _ => none
  | 'V' :: '(' :: r => match parseList 64 4096 r with | some (es, []) => some (some (.vector es)) | _ => none
  | 'H' :: '(' :: r => match parseList 64 4096 r with | some (es, []) => some (some (.shape es)) | _ => none
  | _ => none

def symText : Sym → String
  | .val n => toString n
  | .var x p => (if p then "$" else "%") ++ x
  | .neg a => s!"n({symText a})"
  | .add a b => s!"a({symText a},{symText b})"
  | .sub a b => s!"s({symText a},{symText b})"
  | .mul a b => s!"m({symText a},{symText b})"
  | .div a b => s!"d({symText a},{symText b})"
  | .divCeil a b => s!"c({symText a},{symText b})"
  | .max a b => s!"x({symText a},{symText b})"
  | .min a b => s!"i({symText a},{symText b})"
  | .bcast a b => s!"b({symText a},{symText b})"

def tensorText : STn → String
  | .scalar e => s!"S({symText e})"
  | .vector es => s!"V({joinWith "," (es.map symText)})"
  | .shape ds => s!"H({joinWith "," (ds.map symText)})"
  | .unknown => "U"

def errText : Err → String
  | .incorrectInputCount => "IncorrectInputCount"
  | .incompatibleShapes => "IncompatibleShapes"
  | .incorrectRank => "IncorrectRank"
  | .invalidValue => "InvalidValue"

def showRes : Except Err STn → String
  | .ok t => s!"ok {tensorText t}"
  | .error e => s!"err:{errText e}"

def attrInt (attrs : String) (k : String) : Option Int :=
  if attrs == "-" then none else
  (attrs.splitOn ",").findSome? fun kv =>
    match kv.splitOn "=" with
    | [k', v] => if k' == k then v.toInt? else none
    | _ => none

def attrNats (attrs : String) (k : String) : Option (List Nat) :=
  if attrs == "-" then none else
  (attrs.splitOn ",").findSome? fun kv =>
    match kv.splitOn "=" with
    | [k', v] => if k' == k then (v.splitOn ":").mapM String.toNat? else none
    | _ => none

def attrInts (attrs : String) (k : String) : Option (List Int) :=
  (attrNats attrs k).map fun l => l.map fun (n : Nat) => (n : Int)

def attrStr (attrs : String) (k : String) : Option String :=
  if attrs == "-" then none else
  (attrs.splitOn ",").findSome? fun kv =>
    match kv.splitOn "=" with
    | [k', v] => if k' == k then some v else none
    | _ => none

/-- Operators whose rule is `UnaryOp` (the shape is copied). -/
def unaryKeys : List String :=
  ["Abs", "Acos", "Acosh", "Asin", "Asinh", "Atan", "Atanh", "Ceil", "Cos", "Cosh", "Elu", "Erf", "Exp", "Floor",
   "Gelu", "HardSigmoid", "HardSwish", "LeakyRelu", "Log", "Reciprocal", "Relu", "Round", "Sigmoid", "Sin", "Sinh",
   "Softplus", "Sqrt", "Swish", "Tan", "Tanh", "IsInf", "IsNaN", "Softmax", "LogSoftmax", "Sign", "Not",
   "QuickGelu", "GeluMicrosoft", "Trilu", "CumSum", "LpNormalization", "EyeLike", "Clip"]

def need (o : Option (Option STn)) : Except Err STn :=
  match o with
  | some (some t) => .ok t
  | _ => .error .incorrectInputCount

/-- Answer for one request; `none` = rule (or this input form) not modelled → `skip`. -/
def infer (key attrs : String) (ins : List (Option STn)) : Option String :=
  let bin (op : Sym → Sym → Option Sym) : Option String :=
    some <| showRes (do let a ← need ins[0]?; let b ← need ins[1]?; binaryInfer op a b)
  match key with
  | "Add" => bin addOp
  | "Sub" => bin subOp
  | "Mul" => bin mulOp
  | "Div" => bin divOp
  | "Equal" => bin eqOp
  | "Where" =>
    some <| showRes (do
      let c ← need ins[0]?; let x ← need ins[1]?; let y ← need ins[2]?
      whereInfer (fun v => v != 0) true c x y)
  | "Shape" =>
    some <| showRes (do let a ← need ins[0]?; pure (shapeInfer (attrInt attrs "start") (attrInt attrs "end") a))
  | "Gather" =>
    match ins, attrInt attrs "axis" with
    | [some d, some i], some ax => some (showRes (gatherInfer ax d i))
    | [some d, some i], none => some (showRes (gatherInfer 0 d i))
    | _, _ => none
  | "Concat" =>
    match attrInt attrs "axis", ins.mapM id with
    | some ax, some ts => (concatInfer ax ts).map showRes
    | _, _ => none
  | "Unsqueeze" =>
    match ins with
    | [some d, some ax] => some (showRes (unsqueezeInfer d ax))
    | _ => none
  | "Squeeze" =>
    match ins with
    | [some d, ax] => some (showRes (squeezeInfer d ax))
    | [some d] => some (showRes (squeezeInfer d none))
    | _ => none
  | "Conv" =>
    match ins with
    | some d :: some w :: _ =>
      let n := (attrInts attrs "kernel_shape").map List.length |>.getD 0
      let pad : PadSpec :=
        match attrStr attrs "auto_pad" with
        | some "SAME_UPPER" | some "SAME_LOWER" => .same
        | _ => .fixed ((attrInts attrs "pads").getD (List.replicate (2 * n) 0))
      some (showRes (convInfer ((attrInts attrs "strides").getD (List.replicate n 1))
        ((attrInts attrs "dilations").getD (List.replicate n 1)) pad d w))
    | _ => none
  | "MaxPool" | "AveragePool" =>
    match ins, attrInts attrs "kernel_shape", attrInts attrs "strides" with
    | [some d], some ks, some ss =>
      let pad : PadSpec :=
        match attrStr attrs "auto_pad" with
        | some "SAME_UPPER" | some "SAME_LOWER" => .same
        | _ => .fixed ((attrInts attrs "pads").getD (List.replicate (2 * ks.length) 0))
      some (showRes (poolInfer ks ss pad ((attrInt attrs "ceil_mode").getD 0 != 0) d))
    | _, _, _ => none
  | "Transpose" =>
    match ins with
    | [some d] => d.dims.map fun _ => showRes (transposeInfer (attrNats attrs "perm") d)
    | _ => none
  | "Size" =>
    -- the real rule ends with `simplify()` (C11); compared only where that is constant folding
    match ins with
    | [some a] =>
      match a.dims with
      | some ds =>
        (mapO (fun (e : Sym) => match e with | .val v => some v | _ => none) ds).map fun vs =>
          s!"ok S({vs.foldl (fun p d => p * d) 1})"
      | none => none
    | _ => none
  | "Expand" =>
    match ins with
    | [some d, some sh] => sh.values.map fun sizes => showRes (expandInfer d sizes)
    | _ => none
  | "Neg" => match ins with | [some a] => some s!"ok {tensorText (negInfer a)}" | _ => none
  | "Identity" => match ins with | [some a] => some s!"ok {tensorText (identityInfer a)}" | _ => none
  | "ConstantOfShape" =>
    match ins, attrInt attrs "value" with
    | [some sh], some v => sh.values.map fun es => showRes (constantOfShapeInfer (some v) es)
    | _, _ => none
  | k => if unaryKeys.contains k then (match ins with | some a :: _ => some s!"ok {tensorText (unaryInfer a)}" | _ => none) else none

/-! ### `exec` requests: the reference execution semantics on concrete tensors -/

def toCT : STn → Option CT
  | .scalar (.val v) => some (.scalar v)
  | .vector es => (mapO (fun (e : Sym) => match e with | .val v => some v | _ => none) es).map CT.vector
  | .shape ds => (mapO (fun (e : Sym) => match e with | .val v => some v | _ => none) ds).map CT.shaped
  | _ => none

def ctText : CT → String
  | .scalar v => s!"S({v})"
  | .vector vs => s!"V({joinWith "," (vs.map toString)})"
  | .shaped ds => s!"H({joinWith "," (ds.map toString)})"

def okCT (o : Option CT) : Option String := some (match o with | some c => s!"ok {ctText c}" | none => "fail")

/-- Reference output for one `exec` request; `none` = no reference for this input form (`skip`). -/
def execRef (key attrs : String) (ins : List (Option CT)) : Option String :=
  let bin (f : Int → Int → Option Int) : Option String :=
    match ins with | [some a, some b] => okCT (execBinaryFull f a b) | _ => none
  match key with
  | "Add" => bin fun x y => some (x + y)
  | "Sub" => bin fun x y => some (x - y)
  | "Mul" => bin fun x y => some (x * y)
  | "Div" => bin fun x y => if y = 0 then none else some (tdiv x y)
  | "Equal" => bin fun x y => some (if x = y then 1 else 0)
  | "Where" => match ins with | [some c, some x, some y] => okCT (cwhereFull c x y) | _ => none
  | "Shape" => match ins with
    | [some a] => okCT (some (execShape (attrInt attrs "start") (attrInt attrs "end") a))
    | _ => none
  | "Size" => match ins with
    | [some a] => okCT (some (.scalar (a.dims.foldl (fun p d => p * d) 1)))
    | _ => none
  | "Gather" =>
    match ins, attrInt attrs "axis" with
    | [some (.vector vs), some (.scalar i)], some 0 =>
      okCT ((resolveIndex vs.length i).bind fun k => (vs[k]?).map CT.scalar)
    | [some (.vector vs), some (.vector idxs)], some 0 => okCT ((cgather vs idxs).map CT.vector)
    | _, _ => none
  | "Concat" =>
    match attrInt attrs "axis", ins.mapM id with
    | some 0, some cs => if cs.all (fun c => match c with | .vector _ => true | _ => false) then okCT (cconcat cs) else none
    | _, _ => none
  | "Unsqueeze" =>
    match ins with
    | [some (.scalar v), some (.vector [0])] => okCT (some (.vector [v]))
    | [some d, some (.vector axes)] => okCT ((cunsqueeze d.dims axes).map CT.shaped)
    | _ => none
  | "Squeeze" =>
    match ins with
    | [some (.vector [v]), none] => okCT (some (.scalar v))
    | [some (.vector [v]), some (.vector axes)] =>
      if (mapO (resolveIndex 1) axes) == some [0] then okCT (some (.scalar v)) else none
    | [some d, some (.vector axes)] => okCT ((csqueeze d.dims axes).map CT.shaped)
    | _ => none
  | "Transpose" => match ins with
    | [some d] => okCT ((ctranspose (attrNats attrs "perm") d.dims).map CT.shaped)
    | _ => none
  | "Expand" => match ins with
    | [some d, some (.vector sizes)] => okCT ((cbroadcast d.dims sizes).map CT.shaped)
    | _ => none
  | "ConstantOfShape" =>
    match ins, attrInt attrs "value" with
    | [some (.vector sh)], some v => okCT (cconstantOfShape (some v) sh)
    | _, _ => none
  | "Neg" => match ins with | [some a] => okCT (some (cneg a)) | _ => none
  | "Identity" => match ins with | [some a] => okCT (some a) | _ => none
  | _ => none

def handle (line : String) : String :=
  let body := (line.splitOn " # ").headD ""
  match (body.splitOn " | ") with
  | head :: tensors =>
    match words head with
    | "graph" :: _ => "skip"
    | "poolsize" :: rest =>
      let get (k : String) : Option Nat :=
        rest.findSome? fun w => if w.startsWith (k ++ "=") then ((w.drop (k.length + 1)).toString).toNat? else none
      match get "in", get "k", get "s", get "d", get "ps", get "pe", get "ceil" with
      | some i, some k, some st, some d, some ps, some pe, some c =>
        let ceil := c == 1
        match poolExecSize i k st d ps pe ceil with
        | some n => s!"infer={poolInferSize i k st d ps pe ceil} exec={n}"
        | none =>
          -- the executor rejects the configuration; inference still produces a number
          s!"infer={poolInferSize i k st d ps pe ceil} exec=err"
      | _, _, _, _, _, _, _ => "bad-request"
    | ["exec", key, attrs] =>
      match ((tensors.map fun t => t.trimAscii.toString).filter (fun t => !t.isEmpty) |>.map parseTensor).mapM id with
      | some ins =>
        match (ins.map fun (o : Option STn) => match o with | none => some none | some t => (toCT t).map some).mapM id with
        | some cs => (execRef key attrs cs).getD "skip"
        | none => "bad-request"
      | none => "bad-request"
    | ["inf", key, attrs] =>
      match ((tensors.map fun t => t.trimAscii.toString).filter (fun t => !t.isEmpty) |>.map parseTensor).mapM id with
      | some ins => (infer key attrs ins).getD "skip"
      | none => "bad-request"
    | _ => "bad-request"
  | [] => "bad-request"

end RtenVerif.Driver.C10

/-- `model_C10`: reads request lines on stdin, prints the model's answer per line. -/
def main : IO Unit := RtenVerif.Driver.loopPure RtenVerif.Driver.C10.handle
