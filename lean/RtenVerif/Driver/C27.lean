import RtenVerif.Driver.Util
import RtenVerif.Model.ByteBpe
import RtenVerif.Model.PreSplit

/-!
`model_C27` line protocol (stateful: a `T` line defines the tokenizer used by following `E` lines).

* `B` → the `byte_to_char` table (256 code points joined by `,`).
* `T;<vocab id:cp.cp,…>;<merges cp.cp/cp.cp,…>;<eow 0|1:cp.cp>;<ignore_merges 0|1>;<added id:b.b,…>`
  → `ok` | `err:invalid-merge` | `err:missing-vocab`.
* `E;<srclen>;<normalized text bytes b.b>;<pieces s-e,…>;<map: - | m<o.o…>>;<src: - | s<b.b…>>`
  → `i=<ids>;o=<token offsets>;d=<ok:bytes|err:id|err:utf8|panic>;s=<slice per token: none|b:bytes>`.
* `S;<invert 0|1>;<isolate 0|1>;<len>;<regex matches s-e,…>` (`Split::pre_tokenize` over the match
  list) → the chunks `s-e,…`.
* `D;<ids ,>` (decode an arbitrary id sequence) → `d=<ok:bytes|err:id|err:utf8|panic>`.
-/
namespace RtenVerif.Driver.C27
open RtenVerif.Driver RtenVerif.ByteBpe

def dots (s : String) : Option (List Nat) := parseNatList "." s

def parseList {α : Type} (f : String → Option α) (s : String) : Option (List α) :=
  if s.isEmpty then some [] else (s.splitOn ",").mapM f

def parseVocabEntry (w : String) : Option (Str × Nat) :=
  match w.splitOn ":" with
  | [id, str] => do pure (← dots str, ← id.toNat?)
  | _ => none

def parseMerge (w : String) : Option (Str × Str) :=
  match w.splitOn "/" with
  | [a, b] => do pure (← dots a, ← dots b)
  | _ => none

def parseAdded (w : String) : Option (Nat × List Nat) :=
  match w.splitOn ":" with
  | [id, bs] => do pure (← id.toNat?, ← dots bs)
  | _ => none

def parseRange (w : String) : Option (Nat × Nat) :=
  match w.splitOn "-" with
  | [a, b] => do pure (← a.toNat?, ← b.toNat?)
  | _ => none

def showDecode (r : DecodeOut) : String :=
  match r with
  | .ok bs => "ok:" ++ showNats "." bs
  | .invalidUtf8 => "err:utf8"
  | .invalidId => "err:id"
  | .panic => "panic"

def handleE (t : Bpe) (srclen text pieces map src : String) : Option String := do
  let srcLen ← srclen.toNat?
  let bytes ← dots text
  let ps ← parseList parseRange pieces
  let m ← if map == "-" then some none else (dots (map.drop 1).toString).map some
  let srcBytes ← if src == "-" then some bytes else dots (src.drop 1).toString
  match encode t srcLen bytes m ps with
  | none => pure "panic"
  | some (ids, offs) =>
    let slices := (tokenTexts srcBytes offs).map fun
      | some bs => "b:" ++ showNats "." bs
      | none => "none"
    pure s!"i={showNats "," ids};o={showNats "," offs};d={showDecode (decode t ids)};s={joinWith "," slices}"

def step (st : Option Bpe) (line : String) : Option Bpe × String :=
  match line.splitOn ";" with
  | ["B"] => (st, showNats "," ((List.range 256).map byteToChar))
  | ["T", vocab, merges, eow, ignore, added] =>
    let r : Option NewResult := do
      let v ← parseList parseVocabEntry vocab
      let ms ← parseList parseMerge merges
      let ad ← parseList parseAdded added
      let sfx ← if eow == "0" then some none else (dots (eow.drop 2).toString).map some
      pure (Bpe.new v ms sfx (ignore == "1") ad)
    match r with
    | some (.ok t) => (some t, "ok")
    | some .invalidMerge => (none, "err:invalid-merge")
    | some .missingVocab => (none, "err:missing-vocab")
    | none => (none, "bad-request")
  | ["S", invert, isolate, len, mstr] =>
    match len.toNat?, parseList parseRange mstr with
    | some n, some ms =>
      let chunks := RtenVerif.PreSplit.split (invert == "1") (isolate == "1") n ms
      (st, joinWith "," (chunks.map fun c => s!"{c.1}-{c.2}"))
    | _, _ => (st, "bad-request")
  | ["D", ids] =>
    match st, parseNatList "," ids with
    | some t, some l => (st, "d=" ++ showDecode (decode t l))
    | none, _ => (st, "no-tokenizer")
    | _, none => (st, "bad-request")
  | ["E", srclen, text, pieces, map, src] =>
    match st with
    | none => (st, "no-tokenizer")
    | some t => (st, (handleE t srclen text pieces map src).getD "bad-request")
  | _ => (st, "bad-request")

end RtenVerif.Driver.C27

/-- `model_C27`: reads request lines on stdin, prints the model's answer per line. -/
def main : IO Unit := RtenVerif.Driver.loopLines RtenVerif.Driver.C27.step none
