import RtenVerif.Driver.Util
import RtenVerif.Model.Iter

/-!
`model_C07`: request `<kind> <shape> <strides> <p1> <p2> | <history>` →
`ok <observation> ...` (see `harness/tensor/src/bin/c07.rs` for the grammar).
-/
namespace RtenVerif.Driver.C07
open RtenVerif.Driver RtenVerif.Iter

/-- Parse a prefix-form history; also returns the print tags (`F`/`P`/`Q`) of the
terminals that produce an observation, in run order. -/
def parseH : Nat → List String → Option (Hist × List String × List String)
  | 0, _ => none
  | _ + 1, [] => none
  | fuel + 1, t :: ts =>
    if t == "." then some (.drop, [], ts)
    else if t == "f" then some (.fold, ["F"], ts)
    else if t == "P" then some (.fold, ["P"], ts)
    else if t == "Q" then some (.rev, ["Q"], ts)
    else if t == "R" then some (.rev, ["R"], ts)
    else if t == "n" then (parseH fuel ts).map fun (h, g, r) => (.next h, g, r)
    else if t == "b" then (parseH fuel ts).map fun (h, g, r) => (.back h, g, r)
    else if t == "l" then (parseH fuel ts).map fun (h, g, r) => (.len h, g, r)
    else if t.startsWith "t" then do
      let k ← (t.drop 1).toString.toNat?
      let (h, g, r) ← parseH fuel ts
      pure (.nth k h, g, r)
    else if t.startsWith "s" then do
      let k ← (t.drop 1).toString.toNat?
      let (l, g1, r1) ← parseH fuel ts
      let (r, g2, r2) ← parseH fuel r1
      pure (.split k l r, g1 ++ g2, r2)
    else none

def showNatItem (n : Nat) : String := toString n

def showItem (it : Item) : String :=
  (if it.1.isEmpty then "s" else joinWith "x" (it.1.map toString)) ++ ":" ++ showNats "," it.2

def showObs {ι : Type} (sh : ι → String) : List (Obs ι) → List String → List String
  | [], _ => []
  | .panic :: _, _ => ["panic"]
  | .item none :: r, g => "-" :: showObs sh r g
  | .item (some x) :: r, g => sh x :: showObs sh r g
  | .len n :: r, g => s!"L{n}" :: showObs sh r g
  | .folded l :: r, g => s!"{g.headD "F"}[{joinWith ";" (l.map sh)}]" :: showObs sh r g.tail
  | .reved l :: r, g => s!"{g.headD "Q"}[{joinWith ";" (l.map sh)}]" :: showObs sh r g.tail

def answer {σ ι : Type} (ops : IterOps σ ι) (sh : ι → String) (h : Hist) (tags : List String)
    (s : σ) : String :=
  joinWith " " ("ok" :: showObs sh (run ops h s) tags)

def parseDims (a b : String) : Option (List (Nat × Nat)) := do
  let sh ← if a == "-" then some [] else parseNatList "," a
  let st ← if b == "-" then some [] else parseNatList "," b
  if sh.length = st.length then some (sh.zip st) else none

def handle (line : String) : String :=
  match line.splitOn " | " with
  | [hd, hs] =>
    match words hd, words hs with
    | [kind, a, b, p1s, p2s], toks =>
      match parseDims a b, p1s.toNat?, p2s.toNat?, parseH (toks.length + 1) toks with
      | some dims, some p1, some p2, some (h, tags, []) =>
        let isMut := kind.endsWith "mut"
        if kind == "iter" || kind == "itermut" then
          answer Offsets.ops showNatItem h tags (Offsets.new dims)
        else if kind == "lanes" || kind == "lanesmut" then
          match lanesNew? dims p1 isMut with
          | some s => answer (lanesOps dims p1) showItem h tags s
          | none => "ok panic"
        else if kind == "lane" || kind == "lanemut" then
          -- the `p2`-th lane of `lanes(p1)`, then the history on that `Lane`/`LaneMut`
          match lanesNew? dims p1 isMut with
          | none => "ok panic"
          | some s =>
            match (Offsets.fold s)[p2]? with
            | none => "ok nolane"
            | some start =>
              let d := dims.getD p1 (0, 0)
              answer (if isMut then LaneIt.opsMut else LaneIt.ops) showNatItem h tags
                (LaneIt.new d.1 d.2 start)
        else if kind == "inner" || kind == "innermut" then
          match innerNew? dims p1 with
          | some s => answer (innerOps dims p1) showItem h tags s
          | none => "ok panic"
        else if kind == "axis" || kind == "axismut" then
          match AxisIter.new? ⟨0, dims⟩ p1 isMut with
          | some s => answer AxisIter.ops showItem h tags s
          | none => "ok panic"
        else if kind == "chunks" || kind == "chunksmut" then
          match AxisChunks.new? ⟨0, dims⟩ p1 p2 isMut with
          | some s => answer AxisChunks.ops showItem h tags s
          | none => "ok panic"
        else "bad-request"
      | _, _, _, _ => "bad-request"
    | _, _ => "bad-request"
  | _ => "bad-request"

end RtenVerif.Driver.C07

/-- `model_C07`: reads request lines on stdin, prints the model's answer per line. -/
def main : IO Unit := RtenVerif.Driver.loopPure RtenVerif.Driver.C07.handle
