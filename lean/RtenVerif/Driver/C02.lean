import RtenVerif.Driver.Util
import RtenVerif.Model.Executor

/-! Line-protocol driver for C02: one request per observed `run_plan` call
(`run pool= nip= hascap= nodes= gcap= owned= borrowed= cap= outs= plan= lens= fail=`), answer
`<status>|<steps>|<outs>`.  Values are abstracted to their `len` (`V := Nat`). -/
namespace RtenVerif.Driver.C02
open RtenVerif.Driver RtenVerif.Graph RtenVerif.Executor

def field (ws : List String) (key : String) : Option String :=
  ws.findSome? (fun w => if w.startsWith (key ++ "=") then some (w.drop (key.length + 1)).toString else none)

def parseOptId (s : String) : Option (Option Nat) :=
  if s == "_" then some none else s.toNat?.map some

def parseOptList (s : String) : Option (List (Option Nat)) :=
  if s.isEmpty then some [] else (s.splitOn ",").mapM parseOptId

/-- Per-operator side table entry: in-place indices, subgraph flag. -/
structure OpInfo where
  ipIdx : List Nat
  sub : Bool

def parseNode (s : String) : Option (Node × Option OpInfo) :=
  if s == "v" then some (.value, none)
  else if s == "c" then some (.constant, none)
  else
    match s.splitOn "/" with
    | ["o", ins, outs, caps, ip, comm, sub] => do
      let ins ← parseOptList ins
      let outs ← parseOptList outs
      let caps ← parseNatList "," caps
      let ip ← parseNatList "," ip
      pure (.operator { inputs := ins, outputs := outs, captureIds := caps,
                        inPlace := !ip.isEmpty, commutative := comm == "1" },
            some { ipIdx := ip, sub := sub == "1" })
    | _ => none

def parsePairs (s : String) : Option (List (Nat × Nat)) :=
  if s.isEmpty then some [] else
    (s.splitOn ",").mapM (fun w =>
      match w.splitOn ":" with
      | [a, b] => do pure (← a.toNat?, ← b.toNat?)
      | _ => none)

def parseCaps (s : String) : Option (List (Nat × Option (Nat × Bool))) :=
  if s.isEmpty then some [] else
    (s.splitOn ",").mapM (fun w =>
      match w.splitOn ":" with
      | [a, l, t] => do
        let id ← a.toNat?
        if l == "_" then pure (id, none) else pure (id, some (← l.toNat?, t == "1"))
      | _ => none)

def parseLens (s : String) : Option (List (Nat × List Nat)) :=
  if s.isEmpty then some [] else
    (s.splitOn ";").mapM (fun w =>
      match w.splitOn ":" with
      | [a, ls] => do pure (← a.toNat?, ← parseNatList "." ls)
      | _ => none)

def showStep (t : StepTrace) : String :=
  s!"{t.op}:{b01 t.rip}:" ++ joinWith "," (t.taken.map (fun p => s!"{p.1}.{p.2}")) ++ ":" ++
    showNats "," t.byVal ++ ":" ++ showNats "," t.stored ++ ":" ++ showNats "," t.released

def showStatus : Except Err (List Nat) → String
  | .ok _ => "ok"
  | .error .planErr => "planerr"
  | .error (.opErr op) => s!"err@{op}"
  | .error (.panicAt op) => s!"panic@{op}"
  | .error .panicOut => "panic@out"

/-- Everything parsed from a `run` / `sym` request. -/
structure Req where
  pool : Bool
  nip : Bool
  nodes : List (Node × Option OpInfo)
  gcap : List Nat
  owned : List (Nat × Nat)
  borrowed : List (Nat × Nat)
  caps : List (Nat × Option (Nat × Bool))
  outs : List Nat
  plan : List Nat
  lens : List (Nat × List Nat)
  failOp : Option Nat
  panicOp : Option Nat

def parseReq (ws : List String) : Option Req := do
  let pool ← field ws "pool"
  let nip ← field ws "nip"
  let nodesStr ← field ws "nodes"
  let nodes ← (if nodesStr.isEmpty then some [] else (nodesStr.splitOn ";").mapM parseNode)
  let gcap ← parseNatList "," (← field ws "gcap")
  let owned ← parsePairs (← field ws "owned")
  let borrowed ← parsePairs (← field ws "borrowed")
  let caps ← parseCaps (← field ws "cap")
  let outs ← parseNatList "," (← field ws "outs")
  let plan ← parseNatList "," (← field ws "plan")
  let lens ← parseLens (← field ws "lens")
  let fail ← field ws "fail"
  let failOp : Option Nat := if fail.startsWith "e" then (fail.drop 1).toString.toNat? else none
  -- `p<op>`: the operator itself panicked (abstract-operator observable, see harness)
  let panicOp : Option Nat := if fail.startsWith "p" then (fail.drop 1).toString.toNat? else none
  pure { pool := pool == "1", nip := nip == "1", nodes, gcap, owned, borrowed, caps, outs, plan, lens,
         failOp := if panicOp.isSome then panicOp else failOp, panicOp }

def Req.info (q : Req) (i : Nat) : Option OpInfo := ((q.nodes.map (fun n => n.2))[i]?).join

def statusOf {α : Type} (q : Req) : Except Err α → String
  | .error (.opErr op) => if q.panicOp == some op then s!"panic@{op}" else s!"err@{op}"
  | .ok _ => "ok"
  | .error .planErr => "planerr"
  | .error (.panicAt op) => s!"panic@{op}"
  | .error .panicOut => "panic@out"

/-- `run`: bookkeeping trace; values are abstracted to their `len`. -/
def handleRun (q : Req) : String :=
  let ops : Ops Nat :=
    { len := fun v => v
      inPlaceIdx := fun i => match q.info i with | some x => x.ipIdx | none => []
      isSubgraph := fun i => match q.info i with | some x => x.sub | none => false
      run := fun i _ _ => if q.failOp == some i then none else q.lens.lookup i
      runInPlace := fun i _ _ => if q.failOp == some i then none else q.lens.lookup i }
  let g : Graph := { nodes := q.nodes.map (fun n => n.1), captures := q.gcap }
  let run : Run Nat :=
    { g := g, consts := fun _ => 0
      borrowed := fun id => q.borrowed.lookup id
      owned := fun id => q.owned.lookup id
      usePool := q.pool, neverInPlace := q.nip }
  let caps0 : Nat → Option (Nat × Bool) := fun id => (q.caps.lookup id).join
  let res := runPlan ops run caps0 q.plan q.outs
  statusOf q res.outcome ++ "|" ++
    joinWith ";" (res.steps.map showStep) ++ "|" ++
    joinWith "," (res.outs.map (fun p => s!"{p.1}{if p.2 then "t" else "c"}"))

/-! `sym`: the same request with **symbolic values**: a value is `(hash of the term that defines
it, len)`.  The executor model runs on them (taking in place, moving by value, releasing as in
`run`), so value flow is exercised; the answer is the hashes of the returned outputs, which the
harness computes independently with its own naive evaluation.  `evalNaive` is run as well and a
difference from the executor is reported in the answer. -/

def symP : Nat := 2 ^ 61 - 1
def mix (a b : Nat) : Nat := (a * 1000003 + b + 12345) % symP

def symRun (q : Req) (i : Nat) (ins : List (Option (Nat × Nat))) (cs : List (Option (Nat × Nat))) :
    Option (List (Nat × Nat)) :=
  if q.failOp == some i then none
  else
    match q.lens.lookup i with
    | none => none
    | some ls =>
      let h0 := ins.foldl (fun h a => mix h (match a with | some v => v.1 | none => 3)) (mix 4 i)
      let h := cs.foldl (fun h a => mix h (match a with | some v => v.1 | none => 7)) h0
      some (ls.zipIdx.map (fun lk => (mix (mix h 5) lk.2, lk.1)))

/-- Put the taken values back at their positions. -/
def fillSet (ins : List (Option (Nat × Nat))) : List (Nat × (Nat × Nat)) → List (Option (Nat × Nat))
  | [] => ins
  | (p, v) :: ts => fillSet (ins.set p (some v)) ts

def handleSym (q : Req) : String :=
  let ops : Ops (Nat × Nat) :=
    { len := fun v => v.2
      inPlaceIdx := fun i => match q.info i with | some x => x.ipIdx | none => []
      isSubgraph := fun i => match q.info i with | some x => x.sub | none => false
      run := symRun q
      runInPlace := fun i taken ins => symRun q i (fillSet ins taken) [] }
  let g : Graph := { nodes := q.nodes.map (fun n => n.1), captures := q.gcap }
  let run : Run (Nat × Nat) :=
    { g := g, consts := fun id => (mix 2 id, 0)
      borrowed := fun id => (q.borrowed.lookup id).map (fun l => (mix 1 id, l))
      owned := fun id => (q.owned.lookup id).map (fun l => (mix 1 id, l))
      usePool := q.pool, neverInPlace := q.nip }
  let caps0 : Nat → Option ((Nat × Nat) × Bool) := fun _ => none
  let res := (runPlan ops run caps0 q.plan q.outs).outcome
  let naive := evalNaive ops run caps0 q.plan q.outs
  let show1 (o : Except Err (List (Nat × Nat))) : String :=
    match o with
    | .ok vs => "ok|" ++ joinWith "," (vs.map (fun v => toString v.1))
    | e => statusOf q e
  if show1 res == show1 naive then show1 res else show1 res ++ "|EVALNAIVE-DIFFERS:" ++ show1 naive

def handle (line : String) : String :=
  match words line with
  | "run" :: ws => match parseReq ws with | some q => handleRun q | none => "bad-request"
  | "sym" :: ws => match parseReq ws with | some q => handleSym q | none => "bad-request"
  | _ => "bad-request"

end RtenVerif.Driver.C02

/-- `model_C02`: reads request lines on stdin, prints the model's answer per line. -/
def main : IO Unit := RtenVerif.Driver.loopPure RtenVerif.Driver.C02.handle
