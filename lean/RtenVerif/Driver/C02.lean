import RtenVerif.Driver.Util
import RtenVerif.Model.Executor

/-! Line-protocol driver for C02: one request per observed `run_plan` call
(`run pool= nip= hascap= nodes= gcap= owned= borrowed= cap= outs= plan= lens= fail=`), answer
`<status>|<steps>|<outs>`.  Values are abstracted to their `len` (`V := Nat`). -/
namespace RtenVerif.Driver.C02
open RtenVerif.Driver RtenVerif.Graph RtenVerif.Executor

def field (ws : List String) (key : String) : Option String :=
  ws.findSome? (fun w => if w.startsWith (key ++ "=") then some (w.drop (key.length + 1)).toString else none)

def parseOptId (s : String) : Option (Option Nat) :=
  if s == "_" then some none else s.toNat?.map some

def parseOptList (s : String) : Option (List (Option Nat)) :=
  if s.isEmpty then some [] else (s.splitOn ",").mapM parseOptId

/-- Per-operator side table entry: in-place indices, subgraph flag. -/
structure OpInfo where
  ipIdx : List Nat
  sub : Bool

def parseNode (s : String) : Option (Node × Option OpInfo) :=
  if s == "v" then some (.value, none)
  else if s == "c" then some (.constant, none)
  else
    match s.splitOn "/" with
    | ["o", ins, outs, caps, ip, comm, sub] => do
      let ins ← parseOptList ins
      let outs ← parseOptList outs
      let caps ← parseNatList "," caps
      let ip ← parseNatList "," ip
      pure (.operator { inputs := ins, outputs := outs, captureIds := caps,
                        inPlace := !ip.isEmpty, commutative := comm == "1" },
            some { ipIdx := ip, sub := sub == "1" })
    | _ => none

def parsePairs (s : String) : Option (List (Nat × Nat)) :=
  if s.isEmpty then some [] else
    (s.splitOn ",").mapM (fun w =>
      match w.splitOn ":" with
      | [a, b] => do pure (← a.toNat?, ← b.toNat?)
      | _ => none)

def parseCaps (s : String) : Option (List (Nat × Option (Nat × Bool))) :=
  if s.isEmpty then some [] else
    (s.splitOn ",").mapM (fun w =>
      match w.splitOn ":" with
      | [a, l, t] => do
        let id ← a.toNat?
        if l == "_" then pure (id, none) else pure (id, some (← l.toNat?, t == "1"))
      | _ => none)

def parseLens (s : String) : Option (List (Nat × List Nat)) :=
  if s.isEmpty then some [] else
    (s.splitOn ";").mapM (fun w =>
      match w.splitOn ":" with
      | [a, ls] => do pure (← a.toNat?, ← parseNatList "." ls)
      | _ => none)

def showStep (t : StepTrace) : String :=
  s!"{t.op}:{b01 t.rip}:" ++ joinWith "," (t.taken.map (fun p => s!"{p.1}.{p.2}")) ++ ":" ++
    showNats "," t.byVal ++ ":" ++ showNats "," t.stored ++ ":" ++ showNats "," t.released

def showStatus : Except Err (List Nat) → String
  | .ok _ => "ok"
  | .error .planErr => "planerr"
  | .error (.opErr op) => s!"err@{op}"
  | .error (.panicAt op) => s!"panic@{op}"
  | .error .panicOut => "panic@out"

def handle (line : String) : String :=
  match words line with
  | "run" :: ws =>
    let r : Option String := do
      let pool ← field ws "pool"
      let nip ← field ws "nip"
      let nodesStr ← field ws "nodes"
      let nodes ← (if nodesStr.isEmpty then some [] else (nodesStr.splitOn ";").mapM parseNode)
      let gcap ← parseNatList "," (← field ws "gcap")
      let owned ← parsePairs (← field ws "owned")
      let borrowed ← parsePairs (← field ws "borrowed")
      let caps ← parseCaps (← field ws "cap")
      let outs ← parseNatList "," (← field ws "outs")
      let plan ← parseNatList "," (← field ws "plan")
      let lens ← parseLens (← field ws "lens")
      let fail ← field ws "fail"
      let failOp : Option Nat := if fail.startsWith "e" then (fail.drop 1).toString.toNat? else none
      -- `p<op>`: the operator itself panicked (abstract-operator observable, see harness)
      let panicOp : Option Nat := if fail.startsWith "p" then (fail.drop 1).toString.toNat? else none
      let failOp := if panicOp.isSome then panicOp else failOp
      let infos : List (Option OpInfo) := nodes.map (fun n => n.2)
      let info (i : Nat) : Option OpInfo := (infos[i]?).join
      let ops : Ops Nat :=
        { len := fun v => v
          inPlaceIdx := fun i => match info i with | some x => x.ipIdx | none => []
          isSubgraph := fun i => match info i with | some x => x.sub | none => false
          run := fun i _ _ => if failOp == some i then none else lens.lookup i
          runInPlace := fun i _ _ => if failOp == some i then none else lens.lookup i }
      let g : Graph := { nodes := nodes.map (fun n => n.1), captures := gcap }
      let run : Run Nat :=
        { g := g, consts := fun _ => 0
          borrowed := fun id => borrowed.lookup id
          owned := fun id => owned.lookup id
          usePool := pool == "1", neverInPlace := nip == "1" }
      let caps0 : Nat → Option (Nat × Bool) := fun id => (caps.lookup id).join
      let res := runPlan ops run caps0 plan outs
      let status := match res.outcome, panicOp with
        | .error (.opErr op), some p => if op == p then s!"panic@{op}" else showStatus res.outcome
        | o, _ => showStatus o
      pure (status ++ "|" ++
        joinWith ";" (res.steps.map showStep) ++ "|" ++
        joinWith "," (res.outs.map (fun p => s!"{p.1}{if p.2 then "t" else "c"}")))
    r.getD "bad-request"
  | _ => "bad-request"

end RtenVerif.Driver.C02

/-- `model_C02`: reads request lines on stdin, prints the model's answer per line. -/
def main : IO Unit := RtenVerif.Driver.loopPure RtenVerif.Driver.C02.handle
