import RtenVerif.Driver.Util
import RtenVerif.Model.BpeEncode

/-!
Line protocol for C28.

* `bpe V=<auto|tok:id,…> A=<alphabet> E=<suffix|-> M=<a+b,…|-> P=<piece,piece,…>`
  builds the tokenizer as `Bpe::new` does (auto = `build_vocab`, otherwise the supplied
  vocabulary; `A` = the single-byte tokens whose presence `Bpe::new` checks among those the
  harness did not add itself, `-` = none), then encodes every piece (`X=<hex,…>` instead of `P=`
  gives the pieces as hex bytes; `I=1` sets `ignore_merges`). `%` denotes the empty string.
  Answer: `ids=1,2;3;…` (one `;`-separated group per piece) | `err:merge` | `err:vocab`.
* `mrg M=<first.second.rank.merged,…|-> T=<id,id,…|->` runs `bpe_merge` on an explicit merge map.
  Answer: `ids=…`.
-/
namespace RtenVerif.Driver.C28
open RtenVerif.Driver RtenVerif.Bpe

def tok (s : String) : String := if s == "%" then "" else s

def field (ws : List String) (k : String) : Option String :=
  (ws.find? (fun w => w.startsWith (k ++ "="))).map (fun w => (w.drop (k.length + 1)).toString)

def parseList (s : String) : List String :=
  if s == "-" || s.isEmpty then [] else s.splitOn ","

def parseMerges (s : String) : Option (List (String × String)) :=
  (parseList s).mapM (fun e => match e.splitOn "+" with
    | [a, b] => some (tok a, tok b)
    | _ => none)

def parseVocab (s : String) : Option Vocab :=
  (parseList s).mapM (fun e => match e.splitOn ":" with
    | [a, b] => b.toNat?.map (fun i => (tok a, i))
    | _ => none)

def hexVal (c : Char) : Option Nat :=
  if '0' ≤ c ∧ c ≤ '9' then some (c.toNat - 48)
  else if 'a' ≤ c ∧ c ≤ 'f' then some (c.toNat - 87) else none

def parseHex : List Char → Option (List Nat)
  | [] => some []
  | [_] => none
  | h :: l :: rest => do
    let a ← hexVal h
    let b ← hexVal l
    let r ← parseHex rest
    pure ((a * 16 + b) :: r)

/-- Pieces as byte lists: `X=` hex-encoded (any bytes) or `P=` plain (UTF-8 bytes of the text). -/
def parsePieces (ws : List String) : Option (List (List Nat)) :=
  match field ws "X" with
  | some xS => (if xS.isEmpty then [""] else xS.splitOn ",").mapM (fun h => parseHex (tok h).toList)
  | none =>
    match field ws "P" with
    | some pS =>
      some ((if pS.isEmpty then [""] else pS.splitOn ",").map (fun p => (tok p).toUTF8.toList.map (·.toNat)))
    | none => none

def handleBpe (ws : List String) : String :=
  match field ws "V", field ws "A", field ws "E", field ws "M", parsePieces ws with
  | some vS, some aS, some eS, some mS, some pieces =>
    match parseMerges mS with
    | none => "bad-request"
    | some merges =>
      let eow : Option String := normEow (if eS == "-" then none else some (tok eS))
      let ign : Bool := field ws "I" == some "1"
      let vc? : Option Vocab := if vS == "auto" then some (buildVocabFull merges eow) else parseVocab vS
      match vc? with
      | none => "bad-request"
      | some vc =>
        match buildMergeMap (vDom vc) (vId vc) (· ++ ·) merges with
        | .error _ => "err:merge"
        | .ok m =>
          if (aS != "-" && aS.toList.any (fun c => !(vDom vc (String.singleton c))))
              || (vS == "auto" && missingByteEntry vc) then "err:vocab" else
          let outs := pieces.map (fun p =>
            if p.isEmpty then some [] else encodePieceBytes vc m eow ign p)
          if outs.any Option.isNone then "skip" else
          "ids=" ++ joinWith ";" (outs.map (fun o => showNats "," (o.getD [])))
  | _, _, _, _, _ => "bad-request"

/-- `tbl`: the 256 code points of `byte_to_char()`; `rank`: for id 0..255 the code point of the
single-byte token with that id in a vocabulary built by `build_vocab`. -/
def handleTbl : String := "cps=" ++ showNats "," ((List.range 256).map byteCp)

def handleRank : String :=
  "cps=" ++ showNats "," ((List.range 256).map (fun id =>
    match (List.range 256).find? (fun b => byteRank b == id) with
    | some b => byteCp b
    | none => 0))

def parseQuad (e : String) : Option ((Nat × Nat) × (Nat × Nat)) :=
  match (e.splitOn ".").mapM String.toNat? with
  | some [f, s, r, m] => some ((f, s), (r, m))
  | _ => none

def handleMrg (ws : List String) : String :=
  match field ws "M", field ws "T" with
  | some mS, some tS =>
    match (parseList mS).mapM parseQuad, (parseList tS).mapM String.toNat? with
    | some m, some t => "ids=" ++ showNats "," (bpeMerge m t)
    | _, _ => "bad-request"
  | _, _ => "bad-request"

def handle (line : String) : String :=
  match words line with
  | "bpe" :: ws => handleBpe ws
  | "mrg" :: ws => handleMrg ws
  | ["tbl"] => handleTbl
  | ["rank"] => handleRank
  | _ => "bad-request"

end RtenVerif.Driver.C28

/-- `model_C28` -/
def main : IO Unit := RtenVerif.Driver.loopPure RtenVerif.Driver.C28.handle
