import RtenVerif.Driver.Util
import RtenVerif.Model.Bpe

/-!
Line protocol for C28.

* `bpe V=<auto|tok:id,…> A=<alphabet> E=<suffix|-> M=<a+b,…|-> P=<piece,piece,…>`
  builds the tokenizer as `Bpe::new` does (auto = `build_vocab`, otherwise the supplied
  vocabulary; `A` = the single-byte tokens whose presence `Bpe::new` checks among those the
  harness did not add itself), then encodes every piece. `%` denotes the empty string.
  Answer: `ids=1,2;3;…` (one `;`-separated group per piece) | `err:merge` | `err:vocab`.
* `mrg M=<first.second.rank.merged,…|-> T=<id,id,…|->` runs `bpe_merge` on an explicit merge map.
  Answer: `ids=…`.
-/
namespace RtenVerif.Driver.C28
open RtenVerif.Driver RtenVerif.Bpe

def tok (s : String) : String := if s == "%" then "" else s

def field (ws : List String) (k : String) : Option String :=
  (ws.find? (fun w => w.startsWith (k ++ "="))).map (fun w => (w.drop (k.length + 1)).toString)

def parseList (s : String) : List String :=
  if s == "-" || s.isEmpty then [] else s.splitOn ","

def parseMerges (s : String) : Option (List (String × String)) :=
  (parseList s).mapM (fun e => match e.splitOn "+" with
    | [a, b] => some (tok a, tok b)
    | _ => none)

def parseVocab (s : String) : Option Vocab :=
  (parseList s).mapM (fun e => match e.splitOn ":" with
    | [a, b] => b.toNat?.map (fun i => (tok a, i))
    | _ => none)

def printable : List Char := (List.range 94).map (fun i => Char.ofNat (33 + i))

def handleBpe (ws : List String) : String :=
  match field ws "V", field ws "A", field ws "E", field ws "M", field ws "P" with
  | some vS, some aS, some eS, some mS, some pS =>
    match parseMerges mS with
    | none => "bad-request"
    | some merges =>
      let eow : Option String := if eS == "-" then none else some eS
      let vc? : Option Vocab := if vS == "auto" then some (buildVocabAuto printable merges eow) else parseVocab vS
      match vc? with
      | none => "bad-request"
      | some vc =>
        match buildMergeMap (vDom vc) (vId vc) (· ++ ·) merges with
        | .error _ => "err:merge"
        | .ok m =>
          if aS.toList.any (fun c => !(vDom vc (String.singleton c))) then "err:vocab" else
          let pieces := if pS.isEmpty then [""] else (pS.splitOn ",").map tok
          let outs := pieces.map (fun p =>
            if p.isEmpty then some [] else encodePiece vc m eow p)
          if outs.any Option.isNone then "skip" else
          "ids=" ++ joinWith ";" (outs.map (fun o => showNats "," (o.getD [])))
  | _, _, _, _, _ => "bad-request"

def parseQuad (e : String) : Option ((Nat × Nat) × (Nat × Nat)) :=
  match (e.splitOn ".").mapM String.toNat? with
  | some [f, s, r, m] => some ((f, s), (r, m))
  | _ => none

def handleMrg (ws : List String) : String :=
  match field ws "M", field ws "T" with
  | some mS, some tS =>
    match (parseList mS).mapM parseQuad, (parseList tS).mapM String.toNat? with
    | some m, some t => "ids=" ++ showNats "," (bpeMerge m t)
    | _, _ => "bad-request"
  | _, _ => "bad-request"

def handle (line : String) : String :=
  match words line with
  | "bpe" :: ws => handleBpe ws
  | "mrg" :: ws => handleMrg ws
  | _ => "bad-request"

end RtenVerif.Driver.C28

/-- `model_C28` -/
def main : IO Unit := RtenVerif.Driver.loopPure RtenVerif.Driver.C28.handle
