import RtenVerif.Driver.Util
import RtenVerif.Model.Pool

/-!
Line protocol of `model_C23` (stateful; one atomic step of the pool model per line).

```
new <min_size>                      -> ok            (fresh pool, fresh ledger)
<t> a <slot> <size> <align> <cap>   -> byp <id> <cap> | pend | panic      alloc: bypass test
<t> l [slot]                        -> hit <id> <cap> | miss | panic      alloc: critical section
<t> f [slot]                        -> fresh <id> <cap> | panic           alloc: fallback allocation
<t> d <slot>                        -> pend | rej <id> | panic            add: from_vec + size test
<t> p [slot]                        -> ok                                 add: critical section
                                       (the optional slot is informative only; the model uses the thread's pending entry)
<t> x <slot>                        -> free <id>                          holder drops the vec
<t> r <slot>                        -> pend | rej <id> | nobuf <id>       PoolRef drop
end                                 -> dropped <n>                        pool dropped
stat                                -> len=<n> allocs=<n> hits=<n>
```
`<id>` is the allocation ordinal, or `z` when the buffer's layout has size 0 (no real allocation,
so the implementation side has no pointer identity to report). A step that is not enabled in the
model answers `bad-op`.
-/
namespace RtenVerif.Driver.C23
open RtenVerif.Driver RtenVerif.Pool

def idz (id bytes : Nat) : String := if bytes == 0 then "z" else toString id

def showEv : Ev → String
  | .pend => "pend"
  | .bypass id cap bytes => s!"byp {idz id bytes} {cap}"
  | .hit id cap bytes => s!"hit {idz id bytes} {cap}"
  | .miss => "miss"
  | .fresh id cap bytes => s!"fresh {idz id bytes} {cap}"
  | .panic => "panic"
  | .rejected id bytes => s!"rej {idz id bytes}"
  | .pushed => "ok"
  | .freed id bytes => s!"free {idz id bytes}"
  | .noBuffer id bytes => s!"nobuf {idz id bytes}"
  | .poolDropped n => s!"dropped {n}"

def parseOp (ws : List String) : Option Op :=
  match ws with
  | [t, "a", slot, size, align, cap] => do
    pure (.allocStart (← t.toNat?) (← slot.toNat?) ⟨← size.toNat?, ← align.toNat?⟩ (← cap.toNat?))
  | [t, "l"] | [t, "l", _] => do pure (.allocLock (← t.toNat?))
  | [t, "f"] | [t, "f", _] => do pure (.allocFallback (← t.toNat?))
  | [t, "d", slot] => do pure (.addStart (← t.toNat?) (← slot.toNat?))
  | [t, "p"] | [t, "p", _] => do pure (.addPush (← t.toNat?))
  | [t, "x", slot] => do pure (.dropVec (← t.toNat?) (← slot.toNat?))
  | [t, "r", slot] => do pure (.poolRefDrop (← t.toNat?) (← slot.toNat?))
  | ["end"] => some .dropPool
  | _ => none

def handle (s : State) (line : String) : State × String :=
  if line.startsWith "#" then (s, "#")
  else
    match words line with
    | ["new", m] =>
      match m.toNat? with
      | some m => (init m, "ok")
      | none => (s, "bad-request")
    | ["stat"] => (s, s!"len={s.pool.length} allocs={s.allocCount} hits={s.hitCount}")
    | ws =>
      match parseOp ws with
      | none => (s, "bad-request")
      | some op =>
        match step s op with
        | none => (s, "bad-op")
        | some (s', ev) => (s', showEv ev)

end RtenVerif.Driver.C23

/-- `model_C23`: reads request lines on stdin, prints the model's answer per line. -/
def main : IO Unit := RtenVerif.Driver.loopLines RtenVerif.Driver.C23.handle (RtenVerif.Pool.init 128)
