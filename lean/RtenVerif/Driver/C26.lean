import RtenVerif.Driver.Util
import RtenVerif.Model.Graph
import RtenVerif.Model.Planner
import RtenVerif.Model.PlanCache
import RtenVerif.Driver.PlanCacheProto
/-!
Line protocol for C26.

Request: `<api> <ver> <opsOk> <nodes> <meta> <warm> <req>`
* `<api>`: `run`, `run_n`, `run_one` (all `Graph::run`) or `partial` (`Graph::partial_run`);
* `<ver>`: 1 = `CachedPlan::matches` as it stands, 0 = before the fix;
* `<opsOk>`: 1 = every operator kernel succeeds on the supplied values, 0 = some kernel errors;
* `<nodes>`: `;`-separated node descriptors in id order: `V`, `C`,
  `O/<inputs>/<outputs>/<captureIds>/<inPlace>/<deterministic>` (`,`-separated ids, `_` = None, `-` = empty);
* `<meta>`: `;`-separated per node: `-` or `<dtype|_>:<shape>` with shape `_` (undeclared), `.` (rank 0)
  or `,`-separated dims (`?` = symbolic);
* `<warm>`: `-` or `;`-separated requests issued through `run` before the tested one;
* a request is `<inputs>><outputs>`; inputs `,`-separated `id/dtype/flags/shape` (flags: `o` owned | `v` view,
  then `s` for a sequence; shape `.` or `x`-separated), outputs `,`-separated ids; `-` = empty list.
Answer: `ok`, `ok <ids|->` (partial), `err:<class>` or `panic`.

Also `assume <nodes>` (the graph hypotheses of the theorems, evaluated on the IR of a real graph or
subgraph → `ok` | `violated:<list>`) and `wrap <kind>` (Model-level wrappers, see `wrapAnswer`).
-/
namespace RtenVerif.Driver.C26
open RtenVerif.Driver RtenVerif.Graph RtenVerif.Planner RtenVerif.PlanCache RtenVerif.Driver.PlanCacheProto

def handle (line : String) : String :=
  match words line with
  | [api, ver, ok, ns, ms, warm, rq] =>
    match parseNodes ns, parseMetas ms, parseReqs warm, parseReq rq with
    | some nodes, some metas, some warm, some r =>
      let m : Mdl := { g := { nodes := nodes }, vmeta := metas }
      let v : Ver := if ver == "1" then .fixed else .orig
      let opsOk := ok == "1"
      if api == "partial" then showOutcome (partialRun m opsOk r.inputs r.outs)
      else
        -- warm-up calls always succeed or fail on their own; only the cache content matters
        let c := cacheAfter v m true warm none
        showOutcome (run v m opsOk c r.inputs r.outs).1
    | _, _, _, _ => "bad-request"
  | ["assume", ns] =>
    match parseNodes ns with
    | some nodes => assumeAnswer { nodes := nodes }
    | none => "bad-request"
  | ["wrap", kind] => wrapAnswer kind
  | _ => "bad-request"

end RtenVerif.Driver.C26

/-- `model_C26`: reads request lines on stdin, prints the model's answer per line. -/
def main : IO Unit := RtenVerif.Driver.loopPure RtenVerif.Driver.C26.handle
