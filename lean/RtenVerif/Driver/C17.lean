import RtenVerif.Driver.Util
import RtenVerif.Model.QuantGemm

/-!
`model_C17`: line protocol of `harness/gemm/src/bin/c17.rs`.

`g kern=<generic|avx2|avx512> sat=<0|1> path=<gemm|gemv> pre=<0..3> lay=<xy> cb= m= n= k= za= zb= c0= a= b=`
→ the `m×n` i32 output (run-length encoded like the request), `panic`, or `skip`.
-/
namespace RtenVerif.Driver.C17
open RtenVerif.Driver RtenVerif.QuantGemm

/-- `v` or `v*count` tokens separated by `,`; `_` is the empty list. -/
def parseRle (s : String) : Option (List Int) :=
  if s == "_" then some [] else
  (s.splitOn ",").foldr (fun tok acc => do
    let rest ← acc
    match tok.splitOn "*" with
    | [v] => do let x ← v.toInt?; pure (x :: rest)
    | [v, c] => do let x ← v.toInt?; let n ← c.toNat?; pure (List.replicate n x ++ rest)
    | _ => none) (some [])

def parseOptRle (s : String) : Option (Option (List Int)) :=
  if s == "-" then some none else (parseRle s).map some

/-- Run-length encoder identical to the harness' `rle` (runs of ≥ 3 equal values → `v*n`). -/
partial def showRle (xs : List Int) : String :=
  if xs.isEmpty then "_" else
  let rec go (l : List Int) (acc : List String) : List String :=
    match l with
    | [] => acc.reverse
    | x :: rest =>
      let run := (rest.takeWhile (· == x)).length + 1
      let rest' := rest.drop (run - 1)
      if run ≥ 3 then go rest' (s!"{x}*{run}" :: acc)
      else go rest' ((List.replicate run (toString x)) ++ acc)
  joinWith "," (go xs [])

def field (kvs : List (String × String)) (k : String) : Option String :=
  (kvs.find? (·.1 == k)).map (·.2)

def parseKv (w : String) : Option (String × String) :=
  match w.splitOn "=" with
  | [k, v] => some (k, v)
  | _ => none

def handleG (ws : List String) : Option String := do
  let kvs ← ws.mapM parseKv
  let kernS ← field kvs "kern"
  let sat := (← field kvs "sat") == "1"
  let path ← field kvs "path"
  let pre ← (← field kvs "pre").toNat?
  let lay ← field kvs "lay"
  let m ← (← field kvs "m").toNat?
  let n ← (← field kvs "n").toNat?
  let k ← (← field kvs "k").toNat?
  let za ← parseOptRle (← field kvs "za")
  let zb ← parseOptRle (← field kvs "zb")
  let c0 ← parseOptRle (← field kvs "c0")
  let a ← parseRle (← field kvs "a")
  let b ← parseRle (← field kvs "b")
  if a.length != m * k || b.length != k * n then none
  let preA := pre % 2 == 1
  let preB := pre / 2 % 2 == 1
  let kern := if kernS == "generic" then Kern.generic else Kern.simd
  -- depth block size: `depth_block_size::<i8>` = min(1024, K) for gemm; gemv chunks K by 512 if
  -- B has unit row stride, else by 8.
  let layB := (lay.toList.getD 1 'r')
  let bKind : BKind :=
    if layB == 't' || (layB == 'r' && n == 1) then .unitRowStride
    else if layB == 's' then .general else .unitColStride
  let isGemv := path == "gemv"
  let kc := if isGemv then (if bKind == .unitRowStride then 512 else 8) else 1024
  let lanes := if kernS == "avx512" then 64 else 32
  let cb ← (← field kvs "cb").toNat?
  let r : Request := { kern, sat, kc, gemv := isGemv, bKind, lanes, cb, preA, preB, m, n, k,
                       za, zb, c0, a, b }
  return showRle (gemm r)

def handle (line : String) : String :=
  match words line with
  | "g" :: ws => (handleG ws).getD "bad-request"
  | _ => "bad-request"

end RtenVerif.Driver.C17

def main : IO Unit := RtenVerif.Driver.loopPure RtenVerif.Driver.C17.handle
