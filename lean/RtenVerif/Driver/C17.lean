import RtenVerif.Driver.Util
import RtenVerif.Model.QuantGemm
import RtenVerif.Model.QuantOps

/-!
`model_C17`: line protocol of `harness/gemm/src/bin/c17.rs`.

`g kern=<generic|avx2|avx512> sat=<0|1> path=<gemm|gemv> pre=<0..3> lay=<xy> cb= m= n= k= za= zb= c0= a= b=`
→ the `m×n` i32 output (run-length encoded like the request), `panic`, or `skip`.
-/
namespace RtenVerif.Driver.C17
open RtenVerif.Driver RtenVerif.QuantGemm RtenVerif.QuantOps

/-- `v` or `v*count` tokens separated by `,`; `_` is the empty list. -/
def parseRle (s : String) : Option (List Int) :=
  if s == "_" then some [] else
  (s.splitOn ",").foldr (fun tok acc => do
    let rest ← acc
    match tok.splitOn "*" with
    | [v] => do let x ← v.toInt?; pure (x :: rest)
    | [v, c] => do let x ← v.toInt?; let n ← c.toNat?; pure (List.replicate n x ++ rest)
    | _ => none) (some [])

def parseOptRle (s : String) : Option (Option (List Int)) :=
  if s == "-" then some none else (parseRle s).map some

/-- Run-length encoder identical to the harness' `rle` (runs of ≥ 3 equal values → `v*n`). -/
partial def showRle (xs : List Int) : String :=
  if xs.isEmpty then "_" else
  let rec go (l : List Int) (acc : List String) : List String :=
    match l with
    | [] => acc.reverse
    | x :: rest =>
      let run := (rest.takeWhile (· == x)).length + 1
      let rest' := rest.drop (run - 1)
      if run ≥ 3 then go rest' (s!"{x}*{run}" :: acc)
      else go rest' ((List.replicate run (toString x)) ++ acc)
  joinWith "," (go xs [])

def field (kvs : List (String × String)) (k : String) : Option String :=
  (kvs.find? (·.1 == k)).map (·.2)

def parseKv (w : String) : Option (String × String) :=
  match w.splitOn "=" with
  | [k, v] => some (k, v)
  | _ => none

def handleG (ws : List String) : Option String := do
  let kvs ← ws.mapM parseKv
  let kernS ← field kvs "kern"
  let sat := (← field kvs "sat") == "1"
  let path ← field kvs "path"
  let pre ← (← field kvs "pre").toNat?
  let lay ← field kvs "lay"
  let m ← (← field kvs "m").toNat?
  let n ← (← field kvs "n").toNat?
  let k ← (← field kvs "k").toNat?
  let za ← parseOptRle (← field kvs "za")
  let zb ← parseOptRle (← field kvs "zb")
  let c0 ← parseOptRle (← field kvs "c0")
  let a ← parseRle (← field kvs "a")
  let b ← parseRle (← field kvs "b")
  let preA := pre % 2 == 1
  let preB := pre / 2 % 2 == 1
  let kern := if kernS == "generic" then Kern.generic else Kern.simd
  -- depth block size: `depth_block_size::<i8>` = min(1024, K) for gemm; gemv chunks K by 512 if
  -- B has unit row stride, else by 8.
  let layB := (lay.toList.getD 1 'r')
  let bKind : BKind :=
    if layB == 't' || (layB == 'r' && n == 1) then .unitRowStride
    else if layB == 's' then .general else .unitColStride
  let isGemv := path == "gemv"
  let kc := if isGemv then (if bKind == .unitRowStride then 512 else 8) else 1024
  let lanes := if kernS == "avx512" then 64 else 32
  let cb ← (← field kvs "cb").toNat?
  let r : Request := { kern, sat, kc, gemv := isGemv, bKind, lanes, cb, preA, preB, m, n, k,
                       za, zb, c0, a, b }
  match gemmChecked r (m * n) with
  | .ok out => return showRle out
  | .error .kSizeMismatch => return "err:KSizeMismatch"
  | .error .wrongQuantParamSize => return "err:WrongQuantParamSize"
  | .error .outputSizeMismatch => return "err:OutputSizeMismatch"

/-! ### Operator-level lines -/

def parseDt (s : String) : Option Dt :=
  if s == "u8" then some .u8 else if s == "i8" then some .i8 else none

def parseZp (s : String) : Option ZeroPoint :=
  if s == "-" then some .none
  else if s.startsWith "s:" then (s.drop 2).toString.toInt? |>.map .scalar
  else if s.startsWith "v:" then (parseRle (s.drop 2).toString).map .vec
  else none

def showShape (dims : List Nat) : String := joinWith "x" (dims.map toString)

def handleMmi (ws : List String) : Option String := do
  let kvs ← ws.mapM parseKv
  let da ← parseDt (← field kvs "da")
  let db ← parseDt (← field kvs "db")
  let batch ← (← field kvs "batch").toNat?
  let bb := (← field kvs "bb") == "1"
  let m ← (← field kvs "m").toNat?
  let k ← (← field kvs "k").toNat?
  let n ← (← field kvs "n").toNat?
  let za ← parseZp (← field kvs "za")
  let zb ← parseZp (← field kvs "zb")
  let a ← parseRle (← field kvs "a")
  let b ← parseRle (← field kvs "b")
  let nb := if batch == 0 then 1 else batch
  let out := matMulInteger da db nb m k n bb za zb a b
  let shape := if batch == 0 then [m, n] else [batch, m, n]
  return s!"shape={showShape shape} {showRle out}"

def parseNats (s : String) : Option (List Nat) := (s.splitOn ",").mapM String.toNat?

def handleCvi (ws : List String) : Option String := do
  let kvs ← ws.mapM parseKv
  let dx ← parseDt (← field kvs "dx")
  let dw ← parseDt (← field kvs "dw")
  let nat (k : String) : Option Nat := do (← field kvs k).toNat?
  let pads ← parseNats (← field kvs "pads")
  let st ← parseNats (← field kvs "st")
  let dil ← parseNats (← field kvs "dil")
  let p : Conv := { n := ← nat "n", c := ← nat "c", h := ← nat "h", w := ← nat "w", o := ← nat "o",
                    kh := ← nat "kh", kw := ← nat "kw", groups := ← nat "g",
                    padT := pads.getD 0 0, padL := pads.getD 1 0, padB := pads.getD 2 0,
                    padR := pads.getD 3 0, sy := st.getD 0 1, sx := st.getD 1 1,
                    dy := dil.getD 0 1, dx := dil.getD 1 1 }
  let xz ← parseZp (← field kvs "xz")
  let wz ← parseZp (← field kvs "wz")
  let x ← parseRle (← field kvs "x")
  let wt ← parseRle (← field kvs "wt")
  let out := convInteger dw dx padFixed p wz (xz.at 0) x wt
  return s!"shape={showShape [p.n, p.o, p.outH, p.outW]} {showRle out}"

/-- `scale = 2^e` as a fraction. -/
def pow2Frac (e : Int) : Int × Int :=
  if e ≥ 0 then ((2 : Int) ^ e.toNat, 1) else (1, (2 : Int) ^ (-e).toNat)

def handleQl (ws : List String) : Option String := do
  let kvs ← ws.mapM parseKv
  let d ← parseDt (← field kvs "dt")
  let e ← (← field kvs "e").toInt?
  let zp ← (← field kvs "zp").toInt?
  let x ← parseRle (← field kvs "x")
  let (sn, sd) := pow2Frac e
  return showRle (x.map (quantizeLinear d sn sd zp))

def handleDq (ws : List String) : Option String := do
  let kvs ← ws.mapM parseKv
  let zp ← (← field kvs "zp").toInt?
  let q ← parseRle (← field kvs "q")
  return showRle (q.map (dequantizeUnits zp))

/-- `r = 255 · 2^j` → `some j`. -/
def log2Of255Multiple (r : Int) : Option Nat :=
  if r ≤ 0 || r % 255 != 0 then none
  else
    let q := (r / 255).toNat
    let j := Nat.log2 q
    if 2 ^ j == q then some j else none

def handleDql (ws : List String) : Option String := do
  let kvs ← ws.mapM parseKv
  let e ← (← field kvs "e").toInt?
  let x ← parseRle (← field kvs "x")
  let r := dynamicQuantize x
  if r.range == 0 then
    return s!"scale_e=zero zp={r.zeroPoint} y={showRle r.y}"
  match log2Of255Multiple r.range with
  | none => return "skip"   -- `range / 255` is not a power of two: f32 arithmetic not exact
  | some j => return s!"scale_e={e + j} zp={r.zeroPoint} y={showRle r.y}"

def handleGerr (ws : List String) : Option String := do
  let kvs ← ws.mapM parseKv
  let nat (k : String) : Option Nat := do (← field kvs k).toNat?
  let optLen (k : String) : Option (Option Nat) := do
    let v ← field kvs k
    if v == "-" then pure none else (v.toNat?).map some
  match checkGemmArgs (← nat "m") (← nat "ka") (← nat "kb") (← nat "n") (← optLen "za") (← optLen "zb")
      (← nat "out") with
  | .ok () => return "ok"
  | .error .kSizeMismatch => return "err:KSizeMismatch"
  | .error .wrongQuantParamSize => return "err:WrongQuantParamSize"
  | .error .outputSizeMismatch => return "err:OutputSizeMismatch"

def handle (line : String) : String :=
  match words line with
  | "g" :: ws => (handleG ws).getD "bad-request"
  | "gerr" :: ws => (handleGerr ws).getD "bad-request"
  | "mmi" :: ws => (handleMmi ws).getD "bad-request"
  | "cvi" :: ws => (handleCvi ws).getD "bad-request"
  | "ql" :: ws => (handleQl ws).getD "bad-request"
  | "dq" :: ws => (handleDq ws).getD "bad-request"
  | "dql" :: ws => (handleDql ws).getD "bad-request"
  | "#" :: _ => "skip"
  | _ => "bad-request"

end RtenVerif.Driver.C17

def main : IO Unit := RtenVerif.Driver.loopPure RtenVerif.Driver.C17.handle
