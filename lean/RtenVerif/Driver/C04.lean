import RtenVerif.Driver.Util
import RtenVerif.Model.Graph
import RtenVerif.Model.Planner
import RtenVerif.Model.PartialRun
/-!
Line protocol for C04.

Request: `pr <own> <nodes> <S> <O> <rest>` (`prx …`: the same, the harness marks requests in
which a supplied id is also produced by an operator)
* `<nodes>`: `;`-separated node descriptors in id order: `V` (value), `C` (constant),
  `O/<inputs>/<outputs>/<tree>/<captureIds>` with `,`-separated ids and `_` for `None`; `<tree>` =
  own `is_deterministic` flags of the operator and of every operator nested in its subgraphs
  (`own.nsubgraphs(.nops(.tree)*)*`), from which the model computes the deep flag `DTree.deep`;
* `<S>` ids supplied to `partial_run`, `<O>` requested outputs, `<rest>` ids supplied to the
  second `run` in addition to the returned leaves (`,`-separated, `-` = empty);
* `<own>`: 1 = all supplied values (to `partial_run` and to the composed `run`) are owned, 0 = views.
`gp <nodes> <S> <O>`: `Graph::partial_run` on a graph built through the graph API (capture ids
`≥` number of nodes = capture names that do not resolve); answer `ids=<leaf ids|->`.
Answer: `ids=<leaf ids|-> final=<ok|err:class|panic>`, or `err:<class>` / `panic` when
`partial_run` itself fails.  Values are abstract (`Unit`), every operator succeeds: the answer
is the structural behaviour of `partial_run` followed by `run`.
-/
namespace RtenVerif.Driver.C04
open RtenVerif.Driver RtenVerif.Graph RtenVerif.Planner RtenVerif.PartialRun

def parseIds (s : String) : Option (List Nat) :=
  if s == "-" || s.isEmpty then some [] else (s.splitOn ",").mapM String.toNat?

def parseOptIds (s : String) : Option (List (Option Nat)) :=
  if s == "-" || s.isEmpty then some []
  else (s.splitOn ",").mapM (fun w => if w == "_" then some none else (w.toNat?).map some)

mutual
/-- `<tree>` in prefix-count encoding: `own.nsubgraphs(.nops(.tree)*)*`. -/
def parseTree : Nat → List Nat → Option (DTree × List Nat)
  | 0, _ => none
  | f + 1, own :: n :: rest =>
    match parseSubs f n rest with
    | some (subs, r) => some (.node (own != 0) subs, r)
    | none => none
  | _, _ => none
def parseSubs : Nat → Nat → List Nat → Option (List (List DTree) × List Nat)
  | _, 0, r => some ([], r)
  | 0, _, _ => none
  | f + 1, k + 1, nops :: r =>
    match parseOps f nops r with
    | some (ops, r') =>
      match parseSubs f k r' with
      | some (subs, r'') => some (ops :: subs, r'')
      | none => none
    | none => none
  | _, _, _ => none
def parseOps : Nat → Nat → List Nat → Option (List DTree × List Nat)
  | _, 0, r => some ([], r)
  | 0, _, _ => none
  | f + 1, k + 1, r =>
    match parseTree f r with
    | some (t, r') =>
      match parseOps f k r' with
      | some (ts, r'') => some (t :: ts, r'')
      | none => none
    | none => none
end

def parseTreeStr (s : String) : Option DTree :=
  match (s.splitOn ".").mapM String.toNat? with
  | some ns =>
    match parseTree (ns.length + 1) ns with
    | some (t, []) => some t
    | _ => none
  | none => none

def parseNode (s : String) : Option Node :=
  if s == "V" then some .value
  else if s == "C" then some .constant
  else match s.splitOn "/" with
    | ["O", i, o, d, c] => do
      let ins ← parseOptIds i
      let outs ← parseOptIds o
      let tree ← parseTreeStr d
      let caps ← parseIds c
      -- the IR's `deterministic` is the deep flag computed from the own flags
      pure (.operator { inputs := ins, outputs := outs, captureIds := caps,
                        deterministic := tree.deep })
    | _ => none

def parseNodes (s : String) : Option (List Node) :=
  if s == "-" then some [] else (s.splitOn ";").mapM parseNode

def showPlanErr : PlanError → String
  | .dupOutput => "err:dup-output"
  | .badOutput => "err:bad-output"
  | .dupInput => "err:dup-input"
  | .badInput => "err:bad-input"
  | .cycle => "err:cycle"
  | .missingInput => "err:missing-input"
  | .noSource => "err:no-source"
  | .outOfFuel => "diverges"

def showErr : RunErr → String
  | .plan e => showPlanErr e
  | .opNotFound => "err:plan-other"
  | .opError => "err:op"
  | .outputMismatch => "err:op"
  | .panic => "panic"

/-- Structural operator semantics: always succeeds with one `()` per output slot. -/
def unitSem (g : Graph) : Sem Unit Unit := fun _ id _ =>
  (getOp g id).map (fun op => op.outputs.map (fun _ => ()))

def showIds (p : List Nat) : String := if p.isEmpty then "-" else showNats "," p

def handle (line : String) : String :=
  match words line with
  | [cmd, own, ns, s, o, r] =>
    if cmd != "pr" && cmd != "prx" then "bad-request" else
    match parseNodes ns, parseIds s, parseIds o, parseIds r with
    | some nodes, some s, some outs, some rest =>
      let g : Graph := { nodes := nodes }
      let sv := s.map (fun i => (i, ()))
      let (views, owned) := if own == "1" then ([], sv) else (sv, [])
      match partialRun g (unitSem g) () (fun _ => ()) views owned outs with
      | .error e => showErr e
      | .ok leaves =>
        let finIn := leaves ++ rest.map (fun i => (i, ()))
        let fin :=
          if own == "1" then run g (unitSem g) () (fun _ => ()) [] finIn outs
          else run g (unitSem g) () (fun _ => ()) finIn [] outs
        "ids=" ++ showIds (leaves.map (fun p => p.1)) ++ " final=" ++
          (match fin with
           | .ok _ => "ok"
           | .error e => showErr e)
    | _, _, _, _ => "bad-request"
  | ["gp", ns, s, o] =>
    match parseNodes ns, parseIds s, parseIds o with
    | some nodes, some s, some outs =>
      let g : Graph := { nodes := nodes }
      match partialRun g (unitSem g) () (fun _ => ()) (s.map (fun i => (i, ()))) [] outs with
      | .error e => showErr e
      | .ok leaves => "ids=" ++ showIds (leaves.map (fun p => p.1))
    | _, _, _ => "bad-request"
  | _ => "bad-request"

end RtenVerif.Driver.C04

/-- `model_C04`: reads request lines on stdin, prints the model's answer per line. -/
def main : IO Unit := RtenVerif.Driver.loopPure RtenVerif.Driver.C04.handle
