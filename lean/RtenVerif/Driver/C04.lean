import RtenVerif.Driver.Util
import RtenVerif.Model.Graph
import RtenVerif.Model.Planner
import RtenVerif.Model.PartialRun
/-!
Line protocol for C04.

Request: `pr <own> <nodes> <S> <O> <rest>` (`prx …`: the same, the harness marks requests in
which a supplied id is also produced by an operator)
* `<nodes>`: `;`-separated node descriptors in id order: `V` (value), `C` (constant),
  `O/<inputs>/<outputs>/<deterministic>` with `,`-separated ids and `_` for `None`;
* `<S>` ids supplied to `partial_run`, `<O>` requested outputs, `<rest>` ids supplied to the
  second `run` in addition to the returned leaves (`,`-separated, `-` = empty);
* `<own>`: 1 = `S` is passed as owned values, 0 = as views.
Answer: `ids=<leaf ids|-> final=<ok|err:class|panic>`, or `err:<class>` / `panic` when
`partial_run` itself fails.  Values are abstract (`Unit`), every operator succeeds: the answer
is the structural behaviour of `partial_run` followed by `run`.
-/
namespace RtenVerif.Driver.C04
open RtenVerif.Driver RtenVerif.Graph RtenVerif.Planner RtenVerif.PartialRun

def parseIds (s : String) : Option (List Nat) :=
  if s == "-" || s.isEmpty then some [] else (s.splitOn ",").mapM String.toNat?

def parseOptIds (s : String) : Option (List (Option Nat)) :=
  if s == "-" || s.isEmpty then some []
  else (s.splitOn ",").mapM (fun w => if w == "_" then some none else (w.toNat?).map some)

def parseNode (s : String) : Option Node :=
  if s == "V" then some .value
  else if s == "C" then some .constant
  else match s.splitOn "/" with
    | ["O", i, o, d] => do
      let ins ← parseOptIds i
      let outs ← parseOptIds o
      pure (.operator { inputs := ins, outputs := outs, deterministic := d == "1" })
    | _ => none

def parseNodes (s : String) : Option (List Node) :=
  if s == "-" then some [] else (s.splitOn ";").mapM parseNode

def showPlanErr : PlanError → String
  | .dupOutput => "err:dup-output"
  | .badOutput => "err:bad-output"
  | .dupInput => "err:dup-input"
  | .badInput => "err:bad-input"
  | .cycle => "err:cycle"
  | .missingInput => "err:missing-input"
  | .noSource => "err:no-source"
  | .outOfFuel => "diverges"

def showErr : RunErr → String
  | .plan e => showPlanErr e
  | .opNotFound => "err:plan-other"
  | .opError => "err:op"
  | .outputMismatch => "err:op"
  | .panic => "panic"

/-- Structural operator semantics: always succeeds with one `()` per output slot. -/
def unitSem (g : Graph) : Sem Unit Unit := fun _ id _ =>
  (getOp g id).map (fun op => op.outputs.map (fun _ => ()))

def showIds (p : List Nat) : String := if p.isEmpty then "-" else showNats "," p

def handle (line : String) : String :=
  match words line with
  | [cmd, own, ns, s, o, r] =>
    if cmd != "pr" && cmd != "prx" then "bad-request" else
    match parseNodes ns, parseIds s, parseIds o, parseIds r with
    | some nodes, some s, some outs, some rest =>
      let g : Graph := { nodes := nodes }
      let sv := s.map (fun i => (i, ()))
      let (views, owned) := if own == "1" then ([], sv) else (sv, [])
      match partialRun g (unitSem g) () (fun _ => ()) views owned outs with
      | .error e => showErr e
      | .ok leaves =>
        let fin := run g (unitSem g) () (fun _ => ()) (leaves ++ rest.map (fun i => (i, ()))) [] outs
        "ids=" ++ showIds (leaves.map (fun p => p.1)) ++ " final=" ++
          (match fin with
           | .ok _ => "ok"
           | .error e => showErr e)
    | _, _, _, _ => "bad-request"
  | _ => "bad-request"

end RtenVerif.Driver.C04

/-- `model_C04`: reads request lines on stdin, prints the model's answer per line. -/
def main : IO Unit := RtenVerif.Driver.loopPure RtenVerif.Driver.C04.handle
