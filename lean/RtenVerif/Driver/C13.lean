import RtenVerif.Driver.Util
import RtenVerif.Model.InPlace
import RtenVerif.Model.InPlaceExec
import RtenVerif.Model.InPlaceView
import RtenVerif.Generated.InPlaceOps

namespace RtenVerif.Driver.C13
open RtenVerif.Driver RtenVerif.InPlace RtenVerif.FastBroadcast

/-- `-` = empty list, otherwise comma separated. -/
def parseShape (s : String) : Option (List Nat) :=
  if s == "-" then some [] else parseNatList "," s

def parseInts (s : String) : Option (List Int) :=
  if s == "-" || s == "e" then some [] else parseIntList "," s

def showShape (s : List Nat) : String := if s.isEmpty then "-" else showNats "," s
def showData (s : List Int) : String := if s.isEmpty then "-" else showInts "," s

/-- Value of `key=value` among the words. -/
def field (key : String) (ws : List String) : Option String :=
  ws.findSome? fun w => if w.startsWith (key ++ "=") then some (w.drop (key.length + 1)).toString else none

def handleCb (ws : List String) : String :=
  match (field "a" ws).bind parseShape, (field "b" ws).bind parseShape with
  | some a, some b =>
    let bs := match broadcastShapes a b with
      | some s => showShape s
      | none => "none"
    s!"can={b01 (canRunInPlace a b)} bs={bs}"
  | _, _ => "bad-request"

def handleBin (op : String) (ws : List String) : String :=
  match binFn op, (field "pos" ws).bind String.toNat?, (field "a" ws).bind parseShape,
      (field "b" ws).bind parseShape, (field "ad" ws).bind parseInts, (field "bd" ws).bind parseInts with
  | some f, some pos, some a, some b, some ad, some bd =>
    let A : Tens Int := ⟨a, ad⟩
    let B : Tens Int := ⟨b, bd⟩
    let (res, reuse) :=
      if hasInPlace op then
        (execInPlace f pos A B, if pos = 0 then reusesBuffer a b else reusesBuffer b a)
      else (binop f A B, false)
    match res with
    | none => "err"
    | some t =>
      let ip := if !hasInPlace op then "0" else if t.data.isEmpty then "-" else b01 reuse
      s!"ip={ip} shape={showShape t.shape} data={showData t.data}"
  | _, _, _, _, _, _ => "bad-request"

def handleLay (op : String) (ws : List String) : String :=
  match (field "in" ws).bind parseShape, field "arg" ws, field "az" ws with
  | some sh, some arg, some az =>
    let args : Option (List Int) := if arg == "-" then none else parseInts arg
    let res : Option (List Nat) :=
      match op with
      | "Reshape" => args.bind fun spec => resolveShape sh spec (az == "1")
      | "Flatten" => args.bind fun a => flattenedShape sh (a.headD 0)
      | "Squeeze" => squeezeShape sh args
      | "Unsqueeze" => args.bind fun a => unsqueezeShape sh a
      | _ => none
    match res with
    | some s => s!"shape={showShape s} same=1"
    | none => "err"
  | _, _, _ => "bad-request"

/-- `exec <op> a= b= own=<ab> same=<0|1>`: which input buffer the node's output reuses. -/
def handleExec (op : String) (ws : List String) : String :=
  match (field "a" ws).bind parseShape, (field "b" ws).bind parseShape, field "own" ws, field "same" ws with
  | some a, some b, some own, some same =>
    let ips : List Nat := if RtenVerif.Generated.InPlaceOps.inPlaceOps.contains op then [0] else []
    let comm := RtenVerif.Generated.InPlaceOps.commutativeOps.contains op
    let isSame := same == "1"
    let b := if isSame then a else b
    -- a value fed to both operands has reference count 2 (and the ownership of operand a)
    let ownA := own.startsWith "1"
    let ownB := if isSame then ownA else own.endsWith "1"
    -- result value through the executor model (operators with an i32 value model)
    let value : String :=
      match binFn op, (field "ad" ws).bind parseInts, (field "bd" ws).bind parseInts with
      | some f, some ad, some bd =>
        let A : Tens Int := ⟨a, ad⟩
        let B : Tens Int := ⟨b, if isSame then ad else bd⟩
        match graphExec f ips comm A B ownA ownB isSame with
        | some t => s!" shape={showShape t.shape} data={showData t.data}"
        | none => " err"
      | _, _, _ => ""
    match broadcastShapes a b with
    | none => "reuse=na" ++ value
    | some s =>
      if numel s == 0 then "reuse=na" ++ value
      else match graphReuse ips comm a b ownA ownB isSame with
        | some 0 => "reuse=a" ++ value
        | some _ => "reuse=b" ++ value
        | none => "reuse=none" ++ value
  | _, _, _, _ => "bad-request"

def parseDim (w : String) : Option (Nat × Nat) :=
  match w.splitOn ":" with
  | [a, b] => do let x ← a.toNat?; let y ← b.toNat?; pure (x, y)
  | _ => none

/-- `cc dims=<size:stride,…> cap= axis= add=`: `has_capacity(axis, size + add)`. -/
def handleCc (ws : List String) : String :=
  match field "dims" ws, (field "cap" ws).bind String.toNat?, (field "axis" ws).bind String.toNat?,
      (field "add" ws).bind String.toNat? with
  | some ds, some cap, some axis, some add =>
    match (ds.splitOn ",").mapM parseDim with
    | some dims =>
      let newSize := (RtenVerif.Layout.sizes dims).getD axis 0 + add
      s!"cap={b01 (RtenVerif.Layout.hasCapacity dims cap axis newSize)}"
    | none => "bad-request"
  | _, _, _, _ => "bad-request"

open RtenVerif.Layout in
def parseView (w : String) : Option View :=
  match w.splitOn "@" with
  | [b, ds] => do
    let base ← b.toNat?
    let dims ← if ds == "-" then some [] else (ds.splitOn ",").mapM parseDim
    pure ⟨base, 0, dims⟩
  | _ => none

open RtenVerif.Layout in
/-- `vip <op> a=<view> b=<view>`: `run_in_place` on a view-based owned operand. -/
def handleVip (op : String) (ws : List String) : String :=
  match binFn op, (field "a" ws).bind parseView, (field "b" ws).bind parseView with
  | some f, some a, some b =>
    let sa : Nat → Int := fun i => (i : Int) + 1
    let sb : Nat → Int := fun i => 100 * ((i : Int) + 1)
    let sha := sizes a.dims
    let shb := sizes b.dims
    if canRunInPlace sha shb then
      let t := tensOf a (binaryOpInPlaceView f a sa b sb)
      let ip := if t.data.isEmpty then "-" else "1"
      s!"ip={ip} shape={showShape t.shape} data={showData t.data}"
    else
      match binaryOp f a sa b sb with
      | some t => s!"ip={if t.data.isEmpty then "-" else "0"} shape={showShape t.shape} data={showData t.data}"
      | none => "err"
  | _, _, _ => "bad-request"

def handleCov (ws : List String) : String :=
  let names := match ws with
    | [w] => w.splitOn ","
    | _ => []
  let missing := RtenVerif.Generated.InPlaceOps.inPlaceOps.filter (fun n => !names.contains n)
  s!"missing={joinWith "," missing}"

def handle (line : String) : String :=
  match words line with
  | "cb" :: ws => handleCb ws
  | "bin" :: op :: ws => handleBin op ws
  | "lay" :: op :: ws => handleLay op ws
  | "exec" :: op :: ws => handleExec op ws
  | "cc" :: ws => handleCc ws
  | "vip" :: op :: ws => handleVip op ws
  | "cov" :: ws => handleCov ws
  | _ => "skip"

end RtenVerif.Driver.C13

/-- `model_C13`: reads request lines on stdin, prints the model's answer per line. -/
def main : IO Unit := RtenVerif.Driver.loopPure RtenVerif.Driver.C13.handle
