import RtenVerif.Driver.Util
import RtenVerif.Model.Sym

/-!
Line protocol of `model_C11` (see `harness/shape/src/bin/c11.rs`).

Expressions are written in prefix form, tokens separated by one space:
`+ - * / c M m B` (Add Sub Mul Div DivCeil Max Min Broadcast, two operands), `n` (Neg),
`#<int>` (Value), `u<k>` / `i<k>` (symbol `s<k>` with / without the `>= 0` assumption).

* `X <w|c> <expr> | a0,..,a5 | b0,..,b5 ...` — `w` = release (wrapping) arithmetic,
  `c` = overflow-checked arithmetic; each assignment lists the values of `s0..s5`
  (`_` = symbol absent).  Answer:
  `C=<canonicalize>|S=<simplify or panic>|D=<Debug string of S>|R=lo,hi|P=<0|1>|E=<orig>/<simp>;...`
* `Z <w|c> <expr>` — `simplify_canonical` applied directly.  Answer `S=...`.
* `F <expr> ; <expr>` — `remove_common_factors`.  Answer `<expr> ; <expr>`.
* `E <expr> ; <expr>` — `PartialEq` (`==`).  Answer `eq=<0|1>`.
* `G a b` — `gcd`.  `Q x y` — `div_ceil`.
-/
namespace RtenVerif.Driver.C11
open RtenVerif.Driver RtenVerif.Sym

def opOfTok : String → Option Op
  | "+" => some .add | "-" => some .sub | "*" => some .mul | "/" => some .div
  | "c" => some .divCeil | "M" => some .max | "m" => some .min | "B" => some .broadcast
  | _ => none

def tokOfOp : Op → String
  | .add => "+" | .sub => "-" | .mul => "*" | .div => "/"
  | .divCeil => "c" | .max => "M" | .min => "m" | .broadcast => "B"

def parseE : Nat → List String → Option (SymExpr × List String)
  | 0, _ => none
  | _, [] => none
  | f + 1, t :: ts =>
    if t == "n" then
      match parseE f ts with
      | some (a, r) => some (.neg a, r)
      | none => none
    else
      match opOfTok t with
      | some o =>
        match parseE f ts with
        | some (a, r) =>
          match parseE f r with
          | some (b, r') => some (.bin o a b, r')
          | none => none
        | none => none
      | none =>
        if t.startsWith "#" then (t.drop 1).toString.toInt?.map (fun v => (.value v, ts))
        else if t.startsWith "u" then (t.drop 1).toString.toNat?.map (fun v => (.var v true, ts))
        else if t.startsWith "i" then (t.drop 1).toString.toNat?.map (fun v => (.var v false, ts))
        else none

def parseExpr (ts : List String) : Option SymExpr :=
  match parseE (ts.length + 1) ts with
  | some (e, []) => some e
  | _ => none

def showE : SymExpr → String
  | .value x => "#" ++ toString x
  | .var n p => (if p then "u" else "i") ++ toString n
  | .neg a => "n " ++ showE a
  | .bin o a b => tokOfOp o ++ " " ++ showE a ++ " " ++ showE b

def arithOf : String → Option Arith
  | "w" => some Arith.wrap
  | "c" => some Arith.checked
  | _ => none

def parseEnv (s : String) : Option (List (Option Int)) :=
  (s.trimAscii.toString.splitOn ",").mapM (fun w =>
    if w == "_" then some none else w.toInt?.map some)

def envOf (vals : List (Option Int)) : Env := fun n => (vals[n]?).join

def showR : Except EvalErr Int → String
  | .ok v => toString v
  | .error .missingSymbol => "missing"
  | .error .divisionByZero => "div0"
  | .error .panic => "panic"

def handleX (A : Arith) (e : SymExpr) (envs : List String) : String :=
  let c := canonicalize e
  let s := simplify A e
  let sS := match s with | some s' => showE s' | none => "panic"
  let dS := match s with | some s' => dbg s' | none => "panic"
  let r := range e
  let evs := envs.map (fun es =>
    match parseEnv es with
    | none => "bad-env"
    | some vals =>
      let σ := envOf vals
      showR (eval A σ e) ++ "/" ++ (match s with | some s' => showR (eval A σ s') | none => "-"))
  s!"C={showE c}|S={sS}|D={dS}|R={r.1},{r.2}|P={b01 (isPositive e)}|E={joinWith ";" evs}"

def handle (line : String) : String :=
  match line.splitOn " | " with
  | [] => "bad-request"
  | hd :: envs =>
    match words hd with
    | "X" :: m :: ts =>
      match arithOf m, parseExpr ts with
      | some A, some e => handleX A e envs
      | _, _ => "bad-request"
    | "Z" :: m :: ts =>
      match arithOf m, parseExpr ts with
      | some A, some e => "S=" ++ (match simpC A e with | some s => showE s | none => "panic")
      | _, _ => "bad-request"
    | "F" :: ts =>
      match (joinWith " " ts).splitOn " ; " with
      | [l, r] =>
        match parseExpr (words l), parseExpr (words r) with
        | some l, some r => let p := rcf l r; showE p.1 ++ " ; " ++ showE p.2
        | _, _ => "bad-request"
      | _ => "bad-request"
    | "E" :: ts =>
      match (joinWith " " ts).splitOn " ; " with
      | [l, r] =>
        match parseExpr (words l), parseExpr (words r) with
        | some l, some r => "eq=" ++ b01 (beq l r)
        | _, _ => "bad-request"
      | _ => "bad-request"
    | ["G", a, b] =>
      match a.toInt?, b.toInt? with
      | some a, some b => (match gcdI a b with | some g => toString g | none => "none")
      | _, _ => "bad-request"
    | ["Q", a, b] =>
      match a.toInt?, b.toInt? with
      | some a, some b =>
        if b = 0 then "panic" else (match chk (divCeilI a b) with | some g => toString g | none => "panic")
      | _, _ => "bad-request"
    | _ => "bad-request"

end RtenVerif.Driver.C11

/-- `model_C11`: reads request lines on stdin, prints the model's answer per line. -/
def main : IO Unit := RtenVerif.Driver.loopPure RtenVerif.Driver.C11.handle
