import RtenVerif.Driver.Util
import RtenVerif.Model.SimdLoop

/-!
Line protocol of `model_C18` (answers of the Lean model of rten-simd's loops / lanes):

* `sched map <v> <n> …`, `sched iter <v> <n> …`, `sched apply <v> <u> <n> …`
    → `chunks=<active lanes per access, comma separated>` (or `panic`)
* `fold <fold|foldn|unroll<u>|nunroll<u>> <v> <sum|min|max> <init> <xs>` → lanes of the final
    accumulator of `Iter::fold` / `fold_n` (min;max) / `fold_unroll` / `fold_n_unroll`
* `emu <direct|avx2x8|avx2x16> <mask bits> <src cells>` → `load=` lanes of `emuLoad`, `store=` memory image
    after `emuStore` of `loaded+1` into cells holding -1, `idx=` the cells `emuAccess` dereferences
* `mask <v> <n> …`  → `first_n_mask` as a 0/1 string of `v` lanes
* `bmask <v> <n> …` → the AVX-512 bit-loop mask as a 0/1 string of `v` bits
* `writer <len> <op>…` with ops `v<k>` (write_vec, k lanes), `m<k>x<j>` (write_vecs), `s`
    → `ninit=<n> writes=<count> exact=<0|1>` or `panic`
* `row <ty> <op> <a>`  → op(a, b) for every b of the 8-bit type, comma separated
* `bin <ty> <op> <as> <bs>`, `un <ty> <op> <as>` → lane-wise results
* `lay <ty> <op> <as> [<bs>]` → whole-vector ops (interleave/concat/extend/narrow/sum)
Extra trailing tokens of the form `key=value` are ignored.
-/
namespace RtenVerif.Driver.C18
open RtenVerif.Driver RtenVerif.SimdLoop

def parseTy : String → Option LaneTy
  | "i8" => some i8 | "i16" => some i16 | "i32" => some i32
  | "u8" => some u8 | "u16" => some u16
  | _ => none

def showChunks (cs : List Chunk) : String :=
  "chunks=" ++ showNats "," (cs.map Chunk.count)

def bits01 (bs : List Bool) : String := String.join (bs.map b01)

def bI (b : Bool) : Int := if b then 1 else 0

/-- Binary lane op by name. -/
def binOp (t : LaneTy) : String → Option (Int → Int → Int)
  | "add" => some (laneAdd t)
  | "sub" => some (laneSub t)
  | "mul" => some (laneMul t)
  | "min" => some laneMin
  | "max" => some laneMax
  | "and" => some (laneBits t Nat.land)
  | "or" => some (laneBits t Nat.lor)
  | "xor" => some (laneBits t Nat.xor)
  | "eq" => some (fun a b => bI (a == b))
  | "gt" => some (fun a b => bI (decide (a > b)))
  | "ge" => some (fun a b => bI (decide (a ≥ b)))
  | "lt" => some (fun a b => bI (decide (a < b)))
  | "le" => some (fun a b => bI (decide (a ≤ b)))
  | "sel" => some (fun a b => laneSel (decide (wrapU 1 a = 1)) a b)
  | "muladd" => some (fun a b => laneAdd t (laneMul t a b) a)
  | _ => none

def unOp (t : LaneTy) (name : String) : Option (Int → Int) :=
  if name == "neg" then some (laneNeg t)
  else if name == "abs" then some (laneAbs t)
  else if name == "not" then some (laneNot t)
  else if name == "id" then some id
  else if name.startsWith "shl" then (name.drop 3).toString.toNat?.map (fun k => laneShl t k)
  else if name.startsWith "shr" then (name.drop 3).toString.toNat?.map (fun k => laneShr k)
  else if name == "sat_i16" then some (narrowSat i16)
  else if name == "sat_u8" then some (narrowSat u8)
  else none

def domain (t : LaneTy) : List Int :=
  (List.range (2 ^ t.w)).map (fun i => t.lo + Int.ofNat i)

def narrowDst (t : LaneTy) : Option LaneTy :=
  if t == i32 then some i16 else if t == i16 then some u8 else none

def parseWOp (s : String) : Option WOp :=
  if s == "s" then some .scalar
  else if s.startsWith "v" then (s.drop 1).toString.toNat?.map .vec
  else if s.startsWith "m" then
    match (s.drop 1).toString.splitOn "x" with
    | [a, b] => do let v ← a.toNat?; let k ← b.toNat?; pure (.vecs v k)
    | _ => none
  else none

def foldOp : String → Option (Int → Int → Int)
  | "sum" => some (laneAdd i32)
  | "min" => some laneMin
  | "max" => some laneMax
  | _ => none

def mmStep (a : Int × Int) (x : Int) : Int × Int := (laneMin a.1 x, laneMax a.2 x)
def mmMerge (a b : Int × Int) : Int × Int := (laneMin a.1 b.1, laneMax a.2 b.2)
def mmInit : Int × Int := (2147483647, -2147483648)

def showPairs (v : Nat) (r : Nat → Int × Int) : String :=
  showInts "," ((List.range v).map (fun j => (r j).1)) ++ ";" ++
    showInts "," ((List.range v).map (fun j => (r j).2))

/-- `fold <kind> <v> <op> <init> <xs>`: lanes of the final accumulator register. -/
def handleFold (kind : String) (v : Nat) (op : String) (init : Int) (xs : List Int) : String :=
  if kind == "foldn" then showPairs v (iterFold true mmStep 0 v xs (fun _ => mmInit))
  else if kind.startsWith "nunroll" then
    match (kind.drop 7).toString.toNat? with
    | some u => showPairs v (foldUnroll mmStep mmMerge 0 v u xs (fun _ => mmInit))
    | none => "bad-request"
  else match foldOp op with
    | none => "bad-request"
    | some f =>
      if kind == "fold" then
        showInts "," ((List.range v).map (iterFold true f 0 v xs (fun _ => init)))
      else if kind.startsWith "unroll" then
        match (kind.drop 6).toString.toNat? with
        | some u => showInts "," ((List.range v).map (foldUnroll f f 0 v u xs (fun _ => init)))
        | none => "bad-request"
      else "bad-request"

def isKv (s : String) : Bool := (s.splitOn "=").length ≥ 2

def handle (line : String) : String :=
  match (words line).filter (fun w => !isKv w) with
  | ["sched", "map", v, n] =>
    match v.toNat?, n.toNat? with
    | some v, some n => showChunks (simdMap v n)
    | _, _ => "bad-request"
  | ["sched", "iter", v, n] =>
    match v.toNat?, n.toNat? with
    | some v, some n => showChunks (simdIter v n)
    | _, _ => "bad-request"
  | ["sched", "apply", v, u, n] =>
    match v.toNat?, u.toNat?, n.toNat? with
    | some v, some u, some n =>
      match simdApply v u n with
      | some cs => showChunks cs
      | none => "panic"
    | _, _, _ => "bad-request"
  | ["fold", kind, v, op, init, xs] =>
    match v.toNat?, init.toInt?, parseIntList "," (if xs == "e" then "" else xs) with
    | some v, some init, some xs => handleFold kind v op init xs
    | _, _, _ => "bad-request"
  | ["emu", kind, bits, srcmem] =>
    -- masked load from `srcmem` (cells 0..len-1) then masked store of `loaded + 1` into a
    -- destination of the same length whose cells initially hold the sentinel -1
    let m := bits.toList.map (fun c => c == '1')
    let k? : Option EmuKind := if kind == "direct" then some .direct else if kind == "avx2x8" then some .avx2x8
      else if kind == "avx2x16" then some .avx2x16 else none
    match k?, parseIntList "," (if srcmem == "e" then "" else srcmem) with
    | some k, some src =>
      let mem : Nat → Int := fun a => src.getD a 0
      let loaded := emuLoad (0 : Int) mem m.length (emuBit k m) 0
      let touched := emuAccess m.length (emuBit k m) 0
      let image := emuStore (0 : Int) (fun _ => (-1 : Int)) m.length (emuBit k m) 0 (loaded.map (· + 1))
      s!"load={showInts "," loaded} store={showInts "," ((List.range src.length).map image)} idx={showNats "," touched}"
    | _, _ => "bad-request"
  | ["mask", v, n] =>
    match v.toNat?, n.toNat? with
    | some v, some n => bits01 (firstNMask v n)
    | _, _ => "bad-request"
  | ["bmask", v, n] =>
    match v.toNat?, n.toNat? with
    | some v, some n => bits01 ((List.range v).map (fun i => (bitLoopMask n).testBit i))
    | _, _ => "bad-request"
  | "writer" :: len :: ops =>
    match len.toNat?, ops.mapM parseWOp with
    | some len, some ops =>
      match wRun ⟨len, 0, []⟩ ops with
      | some s => s!"ninit={s.nInit} writes={s.writes.length} exact={b01 (s.writes == List.range s.nInit)}"
      | none => "panic"
    | _, _ => "bad-request"
  | ["row", ty, op, a] =>
    match parseTy ty, a.toInt? with
    | some t, some a =>
      match binOp t op with
      | some f => showInts "," ((domain t).map (f a))
      | none => "bad-request"
    | _, _ => "bad-request"
  | ["bin", ty, op, as, bs] =>
    match parseTy ty, parseIntList "," as, parseIntList "," bs with
    | some t, some as, some bs =>
      match binOp t op with
      | some f => showInts "," (List.zipWith f as bs)
      | none => "bad-request"
    | _, _, _ => "bad-request"
  | ["un", ty, op, as] =>
    match parseTy ty, parseIntList "," as with
    | some t, some as =>
      match unOp t op with
      | some f => showInts "," (as.map f)
      | none => "bad-request"
    | _, _ => "bad-request"
  | ["lay", ty, op, as] =>
    match parseTy ty, parseIntList "," as with
    | some t, some as =>
      if op == "extend_low" then showInts "," (extendLow as)
      else if op == "extend_high" then showInts "," (extendHigh as)
      else if op == "sum" then toString (laneSum t as)
      else "bad-request"
    | _, _ => "bad-request"
  | ["lay", ty, op, as, bs] =>
    match parseTy ty, parseIntList "," as, parseIntList "," bs with
    | some t, some as, some bs =>
      if op == "interleave_low" then showInts "," (interleaveLow as bs)
      else if op == "interleave_high" then showInts "," (interleaveHigh as bs)
      else if op == "concat_low" then showInts "," (concatLow as bs)
      else if op == "concat_high" then showInts "," (concatHigh as bs)
      else if op == "narrow_sat" then
        match narrowDst t with
        | some d => showInts "," (narrowSatVec d as bs)
        | none => "bad-request"
      else "bad-request"
    | _, _, _ => "bad-request"
  | _ => "bad-request"

end RtenVerif.Driver.C18

/-- `model_C18`: reads request lines on stdin, prints the model's answer per line. -/
def main : IO Unit := RtenVerif.Driver.loopPure RtenVerif.Driver.C18.handle
