import RtenVerif.Driver.Util
import RtenVerif.Model.Sampler

/-!
`model_C33` line protocol.

* `am <id>:<score> …` — `ArgMax::sample`; `<score>` is an integer (order-preserving image of
  the float) or `nan`.  Answer `id=<k>` or `panic` (no candidates).
* `mn t=<num> p=<num,…> c=<num,…>` — the private `multinomial` loop: draw `t`, probabilities
  `p`, and the trace `c` of the running float sum (`c[i] = fl(c[i-1] + p[i])`), from which the
  addition function is rebuilt.  Answer `some <idx>` or `none`.
* `ms t=… p=… c=… ids=<csv> [l=<keys>]` — `Multinomial::sample`.  Answer `id=<token>` or `panic`.
  With `l=` (logit keys: order-preserving integers, `ninf` for −∞) the answer is
  `id=<token> walk=<hit|end> asm=<ok|…>`: `walk` tells whether a cumulative sum exceeded the draw
  (`hit`) or the walk fell off the end (`end`), `asm` evaluates the softmax facts the theorems
  assume (`SoftmaxFacts`: non-negative, −∞ ↦ 0, exact sum within 2^-16 of 1, monotone in the
  logit) on the probabilities the implementation computed; the harness always answers `asm=ok`,
  so a violated assumption is reported as a disagreement, separately from property failures.

* `ms … p=nan c=nan ids=<csv>` — the softmax output is NaN (all logits −∞, NaN or +∞ logit):
  answer `id=<first id>` (`sampleNaN`).
* `seq <step> | <step> | …` with `<step>` = `t=<num|-> p=<nums> c=<nums> ids=<csv>` — one seeded
  sampler used for a sequence of inputs (`sampleSeq` with the draws as the RNG stream, `t=-` for
  an empty input, which must not consume a draw).  Answer `ids=<id|panic>,…`.

`<num>` is `<m>@<e>` = m·2^e (every finite f32 is of this form with e ≥ −149); all numbers
are put on the common scale 2^-200 so the model computes with exact integers.
-/
namespace RtenVerif.Driver.C33
open RtenVerif.Driver RtenVerif.Sampler

/-- The `multinomial` loop of the code under test (current tree). -/
def currentRule : Rule := .fixed

def parseNum (s : String) : Option Int :=
  match s.splitOn "@" with
  | [m, e] => do
    let m ← m.toInt?
    let e ← e.toInt?
    if e + 200 < 0 then none else pure (m * (2 : Int) ^ (e + 200).toNat)
  | _ => none

def parseNums (s : String) : Option (List Int) :=
  if s.isEmpty then some [] else (s.splitOn ",").mapM parseNum

def parseScore (s : String) : Option (Nat × Option Int) :=
  match s.splitOn ":" with
  | [i, v] => do
    let i ← i.toNat?
    if v == "nan" then pure (i, none) else do
      let v ← v.toInt?
      pure (i, some v)
  | _ => none

def field (key : String) (ws : List String) : Option String :=
  (ws.find? (·.startsWith (key ++ "="))).map (fun w => (w.drop (key.length + 1)).toString)

/-- Rebuild `cum_prob + prob` from the observed trace; exact addition elsewhere. -/
def addOf (table : List (Int × Int × Int)) (c p : Int) : Int :=
  match table.find? (fun t => t.1 == c && t.2.1 == p) with
  | some t => t.2.2
  | none => c + p

def mkTable : Int → List Int → List Int → List (Int × Int × Int)
  | prev, p :: ps, c :: cs => (prev, p, c) :: mkTable c ps cs
  | _, _, _ => []

def enumFrom : Nat → List Int → List (Nat × Int)
  | _, [] => []
  | i, p :: ps => (i, p) :: enumFrom (i + 1) ps

def zipIds : List Nat → List Int → List (Nat × Int)
  | i :: is, p :: ps => (i, p) :: zipIds is ps
  | _, _ => []

def parseKey (s : String) : Option (Option Int) :=
  if s == "ninf" then some none else s.toInt?.map some

def parseKeys (s : String) : Option (List (Option Int)) :=
  if s.isEmpty then some [] else (s.splitOn ",").mapM parseKey

/-- `SoftmaxFacts` (scale `2^200`, tolerance `2^-16`) evaluated by the model's own executable
predicate `softmaxFactsB` (sound: `softmaxFactsB_sound`); the remaining text only names the
first violated clause. -/
def softmaxFacts (ids : List Nat) (keys : List (Option Int)) (p : List Int) : String :=
  let one : Int := (2 : Int) ^ 200
  let tol : Int := (2 : Int) ^ 184
  let cs : List (Nat × Option Int × Int) := (ids.zip (keys.zip p))
  if softmaxFactsB cs one tol then "ok"
  else if p.any (· < 0) then "negative"
  else if (keys.zip p).any (fun kp => kp.1.isNone && kp.2 != 0) then "excluded-positive"
  else
    let total := sumProbs (cs.map (fun c => (c.1, c.2.2)))
    if total < one - tol || one + tol < total then "sum" else "not-monotone"

structure SeqStep where
  t : Option Int
  p : List Int
  c : List Int
  ids : List Nat

def parseStep (ws : List String) : Option SeqStep := do
  let tw ← field "t" ws
  let t ← if tw == "-" then some none else (parseNum tw).map some
  let p ← (field "p" ws).bind parseNums
  let c ← (field "c" ws).bind parseNums
  let ids ← (field "ids" ws).bind (parseNatList ",")
  if p.length != c.length || p.length != ids.length then none else
  pure { t := t, p := p, c := c, ids := ids }

def seqAnswer (steps : List SeqStep) : String :=
  let table := steps.flatMap (fun st => mkTable 0 st.p st.c)
  let draws := steps.filterMap (·.t)
  let next : List Int → Int × List Int := fun σ => (σ.headD 0, σ.tail)
  let outs := sampleSeq currentRule (addOf table) next
    (fun (_ : List Int) (st : SeqStep) => zipIds st.ids st.p) ⟨draws, []⟩ steps
  "ids=" ++ joinWith "," (outs.map (fun o => match o with
    | some r => toString r.1
    | none => "panic"))

def handle (line : String) : String :=
  match words line with
  | "am" :: cs =>
    match cs.mapM parseScore with
    | some l => match argMax l with
      | some r => s!"id={r.1}"
      | none => "panic"
    | none => "bad-request"
  | "mn" :: ws =>
    match (field "t" ws).bind parseNum, (field "p" ws).bind parseNums, (field "c" ws).bind parseNums with
    | some t, some p, some c =>
      if p.length != c.length then "bad-request" else
      match multinomial currentRule (addOf (mkTable 0 p c)) t (enumFrom 0 p) with
      | some r => s!"some {r.1}"
      | none => "none"
    | _, _, _ => "bad-request"
  | "seq" :: ws =>
    let groups := (joinWith " " ws).splitOn " | "
    match groups.mapM (fun g => parseStep (words g)) with
    | some steps => seqAnswer steps
    | none => "bad-request"
  | "ms" :: ws =>
    if field "p" ws == some "nan" then
      match (field "ids" ws).bind (parseNatList ",") with
      | some ids => match sampleNaN ids with
        | some i => s!"id={i}"
        | none => "panic"
      | none => "bad-request"
    else
    match (field "t" ws).bind parseNum, (field "p" ws).bind parseNums, (field "c" ws).bind parseNums,
          (field "ids" ws).bind (parseNatList ",") with
    | some t, some p, some c, some ids =>
      if p.length != c.length || p.length != ids.length then "bad-request" else
      let add := addOf (mkTable 0 p c)
      match sample currentRule add t (zipIds ids p) with
      | some r =>
        match (field "l" ws).bind parseKeys with
        | some keys =>
          if keys.length != p.length then "bad-request" else
          let walk := if (firstExceed add t 0 (zipIds ids p)).isSome then "hit" else "end"
          s!"id={r.1} walk={walk} asm={softmaxFacts ids keys p}"
        | none => s!"id={r.1}"
      | none => "panic"
    | _, _, _, _ => "bad-request"
  | _ => "bad-request"

end RtenVerif.Driver.C33

/-- `model_C33`: reads request lines on stdin, prints the model's answer per line. -/
def main : IO Unit := RtenVerif.Driver.loopPure RtenVerif.Driver.C33.handle
