import RtenVerif.Driver.Util
import RtenVerif.Model.Sampler

/-!
`model_C33` line protocol.

* `am <id>:<score> …` — `ArgMax::sample`; `<score>` is an integer (order-preserving image of
  the float) or `nan`.  Answer `id=<k>` or `panic` (no candidates).
* `mn t=<num> p=<num,…> c=<num,…>` — the private `multinomial` loop: draw `t`, probabilities
  `p`, and the trace `c` of the running float sum (`c[i] = fl(c[i-1] + p[i])`), from which the
  addition function is rebuilt.  Answer `some <idx>` or `none`.
* `ms t=… p=… c=… ids=<csv> [l=<keys>]` — `Multinomial::sample`.  Answer `id=<token>` or `panic`.
  With `l=` (logit keys: order-preserving integers, `ninf` for −∞) the answer is
  `id=<token> walk=<hit|end> asm=<ok|…>`: `walk` tells whether a cumulative sum exceeded the draw
  (`hit`) or the walk fell off the end (`end`), `asm` evaluates the softmax facts the theorems
  assume (`SoftmaxFacts`: non-negative, −∞ ↦ 0, exact sum within 2^-16 of 1, monotone in the
  logit) on the probabilities the implementation computed; the harness always answers `asm=ok`,
  so a violated assumption is reported as a disagreement, separately from property failures.

`<num>` is `<m>@<e>` = m·2^e (every finite f32 is of this form with e ≥ −149); all numbers
are put on the common scale 2^-200 so the model computes with exact integers.
-/
namespace RtenVerif.Driver.C33
open RtenVerif.Driver RtenVerif.Sampler

/-- The `multinomial` loop of the code under test (current tree). -/
def currentRule : Rule := .fixed

def parseNum (s : String) : Option Int :=
  match s.splitOn "@" with
  | [m, e] => do
    let m ← m.toInt?
    let e ← e.toInt?
    if e + 200 < 0 then none else pure (m * (2 : Int) ^ (e + 200).toNat)
  | _ => none

def parseNums (s : String) : Option (List Int) :=
  if s.isEmpty then some [] else (s.splitOn ",").mapM parseNum

def parseScore (s : String) : Option (Nat × Option Int) :=
  match s.splitOn ":" with
  | [i, v] => do
    let i ← i.toNat?
    if v == "nan" then pure (i, none) else do
      let v ← v.toInt?
      pure (i, some v)
  | _ => none

def field (key : String) (ws : List String) : Option String :=
  (ws.find? (·.startsWith (key ++ "="))).map (fun w => (w.drop (key.length + 1)).toString)

/-- Rebuild `cum_prob + prob` from the observed trace; exact addition elsewhere. -/
def addOf (table : List (Int × Int × Int)) (c p : Int) : Int :=
  match table.find? (fun t => t.1 == c && t.2.1 == p) with
  | some t => t.2.2
  | none => c + p

def mkTable : Int → List Int → List Int → List (Int × Int × Int)
  | prev, p :: ps, c :: cs => (prev, p, c) :: mkTable c ps cs
  | _, _, _ => []

def enumFrom : Nat → List Int → List (Nat × Int)
  | _, [] => []
  | i, p :: ps => (i, p) :: enumFrom (i + 1) ps

def zipIds : List Nat → List Int → List (Nat × Int)
  | i :: is, p :: ps => (i, p) :: zipIds is ps
  | _, _ => []

def parseKey (s : String) : Option (Option Int) :=
  if s == "ninf" then some none else s.toInt?.map some

def parseKeys (s : String) : Option (List (Option Int)) :=
  if s.isEmpty then some [] else (s.splitOn ",").mapM parseKey

/-- Executable check of `SoftmaxFacts` (scale `2^200`, tolerance `2^-16`). -/
def softmaxFacts (keys : List (Option Int)) (p : List Int) : String :=
  let one : Int := (2 : Int) ^ 200
  let tol : Int := (2 : Int) ^ 184
  let total := p.foldl (· + ·) 0
  let pairs := keys.zip p
  if p.any (· < 0) then "negative"
  else if pairs.any (fun kp => kp.1.isNone && kp.2 != 0) then "excluded-positive"
  else if total < one - tol || one + tol < total then "sum"
  else
    -- monotone ⇔ sorted by (logit, prob), the probabilities are non-decreasing
    let fin := pairs.filterMap (fun kp => kp.1.map (fun k => (k, kp.2)))
    let srt := fin.mergeSort (fun a b => a.1 < b.1 || (a.1 == b.1 && a.2 ≤ b.2))
    let rec go : List (Int × Int) → Bool
      | a :: b :: rest => if a.2 ≤ b.2 then go (b :: rest) else false
      | _ => true
    if go srt then "ok" else "not-monotone"

def handle (line : String) : String :=
  match words line with
  | "am" :: cs =>
    match cs.mapM parseScore with
    | some l => match argMax l with
      | some r => s!"id={r.1}"
      | none => "panic"
    | none => "bad-request"
  | "mn" :: ws =>
    match (field "t" ws).bind parseNum, (field "p" ws).bind parseNums, (field "c" ws).bind parseNums with
    | some t, some p, some c =>
      if p.length != c.length then "bad-request" else
      match multinomial currentRule (addOf (mkTable 0 p c)) t (enumFrom 0 p) with
      | some r => s!"some {r.1}"
      | none => "none"
    | _, _, _ => "bad-request"
  | "ms" :: ws =>
    match (field "t" ws).bind parseNum, (field "p" ws).bind parseNums, (field "c" ws).bind parseNums,
          (field "ids" ws).bind (parseNatList ",") with
    | some t, some p, some c, some ids =>
      if p.length != c.length || p.length != ids.length then "bad-request" else
      let add := addOf (mkTable 0 p c)
      match sample currentRule add t (zipIds ids p) with
      | some r =>
        match (field "l" ws).bind parseKeys with
        | some keys =>
          if keys.length != p.length then "bad-request" else
          let walk := if (firstExceed add t 0 (zipIds ids p)).isSome then "hit" else "end"
          s!"id={r.1} walk={walk} asm={softmaxFacts keys p}"
        | none => s!"id={r.1}"
      | none => "panic"
    | _, _, _, _ => "bad-request"
  | _ => "bad-request"

end RtenVerif.Driver.C33

/-- `model_C33`: reads request lines on stdin, prints the model's answer per line. -/
def main : IO Unit := RtenVerif.Driver.loopPure RtenVerif.Driver.C33.handle
