import RtenVerif.Driver.Util
import RtenVerif.Model.Sampler

/-!
`model_C33` line protocol.

* `am <id>:<score> …` — `ArgMax::sample`; `<score>` is an integer (order-preserving image of
  the float) or `nan`.  Answer `id=<k>` or `panic` (no candidates).
* `mn t=<num> p=<num,…> c=<num,…>` — the private `multinomial` loop: draw `t`, probabilities
  `p`, and the trace `c` of the running float sum (`c[i] = fl(c[i-1] + p[i])`), from which the
  addition function is rebuilt.  Answer `some <idx>` or `none`.
* `ms t=… p=… c=… ids=<csv>` — `Multinomial::sample`.  Answer `id=<token>` or `panic`.

`<num>` is `<m>@<e>` = m·2^e (every finite f32 is of this form with e ≥ −149); all numbers
are put on the common scale 2^-200 so the model computes with exact integers.
-/
namespace RtenVerif.Driver.C33
open RtenVerif.Driver RtenVerif.Sampler

/-- The `multinomial` loop of the code under test (current tree). -/
def currentRule : Rule := .fixed

def parseNum (s : String) : Option Int :=
  match s.splitOn "@" with
  | [m, e] => do
    let m ← m.toInt?
    let e ← e.toInt?
    if e + 200 < 0 then none else pure (m * (2 : Int) ^ (e + 200).toNat)
  | _ => none

def parseNums (s : String) : Option (List Int) :=
  if s.isEmpty then some [] else (s.splitOn ",").mapM parseNum

def parseScore (s : String) : Option (Nat × Option Int) :=
  match s.splitOn ":" with
  | [i, v] => do
    let i ← i.toNat?
    if v == "nan" then pure (i, none) else do
      let v ← v.toInt?
      pure (i, some v)
  | _ => none

def field (key : String) (ws : List String) : Option String :=
  (ws.find? (·.startsWith (key ++ "="))).map (fun w => (w.drop (key.length + 1)).toString)

/-- Rebuild `cum_prob + prob` from the observed trace; exact addition elsewhere. -/
def addOf (table : List (Int × Int × Int)) (c p : Int) : Int :=
  match table.find? (fun t => t.1 == c && t.2.1 == p) with
  | some t => t.2.2
  | none => c + p

def mkTable : Int → List Int → List Int → List (Int × Int × Int)
  | prev, p :: ps, c :: cs => (prev, p, c) :: mkTable c ps cs
  | _, _, _ => []

def enumFrom : Nat → List Int → List (Nat × Int)
  | _, [] => []
  | i, p :: ps => (i, p) :: enumFrom (i + 1) ps

def zipIds : List Nat → List Int → List (Nat × Int)
  | i :: is, p :: ps => (i, p) :: zipIds is ps
  | _, _ => []

def handle (line : String) : String :=
  match words line with
  | "am" :: cs =>
    match cs.mapM parseScore with
    | some l => match argMax l with
      | some r => s!"id={r.1}"
      | none => "panic"
    | none => "bad-request"
  | "mn" :: ws =>
    match (field "t" ws).bind parseNum, (field "p" ws).bind parseNums, (field "c" ws).bind parseNums with
    | some t, some p, some c =>
      if p.length != c.length then "bad-request" else
      match multinomial currentRule (addOf (mkTable 0 p c)) t (enumFrom 0 p) with
      | some r => s!"some {r.1}"
      | none => "none"
    | _, _, _ => "bad-request"
  | "ms" :: ws =>
    match (field "t" ws).bind parseNum, (field "p" ws).bind parseNums, (field "c" ws).bind parseNums,
          (field "ids" ws).bind (parseNatList ",") with
    | some t, some p, some c, some ids =>
      if p.length != c.length || p.length != ids.length then "bad-request" else
      match sample currentRule (addOf (mkTable 0 p c)) t (zipIds ids p) with
      | some r => s!"id={r.1}"
      | none => "panic"
    | _, _, _, _ => "bad-request"
  | _ => "bad-request"

end RtenVerif.Driver.C33

/-- `model_C33`: reads request lines on stdin, prints the model's answer per line. -/
def main : IO Unit := RtenVerif.Driver.loopPure RtenVerif.Driver.C33.handle
