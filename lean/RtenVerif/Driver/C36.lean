import RtenVerif.Driver.Util
import RtenVerif.Model.Contours
import RtenVerif.Model.FillIter

/-!
Line protocol for C36.

* `fc <e|l> <rows> <cols> <bits>` — `find_contours` of the row-major 0/1 mask (`-` if empty) in
  External / List mode.  Answer: contours `y,x;y,x|y,x;…` (`-` if none) or `panic`/`nofuel`.
* `line <h> <w> <y0> <x0> <y1> <x1>` — `draw_line(.., width 1)`;
  `fill <h> <w> <t> <l> <b> <r>` — `fill_rect`; `stroke <h> <w> <t> <l> <b> <r> <sw>` —
  `stroke_rect`.  Answer: sorted set of written pixels `y,x;…` (`-` if none) then ` panic=<0|1>`.
* `line0 <h> <w> <y0> <x0> <y1> <x1>` — `draw_line` with width 0 (draws nothing).
* `fillit <pts>` — `Polygon::fill_iter()` of the polygon `y,x;…` (`-` if empty).  Answer: the
  yielded pixels in order (`-` if none) then ` done=<0|1>` (1 = finished within the fuel
  `area of the bounding rect + 1`).
* `wline <h> <w> <corners>` — `draw_line` with width > 1, given the four integer corners of the
  rotated rect as the code computes them; `poly <h> <w> <pts>` — `draw_polygon` with width 1.
  Answer as for `line`.
* lines starting with `#` are not compared (`skip`).
-/
namespace RtenVerif.Driver.C36
open RtenVerif.Driver RtenVerif.Contours

def showPt (p : Pt) : String := s!"{p.1},{p.2}"

def showPts (ps : List Pt) : String :=
  if ps.isEmpty then "-" else joinWith ";" (ps.map showPt)

def ptLe (a b : Pt) : Bool := a.1 < b.1 || (a.1 == b.1 && a.2 ≤ b.2)

def sortDedup (ps : List Pt) : List Pt :=
  (ps.mergeSort ptLe).eraseDups

def showWrites (r : List Pt × Bool) : String :=
  s!"{showPts (sortDedup r.1)} panic={b01 r.2}"

def handleFc (mode rows cols bits : String) : String :=
  match rows.toNat?, cols.toNat? with
  | some r, some c =>
    let mask : List Bool := if bits == "-" then [] else bits.toList.map (· == '1')
    match findContours r c mask (mode == "e") with
    | .ok cs => if cs.isEmpty then "-" else joinWith "|" (cs.map showPts)
    | .panic => "panic"
    | .nofuel => "nofuel"
  | _, _ => "bad-request"

def parsePt (w : String) : Option Pt :=
  match w.splitOn "," with
  | [a, b] => do let y ← a.toInt?; let x ← b.toInt?; pure (y, x)
  | _ => none

def parsePts (s : String) : Option (List Pt) :=
  if s == "-" then some [] else (s.splitOn ";").mapM parsePt

def handle (line : String) : String :=
  if line.startsWith "#" then "skip" else
  match words line with
  | ["fc", mode, rows, cols, bits] => handleFc mode rows cols bits
  | "line" :: args =>
    match args.mapM String.toInt? with
    | some [h, w, y0, x0, y1, x1] => showWrites (drawLine1 h w (y0, x0) (y1, x1))
    | _ => "bad-request"
  | "line0" :: _ => "- panic=0"  -- `if width == 0 { return; }`
  | "fill" :: args =>
    match args.mapM String.toInt? with
    | some [h, w, t, l, b, r] => showWrites (fillRect h w t l b r)
    | _ => "bad-request"
  | "stroke" :: args =>
    match args.mapM String.toInt? with
    | some [h, w, t, l, b, r, sw] => showWrites (strokeRect h w t l b r sw)
    | _ => "bad-request"
  | ["fillit", ptsW] =>
    match parsePts ptsW with
    | some pts => let r := fillIter pts; s!"{showPts r.1} done={b01 r.2}"
    | none => "bad-request"
  | "wline" :: hW :: wW :: ptsW :: _ =>
    match hW.toInt?, wW.toInt?, parsePts ptsW with
    | some h, some w, some cs => showWrites (drawWideLine h w cs)
    | _, _, _ => "bad-request"
  | ["poly", hW, wW, ptsW] =>
    match hW.toInt?, wW.toInt?, parsePts ptsW with
    | some h, some w, some pts => showWrites (drawPolygon1 h w (polyEdges pts))
    | _, _, _ => "bad-request"
  | _ => "bad-request"

end RtenVerif.Driver.C36

/-- `model_C36`: reads request lines on stdin, prints the model's answer per line. -/
def main : IO Unit := RtenVerif.Driver.loopPure RtenVerif.Driver.C36.handle
