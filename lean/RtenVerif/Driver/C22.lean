import RtenVerif.Driver.Util
import RtenVerif.Model.Graph
import RtenVerif.Model.Planner
import RtenVerif.Model.PlanCache
import RtenVerif.Driver.PlanCacheProto
/-!
Line protocol for C22 (syntax of nodes / meta / requests: `Driver/PlanCacheProto.lean`).

* `call <api> <opsOk> <nodes> <meta> <req>` — one of the concurrent calls.  The model answers with
  the outcome of the call made **alone on a freshly loaded model** (`runAlone … none`); by C22.T2
  this is what every interleaving must give.  Answer: `ok`, `ok <ids|->`, `err:<class>`, `panic`.
* `locks <nodes> <entries>` — the plan-cache critical sections of one round in the order in which
  the mutex was taken (logged by the `cfg(rten_verif)` hook), `;`-separated `<ids>><ids>` (inputs,
  outputs) starting from a cold cache.  The model replays `get_cached_plan` in that order and
  answers with one letter per entry: `h` (cache hit) or `m` (miss → `create_plan`, replace on success).
* `slocks <graphs> <entries>` — the same for the plan caches of the `If`/`Loop` body graphs of the
  round's model (`is_subgraph = true`): `<graphs>` = `@`-separated `<nodes>~<captureIds>`, graph k (from 1)
  in that list; `<entries>` = `;`-separated `<k>:<ids>><ids>` in lock order; replayed with `lockTrace`.
* `assume <nodes>` — the graph hypotheses of the theorems on a real graph's IR → `ok` | `violated:<list>`.
-/
namespace RtenVerif.Driver.C22
open RtenVerif.Driver RtenVerif.Graph RtenVerif.Planner RtenVerif.PlanCache RtenVerif.Driver.PlanCacheProto

def parseEntry (s : String) : Option (List Nat × List Nat) :=
  match s.splitOn ">" with
  | [i, o] => do
    let ins ← parseIds i
    let outs ← parseIds o
    pure (ins, outs)
  | _ => none

/-- `<nodes>~<captures>` of one `If`/`Loop` body graph. -/
def parseSubgraph (s : String) : Option Graph :=
  match s.splitOn "~" with
  | [ns, cs] => do
    let nodes ← parseNodes ns
    let caps ← parseIds cs
    pure { nodes := nodes, captures := caps }
  | _ => none

/-- `<family index>:<ins>><outs>`. -/
def parseSubEntry (s : String) : Option LockEv :=
  match s.splitOn ":" with
  | [k, e] => do
    let gi ← k.toNat?
    let (ins, outs) ← parseEntry e
    pure { gi := gi, ins := ins, outs := outs }
  | _ => none

/-- Replay the critical sections in lock order. -/
def replay (g : Graph) : List (List Nat × List Nat) → Option CachedPlan → List Char → List Char
  | [], _, acc => acc.reverse
  | (ins, outs) :: rest, c, acc =>
    let hit := match c with
      | some cp => cp.matches .fixed ins outs
      | none => false
    replay g rest (getCachedPlan .fixed g false c ins outs).2 ((if hit then 'h' else 'm') :: acc)

def handle (line : String) : String :=
  match words line with
  | ["call", api, ok, ns, ms, rq] =>
    match parseNodes ns, parseMetas ms, parseReq rq with
    | some nodes, some metas, some r =>
      let m : Mdl := { g := { nodes := nodes }, vmeta := metas }
      let k : Call := { isPartial := api == "partial", req := r, opsOk := ok == "1" }
      showOutcome (runAlone .fixed m k none)
    | _, _, _ => "bad-request"
  | ["locks", ns, es] =>
    match parseNodes ns, (if es == "-" then some [] else (es.splitOn ";").mapM parseEntry) with
    | some nodes, some entries =>
      let r := replay { nodes := nodes } entries none []
      if r.isEmpty then "-" else String.ofList r
    | _, _ => "bad-request"
  | ["assume", ns] =>
    match parseNodes ns with
    | some nodes => assumeAnswer { nodes := nodes }
    | none => "bad-request"
  | ["slocks", gs, es] =>
    -- family index 0 (top-level graph) is not used by these entries
    match (gs.splitOn "@").mapM parseSubgraph, (if es == "-" then some [] else (es.splitOn ";").mapM parseSubEntry) with
    | some subs, some entries =>
      let graphs : List Graph := { nodes := [] } :: subs
      let r := lockTrace graphs entries (graphs.map (fun _ => none))
      if r.isEmpty then "-" else String.ofList r
    | _, _ => "bad-request"
  | _ => "bad-request"

end RtenVerif.Driver.C22

/-- `model_C22`: reads request lines on stdin, prints the model's answer per line. -/
def main : IO Unit := RtenVerif.Driver.loopPure RtenVerif.Driver.C22.handle
