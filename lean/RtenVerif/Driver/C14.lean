import RtenVerif.Driver.Util
import RtenVerif.Model.FastBroadcast
import RtenVerif.Model.InPlace
import RtenVerif.Model.BinaryDispatch
import RtenVerif.Model.ReduceDispatch
import RtenVerif.Model.BlockedCopy
import RtenVerif.Model.Im2Col
import RtenVerif.Model.InPlaceView
import RtenVerif.Generated.RegistryOps

namespace RtenVerif.Driver.C14
open RtenVerif.Driver RtenVerif.FastBroadcast

def parseShape (s : String) : Option (List Nat) :=
  if s == "-" then some [] else parseNatList "," s

def field (key : String) (ws : List String) : Option String :=
  ws.findSome? fun w => if w.startsWith (key ++ "=") then some (w.drop (key.length + 1)).toString else none

open RtenVerif.Layout in
/-- `<base>@<size:stride,…>` (`-` = rank 0). -/
def parseView (w : String) : Option View :=
  match w.splitOn "@" with
  | [b, ds] => do
    let base ← b.toNat?
    let dims ← if ds == "-" then some [] else (ds.splitOn ",").mapM (fun d =>
      match d.splitOn ":" with
      | [x, y] => do let a ← x.toNat?; let c ← y.toNat?; pure (a, c)
      | _ => none)
    pure ⟨base, 0, dims⟩
  | _ => none

def showShape (s : List Nat) : String := if s.isEmpty then "-" else showNats "," s
def showData (s : List Int) : String := if s.isEmpty then "-" else showInts "," s

def showTens (t : RtenVerif.InPlace.Tens Int) : String := s!"shape={showShape t.shape} data={showData t.data}"

def wrap32 := RtenVerif.InPlace.wrap32

open RtenVerif.Layout in
def handleBop (op : String) (ws : List String) : String :=
  match (field "a" ws).bind parseView, (field "b" ws).bind parseView with
  | some a, some b =>
    let f : Int → Int → Int := match op with
      | "Add" => fun x y => wrap32 (x + y)
      | "Sub" => fun x y => wrap32 (x - y)
      | _ => fun x y => wrap32 (x * y)
    match binaryOp f a (fun i => (i : Int) + 1) b (fun i => 100 * ((i : Int) + 1)) with
    | some t => showTens t
    | none => "err"
  | _, _ => "bad-request"

open RtenVerif.Layout in
def handleUop (ws : List String) : String :=
  match (field "a" ws).bind parseView with
  | some a => showTens (unaryOp (fun x => wrap32 (-x)) a (fun i => (i : Int) + 1))
  | none => "bad-request"

open RtenVerif.Layout in
/-- `ti ins=<view>[|<view>] specs=<idx>:<perm>;…` (`r` = reverse, `e` = empty permutation):
`TransformInputs` wrappers around Identity (one input) or Sub (two inputs). -/
def handleTi (ws : List String) : String :=
  match field "ins" ws, field "specs" ws with
  | some ins, some ps =>
    let views := (ins.splitOn "|").mapM parseView
    let specs : Option (List PermuteSpec) := (ps.splitOn ";").mapM (fun p =>
      match p.splitOn ":" with
      | [i, q] => do
        let idx ← i.toNat?
        if q == "r" then pure ⟨idx, none⟩
        else if q == "e" then pure ⟨idx, some []⟩
        else (parseNatList "," q).map (fun l => ⟨idx, some l⟩)
      | _ => none)
    match views, specs with
    | some vs, some specs =>
      -- storage: element i of input k is (i + 1) * 100^k
      let mk (k : Nat) (v : View) : TState :=
        let n := v.base + (v.dims.map (fun d => (d.1 - 1) * d.2)).sum + 3
        ⟨(List.range n).map (fun i => (i + 1) * 100 ^ k), v⟩
      let ts := (List.zip (List.range vs.length) vs).map (fun p => mk p.1 p.2)
      match applyTransforms specs ts with
      | .ok [t] => showTens (tensOf t.view (fun i => ((t.store.getD i 0 : Nat) : Int)))
      | .ok [a, b] =>
        match binaryOp (fun x y => wrap32 (x - y)) a.view (fun i => ((a.store.getD i 0 : Nat) : Int))
            b.view (fun i => ((b.store.getD i 0 : Nat) : Int)) with
        | some t => showTens t
        | none => "err"
      | .ok _ => "bad-request"
      | .error .err => "err"
      | .error .panic => "panic"
    | _, _ => "bad-request"
  | _, _ => "bad-request"

open RtenVerif.Layout in
/-- `tir <op> a=<view> b=<view> specs=<idx>:<perm>;…`: `TransformInputs(op)::run_in_place` with
operand 0 owned (so `ctx.inputs() = [None, b]`): the masked transform loop, then the inner
operator's `run_in_place`. -/
def handleTir (op : String) (ws : List String) : String :=
  match RtenVerif.InPlace.binFn op, (field "a" ws).bind parseView, (field "b" ws).bind parseView, field "specs" ws with
  | some f, some a, some b, some ps =>
    let specs : Option (List PermuteSpec) := (ps.splitOn ";").mapM (fun p =>
      match p.splitOn ":" with
      | [i, q] => do
        let idx ← i.toNat?
        if q == "r" then pure ⟨idx, none⟩
        else if q == "e" then pure ⟨idx, some []⟩
        else (parseNatList "," q).map (fun l => ⟨idx, some l⟩)
      | _ => none)
    match specs with
    | none => "bad-request"
    | some specs =>
      let mk (k : Nat) (v : View) : TState :=
        let n := v.base + (v.dims.map (fun d => (d.1 - 1) * d.2)).sum + 3
        ⟨(List.range n).map (fun i => (i + 1) * 100 ^ k), v⟩
      let ta := mk 0 a
      let tb := mk 1 b
      -- ctx.inputs(): position 0 is the in-place input → None
      match applyTransformsOpt specs [none, some tb] with
      | .error .err => "err"
      | .error .panic => "panic"
      | .ok [none, some tb'] =>
        let sa : Nat → Int := fun i => ((ta.store.getD i 0 : Nat) : Int)
        let sb : Nat → Int := fun i => ((tb'.store.getD i 0 : Nat) : Int)
        if RtenVerif.InPlace.canRunInPlace (sizes a.dims) (sizes tb'.view.dims) then
          showTens (tensOf a (binaryOpInPlaceView f a sa tb'.view sb))
        else
          match binaryOp f a sa tb'.view sb with
          | some t => showTens t
          | none => "err"
      | .ok _ => "bad-request"
  | _, _, _, _ => "bad-request"

open RtenVerif.Layout in
/-- `tip ips=<list> idx=<list>`: in-place inputs offered by TransformInputs wrappers. -/
def handleTip (ws : List String) : String :=
  match (field "ips" ws).bind (fun s => if s == "-" then some [] else parseNatList "," s),
      (field "idx" ws).bind (parseNatList ",") with
  | some ips, some idx =>
    let r := transformInPlaceInputs ips (idx.map (fun i => ⟨i, none⟩))
    s!"ips={showShape r}"
  | _, _ => "bad-request"

open RtenVerif.Layout in
/-- `red a=<view> k=<n>`: ReduceSum (keepdims) over the innermost `k` axes. -/
def handleRed (ws : List String) : String :=
  match (field "a" ws).bind parseView, (field "k" ws).bind String.toNat? with
  | some a, some k =>
    let no := a.dims.length - k
    let O := a.dims.take no
    let I := a.dims.drop no
    let d := reduceInnerOp (fun (l : List Int) => wrap32 (l.foldl (· + ·) 0)) O I a.base (fun i => (i : Int) + 1)
    s!"shape={showShape (sizes O ++ List.replicate k 1)} data={showData d}"
  | _, _ => "bad-request"

open RtenVerif.Layout in
/-- `cp a=<view>`: the contiguous copy holds the logical row-major element list. -/
def handleCp (ws : List String) : String :=
  match (field "a" ws).bind parseView with
  | some a =>
    -- through the C09 model of `to_contiguous` (borrow if contiguous, else row-major copy)
    let n := a.base + (a.dims.map (fun d => (d.1 - 1) * d.2)).sum + 3
    match a.dims with
    | [(rows, rs), (cols, cs)] =>
      if rows * cols ≤ 400 then
        -- rank 2: through the tile-loop model of `copy_blocked` (BLOCK_SIZE 64, TILE_SIZE 4)
        let d := RtenVerif.BlockedCopy.blockedCopy rows cols 64 4
          (fun y x => ((a.base + y * rs + x * cs : Nat) : Int) + 1) (List.replicate (rows * cols) 0)
        s!"shape={showShape [rows, cols]} data={showData d}"
      else
        let t := toContiguous ⟨(List.range n).map (· + 1), a⟩
        showTens (tensOf t.view (fun i => ((t.store.getD i 0 : Nat) : Int)))
    | _ =>
      let t := toContiguous ⟨(List.range n).map (· + 1), a⟩
      showTens (tensOf t.view (fun i => ((t.store.getD i 0 : Nat) : Int)))
  | none => "bad-request"

open RtenVerif.Im2Col in
/-- `im2col c= h= w= k= pads= str= dil= ist= steps=`: the offset tables. -/
def handleIm2col (ws : List String) : String :=
  let nat (k : String) := (field k ws).bind String.toNat?
  let nats (k : String) := (field k ws).bind (parseNatList ",")
  match nat "c", nat "h", nat "w", nats "k", nats "pads", nats "str", nats "dil", nats "ist", nats "steps" with
  | some c, some h, some w, some [kh, kw], some [pt, pl, pb, pr], some [sh, sw], some [dy, dx],
      some [sc, sth, stw], some [cs, rs] =>
    match buildIm2col ⟨c, h, w, kh, kw, pt, pl, pb, pr, sh, sw, dy, dx, sc, sth, stw⟩ cs rs with
    | none => "panic"
    | some t =>
      let j (l : List Int) := if l.isEmpty then "-" else showInts "," l
      s!"rows={t.nRows} cols={t.nCols} rc={j t.rowChan} ry={j t.rowY} rx={j t.rowX} cy={j t.colY} cx={j t.colX} my={t.maxY} mx={t.maxX}"
  | _, _, _, _, _, _, _, _, _ => "bad-request"

def handleCov (ws : List String) : String :=
  let names := match ws with
    | [w] => w.splitOn ","
    | _ => []
  let missing := RtenVerif.Generated.RegistryOps.registryOps.filter (fun n => !names.contains n)
  s!"not-exercised={joinWith "," missing}"

def handle (line : String) : String :=
  match words line with
  | "fb" :: ws =>
    match (field "from" ws).bind parseShape, (field "to" ws).bind parseShape with
    | some f, some t =>
      match fastBroadcast f t with
      | .panic => "panic"
      | .none => "none"
      | .some c r => s!"some {c} {r}"
    | _, _ => "bad-request"
  | "bc" :: ws =>
    match (field "from" ws).bind parseShape, (field "to" ws).bind parseShape with
    | some f, some t =>
      if RtenVerif.InPlace.canBroadcastTo f t then
        let d := bcastTo (List.range (numel f)) f t
        if d.isEmpty then "-" else showNats "," d
      else "err"
    | _, _ => "bad-request"
  | "bop" :: op :: ws => handleBop op ws
  | "uop" :: ws => handleUop ws
  | "ti" :: ws => handleTi ws
  | "tip" :: ws => handleTip ws
  | "tir" :: op :: ws => handleTir op ws
  | "red" :: ws => handleRed ws
  | "cp" :: ws => handleCp ws
  | "im2col" :: ws => handleIm2col ws
  | "cov" :: ws => handleCov ws
  | _ => "skip"

end RtenVerif.Driver.C14

/-- `model_C14`: reads request lines on stdin, prints the model's answer per line. -/
def main : IO Unit := RtenVerif.Driver.loopPure RtenVerif.Driver.C14.handle
