import RtenVerif.Driver.Util
import RtenVerif.Model.FastBroadcast
import RtenVerif.Model.InPlace

namespace RtenVerif.Driver.C14
open RtenVerif.Driver RtenVerif.FastBroadcast

def parseShape (s : String) : Option (List Nat) :=
  if s == "-" then some [] else parseNatList "," s

def field (key : String) (ws : List String) : Option String :=
  ws.findSome? fun w => if w.startsWith (key ++ "=") then some (w.drop (key.length + 1)).toString else none

def handle (line : String) : String :=
  match words line with
  | "fb" :: ws =>
    match (field "from" ws).bind parseShape, (field "to" ws).bind parseShape with
    | some f, some t =>
      match fastBroadcast f t with
      | .panic => "panic"
      | .none => "none"
      | .some c r => s!"some {c} {r}"
    | _, _ => "bad-request"
  | "bc" :: ws =>
    match (field "from" ws).bind parseShape, (field "to" ws).bind parseShape with
    | some f, some t =>
      if RtenVerif.InPlace.canBroadcastTo f t then
        let d := bcastTo (List.range (numel f)) f t
        if d.isEmpty then "-" else showNats "," d
      else "err"
    | _, _ => "bad-request"
  | _ => "skip"

end RtenVerif.Driver.C14

/-- `model_C14`: reads request lines on stdin, prints the model's answer per line. -/
def main : IO Unit := RtenVerif.Driver.loopPure RtenVerif.Driver.C14.handle
