import RtenVerif.Driver.Util
import RtenVerif.Model.FastBroadcast
import RtenVerif.Model.InPlace
import RtenVerif.Model.BinaryDispatch
import RtenVerif.Model.ReduceDispatch
import RtenVerif.Generated.RegistryOps

namespace RtenVerif.Driver.C14
open RtenVerif.Driver RtenVerif.FastBroadcast

def parseShape (s : String) : Option (List Nat) :=
  if s == "-" then some [] else parseNatList "," s

def field (key : String) (ws : List String) : Option String :=
  ws.findSome? fun w => if w.startsWith (key ++ "=") then some (w.drop (key.length + 1)).toString else none

open RtenVerif.Layout in
/-- `<base>@<size:stride,…>` (`-` = rank 0). -/
def parseView (w : String) : Option View :=
  match w.splitOn "@" with
  | [b, ds] => do
    let base ← b.toNat?
    let dims ← if ds == "-" then some [] else (ds.splitOn ",").mapM (fun d =>
      match d.splitOn ":" with
      | [x, y] => do let a ← x.toNat?; let c ← y.toNat?; pure (a, c)
      | _ => none)
    pure ⟨base, 0, dims⟩
  | _ => none

def showShape (s : List Nat) : String := if s.isEmpty then "-" else showNats "," s
def showData (s : List Int) : String := if s.isEmpty then "-" else showInts "," s

def showTens (t : RtenVerif.InPlace.Tens Int) : String := s!"shape={showShape t.shape} data={showData t.data}"

def wrap32 := RtenVerif.InPlace.wrap32

open RtenVerif.Layout in
def handleBop (op : String) (ws : List String) : String :=
  match (field "a" ws).bind parseView, (field "b" ws).bind parseView with
  | some a, some b =>
    let f : Int → Int → Int := match op with
      | "Add" => fun x y => wrap32 (x + y)
      | "Sub" => fun x y => wrap32 (x - y)
      | _ => fun x y => wrap32 (x * y)
    match binaryOp f a (fun i => (i : Int) + 1) b (fun i => 100 * ((i : Int) + 1)) with
    | some t => showTens t
    | none => "err"
  | _, _ => "bad-request"

open RtenVerif.Layout in
def handleUop (ws : List String) : String :=
  match (field "a" ws).bind parseView with
  | some a => showTens (unaryOp (fun x => wrap32 (-x)) a (fun i => (i : Int) + 1))
  | none => "bad-request"

open RtenVerif.Layout in
def handleTi (ws : List String) : String :=
  match (field "in" ws).bind parseView, field "perms" ws with
  | some v, some ps =>
    let specs : Option (List PermuteSpec) := (ps.splitOn ";").mapM (fun p =>
      if p == "r" then some ⟨0, none⟩
      else if p == "e" then some ⟨0, some []⟩
      else (parseNatList "," p).map (fun l => ⟨0, some l⟩))
    match specs with
    | none => "bad-request"
    | some specs =>
      -- storage as a list: element i is i + 1
      let n := v.base + (v.dims.map (fun d => (d.1 - 1) * d.2)).sum + 3
      let t : TState := ⟨(List.range n).map (fun i => i + 1), v⟩
      match applyTransforms specs [t] with
      | .ok [t'] =>
        let d := (RtenVerif.Iter.rowMajor t'.view.dims).map (fun o => ((t'.store.getD (t'.view.base + o) 0 : Nat) : Int))
        s!"shape={showShape (sizes t'.view.dims)} data={showData d}"
      | .ok _ => "bad-request"
      | .error .err => "err"
      | .error .panic => "panic"
  | _, _ => "bad-request"

open RtenVerif.Layout in
/-- `red a=<view> k=<n>`: ReduceSum (keepdims) over the innermost `k` axes. -/
def handleRed (ws : List String) : String :=
  match (field "a" ws).bind parseView, (field "k" ws).bind String.toNat? with
  | some a, some k =>
    let no := a.dims.length - k
    let O := a.dims.take no
    let I := a.dims.drop no
    let d := reduceInnerOp (fun (l : List Int) => wrap32 (l.foldl (· + ·) 0)) O I a.base (fun i => (i : Int) + 1)
    s!"shape={showShape (sizes O ++ List.replicate k 1)} data={showData d}"
  | _, _ => "bad-request"

def handleCov (ws : List String) : String :=
  let names := match ws with
    | [w] => w.splitOn ","
    | _ => []
  let missing := RtenVerif.Generated.RegistryOps.registryOps.filter (fun n => !names.contains n)
  s!"not-exercised={joinWith "," missing}"

def handle (line : String) : String :=
  match words line with
  | "fb" :: ws =>
    match (field "from" ws).bind parseShape, (field "to" ws).bind parseShape with
    | some f, some t =>
      match fastBroadcast f t with
      | .panic => "panic"
      | .none => "none"
      | .some c r => s!"some {c} {r}"
    | _, _ => "bad-request"
  | "bc" :: ws =>
    match (field "from" ws).bind parseShape, (field "to" ws).bind parseShape with
    | some f, some t =>
      if RtenVerif.InPlace.canBroadcastTo f t then
        let d := bcastTo (List.range (numel f)) f t
        if d.isEmpty then "-" else showNats "," d
      else "err"
    | _, _ => "bad-request"
  | "bop" :: op :: ws => handleBop op ws
  | "uop" :: ws => handleUop ws
  | "ti" :: ws => handleTi ws
  | "red" :: ws => handleRed ws
  | "cov" :: ws => handleCov ws
  | _ => "skip"

end RtenVerif.Driver.C14

/-- `model_C14`: reads request lines on stdin, prints the model's answer per line. -/
def main : IO Unit := RtenVerif.Driver.loopPure RtenVerif.Driver.C14.handle
