import RtenVerif.Driver.Util
import RtenVerif.Model.RunPurity
/-!
# Driver for C25: one `run_plan` call per request line

```
rp <pool> <captures> <env> <nodes> <plan> <owned> <borrowed> <outs> <script>
```
* `pool` 0/1; `captures` = `Graph::captures()` ids (`-` = none);
* `env` = `id:len:t,…` — for each capture id what `get_input` finds (`_` = nothing) and
  `can_take_input` (0/1);
* `nodes` = `;`-separated, position = node id: `V`, `C`, `A` (no node) or
  `O/<inputs>/<outputs>/<in_place_inputs>/<commutative>/<capdeps>/<subgraph>` (`_` = omitted id);
* `plan`, `outs` = id lists; `owned`, `borrowed` = `id:len,…`;
* `script` = per executed step the lengths of the values the operator returned (`E` = error).

Values are their lengths (the only thing the executor inspects).  Answer:
`<outcome>|<step>;<step>…` with `step = op:ip:pos.id.L+…:id.L+…` (in-place takes, by-value
moves; `L` = place the value was taken from: `t`emp_values, by-`v`alue capture, `c`onstant,
`b`orrowed) and `outcome = ok id.M,id.C…` (moved out of temp_values / cloned), `err:plan`,
`err:op@k`, `panic@k`, `panic@out`.
-/
namespace RtenVerif.Driver.C25
open RtenVerif.Driver RtenVerif.RunPurity

def parseIds (s : String) : Option (List Nat) :=
  if s == "-" then some [] else (s.splitOn ",").mapM String.toNat?

def parseOptIds (s : String) : Option (List (Option Nat)) :=
  if s == "-" then some []
  else (s.splitOn ",").mapM (fun w => if w == "_" then some none else w.toNat?.map some)

def parsePairs (s : String) : Option (List (Nat × Nat)) :=
  if s == "-" then some []
  else (s.splitOn ",").mapM (fun w =>
    match w.splitOn ":" with
    | [a, b] => do let x ← a.toNat?; let y ← b.toNat?; pure (x, y)
    | _ => none)

def parseNode (s : String) : Option Node :=
  match s.splitOn "/" with
  | ["V"] => some .value
  | ["C"] => some .constant
  | ["A"] => some .absent
  | ["O", ins, outs, ip, comm, caps, sub] => do
    let ins ← parseOptIds ins
    let outs ← parseOptIds outs
    let ip ← parseIds ip
    let caps ← parseIds caps
    pure (.op { inputs := ins, outputs := outs, inPlace := ip, commutative := comm == "1",
                capDeps := caps, subgraph := sub == "1" })
  | _ => none

def parseEnv (s : String) : Option (List (Nat × Option Nat × Bool)) :=
  if s == "-" then some []
  else (s.splitOn ",").mapM (fun w =>
    match w.splitOn ":" with
    | [a, b, c] => do
      let x ← a.toNat?
      let l ← if b == "_" then some none else b.toNat?.map some
      pure (x, l, c == "1")
    | _ => none)

/-- `none` = the operator failed. -/
def parseScript (s : String) : Option (List (Option (List Nat))) :=
  if s == "-" then some []
  else (s.splitOn ";").mapM (fun w =>
    if w == "E" then some none
    else if w == "." then some (some [])
    else ((w.splitOn ",").mapM String.toNat?).map some)

def lookup {β : Type} (l : List (Nat × β)) (k : Nat) : Option β :=
  (l.find? (fun e => e.1 == k)).map (·.2)

def locChar : Loc → String
  | .temp _ => "t"
  | .capVal _ => "v"
  | .const _ => "c"
  | .borrowed _ => "b"

def showTake (t : Take Nat) : String :=
  match t.pos with
  | some p => s!"{p}.{t.id}.{locChar t.loc}"
  | none => s!"{t.id}.{locChar t.loc}"

def showList (xs : List String) : String := if xs.isEmpty then "-" else joinWith "+" xs

def showRec (s : StepRec Nat) : String :=
  let ip := s.takes.filter (·.pos.isSome)
  let bv := s.takes.filter (·.pos.isNone)
  s!"{s.op}:{b01 s.inPlace}:{showList (ip.map showTake)}:{showList (bv.map showTake)}"

def showOutcome : Except Err (List (Nat × OutSrc × Nat)) → String
  | .error .planErr => "err:plan"
  | .error (.opErr k) => s!"err:op@{k}"
  | .error (.panicTake k) => s!"panic@{k}"
  | .error (.panicInput k) => s!"panic@{k}"
  | .error .panicOut => "panic@out"
  | .ok os =>
    "ok " ++ (if os.isEmpty then "-" else joinWith "," (os.map (fun e =>
      match e.2.1 with
      | .moved _ => s!"{e.1}.M"
      | .cloned _ => s!"{e.1}.C")))

def handle (line : String) : String :=
  match words line with
  | ["rp", pool, caps, env, nodes, plan, owned, borrowed, outs, script] =>
    let parsed := do
      let caps ← parseIds caps
      let env ← parseEnv env
      let nodes ← (nodes.splitOn ";").mapM parseNode
      let plan ← parseIds plan
      let owned ← parsePairs owned
      let borrowed ← parsePairs borrowed
      let outs ← parseIds outs
      let script ← parseScript script
      pure (caps, env, nodes, plan, owned, borrowed, outs, script)
    match parsed with
    | none => "bad-request"
    | some (caps, env, nodes, plan, owned, borrowed, outs, script) =>
      let ops : Ops Nat :=
        { len := fun v => v,
          run := fun k _ _ _ _ _ => (script.getD k none),
          dirty := fun _ _ v => v }
      let r : Run Nat :=
        { g := { nodes := nodes, captures := caps },
          consts := fun _ => 0,
          borrowed := lookup borrowed,
          owned := owned,
          envView := fun id => (lookup env id).bind (·.1),
          envTake := fun id => (lookup env id).bind (fun e => if e.2 then e.1 else none),
          usePool := pool == "1" }
      let res := runPlan .code ops r plan outs
      s!"{showOutcome res.outcome}|{if res.recs.isEmpty then "-" else joinWith ";" (res.recs.map showRec)}"
  | _ => "bad-request"

end RtenVerif.Driver.C25

/-- `model_C25`: reads request lines on stdin, prints the model's answer per line. -/
def main : IO Unit := RtenVerif.Driver.loopPure RtenVerif.Driver.C25.handle
