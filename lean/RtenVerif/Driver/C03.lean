import RtenVerif.Driver.Util
import RtenVerif.Model.Graph
import RtenVerif.Model.Planner
/-!
Line protocol for C03.

Request: `plan <dedup> <allowMissing> <capturesAvailable> <nodes> <captures> <inputs> <outputs>`
* `<nodes>`: `;`-separated node descriptors in id order: `V` (value), `C` (constant),
  `O/<inputs>/<outputs>/<captureIds>/<inPlace>` with `,`-separated ids and `_` for `None`;
* id lists are `,`-separated, `-` is the empty list;
* `<dedup>`: 1 = planner as it stands, 0 = `sort_plan` before the "never schedule twice" fix
  (frontier-loop budget `4·plan.length + 8`, answer `diverges` if exhausted).
Answer: `ok <ids|->`, `err:<class>` or `diverges`.
-/
namespace RtenVerif.Driver.C03
open RtenVerif.Driver RtenVerif.Graph RtenVerif.Planner

def parseIds (s : String) : Option (List Nat) :=
  if s == "-" || s.isEmpty then some [] else (s.splitOn ",").mapM String.toNat?

def parseOptIds (s : String) : Option (List (Option Nat)) :=
  if s == "-" || s.isEmpty then some []
  else (s.splitOn ",").mapM (fun w => if w == "_" then some none else (w.toNat?).map some)

def parseNode (s : String) : Option Node :=
  if s == "V" then some .value
  else if s == "C" then some .constant
  else match s.splitOn "/" with
    | ["O", i, o, c, ip] => do
      let ins ← parseOptIds i
      let outs ← parseOptIds o
      let caps ← parseIds c
      pure (.operator { inputs := ins, outputs := outs, captureIds := caps, inPlace := ip == "1" })
    | _ => none

def parseNodes (s : String) : Option (List Node) :=
  if s == "-" then some [] else (s.splitOn ";").mapM parseNode

def showErr : PlanError → String
  | .dupOutput => "err:dup-output"
  | .badOutput => "err:bad-output"
  | .dupInput => "err:dup-input"
  | .badInput => "err:bad-input"
  | .cycle => "err:cycle"
  | .missingInput => "err:missing-input"
  | .noSource => "err:no-source"
  | .outOfFuel => "diverges"

def showPlan (p : List Nat) : String := if p.isEmpty then "ok -" else "ok " ++ showNats "," p

def handle (line : String) : String :=
  match words line with
  | ["plan", dd, am, ca, ns, caps, ins, outs] =>
    match parseNodes ns, parseIds caps, parseIds ins, parseIds outs with
    | some nodes, some caps, some ins, some outs =>
      let g : Graph := { nodes := nodes, captures := caps }
      let opts : PlanOptions := { allowMissing := am == "1", capturesAvailable := ca == "1" }
      let r :=
        if dd == "1" then createPlan g ins outs opts
        else createPlanWith g false (some (4 * nodes.length + 8)) ins outs opts
      match r with
      | .ok p => showPlan p
      | .error e => showErr e
    | _, _, _, _ => "bad-request"
  | _ => "bad-request"

end RtenVerif.Driver.C03

/-- `model_C03`: reads request lines on stdin, prints the model's answer per line. -/
def main : IO Unit := RtenVerif.Driver.loopPure RtenVerif.Driver.C03.handle
