import RtenVerif.Driver.Util
import RtenVerif.Model.Protobuf
import RtenVerif.Generated.OnnxSchema

/-! Line-protocol driver for C38.

Request: `pb <mode> <hex|->` with mode ∈ {buf, file, sniff}.
* `buf` / `file`: `ModelProto::parse_buf` / `parse_file` ↦ `ok m=<messages> s=<strings> b=<string bytes>
  n=<numbers> x=<wrapping sum of number bits> st=<steps>` (digest of the decoded tree, singular fields
  keep the last occurrence) or `err:<ErrorKind> st=<steps>`.
* `sniff`: `is_onnx_model(ValueReader::from_buf(..))` ↦ `sniff=<0|1> st=<steps>`.
`st` is the work counter of the instrumented decoder `parseS` (primitive reads + blob bytes), compared
with the real decoder's `rten_onnx::verif::DECODE_STEPS`.
-/
namespace RtenVerif.Driver.C38
open RtenVerif.Driver RtenVerif.Protobuf RtenVerif.Generated.OnnxSchema

def hexVal (c : Char) : Option Nat :=
  if '0' ≤ c ∧ c ≤ '9' then some (c.toNat - '0'.toNat)
  else if 'a' ≤ c ∧ c ≤ 'f' then some (c.toNat - 'a'.toNat + 10)
  else if 'A' ≤ c ∧ c ≤ 'F' then some (c.toNat - 'A'.toNat + 10)
  else none

def parseHex (s : String) : Option Bytes :=
  if s = "-" then some #[] else
  let rec go : List Char → Bytes → Option Bytes
    | [], acc => some acc
    | a :: b :: rest, acc => do
      let x ← hexVal a
      let y ← hexVal b
      go rest (acc.push (UInt8.ofNat (x * 16 + y)))
    | _, _ => none
  go s.toList (Array.mkEmpty (s.length / 2))

structure Digest where
  m : Nat := 0
  s : Nat := 0
  b : Nat := 0
  n : Nat := 0
  x : UInt64 := 0

/-- Is `(num, _)` the last occurrence of `num` in the remaining list? -/
def isLast (num : UInt64) (rest : List (UInt64 × Val)) : Bool :=
  !(rest.any fun (k, _) => k == num)

mutual
  partial def digestMsg (S : Schema) (mid : Nat) (fs : List (UInt64 × Val)) (dg : Digest) : Digest :=
    let dg := { dg with m := dg.m + 1 }
    let rec loop : List (UInt64 × Val) → Digest → Digest
      | [], dg => dg
      | (num, v) :: rest, dg =>
        let spec := S.lookup mid num
        if spec.repeated || isLast num rest then loop rest (digestVal S spec.kind v dg)
        else loop rest dg
    loop fs dg
  partial def digestVal (S : Schema) (k : Kind) (v : Val) (dg : Digest) : Digest :=
    match v with
    | .num bits => { dg with n := dg.n + 1, x := dg.x + bits }
    | .blob l => { dg with s := dg.s + 1, b := dg.b + l.toNat }
    | .nums xs => { dg with n := dg.n + xs.length, x := xs.foldl (· + ·) dg.x }
    | .msg fs => match k with
      | .msg child => digestMsg S child fs dg
      | _ => dg
    | .flag => dg
end

def hasField (num : UInt64) (fs : List (UInt64 × Val)) : Bool := fs.any fun (k, _) => k == num

def handle (line : String) : String :=
  match words line with
  | [ "pb", mode, hex ] =>
    match parseHex hex with
    | none => "bad-request"
    | some d =>
      if mode == "sniff" then
        let c := parseS schema d idSlimModelProto
        match c.res with
        | .ok (fs, _) => s!"sniff={b01 (hasField 1 fs && hasField 7 fs)} st={c.steps}"
        | .error .wrap => "model-wrap"
        | .error .fuel => "model-fuel"
        | .error _ => s!"sniff=0 st={c.steps}"
      else if mode == "buf" || mode == "file" then
        let c := parseS schema d idModelProto
        match c.res with
        | .ok (fs, _) =>
          let g := digestMsg schema idModelProto fs {}
          s!"ok m={g.m} s={g.s} b={g.b} n={g.n} x={g.x} st={c.steps}"
        | .error e => s!"err:{e} st={c.steps}"
      else "bad-request"
  | _ => "bad-request"

end RtenVerif.Driver.C38

/-- `model_C38`: reads request lines on stdin, prints the model's answer per line. -/
def main : IO Unit := RtenVerif.Driver.loopPure RtenVerif.Driver.C38.handle
