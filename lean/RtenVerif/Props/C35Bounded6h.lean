import RtenVerif.Props.C35Bounded6Defs

/-! C35.S3 bounded scope, chunk `h`: smallest code in `2..2`, second smallest in `2..3`
(kernel evaluation; bounded statement). -/
namespace RtenVerif.Poly

theorem c35_chunk6_h : chunkOk 2 2 2 3 = true := by decide +kernel

end RtenVerif.Poly
