import RtenVerif.Lemmas.ExpBits
import Mathlib.Analysis.Complex.Exponential
import Mathlib.Analysis.Complex.ExponentialBounds
import Mathlib.Tactic.NormNum
import Mathlib.Tactic.FieldSimp
import Mathlib.Tactic.Ring
import Mathlib.Tactic.Positivity

/-!
# C19 — Vectorized math functions meet their documented accuracy

**What is proved here (kernel-checked):**

* **T1** the integer manipulations by which `Exp` / `ReducedRangeExp` build `2^k` are exact:
  for *every* integer `k` for which the code can be exact (`-249 ≤ k ≤ 254`, a superset of
  the reachable `|k| ≤ 150`) the two bit patterns `is`, `it` decode to normal powers of two
  whose real product is `2^k`; for `ReducedRangeExp` the single pattern decodes to `2^k`
  for every `-126 ≤ k ≤ 127`.  Complete finite ranges, by kernel evaluation (`decide`).
* **T2** the special-value selects as decision logic: `x ≥ 104 → +∞`, `x ≤ −104 → 0`
  (including `±∞`), NaN falls through both selects to the arithmetic result, the two masks
  are never both set so the select order is immaterial; `ReducedRangeExp` cutoff; `Tanh`
  branch selection, sign handling at zero (as found: `tanh(+0.0) = -0.0`, now fixed) and NaN.
* **T3** over `ℝ`: softmax as coded (`exp(xᵢ − m) · (1 / Σⱼ exp(xⱼ − m))`) is positive, sums
  to one for non-empty input, is at most one, and does not depend on the subtracted `m`
  (so subtracting the maximum changes nothing mathematically).

**What is NOT proved (and not provable with the tools present, DESIGN §8):** the documented
ULP / absolute error bounds (exp ≤ 1 ULP, sigmoid ≤ 4 ULP, tanh ≤ 3 ULP, erf ≤ 6.631017e-7,
sin ≤ 3e-7, cos ≤ 5e-7). They are statements about IEEE rounding of polynomial evaluations.
They are decided by *exhaustive execution* of the real code over all 2^32 bit patterns
(thorough tier; a 2^24-point strided sweep in quick) in `harness/gemm/src/bin/c19.rs`.
-/
namespace RtenVerif.ExpBits

/-! ## T1 — bit-level reconstruction of `2^k` -/

/-! (`reconOk`, the complete-range `decide`s and T1a/T1b live in `Lemmas/ExpBits.lean`, which
imports nothing from Mathlib so that `decide` uses the core `Fin` instances.) -/

/-! ### meaning of the decoded patterns over `ℝ` -/

/-- Real value of a decoded finite float. -/
noncomputable def Dyadic.toReal (d : Dyadic) : ℝ :=
  (if d.neg then -1 else 1) * (d.mant : ℝ) * (2 : ℝ) ^ d.exp

/-- A pattern recognised by `pow2Exp` decodes (sign / exponent / mantissa fields) to the real
number `2^j`. -/
theorem pow2Exp_decode (b : Nat) (j : Int) (h : pow2Exp b = some j) :
    ∃ d, decode b = some d ∧ d.toReal = (2 : ℝ) ^ j := by
  unfold pow2Exp at h
  split at h
  · rename_i hc
    obtain ⟨hs, hm, h1, h2⟩ := hc
    simp only [Option.some.injEq] at h
    refine ⟨⟨false, 2 ^ 23, (expField b : Int) - 150⟩, ?_, ?_⟩
    · unfold decode
      have e1 : ¬ expField b = 255 := by omega
      have e2 : ¬ expField b = 0 := by omega
      simp [e1, e2, hs, hm]
    · simp only [Dyadic.toReal, Bool.false_eq_true, if_false, one_mul]
      rw [← h]
      have h2ne : (2 : ℝ) ≠ 0 := by norm_num
      have : ((2 ^ 23 : Nat) : ℝ) = (2 : ℝ) ^ (23 : Int) := by norm_num
      rw [this, ← zpow_add₀ h2ne]
      congr 1
      omega
  · simp at h

/-- **C19.T1c** (full statement over ℝ) for every integer `k ∈ [-249, 254]` the two bit
patterns built by `Exp::eval` are finite floats whose real values multiply to exactly `2^k`;
the first factor is `2^127` or `2^-123`. -/
theorem c19_exp_recon_product (k : Int) (lo : -249 ≤ k) (hi : k ≤ 254) :
    ∃ ds dt, decode (expRecon (BitVec.ofInt 32 k)).1.toNat = some ds ∧
      decode (expRecon (BitVec.ofInt 32 k)).2.toNat = some dt ∧
      ds.toReal * dt.toReal = (2 : ℝ) ^ k := by
  obtain ⟨a, b, ha, hb, hab⟩ := reconOk_spec k (c19_exp_recon_exact k lo hi)
  obtain ⟨ds, hds, vs⟩ := pow2Exp_decode _ _ ha
  obtain ⟨dt, hdt, vt⟩ := pow2Exp_decode _ _ hb
  refine ⟨ds, dt, hds, hdt, ?_⟩
  rw [vs, vt, ← zpow_add₀ (by norm_num : (2 : ℝ) ≠ 0), hab]

/-- `ReducedRangeExp` over ℝ. -/
theorem c19_reduced_recon_value (k : Int) (lo : -126 ≤ k) (hi : k ≤ 127) :
    ∃ d, decode (reducedRecon (BitVec.ofInt 32 k)).toNat = some d ∧ d.toReal = (2 : ℝ) ^ k :=
  pow2Exp_decode _ _ (c19_reduced_recon_exact k lo hi)

/-! ## T2 — special values / clamps -/

theorem scale_pos : (0 : Int) < scale := by unfold scale; exact Int.pow_pos (by decide)

theorem expSelect_eq (x : FVal) : expSelect x =
    if leC x (-104) 1 then .zero else if geC x 104 1 then .inf else .core := rfl

theorem expSelectSwapped_eq (x : FVal) : expSelectSwapped x =
    if geC x 104 1 then .inf else if leC x (-104) 1 then .zero else .core := rfl

/-- The overflow and underflow masks exclude each other. -/
theorem masks_exclusive (x : FVal) (h : geC x 104 1 = true) : leC x (-104) 1 = false := by
  have hs := scale_pos
  cases x with
  | nan => rfl
  | negInf => simp only [geC] at h; exact absurd h (by decide)
  | posInf => rfl
  | fin q =>
    simp only [geC, decide_eq_true_eq] at h
    simp only [leC, decide_eq_false_iff_not]
    omega

/-- **C19.T2a** `x ≥ 104` (finite or `+∞`) returns `+∞`. -/
theorem c19_exp_overflow (x : FVal) (h : geC x 104 1 = true) : expSelect x = .inf := by
  rw [expSelect_eq, masks_exclusive x h, h]; rfl

/-- **C19.T2b** `x ≤ −104` (finite or `−∞`) returns `0`. -/
theorem c19_exp_underflow (x : FVal) (h : leC x (-104) 1 = true) : expSelect x = .zero := by
  rw [expSelect_eq, h]; rfl

/-- **C19.T2c** NaN fails both ordered comparisons and reaches the arithmetic result, which
is NaN by IEEE propagation (assumption on the float operations, not on the selects). -/
theorem c19_exp_nan : expSelect .nan = .core := rfl

/-- **C19.T2d** everything strictly between the thresholds uses the arithmetic result. -/
theorem c19_exp_mid (q : Int) (lo : -104 * scale < q) (hi : q < 104 * scale) :
    expSelect (.fin q) = .core := by
  have h1 : geC (.fin q) 104 1 = false := by
    simp only [geC, decide_eq_false_iff_not]; omega
  have h2 : leC (.fin q) (-104) 1 = false := by
    simp only [leC, decide_eq_false_iff_not]; omega
  rw [expSelect_eq, h1, h2]; rfl

/-- **C19.T2e** the overflow and underflow masks are never both set, hence the order in which
the two selects are applied does not matter. -/
theorem c19_exp_select_order (x : FVal) : expSelect x = expSelectSwapped x := by
  rw [expSelect_eq, expSelectSwapped_eq]
  cases hg : geC x 104 1 with
  | true => rw [masks_exclusive x hg]; rfl
  | false => cases leC x (-104) 1 <;> rfl

example : expSelect .posInf = .inf ∧ expSelect .negInf = .zero ∧
    expSelect (.fin (104 * scale)) = .inf ∧ expSelect (.fin (-104 * scale)) = .zero ∧
    expSelect (.fin 0) = .core ∧ expSelect (.fin (104 * scale - 1)) = .core := by
  decide +kernel

/-! ### value statements: the selects return the *correctly rounded IEEE result* -/

/-- **C19.T2h** special inputs, whatever the arithmetic part produced (`core` is arbitrary —
for `±∞` the real arithmetic yields NaN from `∞ − ∞`): `exp(+∞) = +∞`, `exp(−∞) = 0`, and a NaN
input yields NaN as soon as the arithmetic propagates NaN (IEEE). -/
theorem c19_exp_special_values (core : FVal → FRes) :
    expValue core .posInf = .inf ∧ expValue core .negInf = .zero ∧
    (core .nan = .nan → expValue core .nan = .nan) := by
  refine ⟨rfl, rfl, ?_⟩
  intro h
  show core .nan = .nan
  exact h

theorem exp_104_gt : (2 : ℝ) ^ 150 < Real.exp 104 := by
  have h1 : Real.exp 104 = Real.exp 1 ^ 104 := by
    have := Real.exp_nat_mul 1 104
    simpa using this
  rw [h1]
  have h2 : (2.7182818283 : ℝ) ^ 104 < Real.exp 1 ^ 104 :=
    pow_lt_pow_left₀ Real.exp_one_gt_d9 (by norm_num) (by norm_num)
  have h3 : (2 : ℝ) ^ 150 < (2.7182818283 : ℝ) ^ 104 := by norm_num
  exact lt_trans h3 h2

/-- **C19.T2i** the overflow clamp is exact: for every real `x ≥ 104`, `exp x > 2^150 > 2^128`,
i.e. above every finite f32, so `+∞` *is* the correctly rounded result the select returns. -/
theorem c19_exp_overflow_correct (x : ℝ) (h : 104 ≤ x) : (2 : ℝ) ^ 128 < Real.exp x := by
  have h1 : Real.exp 104 ≤ Real.exp x := Real.exp_le_exp.mpr h
  have h2 : (2 : ℝ) ^ 128 < 2 ^ 150 := by norm_num
  linarith [exp_104_gt]

/-- **C19.T2j** the underflow clamp is exact: for every real `x ≤ −104`, `exp x < 2^-150`, half
the smallest subnormal f32, so `0` *is* the correctly rounded (nearest-even) result. The
threshold is nearly tight: `e^104 / 2^150 ≈ 1.03`. -/
theorem c19_exp_underflow_correct (x : ℝ) (h : x ≤ -104) : Real.exp x < (2 : ℝ) ^ (-150 : ℤ) := by
  have h1 : Real.exp x ≤ Real.exp (-104) := Real.exp_le_exp.mpr h
  have h2 : Real.exp (-104) = (Real.exp 104)⁻¹ := Real.exp_neg 104
  have h3 : (Real.exp 104)⁻¹ < ((2 : ℝ) ^ 150)⁻¹ :=
    inv_strictAnti₀ (by positivity) exp_104_gt
  have h4 : ((2 : ℝ) ^ 150)⁻¹ = (2 : ℝ) ^ (-150 : ℤ) := by
    rw [zpow_neg]; norm_num
  rw [h2] at h1
  rw [← h4]
  exact lt_of_le_of_lt h1 h3

/-- Model and reals together: a finite input `q·2^-149 ≥ 104` takes the `+∞` select and its
true exponential exceeds every finite f32; symmetrically for `≤ −104`. -/
theorem c19_exp_clamps_are_ieee (q : Int) :
    (q ≥ 104 * scale → expValue (fun _ => .val) (.fin q) = .inf ∧
        (2 : ℝ) ^ 128 < Real.exp ((q : ℝ) / (scale : ℝ))) ∧
    (q ≤ -104 * scale → expValue (fun _ => .val) (.fin q) = .zero ∧
        Real.exp ((q : ℝ) / (scale : ℝ)) < (2 : ℝ) ^ (-150 : ℤ)) := by
  have hs : (0 : ℝ) < (scale : ℝ) := by exact_mod_cast scale_pos
  constructor
  · intro h
    have hg : geC (.fin q) 104 1 = true := by simp only [geC, decide_eq_true_eq]; omega
    refine ⟨?_, c19_exp_overflow_correct _ ?_⟩
    · unfold expValue; rw [c19_exp_overflow _ hg]
    · rw [le_div_iff₀ hs]; exact_mod_cast h
  · intro h
    have hl : leC (.fin q) (-104) 1 = true := by simp only [leC, decide_eq_true_eq]; omega
    refine ⟨?_, c19_exp_underflow_correct _ ?_⟩
    · unfold expValue; rw [c19_exp_underflow _ hl]
    · rw [div_le_iff₀ hs]; exact_mod_cast h

/-- **C19.T2f** `ReducedRangeExp` (`x ≤ 0` by contract): below the cutoff `0`, NaN and
everything else the arithmetic result — for any cutoff value in the documented bracket. -/
theorem c19_reduced_select (x : FVal) (num den : Int) :
    reducedSelect x num den = (if ltC x num den then .zero else .core) := rfl

example : reducedSelect .nan cutoffLoNum cutoffDen = .core ∧
    reducedSelect .negInf cutoffLoNum cutoffDen = .zero ∧
    reducedSelect (.fin (-88 * scale)) cutoffHiNum cutoffDen = .zero ∧
    reducedSelect (.fin (-87 * scale)) cutoffLoNum cutoffDen = .core := by decide +kernel

/-- **C19.T2g** `Tanh` branch selection: NaN takes the `exp`-based branch (and is propagated by
arithmetic), `±∞` saturate to magnitude 1, zeros take the `tiny` branch `y = |x|`; the result
carries the input's sign bit, so `tanh(±0.0) = ±0.0` and `tanh(-x) = -tanh(x)`. -/
theorem c19_tanh_select (sb : Bool) :
    tanhSelect .nan sb = (.medium, sb) ∧ tanhSelect .posInf false = (.one, false) ∧
    tanhSelect .negInf true = (.one, true) ∧ tanhSelect (.fin 0) sb = (.tiny, sb) := by
  cases sb <;> decide +kernel

/-- The full statement "signed zeros map as the reference does" was FALSE of the code as found:
its sign select `x <= 0` is true for `+0.0` too, so `tanh(+0.0)` was negated to `-0.0`
(finding `C19-tanh-pos-zero`, fixed in rten-vecmath/src/tanh.rs). -/
theorem c19_tanh_as_found_negates_pos_zero : tanhSelectLe (.fin 0) = (.tiny, true) := by
  decide +kernel

/-- For non-zero finite inputs the old and the new sign agree (sign bit ⇔ `q < 0` ⇔ `q ≤ 0`). -/
theorem c19_tanh_sign_agree (q : Int) (h : q ≠ 0) :
    tanhSelectLe (.fin q) = tanhSelect (.fin q) (decide (q < 0)) := by
  have hs := scale_pos
  unfold tanhSelectLe tanhSelect
  congr 1
  simp only [leC]
  by_cases hq : q < 0
  · rw [decide_eq_true hq]; exact decide_eq_true (by omega)
  · rw [decide_eq_false hq]; exact decide_eq_false (by omega)

/-! ## T3 — softmax over ℝ -/

section Softmax
open Finset

variable {ι : Type} [Fintype ι]

/-- Softmax as coded in `softmax.rs`: pass 1 computes `m` (the maximum), pass 2
`yᵢ = exp(xᵢ − m)` and `S = Σ yᵢ`, pass 3 multiplies by `1 / S`. -/
noncomputable def softmax (x : ι → ℝ) (m : ℝ) (i : ι) : ℝ :=
  Real.exp (x i - m) * (1 / ∑ j, Real.exp (x j - m))

theorem expSum_pos [Nonempty ι] (x : ι → ℝ) (m : ℝ) : 0 < ∑ j, Real.exp (x j - m) :=
  Finset.sum_pos (fun j _ => Real.exp_pos _) Finset.univ_nonempty

/-- **C19.T3a** every output is strictly positive (non-empty input). -/
theorem c19_softmax_pos [Nonempty ι] (x : ι → ℝ) (m : ℝ) (i : ι) : 0 < softmax x m i :=
  mul_pos (Real.exp_pos _) (one_div_pos.mpr (expSum_pos x m))

/-- **C19.T3b** the outputs sum to one (non-empty input). -/
theorem c19_softmax_sum_one [Nonempty ι] (x : ι → ℝ) (m : ℝ) : ∑ i, softmax x m i = 1 := by
  unfold softmax
  rw [← Finset.sum_mul]
  exact mul_one_div_cancel (ne_of_gt (expSum_pos x m))

/-- Each output is at most one. -/
theorem c19_softmax_le_one [Nonempty ι] (x : ι → ℝ) (m : ℝ) (i : ι) : softmax x m i ≤ 1 := by
  rw [← c19_softmax_sum_one x m]
  exact Finset.single_le_sum (f := fun i => softmax x m i)
    (fun j _ => le_of_lt (c19_softmax_pos x m j)) (Finset.mem_univ i)

/-- **C19.T3c** invariance under the subtracted constant: whatever `m` is subtracted (in the
code: the maximum) the result is the textbook `exp(xᵢ) / Σⱼ exp(xⱼ)`. -/
theorem c19_softmax_shift_invariant [Nonempty ι] (x : ι → ℝ) (m : ℝ) (i : ι) :
    softmax x m i = Real.exp (x i) / ∑ j, Real.exp (x j) := by
  unfold softmax
  have hc : 0 < Real.exp (-m) := Real.exp_pos _
  have hS : 0 < ∑ j, Real.exp (x j) := Finset.sum_pos (fun j _ => Real.exp_pos _) Finset.univ_nonempty
  have e : ∀ j, Real.exp (x j - m) = Real.exp (x j) * Real.exp (-m) := by
    intro j; rw [sub_eq_add_neg, Real.exp_add]
  simp only [e]
  rw [← Finset.sum_mul]
  field_simp

/-- Corollary: shifting all inputs by a constant does not change the result. -/
theorem c19_softmax_input_shift [Nonempty ι] (x : ι → ℝ) (c m : ℝ) (i : ι) :
    softmax (fun j => x j - c) m i = softmax x m i := by
  have : softmax (fun j => x j - c) m i = softmax x (c + m) i := by
    unfold softmax
    have e : ∀ j, x j - c - m = x j - (c + m) := by intro j; ring
    simp only [e]
  rw [this, c19_softmax_shift_invariant, c19_softmax_shift_invariant]

/-- Non-vacuity: a two-element input. -/
example : softmax (fun _ : Fin 2 => (0 : ℝ)) 0 0 = 1 / 2 := by
  simp [softmax]

/-- The hypothesis "non-empty" is needed: for the empty input the sum is `0 ≠ 1`. -/
example : ∑ i, softmax (fun _ : Fin 0 => (0 : ℝ)) 0 i = 0 := by simp

end Softmax

end RtenVerif.ExpBits
