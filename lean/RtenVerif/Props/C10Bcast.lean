import RtenVerif.Props.C10Where

/-! # C10 — the `BinaryOp` broadcasting shape rule -/
namespace RtenVerif.ShapeInfer

theorem isOne_eval (σ : Env) (a : Sym) (h : a.isOne = true) : a.eval σ = some 1 := by
  cases a <;> simp_all [Sym.isOne, Sym.eval]

/-- **C10.T1-broadcast (one dimension)**: for ALL sizes (zero-sized dimensions included, since fix
a4a397a of `eval`), if NumPy
broadcasting of the instantiated sizes succeeds with `z`, the inferred dimension evaluates to `z` —
in every arm: structurally equal, literal 1 on either side, symbol against a fixed size (where the
rule *assumes* compatibility and returns the fixed size), and the `Broadcast(a, b)` fallback when
compatibility is unknown. -/
theorem c10_bdim_sound (σ : Env) (a b d : Sym) (x y z : Int)
    (ha : a.eval σ = some x) (hb : b.eval σ = some y)
    (hi : bdim a b = .ok d) (he : cb x y = some z) : d.eval σ = some z := by
  unfold bdim at hi
  unfold cb at he
  by_cases hbeq : a.beq b = true
  · simp only [hbeq, if_true] at hi; cases hi
    have := eval_beq σ a b hbeq
    rw [ha, hb] at this
    have hxy : x = y := Option.some.inj this
    simp [hxy] at he
    rw [ha, hxy, he]
  · simp only [hbeq, Bool.false_eq_true, if_false] at hi
    by_cases h1 : a.isOne = true
    · simp only [h1, if_true] at hi; cases hi
      have := isOne_eval σ a h1
      rw [ha] at this; cases this
      rw [hb]
      by_cases hy1 : (1 : Int) = y
      · simp [hy1] at he; rw [← he]
      · simp [hy1] at he; rw [← he]
    · simp only [h1, Bool.false_eq_true, if_false] at hi
      by_cases h2 : b.isOne = true
      · simp only [h2, if_true] at hi; cases hi
        have := isOne_eval σ b h2
        rw [hb] at this; cases this
        rw [ha]
        by_cases hx1 : x = 1
        · simp [hx1] at he; rw [← he, hx1]
        · simp [hx1] at he; rw [← he]
      · simp only [h2, Bool.false_eq_true, if_false] at hi
        split at hi
        · cases hi
        · -- symbol against a fixed size
          rename_i n
          cases hi
          simp only [Sym.eval] at hb ⊢; cases hb
          have hn : y ≠ 1 := by simpa [Sym.isOne] using h2
          by_cases hxy : x = y
          · simp [hxy] at he; rw [← he]
          · simp only [hxy, if_false] at he
            by_cases hx1 : x = 1
            · simp [hx1] at he; rw [← he]
            · simp [hx1, hn] at he
        · rename_i n
          cases hi
          simp only [Sym.eval] at ha ⊢; cases ha
          have hn : x ≠ 1 := by simpa [Sym.isOne] using h1
          by_cases hxy : x = y
          · simp [hxy] at he; rw [← he, hxy]
          · simp only [hxy, if_false, hn] at he
            by_cases hy1 : y = 1
            · simp [hy1] at he; rw [← he]
            · simp [hy1] at he
        · cases hi
          simp only [Sym.eval, ha, hb, Option.bind_eq_bind, Option.bind_some, Option.pure_def, bcastI]
          by_cases hxy : x = y
          · simp [hxy] at he; subst he; subst hxy
            by_cases h1 : x = 1 <;> simp [h1]
          · simp only [hxy, if_false] at he
            by_cases hx1 : x = 1
            · simp [hx1] at he; subst he; simp [hx1]
            · simp only [hx1, if_false] at he
              by_cases hy1 : y = 1
              · simp [hy1] at he; subst he; simp [hx1, hy1]
              · simp [hy1] at he

/-- **C10.T1-broadcast (padded shapes)**. -/
theorem c10_bdims_sound (σ : Env) : ∀ (as bs out : List Sym) (xs ys zs : List Int),
    evalList σ as = some xs → evalList σ bs = some ys →
    bdims as bs = .ok out → cbs xs ys = some zs → evalList σ out = some zs := by
  intro as
  induction as with
  | nil =>
    intro bs out xs ys zs ha _ hi he
    simp only [evalList, mapO] at ha; cases ha
    simp only [bdims] at hi; cases hi
    simp only [cbs] at he; cases he
    rfl
  | cons a as ih =>
    intro bs out xs ys zs ha hb hi he
    obtain ⟨x, xs', hax, has, rfl⟩ := evalList_cons σ a as xs ha
    cases bs with
    | nil =>
      simp only [evalList, mapO] at hb; cases hb
      simp only [bdims] at hi; cases hi
      simp only [cbs] at he; cases he
      rfl
    | cons b bs =>
      obtain ⟨y, ys', hby, hbs, rfl⟩ := evalList_cons σ b bs ys hb
      simp only [bdims] at hi
      simp only [cbs] at he
      cases hd : bdim a b with
      | error e => simp [hd] at hi
      | ok d =>
        simp only [hd] at hi
        cases hr : bdims as bs with
        | error e => simp [hr] at hi
        | ok r =>
          simp only [hr] at hi; cases hi
          cases hz : cb x y with
          | none => simp [hz] at he
          | some z =>
            simp only [hz] at he
            cases hzs : cbs xs' ys' with
            | none => simp [hzs] at he
            | some zs' =>
              simp only [hzs] at he; cases he
              exact evalList_cons_intro σ d r z zs'
                (c10_bdim_sound σ a b d x y z hax hby hd hz)
                (ih bs r xs' ys' zs' has hbs hr hzs)

theorem evalList_padLeft (σ : Env) (n : Nat) (ds : List Sym) (vs : List Int) (h : evalList σ ds = some vs) :
    evalList σ (padLeft n ds) = some (padC n vs) := by
  unfold padLeft padC
  rw [evalList_length σ ds vs h]
  refine evalList_append σ _ ds _ vs ?_ h
  generalize n - vs.length = k
  induction k with
  | zero => rfl
  | succ k ih => simpa [List.replicate_succ] using evalList_cons_intro σ (.val 1) _ 1 _ rfl ih

/-- **C10.T1-broadcast (shape rule)**: for two tensors whose inferred forms agree with the executed
ones (empty dimensions included), if `BinaryOp` infers a shape and NumPy broadcasting
of the executed shapes succeeds, every inferred dimension evaluates to the broadcast dimension. -/
theorem c10_binaryShape_sound (σ : Env) (a b : STn) (ca cb' : CT) (ad bd out : List Sym) (zs : List Int)
    (ha : Agrees σ a ca) (hb : Agrees σ b cb') (had : a.dims = some ad) (hbd : b.dims = some bd)
    (hi : binaryShape a b = .ok (.shape out)) (he : cbroadcast ca.dims cb'.dims = some zs) :
    Agrees σ (.shape out) (.shaped zs) := by
  have ea := dims_agree σ a ca ad ha had
  have eb := dims_agree σ b cb' bd hb hbd
  unfold binaryShape at hi
  simp only [had, hbd] at hi
  unfold cbroadcast at he
  rw [← evalList_length σ ad _ ea, ← evalList_length σ bd _ eb] at he
  cases hr : bdims (padLeft (Nat.max ad.length bd.length) ad) (padLeft (Nat.max ad.length bd.length) bd) with
  | error e => simp [hr, Except.map] at hi
  | ok r =>
    simp only [hr, Except.map] at hi
    cases hi
    exact c10_bdims_sound σ _ _ _ _ _ zs (evalList_padLeft σ _ ad _ ea) (evalList_padLeft σ _ bd _ eb)
      hr he

end RtenVerif.ShapeInfer
