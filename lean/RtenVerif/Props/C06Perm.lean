import RtenVerif.Props.C06
import RtenVerif.Props.C08Views

/-!
# C06 — `permuted` / `permute` / `transposed` / `into_permuted` keep the safety invariant

Stated on C09's executable layout model (`Layout.permuteIter`, `Layout.permuted`,
`Layout.transposed`; `Model/Layout.lean` is diffed against `rten-tensor` by C09's check; imported
read-only, together with C08's `valid_perm`).  A permuted layout addresses exactly the
elements of the source: every valid index of the result corresponds to a valid index of the
source with the same offset, so `VSafe` (in-storage, and injectivity for mutable views) is
inherited — for owned tensors (`permute`, `transpose`) and views (`permuted(_mut)`,
`transposed`) alike.
-/
namespace RtenVerif.TensorBounds
open RtenVerif.Overlap RtenVerif.Layout

/-- `Σ idx·stride` over zipped `(dimension, index component)` pairs. -/
def zsum : List ((Nat × Nat) × Nat) → Nat
  | [] => 0
  | x :: r => x.2 * x.1.2 + zsum r

def zvalid (l : List ((Nat × Nat) × Nat)) : Prop := ∀ x ∈ l, x.2 < x.1.1

theorem offset_eq_zsum : ∀ (d : List (Nat × Nat)) (j : List Nat), offset d j = zsum (d.zip j) := by
  intro d
  induction d with
  | nil => intro j; cases j <;> rfl
  | cons x xs ih =>
    obtain ⟨s, t⟩ := x
    intro j
    cases j with
    | nil => rfl
    | cons i is => simp only [offset, List.zip_cons_cons, zsum, ih]

theorem validIdx_zip : ∀ (d : List (Nat × Nat)) (j : List Nat),
    ValidIdx d j ↔ j.length = d.length ∧ zvalid (d.zip j) := by
  intro d
  induction d with
  | nil =>
    intro j
    cases j with
    | nil => exact ⟨fun _ => ⟨rfl, fun x hx => by simp at hx⟩, fun _ => .nil⟩
    | cons i is => exact ⟨fun h => (by cases h), fun h => (by simp at h)⟩
  | cons x xs ih =>
    obtain ⟨s, t⟩ := x
    intro j
    cases j with
    | nil => exact ⟨fun h => (by cases h), fun h => (by simp at h)⟩
    | cons i is =>
      constructor
      · intro h
        cases h with
        | cons h1 h2 =>
          obtain ⟨hl, hv⟩ := (ih is).mp h2
          refine ⟨by simp [hl], fun x hx => ?_⟩
          simp only [List.zip_cons_cons, List.mem_cons] at hx
          rcases hx with rfl | hx
          · exact h1
          · exact hv x hx
      · rintro ⟨hl, hv⟩
        simp only [List.length_cons, Nat.add_right_cancel_iff] at hl
        refine .cons (hv ((s, t), i) (by simp)) ((ih is).mpr ⟨hl, fun x hx => hv x ?_⟩)
        simp only [List.zip_cons_cons, List.mem_cons]
        exact Or.inr hx

theorem zsum_perm {l l' : List ((Nat × Nat) × Nat)} (h : l.Perm l') : zsum l = zsum l' := by
  induction h with
  | nil => rfl
  | cons x _ ih => simp only [zsum, ih]
  | swap x y l => simp only [zsum]; omega
  | trans _ _ ih1 ih2 => rw [ih1, ih2]

theorem zvalid_perm {l l' : List ((Nat × Nat) × Nat)} (h : l.Perm l') : zvalid l ↔ zvalid l' :=
  ⟨fun hv x hx => hv x (h.mem_iff.mpr hx), fun hv x hx => hv x (h.mem_iff.mp hx)⟩

/-- The source index of a permuted index: component `i` is the component of `j'` at the
position where `p` mentions `i`. -/
def unpermute (p : List Nat) (j' : List Nat) : List Nat :=
  (List.range p.length).map (fun i => j'.getD (p.idxOf i) 0)

theorem permute_embed {d : List (Nat × Nat)} {p : List Nat} (hp : p.Perm (List.range d.length))
    {j' : List Nat} (hj : ValidIdx (permuteIter d p) j') :
    ValidIdx d (unpermute p j') ∧ offset d (unpermute p j') = offset (permuteIter d p) j' := by
  have hlen : p.length = d.length := by rw [hp.length_eq, List.length_range]
  have hjl : j'.length = p.length := by
    rw [valid_length hj]; simp [permuteIter]
  have hnd : p.Nodup := hp.nodup_iff.mpr List.nodup_range
  let f : Nat → (Nat × Nat) × Nat := fun i => (d.getD i (0, 0), j'.getD (p.idxOf i) 0)
  have hA : (permuteIter d p).zip j' = p.map f := by
    apply List.ext_getElem
    · simp [permuteIter, hjl]
    · intro k h1 h2
      have hk : k < p.length := by simpa using h2
      simp only [List.getElem_zip, permuteIter, List.getElem_map, f]
      rw [hnd.idxOf_getElem k hk]
      simp [List.getD_eq_getElem?_getD, hjl, hk]
  have hB : d.zip (unpermute p j') = (List.range d.length).map f := by
    apply List.ext_getElem
    · simp [unpermute, hlen]
    · intro k h1 h2
      have hk : k < d.length := by simpa using h2
      simp only [List.getElem_zip, unpermute, List.getElem_map, List.getElem_range, f]
      rw [getD_eq d k hk]
  have hperm : ((permuteIter d p).zip j').Perm (d.zip (unpermute p j')) := by
    rw [hA, hB]; exact hp.map f
  obtain ⟨_, hv⟩ := (validIdx_zip _ _).mp hj
  refine ⟨(validIdx_zip _ _).mpr ⟨by simp [unpermute, hlen], (zvalid_perm hperm).mp hv⟩, ?_⟩
  rw [offset_eq_zsum, offset_eq_zsum, zsum_perm hperm]

theorem unpermute_inj {n : Nat} {p : List Nat} (hp : p.Perm (List.range n)) {a b : List Nat}
    (ha : a.length = p.length) (hb : b.length = p.length)
    (h : unpermute p a = unpermute p b) : a = b := by
  have hnd : p.Nodup := hp.nodup_iff.mpr List.nodup_range
  have hlen : p.length = n := by rw [hp.length_eq, List.length_range]
  apply List.ext_getElem (by rw [ha, hb])
  intro k h1 h2
  have hk : k < p.length := by rw [← ha]; exact h1
  have hpk : p[k] < p.length := by
    have : p[k] ∈ List.range n := hp.mem_iff.mp (List.getElem_mem hk)
    rw [hlen]; simpa using this
  have := congrArg (fun l => l.getD p[k] 0) h
  simp only [unpermute, List.getD_eq_getElem?_getD, List.getElem?_map, List.getElem?_range hpk,
    Option.map_some, Option.getD_some, hnd.idxOf_getElem k hk] at this
  simpa [List.getElem?_eq_getElem h1, List.getElem?_eq_getElem h2] using this

theorem vsafe_permuteIter {m : Bool} {d : List (Nat × Nat)} {n : Nat} {p : List Nat}
    (hperm : p.Perm (List.range d.length)) (hs : VSafe m d n) : VSafe m (permuteIter d p) n := by
  have hpl : (permuteIter d p).length = p.length := by simp [permuteIter]
  refine ⟨fun j hj => ?_, fun hm j j' hj hj' heq => ?_⟩
  · obtain ⟨v, o⟩ := permute_embed hperm hj
    have := hs.in_bounds _ v
    omega
  · obtain ⟨v, o⟩ := permute_embed hperm hj
    obtain ⟨v', o'⟩ := permute_embed hperm hj'
    have := hs.inj hm _ _ v v' (by omega)
    exact unpermute_inj hperm (by rw [valid_length hj, hpl]) (by rw [valid_length hj', hpl]) this

/-- **C06.T2x** any valid permutation of the dimensions (`permuted`, `permuted_mut`, `permute`,
`into_permuted`) keeps `VSafe`. -/
theorem c06_T2_permuted {m : Bool} {d : List (Nat × Nat)} {n : Nat} {p : List Nat}
    (hp : isValidPermutation d.length p = true) (hs : VSafe m d n) :
    VSafe m (permuteIter d p) n := vsafe_permuteIter (valid_perm hp) hs

/-- `transposed` / `transpose` on C09's model (`permute_iter((0..ndim).rev())`). -/
theorem c06_T2_transposed_view {m : Bool} (v : Layout.View) {n : Nat} (hs : VSafe m v.dims n) :
    VSafe m (Layout.transposed v).dims n :=
  vsafe_permuteIter (List.reverse_perm _) hs

/-- The same on C09's `permuted` (the function its driver calls). -/
theorem c06_T2_permuted_view {m : Bool} {v v' : Layout.View} {p : List Nat} {n : Nat}
    (h : Layout.permuted v p = .ok v') (hs : VSafe m v.dims n) : VSafe m v'.dims n := by
  unfold Layout.permuted at h
  split at h
  · next hp => cases h; exact c06_T2_permuted hp hs
  · cases h

/-- Non-vacuity. -/
example : isValidPermutation 3 [2, 0, 1] = true ∧
    permuteIter [(2, 12), (3, 4), (4, 1)] [2, 0, 1] = [(4, 1), (2, 12), (3, 4)] ∧
    unpermute [2, 0, 1] [3, 1, 2] = [1, 2, 3] := by decide

/-! ## Extended programs and chains -/

theorem prodNZ_shape_perm {l l' : List (Nat × Nat)} (h : l.Perm l') :
    prodNZ (shapeOf l) = prodNZ (shapeOf l') := by
  induction h with
  | nil => rfl
  | cons x _ ih => simp only [shapeOf, List.map_cons, prodNZ] at *; rw [ih]
  | swap x y l =>
    simp only [shapeOf, List.map_cons, prodNZ]
    split <;> split <;> simp [Nat.mul_left_comm]
  | trans _ _ ih1 ih2 => rw [ih1, ih2]

theorem maxOffset_perm {l l' : List (Nat × Nat)} (h : l.Perm l') : maxOffset l = maxOffset l' := by
  induction h with
  | nil => rfl
  | cons x _ ih => obtain ⟨a, b⟩ := x; simp only [maxOffset, ih]
  | swap x y l => obtain ⟨a, b⟩ := x; obtain ⟨c, d⟩ := y; simp only [maxOffset]; omega
  | trans _ _ ih1 ih2 => rw [ih1, ih2]

/-- `permute(order)` / `transpose()` on an owned tensor: `self.layout = self.layout.permuted(..)`;
an invalid permutation panics before the assignment. -/
def permuteOwned (t : Owned) (p : List Nat) : Owned :=
  if isValidPermutation t.dims.length p then { t with dims := permuteIter t.dims p } else t

def transposeOwned (t : Owned) : Owned :=
  { t with dims := permuteIter t.dims (List.range t.dims.length).reverse }

theorem osafe_permuteIter {t : Owned} {p : List Nat} (hp : p.Perm (List.range t.dims.length))
    (hs : OSafe t) : OSafe { t with dims := permuteIter t.dims p } := by
  have hperm := permuteIter_perm hp
  exact ⟨vsafe_permuteIter hp hs.vsafe, hs.cap,
    by show prodNZ (shapeOf (permuteIter t.dims p)) ≤ _
       rw [prodNZ_shape_perm hperm]; exact hs.shape_fits,
    by show maxOffset (permuteIter t.dims p) < _
       rw [maxOffset_perm hperm]; exact hs.offset_fits⟩

/-- Every mutating call on an owned tensor that has a preservation theorem. -/
inductive OwnedOpY where
  | x (op : OwnedOpX)
  | permute (order : List Nat)
  | transpose
  deriving DecidableEq, Repr

def stepOwnedY (t : Owned) : OwnedOpY → Owned
  | .x op => stepOwnedX t op
  | .permute p => permuteOwned t p
  | .transpose => transposeOwned t

/-- **C06.T2y** any program of `clip_dim`, `append`, `reshape`, `make_contiguous`, `remove_axis`,
`insert_axis`, `move_axis`, `permute` and `transpose` calls (successful or failing) on an owned
tensor preserves the invariant `OSafe` (in-storage, injective, within capacity, size guards). -/
theorem c06_T2_owned_programY (ops : List OwnedOpY) {t : Owned} (hs : OSafe t) :
    OSafe (ops.foldl stepOwnedY t) := by
  induction ops generalizing t with
  | nil => exact hs
  | cons op ops ih =>
    apply ih
    cases op with
    | x op => exact c06_T2_owned_programX [op] hs
    | permute p =>
      simp only [stepOwnedY, permuteOwned]
      split
      · next hp => exact osafe_permuteIter (valid_perm hp) hs
      · exact hs
    | transpose => exact osafe_permuteIter (List.reverse_perm _) hs

/-- View-producing / view-editing calls with a preservation theorem. -/
inductive ViewOpX where
  | base (op : ViewOp)
  | permuted (order : List Nat)
  | transposed
  | indexAxis (axis index : Nat)
  | removeAxis (index : Nat)
  | insertAxis (index : Nat)
  | moveAxis (src dst : Nat)
  deriving DecidableEq, Repr

def applyViewX (mutable : Bool) (v : AView) : ViewOpX → Option AView
  | .base op => applyView mutable v op
  | .permuted p =>
    if isValidPermutation v.dims.length p then some { v with dims := permuteIter v.dims p } else none
  | .transposed => some { v with dims := permuteIter v.dims (List.range v.dims.length).reverse }
  | .indexAxis axis index => (indexAxis v.dims v.len axis index).map v.sub
  | .removeAxis i => (removeAxis v.dims i).map (fun d => { v with dims := d })
  | .insertAxis i => (insertAxis v.dims i).map (fun d => { v with dims := d })
  | .moveAxis s d => (moveAxis v.dims s d).map (fun x => { v with dims := x })

def runViewsX (mutable : Bool) : AView → List ViewOpX → Option AView
  | v, [] => some v
  | v, op :: ops =>
    match applyViewX mutable v op with
    | none => none
    | some w => runViewsX mutable w ops

theorem c06_T2_view_stepX {m : Bool} {v w : AView} {op : ViewOpX}
    (hs : VSafe m v.dims v.len) (h : applyViewX m v op = some w) :
    VSafe m w.dims w.len ∧ v.base ≤ w.base ∧ w.base + w.len ≤ v.base + v.len := by
  have hax := c06_T2_axis_edits (d' := w.dims) hs
  cases op with
  | base op => exact c06_T2_view_step hs h
  | permuted p =>
    simp only [applyViewX] at h
    split at h
    · next hp => cases h; exact ⟨c06_T2_permuted hp hs, Nat.le_refl _, Nat.le_refl _⟩
    · cases h
  | transposed =>
    simp only [applyViewX, Option.some.injEq] at h
    subst h
    exact ⟨vsafe_permuteIter (List.reverse_perm _) hs, Nat.le_refl _, Nat.le_refl _⟩
  | indexAxis axis index =>
    simp only [applyViewX, Option.map_eq_some_iff] at h
    obtain ⟨x, hx, rfl⟩ := h
    obtain ⟨h1, h2, hb, hi⟩ := c06_T2_indexAxis hx
    exact ⟨⟨fun j hj => by have := (hb j hj).1; simp only [AView.sub]; omega,
      fun hm => hi (hs.inj hm)⟩, sub_facts h1 h2⟩
  | removeAxis i =>
    simp only [applyViewX, Option.map_eq_some_iff] at h
    obtain ⟨x, hx, rfl⟩ := h
    exact ⟨hax.1 i hx, Nat.le_refl _, Nat.le_refl _⟩
  | insertAxis i =>
    simp only [applyViewX, Option.map_eq_some_iff] at h
    obtain ⟨x, hx, rfl⟩ := h
    exact ⟨hax.2.1 i hx, Nat.le_refl _, Nat.le_refl _⟩
  | moveAxis s d =>
    simp only [applyViewX, Option.map_eq_some_iff] at h
    obtain ⟨x, hx, rfl⟩ := h
    exact ⟨hax.2.2 s d hx, Nat.le_refl _, Nat.le_refl _⟩

/-- **C06.T2z** any chain of slices, axis slices, split halves, broadcasts (immutable), permutations,
transpositions, `index_axis`, `remove_axis`, `insert_axis`, `move_axis` starting from a `VSafe`
view yields a `VSafe` view whose storage lies inside the starting view's storage. -/
theorem c06_T2_view_chainX {m : Bool} : ∀ (ops : List ViewOpX) {v w : AView},
    VSafe m v.dims v.len → runViewsX m v ops = some w →
    VSafe m w.dims w.len ∧ v.base ≤ w.base ∧ w.base + w.len ≤ v.base + v.len := by
  intro ops
  induction ops with
  | nil =>
    intro v w hs h
    simp only [runViewsX, Option.some.injEq] at h
    subst h
    exact ⟨hs, Nat.le_refl _, Nat.le_refl _⟩
  | cons op ops ih =>
    intro v w hs h
    simp only [runViewsX] at h
    split at h
    · cases h
    · next u hu =>
      obtain ⟨hsu, h1, h2⟩ := c06_T2_view_stepX hs hu
      obtain ⟨hsw, h3, h4⟩ := ih hsu h
      exact ⟨hsw, by omega, by omega⟩

/-- Non-vacuity: transpose a 3×4 view, take row 1 of the result, insert an axis, slice it. -/
example : runViewsX true ⟨0, 12, [(3, 4), (4, 1)]⟩
      [.transposed, .indexAxis 0 1, .insertAxis 0, .base (.sliceAxis 1 1 3)] =
    some ⟨5, 5, [(1, 12), (2, 4)]⟩ := by decide

/-! ## T3 (continued): `slice_axis` / `clip_dim` / `split` ranges on machine integers -/

namespace M

def strideAt (d : List (U × U)) (axis : Nat) : U := (d.getD axis (0, 0)).2

/-- The offset range `slice_axis(axis, s..s+n)` and `clip_dim` compute on `usize`
(wrap-around `*`, `+`, the `is_empty()` test on the wrap-around element count); with
`s = mid`, `n = size - mid` it is also `split`'s `mid_offset` and the right half's length. -/
def blockRange (d : List (U × U)) (axis : Nat) (s n : U) : U × U :=
  if len (setSize d axis n) = 0 then (0, 0)
  else (s * strideAt (setSize d axis n) axis,
        s * strideAt (setSize d axis n) axis + minDataLen (setSize d axis n))

end M

theorem strideAt_toN (d : List (M.U × M.U)) (axis : Nat) :
    (M.strideAt d axis).toNat = strideAt (M.toN d) axis := by
  induction d generalizing axis with
  | nil => rfl
  | cons x xs ih =>
    cases axis with
    | zero => rfl
    | succ a =>
      have := ih a
      simp only [M.strideAt, strideAt, List.getD_cons_succ, M.toN_cons] at *
      exact this

/-- **C06.T3n** on an accepted tensor the `usize` evaluation of the block range equals the ideal
one the model's `sliceAxis` / `clipDim` / `split` use — no product or sum wraps, and the
wrap-around element count behind `is_empty()` is the true count. -/
theorem c06_T3_blockRange (d : List (M.U × M.U)) {k : Nat} {m : Bool}
    (acc : Accepted (M.toN d) k m) {axis : Nat} (s n : M.U) (hax : axis < d.length)
    (hle : s.toNat + n.toNat ≤ sizeAt (M.toN d) axis) :
    ((M.blockRange d axis s n).1.toNat, (M.blockRange d axis s n).2.toNat) =
      (if len (setSize (M.toN d) axis n.toNat) = 0 then (0, 0)
       else (s.toNat * strideAt (setSize (M.toN d) axis n.toNat) axis,
             s.toNat * strideAt (setSize (M.toN d) axis n.toNat) axis +
               minDataLen (setSize (M.toN d) axis n.toNat))) := by
  have hW := M.isizeMax_lt_W
  have hax' : axis < (M.toN d).length := by simpa [M.toN] using hax
  obtain ⟨hlenfit, hrest⟩ := c06_T3_subblock_no_wrap acc hax' hle
  have hlen : (M.len (M.setSize d axis n)).toNat = len (setSize (M.toN d) axis n.toNat) := by
    rw [M.len_toNat _ (by rw [setSize_toN]; omega), setSize_toN]
  unfold M.blockRange
  by_cases h0 : len (setSize (M.toN d) axis n.toNat) = 0
  · have : M.len (M.setSize d axis n) = 0 := (M.eq_zero_iff _).mpr (by rw [hlen]; exact h0)
    rw [if_pos this, if_pos h0]; rfl
  · have : ¬ M.len (M.setSize d axis n) = 0 := fun h => h0 (by rw [← hlen, h]; rfl)
    rw [if_neg this, if_neg h0]
    obtain ⟨h1, h2⟩ := hrest h0
    rw [strideAt_setSize] at *
    have hst : (M.strideAt (M.setSize d axis n) axis).toNat = strideAt (M.toN d) axis := by
      rw [strideAt_toN, setSize_toN, strideAt_setSize]
    have hmul : (s * M.strideAt (M.setSize d axis n) axis).toNat =
        s.toNat * strideAt (M.toN d) axis := by
      rw [M.mul_toNat, hst, Nat.mod_eq_of_lt (by omega)]
    have hmo : maxOffset (setSize (M.toN d) axis n.toNat) < isizeMax :=
      Nat.lt_of_le_of_lt (maxOffset_setSize_le _ _ _ (by omega)) acc.offset_fits
    have hmdl : (M.minDataLen (M.setSize d axis n)).toNat =
        minDataLen (setSize (M.toN d) axis n.toNat) := by
      rw [M.minDataLen_toNat _ (by rw [setSize_toN]; omega), setSize_toN]
    rw [M.add_toNat, hmul, hmdl, Nat.mod_eq_of_lt (by omega)]

/-- Non-vacuity: rows 1..3 of a 3×4 tensor on machine integers. -/
example : M.blockRange [(3, 4), (4, 1)] 0 1 2 = (4, 12) := by decide

end RtenVerif.TensorBounds
