import RtenVerif.Props.C06Perm

/-!
# C06 — `merge_axes` keeps the safety invariant

On C09's model of `merge_axes` (`Layout.mergeStep` / `Layout.mergeAxes`, diffed against the
real code by C09's check).  Merging an outer dimension `(osz, ost)` into the inner one
`(isz, ist)` when `osz = 1` or `ost = ist·isz` gives `(isz·osz, ist)`; the merged index `J`
stands for the pair `(J / isz, J % isz)` at the same offset, so the merged layout addresses
exactly the same elements.
-/
namespace RtenVerif.TensorBounds
open RtenVerif.Overlap RtenVerif.Layout

theorem valid_append_inv : ∀ (a b : List (Nat × Nat)) (j : List Nat), ValidIdx (a ++ b) j →
    ∃ x y, j = x ++ y ∧ ValidIdx a x ∧ ValidIdx b y := by
  intro a
  induction a with
  | nil => intro b j h; exact ⟨[], j, rfl, .nil, h⟩
  | cons d ds ih =>
    obtain ⟨s, t⟩ := d
    intro b j h
    cases h with
    | @cons _ _ i _ is h1 h2 =>
      obtain ⟨x, y, rfl, hx, hy⟩ := ih b is h2
      exact ⟨i :: x, y, rfl, .cons h1 hx, hy⟩

/-- Replacing a segment of a layout by one that addresses the same offsets (through an
injective index map `φ`) keeps `VSafe`. -/
theorem vsafe_replace_mid {m : Bool} {pre mid mid' suf : List (Nat × Nat)} {n : Nat}
    (φ : List Nat → List Nat)
    (hφ : ∀ y, ValidIdx mid' y → ValidIdx mid (φ y) ∧ offset mid (φ y) = offset mid' y)
    (hφi : ∀ y y', ValidIdx mid' y → ValidIdx mid' y' → φ y = φ y' → y = y')
    (hs : VSafe m (pre ++ (mid ++ suf)) n) : VSafe m (pre ++ (mid' ++ suf)) n := by
  have key : ∀ j, ValidIdx (pre ++ (mid' ++ suf)) j → ∃ x y z, j = x ++ (y ++ z) ∧
      ValidIdx pre x ∧ ValidIdx mid' y ∧ ValidIdx suf z ∧
      ValidIdx (pre ++ (mid ++ suf)) (x ++ (φ y ++ z)) ∧
      offset (pre ++ (mid ++ suf)) (x ++ (φ y ++ z)) = offset (pre ++ (mid' ++ suf)) j := by
    intro j hj
    obtain ⟨x, yz, rfl, hx, hyz⟩ := valid_append_inv _ _ _ hj
    obtain ⟨y, z, rfl, hy, hz⟩ := valid_append_inv _ _ _ hyz
    obtain ⟨hv, ho⟩ := hφ y hy
    obtain ⟨v1, o1⟩ := valid_append _ _ _ _ hv hz
    obtain ⟨v2, o2⟩ := valid_append _ _ _ _ hx v1
    obtain ⟨v3, o3⟩ := valid_append _ _ _ _ hy hz
    obtain ⟨v4, o4⟩ := valid_append _ _ _ _ hx v3
    exact ⟨x, y, z, rfl, hx, hy, hz, v2, by omega⟩
  refine ⟨fun j hj => ?_, fun hm j j' hj hj' heq => ?_⟩
  · obtain ⟨x, y, z, rfl, _, _, _, v, o⟩ := key j hj
    have := hs.in_bounds _ v
    omega
  · obtain ⟨x, y, z, rfl, hx, hy, hz, v, o⟩ := key j hj
    obtain ⟨x', y', z', rfl, hx', hy', hz', v', o'⟩ := key j' hj'
    have heq' := hs.inj hm _ _ v v' (by omega)
    have h1 := List.append_inj heq' (by rw [valid_length hx, valid_length hx'])
    have h2 := List.append_inj h1.2
      (by rw [valid_length (hφ y hy).1, valid_length (hφ y' hy').1])
    rw [h1.1, hφi y y' hy hy' h2.1, h2.2]

/-- One merge: `(osz, ost), (isz, ist)` → `(isz·osz, ist)`. -/
theorem merge_pair_embed {osz ost isz ist : Nat} (hc : osz = 1 ∨ ost = ist * isz) (y : List Nat)
    (hy : ValidIdx [(isz * osz, ist)] y) :
    ValidIdx [(osz, ost), (isz, ist)] [y.headD 0 / isz, y.headD 0 % isz] ∧
    offset [(osz, ost), (isz, ist)] [y.headD 0 / isz, y.headD 0 % isz] =
      offset [(isz * osz, ist)] y := by
  cases hy with
  | @cons _ _ J _ js h1 h2 =>
    cases h2
    simp only [List.headD_cons]
    have hisz : 0 < isz := by
      rcases Nat.eq_zero_or_pos isz with h | h
      · subst h; simp at h1
      · exact h
    have hd : J / isz < osz := Nat.div_lt_of_lt_mul h1
    have hm : J % isz < isz := Nat.mod_lt _ hisz
    refine ⟨.cons hd (.cons hm .nil), ?_⟩
    simp only [offset]
    have hJ := Nat.div_add_mod J isz
    rcases hc with h | h
    · subst h
      have hlt : J < isz := by omega
      rw [Nat.div_eq_of_lt hlt, Nat.mod_eq_of_lt hlt]
      omega
    · subst h
      have : J / isz * (ist * isz) + (J % isz * ist + 0) = (isz * (J / isz) + J % isz) * ist := by
        rw [Nat.add_mul, Nat.mul_comm ist isz, ← Nat.mul_assoc, Nat.mul_comm (J / isz) isz]
        omega
      rw [this, hJ, Nat.add_zero]

theorem vsafe_mergeStep {m : Bool} {pre acc : List (Nat × Nat)} {outer : Nat × Nat} {n : Nat}
    (hs : VSafe m (pre ++ outer :: acc) n) : VSafe m (pre ++ mergeStep acc outer) n := by
  obtain ⟨osz, ost⟩ := outer
  cases acc with
  | nil => exact hs
  | cons h rest =>
    obtain ⟨isz, ist⟩ := h
    simp only [mergeStep]
    split
    · next hc =>
      have hs' : VSafe m (pre ++ ([(osz, ost), (isz, ist)] ++ rest)) n := hs
      have := vsafe_replace_mid (mid' := [(isz * osz, ist)])
        (fun y => [y.headD 0 / isz, y.headD 0 % isz])
        (fun y hy => merge_pair_embed hc y hy)
        (fun y y' hy hy' h => by
          cases hy with
          | @cons _ _ J _ js h1 h2 =>
            cases h2
            cases hy' with
            | @cons _ _ J' _ js' h1' h2' =>
              cases h2'
              simp only [List.headD_cons, List.cons.injEq, and_true] at h
              have := Nat.div_add_mod J isz
              have := Nat.div_add_mod J' isz
              rw [h.1, h.2] at *
              have : J = J' := by omega
              rw [this]) hs'
      exact this
    · exact hs

theorem vsafe_mergeFold {m : Bool} {n : Nat} : ∀ (ys acc : List (Nat × Nat)),
    VSafe m (ys.reverse ++ acc) n → VSafe m (ys.foldl mergeStep acc) n := by
  intro ys
  induction ys with
  | nil => intro acc h; simpa using h
  | cons o ys ih =>
    intro acc h
    simp only [List.foldl_cons]
    apply ih
    simp only [List.reverse_cons, List.append_assoc, List.singleton_append] at h
    exact vsafe_mergeStep h

/-- **C06.T2aa** `merge_axes` (views and owned tensors) keeps `VSafe`. -/
theorem c06_T2_mergeAxes {m : Bool} {d : List (Nat × Nat)} {n : Nat} (hs : VSafe m d n) :
    VSafe m (mergeAxes d) n := by
  unfold mergeAxes
  apply vsafe_mergeFold
  simpa using hs

/-- Non-vacuity: a contiguous 2×3×4 layout merges into one dimension, a sliced one only
partly. -/
example : mergeAxes [(2, 12), (3, 4), (4, 1)] = [(24, 1)] ∧
    mergeAxes [(2, 12), (2, 4), (4, 1)] = [(2, 12), (8, 1)] := by decide

/-! ## `squeezed` -/

theorem insertAt_append_length {α : Type} : ∀ (pre xs : List α) (a : α),
    insertAt (pre ++ xs) pre.length a = pre ++ a :: xs := by
  intro pre
  induction pre with
  | nil => intro xs a; exact insertAt_zero xs a
  | cons p ps ih => intro xs a; simp only [List.cons_append, List.length_cons, insertAt, ih]

theorem vsafe_filterUnits {m : Bool} {n : Nat} : ∀ (d pre : List (Nat × Nat)),
    VSafe m (pre ++ d) n → VSafe m (pre ++ d.filter (fun p => p.1 != 1)) n := by
  intro d
  induction d with
  | nil => intro pre h; simpa using h
  | cons x xs ih =>
    obtain ⟨s, t⟩ := x
    intro pre h
    by_cases h1 : s = 1
    · subst h1
      have hf : ((1, t) :: xs).filter (fun p => p.1 != 1) = xs.filter (fun p => p.1 != 1) := by
        simp [List.filter_cons]
      rw [hf]
      apply ih
      rw [← insertAt_append_length pre xs (1, t)] at h
      exact vsafe_remove_unit (by simp) h
    · have hf : ((s, t) :: xs).filter (fun p => p.1 != 1) =
          (s, t) :: xs.filter (fun p => p.1 != 1) := by
        simp [List.filter_cons, h1]
      rw [hf]
      have := ih (pre ++ [(s, t)]) (by simpa using h)
      simpa using this

/-- **C06.T2ab** `squeezed` (drop all size-1 dimensions; C09's `Layout.squeezed`) keeps `VSafe`. -/
theorem c06_T2_squeezed {m : Bool} (v : Layout.View) {n : Nat} (hs : VSafe m v.dims n) :
    VSafe m (Layout.squeezed v).dims n := by
  have := vsafe_filterUnits v.dims [] (by simpa using hs)
  simpa [Layout.squeezed] using this

end RtenVerif.TensorBounds
