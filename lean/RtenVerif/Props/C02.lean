import RtenVerif.Lemmas.ExecutorRun
import RtenVerif.Lemmas.ExecutorOrderMain
import RtenVerif.Lemmas.ExecutorCaps
import RtenVerif.Lemmas.ExecutorDemoOps
import RtenVerif.Lemmas.PlannerSpec
/-!
# C02 — Run results are independent of execution strategy

Model: `Model/Executor.lean` (`run_plan` as a state machine over abstract values, abstract
operators).  All theorems are about **top-level runs** (`Model::run`, `Graph::run`,
`partial_run`: no capture environment, `Graph::captures()` empty); the executor model also
covers runs of subgraphs with a capture environment, which are tied to the code by the trace
correspondence only.

Hypotheses used throughout
* `WF r`: the request is what `create_plan`'s argument checks accept (an id is not supplied
  twice, supplied ids are value or constant nodes) on a graph whose operator outputs are
  value nodes, and `r.fixed` (the code as it stands, see `c02_prefix_*` below);
* `Contract ops g`: the per-operator contract — `run_in_place` on the taken inputs equals
  `run` on the re-assembled input list, for the declared in-place positions and, for
  commutative operators, for any position; `in_place_inputs()` has no duplicates; operators
  with subgraphs do not run in place.  Discharged per operator by C13's differential check.
* the plan consists of operator nodes and the requested outputs are distinct (C03:
  `PlanOK.valid`, `ArgsOK`) — see `c02_of_planOK`.

Proved: T1 (counters, with the exact `u8` behaviour), T2 (nothing that still has a use leaves
`temp_values`), T3 (outcome = naive evaluation: same outputs, or the same error class at
the same operator, or the same panic), T4 (borrowed inputs and constants are never in
`temp_values`, in-place operands come from `temp_values`), independence of pool / reference
mode / owned-vs-borrowed split, independence of the plan order for graphs with unique
producers (`c02_plan_independent`), and T1/T2/T4 for runs with any capture environment
(`c02_caps_*`), and T3 for runs whose captures are all by reference
(`c02_T3_refinement_caps_partial`).  Not proved: T3 with by-value (takeable) captures; thread count and prepacking (outside
the model: operator kernels).
-/
namespace RtenVerif.Executor
open RtenVerif.Graph RtenVerif.Planner

/-! ## Reachable states -/

/-- Every state reached after running a prefix `pre` of the plan satisfies `Sim` with the
environment of the naive evaluation of the same prefix. -/
theorem c02_reachable {V : Type} {ops : Ops V} {r : Run V} {pre rest outs : List Nat}
    {rc : Nat → Nat} {st : St V} (hwf : WF r) (hcap : r.g.captures = []) (hct : Contract ops r.g)
    (hrc : initRc r.g (pre ++ rest) outs = some rc)
    (hrun : (runSteps ops r { temps := initTemps r, rc := rc, caps := nocap } pre).1 = .ok st) :
    ∃ E, naiveSteps ops r nocap (fun _ => none) pre = .ok E ∧
      Sim r nocap (uses r.g (pre ++ rest) outs) rest outs st E := by
  have hs := Sim.init nocap hwf hrc
  have := runSteps_refines_prefix hwf (capsWF_nocap r hcap) hct rest pre _ _ hs
  rw [hrun] at this
  exact this

/-- **T1 (counting phase).** `rc v = min(255, uses of v)` where a use is an occurrence among
`operator_dependencies` of a plan entry (value nodes only) or among the requested outputs. -/
theorem c02_T1_init {g : Graph} {plan outs : List Nat} {rc : Nat → Nat}
    (h : initRc g plan outs = some rc) (v : Nat) : rc v = min (uses g plan outs v) 255 :=
  initRc_eq h v

/-- **T1 (invariant).** At every step, for every value node: the counter is the number of
remaining uses — unless the id has 255 or more uses in total, in which case the counter is
stuck at 255 for the whole run (such a value is never taken in place and never released
before the end of the run: conservative, never unsafe). -/
theorem c02_T1_refcount {V : Type} {ops : Ops V} {r : Run V} {pre rest outs : List Nat}
    {rc : Nat → Nat} {st : St V} (hwf : WF r) (hcap : r.g.captures = []) (hct : Contract ops r.g)
    (hrc : initRc r.g (pre ++ rest) outs = some rc)
    (hrun : (runSteps ops r { temps := initTemps r, rc := rc, caps := nocap } pre).1 = .ok st)
    (v : Nat) (hv : isValue r.g v = true) :
    st.rc v = if 255 ≤ uses r.g (pre ++ rest) outs v then 255 else uses r.g rest outs v := by
  obtain ⟨E, _, hs⟩ := c02_reachable hwf hcap hct hrc hrun
  exact (hs.rc v hv).1

/-- **T2 (no use-after-take).** A value that a later step or a requested output still needs
(and that exists at all: the naive evaluation has a value for it) is still in
`temp_values` — whatever was taken in place, moved into a subgraph by value or released to
the pool had no remaining use. -/
theorem c02_T2_no_use_after_take {V : Type} {ops : Ops V} {r : Run V} {pre rest outs : List Nat}
    {rc : Nat → Nat} {st : St V} (hwf : WF r) (hcap : r.g.captures = []) (hct : Contract ops r.g)
    (hrc : initRc r.g (pre ++ rest) outs = some rc)
    (hrun : (runSteps ops r { temps := initTemps r, rc := rc, caps := nocap } pre).1 = .ok st) :
    ∃ E, naiveSteps ops r nocap (fun _ => none) pre = .ok E ∧
      ∀ v, isValue r.g v = true → r.borrowed v = none → 0 < uses r.g rest outs v →
        ∀ x, val r E v = some x → st.temps v = some x := by
  obtain ⟨E, hE, hs⟩ := c02_reachable hwf hcap hct hrc hrun
  refine ⟨E, hE, ?_⟩
  intro v hv hb hu x hx
  have hne := hs.live v hv hb hu (by rw [hx]; simp)
  cases ht : st.temps v with
  | none => exact absurd ht hne
  | some y =>
    have := (hs.agree v y ht).2.2
    rw [hx] at this
    simp only [Option.some.injEq] at this
    rw [this]

/-- Step form of T2: an id removed from `temp_values` by the take phase of a step (in place
or by value) had count 1 and is a dependency of that step, so it has no later use. -/
theorem c02_T2_taken_dead {V : Type} {ops : Ops V} {r : Run V} {caps0 : Nat → Option (V × Bool)}
    {total : Nat → Nat} {i : Nat}
    {rest outs : List Nat} {st st' : St V} {E : Nat → Option V} {tr : StepTrace}
    (hcw : CapsWF r caps0)
    (hs : Sim r caps0 total (i :: rest) outs st E) (P : StepParts ops r st st' i tr) (x : Nat)
    (hx : P.st2.temps x ≠ st.temps x) : uses r.g rest outs x = 0 := by
  have T := takeFacts P (hs.noTake hcw)
  rcases T.htemps x with h | ⟨_, hr1, hmem, hne⟩
  · exact absurd h hx
  · cases ht : st.temps x with
    | none => exact absurd ht hne
    | some y =>
      have hv := (hs.agree x y ht).1
      obtain ⟨h1, _⟩ := hs.rc x hv
      rw [hr1, uses_cons P.hop rest outs x hv] at h1
      have := List.count_pos_iff.mpr hmem
      split at h1 <;> omega

/-- **T4.** Borrowed inputs and constants never enter `temp_values`: every id in
`temp_values` is a value node that was not supplied as a view. -/
theorem c02_T4_temps {V : Type} {ops : Ops V} {r : Run V} {pre rest outs : List Nat}
    {rc : Nat → Nat} {st : St V} (hwf : WF r) (hcap : r.g.captures = []) (hct : Contract ops r.g)
    (hrc : initRc r.g (pre ++ rest) outs = some rc)
    (hrun : (runSteps ops r { temps := initTemps r, rc := rc, caps := nocap } pre).1 = .ok st)
    (v : Nat) (x : V) (hx : st.temps v = some x) :
    isValue r.g v = true ∧ isConstant r.g v = false ∧ r.borrowed v = none := by
  obtain ⟨E, _, hs⟩ := c02_reachable hwf hcap hct hrc hrun
  obtain ⟨h1, h2, _⟩ := hs.agree v x hx
  exact ⟨h1, isValue_not_const h1, h2⟩

/-- **T4 (in-place operands).** Every value passed to `run_in_place` was taken out of
`temp_values`: it belongs to a value node that is neither a constant nor a borrowed input,
had reference count 1, and sits at a declared in-place position (or the operator is
commutative).  Feeds C25. -/
theorem c02_T4_inplace_operands {V : Type} {ops : Ops V} {r : Run V}
    {caps0 : Nat → Option (V × Bool)} {total : Nat → Nat} {i : Nat}
    {rest outs : List Nat} {st st' : St V} {E : Nat → Option V} {tr : StepTrace}
    (hcw : CapsWF r caps0)
    (hs : Sim r caps0 total (i :: rest) outs st E) (P : StepParts ops r st st' i tr)
    (p : Nat) (v : V) (hpv : (p, v) ∈ P.taken) :
    ∃ id, P.op.inputs[p]? = some (some id) ∧ st.temps id = some v ∧ st.rc id = 1 ∧
      isValue r.g id = true ∧ isConstant r.g id = false ∧ r.borrowed id = none ∧
      (p ∈ ops.inPlaceIdx i ∨ P.op.commutative = true) := by
  obtain ⟨id, h1, h2, h3, h4⟩ := (takeFacts P (hs.noTake hcw)).htaken p v hpv
  obtain ⟨h5, h6, _⟩ := hs.agree id v h4
  exact ⟨id, h1, h4, h3, h5, isValue_not_const h5, h6, h2⟩

/-! ## The `u8` counter: why T1 is not `min(255, remaining uses)` -/

/-- `0:x 1:y  2: y = F(x, x, …, x)` with 255 copies of `x`. -/
def satG : Graph :=
  { nodes := [.value, .value,
      .operator { inputs := List.replicate 255 (some 0), outputs := [some 1] }] }

def satOps : Ops Nat :=
  { len := fun _ => 1, inPlaceIdx := fun _ => [], isSubgraph := fun _ => false
    run := fun _ _ _ => some [5], runInPlace := fun _ _ _ => none }

def satRun : Run Nat :=
  { g := satG, consts := fun _ => 0, borrowed := fun _ => none
    owned := fun v => if v = 0 then some 9 else none }

/-- The state after the only step: counter of `x`, remaining uses of `x`, `temp_values[x]`. -/
def satAfter : Option (Nat × Nat × Option Nat) :=
  match initRc satG [2] [1] with
  | some rc =>
    match (runSteps satOps satRun { temps := initTemps satRun, rc := rc, caps := nocap } [2]).1 with
    | .ok st => some (st.rc 0, uses satG [] [1] 0, st.temps 0)
    | .error _ => none
  | none => none

/-- The `min(255, remaining uses)` form of T1 is false: after the only step nothing uses `x`
any more, yet its counter is still 255 and `x` is still in `temp_values` (never released —
safe, but it stays alive until the end of the run). -/
theorem c02_T1_min_form_false : satAfter = some (255, 0, some 9) := by
  decide +kernel
/-! ## T3 — refinement -/

/-- **T3.** For every graph, every plan made of operator nodes, every owned/borrowed split of
the inputs, pool on or off, reference mode on or off: what `run_plan` returns — the outputs,
or an operator error at some operator, or a panic — is what the naive evaluation (every
operator run with `Operator::run` on the values looked up by id, inputs taking precedence,
nothing ever modified or removed) returns. -/
theorem c02_T3_refinement {V : Type} {ops : Ops V} {r : Run V} {plan outs : List Nat} (hwf : WF r)
    (hcap : r.g.captures = []) (hct : Contract ops r.g)
    (hplan : ∀ i ∈ plan, (getOp r.g i).isSome = true) (hnd : outs.Nodup) :
    (runPlan ops r nocap plan outs).outcome = evalNaive ops r nocap plan outs :=
  runPlan_refines hwf hcap hct hplan hnd

/-- **T3 for runs with a capture environment — partial.**  `run_plan` executed as the body of
an `If`/`Loop` with the capture environment `caps0` returns what the naive evaluation returns
when capture placeholders (`Graph::captures()`: value nodes without producer, not supplied as
inputs) are read from `caps0` — i.e. from the enclosing scope, which is how
`Model/ControlFlow.lean` (C24) gives meaning to a body: its `evalG` looks a captured name up
in the environment of the enclosing graph, exactly the `caps0` lookup of `naiveLook` here.
Proved for every capture environment in which **nothing is takeable by value**
(`CapsWF.notake`: all captures by reference — the situation whenever the enclosing run still
needs the captured values, and always for `Loop` bodies after the first iteration's
environment is shared).  For takeable (by-value) captures the value-level statement is not
proved; what is proved for them is `c02_caps_T2` (a capture is taken only when it has no
remaining use) and `c02_caps_invariants`, and the trace/differential correspondence covers
them (340+ by-value captures per quick run). -/
theorem c02_T3_refinement_caps_partial {V : Type} {ops : Ops V} {r : Run V}
    {caps0 : Nat → Option (V × Bool)} {plan outs : List Nat} (hwf : WF r) (hcw : CapsWF r caps0)
    (hct : Contract ops r.g) (hplan : ∀ i ∈ plan, (getOp r.g i).isSome = true) (hnd : outs.Nodup) :
    (runPlan ops r caps0 plan outs).outcome = evalNaive ops r caps0 plan outs :=
  runPlan_refines_caps hwf hcw hct hplan hnd

/-! ### Non-vacuity of the capture theorem, and a by-value instance -/

/-- A body graph: `0` is a capture placeholder, `2: v1 = U(v0)` can run in place. -/
def capG : Graph :=
  { nodes := [.value, .value, .operator { inputs := [some 0], outputs := [some 1], inPlace := true }]
    captures := [0] }

/-- `Add`-like, value-dependent operators (`Lemmas/ExecutorDemoOps.lean`). -/
def capOps : Ops Nat := sumOps (fun i => if i = 2 then [0] else [])

theorem capOps_contract : Contract capOps capG :=
  sumOps_contract _ _ _ (fun i => by split <;> simp) (fun _ _ => rfl)

def capRun : Run Nat :=
  { g := capG, consts := fun _ => 0, borrowed := fun _ => none, owned := fun _ => none }

/-- The enclosing scope's value for the placeholder, by reference or by value. -/
def capEnv (takeable : Bool) : Nat → Option (Nat × Bool) :=
  fun v => if v = 0 then some (8, takeable) else none

theorem capRun_wf : WF capRun := by
  refine ⟨rfl, fun v hv => absurd rfl hv, fun v hv => absurd rfl hv, ?_⟩
  intro i op hop o ho
  have hi : i < 3 := by
    unfold getOp getNode at hop
    by_cases hi : i < 3
    · exact hi
    · have : capRun.g.nodes[i]? = none := by
        apply List.getElem?_eq_none; simp [capRun, capG]; omega
      rw [this] at hop; simp at hop
  have : i = 0 ∨ i = 1 ∨ i = 2 := by omega
  rcases this with rfl | rfl | rfl <;>
    simp [getOp, getNode, capRun, capG] at hop <;> subst hop <;>
    simp [opOutputs] at ho <;> subst ho <;> rfl

theorem capEnv_wf : CapsWF capRun (capEnv false) := by
  refine ⟨?_, ?_, ?_⟩
  · intro v hv
    by_cases h : v = 0
    · subst h; rfl
    · simp [capEnv, h] at hv
  · intro v hv
    have hv0 : v = 0 := by simpa [capRun, capG] using hv
    subst hv0
    refine ⟨rfl, rfl, ?_⟩
    intro i op hop
    have hi : i < 3 := by
      unfold getOp getNode at hop
      by_cases hi : i < 3
      · exact hi
      · have : capRun.g.nodes[i]? = none := by
          apply List.getElem?_eq_none; simp [capRun, capG]; omega
        rw [this] at hop; simp at hop
    have : i = 0 ∨ i = 1 ∨ i = 2 := by omega
    rcases this with rfl | rfl | rfl <;>
      simp [getOp, getNode, capRun, capG] at hop <;> subst hop <;> simp [opOutputs]
  · intro v x b hv
    by_cases h : v = 0
    · simp [capEnv, h] at hv; exact hv.2
    · simp [capEnv, h] at hv

/-- Instance of `c02_T3_refinement_caps_partial` (by-reference capture: read, never taken). -/
example : (runPlan capOps capRun (capEnv false) [2] [1]).outcome =
    evalNaive capOps capRun (capEnv false) [2] [1] :=
  c02_T3_refinement_caps_partial capRun_wf capEnv_wf capOps_contract (by decide) (by decide)

/-- The same body with the capture passed **by value** (a test by `decide`, not covered by the
theorem): the executor takes the capture in place (`taken = [(0, 0)]`) and still returns what
the naive evaluation returns. -/
example : (runPlan capOps capRun (capEnv true) [2] [1]).steps.map (fun t => (t.rip, t.taken)) =
      [(true, [(0, 0)])] ∧
    (runPlan capOps capRun (capEnv true) [2] [1]).outcome =
      evalNaive capOps capRun (capEnv true) [2] [1] := by decide

/-- The naive evaluation does not distinguish owned from borrowed inputs and ignores the
pool and reference-mode switches. -/
theorem naiveLook_congr {V : Type} {r1 r2 : Run V} (hg : r1.g = r2.g) (hc : r1.consts = r2.consts)
    (hin : ∀ v, (match r1.borrowed v with | some x => some x | none => r1.owned v) =
      (match r2.borrowed v with | some x => some x | none => r2.owned v))
    (c : Nat → Option (V × Bool)) (E : Nat → Option V) (v : Nat) :
    naiveLook r1 c E v = naiveLook r2 c E v := by
  unfold naiveLook
  rw [hg, hc]
  cases getNode r2.g v with
  | none => rfl
  | some n =>
    cases n with
    | constant => rfl
    | operator _ => rfl
    | value =>
      have := hin v
      cases h1 : r1.borrowed v <;> cases h2 : r2.borrowed v <;> rw [h1, h2] at this <;>
        simp only at this ⊢
      · rw [this]
      · rw [this]
      · rw [← this]
      · exact this

theorem naiveInputs_congr {V : Type} {f g : Nat → Option V} (h : ∀ v, f v = g v)
    (l : List (Option Nat)) : naiveInputs f l = naiveInputs g l := by
  induction l with
  | nil => rfl
  | cons x xs ih =>
    cases x with
    | none => simp only [naiveInputs, ih]
    | some id => simp only [naiveInputs, h id, ih]

theorem naiveOutputs_congr {V : Type} {f g : Nat → Option V} (h : ∀ v, f v = g v)
    (l : List Nat) : naiveOutputs f l = naiveOutputs g l := by
  induction l with
  | nil => rfl
  | cons x xs ih => simp only [naiveOutputs, h x, ih]

theorem evalNaive_congr {V : Type} (ops : Ops V) {r1 r2 : Run V} (hg : r1.g = r2.g)
    (hc : r1.consts = r2.consts)
    (hin : ∀ v, (match r1.borrowed v with | some x => some x | none => r1.owned v) =
      (match r2.borrowed v with | some x => some x | none => r2.owned v))
    (c : Nat → Option (V × Bool)) (plan outs : List Nat) :
    evalNaive ops r1 c plan outs = evalNaive ops r2 c plan outs := by
  have hl := naiveLook_congr hg hc hin c
  have hsteps : ∀ E, naiveSteps ops r1 c E plan = naiveSteps ops r2 c E plan := by
    induction plan with
    | nil => intro E; rfl
    | cons i is ih =>
      intro E
      have hstep : naiveStep ops r1 c E i = naiveStep ops r2 c E i := by
        unfold naiveStep
        rw [hg]
        cases getOp r2.g i with
        | none => rfl
        | some op =>
          simp only
          rw [naiveInputs_congr (hl E) op.inputs]
          have : (capDeps r2.g op).map (naiveLook r1 c E) = (capDeps r2.g op).map (naiveLook r2 c E) :=
            List.map_congr_left (fun d _ => hl E d)
          rw [this]
      simp only [naiveSteps, hstep]
      cases naiveStep ops r2 c E i with
      | error e => rfl
      | ok E1 => exact ih E1
  unfold evalNaive
  rw [hsteps]
  cases naiveSteps ops r2 c (fun _ => none) plan with
  | error e => rfl
  | ok E => exact naiveOutputs_congr (hl E) outs

/-- **Corollary (strategy independence).** Two runs of the same plan on the same graph with
the same input *values* return the same thing, however the inputs are split into owned and
borrowed, with the pool on or off, with in-place execution allowed or forbidden. -/
theorem c02_strategy_independent {V : Type} {ops : Ops V} {r1 r2 : Run V} {plan outs : List Nat}
    (hwf1 : WF r1) (hwf2 : WF r2) (hg : r1.g = r2.g) (hc : r1.consts = r2.consts)
    (hin : ∀ v, (match r1.borrowed v with | some x => some x | none => r1.owned v) =
      (match r2.borrowed v with | some x => some x | none => r2.owned v))
    (hcap : r1.g.captures = []) (hct : Contract ops r1.g)
    (hplan : ∀ i ∈ plan, (getOp r1.g i).isSome = true) (hnd : outs.Nodup) :
    (runPlan ops r1 nocap plan outs).outcome = (runPlan ops r2 nocap plan outs).outcome := by
  rw [c02_T3_refinement hwf1 hcap hct hplan hnd,
    c02_T3_refinement hwf2 (hg ▸ hcap) (hg ▸ hct) (hg ▸ hplan) hnd]
  exact evalNaive_congr ops hg hc hin nocap plan outs

/-- Link to C03: a plan accepted by the planner's validity predicate consists of operator
nodes, and a well-formed request has distinct outputs. -/
theorem c02_of_planOK {g : Graph} {am : Bool} {r0 outs plan : List Nat}
    (h : RtenVerif.Planner.PlanOK g am r0 outs plan) : ∀ i ∈ plan, (getOp g i).isSome = true := by
  intro i hi
  obtain ⟨pre, post, hsplit⟩ := List.append_of_mem hi
  obtain ⟨op, hop, _⟩ := RtenVerif.Planner.validIds_split h.valid hsplit
  rw [hop]; rfl

/-! ## Non-vacuity: a concrete run meeting every hypothesis, with in-place steps -/

/-- `0:x  1:w(const)  2:a  3:b  4:y   5: a = U(x) in place [0]   6: b = C(a, w) commutative
7: y = N(b, b)` -/
def demoG : Graph :=
  { nodes := [.value, .constant, .value, .value, .value,
      .operator { inputs := [some 0], outputs := [some 2], inPlace := true },
      .operator { inputs := [some 1, some 2], outputs := [some 3], inPlace := true, commutative := true },
      .operator { inputs := [some 3, some 3], outputs := [some 4] }] }

/-- `Add`-like operators (`sumOps`: the result is the sum of the operands plus the node id, so
every operator reads every operand, and `run_in_place` really uses the taken value) with
in-place declarations for operators 5 and 6; values are their own length. -/
def demoOps : Ops Nat := sumOps (fun i => if i = 5 ∨ i = 6 then [0] else [])

def demoRun (ownedX : Bool) (pool nip : Bool) : Run Nat :=
  { g := demoG, consts := fun _ => 3
    borrowed := fun v => if v = 0 ∧ !ownedX then some 8 else none
    owned := fun v => if v = 0 ∧ ownedX then some 8 else none
    usePool := pool, neverInPlace := nip }

theorem demo_wf (o p n : Bool) : WF (demoRun o p n) := by
  refine ⟨rfl, ?_, ?_, ?_⟩
  · intro v hv
    simp only [demoRun] at hv ⊢
    by_cases h : v = 0 ∧ o = true
    · simp [h.2]
    · simp [h] at hv
  · intro v hv
    simp only [demoRun] at hv
    by_cases h : v = 0 ∧ o = true
    · rw [h.1]; rfl
    · simp [h] at hv
  · intro i op hop o' ho'
    have hi : i < 8 := by
      unfold getOp getNode at hop
      by_cases hi : i < 8
      · exact hi
      · have : (demoRun o p n).g.nodes[i]? = none := by
          apply List.getElem?_eq_none; simp [demoRun, demoG]; omega
        rw [this] at hop; simp at hop
    have : i = 0 ∨ i = 1 ∨ i = 2 ∨ i = 3 ∨ i = 4 ∨ i = 5 ∨ i = 6 ∨ i = 7 := by omega
    rcases this with rfl | rfl | rfl | rfl | rfl | rfl | rfl | rfl <;>
      simp [getOp, getNode, demoRun, demoG] at hop <;> subst hop <;>
      simp [opOutputs] at ho' <;> subst ho' <;> rfl

/-- The contract holds for this value-dependent table (`sumOps_contract`). -/
theorem demo_contract : Contract demoOps demoG :=
  sumOps_contract _ _ _ (fun i => by split <;> simp) (fun _ _ => rfl)

/-- The demo run takes `x` in place at step 5 (owned input, count 1), takes `a` in place at
step 6 (commutative operator, candidate at position 1), releases `b` after step 7, and —
an instance of T3 — returns what the naive evaluation returns. -/
example : (runPlan demoOps (demoRun true true false) nocap [5, 6, 7] [4]).steps =
    [ { op := 5, rip := true, taken := [(0, 0)], byVal := [], stored := [2], released := [] },
      { op := 6, rip := true, taken := [(1, 2)], byVal := [], stored := [3], released := [] },
      { op := 7, rip := false, taken := [], byVal := [], stored := [4], released := [3] } ] := by
  decide

example : (runPlan demoOps (demoRun true true false) nocap [5, 6, 7] [4]).outcome = .ok [51] ∧
    evalNaive demoOps (demoRun true true false) nocap [5, 6, 7] [4] = .ok [51] := by decide

/-- Instance of the corollary: owned + pool + in place vs borrowed + no pool + reference mode. -/
example : (runPlan demoOps (demoRun true true false) nocap [5, 6, 7] [4]).outcome =
    (runPlan demoOps (demoRun false false true) nocap [5, 6, 7] [4]).outcome :=
  c02_strategy_independent (demo_wf _ _ _) (demo_wf _ _ _) rfl rfl
    (by intro v; simp only [demoRun]; by_cases h : v = 0 <;> simp [h])
    rfl demo_contract (by decide) (by decide)

/-! ## The code before the fix (`fixed := false`) — negation witnesses

`T3` forced the hypothesis "no planned operator output has the id of a supplied input".  The
harness generated the excluded point and the real code misbehaved there; the `fix:` commit
removed the hypothesis.  The witnesses below are the `decide`d counterexamples on the model of
the old code. -/

/-- `0:x 1:a 2:b 3:c   4: (a, b) = S(x)   5: c = R(a)`; request: inputs `x` and an override
for `a`, outputs `b, c`. -/
def splitG : Graph :=
  { nodes := [.value, .value, .value, .value,
      .operator { inputs := [some 0], outputs := [some 1, some 2] },
      .operator { inputs := [some 1], outputs := [some 3] }] }

/-- `S(x) = (x+1, x+2)`, `R(a) = 2a`. -/
def splitOps : Ops Nat :=
  { len := fun _ => 1
    inPlaceIdx := fun _ => []
    isSubgraph := fun _ => false
    run := fun i ins _ =>
      match i, ins with
      | 4, [some x] => some [x + 1, x + 2]
      | 5, [some a] => some [2 * a]
      | _, _ => none
    runInPlace := fun _ _ _ => none }

def splitRun (fixed ownedA : Bool) : Run Nat :=
  { g := splitG, consts := fun _ => 0
    borrowed := fun v => if v = 0 then some 10 else if v = 1 ∧ !ownedA then some 77 else none
    owned := fun v => if v = 1 ∧ ownedA then some 77 else none
    fixed := fixed }

/-- Old code: with the override of `a` passed as an **owned** value, the operator's own
output replaces it and `c = 2·11`; passed as a **view** it wins and `c = 2·77`.  The naive
evaluation (inputs take precedence) says 154 in both cases. -/
theorem c02_prefix_owned_vs_borrowed_false :
    (runPlan splitOps (splitRun false true) nocap [4, 5] [2, 3]).outcome = .ok [12, 22] ∧
    (runPlan splitOps (splitRun false false) nocap [4, 5] [2, 3]).outcome = .ok [12, 154] ∧
    evalNaive splitOps (splitRun false true) nocap [4, 5] [2, 3] = .ok [12, 154] := by decide

/-- The code as it stands agrees with the naive evaluation on the same requests. -/
theorem c02_fixed_owned_vs_borrowed :
    (runPlan splitOps (splitRun true true) nocap [4, 5] [2, 3]).outcome = .ok [12, 154] ∧
    (runPlan splitOps (splitRun true false) nocap [4, 5] [2, 3]).outcome = .ok [12, 154] := by decide

/-! ## Plan order

The naive evaluation of a plan that runs without error does not depend on the order of the
plan, provided distinct entries write disjoint ids (single assignment: every graph with unique
producers) and both orders respect the dependencies (C03's `ValidIds`).  With T3 this carries
over to `run_plan`. -/

/-- **Order independence, `ValidIds` form.** Two dependency-respecting plans with the same
entries: if `run_plan` succeeds on one, it succeeds on the other with the same outputs. -/
theorem c02_order_independent {V : Type} {ops : Ops V} {r : Run V} {ins outs p p' : List Nat}
    {vals : List V} (hwf : WF r) (hcap : r.g.captures = []) (hct : Contract ops r.g)
    (hin : ∀ d ∈ ins, r.isInput d = true) (hnd : outs.Nodup)
    (hpnd : p.Nodup) (hdisj : Disj r.g p)
    (hv : RtenVerif.Planner.ValidIds r.g false ins p)
    (hv' : RtenVerif.Planner.ValidIds r.g false ins p') (hsame : ∀ i, i ∈ p ↔ i ∈ p')
    (h : (runPlan ops r nocap p outs).outcome = .ok vals) :
    (runPlan ops r nocap p' outs).outcome = .ok vals := by
  have hops : ∀ {q : List Nat}, RtenVerif.Planner.ValidIds r.g false ins q →
      ∀ i ∈ q, (getOp r.g i).isSome = true := by
    intro q hq i hi
    obtain ⟨pre, post, hsplit⟩ := List.append_of_mem hi
    obtain ⟨op, hop, _⟩ := RtenVerif.Planner.validIds_split hq hsplit
    rw [hop]; rfl
  rw [c02_T3_refinement hwf hcap hct (hops hv) hnd] at h
  rw [c02_T3_refinement hwf hcap hct (hops hv') hnd]
  exact evalNaive_order hpnd hdisj hv hv' hin hsame h

/-- **Plan independence (the `PlanIndependent` hypothesis of C22 / `CacheTransparent` of C25).**
On a graph with unique producers, any two plans that satisfy C03's `PlanOK` for the same
request — e.g. the plans `create_plan` returns for the same id sets before and after the
cached plan was replaced — are interchangeable: if `run_plan` returns outputs with one, it
returns the same outputs with the other.  (When an operator fails, both runs fail, but
possibly at different operators: `c02_error_depends_on_order`.) -/
theorem c02_plan_independent {V : Type} {ops : Ops V} {r : Run V} {ins outs p p' : List Nat}
    {vals : List V} (hwf : WF r) (hcap : r.g.captures = []) (hct : Contract ops r.g)
    (hu : UniqueProducer r.g) (hin : ∀ d ∈ ins, r.isInput d = true) (hnd : outs.Nodup)
    (hp : RtenVerif.Planner.PlanOK r.g false (RtenVerif.Planner.resolvedNew r.g ins false) outs p)
    (hp' : RtenVerif.Planner.PlanOK r.g false (RtenVerif.Planner.resolvedNew r.g ins false) outs p')
    (h : (runPlan ops r nocap p outs).outcome = .ok vals) :
    (runPlan ops r nocap p' outs).outcome = .ok vals := by
  have e : RtenVerif.Planner.resolvedNew r.g ins false = ins := by
    simp [RtenVerif.Planner.resolvedNew]
  rw [e] at hp hp'
  exact c02_order_independent hwf hcap hct hin hnd hp.nodup (disj_of_uniqueProducer hu p)
    hp.valid hp'.valid
    (fun i => (planOK_mem_iff_needed hu hp i).trans (planOK_mem_iff_needed hu hp' i).symm) h

/-- Symmetric form: the two runs succeed together, with equal outputs. -/
theorem c02_plan_independent_iff {V : Type} {ops : Ops V} {r : Run V} {ins outs p p' : List Nat}
    (hwf : WF r) (hcap : r.g.captures = []) (hct : Contract ops r.g)
    (hu : UniqueProducer r.g) (hin : ∀ d ∈ ins, r.isInput d = true) (hnd : outs.Nodup)
    (hp : RtenVerif.Planner.PlanOK r.g false (RtenVerif.Planner.resolvedNew r.g ins false) outs p)
    (hp' : RtenVerif.Planner.PlanOK r.g false (RtenVerif.Planner.resolvedNew r.g ins false) outs p')
    (vals : List V) :
    (runPlan ops r nocap p outs).outcome = .ok vals ↔
      (runPlan ops r nocap p' outs).outcome = .ok vals :=
  ⟨c02_plan_independent hwf hcap hct hu hin hnd hp hp',
   c02_plan_independent hwf hcap hct hu hin hnd hp' hp⟩

/-- `0:x 1:a 2:b  3: a = F(x)  4: b = G(x)`, both operators fail. -/
def twoFailing : Graph :=
  { nodes := [.value, .value, .value,
      .operator { inputs := [some 0], outputs := [some 1] },
      .operator { inputs := [some 0], outputs := [some 2] }] }

/-- Full equality of outcomes across plan orders is false when operators fail: the run stops
at the first failing operator, and which one is first depends on the order. -/
theorem c02_error_depends_on_order :
    let ops : Ops Nat :=
      { len := fun _ => 1, inPlaceIdx := fun _ => [], isSubgraph := fun _ => false
        run := fun _ _ _ => none, runInPlace := fun _ _ _ => none }
    let r : Run Nat := { g := twoFailing, consts := fun _ => 0
                         borrowed := fun v => if v = 0 then some 10 else none, owned := fun _ => none }
    (runPlan ops r nocap [3, 4] [1, 2]).outcome = .error (.opErr 3) ∧
    (runPlan ops r nocap [4, 3] [1, 2]).outcome = .error (.opErr 4) := by
  decide

theorem twoFailing_valid34 : ValidIds twoFailing false [0] [3, 4] := by
  refine ⟨⟨_, rfl, ?_⟩, ⟨_, rfl, ?_⟩, trivial⟩ <;>
  · intro d hd
    have : d = 0 := by simpa [opDeps, opInputs] using hd
    subst this
    exact Or.inl (by decide)

theorem twoFailing_valid43 : ValidIds twoFailing false [0] [4, 3] := by
  refine ⟨⟨_, rfl, ?_⟩, ⟨_, rfl, ?_⟩, trivial⟩ <;>
  · intro d hd
    have : d = 0 := by simpa [opDeps, opInputs] using hd
    subst this
    exact Or.inl (by decide)

theorem twoFailing_disj : Disj twoFailing [3, 4] := by
  intro i hi j hj hne v hvi hvj
  simp only [List.mem_cons, List.not_mem_nil, or_false] at hi hj
  rcases hi with rfl | rfl <;> rcases hj with rfl | rfl
  · exact hne rfl
  · simp [outsOf, getOp, getNode, twoFailing, opOutputs] at hvi hvj; omega
  · simp [outsOf, getOp, getNode, twoFailing, opOutputs] at hvi hvj; omega
  · exact hne rfl

/-- Operators that succeed on the graph `twoFailing` (two independent operators). -/
def okOps : Ops Nat := sumOps (fun _ => [])

theorem okOps_contract : Contract okOps twoFailing :=
  sumOps_contract _ _ _ (fun _ => List.nodup_nil) (fun _ h => absurd rfl h)

def twoRun : Run Nat :=
  { g := twoFailing, consts := fun _ => 0
    borrowed := fun v => if v = 0 then some 10 else none, owned := fun _ => none }

theorem twoRun_wf : WF twoRun := by
  refine ⟨rfl, fun v hv => absurd rfl hv, fun v hv => absurd rfl hv, ?_⟩
  intro i op hop o ho
  have hi : i < 5 := by
    unfold getOp getNode at hop
    by_cases hi : i < 5
    · exact hi
    · have : twoRun.g.nodes[i]? = none := by
        apply List.getElem?_eq_none; simp [twoRun, twoFailing]; omega
      rw [this] at hop; simp at hop
  have : i = 0 ∨ i = 1 ∨ i = 2 ∨ i = 3 ∨ i = 4 := by omega
  rcases this with rfl | rfl | rfl | rfl | rfl <;>
    simp [getOp, getNode, twoRun, twoFailing] at hop <;> subst hop <;>
    simp [opOutputs] at ho <;> subst ho <;> rfl

/-- Non-vacuity of `c02_order_independent`: both orders of two independent operators. -/
example : (runPlan okOps twoRun nocap [4, 3] [1, 2]).outcome = .ok [13, 14] :=
  c02_order_independent (ins := [0]) twoRun_wf rfl okOps_contract
    (by intro d hd; simp at hd; subst hd; rfl) (by decide) (by decide) twoFailing_disj
    twoFailing_valid34 twoFailing_valid43 (by intro i; simp; omega) (by decide)

/-! ### Joint closed witness for `c02_plan_independent`: `PlanOK ∧ UniqueProducer ∧ WF ∧ Contract` -/

theorem twoFailing_unique : UniqueProducer twoFailing := by
  intro p op v hop hv
  have hp : p < 5 := by
    unfold getOp getNode at hop
    by_cases hp : p < 5
    · exact hp
    · have : twoFailing.nodes[p]? = none := by
        apply List.getElem?_eq_none; simp [twoFailing]; omega
      rw [this] at hop; simp at hop
  have : p = 0 ∨ p = 1 ∨ p = 2 ∨ p = 3 ∨ p = 4 := by omega
  rcases this with rfl | rfl | rfl | rfl | rfl <;>
    simp [getOp, getNode, twoFailing] at hop <;> subst hop <;>
    simp [opOutputs] at hv <;> subst hv <;> rfl

theorem twoFailing_needed3 : Needed twoFailing (resolvedNew twoFailing [0] false) [1, 2] 3 :=
  .root (o := 1) (by simp) (by decide) (by rfl)

theorem twoFailing_needed4 : Needed twoFailing (resolvedNew twoFailing [0] false) [1, 2] 4 :=
  .root (o := 2) (by simp) (by decide) (by rfl)

theorem twoFailing_planOK34 :
    PlanOK twoFailing false (resolvedNew twoFailing [0] false) [1, 2] [3, 4] := by
  refine ⟨by decide, twoFailing_valid34, ?_, ?_⟩
  · intro o ho
    simp only [List.mem_cons, List.not_mem_nil, or_false] at ho
    rcases ho with rfl | rfl <;> exact Or.inl (by decide)
  · intro i hi
    simp only [List.mem_cons, List.not_mem_nil, or_false] at hi
    rcases hi with rfl | rfl
    · exact twoFailing_needed3
    · exact twoFailing_needed4

theorem twoFailing_planOK43 :
    PlanOK twoFailing false (resolvedNew twoFailing [0] false) [1, 2] [4, 3] := by
  refine ⟨by decide, twoFailing_valid43, ?_, ?_⟩
  · intro o ho
    simp only [List.mem_cons, List.not_mem_nil, or_false] at ho
    rcases ho with rfl | rfl <;> exact Or.inl (by decide)
  · intro i hi
    simp only [List.mem_cons, List.not_mem_nil, or_false] at hi
    rcases hi with rfl | rfl
    · exact twoFailing_needed4
    · exact twoFailing_needed3

/-- All hypotheses of `c02_plan_independent` hold together on a closed instance with
value-dependent operators: the two `PlanOK` plans `[3,4]` and `[4,3]` of one request. -/
example : (runPlan okOps twoRun nocap [4, 3] [1, 2]).outcome = .ok [13, 14] :=
  c02_plan_independent (ins := [0]) twoRun_wf rfl okOps_contract twoFailing_unique
    (by intro d hd; simp at hd; subst hd; rfl) (by decide) twoFailing_planOK34 twoFailing_planOK43
    (by decide)

/-! ### The same joint witness with an in-place table and an owned `x`

Operators 3 and 4 may both run in place on position 0 and `x` is passed as an owned value: under
the order `[3,4]` operator 4 takes `x` in place (operator 3 cannot: `x` still has a use), under
`[4,3]` it is operator 3 — different in-place decisions, same outputs. -/

def ipOps : Ops Nat := sumOps (fun i => if i = 3 ∨ i = 4 then [0] else [])

theorem ipOps_contract : Contract ipOps twoFailing :=
  sumOps_contract _ _ _ (fun i => by split <;> simp) (fun _ _ => rfl)

def twoRunOwned : Run Nat :=
  { g := twoFailing, consts := fun _ => 0
    borrowed := fun _ => none, owned := fun v => if v = 0 then some 10 else none }

theorem twoRunOwned_wf : WF twoRunOwned := by
  refine ⟨rfl, fun v _ => rfl, ?_, twoRun_wf.outsValue⟩
  intro v hv
  by_cases h : v = 0
  · subst h; rfl
  · simp [twoRunOwned, h] at hv

example : ((runPlan ipOps twoRunOwned nocap [3, 4] [1, 2]).steps.map (fun t => (t.op, t.rip))) =
      [(3, false), (4, true)] ∧
    ((runPlan ipOps twoRunOwned nocap [4, 3] [1, 2]).steps.map (fun t => (t.op, t.rip))) =
      [(4, false), (3, true)] := by decide

example : (runPlan ipOps twoRunOwned nocap [4, 3] [1, 2]).outcome = .ok [13, 14] :=
  c02_plan_independent (ins := [0]) twoRunOwned_wf rfl ipOps_contract twoFailing_unique
    (by intro d hd; simp at hd; subst hd; rfl) (by decide) twoFailing_planOK34 twoFailing_planOK43
    (by decide)

/-! Without single assignment the naive result (and the executor's) does depend on the order: -/

/-- `0:x 1:y 2:z  3: y = A(x)  4: y = B(x)  5: z = R(y)`: two producers of `y`. -/
def twoProducers : Graph :=
  { nodes := [.value, .value, .value,
      .operator { inputs := [some 0], outputs := [some 1] },
      .operator { inputs := [some 0], outputs := [some 1] },
      .operator { inputs := [some 1], outputs := [some 2] }] }

theorem c02_order_needs_single_assignment :
    let ops : Ops Nat :=
      { len := fun _ => 1, inPlaceIdx := fun _ => [], isSubgraph := fun _ => false
        run := fun i ins _ => match i, ins with
          | 3, [some x] => some [x + 1]
          | 4, [some x] => some [x + 2]
          | 5, [some y] => some [y]
          | _, _ => none
        runInPlace := fun _ _ _ => none }
    let r : Run Nat := { g := twoProducers, consts := fun _ => 0
                         borrowed := fun v => if v = 0 then some 10 else none, owned := fun _ => none }
    evalNaive ops r nocap [3, 4, 5] [2] = .ok [12] ∧ evalNaive ops r nocap [4, 3, 5] [2] = .ok [11] := by
  decide

/-! ## Runs with a capture environment (bodies of `If` / `Loop`)

T3 above is for runs without captures.  The bookkeeping invariants hold for **every** capture
environment `caps0` (values of the enclosing scope, some of them takeable): -/

/-- **T1 / T4 with captures.** After any prefix of the plan, whatever the capture environment:
counters fit a `u8`, every value node's counter is its number of remaining uses (or 255
forever), and `temp_values` holds only value nodes that are neither constants nor borrowed
inputs. -/
theorem c02_caps_invariants {V : Type} {ops : Ops V} {r : Run V} {pre rest outs : List Nat}
    {rc : Nat → Nat} {st : St V} (caps0 : Nat → Option (V × Bool)) (hwf : WF r)
    (hrc : initRc r.g (pre ++ rest) outs = some rc)
    (hrun : (runSteps ops r { temps := initTemps r, rc := rc, caps := caps0 } pre).1 = .ok st) :
    RcBounded st.rc ∧
      (∀ v, isValue r.g v = true →
        st.rc v = if 255 ≤ uses r.g (pre ++ rest) outs v then 255 else uses r.g rest outs v) ∧
      TempsKind r st := by
  have hb : RcBounded rc := by intro v; rw [initRc_eq hrc v]; omega
  have hi : RcInv r.g (uses r.g (pre ++ rest) outs) (pre ++ rest) outs rc := by
    intro v _
    refine ⟨?_, Nat.le_refl _⟩
    rw [initRc_eq hrc v]; split <;> omega
  have hk : TempsKind r { temps := initTemps r, rc := rc, caps := caps0 } := by
    intro x hx
    simp only [initTemps, hwf.fixed, Bool.true_and] at hx
    split at hx
    · exact absurd rfl hx
    · rename_i hnc
      have hnc' : isConstant r.g x = false := by simpa using hnc
      have hv := isValue_of_voc (hwf.ownedKind x hx) hnc'
      exact ⟨hv, hnc', hwf.disjoint x hx⟩
  obtain ⟨h1, h2, h3⟩ := runSteps_caps_inv hwf rest pre _ st hb hi hk hrun
  exact ⟨h1, fun v hv => (h2 v hv).1, h3⟩

/-- **T2 with captures.** A completed step removes a value node's entry from `temp_values`,
or takes it out of the capture environment, only if nothing in the rest of the plan and no
requested output uses it. -/
theorem c02_caps_T2 {V : Type} {ops : Ops V} {r : Run V} {st st' : St V} {i : Nat}
    {tr : StepTrace} {total : Nat → Nat} {rest outs : List Nat} (hwf : WF r)
    (h : step ops r st i = .ok (st', tr)) (hb : RcBounded st.rc)
    (hinv : RcInv r.g total (i :: rest) outs st.rc) (x : Nat) (hx : isValue r.g x = true)
    (hrem : (st.temps x ≠ none ∧ st'.temps x = none) ∨ (st.caps x ≠ none ∧ st'.caps x = none)) :
    uses r.g rest outs x = 0 :=
  step_removes_only_dead hwf.fixed h hb hinv x hx hrem

end RtenVerif.Executor
