import RtenVerif.Lemmas.SymRange
import RtenVerif.Lemmas.SymWFSimp
import RtenVerif.Lemmas.SymMachine

/-!
# C11 — Symbolic expression simplification and bounds are sound

Theorems over `RtenVerif.Model.Sym` (model of `rten-shape-inference/src/sym_expr.rs` *after*
the fixes `9e4cee0` (nested Div/DivCeil constant merge uses `checked_mul`), `f73ff8c`
(`range` uses interval arithmetic) and `a4a397a` (`eval` of `Broadcast` sends a size of 1 to
the other size, including 0, instead of taking `max`)).

Semantics.  `ev σ e` is evaluation over unbounded integers (`Arith.ideal`), `evc σ e` is
overflow-checked `i32` evaluation (`Arith.checked`; any overflow is `error panic`), and the
`wrap` arithmetic of release builds exists only for the correspondence check.  The value
theorems are about `ev`; `c11_checked_eval_is_ideal` says that a checked evaluation that
succeeds *is* the ideal one, so they apply to every run of the real `eval` in which no
intermediate result leaves `i32`.  Constant folding inside `simplify` is covered for every
`Exact` arithmetic (`ideal`, `checked`): whenever the simplifier does not panic, the folds
were exact.
-/
namespace RtenVerif.Sym

/-! ## T4 — canonicalize -/

/-- **C11.T4** `canonicalize` (flattening, stable sort by `cmp_values_first`, cancellation
of adjacent opposite / equal terms, `Sub → Add Neg`, folded `Neg` of constants) never changes
a defined value — every expression, every assignment, no domain restriction. -/
theorem c11_canonicalize_preserves_eval (σ : Env) (e : SymExpr) (v : Int)
    (h : ev σ e = .ok v) : ev σ (canonicalize e) = .ok v :=
  canonicalize_sound σ e v h

/-! ## T1 — simplify -/

/-- **C11.T1 (partial)** `simplify` preserves the value for every expression and assignment,
provided the two arms that are not integer identities meet their side condition where they
fire (`Guards`, evaluated on the canonicalised expression): `Broadcast` operands are
equal-or-one; a `DivCeil` whose simplified dividend is a `DivCeil` has positive divisors.
Every other arm (all of `Neg Add Sub Mul Div Max Min`, `remove_common_factors` incl. the gcd
step, nested `Div` merging, `x.div_ceil(x)`, constant folds) is proved unconditionally.
What is missing for the full statement is exactly the open finding below (the `Broadcast`
condition is the documented domain of that constructor). -/
theorem c11_simplify_preserves_eval_partial {A : Arith} (hA : Exact A) (σ : Env)
    (e e' : SymExpr) (v : Int) (hs : simplify A e = some e')
    (hg : Guards A σ (canonicalize e)) (h : ev σ e = .ok v) : ev σ e' = .ok v :=
  simpC_sound hA σ (canonicalize e) e' v hg hs (canonicalize_sound σ e v h)

/-- **C11.T1 (headline, hypotheses on the ORIGINAL expression; partial).**  For every
expression `e`, every assignment `σ` and every exact arithmetic: if every `DivCeil` divisor
of `e` evaluates to a positive number (`posDivisors`) and every `Broadcast` node of `e` has
operands that are equal or one of them `1` (`bcastDom`, the documented domain of the
constructor — no sign condition), then `simplify` preserves the value.  `posDivisors` is
exactly the open finding; nothing about the canonicalised tree or about intermediate results
of the simplifier is assumed. -/
theorem c11_simplify_preserves_eval_orig_partial {A : Arith} (hA : Exact A) (σ : Env)
    (e e' : SymExpr) (v : Int) (hs : simplify A e = some e')
    (hp : posDivisors σ e) (hb : bcastDom σ e) (h : ev σ e = .ok v) : ev σ e' = .ok v :=
  c11_simplify_preserves_eval_partial hA σ e e' v hs (guards_canonicalize hA σ e v hp hb h) h

/-- The side conditions on the original expression imply the internal guards, and both are
invariants of `canonicalize` and `simplify_canonical` (audit item). -/
theorem c11_guards_of_original {A : Arith} (hA : Exact A) (σ : Env) (e : SymExpr) (v : Int)
    (hp : posDivisors σ e) (hb : bcastDom σ e) (h : ev σ e = .ok v) :
    Guards A σ (canonicalize e) ∧ posDivisors σ (canonicalize e) ∧ bcastDom σ (canonicalize e) :=
  ⟨guards_canonicalize hA σ e v hp hb h,
    (wf_iff σ _).mp (canonF_wf σ _ e v ((wf_iff σ e).mpr ⟨hp, hb⟩) h)⟩

/-- `simplify_canonical` alone (any input, canonical or not), same side conditions. -/
theorem c11_simplify_canonical_preserves_eval_partial {A : Arith} (hA : Exact A) (σ : Env)
    (e e' : SymExpr) (v : Int) (hs : simpC A e = some e') (hg : Guards A σ e)
    (h : ev σ e = .ok v) : ev σ e' = .ok v :=
  simpC_sound hA σ e e' v hg hs h

/-- The ideal and the overflow-checked arithmetic are exact, so T1 applies to both. -/
theorem c11_exact_arith : Exact Arith.ideal ∧ Exact Arith.checked := ⟨exact_ideal, exact_checked⟩

/-- The documented domain as a decidable predicate: symbols flagged positive are `≥ 0`,
`Broadcast` operands are `≥ 0` and equal or one of them is `1`. -/
def docDom (σ : Env) : SymExpr → Bool
  | .value _ => true
  | .var n p =>
    match σ n with
    | some v => !p || decide (0 ≤ v)
    | none => true
  | .neg a => docDom σ a
  | .bin o a b =>
    docDom σ a && docDom σ b &&
      (o != .broadcast ||
        match ev σ a, ev σ b with
        | .ok x, .ok y => decide (0 ≤ x) && decide (0 ≤ y) && (x == y || x == 1 || y == 1)
        | _, _ => true)

/-- The full statement of T1 as the property text has it. -/
def SimplifySoundFull : Prop :=
  ∀ (σ : Env) (e e' : SymExpr) (v : Int), simplify Arith.checked e = some e' →
    docDom σ e = true → ev σ e = .ok v → ev σ e' = .ok v

def envW : Env := fun n => if n = 3 then some 1 else none

/-- `ceil_div(ceil_div(s3, -2), -2)` -/
def wCeil : SymExpr := .bin .divCeil (.bin .divCeil (.var 3 false) (.value (-2))) (.value (-2))

/-- **Finding C11-divceil-merge-nonpositive.** The full statement is false: at `s3 = 1`
`ceil_div(ceil_div(s3, -2), -2) = 0` but `simplify` returns `ceil_div(s3, -2 * -2)`, which
is `1`.  Replayed on the real code by the harness (fixed case + random). -/
theorem c11_simplify_preserves_eval_false_divceil : ¬ SimplifySoundFull := by
  intro h
  have := h envW wCeil (.bin .divCeil (.var 3 false) (.bin .mul (.value (-2)) (.value (-2)))) 0
    (by decide) (by decide) (by decide)
  revert this
  decide

def envB : Env := fun n => if n = 4 then some 1 else none

/-- Former finding C11-broadcast-zero-one (fixed by `a4a397a`): `broadcast(0, s4)` simplifies
to `0`, and `eval` now also gives `0` at `s4 = 1` (it used to give `max(0, 1) = 1`). -/
example : simplify Arith.checked (.bin .broadcast (.value 0) (.var 4 false)) = some (.value 0) ∧
    ev envB (.bin .broadcast (.value 0) (.var 4 false)) = .ok 0 := by decide

/-- `Guards` and `Dom` have decidable sufficient forms (`guardsB`, `domB`), so the
hypotheses of T1–T3 can be computed for a concrete expression and assignment. -/
theorem c11_guards_decidable (A : Arith) (σ : Env) (e : SymExpr) :
    (guardsB A σ e = true → Guards A σ e) ∧ (domB σ e = true → Dom σ e) :=
  ⟨guardsB_sound A σ e, domB_sound σ e⟩

def exσ1 : Env := fun n => if n = 0 then some 4 else if n = 1 then some 5 else if n = 2 then some 7 else none
def exE1 : SymExpr := .bin .add (.bin .sub (.bin .add (.var 0 true) (.var 1 true)) (.var 0 true))
  (.bin .divCeil (.bin .divCeil (.var 2 true) (.value 2)) (.value 3))

/-- Non-vacuity of T1: `(s0 + s1) - s0 + ceil_div(ceil_div(s2, 2), 3)` simplifies to
`s1 + ceil_div(s2, 6)`, the guards hold, and the value `5 + 2 = 7` is preserved. -/
example :
    simplify Arith.checked exE1
        = some (.bin .add (.var 1 true) (.bin .divCeil (.var 2 true) (.value 6))) ∧
      ev exσ1 exE1 = .ok 7 ∧ Guards Arith.checked exσ1 (canonicalize exE1) :=
  ⟨by decide +kernel, by decide +kernel,
    guardsB_sound Arith.checked exσ1 (canonicalize exE1) (by decide +kernel)⟩

/-- Non-vacuity of the headline: the same expression meets the hypotheses on the original
tree (computed with the decidable form `wfB`). -/
example : posDivisors exσ1 exE1 ∧ bcastDom exσ1 exE1 ∧ ev exσ1 exE1 = .ok 7 :=
  ⟨((wf_iff exσ1 exE1).mp (wfB_sound exσ1 exE1 (by decide +kernel))).1,
   ((wf_iff exσ1 exE1).mp (wfB_sound exσ1 exE1 (by decide +kernel))).2, by decide +kernel⟩

def exσ4 : Env := fun n => if n = 0 then some 3 else if n = 1 then some 1 else none
/-- … and one with a `Broadcast` chain: `broadcast(broadcast(s0, s1), s0) + 0` at
`s0 = 3, s1 = 1`. -/
def exE4 : SymExpr :=
  .bin .add (.bin .broadcast (.bin .broadcast (.var 0 true) (.var 1 true)) (.var 0 true)) (.value 0)
example : posDivisors exσ4 exE4 ∧ bcastDom exσ4 exE4 ∧ ev exσ4 exE4 = .ok 3 ∧
    simplify Arith.checked exE4 = some (.bin .broadcast (.var 0 true) (.var 1 true)) :=
  ⟨((wf_iff exσ4 exE4).mp (wfB_sound exσ4 exE4 (by decide +kernel))).1,
   ((wf_iff exσ4 exE4).mp (wfB_sound exσ4 exE4 (by decide +kernel))).2,
   by decide +kernel, by decide +kernel⟩

/-! ## T1 for the machine evaluators -/

/-- **C11.T1 (machine arithmetic).**  `SymExpr::eval` uses plain `+ - * /`: an overflow
panics in debug / `overflow-checks` builds (`evc`, `Arith.checked`) and wraps in release
builds (`Arith.wrap`).  Hypothesis checkable on the original expression: its overflow-checked
evaluation succeeds (`evc σ e = ok v`, i.e. no intermediate result of evaluating `e` leaves
`i32`).  Then, for the simplified expression `e'`:
* the checked evaluator returns `v` or panics on an overflow — never another value and never
  `DivisionByZero` / `MissingSymbol`;
* whenever it does not overflow, both machine evaluators return `v`;
* the release evaluator returns `v` on the original.
That an overflow can appear in `e'` although `e` has none is a fact about the code
(`c11_reassociation_moves_overflow`); hence no condition on `e` alone that is as weak as
"`e` evaluates without overflow" can promise `evc σ e' = ok v`. -/
theorem c11_simplify_machine_eval_partial {A : Arith} (hA : Exact A) (σ : Env)
    (e e' : SymExpr) (v : Int) (hs : simplify A e = some e')
    (hp : posDivisors σ e) (hb : bcastDom σ e) (h : evc σ e = .ok v) :
    (evc σ e' = .ok v ∨ evc σ e' = .error .panic) ∧
    (∀ v', evc σ e' = .ok v' → v' = v ∧ eval Arith.wrap σ e' = .ok v) ∧
    eval Arith.wrap σ e = .ok v := by
  have hi : ev σ e' = .ok v :=
    c11_simplify_preserves_eval_orig_partial hA σ e e' v hs hp hb (evc_ev σ e v h)
  refine ⟨evc_of_ev σ e' v hi, ?_, evw_of_evc σ e v h⟩
  intro v' hv'
  have := evc_ev σ e' v' hv'
  rw [hi] at this
  simp at this; subst this
  exact ⟨rfl, evw_of_evc σ e' _ hv'⟩

def envO1 : Env := fun n =>
  if n = 3 then some 2147483647 else if n = 4 then some 1 else if n = 5 then some (-5) else none
def envO2 : Env := fun n =>
  if n = 0 then some 5 else if n = 1 then some 65536 else if n = 2 then some 65536 else none

/-- **Re-association moves an overflow** (counted by the harness as `simp_eval_moves_overflow`,
never failed).  Both originals evaluate without overflow and meet every hypothesis above.
(1) `s3 + (s4 + s5)` at `(MAX, 1, -5)` is `MAX - 4`; `simplify` returns `(s3 + s4) + s5`, which
overflows: the debug evaluator panics, the release evaluator still returns `MAX - 4`.
(2) `s0 / s1 / s2` at `(5, 65536, 65536)` is `0`; `simplify` returns `s0 / (s1 * s2)`: the
debug evaluator panics and the release evaluator reports `DivisionByZero`. -/
theorem c11_reassociation_moves_overflow :
    (evc envO1 (.bin .add (.var 3 false) (.bin .add (.var 4 false) (.var 5 false)))
        = .ok 2147483643 ∧
      simplify Arith.checked (.bin .add (.var 3 false) (.bin .add (.var 4 false) (.var 5 false)))
        = some (.bin .add (.bin .add (.var 3 false) (.var 4 false)) (.var 5 false)) ∧
      evc envO1 (.bin .add (.bin .add (.var 3 false) (.var 4 false)) (.var 5 false))
        = .error .panic ∧
      eval Arith.wrap envO1 (.bin .add (.bin .add (.var 3 false) (.var 4 false)) (.var 5 false))
        = .ok 2147483643) ∧
    (evc envO2 (.bin .div (.bin .div (.var 0 true) (.var 1 true)) (.var 2 true)) = .ok 0 ∧
      simplify Arith.checked (.bin .div (.bin .div (.var 0 true) (.var 1 true)) (.var 2 true))
        = some (.bin .div (.var 0 true) (.bin .mul (.var 1 true) (.var 2 true))) ∧
      evc envO2 (.bin .div (.var 0 true) (.bin .mul (.var 1 true) (.var 2 true)))
        = .error .panic ∧
      eval Arith.wrap envO2 (.bin .div (.var 0 true) (.bin .mul (.var 1 true) (.var 2 true)))
        = .error .divisionByZero) := by
  decide +kernel

/-! ## T2 — range -/

/-- **C11.T2** (code after fix `f73ff8c`).  For every expression and every assignment in the
domain (`Dom`: constants and symbol values are `i32`, positive symbols `≥ 0`, `Broadcast`
operands `≥ 0`): if evaluation succeeds with `v` without leaving `i32`, then
`range e = (lo, hi)` satisfies `lo ≤ v ≤ hi`. -/
theorem c11_range_sound (σ : Env) (e : SymExpr) (v : Int) (hd : Dom σ e)
    (h : evc σ e = .ok v) : (range e).1 ≤ v ∧ v ≤ (range e).2 :=
  (range_sound σ e v hd h).2.2

/-- Bridge between the machine and the ideal semantics: a successful overflow-checked
evaluation is the ideal evaluation (and its value is an `i32`). -/
theorem c11_checked_eval_is_ideal (σ : Env) (e : SymExpr) (v : Int) (hd : Dom σ e)
    (h : evc σ e = .ok v) : ev σ e = .ok v ∧ I32MIN ≤ v ∧ v ≤ I32MAX :=
  ⟨(range_sound σ e v hd h).1, (range_sound σ e v hd h).2.1⟩

def exσ2 : Env := fun n => if n = 0 then some 5 else if n = 3 then some (-2) else none
def exE2 : SymExpr :=
  .bin .add (.bin .div (.neg (.bin .mul (.var 0 true) (.value 3))) (.var 3 false)) (.value 1)

/-- Non-vacuity of T2: `-(s0 * 3) / s3 + 1` at `s0 = 5, s3 = -2`. -/
example : evc exσ2 exE2 = .ok 8 ∧ range exE2 = (-2147483646, 2147483647) ∧ Dom exσ2 exE2 :=
  ⟨by decide +kernel, by decide +kernel, domB_sound exσ2 exE2 (by decide +kernel)⟩

/-- The overflow guard in T2 is necessary and is not a defect: `s0 + s0` has range
`(0, i32::MAX)`, which ideal arithmetic leaves at `s0 = i32::MAX`. -/
example :
    let σ : Env := fun n => if n = 0 then some 2147483647 else none
    let e : SymExpr := .bin .add (.var 0 true) (.var 0 true)
    ev σ e = .ok 4294967294 ∧ range e = (0, 2147483647) ∧ evc σ e = .error .panic := by
  decide

/-! ## T3 — is_positive -/

/-- **C11.T3** `is_positive e` implies `0 ≤ v` for every assignment in the domain and every
defined (ideal) value. -/
theorem c11_is_positive_sound (σ : Env) (e : SymExpr) (v : Int) (hd : Dom σ e)
    (hp : isPositive e = true) (h : ev σ e = .ok v) : 0 ≤ v :=
  isPositive_sound σ e v hd hp h

def exσ3 : Env := fun n => if n = 0 then some 5 else none
def exE3 : SymExpr := .bin .max (.var 0 true) (.value (-3))

/-- Non-vacuity of T3. -/
example : isPositive exE3 = true ∧ ev exσ3 exE3 = .ok 5 ∧ Dom exσ3 exE3 :=
  ⟨by decide +kernel, by decide +kernel, domB_sound exσ3 exE3 (by decide +kernel)⟩

/-- `Broadcast(..)` is unconditionally "positive": outside the constructor's domain the
claim fails (`broadcast(-5, -3)` is `-3`), which is why `Dom` constrains its operands. -/
example : isPositive (.bin .broadcast (.value (-5)) (.value (-3))) = true ∧
    ev (fun _ => none) (.bin .broadcast (.value (-5)) (.value (-3))) = .ok (-3) := by decide

/-! ## PartialEq, gcd, div_ceil -/

/-- `PartialEq` (equality modulo commutativity, symbols by name) is sound for evaluation. -/
theorem c11_partial_eq_sound (σ : Env) (a b : SymExpr) (v : Int) (h : beq a b = true)
    (ha : ev σ a = .ok v) : ev σ b = .ok v := beq_sound σ a b v h ha

/-- `remove_common_factors` preserves the truncated quotient. -/
theorem c11_remove_common_factors_sound (σ : Env) (l r : SymExpr) (v : Int)
    (h : ev σ (.bin .div l r) = .ok v) : ev σ (.bin .div (rcf l r).1 (rcf l r).2) = .ok v :=
  rcf_sound h

/-- The code's `div_ceil` is the mathematical ceiling for positive divisors, and negating
both operands does not change it. -/
theorem c11_div_ceil_spec (x y : Int) :
    (0 < y → divCeilI x y = -((-x) / y)) ∧ (y < 0 → divCeilI x y = divCeilI (-x) (-y)) :=
  ⟨fun h => divCeilI_pos h, fun h => divCeilI_neg_neg h⟩

end RtenVerif.Sym
