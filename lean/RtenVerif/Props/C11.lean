import RtenVerif.Model.Sym

/-!
# C11 — Symbolic expression simplification and bounds are sound (work in progress)
-/
namespace RtenVerif.Sym

def envW : Env := fun n => if n = 3 then some 1 else none
def wCeil : SymExpr := .bin .divCeil (.bin .divCeil (.var 3 false) (.value (-2))) (.value (-2))

theorem c11_simplify_ceil_merge_witness :
    simplify Arith.checked wCeil
      = some (.bin .divCeil (.var 3 false) (.bin .mul (.value (-2)) (.value (-2)))) ∧
    eval Arith.checked envW wCeil = .ok 0 ∧
    eval Arith.checked envW (.bin .divCeil (.var 3 false) (.bin .mul (.value (-2)) (.value (-2)))) = .ok 1 := by
  decide

end RtenVerif.Sym
