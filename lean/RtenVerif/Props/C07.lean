import RtenVerif.Lemmas.IterNew
import RtenVerif.Lemmas.IterMap
import RtenVerif.Lemmas.IterSched
import RtenVerif.Lemmas.IterPartition
import RtenVerif.Lemmas.IterChunks
import RtenVerif.Lemmas.IterLane
import RtenVerif.Lemmas.IterDistinct

/-!
# C07 — Tensor iterators yield exactly the logical elements in order

Property theorems over `RtenVerif.Model.Iter` (model of `rten-tensor/src/iterators.rs`,
`iterators/parallel.rs` and `merge_axes`).  A layout `dims` is the list of `(size, stride)`
pairs, outermost first; `rowMajor dims` is the specification (offsets of all valid indices in
lexicographic order); `listOps` is a deque; `run ops h s` are the observations of the history
tree `h` (any interleaving of `next`, `next_back`, `nth k`, `len`, `split_at k` with *both*
halves continued, ending in `fold`, reverse draining, or drop).

Full statement of C07: for every layout and history, every iterator kind observes what the
deque over its logical item list observes.  Proved here, at full strength, for all modelled
kinds on the current (fixed) code: the element iterators (`Iter`/`IterMut`, both the
contiguous `Range` path and the `Indexing` path incl. `merge_axes`), `Lanes`/`LanesMut`,
`InnerIter`/`InnerIterMut`, `AxisIter`/`AxisIterMut` and `AxisChunks`/`AxisChunksMut`.  The
pre-fix defects have `decide`d negation witnesses below.
-/
namespace RtenVerif.Iter
open OffsetsBase

/-- **C07.T1 (state level)** For every state of the offsets iterator satisfying the
invariant — in particular every state reachable from `Offsets::new` by any history, since
every operation preserves it (`offsets_refines`) — and every further history, the
observations equal those of a deque over the offsets still to be yielded. -/
theorem c07_offsets_history (h : Hist) (s : Offsets) (hs : OffInv s) :
    run Offsets.ops h s = run (listOps Nat) h (absO s) :=
  run_refines offsets_refines h s hs

/-- **C07.T1** `iter()` / `iter_mut()`: for every layout (any rank, sizes, strides — contiguous,
permuted, stepped, broadcast, empty) and every history, the yielded offsets, lengths, fold
contents and split halves are exactly those of a deque over the row-major offset list: each
logical element once, in order from the front and in reverse from the back. -/
theorem c07_iter_history (dims : List (Nat × Nat)) (h : Hist) :
    run Offsets.ops h (Offsets.new dims) = run (listOps Nat) h (rowMajor dims) := by
  obtain ⟨hinv, habs⟩ := offsets_new dims
  rw [c07_offsets_history h _ hinv, habs]

/-- **C07.T2** `merge_axes` preserves the row-major offset sequence. -/
theorem c07_merge_axes_rowMajor (dims : List (Nat × Nat)) :
    rowMajor (mergeAxes dims) = rowMajor dims := mergeAxes_rowMajor dims

/-- Logical lane list: one lane per index of the other dimensions, in row-major order
(none if the tensor is empty). -/
def lanesSpec (dims : List (Nat × Nat)) (dim : Nat) : List Item :=
  if total dims = 0 then []
  else (rowMajor (dims.eraseIdx dim)).map
    (laneItem (dims.getD dim (0, 0)).1 (dims.getD dim (0, 0)).2)

/-- **C07.T3a** `lanes(dim)` / `lanes_mut(dim)`: whenever the constructor does not panic
(`lanesNew? = some s`: valid `dim`; for `lanes_mut`, not `is_broadcast`), every history
observes the deque over the logical lane list. -/
theorem c07_lanes_history (dims : List (Nat × Nat)) (dim : Nat) (mutable : Bool) (s : Offsets)
    (hs : lanesNew? dims dim mutable = some s) (h : Hist) :
    run (lanesOps dims dim) h s = run (listOps Item) h (lanesSpec dims dim) := by
  have hs' : s = lanesNew dims dim := by
    unfold lanesNew? at hs
    split at hs
    · exact (Option.some.inj hs).symm
    · cases hs
  subst hs'
  unfold lanesOps lanesNew lanesSpec
  by_cases hz : total dims = 0
  · obtain ⟨hinv, habs⟩ := offsets_new dims
    simp only [hz, if_true]
    rw [run_refines (mapOps_refines _) h _ hinv, habs]
    have : rowMajor dims = [] := List.length_eq_zero_iff.mp (by rw [rowMajor_length, hz])
    rw [this]; rfl
  · obtain ⟨hinv, habs⟩ := offsets_new (dims.eraseIdx dim)
    simp only [hz, if_false]
    rw [run_refines (mapOps_refines _) h _ hinv, habs]

/-- Non-vacuity and the modelled constructor panics: a valid mutable case; an invalid `dim`;
`lanes_mut` on a layout with a zero stride (even on a size-1 dim) panics. -/
example : (lanesNew? [(2, 3), (3, 1)] 0 true).isSome = true ∧ lanesNew? [(2, 3), (3, 1)] 2 false = none ∧
    lanesNew? [(1, 0), (3, 1)] 1 true = none ∧ (lanesNew? [(1, 0), (3, 1)] 1 false).isSome = true := by
  decide

/-- **C07.T3a-lane** `Lane` (the element iterator over one lane; not a `SplitIterator`): every
split-free history of next / next_back / nth / len / fold / rev observes the deque over the
lane's element offsets. -/
theorem c07_lane_history (size stride start : Nat) (h : Hist) (hn : h.noSplit = true) :
    run LaneIt.ops h (LaneIt.new size stride start) =
      run (listOps Nat) h (laneItem size stride start).2 := by
  rw [run_refines_ns lane_refines h hn _ trivial, lane_new]

/-- **C07.T3a-lanemut** `LaneMut`, including its `nth` override
(`index.saturating_add(n).min(end)`). -/
theorem c07_lane_mut_history (size stride start : Nat) (h : Hist) (hn : h.noSplit = true) :
    run LaneIt.opsMut h (LaneIt.new size stride start) =
      run (listOps Nat) h (laneItem size stride start).2 := by
  rw [run_refines_ns laneMut_refines h hn _ trivial, lane_new]

example : (Hist.nth 1 (.back (.next (.len .rev)))).noSplit = true := by decide

/-- Logical inner-view list for `inner_iter(n)`: one view per index of the outer dims (outer
strides are irrelevant, and zeroed by the code, when the inner views are empty). -/
def innerSpec (dims : List (Nat × Nat)) (n : Nat) : List Item :=
  let outer := dims.take (dims.length - n)
  let inner := dims.drop (dims.length - n)
  (rowMajor (if minDataLen inner = 0 then outer.map (fun d => (d.1, 0)) else outer)).map
    (innerItem inner)

/-- **C07.T3b** `inner_iter(n)` / `inner_iter_mut(n)`: whenever the constructor does not panic
(`innerNew? = some s`, i.e. `n ≤ ndim`), every history observes the deque over the logical
inner-view list. -/
theorem c07_inner_history (dims : List (Nat × Nat)) (n : Nat) (s : Offsets)
    (hs : innerNew? dims n = some s) (h : Hist) :
    run (innerOps dims n) h s = run (listOps Item) h (innerSpec dims n) := by
  have hs' : s = innerNew dims n := by
    unfold innerNew? at hs
    split at hs
    · exact (Option.some.inj hs).symm
    · cases hs
  subst hs'
  unfold innerOps innerNew innerSpec
  simp only
  obtain ⟨hinv, habs⟩ := offsets_new
    (if minDataLen (dims.drop (dims.length - n)) = 0
      then (dims.take (dims.length - n)).map (fun d => (d.1, 0)) else dims.take (dims.length - n))
  rw [run_refines (mapOps_refines _) h _ hinv, habs]

example : (innerNew? [(2, 3), (3, 1)] 2).isSome = true ∧ innerNew? [(2, 3), (3, 1)] 3 = none := by decide

/-! ### Parallel schedules and partition -/

/-- **C07.T1-par** Whatever split tree a parallel scheduler chooses (valid split points, i.e.
no `split_at` panics), folding every leaf and concatenating in leaf order gives exactly the
row-major offset list: each element once, in order. -/
theorem c07_iter_par_schedule (dims : List (Nat × Nat)) (T : Sched)
    (hp : Obs.panic ∉ run Offsets.ops T.toHist (Offsets.new dims)) :
    collected (run Offsets.ops T.toHist (Offsets.new dims)) = rowMajor dims := by
  rw [c07_iter_history] at hp ⊢
  exact sched_list T _ hp

/-- Non-vacuity: a 3-leaf schedule on the transposed 3×3 tensor does not panic. -/
example : Obs.panic ∉ run Offsets.ops (Sched.node 5 (.node 2 .leaf .leaf) .leaf).toHist
    (Offsets.new [(3, 1), (3, 3)]) := by decide

/-- **C07.T3c** The inner views of `inner_iter(n)` partition the tensor: when the inner views
are non-empty, concatenating the element offsets of the logical inner-view list gives the
row-major offset list of the whole layout (each element in exactly one view, in order). -/
theorem c07_inner_partition (dims : List (Nat × Nat)) (n : Nat) (_hn : n ≤ dims.length)
    (hne : minDataLen (dims.drop (dims.length - n)) ≠ 0) :
    (innerSpec dims n).flatMap (·.2) = rowMajor dims := by
  unfold innerSpec
  simp only [hne, if_false, List.flatMap_map, innerItem]
  rw [← rowMajor_append, List.take_append_drop]

example : 2 ≤ [(2, 6), (3, 2), (2, 1)].length ∧ minDataLen ([(2, 6), (3, 2), (2, 1)].drop (3 - 2)) ≠ 0 := by
  decide


/-! ### Axis iterators and axis chunks (C07.T3d, T4) -/

/-- **C07.T3d** `axis_iter(axis)` / `axis_iter_mut(axis)`: for every view, every valid axis and
every history (incl. `split_at` after partial consumption from either end), the yielded
sub-views are exactly those of a deque over `[index_axis(axis, i) | i < size(axis)]`. -/
theorem c07_axis_history (v : View) (axis : Nat) (mutable : Bool) (s : AxisIter)
    (hs : AxisIter.new? v axis mutable = some s) (h : Hist) :
    run AxisIter.ops h s = run (listOps Item) h (axisSpec v axis) := by
  unfold AxisIter.new? at hs
  split at hs
  · rename_i hc
    obtain ⟨hinv, habs⟩ := axis_new v axis hc.1
    rw [← Option.some.inj hs, run_refines axis_refines h _ hinv, habs]
  · cases hs

/-- **C07.T4** `axis_chunks(axis, c)` / `axis_chunks_mut(axis, c)`: for every view, valid axis,
chunk size `c > 0` and every history, the yielded sub-views are exactly those of a deque over
the logical chunks `[k*c, min((k+1)*c, size))`, `k < ceil(size / c)` — front items in order,
back items in reverse, exact lengths, `split_at` on chunk boundaries. -/
theorem c07_chunks_history (v : View) (axis c : Nat) (mutable : Bool) (s : AxisChunks)
    (hs : AxisChunks.new? v axis c mutable = some s) (h : Hist) :
    run AxisChunks.ops h s = run (listOps Item) h (chunksSpec v axis c) := by
  unfold AxisChunks.new? at hs
  split at hs
  · rename_i hc
    obtain ⟨hinv, habs⟩ := chunks_new v axis c hc.1 hc.2.1
    rw [← Option.some.inj hs, run_refines chunks_refines h _ hinv, habs]
  · cases hs

/-- **C07.T4 (cover)** The logical chunks partition the axis: their index ranges, concatenated
in order, are exactly `0 .. size` — every index of the axis lies in exactly one chunk. -/
theorem c07_chunks_cover (size c : Nat) (hc : 0 < c) :
    (List.range (nChunks size c)).flatMap (chunkRange size c) = List.range size :=
  chunks_cover size c hc

/-- Non-vacuity of the hypotheses (a 2×5×3 view, axis 1, chunks of 2), and the modelled
constructor panics (invalid axis, chunk size 0, mutable iteration over a zero-stride layout). -/
example : (AxisIter.new? ⟨0, [(2, 15), (5, 3), (3, 1)]⟩ 1 true).isSome = true ∧
    (AxisChunks.new? ⟨0, [(2, 15), (5, 3), (3, 1)]⟩ 1 2 true).isSome = true ∧
    AxisIter.new? ⟨0, [(2, 15), (5, 3), (3, 1)]⟩ 3 false = none ∧
    AxisChunks.new? ⟨0, [(2, 15), (5, 3), (3, 1)]⟩ 1 0 false = none ∧
    AxisChunks.new? ⟨0, [(2, 15), (5, 3), (3, 1)]⟩ 3 2 false = none ∧
    AxisIter.new? ⟨0, [(1, 0), (3, 1)]⟩ 1 true = none ∧
    (AxisIter.new? ⟨0, [(1, 0), (3, 1)]⟩ 1 false).isSome = true := by decide

/-! ### Each element at most once (mutable iterators) -/

/-- **C07.M1** `iter_mut()`: for every layout accepted by the overlap check that `TensorViewMut`
constructors apply (`may_have_internal_overlap = false`, C08) and every history — including
fold / reverse-drain terminals and both halves of every `split_at` — all offsets handed out are
pairwise distinct: no element is handed out twice. -/
theorem c07_iter_mut_distinct (dims : List (Nat × Nat)) (h : Hist)
    (hno : RtenVerif.Overlap.mayOverlap dims = false) :
    (yielded (run Offsets.ops h (Offsets.new dims))).Nodup := by
  rw [c07_iter_history]
  exact yielded_nodup h _ (rowMajor_nodup dims hno)

/-- **C07.M2** `inner_iter_mut(n)`: the element offsets of all inner views handed out over any
history are pairwise distinct (non-overlapping layout, non-empty inner views). -/
theorem c07_inner_mut_disjoint (dims : List (Nat × Nat)) (n : Nat) (s : Offsets)
    (hs : innerNew? dims n = some s) (h : Hist)
    (hne : minDataLen (dims.drop (dims.length - n)) ≠ 0)
    (hno : RtenVerif.Overlap.mayOverlap dims = false) :
    ((yielded (run (innerOps dims n) h s)).flatMap (·.2)).Nodup := by
  have hn : n ≤ dims.length := by
    unfold innerNew? at hs
    split at hs
    · assumption
    · cases hs
  rw [c07_inner_history dims n s hs h]
  apply yielded_flat_nodup
  rw [c07_inner_partition dims n hn hne]
  exact rowMajor_nodup dims hno

/-- **C07.M3** `LaneMut`: the offsets handed out by one mutable lane over any split-free history
are pairwise distinct when the lane's stride is non-zero. -/
theorem c07_lane_mut_distinct (size stride start : Nat) (h : Hist) (hn : h.noSplit = true)
    (hst : 0 < stride) :
    (yielded (run LaneIt.opsMut h (LaneIt.new size stride start))).Nodup := by
  rw [c07_lane_mut_history size stride start h hn]
  apply yielded_nodup
  simp only [laneItem]
  unfold List.Nodup
  rw [List.pairwise_map]
  refine (List.nodup_range (n := size)).imp ?_
  intro a b hab heq
  have : a * stride = b * stride := by omega
  exact hab (Nat.eq_of_mul_eq_mul_right hst this)

/-- **C07.M4** Item level, every kind: over any history the sub-views handed out by
`lanes(_mut)`, `axis_iter(_mut)` and `axis_chunks(_mut)` are a permutation of a sublist of the
logical item list — each lane / axis slice / chunk at most once. -/
theorem c07_items_at_most_once (h : Hist) :
    (∀ dims dim m s, lanesNew? dims dim m = some s →
      SubPerm (yielded (run (lanesOps dims dim) h s)) (lanesSpec dims dim)) ∧
    (∀ v axis m s, AxisIter.new? v axis m = some s →
      SubPerm (yielded (run AxisIter.ops h s)) (axisSpec v axis)) ∧
    (∀ v axis c m s, AxisChunks.new? v axis c m = some s →
      SubPerm (yielded (run AxisChunks.ops h s)) (chunksSpec v axis c)) := by
  refine ⟨?_, ?_, ?_⟩
  · intro dims dim m s hs
    rw [c07_lanes_history dims dim m s hs h]; exact yielded_subperm h _
  · intro v axis m s hs
    rw [c07_axis_history v axis m s hs h]; exact yielded_subperm h _
  · intro v axis c m s hs
    rw [c07_chunks_history v axis c m s hs h]; exact yielded_subperm h _

/-- Non-vacuity: the transposed 3×3 layout is accepted by the overlap check. -/
example : RtenVerif.Overlap.mayOverlap [(3, 1), (3, 3)] = false := by decide

/-! ### Non-vacuity: concrete non-trivial histories (kernel-evaluated) -/

/-- The transposed 3×3 layout goes through the `Indexing` path and `merge_axes`; the mixed
history `next, next_back, nth 1, len, split_at 2 {fold | rev}` yields `0, 8, 6, 5 left,
[1,4], [2,7,5] reversed`. -/
example :
    run Offsets.ops (.next (.back (.nth 1 (.len (.split 2 .fold .rev))))) (Offsets.new [(3, 1), (3, 3)])
      = [.item (some 0), .item (some 8), .item (some 6), .len 5, .folded [1, 4], .reved [5, 2, 7]] := by
  decide

example : RtenVerif.Overlap.isContiguous [(3, 1), (3, 3)] = false ∧ rowMajor [(3, 1), (3, 3)] = [0, 3, 6, 1, 4, 7, 2, 5, 8] := by
  decide

/-! ### Negation witnesses: the code before the `fix:` commits violated the property -/

/-- The state after one `next()` on the transposed 3×3 tensor `0..9`. -/
def witnessState : OffsetsBase := (OffsetsBase.new [(3, 1), (3, 3)]).next.2

theorem witnessState_inv : Inv witnessState :=
  (next_spec (base_new [(3, 1), (3, 3)]).1).2.2

/-- **Pre-fix `OffsetsBase::next_back` is wrong** (`index = len - 1` used as an absolute
index): after `next()` it returns offset 5 (observed on the real code: `next_back()` = 5) instead of the
last element, offset 8.  The refinement statement `next_back = getLast?` is false of the old code. -/
theorem c07_next_back_v0_false :
    ¬ (∀ s : OffsetsBase, Inv s → s.nextBackV0.1 = (absB s).getLast?) := by
  intro h
  have := h witnessState witnessState_inv
  revert this
  decide

/-- The same state on the fixed code (instance of `nextBack_spec`). -/
example : witnessState.nextBack.1 = some 8 ∧ witnessState.nextBackV0.1 = some 5 := by decide

/-- **Pre-fix `AxisIter::split_at` is wrong**: it ignored the consumed prefix, so after
`next()` the left half re-yields row 0 (for `AxisIterMut`: a second `&mut` view of row 0). -/
theorem c07_axis_split_v0_false :
    run { AxisIter.ops with splitAt := AxisIter.splitAtV0 } (.next (.split 1 .fold .fold))
        (AxisIter.new ⟨0, [(3, 3), (3, 1)]⟩ 0)
      ≠ run (listOps Item) (.next (.split 1 .fold .fold)) (axisSpec ⟨0, [(3, 3), (3, 1)]⟩ 0) := by
  decide

/-- The fixed `split_at` on the same input (kernel-evaluated instance of `c07_axis_history`). -/
example :
    run AxisIter.ops (.next (.split 1 .fold .fold)) (AxisIter.new ⟨0, [(3, 3), (3, 1)]⟩ 0)
      = run (listOps Item) (.next (.split 1 .fold .fold)) (axisSpec ⟨0, [(3, 3), (3, 1)]⟩ 0) := by
  decide

/-- **Pre-fix `AxisChunks::next_back` is wrong**: on an axis of 5 with chunks of 2 it yields
`[3,4]` from the back, which is not a chunk of the forward sequence `[0,1] [2,3] [4]`. -/
theorem c07_chunks_next_back_v0_false :
    run { AxisChunks.ops with nextBack := AxisChunks.nextBackV0 } (.back .drop)
        (AxisChunks.new ⟨0, [(5, 1)]⟩ 0 2)
      ≠ run (listOps Item) (.back .drop) (chunksSpec ⟨0, [(5, 1)]⟩ 0 2) := by
  decide

/-- Fixed `AxisChunks` on the same layout, mixed history incl. `split_at` (kernel-evaluated
instance of `c07_chunks_history`). -/
example :
    run AxisChunks.ops (.back (.len (.split 2 .fold (.next .drop)))) (AxisChunks.new ⟨0, [(5, 1)]⟩ 0 2)
      = run (listOps Item) (.back (.len (.split 2 .fold (.next .drop)))) (chunksSpec ⟨0, [(5, 1)]⟩ 0 2) := by
  decide

end RtenVerif.Iter
