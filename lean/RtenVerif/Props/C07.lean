import RtenVerif.Lemmas.IterOffsets

/-!
# C07 — Tensor iterators yield exactly the logical elements in order
-/
namespace RtenVerif.Iter

/-- **C07.T1 (state-level)** For every reachable state of the offsets iterator and every
history, the observations equal those of a deque over the remaining offsets. -/
theorem c07_offsets_history (h : Hist) (s : Offsets) (hs : OffInv s) :
    run Offsets.ops h s = run (listOps Nat) h (absO s) :=
  run_refines offsets_refines h s hs

end RtenVerif.Iter
