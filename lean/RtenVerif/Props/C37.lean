import RtenVerif.Lemmas.BlockQuant

/-!
# C37 — Block-quantized matrix multiplication equals dequantize-then-multiply

Property theorems over `RtenVerif.Model.BlockQuant` (model of `rten-gemm/src/block_quant.rs`,
`packing.rs::BlockQuantizedMatrixPacker`, MatMulNBits).

Level: proof of the algebra and of the index logic over an arbitrary commutative ring
(`Lean.Grind.CommRing`) / *partial*: nothing is claimed about f32 rounding (the property's "within
floating-point tolerance" part is tested by the harness, not proved), and the semantics of the SIMD
instructions is assumed; only this host's ISAs are exercised.
-/
namespace RtenVerif.BlockQuant
open Lean.Grind

variable {R : Type} [CommRing R]

/-- **C37.T1** For every block size, every number of blocks, every LHS/weight length (the final
block may be partial) and all scales: dequantise-then-multiply
`Σ_k a_k · (scale_{k / bs} · (q_k − 8))` equals the factored per-block form
`Σ_blocks scale · (Σ_{k∈block} a_k q_k − 8 · Σ_{k∈block} a_k)` (pure algebra; the per-block form is what
the Int8 kernel's unsigned-LHS trick evaluates, the Float kernel dequantises element-wise — the
kernels themselves are `floatKernelDot` / `int8KernelDot`, Props/C37Index.lean). -/
theorem c37_factored_eq_dequantize (bs : Nat) (scales a q : List R) (h : a.length = q.length) :
    factoredBlocks bs scales a q = refDot bs scales a q :=
  (refDot_eq_factoredBlocks bs scales a q h).symm

/-- The reference really uses `block index = k / bs`: the per-element scale list it multiplies with
has `scales[k / bs]` at position `k`. -/
theorem c37_scale_of_element (bs : Nat) (hbs : 0 < bs) (scales : List R) (k : Nat) :
    (expandScales bs scales).getD k 0 = scales.getD (k / bs) 0 :=
  expandScales_getD bs hbs 0 scales k

/-- Non-vacuity over `Int`: two blocks of size 4, the second one partial (3 elements). -/
example : factoredBlocks (R := Int) 4 [2, -3] [1, -2, 3, 4, 5, -6, 7] [0, 15, 8, 7, 1, 9, 12] =
    refDot 4 [2, -3] [1, -2, 3, 4, 5, -6, 7] [0, 15, 8, 7, 1, 9, 12] ∧
    refDot (R := Int) 4 [2, -3] [1, -2, 3, 4, 5, -6, 7] [0, 15, 8, 7, 1, 9, 12] = -13 := by decide

/-- **C37.T2a** Nibble unpacking is the inverse of packing: for every byte, and for every pair of
nibbles. -/
theorem c37_nibble_roundtrip :
    (∀ b, b < 256 → packByte (loNibble b) (hiNibble b) = b) ∧
    (∀ lo hi, lo < 16 → hi < 16 →
      loNibble (packByte lo hi) = lo ∧ hiNibble (packByte lo hi) = hi) :=
  ⟨unpack_pack_byte, pack_unpack_nibbles⟩

/-- The same over the complete finite domain by evaluation (256 bytes). -/
theorem c37_nibble_roundtrip_all_bytes :
    ∀ b : Fin 256, packByte (loNibble b.val) (hiNibble b.val) = b.val ∧
      loNibble b.val < 16 ∧ hiNibble b.val < 16 := by decide +kernel

/-- … and for whole columns. -/
theorem c37_unpack_then_pack (bytes : List Nat) (h : ∀ b ∈ bytes, b < 256) :
    packNibbles (unpackBytes bytes) = bytes :=
  packNibbles_unpackBytes bytes h

/-- **C37.T2b** The element → (block, byte, nibble) index map is a bijection between `[0, nb·bs)`
and `{(blk, byte, nib) | blk < nb, byte < bs/2, nib < 2}` for every even block size. -/
theorem c37_index_map_bijection (bs nb : Nat) (hbs : 0 < bs) (heven : bs % 2 = 0) :
    (∀ k, posElem bs (elemPos bs k) = k) ∧
    (∀ k, k < nb * bs →
      (elemPos bs k).1 < nb ∧ (elemPos bs k).2.1 < bs / 2 ∧ (elemPos bs k).2.2 < 2) ∧
    (∀ blk byte nib, byte < bs / 2 → nib < 2 →
      elemPos bs (posElem bs (blk, byte, nib)) = (blk, byte, nib)) ∧
    (∀ blk byte nib, blk < nb → byte < bs / 2 → nib < 2 →
      posElem bs (blk, byte, nib) < nb * bs) := by
  refine ⟨?_, ?_, ?_, ?_⟩
  · intro k
    simp only [posElem, elemPos]
    have h1 := Nat.div_add_mod k bs
    have h2 : k % 2 = (k % bs) % 2 := by
      rw [Nat.mod_mod_of_dvd k (Nat.dvd_of_mod_eq_zero heven)]
    have h3 := Nat.div_add_mod (k % bs) 2
    rw [Nat.mul_comm] at h1
    omega
  · intro k hk
    simp only [elemPos]
    refine ⟨?_, ?_, ?_⟩
    · exact (Nat.div_lt_iff_lt_mul hbs).mpr hk
    · have := Nat.mod_lt k hbs
      omega
    · omega
  · intro blk byte nib hb hn
    have hlt : 2 * byte + nib < bs := by omega
    have e : blk * bs + 2 * byte + nib = (2 * byte + nib) + blk * bs := by omega
    simp only [posElem, elemPos]
    have hd : (blk * bs + 2 * byte + nib) / bs = blk := by
      rw [e, Nat.add_mul_div_right _ _ hbs, Nat.div_eq_of_lt hlt]; omega
    have hm : (blk * bs + 2 * byte + nib) % bs = 2 * byte + nib := by
      rw [e, Nat.add_mul_mod_self_right, Nat.mod_eq_of_lt hlt]
    have h2 : (blk * bs + 2 * byte + nib) % 2 = nib := by
      have : bs = 2 * (bs / 2) := by omega
      have e2 : blk * bs = 2 * (blk * (bs / 2)) := by
        rw [← Nat.mul_assoc, Nat.mul_comm 2 blk, Nat.mul_assoc, ← this]
      omega
    rw [hd, hm, h2]
    have : (2 * byte + nib) / 2 = byte := by omega
    rw [this]
  · intro blk byte nib hblk hb hn
    simp only [posElem]
    have h1 : (blk + 1) * bs ≤ nb * bs := Nat.mul_le_mul_right bs hblk
    have h2 : (blk + 1) * bs = blk * bs + bs := by rw [Nat.add_mul, Nat.one_mul]
    omega

/-- **C37.T2c** Reading element `k` through the index map (as the reference implementations do)
agrees with the sequential low-nibble-first unpacking of the column's bytes (as the kernels do). -/
theorem c37_index_map_agrees_with_unpack (bs : Nat) (hbs : 0 < bs) (heven : bs % 2 = 0)
    (bytes : List Nat) (k : Nat) :
    elemAt bs bytes k = (unpackBytes bytes).getD k 0 := by
  rw [unpackBytes_getD]
  simp only [elemAt, elemPos]
  have h2 : k % 2 = (k % bs) % 2 := by
    rw [Nat.mod_mod_of_dvd k (Nat.dvd_of_mod_eq_zero heven)]
  have hidx : k / bs * (bs / 2) + k % bs / 2 = k / 2 := by
    have h1 := Nat.div_add_mod k bs
    have hb : bs = 2 * (bs / 2) := by omega
    have e : bs * (k / bs) = 2 * (k / bs * (bs / 2)) := by
      rw [Nat.mul_comm (k / bs) (bs / 2), ← Nat.mul_assoc, ← hb]
    have h3 := Nat.div_add_mod (k % bs) 2
    omega
  rw [hidx]
  first | rfl | simp

example : elemAt 16 [0x21, 0x43, 0x65, 0x87, 0xA9, 0xCB, 0xED, 0x0F, 0x10] 17 = 1 ∧
    unpackBytes [0x21, 0x43] = [1, 2, 3, 4] := by decide

/-- **C37.T3** Int8 compute mode equals T1 applied to the de-quantised LHS
`ã_k = row_scale_{k / bs} · l_k`, for both dot-product flavours (unsigned-LHS trick of x86 and the
signed form), every block size and a possibly partial last block. -/
theorem c37_int8_mode_eq_dequantize (u : Bool) (bs : Nat) (cs rs l q : List R)
    (h : l.length = q.length) (hc : cs.length = rs.length) :
    int8Blocks u bs cs rs l q = refDot bs cs (scaleLhs bs rs l) q := by
  rw [int8Blocks_eq_factored u bs cs rs l q h hc]
  -- `scaleLhs` may be shorter than `q` (missing row scales); compare on the common prefix
  have key : ∀ (cs a q : List R), a.length ≤ q.length →
      factoredBlocks bs cs a q = refDot bs cs a q := by
    intro cs a q hle
    have h1 := refDot_eq_factoredBlocks bs cs a (q.take a.length) (by simp; omega)
    -- both sides ignore `q` beyond `a.length`
    have hq : ∀ (cs a q : List R), factoredBlocks bs cs a q = factoredBlocks bs cs a (q.take a.length) ∧
        refDot bs cs a q = refDot bs cs a (q.take a.length) := by
      intro cs a q
      have rd : ∀ (a q : List R), rawDot a q = rawDot a (q.take a.length) := by
        intro a
        induction a with
        | nil => intro q; simp [rawDot]
        | cons x xs ih =>
          intro q
          cases q with
          | nil => simp [rawDot]
          | cons y ys => simp only [List.length_cons, List.take_succ_cons, rawDot, ← ih ys]
      have d3 : ∀ (a w q : List R), dot3 a w q = dot3 a w (q.take a.length) := by
        intro a
        induction a with
        | nil => intro w q; simp [dot3]
        | cons x xs ih =>
          intro w q
          cases w with
          | nil => simp [dot3_nil_w]
          | cons v vs =>
            cases q with
            | nil => simp [dot3_nil_q]
            | cons y ys => simp only [List.length_cons, List.take_succ_cons, dot3, ← ih vs ys]
      constructor
      · induction cs generalizing a q with
        | nil => simp [factoredBlocks]
        | cons c cs ih =>
          simp only [factoredBlocks]
          rw [ih (a.drop bs) (q.drop bs), ih (a.drop bs) ((q.take a.length).drop bs)]
          rw [rd (a.take bs) (q.take bs), rd (a.take bs) ((q.take a.length).take bs)]
          congr 2
          · congr 2
            simp only [List.length_take, List.take_take]
            congr 1
            omega
          · simp only [List.length_drop, List.drop_take, List.take_take]
            congr 1
            omega
      · unfold refDot; exact d3 a _ q
    rw [(hq cs a q).1, (hq cs a q).2, h1]
  exact key cs (scaleLhs bs rs l) q (by have := scaleLhs_length_le bs rs l; omega)

/-- Corollary (error of Int8 mode is exactly the LHS quantisation error propagated through the
reference): `ref(a) − int8(l) = ref(a − ã)`. -/
theorem c37_int8_error_is_quantization_error (u : Bool) (bs : Nat) (cs rs l q a : List R)
    (h : l.length = q.length) (hc : cs.length = rs.length)
    (ha : a.length = (scaleLhs bs rs l).length) :
    refDot bs cs a q - int8Blocks u bs cs rs l q =
      refDot bs cs (List.zipWith (· - ·) a (scaleLhs bs rs l)) q := by
  rw [c37_int8_mode_eq_dequantize u bs cs rs l q h hc]
  unfold refDot
  rw [dot3_sub a _ _ q ha]

/-- Non-vacuity over `Int`: block size 4, two blocks, both flavours agree with the reference. -/
example :
    int8Blocks (R := Int) true 4 [2, 3] [1, 2] [127, -5, 0, 64, -127, 1, 2, 3] [0, 15, 8, 7, 1, 9, 12, 3] =
      refDot 4 [2, 3] (scaleLhs 4 [1, 2] [127, -5, 0, 64, -127, 1, 2, 3]) [0, 15, 8, 7, 1, 9, 12, 3] ∧
    int8Blocks (R := Int) false 4 [2, 3] [1, 2] [127, -5, 0, 64, -127, 1, 2, 3] [0, 15, 8, 7, 1, 9, 12, 3] =
      int8Blocks (R := Int) true 4 [2, 3] [1, 2] [127, -5, 0, 64, -127, 1, 2, 3] [0, 15, 8, 7, 1, 9, 12, 3] := by
  decide

/-! ### Signed weights: dequantize ∘ unpack ∘ pack = id -/

theorem unpackBytes_packNibbles : ∀ (l : List Nat), l.length % 2 = 0 → (∀ x ∈ l, x < 16) →
    unpackBytes (packNibbles l) = l
  | [], _, _ => rfl
  | [_], h, _ => by simp at h
  | lo :: hi :: rest, h, hb => by
    have hlo : lo < 16 := hb lo (by simp)
    have hhi : hi < 16 := hb hi (by simp)
    have := pack_unpack_nibbles lo hi hlo hhi
    simp only [packNibbles, unpackBytes, this.1, this.2]
    rw [unpackBytes_packNibbles rest (by simp only [List.length_cons] at h; omega)
      (fun x hx => hb x (by simp [hx]))]

/-- **C37.T2d** For every column of signed 4-bit weights (`−8 ≤ w ≤ 7`, even length): unpacking the
packed bytes low-nibble-first and subtracting the zero point 8 returns the weights — the block
layout `[N, k_blocks, block_size/2]` is just this byte list cut into blocks (see
`c37_index_map_agrees_with_unpack`). -/
theorem c37_dequantize_unpack_pack (ws : List Int) (hlen : ws.length % 2 = 0)
    (hr : ∀ w ∈ ws, -8 ≤ w ∧ w ≤ 7) : unpackWeights (packWeights ws) = ws := by
  unfold unpackWeights packWeights
  rw [unpackBytes_packNibbles _ (by simpa using hlen) (by
    intro x hx
    simp only [List.mem_map] at hx
    obtain ⟨w, hw, rfl⟩ := hx
    have := hr w hw
    unfold nibbleOfWeight
    omega)]
  rw [List.map_map]
  have : ∀ w ∈ ws, ((fun q : Nat => (q : Int) - 8) ∘ nibbleOfWeight) w = w := by
    intro w hw
    have := hr w hw
    simp only [Function.comp, nibbleOfWeight]
    omega
  calc ws.map ((fun q : Nat => (q : Int) - 8) ∘ nibbleOfWeight) = ws.map id :=
        List.map_congr_left this
    _ = ws := List.map_id ws

/-- … and the packed bytes are bytes. -/
theorem c37_packed_bytes_lt_256 (lo hi : Nat) : packByte lo hi < 256 := by
  unfold packByte; omega

example : packWeights [-8, 7, 0, -1] = [0xF0, 0x78] ∧ unpackWeights [0xF0, 0x78] = [-8, 7, 0, -1] := by
  decide

/-- All 256 (even, odd) weight pairs by evaluation. -/
theorem c37_dequantize_unpack_pack_all_pairs :
    ∀ a b : Fin 16, unpackWeights (packWeights [(a.val : Int) - 8, (b.val : Int) - 8]) =
      [(a.val : Int) - 8, (b.val : Int) - 8] := by decide +kernel

/-! ### LHS quantisation (`quantize`) -/

/-- **C37.T3b** (only the range part is derived; the half-step part *is* the hypothesis `NearestQ`,
which the harness checks on the real `quantize` through `verif::quantize_row`, ε-weakened for
f32).  For any nearest-integer rounding: the quantised value of an element of a block with
`absmax = A > 0` lies in `[−127, 127]` (no clamp is ever needed, the `as i8` cast is exact) and the
de-quantisation error is at most half a scale step: `|q·A − 127·X| ≤ A/2`, i.e.
`|q·scale − x| ≤ scale/2` with `scale = A/127`. -/
theorem c37_quantize_in_range_and_half_step (A X q : Int) (hA : 0 < A) (hx : -A ≤ X ∧ X ≤ A)
    (hq : NearestQ A X q) : (-127 ≤ q ∧ q ≤ 127) ∧ 2 * (q * A - 127 * X) ≤ A ∧
      -A ≤ 2 * (q * A - 127 * X) := by
  refine ⟨?_, hq⟩
  unfold NearestQ at hq
  constructor
  · -- q ≤ −128 would give q·A ≤ −128·A
    apply Classical.byContradiction
    intro hc
    have h128 : q ≤ -128 := by omega
    have : q * A ≤ -128 * A := Int.mul_le_mul_of_nonneg_right h128 (Int.le_of_lt hA)
    omega
  · apply Classical.byContradiction
    intro hc
    have h128 : 128 ≤ q := by omega
    have : 128 * A ≤ q * A := Int.mul_le_mul_of_nonneg_right h128 (Int.le_of_lt hA)
    omega

/-- Non-vacuity: `A = 254`, `X = 100` → `q = 50` is nearest. -/
example : NearestQ 254 100 50 ∧ ¬ NearestQ 254 100 51 := by unfold NearestQ; omega

/-- The exact-domain quantiser used by the driver agrees with the law: when it answers, `q·s = x`
for every element and `|q| ≤ 127`. -/
example : quantizeBlockExact [254, -100, 0, 2] = some ([127, -50, 0, 1], 2) ∧
    quantizeBlockExact [0, 0] = some ([0, 0], 0) ∧ quantizeBlockExact [3, 1] = none := by decide

/-! ### Checked variants (no silent truncation on a wrong number of scales) -/

/-- **C37.T1 (checked)** With the length checks made explicit — LHS and weights of equal length and
exactly one scale per (possibly partial) block, `none` otherwise — the factored form and the
reference agree, as `Option`s. -/
theorem c37_factored_eq_dequantize_checked (bs : Nat) (scales a q : List R) :
    factoredBlocksChecked bs scales a q = refDotChecked bs scales a q := by
  unfold factoredBlocksChecked refDotChecked
  split
  · rename_i h
    rw [c37_factored_eq_dequantize bs scales a q h.1]
  · rfl

theorem expandScales_length (bs : Nat) : ∀ (scales : List R), (expandScales bs scales).length = scales.length * bs
  | [] => by simp [expandScales]
  | s :: ss => by
    rw [expandScales_cons, List.length_append, List.length_replicate, expandScales_length bs ss,
      List.length_cons, Nat.add_mul, Nat.one_mul, Nat.add_comm]

theorem numBlocks_mul_ge (bs len : Nat) (hbs : 0 < bs) : len ≤ numBlocks bs len * bs := by
  unfold numBlocks
  have h1 := Nat.div_add_mod (len + bs - 1) bs
  have h2 := Nat.mod_lt (len + bs - 1) hbs
  rw [Nat.mul_comm] at h1
  omega

/-- **C37.T3 (checked)** Int8 mode with explicit length checks equals the checked reference applied
to the de-quantised LHS, for quantised LHS and weights of equal length: both are `none` unless
there is exactly one column scale and one row scale per block. -/
theorem c37_int8_mode_eq_dequantize_checked (u : Bool) (bs : Nat) (hbs : 0 < bs) (cs rs l q : List R)
    (hr : rs.length = cs.length) (hl : l.length = q.length) :
    int8BlocksChecked u bs cs rs l q = refDotChecked bs cs (scaleLhs bs rs l) q := by
  unfold int8BlocksChecked refDotChecked
  by_cases h : cs.length = numBlocks bs l.length
  · have hlen : (scaleLhs bs rs l).length = l.length := by
      unfold scaleLhs
      rw [List.length_zipWith, expandScales_length, hr, h]
      exact Nat.min_eq_right (numBlocks_mul_ge bs l.length hbs)
    rw [if_pos ⟨hl, h, hr⟩, hlen, if_pos ⟨hl, h⟩, c37_int8_mode_eq_dequantize u bs cs rs l q hl hr.symm]
  · rw [if_neg (fun hh => h hh.2.1)]
    have hle : (scaleLhs bs rs l).length ≤ l.length := scaleLhs_length_le bs rs l
    rw [if_neg]
    intro h2
    apply h
    have hfull : (scaleLhs bs rs l).length = l.length := by omega
    rw [← hfull]; exact h2.2

example : refDotChecked (R := Int) 4 [2, -3] [1, -2, 3, 4, 5, -6, 7] [0, 15, 8, 7, 1, 9, 12] = some (-13) ∧
    refDotChecked (R := Int) 4 [2] [1, -2, 3, 4, 5, -6, 7] [0, 15, 8, 7, 1, 9, 12] = none ∧
    factoredBlocksChecked (R := Int) 4 [2, -3, 5] [1, -2, 3, 4, 5, -6, 7] [0, 15, 8, 7, 1, 9, 12] = none := by
  decide

/-! ### Summed error bound of the Int8 mode -/

theorem dot3_abs_le : ∀ (e : List Int) (r : List Nat) (w q : List Int), HalfStep e r →
    2 * (dot3 e w q).natAbs ≤ absBoundN r w q
  | _, _, w, q, .nil => by simp [dot3]
  | _, _, [], q, .cons _ _ => by simp [dot3_nil_w]
  | _, _, _ :: _, [], .cons _ _ => by simp [dot3_nil_q]
  | x :: xs, r :: rs, w :: ws, y :: ys, .cons h ht => by
    have ih := dot3_abs_le xs rs ws ys ht
    simp only [dot3, absBoundN]
    have h1 := Int.natAbs_add_le (x * (w * (y - 8))) (dot3 xs ws ys)
    have h2 : (x * (w * (y - 8))).natAbs = x.natAbs * (w * (y - 8)).natAbs := Int.natAbs_mul _ _
    have h3 : 2 * x.natAbs * (w * (y - 8)).natAbs ≤ r * (w * (y - 8)).natAbs :=
      Nat.mul_le_mul_right _ h
    rw [h2] at h1
    have e : 2 * (x.natAbs * (w * (y - 8)).natAbs) = 2 * x.natAbs * (w * (y - 8)).natAbs := by
      rw [Nat.mul_assoc]
    omega

/-- **C37.T3c** Summed bound: if every element of the LHS is de-quantised to within half the row
scale of its block (`HalfStep`, what `quantize` guarantees up to f32 rounding — checked on the real
`quantize` by the harness), then the Int8 result differs from dequantize-then-multiply by at most
`Σ_k (rs_{k/bs} / 2) · |cs_{k/bs} · (q_k − 8)|`.  Stated doubled, over integers in a common unit;
`halfSteps` is the per-element list of row scales. -/
theorem c37_int8_error_bound (u : Bool) (bs : Nat) (cs rs l q a : List Int) (halfSteps : List Nat)
    (hl : l.length = q.length) (hc : cs.length = rs.length)
    (ha : a.length = (scaleLhs bs rs l).length)
    (hstep : HalfStep (List.zipWith (· - ·) a (scaleLhs bs rs l)) halfSteps) :
    2 * (refDot bs cs a q - int8Blocks u bs cs rs l q).natAbs ≤
      absBoundN halfSteps (expandScales bs cs) q := by
  rw [c37_int8_error_is_quantization_error u bs cs rs l q a hl hc ha]
  unfold refDot
  exact dot3_abs_le _ _ _ _ hstep

/-- Non-vacuity: block size 2 (toy), row scale 4, LHS `[9, -6]` quantised to `[2, -2]`
(de-quantised `[8, -8]`, errors 1 and 2 ≤ 4/2). -/
example : HalfStep (List.zipWith (· - ·) [9, -6] (scaleLhs 2 [4] [2, -2])) [4, 4] ∧
    2 * (refDot 2 [3] [9, -6] [15, 0] - int8Blocks true 2 [3] [4] [2, -2] [15, 0]).natAbs ≤
      absBoundN [4, 4] (expandScales 2 [3]) [15, 0] := by
  refine ⟨.cons (by decide) (.cons (by decide) .nil), by decide⟩

/-- The API cannot express a partial final block: `rows() = k_blocks · block_size`, and an LHS whose
K differs is rejected with `KSizeMismatch` (model of the argument checks; tied by the harness). -/
theorem c37_partial_block_rejected (kBlocks blockBytes lhsK n m batch : Nat)
    (hk : lhsK ≠ kBlocks * (blockBytes * 8 / 4)) :
    checkGemm (n * m * batch) batch m lhsK n kBlocks blockBytes 4 = .error .kSizeMismatch := by
  simp [checkGemm, hk]

end RtenVerif.BlockQuant
