import RtenVerif.Lemmas.BpeEncode

/-!
# C28 — BPE merging matches the reference merge algorithm

Property text: *for any merge table and input piece, the token IDs produced equal those of the
reference BPE procedure that repeatedly merges the lowest-ranked adjacent pair (left to right
among equal pairs) until no merge applies, then maps pieces through the vocabulary.*

Model: `RtenVerif.Model.Bpe` (`bpe_merge`, `build_merge_map` of `rten-text/src/models/bpe.rs`).
`refBpe` is the string-level reference; `σ` is the type of token strings, `cat` concatenation,
`dom s` = "`s` is a key of the vocabulary", `v s` = its id.
-/
namespace RtenVerif.Bpe

set_option linter.unusedSectionVars false
variable {α : Type} [DecidableEq α] {σ : Type} [DecidableEq σ]

/-! ## T1 — termination of `bpe_merge` -/

/-- **C28.T1a** Every iteration of the outer loop that does not `break` strictly shortens the
token vector — for every merge map (also non-injective / cyclic ones, `merged = first`, …). -/
theorem c28_T1_round_decreases (m : MergeMap α) (toks t' : List α)
    (h : mergeRound m toks = some t') : t'.length < toks.length :=
  mergeRound_length_lt h

/-- **C28.T1b** Hence `toks.length` rounds always reach the `break`: the result of `bpeMerge`
admits no further merge, and more fuel changes nothing. -/
theorem c28_T1_terminates (m : MergeMap α) (toks : List α) :
    mergeRound m (bpeMerge m toks) = none ∧
    ∀ n, toks.length ≤ n → bpeMergeFuel m n toks = bpeMerge m toks :=
  ⟨bpeMergeFuel_fixpoint m _ toks (Nat.le_refl _),
   fun n hn => bpeMergeFuel_stable m n toks.length toks hn (Nat.le_refl _)⟩

/-- **C28.T1c** `tokens.len() - 1` in the inner loop cannot underflow: a pair is only found
when there are at least two tokens. -/
theorem c28_T1_no_underflow (m : MergeMap α) (toks : List α) (c : (α × α) × (Nat × α))
    (h : findMinPair m toks = some c) : 2 ≤ toks.length :=
  findMinPair_some_length h

/-! ## T2 — the in-place loop is the functional replacement -/

/-- **C28.T2** The `while i < tokens.len() - 1 { …; tokens.remove(i + 1); …; i += 1 }` loop equals
the left-to-right non-overlapping replacement of `(first, second)` by `merged`, for all token
vectors and all three ids (including `merged = first` or `merged = second`). -/
theorem c28_T2_loop_eq_replace (first second merged : α) (toks : List α) :
    replaceLoop first second merged toks.length 0 toks = replacePairs first second merged toks :=
  replaceLoop_eq first second merged toks

/-- Overlapping occurrences compete: in `a a a` only the first `a a` is merged. -/
example : replaceLoop 0 0 7 3 0 [0, 0, 0] = [7, 0] ∧ replacePairs 0 0 7 [0, 0, 0, 0, 0] = [7, 7, 0] := by
  decide

/-- **C28.T2b** The whole in-place `bpe_merge` (index loop + `Vec::remove`) computes the same as the
purely functional fuel model (rounds of `replacePairs`), for every merge map and token vector. -/
theorem c28_inplace_refines_functional (m : MergeMap α) (toks : List α) :
    bpeMerge m toks = bpeMergeFun m toks := by
  have hr : ∀ t, mergeRound m t = mergeRoundFun m t := fun t => mergeRound_eq m t
  unfold bpeMerge bpeMergeFun
  generalize toks.length = n
  induction n generalizing toks with
  | zero => rfl
  | succ n ih =>
    simp only [bpeMergeFuel, bpeMergeFunFuel, hr]
    cases mergeRoundFun m toks with
    | none => rfl
    | some t' => exact ih t'

/-! ## Meaning of the reference's choice -/

/-- The pair chosen by the reference is an adjacent pair of minimal rank. -/
theorem refBestBy_spec (rank : σ × σ → Option Nat) (pieces : List σ) (p : σ × σ)
    (h : refBestBy rank pieces = some p) :
    p ∈ windows2 pieces ∧ ∃ r, rank p = some r ∧
      ∀ q ∈ windows2 pieces, ∀ rq, rank q = some rq → r ≤ rq := by
  unfold refBestBy at h
  cases hm : minByKey (fun c : (σ × σ) × Nat => c.2) (refCandidatesBy rank pieces) with
  | none => simp [hm] at h
  | some c =>
    simp only [hm, Option.map_some, Option.some.injEq] at h
    subst h
    have hmem := minByKey_mem _ hm
    have hle := minByKey_le _ hm
    simp only [refCandidatesBy, List.mem_filterMap, Option.map_eq_some_iff] at hmem
    obtain ⟨p, hp, r, hr, rfl⟩ := hmem
    refine ⟨hp, r, hr, ?_⟩
    intro q hq rq hrq
    exact hle (q, rq) (by
      simp only [refCandidatesBy, List.mem_filterMap, Option.map_eq_some_iff]
      exact ⟨q, hq, rq, hrq, rfl⟩)

/-- The reference stops exactly when no adjacent pair has a rank. -/
theorem refBestBy_none (rank : σ × σ → Option Nat) (pieces : List σ) :
    refBestBy rank pieces = none ↔ ∀ q ∈ windows2 pieces, rank q = none := by
  unfold refBestBy
  rw [Option.map_eq_none_iff, minByKey_eq_none]
  simp only [refCandidatesBy, List.filterMap_eq_nil_iff, Option.map_eq_none_iff]

/-- ... and it is the **leftmost** among the adjacent pairs of minimal rank: in the list of ranked
adjacent pairs (in position order) everything before the chosen one has a strictly larger rank. -/
theorem refBestBy_leftmost (rank : σ × σ → Option Nat) (pieces : List σ) (p : σ × σ)
    (h : refBestBy rank pieces = some p) :
    ∃ pre post r, refCandidatesBy rank pieces = pre ++ (p, r) :: post ∧
      (∀ c ∈ pre, r < c.2) ∧ ∀ c ∈ post, r ≤ c.2 := by
  unfold refBestBy at h
  cases hm : minByKey (fun c : (σ × σ) × Nat => c.2) (refCandidatesBy rank pieces) with
  | none => simp [hm] at h
  | some c =>
    simp only [hm, Option.map_some, Option.some.injEq] at h
    subst h
    obtain ⟨pre, post, hl, hpre, hpost⟩ := minByKey_first _ hm
    exact ⟨pre, post, c.2, hl, hpre, hpost⟩

/-- **C28.T1d (loop invariant)** The `tokens.len() - 1` of the inner `while` cannot underflow at
*any* iteration of a round: with the subtraction made partial (`replaceLoopChecked`, `none` =
underflow) the loop still returns, and returns the functional replacement. -/
theorem c28_T1_no_underflow_invariant (m : MergeMap α) (toks : List α) (c : (α × α) × (Nat × α))
    (h : findMinPair m toks = some c) :
    replaceLoopChecked c.1.1 c.1.2 c.2.2 toks.length 0 toks =
      some (replacePairs c.1.1 c.1.2 c.2.2 toks) := by
  have h2 := findMinPair_some_length h
  have hne : toks ≠ [] := by intro he; rw [he] at h2; simp at h2
  rw [replaceLoopChecked_eq _ _ _ _ _ _ hne, replaceLoop_eq]

/-! ## T3 — data refinement -/

/-- **C28.T3 (strong form, no duplicate-freeness needed)** With a vocabulary that is injective on
its keys, whenever `build_merge_map` succeeds, id-level merging of the ids of `pieces` yields the
ids of the reference result — provided a duplicated merge entry is ranked by its *last*
occurrence (`refBpeLast`). -/
theorem c28_T3_refinement_lastwins (dom : σ → Bool) (v : σ → Nat) (cat : σ → σ → σ)
    (hinj : ∀ x y, dom x = true → dom y = true → v x = v y → x = y)
    (merges : List (σ × σ)) (M : MergeMap Nat)
    (hM : buildMergeMap dom v cat merges = .ok M)
    (pieces : List σ) (hp : ∀ x ∈ pieces, dom x = true) :
    bpeMerge M (pieces.map v) = (refBpeLast cat merges pieces).map v := by
  unfold refBpeLast
  apply bpeMerge_sim v (fun s => dom s = true) hinj cat (refRankLast merges) M
  · intro a b ha hb
    have := build_lookup dom v cat hinj merges 0 [] M hM a b ha hb
    rw [this]
    cases refRankLast merges (a, b) <;> simp [lookup]
  · intro a b r hr
    exact (build_dom dom v cat merges 0 [] M hM (a, b) (refRankLast_mem hr)).2.2
  · exact hp

/-- **C28.T3** With an injective vocabulary and a duplicate-free merge list, id-level merging
followed by nothing else equals the reference BPE procedure (rank = position in the merge list)
mapped through the vocabulary. -/
theorem c28_T3_refinement (dom : σ → Bool) (v : σ → Nat) (cat : σ → σ → σ)
    (hinj : ∀ x y, dom x = true → dom y = true → v x = v y → x = y)
    (merges : List (σ × σ)) (hnd : merges.Nodup) (M : MergeMap Nat)
    (hM : buildMergeMap dom v cat merges = .ok M)
    (pieces : List σ) (hp : ∀ x ∈ pieces, dom x = true) :
    bpeMerge M (pieces.map v) = (refBpe cat merges pieces).map v := by
  have h := c28_T3_refinement_lastwins dom v cat hinj merges M hM pieces hp
  have hr : refRankLast merges = refRank merges := funext (refRankLast_eq_refRank hnd)
  unfold refBpeLast at h
  unfold refBpe
  rw [← hr]; exact h

/-- The pieces of the reference result are all keys of the vocabulary, so mapping them through the
total `v` (= `get(..).unwrap_or(0)`) in T3 never uses the default. -/
theorem c28_T3_results_in_vocab (dom : σ → Bool) (v : σ → Nat) (cat : σ → σ → σ)
    (merges : List (σ × σ)) (M : MergeMap Nat)
    (hM : buildMergeMap dom v cat merges = .ok M)
    (pieces : List σ) (hp : ∀ x ∈ pieces, dom x = true) :
    ∀ x ∈ refBpeLast cat merges pieces, dom x = true := by
  unfold refBpeLast refBpeBy
  exact refBpeFuelBy_dom (fun s => dom s = true) cat (refRankLast merges)
    (fun a b r hr => (build_dom dom v cat merges 0 [] M hM (a, b) (refRankLast_mem hr)).2.2)
    _ pieces hp

/-- **`build_vocab` yields an injective vocabulary** (discharges T3's `hinj` for the vocabulary the
code generates itself), for every merge list. -/
theorem c28_buildVocab_injective (ms : List (String × String)) :
    ∀ x y, vDom (buildVocabFull ms none) x = true → vDom (buildVocabFull ms none) y = true →
      vId (buildVocabFull ms none) x = vId (buildVocabFull ms none) y → x = y :=
  (buildVocabFull_inj ms).inj

/-- **C28 for the function the driver runs.** With the vocabulary `Bpe::new` generates from the
merge list (no supplied vocabulary, no suffix, `ignore_merges` off), for *every* merge list for
which `build_merge_map` succeeds and every byte string, `encode_piece` returns the ids of the
reference BPE result on the byte tokens — no side condition left. -/
theorem c28_encode_auto_vocab_is_reference (ms : List (String × String)) (M : MergeMap Nat)
    (hM : buildMergeMap (vDom (buildVocabFull ms none)) (vId (buildVocabFull ms none)) (· ++ ·) ms = .ok M)
    (bs : List Nat) (hb : ∀ b ∈ bs, b < 256) :
    encodePieceBytes (buildVocabFull ms none) M none false bs =
      some ((refBpeLast (· ++ ·) ms (bs.map byteStr)).map (vId (buildVocabFull ms none))) := by
  have hdom : ∀ b ∈ bs, vDom (buildVocabFull ms none) (byteStr b) = true :=
    fun b hbm => byte_in_buildVocabFull ms (hb b hbm)
  have hT3 := c28_T3_refinement_lastwins (vDom (buildVocabFull ms none)) (vId (buildVocabFull ms none))
    (· ++ ·) (c28_buildVocab_injective ms) ms M hM (bs.map byteStr)
    (by intro x hx; obtain ⟨b, hbm, rfl⟩ := List.mem_map.mp hx; exact hdom b hbm)
  unfold encodePieceBytes
  simp only [Bool.false_eq_true, if_false, mapM_vocabGet bs hdom]
  rw [← hT3, List.map_map]
  rfl

/-- Non-vacuity: `b a` then `ba r` on the bytes of "barbar": `build_merge_map` succeeds and the
result is `[bar, bar]` = ids 257, 257. -/
def wAuto : Vocab := buildVocabFull [("b", "a"), ("ba", "r")] none

set_option maxRecDepth 100000 in
example :
    (match buildMergeMap (vDom wAuto) (vId wAuto) (· ++ ·) [("b", "a"), ("ba", "r")] with
     | .ok M => encodePieceBytes wAuto M none false [98, 97, 114, 98, 97, 114] == some [257, 257]
     | .error _ => false) = true := by
  decide +kernel

/-- **C28.T4 (textbook algorithm, id level)** (The reference `refBpeBy` is written with the same
list primitives `windows2`/`minByKey`/`replacePairs` as the functional model, whose meaning is
pinned by `refBestBy_spec`, `refBestBy_leftmost`, `refBestBy_none` and `replacePairs_cons_cons`;
the reference that is independent of this development is the harness's Rust `ref_bpe`.)
For *every* merge map and *every* token vector —
no injectivity, validity or ordering assumption — `bpe_merge` computes exactly the textbook
procedure: repeatedly take the lowest-ranked adjacent pair (leftmost among equal ranks), merge
**all** its non-overlapping occurrences left to right, until no adjacent pair has a rank. -/
theorem c28_T4_textbook_idlevel (m : MergeMap Nat) (toks : List Nat) :
    bpeMerge m toks = refBpeBy (mergedOf m) (rankOf m) toks := by
  have h := bpeMerge_sim (σ := Nat) id (fun _ => True) (fun _ _ _ _ h => h) (mergedOf m) (rankOf m) m
    (by
      intro a b _ _
      simp only [rankOf, mergedOf, id]
      cases lookup m (a, b) with
      | none => rfl
      | some v => simp)
    (fun _ _ _ _ => trivial) toks (fun _ _ => trivial)
  simpa using h

/-- The final state of the textbook procedure has no ranked adjacent pair (it really runs
"until no merge applies"), and each of its rounds shortens the sequence. -/
theorem c28_T4_textbook_stops (m : MergeMap Nat) (toks : List Nat) :
    refBestBy (rankOf m) (refBpeBy (mergedOf m) (rankOf m) toks) = none := by
  rw [← c28_T4_textbook_idlevel]
  have h := (c28_T1_terminates m toks).1
  rw [mergeRound_eq] at h
  rw [refBestBy_none]
  intro q hq
  cases hf : findMinPair m (bpeMerge m toks) with
  | some c => simp [hf] at h
  | none =>
    have hc : candidates m (bpeMerge m toks) = [] := (minByKey_eq_none _).mp hf
    simp only [candidates, List.filterMap_eq_nil_iff, Option.map_eq_none_iff] at hc
    simp only [rankOf, Option.map_eq_none_iff]
    exact hc q hq

/-- **All occurrences, not only the first.** Merging only the left-most occurrence of the chosen
pair per round is a different algorithm: with the (not training-ordered) table `ab a, a b` the
input `a b a b` gives `[ab, ab]` under `bpe_merge` and the textbook procedure, but `[aba, b]` when
only the first occurrence is merged before re-selecting (ids: a=0, b=1, aba=2, ab=3). -/
theorem c28_T4_all_occurrences_not_first_only :
    bpeMerge [((0, 1), (1, 3)), ((3, 0), (0, 2))] [0, 1, 0, 1] = [3, 3] ∧
    refBpeBy (mergedOf [((0, 1), (1, 3)), ((3, 0), (0, 2))])
      (rankOf [((0, 1), (1, 3)), ((3, 0), (0, 2))]) [0, 1, 0, 1] = [3, 3] ∧
    bpeMergeFirstOnly [((0, 1), (1, 3)), ((3, 0), (0, 2))] [0, 1, 0, 1] = [2, 1] := by
  decide

/-! ### Non-vacuity and necessity of the guards

Token strings are lists of letters (`0 = a, 1 = b, 2 = c`), `cat = (++)`, the vocabulary is a
finite key list `K` with `v s = ` index of `s` in `K`. -/

def wK : List (List Nat) := [[0], [1], [2], [0, 1], [1, 2], [0, 1, 2]]
def wDom (s : List Nat) : Bool := decide (s ∈ wK)
def wV (s : List Nat) : Nat := wK.idxOf s
/-- `a b`, `b c`, `ab c` -/
def wMerges : List (List Nat × List Nat) := [([0], [1]), ([1], [2]), ([0, 1], [2])]

theorem wV_inj : ∀ x y, wDom x = true → wDom y = true → wV x = wV y → x = y := by
  intro x y hx hy
  have hx' : x ∈ wK := of_decide_eq_true hx
  have hy' : y ∈ wK := of_decide_eq_true hy
  revert x y
  have : ∀ x ∈ wK, ∀ y ∈ wK, wV x = wV y → x = y := by decide
  intro x y _ _ hx' hy'
  exact this x hx' y hy'

/-- The hypotheses of T3 are met by a non-trivial state, and both sides are the non-trivial
`[abc, ab]` for the piece `a b c a b`. -/
example : ∃ M, buildMergeMap wDom wV (· ++ ·) wMerges = .ok M ∧ wMerges.Nodup ∧
    (∀ x ∈ [[0], [1], [2], [0], [1]], wDom x = true) ∧
    bpeMerge M ([[0], [1], [2], [0], [1]].map wV) = [5, 3] ∧
    refBpe (· ++ ·) wMerges [[0], [1], [2], [0], [1]] = [[0, 1, 2], [0, 1]] := by
  refine ⟨_, rfl, by decide, by decide, by decide, by decide⟩

/-- **Guard "duplicate-free" is necessary for the first-occurrence reference.** Merge list
`a b, b c, a b`: the id-level map ranks `(a,b)` by its last position 2, so `b c` (rank 1) wins on
`a b c`; the reference with rank = first position merges `a b` first. (This excluded point is
run on the real code by the harness, request `bpe … M=a+b,b+c,a+b P=abc`.) -/
theorem c28_T3_nodup_needed :
    ∃ M, buildMergeMap wDom wV (· ++ ·) [([0], [1]), ([1], [2]), ([0], [1])] = .ok M ∧
      bpeMerge M ([[0], [1], [2]].map wV) = [0, 4] ∧
      (refBpe (· ++ ·) [([0], [1]), ([1], [2]), ([0], [1])] [[0], [1], [2]]).map wV = [3, 2] ∧
      (refBpeLast (· ++ ·) [([0], [1]), ([1], [2]), ([0], [1])] [[0], [1], [2]]).map wV = [0, 4] := by
  refine ⟨_, rfl, by decide, by decide, by decide⟩

/-- A vocabulary in which `a` and `b` share id 0 (`c ↦ 1`, `ac ↦ 2`). -/
def wV2 (s : List Nat) : Nat := if s = [0] ∨ s = [1] then 0 else if s = [2] then 1 else 2
def wDom2 (s : List Nat) : Bool := decide (s ∈ [[0], [1], [2], [0, 2]])

/-- **Guard "injective vocabulary" is necessary.** With the single merge `a c`, the piece `b c`
has no applicable merge at the string level (ids `[0, 1]`), but the id-level map cannot tell
`b` from `a` and produces the id of `ac`. -/
theorem c28_T3_injective_needed :
    ∃ M, buildMergeMap wDom2 wV2 (· ++ ·) [([0], [2])] = .ok M ∧
      bpeMerge M ([[1], [2]].map wV2) = [2] ∧
      (refBpe (· ++ ·) [([0], [2])] [[1], [2]]).map wV2 = [0, 1] := by
  refine ⟨_, rfl, by decide, by decide⟩

end RtenVerif.Bpe
