import RtenVerif.Lemmas.OptimizeRewrite

/-!
# C01 — graph optimization preserves model semantics: the rewriting framework (T1)

`c01_rewrite_sound`: for the graph IR of `Model/Optimize.lean` (plan-ordered operator list, abstract
values and operator semantics, reads = inputs ++ subgraph captures), replacing the operators
`sub` by one fused operator `F` with `fuse` — exactly what `GraphMutator::apply_fusion` does for a
`Fusion::Op` — preserves the denotation (value **or failure**) of every graph output, provided

* the two guards of `apply_fusion`, *as coded* (`guardsOk` = `find_operator_output_used_outside_subgraph`
  and `find_operator_output_captured_by_subgraph` both return `None`), pass, and
* the fused operator's semantics equals the composition of the replaced operators' semantics.

Graph input / output ids are preserved trivially: `fuse` does not touch them, and `F.outs = L.outs`.
`c01_guards_sound` is the part "the coded guards imply the abstract guards"; the witnesses at the
end show each guard is necessary (dropping it changes a graph output), all by `decide`.
-/
namespace RtenVerif.Optimize

variable {K V : Type} (sem : Sem K V)

theorem outsAll_eq_flatMap (ops : List (Op K)) : outsAll ops = ops.flatMap (·.outs) := by
  induction ops with
  | nil => rfl
  | cons o os ih => simp [outsAll, ih]

/-- The guards as coded imply the abstract guards: an output of a removed operator that is not a
declared output of the fusion is read by no operator outside the subgraph — neither as an input
(guard 1) nor through a capture of a nested subgraph (guard 2) — and is not a graph output. -/
theorem c01_guards_sound (g : List (Op K)) (graphOuts : List Id) (sub : List Nat) (outIds : List Id)
    (h : guardsOk g graphOuts sub outIds = true) :
    (∀ o ∈ g, sub.contains o.oid = false → ∀ i ∈ o.reads,
        i ∈ outsAll (g.filter fun o => sub.contains o.oid) → i ∈ outIds) ∧
    (∀ i ∈ graphOuts, i ∈ outsAll (g.filter fun o => sub.contains o.oid) → i ∈ outIds) := by
  simp only [guardsOk, Bool.and_eq_true, Option.isNone_iff_eq_none] at h
  obtain ⟨h1, h2⟩ := h
  simp only [usedOutside, List.find?_eq_none] at h1
  simp only [capturedRemoved, List.find?_eq_none] at h2
  constructor
  · intro o ho hsub i hi hmem
    rw [outsAll_eq_flatMap] at hmem
    have g1 := h1 i hmem
    have g2 := h2 i hmem
    simp only [Op.reads, List.mem_append] at hi
    by_cases hout : i ∈ outIds
    · exact hout
    · exfalso
      rcases hi with hi | hi
      · -- read as an input: `o` is a consumer outside the subgraph
        apply g1
        have hc : o.oid ∈ consumers g i := by
          simp only [consumers, List.mem_map, List.mem_filter]
          exact ⟨o, ⟨ho, by simpa using hi⟩, rfl⟩
        have hsub' : o.oid ∉ sub := by simpa using hsub
        simp [hout]
        exact Or.inr ⟨o.oid, hc, hsub'⟩
      · -- read through a capture
        apply g2
        have : i ∈ capturedValues g := by
          simp only [capturedValues, List.mem_flatMap]; exact ⟨o, ho, hi⟩
        simp [hout, this]
  · intro i hi hmem
    rw [outsAll_eq_flatMap] at hmem
    have g1 := h1 i hmem
    by_cases hout : i ∈ outIds
    · exact hout
    · exfalso; apply g1; simp [hout, hi]

theorem fuse_eq (pre post : List (Op K)) (L F : Op K) (sub : List Nat)
    (hpre : ∀ o ∈ pre, o.oid ≠ L.oid)
    (hpost : ∀ o ∈ post, o.oid ≠ L.oid ∧ sub.contains o.oid = false) :
    fuse (pre ++ L :: post) sub L.oid F
      = pre.filter (fun o => !(sub.contains o.oid)) ++ F :: post := by
  have e1 : ∀ (l : List (Op K)), (∀ o ∈ l, o.oid ≠ L.oid) →
      l.flatMap (fun o => if o.oid = L.oid then [F] else if sub.contains o.oid then [] else [o])
        = l.filter (fun o => !(sub.contains o.oid)) := by
    intro l
    induction l with
    | nil => intro _; rfl
    | cons o os ih =>
      intro h
      have h0 : o.oid ≠ L.oid := h o (by simp)
      have ih' := ih (fun o' ho' => h o' (by simp [ho']))
      by_cases hs : o.oid ∈ sub
      · simp [List.flatMap_cons, List.filter_cons, h0, hs] at ih' ⊢; exact ih'
      · simp [List.flatMap_cons, List.filter_cons, h0, hs] at ih' ⊢; exact ih'
  have e2 : post.flatMap (fun o => if o.oid = L.oid then [F] else if sub.contains o.oid then [] else [o]) = post := by
    rw [e1 post (fun o ho => (hpost o ho).1)]
    apply List.filter_eq_self.mpr
    intro o ho; rw [(hpost o ho).2]; rfl
  simp only [fuse, List.flatMap_append, List.flatMap_cons, if_true, e1 pre hpre, e2]
  simp

/-- **T1 `rewrite_sound`.** `g = pre ++ L :: post` in plan order, `sub` = node ids of the unfused
operators (all in `pre`, plus `L`, which produces the subgraph's declared outputs). If the guards
of `apply_fusion` pass and the fused operator computes what the subgraph computes, every graph
output has the same denotation after `fuse`. -/
theorem c01_rewrite_sound
    (pre post : List (Op K)) (L F : Op K) (sub : List Nat) (graphOuts : List Id) (env : Env V)
    (hwf : WF (pre ++ L :: post))
    (hfresh : ∀ i ∈ outsAll (pre ++ L :: post), env i = none)
    (hpre : ∀ o ∈ pre, o.oid ≠ L.oid)
    (hpost : ∀ o ∈ post, o.oid ≠ L.oid ∧ sub.contains o.oid = false)
    (hL : sub.contains L.oid = true)
    (houts : F.outs = L.outs)
    (hFreads : ∀ i ∈ F.reads, i ∉ outsAll (pre.filter fun o => sub.contains o.oid))
    (hguards : guardsOk (pre ++ L :: post) graphOuts sub L.outs = true)
    (hsem : ∀ E : Env V, (∀ i, i ∉ outsAll (pre ++ L :: post) → E i = env i) →
        (∀ i ∈ outsAll (pre.filter (fun o => sub.contains o.oid) ++ [L]), E i = none) →
        ∀ j ∈ L.outs, run sem (pre.filter (fun o => sub.contains o.oid) ++ [L]) E j = step sem E F j) :
    ∀ o ∈ graphOuts,
      run sem (pre ++ L :: post) env o = run sem (fuse (pre ++ L :: post) sub L.oid F) env o := by
  intro o ho
  rw [fuse_eq pre post L F sub hpre hpost]
  obtain ⟨g1, g2⟩ := c01_guards_sound (pre ++ L :: post) graphOuts sub L.outs hguards
  have hdisj := WF_pre_disjoint hwf
  have hfilter : (pre ++ L :: post).filter (fun o => sub.contains o.oid)
      = pre.filter (fun o => sub.contains o.oid) ++ [L] := by
    have : post.filter (fun o => sub.contains o.oid) = [] :=
      List.filter_eq_nil_iff.mpr (fun o ho => by rw [(hpost o ho).2]; exact Bool.false_ne_true)
    rw [List.filter_append, List.filter_cons, if_pos hL, this]
  have hsubS : ∀ k, k ∈ outsAll (pre.filter fun o => sub.contains o.oid) → k ∈ outsAll pre := by
    intro k hk
    obtain ⟨o', ho', hk2⟩ := mem_outsAll.mp hk
    exact mem_outsAll.mpr ⟨o', (List.mem_filter.mp ho').1, hk2⟩
  have hin : ∀ k, k ∈ outsAll (pre.filter fun o => sub.contains o.oid) →
      k ∈ outsAll ((pre ++ L :: post).filter fun o => sub.contains o.oid) := by
    intro k hk; rw [hfilter, outsAll_append]; exact List.mem_append.mpr (Or.inl hk)
  apply rewrite_core sem pre post L F (fun o => sub.contains o.oid) env hwf hfresh houts hFreads
  · intro o' ho' hs i hi hm
    exact hdisj i (hsubS i hm) (g1 o' (by simp [ho']) hs i hi (hin i hm))
  · intro o' ho' i hi hm
    exact hdisj i (hsubS i hm) (g1 o' (by simp [ho']) (hpost o' ho').2 i hi (hin i hm))
  · exact hsem
  · intro hm
    exact hdisj o (hsubS o hm) (g2 o ho (hin o hm))

/-! ## Non-vacuity and necessity of the guards (concrete graphs, `decide`) -/

/-- Operator kinds of the examples: values are naturals. -/
inductive XK | sig | mul | silu | neg | cap
deriving DecidableEq, Repr

def xsem : Sem XK Nat where
  app
    | .sig, [x] => some [x + 1]            -- stands for Sigmoid
    | .mul, [x, y] => some [x * y]
    | .silu, [x] => some [x * (x + 1)]     -- x * Sigmoid(x)
    | .neg, [x] => some [x + 100]
    | .cap, [c, v] => some [c + v]         -- `If`-like: one input, one captured value
    | _, _ => none

/-- value ids: 0 = x, 9 = cond; 1 = Sigmoid(x); 2 = Mul(x, 1); 3 = Neg(2). -/
def xSig : Op XK := { oid := 10, kind := .sig, ins := [0], caps := [], outs := [1] }
def xMul : Op XK := { oid := 11, kind := .mul, ins := [0, 1], caps := [], outs := [2] }
def xNeg : Op XK := { oid := 12, kind := .neg, ins := [2], caps := [], outs := [3] }
def xSilu : Op XK := { oid := 13, kind := .silu, ins := [0], caps := [], outs := [2] }
/-- reads the intermediate 1 as an ordinary input -/
def xUse : Op XK := { oid := 14, kind := .neg, ins := [1], caps := [], outs := [4] }
/-- captures the intermediate 1 in a nested subgraph -/
def xCap : Op XK := { oid := 15, kind := .cap, ins := [9], caps := [1], outs := [5] }

def xenv : Env Nat := fun i => if i = 0 then some 3 else if i = 9 then some 1 else none

/-- The plain pattern: guards pass, and the outputs agree (instance of the theorem's conclusion). -/
example : guardsOk [xSig, xMul, xNeg] [3] [10, 11] [2] = true := by decide
example : run xsem [xSig, xMul, xNeg] xenv 3 = run xsem (fuse [xSig, xMul, xNeg] [10, 11] 11 xSilu) xenv 3 := by decide
example : fuse [xSig, xMul, xNeg] [10, 11] 11 xSilu = [xSilu, xNeg] := by decide

/-- Guard 1 (intermediate consumed outside / graph output) rejects, and is necessary. -/
example : guardsOk [xSig, xMul, xUse] [2, 4] [10, 11] [2] = false := by decide
example : guardsOk [xSig, xMul, xNeg] [3, 1] [10, 11] [2] = false := by decide
theorem c01_guard1_necessary :
    run xsem [xSig, xMul, xUse] xenv 4 ≠ run xsem (fuse [xSig, xMul, xUse] [10, 11] 11 xSilu) xenv 4 := by decide

/-- Guard 2 (removed value captured by a nested subgraph): `get_consumers` does not see the
capture, so guard 1 alone passes; guard 2 rejects; without it the `If`-like operator fails. -/
example : (usedOutside [xSig, xMul, xCap] [2, 5] [10, 11] [2]).isNone = true := by decide
example : guardsOk [xSig, xMul, xCap] [2, 5] [10, 11] [2] = false := by decide
theorem c01_guard2_necessary :
    run xsem [xSig, xMul, xCap] xenv 5 ≠ run xsem (fuse [xSig, xMul, xCap] [10, 11] 11 xSilu) xenv 5 := by decide

/-- A captured *declared output* is preserved (`preserved = fusion.output_ids`): still fusable. -/
def xCap2 : Op XK := { oid := 15, kind := .cap, ins := [9], caps := [2], outs := [5] }
example : guardsOk [xSig, xMul, xCap2] [5] [10, 11] [2] = true := by decide
example : run xsem [xSig, xMul, xCap2] xenv 5 = run xsem (fuse [xSig, xMul, xCap2] [10, 11] 11 xSilu) xenv 5 := by decide

end RtenVerif.Optimize
