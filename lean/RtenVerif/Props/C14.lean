/-
C14 — Operator results do not depend on input memory layout.

Proved here for the modelled layout-sensitive logic:
  T1  `fast_broadcast_cycles_repeats from to = Some((c, r))` ⇒ the reference broadcast (index maps,
      Model/FastBroadcast.lean `bcast`) of `x` to `to` is "every element `r` times, the whole `c`
      times" — exactly what `apply_fast` reads — i.e. element `i` is `x[(i / r) mod |x|]`, and the
      total length is `c·r·|x|`.
  T2  the denotation (index ↦ element) of a tensor is invariant under `to_contiguous` (permuted,
      stepped, broadcast … views alike), hence every operator that is a function of its inputs'
      denotations gives the same result on any layout of the same logical tensor.
  T3  `TransformInputs(permute k by p, op).run xs = op.run (xs with xs[k] := Transpose(p).run xs[k])`
      for such operators, including the error / panic paths.
That each real kernel *is* a function of the denotation (fast paths included) is established by
differential execution in harness/rten/src/bin/c14.rs — level "proof + partial".
-/
import RtenVerif.Lemmas.FastBroadcastIdx
import RtenVerif.Lemmas.LayoutSeq
import RtenVerif.Lemmas.InPlace
import RtenVerif.Lemmas.BinaryDispatch
import RtenVerif.Lemmas.ReduceDispatch
import RtenVerif.Lemmas.BlockedCopy
import RtenVerif.Lemmas.Im2Col
import RtenVerif.Props.C09

namespace RtenVerif.FastBroadcast

/-! ## T1 -/

/-- **C14 T1 (list form).** Whenever `fast_broadcast_cycles_repeats(from, to)` returns
`Some((cycles, repeats))`, the reference broadcast of `x` (shape `from`) to shape `to` is exactly
what `apply_fast` reads: each element `repeats` times, the whole sequence `cycles` times. -/
theorem c14_fast_broadcast_sound {α : Type} (frm to : List Nat) (c r : Nat) (x : List α)
    (hfb : fastBroadcast frm to = .some c r) (hrank : frm.length ≤ to.length)
    (hx : x.length = numel frm) :
    bcastTo x frm to = cycleRepeat c r x := by
  unfold fastBroadcast at hfb
  have hfst := map_fst_pairsTo frm to hrank
  have hsnd := map_snd_pairsTo frm to hrank
  split at hfb
  · -- equal shapes
    rename_i heq
    injection hfb with hc hr
    subst heq hc hr
    have hE : Eqs (pairsTo frm frm) := by
      intro p hp
      have : p ∈ List.zip frm frm := by simpa [pairsTo, padFrom] using hp
      exact zip_self_eq frm p this
    have := bcast_mid (T := []) hE (by intro p hp; cases hp) x
    rw [List.append_nil] at this
    rw [bcastTo, this, hfst, numel_padFrom, ← hx, List.take_length, cycleRepeat_one_one]
    simp [numel, flatMap_replicate_one]
  · split at hfb
    · -- single source element
      rename_i _ h1
      injection hfb with hc hr
      subst hc hr
      have hO : Ones (pairsTo frm to) := by
        intro p hp
        have hm : p.1 ∈ padFrom frm to := by
          rw [← hfst]; exact List.mem_map_of_mem hp
        rcases List.mem_append.mp hm with h | h
        · exact (List.mem_replicate.mp h).2
        · exact numel_eq_one h1 _ h
      rw [bcastTo, bcast_ones hO, hsnd]
      have : x.take 1 = x := by rw [← h1, ← hx, List.take_length]
      rw [this]
      simp [cycleRepeat]
    · split at hfb
      · cases hfb
      · rename_i _ hne1 _
        simp only at hfb
        split at hfb
        · rename_i hmid
          injection hfb with hc hr
          -- some axis stops the scans
          have hbad : ∃ p ∈ pairsTo frm to, good p = false := by
            apply Classical.byContradiction
            intro hno
            apply hne1
            have hO : Ones (pairsTo frm to) := by
              intro p hp
              apply good_fst
              cases hg : good p
              · exact absurd ⟨p, hp, hg⟩ hno
              · rfl
            rw [← numel_padFrom frm to, ← hfst]
            exact numel_fst_ones hO
          have hsplit := scan_split good (pairsTo frm to) hbad
          have hlen : (pairsTo frm to).length = to.length := by
            rw [pairsTo, List.length_zip, length_padFrom frm to hrank, Nat.min_self]
          rw [hlen] at hsplit
          generalize hLd : (pairsTo frm to).takeWhile good = lead at *
          generalize hT : (pairsTo frm to).reverse.takeWhile good = trail at *
          generalize ((pairsTo frm to).drop lead.length).take (to.length - trail.length - lead.length) = mid at *
          have hLead : Ones lead := by
            intro p hp; exact good_fst (mem_takeWhile_good good _ p (by rw [hLd]; exact hp))
          have hTrail : Ones trail.reverse := by
            intro p hp
            exact good_fst (mem_takeWhile_good good _ p (by rw [hT]; exact List.mem_reverse.mp hp))
          have hMid : Eqs mid := by
            intro p hp
            have := List.all_eq_true.mp hmid p hp
            simpa using this
          have hnM : numel (mid.map (·.1)) = numel frm := by
            have h := congrArg (fun l => numel (l.map (·.1))) hsplit
            simp only [List.map_append, numel_append, numel_fst_ones hLead, numel_fst_ones hTrail,
              Nat.one_mul, Nat.mul_one] at h
            rw [← h, hfst, numel_padFrom]
          rw [bcastTo, hsplit, List.append_assoc, bcast_lead hLead, bcast_mid hMid hTrail, hnM, ← hx,
            List.take_length, List.map_reverse, numel_reverse, hc, hr]
          rfl
        · cases hfb


/-- **C14 T1 (index form).** Under the same hypotheses element `i` of the broadcast is
`x[(i / repeats) mod |x|]`, and the broadcast has `cycles·repeats·|x|` elements. -/
theorem c14_fast_broadcast_index {α : Type} (frm to : List Nat) (c r : Nat) (x : List α)
    (hfb : fastBroadcast frm to = .some c r) (hrank : frm.length ≤ to.length)
    (hx : x.length = numel frm) :
    (bcastTo x frm to).length = c * r * x.length ∧
      ∀ i, i < c * r * x.length → (bcastTo x frm to)[i]? = x[(i / r) % x.length]? := by
  rw [c14_fast_broadcast_sound frm to c r x hfb hrank hx]
  exact ⟨length_cycleRepeat c r x, fun i hi => getElem?_cycleRepeat c r x i hi⟩

/-- **C14 T1 (reference).** The nested reference `bcast` used above *is* the broadcast defined by
index maps: for shapes accepted by `can_broadcast_to`, output element `idx` (row-major position
of `idx` in `to`) is source element `bcIdx idx` — 0 on stretched axes — (row-major position in
`from`). -/
theorem c14_reference_is_index_map {α : Type} (frm to : List Nat) (x : List α)
    (h : RtenVerif.InPlace.canBroadcastTo frm to = true) (hx : x.length = numel frm) :
    (bcastTo x frm to).map some = bcastIdx (pairsTo frm to) x := by
  obtain ⟨hle, hc⟩ := RtenVerif.InPlace.compat_of_canBroadcastTo frm to h
  exact RtenVerif.InPlace.bcast_eq_bcastIdx _ _ hc
    (by rw [map_fst_pairsTo _ _ hle, numel_padFrom, hx]; exact Nat.le_refl _)

/-- Non-vacuity: leading + trailing broadcast around a kept axis. -/
example : fastBroadcast [3, 1] [2, 3, 2] = .some 2 2 ∧
    bcastTo [10, 20, 30] [3, 1] [2, 3, 2] = [10, 10, 20, 20, 30, 30, 10, 10, 20, 20, 30, 30] := by decide
/-- A middle axis that needs stretching cannot use the fast path. -/
example : fastBroadcast [2, 1, 2] [2, 3, 2] = .none := by decide
/-- The reference agrees with the element-by-element multi-index definition (`out[idx] = x[bcIdx idx]`)
on a sample (a test, not a proof). -/
example : (bcast (pairsTo [3, 1] [2, 3, 2]) [10, 20, 30]).map some =
    bcastIdx (pairsTo [3, 1] [2, 3, 2]) [10, 20, 30] := by decide
/-- The rank hypothesis is what the code asserts. -/
example : fastBroadcast [2, 2, 2] [2, 2] = .panic := by decide
/-- Without the rank hypothesis the single-element early return would be wrong about lengths:
`from = [1, 1]`, `to = [5]` answers `(1, 5)` although the broadcast result has shape `[1, 5]`;
callers only ask when `to` is the broadcast shape. -/
example : fastBroadcast [1, 1] [5] = .some 1 5 := by decide

end RtenVerif.FastBroadcast

namespace RtenVerif.Layout
open RtenVerif.Arr RtenVerif.Overlap RtenVerif.Layout.Seq

/-! ## T2 -/

/-- **C14 T2.** `to_contiguous` (borrow when already contiguous, copy in row-major order
otherwise) does not change what a tensor denotes. -/
theorem c14_to_contiguous_denote (t : TState) : (toContiguous t).arr = t.arr := by
  unfold toContiguous
  split
  · rfl
  · exact ofArr_arr t.arr (arr_wf t)

/-- An operator *defined on the denotation*: a function of the arrays its inputs denote. -/
def liftOp {β : Type} (op : List (NArr Nat) → β) (ts : List TState) : β := op (ts.map TState.arr)

/-- **C14 T2 (corollary).** Such an operator returns the same result whether its inputs are given
as they are (permuted / stepped / broadcast views …) or made contiguous first. -/
theorem c14_layout_independent {β : Type} (op : List (NArr Nat) → β) (ts : List TState) :
    liftOp op (ts.map toContiguous) = liftOp op ts := by
  unfold liftOp
  rw [List.map_map]
  congr 1
  apply List.map_congr_left
  intro t _
  exact c14_to_contiguous_denote t

/-- permuted (transposed 2×3), stepped (every 2nd of 5) and broadcast (stride 0) views: the
contiguous copy denotes the same array but has a different layout (non-vacuity). -/
example :
    let t : TState := ⟨[0, 1, 2, 3, 4, 5], ⟨0, 6, [(3, 1), (2, 3)]⟩⟩
    (toContiguous t).arr = t.arr ∧ (toContiguous t).view.dims ≠ t.view.dims ∧
      t.arr = ⟨[3, 2], [0, 3, 1, 4, 2, 5]⟩ := by decide
example :
    let t : TState := ⟨[0, 1, 2, 3, 4], ⟨0, 5, [(3, 2)]⟩⟩
    (toContiguous t).arr = t.arr ∧ t.arr = ⟨[3], [0, 2, 4]⟩ ∧ (toContiguous t).store = [0, 2, 4] := by decide
example :
    let t : TState := ⟨[7, 8], ⟨0, 2, [(3, 0), (2, 1)]⟩⟩
    (toContiguous t).arr = t.arr ∧ t.arr = ⟨[3, 2], [7, 8, 7, 8, 7, 8]⟩ := by decide

/-! ## T3 -/

/-- `Transpose { perm }`: `init_from(input.permuted(perm))` into a fresh contiguous tensor; an
invalid permutation panics in `permute`. -/
def transposeOp (t : TState) (p : List Nat) : Except Err TState :=
  (permuted t.view p).map fun v => TState.ofArr (denote v (fun i => t.store.getD i 0))

/-- `TransformInputs::run` with one `Permute` transform on input `k`: the input's *view* is
permuted (no copy), then the inner operator runs; a missing input is `OpError::MissingInputs`. -/
def transformInputsRun {β : Type} (k : Nat) (p : List Nat) (inner : List TState → β)
    (ts : List TState) : Except Err β :=
  match ts[k]? with
  | none => .error .err
  | some t => (permuted t.view p).map fun v => inner (ts.set k { t with view := v })

/-- **C14 T3.** For an inner operator defined on the denotation, the fused wrapper equals running
the inner operator on the explicitly transposed (copied) input — on the success path and on the
panic path alike. -/
theorem c14_transform_inputs {β : Type} (op : List (NArr Nat) → β) (k : Nat) (p : List Nat)
    (ts : List TState) (t : TState) (hk : ts[k]? = some t) :
    transformInputsRun k p (liftOp op) ts =
      (transposeOp t p).map (fun t' => liftOp op (ts.set k t')) := by
  unfold transformInputsRun transposeOp
  rw [hk]
  simp only
  cases hperm : permuted t.view p with
  | error e => rfl
  | ok v =>
    simp only [Except.map]
    congr 1
    unfold liftOp
    rw [List.map_set, List.map_set]
    congr 2
    have hwf : (denote v (fun i => t.store.getD i 0)).data.length =
        numel (denote v (fun i => t.store.getD i 0)).shape := by
      rw [denote_data_length, denote_shape]
    rw [ofArr_arr _ hwf]
    rfl

example :
    let t : TState := ⟨[0, 1, 2, 3, 4, 5], ⟨0, 6, [(2, 3), (3, 1)]⟩⟩
    (transposeOp t [1, 0]).toOption.map (·.arr) = some ⟨[3, 2], [0, 3, 1, 4, 2, 5]⟩ ∧
      (transformInputsRun 0 [1, 0] (liftOp (fun as => as.map (·.data))) [t]).toOption =
        some [[0, 3, 1, 4, 2, 5]] := by decide

/-! ## D: the layout-handling glue of element-wise operators (Model/BinaryDispatch.lean) -/

section Dispatch
open RtenVerif.FastBroadcast RtenVerif.InPlace
open RtenVerif.Iter (rowMajor)

theorem bcastViewElems_eq {α : Type} (v : View) (out : List Nat) (s : Nat → α)
    (hle : (sizes v.dims).length ≤ out.length) (hc : Compat (pairsTo (sizes v.dims) out)) :
    bcastViewElems v out s = bcastTo (tensOf v s).data (sizes v.dims) out := by
  unfold bcastViewElems tensOf
  exact rowMajor_broadcast v.dims out (by simpa [sizes] using hle) hc _

/-- **C14 D1.** `binary_op` on views — fast path (contiguous operands + cycles/repeats) or general
path (broadcast strides, element by element) — returns `f` mapped over the logical broadcast
elements of its operands, for every shape and every stride pattern (permuted, stepped, stride-0
broadcast inputs included): it is the layout-free `binop` of the operands' logical contents. -/
theorem c14_binary_op_layout_independent {α β γ : Type} (f : α → β → γ)
    (a : View) (sa : Nat → α) (b : View) (sb : Nat → β) :
    binaryOp f a sa b sb = binop f (tensOf a sa) (tensOf b sb) := by
  unfold binaryOp binop
  have hsa : (tensOf a sa).shape = sizes a.dims := rfl
  have hsb : (tensOf b sb).shape = sizes b.dims := rfl
  rw [hsa, hsb]
  cases hbs : broadcastShapes (sizes a.dims) (sizes b.dims) with
  | none => rfl
  | some out =>
    obtain ⟨hla, hca⟩ := compat_of_broadcastShapes _ _ _ hbs
    obtain ⟨hlb, hcb⟩ := compat_of_broadcastShapes _ _ _ (by rw [broadcastShapes_comm]; exact hbs)
    have hga := bcastViewElems_eq a out sa hla hca
    have hgb := bcastViewElems_eq b out sb hlb hcb
    simp only [Option.map_some]
    split
    · rename_i d hfast
      congr 2
      split at hfast
      · rename_i hout
        split at hfast
        · rename_i ad bd had hbd
          split at hfast
          · rename_i c r hfb
            injection hfast with hfast
            rw [← hfast, viewData_eq a sa ad had, viewData_eq b sb bd hbd]
            have h1 : bcastTo (tensOf a sa).data (sizes a.dims) out = (tensOf a sa).data := by
              rw [← hout]
              exact bcastTo_self _ _ (tensOf_data_length a sa)
            have h2 : bcastTo (tensOf b sb).data (sizes b.dims) out =
                cycleRepeat c r (tensOf b sb).data := by
              rw [← hout]
              exact c14_fast_broadcast_sound _ _ c r _ hfb (by rw [hout]; exact hlb)
                (tensOf_data_length b sb)
            rw [h1, h2]
          · cases hfast
        · cases hfast
      · cases hfast
    · rw [hga, hgb]


/-- Non-vacuity: fast path (both contiguous, trailing broadcast), general path (transposed LHS,
stride-0 RHS) and the incompatible case; the results do not depend on the path taken. -/
example :
    binaryOp (· + ·) ⟨0, 6, [(2, 3), (3, 1)]⟩ (fun i => 10 * i) ⟨0, 2, [(2, 1), (1, 1)]⟩ (fun i => i + 1) =
      some ⟨[2, 3], [1, 11, 21, 32, 42, 52]⟩ ∧
    binaryOp (· + ·) ⟨0, 6, [(2, 1), (3, 2)]⟩ (fun i => 10 * i) ⟨1, 1, [(1, 0)]⟩ (fun i => i) =
      some ⟨[2, 3], [1, 21, 41, 11, 31, 51]⟩ ∧
    binaryOp (· + ·) ⟨0, 6, [(2, 3), (3, 1)]⟩ (fun i => i) ⟨0, 2, [(2, 1)]⟩ (fun i => i) = none := by
  decide

/-- **C14 D2.** `unary_op` (map over the contiguous slice, or over the row-major copy made by
`to_contiguous`) returns `f` mapped over the logical elements, whatever the layout — injective
(permuted / stepped) or not (broadcast). -/
theorem c14_unary_op_layout_independent {α β : Type} (f : α → β) (v : View) (s : Nat → α) :
    unaryOp f v s = ⟨(tensOf v s).shape, (tensOf v s).data.map f⟩ := by
  unfold unaryOp
  split
  · rename_i d hd
    rw [viewData_eq v s d hd]; rfl
  · rfl

example : unaryOp (· * 2) ⟨0, 6, [(3, 1), (2, 3)]⟩ (fun i => i) = ⟨[3, 2], [0, 6, 2, 8, 4, 10]⟩ ∧
    unaryOp (· * 2) ⟨4, 1, [(2, 0), (2, 0)]⟩ (fun i => i) = ⟨[2, 2], [8, 8, 8, 8]⟩ := by decide

end Dispatch

/-- Array-level meaning of one transform. -/
def permArr (A : NArr Nat) : Option (List Nat) → Except Err (NArr Nat)
  | some p => A.permute p
  | none => .ok A.transpose

/-- Array-level meaning of the transform list: the unfused graph seen through denotations. -/
def specTransforms : List PermuteSpec → List (NArr Nat) → Except Err (List (NArr Nat))
  | [], as => .ok as
  | sp :: rest, as =>
    match as[sp.index]? with
    | none => .error .err
    | some A =>
      match permArr A sp.perm with
      | .error e => .error e
      | .ok A' => specTransforms rest (as.set sp.index A')

theorem applyPerm_denote (t : TState) (sp : Option (List Nat)) :
    (applyPerm t.view sp).map (fun v => denote v (fun i => t.store.getD i 0)) = permArr t.arr sp := by
  cases sp with
  | some p => exact c09_permute t.view p _
  | none => simp only [applyPerm, permArr, Except.map]; rw [c09_transpose]; rfl

theorem applyTransforms_spec : ∀ (specs : List PermuteSpec) (ts : List TState),
    (applyTransforms specs ts).map (fun l => l.map TState.arr) = specTransforms specs (ts.map TState.arr)
  | [], ts => rfl
  | sp :: rest, ts => by
    unfold applyTransforms specTransforms
    rw [List.getElem?_map]
    cases hk : ts[sp.index]? with
    | none => rfl
    | some t =>
      simp only [Option.map_some]
      have hp := applyPerm_denote t sp.perm
      cases hv : applyPerm t.view sp.perm with
      | error e => rw [hv] at hp; simp only [Except.map] at hp; rw [← hp]; rfl
      | ok v =>
        rw [hv] at hp; simp only [Except.map] at hp; rw [← hp]
        simp only
        rw [applyTransforms_spec rest, List.map_set]
        rfl

theorem explicitTransposes_spec : ∀ (specs : List PermuteSpec) (ts : List TState),
    (explicitTransposes specs ts).map (fun l => l.map TState.arr) = specTransforms specs (ts.map TState.arr)
  | [], ts => rfl
  | sp :: rest, ts => by
    unfold explicitTransposes specTransforms
    rw [List.getElem?_map]
    cases hk : ts[sp.index]? with
    | none => rfl
    | some t =>
      simp only [Option.map_some]
      have hp := applyPerm_denote t sp.perm
      cases hv : applyPerm t.view sp.perm with
      | error e => rw [hv] at hp; simp only [Except.map] at hp; rw [← hp]; rfl
      | ok v =>
        rw [hv] at hp; simp only [Except.map] at hp; rw [← hp]
        simp only
        rw [explicitTransposes_spec rest, List.map_set]
        have hwf : (denote v (fun i => t.store.getD i 0)).data.length =
            numel (denote v (fun i => t.store.getD i 0)).shape := by
          rw [denote_data_length, denote_shape]
        rw [ofArr_arr _ hwf]

/-- **C14 D3.** `TransformInputs` with an arbitrary list of permute transforms (several inputs,
repeated inputs, `None` = reverse) equals the unfused graph — explicit `Transpose` copies in front
of the inner operator — for every inner operator defined on the denotation, error and panic
paths included. -/
theorem c14_transform_inputs_list {β : Type} (op : List (NArr Nat) → β) (specs : List PermuteSpec)
    (ts : List TState) :
    transformInputsRunAll specs (liftOp op) ts = (explicitTransposes specs ts).map (liftOp op) := by
  unfold transformInputsRunAll
  have h1 := applyTransforms_spec specs ts
  have h2 := explicitTransposes_spec specs ts
  have key : ∀ (e : Except Err (List TState)), e.map (liftOp op) = (e.map (fun l => l.map TState.arr)).map op := by
    intro e; cases e <;> rfl
  rw [key, key, h1, h2]


example :
    let t : TState := ⟨[0, 1, 2, 3, 4, 5], ⟨0, 6, [(2, 3), (3, 1)]⟩⟩
    (transformInputsRunAll [⟨0, some [1, 0]⟩, ⟨1, none⟩, ⟨0, none⟩]
        (liftOp (fun as => as.map (·.data))) [t, t]).toOption =
      some [[0, 1, 2, 3, 4, 5], [0, 3, 1, 4, 2, 5]] ∧
    (transformInputsRunAll [⟨2, none⟩] (liftOp (fun as => as.map (·.data))) [t, t]).toOption = none := by
  decide

section Reduce
open RtenVerif.Iter (rowMajor rowMajor_nil)

/-- **C14 D4.** For reductions over the innermost axes, `reduce`'s paths — rank-0 item, empty
input, contiguous chunks fast path, general path — all compute the kernel of each inner slice read
in row-major order, one per outer index in row-major order: the result does not depend on which
path the layout selects. -/
theorem c14_reduce_inner_paths_agree {α β : Type} (kernel : List α → β) (O I : Dims) (base : Nat)
    (s : Nat → α) : reduceInnerOp kernel O I base s = reduceSlices kernel O I base s := by
  unfold reduceInnerOp
  simp only
  split
  · rename_i h0
    have hO : O = [] := by cases O with
      | nil => rfl
      | cons _ _ => simp at h0
    have hI : I = [] := by cases I with
      | nil => rfl
      | cons _ _ => subst hO; simp at h0
    subst hO hI
    simp [reduceSlices, rowMajor_nil]
  · split
    · rename_i _ hn
      rw [numel_sizes_append] at hn
      unfold reduceSlices
      rcases Nat.mul_eq_zero.mp hn with hO | hI
      · have : rowMajor O = [] := List.eq_nil_of_length_eq_zero (by rw [rowMajor_len, hO])
        rw [this, hO]; rfl
      · have : rowMajor I = [] := List.eq_nil_of_length_eq_zero (by rw [rowMajor_len, hI])
        rw [this]
        simp only [List.map_nil]
        rw [← rowMajor_len O, List.map_const']
    · split
      · rename_i _ hn hc
        have hrm := rowMajor_of_isContiguous _ hc
        have hIpos : 0 < RtenVerif.Arr.numel (sizes I) := by
          rw [numel_sizes_append] at hn
          exact Nat.pos_of_ne_zero (fun h => hn (by rw [h, Nat.mul_zero]))
        have hdata : (List.range (RtenVerif.Arr.numel (sizes (O ++ I)))).map (fun i => s (base + i)) =
            (rowMajor O).flatMap (fun o => (rowMajor I).map (fun i => s (base + (o + i)))) := by
          rw [← hrm, rowMajor_append, List.map_flatMap]
          apply RtenVerif.FastBroadcast.flatMap_congr'
          intro o _
          rw [List.map_map]; rfl
        rw [hdata, chunks_blocks _ hIpos _ _ _ (by intro x _; simp [rowMajor_len])
          (by rw [rowMajor_len, numel_sizes_append]; exact Nat.le_refl _)]
        unfold reduceSlices
        rw [List.map_map]; rfl
      · rfl


/-- contiguous 2×3 (fast path) and its transposed-storage twin (general path): same row sums;
empty inner axis: the kernel's identity per outer index. -/
example :
    reduceInnerOp List.sum [(2, 3)] [(3, 1)] 0 (fun i => i) = [3, 12] ∧
    reduceInnerOp List.sum [(2, 1)] [(3, 2)] 0 (fun i => [0, 3, 1, 4, 2, 5].getD i 0) = [3, 12] ∧
    reduceInnerOp List.sum [(2, 0)] [(0, 1)] 0 (fun i => i) = [0, 0] := by decide

/-- As coded, the fast path is reachable for one innermost axis only (the sorted axes of a
multi-axis innermost reduction fail the `axes[i] == ndim - 1 - i` test); D4 covers the general
condition, of which this is a special case. -/
example : reducedInnerDims 3 [2] = some 1 ∧ reducedInnerDims 3 [1, 2] = none ∧
    reducedInnerDims 3 [0, 1, 2] = none ∧ reducedInnerDims 1 [0] = some 1 := by decide

end Reduce

/-! ## TransformInputs in place -/

/-- **C14 D5.** `TransformInputs::in_place_inputs` only ever offers inputs the inner operator
offers and that no transform touches; hence in `run_in_place` (whose transform loop sees `None`
at the in-place positions and would fail with `MissingInputs`) the transforms never hit an
in-place slot, and the owned value handed to the inner operator is exactly the caller's. -/
theorem c14_transform_in_place_disjoint (ips : List Nat) (specs : List PermuteSpec) :
    ∀ i ∈ transformInPlaceInputs ips specs, i ∈ ips ∧ (i < 16 → ∀ sp ∈ specs, sp.index ≠ i) := by
  intro i hi
  unfold transformInPlaceInputs at hi
  split at hi
  · cases hi
  · rename_i hany
    refine ⟨hi, ?_⟩
    intro hlt sp hsp heq
    apply hany
    rw [List.any_eq_true]
    exact ⟨sp, hsp, by simp [heq, hlt, hi]⟩

example : transformInPlaceInputs [0] [⟨1, none⟩] = [0] ∧ transformInPlaceInputs [0] [⟨1, none⟩, ⟨0, some [1, 0]⟩] = [] ∧
    transformInPlaceInputs [4, 5] [⟨0, none⟩, ⟨17, none⟩] = [4, 5] := by decide

end RtenVerif.Layout

/-! ## D6: the blocked transpose copy behind `to_contiguous` -/
namespace RtenVerif.BlockedCopy

/-- **C14 D6.** `copy_blocked` — 64-blocks, 4×4 tiles (transposing or not), narrow edge tiles, short
edge rows — fills the contiguous destination with the source in logical row-major order:
`dest[y * cols + x] = src[y, x]` for every index, for every matrix size (every slot is written,
only in-range slots are written, and every write carries the element of its own index). -/
theorem c14_blocked_copy_row_major {α : Type} (rows cols B T : Nat) (hB : 0 < B) (hT : 0 < T)
    (src : Nat → Nat → α) (dest0 : List α) (hlen : dest0.length = rows * cols) :
    blockedCopy rows cols B T src dest0 =
      (List.range (rows * cols)).map (fun p => src (p / cols) (p % cols)) := by
  unfold blockedCopy
  have hval : ∀ v ∈ blockedVisits rows cols B T,
      src v.1 v.2 = (fun p => src (p / cols) (p % cols)) (v.1 * cols + v.2) := by
    intro v hv
    have hb := blockedVisits_bounds rows cols B T hB v hv
    have hc : 0 < cols := by omega
    simp only
    rw [Nat.mul_comm, Nat.mul_add_div hc, Nat.div_eq_of_lt hb.2, Nat.add_zero, Nat.mul_add_mod,
      Nat.mod_eq_of_lt hb.2]
  apply List.ext_getElem?
  intro i
  by_cases hi : i < rows * cols
  · rw [foldl_set_visited (fun v : Nat × Nat => v.1 * cols + v.2) (fun v => src v.1 v.2)
      (fun p => src (p / cols) (p % cols)) _ dest0 i hval (by rw [hlen]; exact hi)]
    · simp [hi]
    · have hc : 0 < cols := by
        cases cols with
        | zero => simp at hi
        | succ c => exact Nat.succ_pos c
      refine ⟨(i / cols, i % cols), blockedVisits_cover rows cols B T hB hT _ _ ?_ (Nat.mod_lt _ hc), ?_⟩
      · exact (Nat.div_lt_iff_lt_mul hc).mpr hi
      · simp only; rw [Nat.mul_comm]; exact Nat.div_add_mod i cols
  · have h1 : (List.foldl (fun d (v : Nat × Nat) => d.set (v.1 * cols + v.2) (src v.1 v.2)) dest0
        (blockedVisits rows cols B T))[i]? = none := by
      rw [List.getElem?_eq_none_iff, foldl_set_length, hlen]; omega
    rw [h1]
    simp [hi]


/-- 5×6 with blocks of 4 and tiles of 2 (full tiles, narrow edge, short edge rows all occur). -/
example : blockedCopy 5 6 4 2 (fun y x => 10 * y + x) (List.replicate 30 0) =
    (List.range 30).map (fun p => 10 * (p / 6) + p % 6) := by decide
/-- Every index pair is visited exactly once here (no double writes in this instance). -/
example : (blockedVisits 5 6 4 2).length = 30 := by decide

end RtenVerif.BlockedCopy

/-! ## D7: the im2col offset tables of the general convolution path -/
namespace RtenVerif.Im2Col

/-- **C14 D7.** The im2col offset tables are layout independent: for every image stride triple
`(sc, sth, stw)`, row `(chan, k_y, k_x)` and column `(patch_y, patch_x)`, the tables give
`chan·sc`, `iy·sth` and `ix·stw` where `(iy, ix) = (patch_y·stride_h − pad_top + k_y·dil_y,
patch_x·stride_w − pad_left + k_x·dil_x)` is the coordinate in the logical (padded) image — i.e.
reading through the tables is reading logical element `(chan, iy, ix)` of the view, whatever its
strides. -/
theorem c14_im2col_offsets_layout_independent (p : Params) (yP xP c ky kx py px : Nat)
    (hc : c < p.chans) (hky : ky < p.kh) (hkx : kx < p.kw) (hy : py < yP) (hx : px < xP) :
    ∃ rc ry rx cy cx : Int,
      (rowChanMain p)[(c * p.kh + ky) * p.kw + kx]? = some rc ∧
      (rowYMain p)[(c * p.kh + ky) * p.kw + kx]? = some ry ∧
      (rowXMain p)[(c * p.kh + ky) * p.kw + kx]? = some rx ∧
      (colYMain p yP xP)[py * xP + px]? = some cy ∧
      (colXMain p yP xP)[py * xP + px]? = some cx ∧
      rc = (c : Int) * p.sc ∧
      ry + cy = ((py : Int) * p.strideH - p.padTop + (ky : Int) * p.dilY) * p.sth ∧
      rx + cx = ((px : Int) * p.strideW - p.padLeft + (kx : Int) * p.dilX) * p.stw := by
  refine ⟨_, _, _, _, _, rowChan_get p c ky kx hc hky hkx, rowY_get p c ky kx hc hky hkx,
    rowX_get p c ky kx hc hky hkx, colY_get p yP xP py px hy hx, colX_get p yP xP py px hy hx, rfl, ?_, ?_⟩
  · rw [Int.add_mul, Int.mul_assoc, Int.mul_comm (p.sth : Int), Int.add_comm]
  · rw [Int.add_mul, Int.mul_assoc, Int.mul_comm (p.stw : Int), Int.add_comm]


/-- Non-vacuity: 3-channel 4×5 image stored NHWC (strides 1, 15, 3), 3×3 kernel, pads 1/2,
stride 2/1, dilation 1/2: row (chan 2, k_y 1, k_x 2) and column (patch 1, patch 3). -/
example :
    (buildIm2col ⟨3, 4, 5, 3, 3, 1, 2, 1, 2, 2, 1, 1, 2, 1, 15, 3⟩ 1 1).map
      (fun t => [t.rowChan[23]?, t.rowY[23]?, t.rowX[23]?, t.colY[8]?, t.colX[8]?]) =
      some [some (2 : Int), some 15, some 12, some 15, some 3] ∧
    (buildIm2col ⟨3, 4, 5, 3, 3, 1, 2, 1, 2, 2, 1, 1, 2, 1, 15, 3⟩ 1 1).map (fun t => (t.nRows, t.nCols)) =
      some (27, 10) := by decide

/-- The seeded variant C14_c (left padding not scaled by the image's W stride) coincides with the
code whenever the W stride is 1 or there is no left padding — which is why contiguous inputs,
or padded inputs without a strided W axis, cannot tell them apart … -/
theorem c14_im2col_seeded_variant_agrees_on_unit_stride (p : Params) (yP xP : Nat)
    (h : p.stw = 1 ∨ p.padLeft = 0) : colXMainSeeded p yP xP = colXMain p yP xP := by
  unfold colXMainSeeded colXMain
  congr 1
  funext _
  apply List.map_congr_left
  intro px _
  rcases h with h | h
  · rw [h]; simp
  · rw [h]; simp [Int.mul_assoc]

/-- … and differs as soon as both hold: it is refuted as a layout-independent table (W stride 2,
left padding 1: the code reads offset −2 = one *pixel* left of the image, the variant −1). -/
theorem c14_im2col_seeded_variant_refuted :
    ∃ (p : Params) (yP xP : Nat), colXMainSeeded p yP xP ≠ colXMain p yP xP ∧
      (colXMain p yP xP)[0]? = some (((0 : Int) * p.strideW - p.padLeft) * p.stw) := by
  exact ⟨⟨1, 1, 3, 1, 2, 0, 1, 0, 0, 1, 1, 1, 1, 6, 6, 2⟩, 1, 3, by decide, by decide⟩

/-- **C14 D7b.** The padding test is layout independent for positive strides: with `st > 0` the
offset `i·st` passes the test exactly when the logical coordinate `i` is inside the image. -/
theorem c14_im2col_padding_test_layout_independent (size st : Nat) (i : Int) (hs : 0 < size) (hst : 0 < st) :
    inImage size st (i * st) = true ↔ (0 ≤ i ∧ i ≤ (size : Int) - 1) := by
  unfold inImage
  have hstI : (0 : Int) < (st : Int) := by exact_mod_cast hst
  have hcast : (((size - 1) * st : Nat) : Int) = ((size : Int) - 1) * st := by
    rw [Int.natCast_mul, Int.natCast_sub hs]; rfl
  simp only [Bool.and_eq_true, decide_eq_true_eq, hcast]
  constructor
  · rintro ⟨h1, h2⟩
    refine ⟨?_, Int.le_of_mul_le_mul_right h2 hstI⟩
    by_cases hneg : i < 0
    · exact absurd (Int.mul_neg_of_neg_of_pos hneg hstI) (Int.not_lt.mpr h1)
    · exact Int.not_lt.mp hneg
  · rintro ⟨h1, h2⟩
    exact ⟨Int.mul_nonneg h1 (Int.le_of_lt hstI), Int.mul_le_mul_of_nonneg_right h2 (Int.le_of_lt hstI)⟩

/-- For a stride-0 (broadcast) axis the test accepts every coordinate, padding included: the
positive-stride hypothesis is necessary.  Before fix 4888f23 the real Conv did return image values
in the padding region for such views (finding C14-conv-broadcast-padding-{h,w}); since the fix
`conv_impl` copies an input with a zero spatial stride to a contiguous tensor before calling
`build_im2col` whenever padding is used, so `build_im2col` only sees positive strides there. -/
theorem c14_im2col_padding_test_fails_for_stride_zero :
    inImage 3 0 ((-1 : Int) * (0 : Nat)) = true ∧ ¬ ((0 : Int) ≤ -1) := by decide

theorem length_rowMain (p : Params) :
    (rowChanMain p).length = p.chans * p.kh * p.kw ∧ (rowYMain p).length = p.chans * p.kh * p.kw ∧
      (rowXMain p).length = p.chans * p.kh * p.kw := by
  refine ⟨?_, ?_, ?_⟩
  · unfold rowChanMain
    rw [length_flatMap_blocks (p.kh * p.kw) _ (by intro a; simp), Nat.mul_assoc]
  · unfold rowYMain
    rw [length_flatMap_blocks (p.kh * p.kw) _
      (by intro a; exact length_flatMap_blocks p.kw _ (by intro b; simp) p.kh), Nat.mul_assoc]
  · unfold rowXMain
    rw [length_flatMap_blocks (p.kh * p.kw) _
      (by intro a; exact length_flatMap_blocks p.kw _ (by intro b; simp) p.kh), Nat.mul_assoc]

theorem length_colMain (p : Params) (yP xP : Nat) :
    (colYMain p yP xP).length = yP * xP ∧ (colXMain p yP xP).length = yP * xP := by
  constructor
  · unfold colYMain; exact length_flatMap_blocks xP _ (by intro a; simp) yP
  · unfold colXMain; exact length_flatMap_blocks xP _ (by intro a; simp) yP

theorem row_index_lt (p : Params) (c ky kx : Nat) (hc : c < p.chans) (hky : ky < p.kh) (hkx : kx < p.kw) :
    (c * p.kh + ky) * p.kw + kx < p.chans * p.kh * p.kw := by
  have h1 : c * p.kh + ky < p.chans * p.kh := by
    calc c * p.kh + ky < c * p.kh + p.kh := by omega
      _ = (c + 1) * p.kh := by rw [Nat.succ_mul]
      _ ≤ p.chans * p.kh := Nat.mul_le_mul_right _ hc
  calc (c * p.kh + ky) * p.kw + kx < (c * p.kh + ky) * p.kw + p.kw := by omega
    _ = (c * p.kh + ky + 1) * p.kw := by rw [Nat.succ_mul]
    _ ≤ p.chans * p.kh * p.kw := Nat.mul_le_mul_right _ h1

/-- **C14 D7 on the driven function.** The tables returned by `buildIm2col` (what the `im2col`
requests compare with the real `build_im2col`), padded to any row / column step, hold for every used
row `(chan, k_y, k_x)` and used column `(patch_y, patch_x)` the stride-scaled logical coordinates. -/
theorem c14_im2col_tables_layout_independent (p : Params) (cs rs : Nat) (t : Tables) (yP xP : Nat)
    (ht : buildIm2col p cs rs = some t)
    (hyP : outSize p.h p.kh p.strideH p.padTop p.padBottom p.dilY = some yP)
    (hxP : outSize p.w p.kw p.strideW p.padLeft p.padRight p.dilX = some xP)
    (c ky kx py px : Nat) (hc : c < p.chans) (hky : ky < p.kh) (hkx : kx < p.kw) (hy : py < yP) (hx : px < xP) :
    t.nRows = p.chans * p.kh * p.kw ∧ t.nCols = xP * yP ∧
    t.rowChan[(c * p.kh + ky) * p.kw + kx]? = some ((c : Int) * p.sc) ∧
    t.rowY[(c * p.kh + ky) * p.kw + kx]? = some ((p.sth : Int) * ky * p.dilY) ∧
    t.rowX[(c * p.kh + ky) * p.kw + kx]? = some ((p.stw : Int) * kx * p.dilX) ∧
    t.colY[py * xP + px]? = some (((py : Int) * p.strideH - p.padTop) * p.sth) ∧
    t.colX[py * xP + px]? = some (((px : Int) * p.strideW - p.padLeft) * p.stw) := by
  unfold buildIm2col at ht
  split at ht
  · cases ht
  · rw [hyP, hxP] at ht
    simp only [Option.some.injEq] at ht
    subst ht
    have hr := row_index_lt p c ky kx hc hky hkx
    have hq : py * xP + px < yP * xP := by
      calc py * xP + px < py * xP + xP := by omega
        _ = (py + 1) * xP := by rw [Nat.succ_mul]
        _ ≤ yP * xP := Nat.mul_le_mul_right _ hy
    obtain ⟨l1, l2, l3⟩ := length_rowMain p
    obtain ⟨l4, l5⟩ := length_colMain p yP xP
    refine ⟨rfl, rfl, ?_, ?_, ?_, ?_, ?_⟩
    · simp only; rw [List.getElem?_append_left (by rw [l1]; exact hr)]; exact rowChan_get p c ky kx hc hky hkx
    · simp only; rw [List.getElem?_append_left (by rw [l2]; exact hr)]; exact rowY_get p c ky kx hc hky hkx
    · simp only; rw [List.getElem?_append_left (by rw [l3]; exact hr)]; exact rowX_get p c ky kx hc hky hkx
    · simp only; rw [List.getElem?_append_left (by rw [l4]; exact hq)]; exact colY_get p yP xP py px hy hx
    · simp only; rw [List.getElem?_append_left (by rw [l5]; exact hq)]; exact colX_get p yP xP py px hy hx


/-- **C14 D7 (element form).** For an image view with positive row and column strides, element
`(row (chan,k_y,k_x), column (patch_y,patch_x))` of the virtual im2col matrix built from
`buildIm2col`'s tables is the element of the *logical zero-padded image* at
`(chan, iy, ix) = (chan, patch_y·stride_h − pad_top + k_y·dil_y, patch_x·stride_w − pad_left + k_x·dil_x)`:
the image element at its strided offset when `(iy, ix)` is inside the image, zero otherwise —
whatever the strides. -/
theorem c14_im2col_elem_layout_independent {α : Type} (p : Params) (cs rs : Nat) (t : Tables) (yP xP : Nat)
    (ht : buildIm2col p cs rs = some t)
    (hyP : outSize p.h p.kh p.strideH p.padTop p.padBottom p.dilY = some yP)
    (hxP : outSize p.w p.kw p.strideW p.padLeft p.padRight p.dilX = some xP)
    (hsth : 0 < p.sth) (hstw : 0 < p.stw) (img : Int → α) (zero : α)
    (c ky kx py px : Nat) (hc : c < p.chans) (hky : ky < p.kh) (hkx : kx < p.kw) (hy : py < yP) (hx : px < xP) :
    let iy : Int := (py : Int) * p.strideH - p.padTop + (ky : Int) * p.dilY
    let ix : Int := (px : Int) * p.strideW - p.padLeft + (kx : Int) * p.dilX
    im2colElem t p.h p.w p.sth p.stw img zero ((c * p.kh + ky) * p.kw + kx) (py * xP + px) =
      some (if (0 ≤ iy ∧ iy ≤ (p.h : Int) - 1) ∧ (0 ≤ ix ∧ ix ≤ (p.w : Int) - 1)
        then img ((c : Int) * p.sc + iy * p.sth + ix * p.stw) else zero) := by
  intro iy ix
  obtain ⟨hn, _, h1, h2, h3, h4, h5⟩ :=
    c14_im2col_tables_layout_independent p cs rs t yP xP ht hyP hxP c ky kx py px hc hky hkx hy hx
  have hpos : 0 < p.h ∧ 0 < p.w := by
    unfold buildIm2col at ht
    split at ht
    · cases ht
    · rename_i hg
      constructor <;> (apply Nat.pos_of_ne_zero; intro h0; exact hg (by simp [h0]))
  have hy' : (p.sth : Int) * ky * p.dilY + ((py : Int) * p.strideH - p.padTop) * p.sth = iy * p.sth := by
    show _ = ((py : Int) * p.strideH - p.padTop + (ky : Int) * p.dilY) * p.sth
    rw [Int.add_mul, Int.mul_assoc, Int.mul_comm (p.sth : Int), Int.add_comm]
  have hx' : (p.stw : Int) * kx * p.dilX + ((px : Int) * p.strideW - p.padLeft) * p.stw = ix * p.stw := by
    show _ = ((px : Int) * p.strideW - p.padLeft + (kx : Int) * p.dilX) * p.stw
    rw [Int.add_mul, Int.mul_assoc, Int.mul_comm (p.stw : Int), Int.add_comm]
  unfold im2colElem
  have hr : ¬ ((c * p.kh + ky) * p.kw + kx ≥ t.nRows) := by
    rw [hn]; exact Nat.not_le.mpr (row_index_lt p c ky kx hc hky hkx)
  rw [if_neg hr, h1, h2, h3, h4, h5]
  simp only [hy', hx']
  have ty := c14_im2col_padding_test_layout_independent p.h p.sth iy hpos.1 hsth
  have tx := c14_im2col_padding_test_layout_independent p.w p.stw ix hpos.2 hstw
  by_cases hin : (0 ≤ iy ∧ iy ≤ (p.h : Int) - 1) ∧ (0 ≤ ix ∧ ix ≤ (p.w : Int) - 1)
  · rw [if_pos hin, ty.mpr hin.1, tx.mpr hin.2]
    simp [Int.add_assoc]
  · rw [if_neg hin]
    have : (inImage p.h p.sth (iy * p.sth) && inImage p.w p.stw (ix * p.stw)) = false := by
      rcases Classical.not_and_iff_not_or_not.mp hin with h | h
      · have : inImage p.h p.sth (iy * p.sth) = false := by
          cases hb : inImage p.h p.sth (iy * p.sth)
          · rfl
          · exact absurd (ty.mp hb) h
        rw [this]; rfl
      · have : inImage p.w p.stw (ix * p.stw) = false := by
          cases hb : inImage p.w p.stw (ix * p.stw)
          · rfl
          · exact absurd (tx.mp hb) h
        rw [this, Bool.and_false]
    rw [this]; rfl


/-- Non-vacuity of the element theorem's hypotheses and of the padded tables: 3×3 image, 3×3
kernel, pads 1, row step 4: 9 used rows, 12 table rows; the K-padding rows are never read
(`im2colElem` returns zero for them, as the int8 packer does; the f32 path has row step 1). -/
example :
    (buildIm2col ⟨1, 3, 3, 3, 3, 1, 1, 1, 1, 1, 1, 1, 1, 9, 3, 1⟩ 1 4).map
      (fun t => (t.nRows, t.rowY.length, im2colElem t 3 3 3 1 (fun o => o) (-1) 10 0,
        im2colElem t 3 3 3 1 (fun o => o) (-1) 4 0, im2colElem t 3 3 3 1 (fun o => o) (-1) 0 0)) =
      some (9, 12, some (-1), some 0, some (-1)) := by decide

end RtenVerif.Im2Col

/-! ## D5b: the transform loop of `TransformInputs::run_in_place` -/
namespace RtenVerif.Layout
open RtenVerif.Arr (Err)

/-- What `run_in_place` sees in `ctx.inputs()`: the in-place positions are `None`. -/
def maskFrom (ips : List Nat) : Nat → List TState → List (Option TState)
  | _, [] => []
  | k, t :: ts => (if ips.contains k then none else some t) :: maskFrom ips (k + 1) ts

theorem maskFrom_getElem? (ips : List Nat) : ∀ (ts : List TState) (k i : Nat),
    (maskFrom ips k ts)[i]? = (ts[i]?).map (fun t => if ips.contains (k + i) then none else some t)
  | [], _, _ => by simp [maskFrom]
  | t :: ts, k, 0 => by simp [maskFrom]
  | t :: ts, k, i + 1 => by
    simp only [maskFrom, List.getElem?_cons_succ]
    rw [maskFrom_getElem? ips ts (k + 1) i]
    congr 2; funext t; rw [Nat.add_assoc, Nat.add_comm 1 i]

theorem maskFrom_set (ips : List Nat) : ∀ (ts : List TState) (k i : Nat) (t' : TState),
    k + i ∉ ips →
    maskFrom ips k (ts.set i t') = (maskFrom ips k ts).set i (some t')
  | [], _, _, _, _ => by simp [maskFrom]
  | t :: ts, k, 0, t', h => by
    have h' : k ∉ ips := by simpa using h
    simp [maskFrom, h']
  | t :: ts, k, i + 1, t', h => by
    simp only [List.set_cons_succ, maskFrom]
    rw [maskFrom_set ips ts (k + 1) i t' (by rw [Nat.add_assoc, Nat.add_comm 1 i]; exact h)]

/-- **C14 D5b.** When no transform touches an in-place position (which `in_place_inputs` guarantees
for the set it offers, D5), the transform loop of `run_in_place` — over the inputs with the
in-place positions masked out — does exactly what the loop of `run` does on the other inputs, error
and panic paths included. -/
theorem c14_transform_run_in_place_loop (ips : List Nat) : ∀ (specs : List PermuteSpec) (ts : List TState),
    (∀ sp ∈ specs, sp.index ∉ ips) →
    applyTransformsOpt specs (maskFrom ips 0 ts) = (applyTransforms specs ts).map (maskFrom ips 0)
  | [], ts, _ => rfl
  | sp :: rest, ts, h => by
    have hsp : sp.index ∉ ips := h sp (by simp)
    unfold applyTransformsOpt applyTransforms
    rw [maskFrom_getElem? ips ts 0 sp.index, Nat.zero_add]
    cases hk : ts[sp.index]? with
    | none => rfl
    | some t =>
      simp only [Option.map_some, List.contains_iff_mem, hsp, if_false]
      cases hv : applyPerm t.view sp.perm with
      | error e => rfl
      | ok v =>
        simp only
        rw [← maskFrom_set ips ts 0 sp.index _ (by rw [Nat.zero_add]; exact hsp)]
        exact c14_transform_run_in_place_loop ips rest _ (fun q hq => h q (by simp [hq]))

/-- A transform aimed at an in-place position fails with `MissingInputs` (the reason
`in_place_inputs` must not offer such a position). -/
theorem c14_transform_run_in_place_missing (ips : List Nat) (sp : PermuteSpec) (rest : List PermuteSpec)
    (ts : List TState) (h : sp.index ∈ ips) :
    applyTransformsOpt (sp :: rest) (maskFrom ips 0 ts) = .error .err := by
  unfold applyTransformsOpt
  rw [maskFrom_getElem? ips ts 0 sp.index, Nat.zero_add]
  cases ts[sp.index]? with
  | none => rfl
  | some t => simp [h]


example :
    let t : TState := ⟨[0, 1, 2, 3, 4, 5], ⟨0, 6, [(2, 3), (3, 1)]⟩⟩
    (applyTransformsOpt [⟨1, none⟩] (maskFrom [0] 0 [t, t])).toOption.map (fun l => l.map (fun o => o.map (·.view.dims))) =
      some [none, some [(3, 1), (2, 3)]] ∧
    (applyTransformsOpt [⟨0, none⟩] (maskFrom [0] 0 [t, t])).toOption = none := by decide

end RtenVerif.Layout
