import RtenVerif.Lemmas.QuantGemm
import RtenVerif.Model.QuantOps

/-!
# C17 (operator level) — MatMulInteger / ConvInteger / (Dynamic)QuantizeLinear wrappers

Theorems over `RtenVerif.Model.QuantOps`.  Same level as `Props/C17.lean`: proof of the integer
algebra, partial (f32 arithmetic of the quantize operators is exact only on the inputs the harness
uses; the GEMM kernels below the wrappers are covered by `Props/C17.lean`).
-/
namespace RtenVerif.QuantOps
open RtenVerif.QuantGemm

/-- **C17.O1** `ShiftCast` (`x ^ 0x80`) adds/subtracts 128: for every byte pattern `v`, read as
`i8` value `s`, `v xor 0x80` is the `u8` value `s + 128`; read as `u8` value `v`, the pattern
`v xor 0x80` is the `i8` value `v − 128`. -/
theorem c17_shift_cast_is_xor :
    ∀ v : Fin 256,
      ((xor80 v.val : Nat) : Int) = lhsToU8 .i8 (if v.val < 128 then (v.val : Int) else v.val - 256) ∧
      (if xor80 v.val < 128 then ((xor80 v.val : Nat) : Int) else (xor80 v.val : Int) - 256) =
        rhsToI8 .u8 v.val := by decide +kernel

theorem dotZ_shift (sa sb za zb : Int) : ∀ (a b : List Int),
    dotZ (za + sa) (zb + sb) (a.map (· + sa)) (b.map (· + sb)) = dotZ za zb a b
  | [], _ => by simp [dotZ]
  | _ :: _, [] => by simp [dotZ]
  | x :: xs, y :: ys => by
    simp only [List.map_cons, dotZ, dotZ_shift sa sb za zb xs ys]
    grind

/-- **C17.O2** MatMulInteger wrapper (the `ShiftCast` / XOR-0x80 branch, i.e. whenever the LHS is
`u8` or the default kernel cannot saturate) = definition: for every operand type combination
(`u8`/`i8` × `u8`/`i8`), all values, all zero points and lengths, shift casting operands *and* zero
points leaves `Σ_k (a_k − za)(b_k − zb)` unchanged. -/
theorem c17_matmulinteger_wrapper_exact (da db : Dt) (za zb : Int) (a b : List Int) :
    mmiEntry da db za zb a b = dotZ za zb a b := by
  unfold mmiEntry lhsToU8 rhsToI8
  exact dotZ_shift (lhsShift da) (rhsShift db) za zb a b

/-- Value range of an operand type. -/
def inDt : Dt → Int → Prop
  | .u8, x => 0 ≤ x ∧ x ≤ 255
  | .i8, x => -128 ≤ x ∧ x ≤ 127

/-- **C17.O3** The shift casts land in the GEMM operand types, so the GEMM theorems
(`c17_simd_entry_exact`, `c17_no_i32_overflow`, …) apply to what the wrapper passes down. -/
theorem c17_shift_cast_in_range (d : Dt) (x : Int) (h : inDt d x) :
    (0 ≤ lhsToU8 d x ∧ lhsToU8 d x ≤ 255) ∧ (-128 ≤ rhsToI8 d x ∧ rhsToI8 d x ≤ 127) := by
  cases d <;> simp only [inDt] at h <;> simp only [lhsToU8, rhsToI8, lhsShift, rhsShift] <;> omega

example : mmiEntry .i8 .u8 (-128) 255 [-128, 127, 0] [0, 255, 128] =
    dotZ (-128) 255 [-128, 127, 0] [0, 255, 128] ∧
    dotZ (-128) 255 [-128, 127, 0] [0, 255, 128] = -16256 := by decide

/-- **C17.O4 (partial)** The `may_saturate` LHS path (shift by `−min(0, min a)`) is exact provided
the shifted zero point still fits `u8`.  The full statement is false: see the witness below. -/
theorem c17_minshift_exact_partial (t : List Int) (za zb : Int) (a b : List Int)
    (h : 0 ≤ za + minShift t ∧ za + minShift t ≤ 255) :
    mmiEntryMinShift t za zb a b = dotZ za zb a b := by
  unfold mmiEntryMinShift
  have e : (za + minShift t) % 256 = za + minShift t := by omega
  rw [e]
  have := dotZ_shift (minShift t) 0 za zb a b
  simpa using this

/-- **Observation (not a finding: no failing input can be shown on the real code on this host,
whose default int8 kernel is AVX-512 VNNI; this branch is not driven by the harness)**:
`shift_cast_gemm_lhs_to_u8` truncates `zero_point + shift` with `as u8`.  When an `i8` LHS
has a zero point below `min(0, min value)` the truncation wraps: tensor `[1, 2]`, `za = −3` gives
shift 0 and zero point 253, so the wrapper computes `Σ (a − 253)·b` instead of `Σ (a + 3)·b`. -/
theorem c17_minshift_zero_point_wraps :
    mmiEntryMinShift [1, 2] (-3) 0 [1, 2] [1, 1] = -503 ∧ dotZ (-3) 0 [1, 2] [1, 1] = 9 := by decide

/-! ### ConvInteger -/

theorem convCore (s t wz xz : Int) : ∀ ts : List Tap,
    dotZ (wz + s) (xz + t) (ts.map fun p => p.wt + s)
      (ts.map fun p => if p.valid then p.x + t else xz + t) = convDef wz xz ts
  | [] => by simp [convDef, dotZ]
  | p :: ts => by
    have ih := convCore s t wz xz ts
    simp only [List.map_cons, dotZ, convDef, ih]
    cases p.valid
    · simp only [Bool.false_eq_true, if_false]; grind
    · simp only [if_true]; grind

/-- **C17.O5** im2col + GEMM = definition when out-of-image taps are packed as the (shift cast)
input zero point: each padded tap contributes `(w − wz)·(xz − xz) = 0`.  For every tap list (i.e.
every shape, stride, dilation, padding, group), operand types and zero points. -/
theorem c17_conv_padding_exact (dw dx : Dt) (wz xz : Int) (ts : List Tap) :
    convGemm dw dx (padFixed dx xz) wz xz ts = convDef wz xz ts := by
  unfold convGemm padFixed lhsToU8 rhsToI8
  exact convCore (lhsShift dw) (rhsShift dx) wz xz ts

/-- **Finding (fixed, `findings/C17.json`: `C17-convinteger-padding`)** before the fix
`pack_block_int8` packed out-of-image taps as 0 (`padOld`), so every padded tap contributed
`(w − wz)·(0 − xz')`.  One padded tap, `u8` image with zero point 0, weight 3: the code gave
`3·(0 − (−128)) = 384`, the definition gives 0 (reproduced through `Model::run` on the unchanged
tree; `c17_conv_padding_exact` shows the pad value must be the zero point). -/
theorem c17_conv_padding_zero_was_wrong :
    convGemm .i8 .u8 (padOld .u8 0) 0 0 [{ wt := 3, x := 0, valid := false }] = 384 ∧
    convDef 0 0 [{ wt := 3, x := 0, valid := false }] = 0 := by decide

/-- Non-vacuity on a real shape: 1×1×2×2 image, 3×3 kernel, padding 1 (so 5 of 9 taps are padded at
each corner), `u8` image with zero point 7, `i8` kernel with zero point −2. -/
def exampleConv : Conv :=
  { n := 1, c := 1, h := 2, w := 2, o := 1, kh := 3, kw := 3, groups := 1,
    padT := 1, padL := 1, padB := 1, padR := 1, sy := 1, sx := 1, dy := 1, dx := 1 }

example : exampleConv.outH = 2 ∧ exampleConv.outW = 2 ∧
    ((taps exampleConv [10, 20, 30, 40] [1, 2, 3, 4, 5, 6, 7, 8, 9] 0 0 0 0).filter (!·.valid)).length = 5 ∧
    convInteger .i8 .u8 padFixed exampleConv (.scalar (-2)) 7 [10, 20, 30, 40] [1, 2, 3, 4, 5, 6, 7, 8, 9] =
      [718, 646, 502, 430] := by decide

/-! ### QuantizeLinear / DynamicQuantizeLinear (T4) -/

/-- `roundHalfEven` is a nearest integer: `|q·den − num| ≤ den/2`. -/
theorem roundHalfEven_nearest (num den : Int) (hd : 0 < den) :
    2 * (roundHalfEven num den * den - num) ≤ den ∧ -den ≤ 2 * (roundHalfEven num den * den - num) := by
  have h1 := Int.mul_ediv_add_emod num den
  have h2 := Int.emod_nonneg num (Int.ne_of_gt hd)
  have h3 := Int.emod_lt_of_pos num hd
  have e1 : (num / den + 1) * den = den * (num / den) + den := by grind
  have e0 : num / den * den = den * (num / den) := Int.mul_comm _ _
  unfold roundHalfEven
  simp only []
  split
  · rw [e0]; omega
  · split
    · rw [e1]; omega
    · split
      · rw [e0]; omega
      · rw [e1]; omega

/-- **C17.T4** Dynamic quantization followed by dequantization stays within one quantization step,
over exact rational arithmetic.  Inputs are integers in any common unit; `R = max' − min' > 0` is
255·scale; `q` is *any* nearest integer to `x/scale = 255·X/R` and `zq ∈ [0,255]` *any* nearest
integer to `−min'/scale` (round-half-even is one, see `roundHalfEven_nearest`); the stored value is
`y = clamp(q + zq, 0, 255)`.  Then `|(y − zq)·scale − x| ≤ scale`, stated without division as
`|(y − zq)·R − 255·X| ≤ R`.  (The proof in fact never needs the saturation to lose more than the
rounding does.) -/
theorem c17_dynamic_quantize_within_one_step (R mn mx X q zq : Int)
    (hR : 0 < R) (hRdef : R = mx - mn) (hx : mn ≤ X ∧ X ≤ mx)
    (hq : 2 * (q * R - 255 * X) ≤ R ∧ -R ≤ 2 * (q * R - 255 * X))
    (hz : 2 * (zq * R + 255 * mn) ≤ R ∧ -R ≤ 2 * (zq * R + 255 * mn)) :
    -R ≤ (max 0 (min 255 (q + zq)) - zq) * R - 255 * X ∧
      (max 0 (min 255 (q + zq)) - zq) * R - 255 * X ≤ R := by
  have e255 : (255 - zq) * R = 255 * R - zq * R := by grind
  have e0 : (0 - zq) * R = -(zq * R) := by grind
  have eq : (q + zq - zq) * R = q * R := by grind
  have eR : 255 * R = 255 * mx - 255 * mn := by rw [hRdef]; grind
  by_cases hlo : q + zq < 0
  · have hm : max 0 (min 255 (q + zq)) = 0 := by omega
    rw [hm, e0]
    have : (q + zq) * R ≤ -1 * R := Int.mul_le_mul_of_nonneg_right (by omega) (Int.le_of_lt hR)
    have e : (q + zq) * R = q * R + zq * R := Int.add_mul _ _ _
    omega
  · by_cases hhi : 255 < q + zq
    · have hm : max 0 (min 255 (q + zq)) = 255 := by omega
      rw [hm, e255]
      have : 256 * R ≤ (q + zq) * R := Int.mul_le_mul_of_nonneg_right (by omega) (Int.le_of_lt hR)
      have e : (q + zq) * R = q * R + zq * R := Int.add_mul _ _ _
      omega
    · have hm : max 0 (min 255 (q + zq)) = q + zq := by omega
      rw [hm, eq]
      omega

/-- Non-vacuity of T4 and agreement with the executable model: inputs `[-3, 0, 5, 12]`
(`R = 15`, scale `15/255`): zero point 51, `y = [0, 51, 136, 255]`. -/
example : (dynamicQuantize [-3, 0, 5, 12]).range = 15 ∧ (dynamicQuantize [-3, 0, 5, 12]).zeroPoint = 51 ∧
    (dynamicQuantize [-3, 0, 5, 12]).y = [0, 51, 136, 255] ∧
    roundHalfEven 5 2 = 2 ∧ roundHalfEven 7 2 = 4 ∧ roundHalfEven (-5) 2 = -2 := by decide

/-! ### T4 over the model function -/

theorem foldl_min_le : ∀ (xs : List Int) (init : Int),
    xs.foldl min init ≤ init ∧ ∀ x ∈ xs, xs.foldl min init ≤ x
  | [], init => by simp
  | y :: ys, init => by
    have ih := foldl_min_le ys (min init y)
    simp only [List.foldl_cons, List.mem_cons]
    refine ⟨by omega, ?_⟩
    intro x hx
    rcases hx with rfl | hx
    · omega
    · exact ih.2 x hx

theorem le_foldl_max : ∀ (xs : List Int) (init : Int),
    init ≤ xs.foldl max init ∧ ∀ x ∈ xs, x ≤ xs.foldl max init
  | [], init => by simp
  | y :: ys, init => by
    have ih := le_foldl_max ys (max init y)
    simp only [List.foldl_cons, List.mem_cons]
    refine ⟨by omega, ?_⟩
    intro x hx
    rcases hx with rfl | hx
    · omega
    · exact ih.2 x hx

/-- **C17.T4 (model function)** For the executable model `dynamicQuantize` of
DynamicQuantizeLinear (exact rational arithmetic, round-half-even, `u8` saturation) and every input
list: whenever the range is non-zero, every element satisfies
`|(y_i − zero_point)·scale − x_i| ≤ scale` with `scale = range/255`, stated without division.
(For f32 the harness compares the operator with this model on inputs where `range/255` is a power
of two, and checks the same one-step bound directly on random reals.) -/
theorem c17_dynamic_quantize_model_within_one_step (xs : List Int) (x : Int) (hx : x ∈ xs)
    (hR : (dynamicQuantize xs).range ≠ 0) :
    let d := dynamicQuantize xs
    let y := satTo .u8 (roundHalfEven (255 * x) d.range + d.zeroPoint)
    y ∈ d.y ∧ -d.range ≤ (y - d.zeroPoint) * d.range - 255 * x ∧
      (y - d.zeroPoint) * d.range - 255 * x ≤ d.range := by
  have hmn := foldl_min_le xs 0
  have hmx := le_foldl_max xs 0
  have hxmn := hmn.2 x hx
  have hxmx := hmx.2 x hx
  unfold dynamicQuantize at hR ⊢
  simp only [] at hR ⊢
  split at hR
  · simp at hR
  · rename_i hr
    simp only [hr, if_false]
    generalize hmnE : xs.foldl min 0 = mn at *
    generalize hmxE : xs.foldl max 0 = mx at *
    have hrpos : 0 < mx - mn := by omega
    -- the clamp in the zero point is the identity
    have ht : max 0 (min (255 * (mx - mn)) (-(255 * mn))) = -(255 * mn) := by omega
    rw [ht]
    have hz := roundHalfEven_nearest (-(255 * mn)) (mx - mn) hrpos
    have hq := roundHalfEven_nearest (255 * x) (mx - mn) hrpos
    generalize roundHalfEven (-(255 * mn)) (mx - mn) = z0 at *
    generalize hqe : roundHalfEven (255 * x) (mx - mn) = q at *
    -- 0 ≤ z0 ≤ 255, so the saturation of the zero point is the identity
    have hz0 : 0 ≤ z0 := by
      apply Classical.byContradiction
      intro hc
      have : z0 * (mx - mn) ≤ -1 * (mx - mn) :=
        Int.mul_le_mul_of_nonneg_right (by omega) (Int.le_of_lt hrpos)
      omega
    have hz255 : z0 ≤ 255 := by
      apply Classical.byContradiction
      intro hc
      have : 256 * (mx - mn) ≤ z0 * (mx - mn) :=
        Int.mul_le_mul_of_nonneg_right (by omega) (Int.le_of_lt hrpos)
      have e : 256 * (mx - mn) = 256 * mx - 256 * mn := by grind
      omega
    have hsat : satTo .u8 z0 = z0 := by simp only [satTo]; omega
    rw [hsat]
    refine ⟨List.mem_map.mpr ⟨x, hx, by simp only [hqe]⟩, ?_⟩
    have key := c17_dynamic_quantize_within_one_step (mx - mn) mn mx x q z0 hrpos rfl ⟨hxmn, hxmx⟩
      ⟨hq.1, hq.2⟩ ⟨by omega, by omega⟩
    simpa only [satTo] using key

example : (dynamicQuantize [-3, 0, 5, 12]).range ≠ 0 ∧ (5 : Int) ∈ [-3, 0, 5, 12] := by decide

/-- `QuantizeLinear` saturates and rounds half to even (`scale = 2`, `u8`, zero point 250). -/
example : quantizeLinear .u8 2 1 250 5 = 252 ∧ quantizeLinear .u8 2 1 250 7 = 254 ∧
    quantizeLinear .u8 2 1 250 100 = 255 ∧ quantizeLinear .i8 2 1 (-120) (-100) = -128 := by decide

end RtenVerif.QuantOps
