import RtenVerif.Lemmas.NormalizerBytes

/-!
# C30 — Text normalizers keep an exact offset map

Property theorems over `RtenVerif.Model.Normalizer` (model of `rten-text/src/normalizers.rs`).
The Unicode tables (`Uni`) and the regex matches carried by `Norm.replace` are parameters: the
theorems hold for *every* choice of them, every input text and every normalizer tree.

"Valid UTF-8": the model's texts are lists of Unicode scalar values (`Char`), like the Rust
code which only ever pushes `char`s / `&str` slices onto a `String`; string slicing off a char
boundary is modelled as a panic (`none`).

Property text: "the reported offset map assigns every normalized byte position a source byte
offset that is a character boundary in the input, non-decreasing along the normalized text".
* proved for all inputs: one offset per normalized byte (T1), non-decreasing (T2), every offset
  is `≤ source.len()`, every offset stored at a *char boundary* of the normalized text is a char
  boundary of the source (T3 — `c30_offsets_partial`), and *every* offset is a boundary when the
  tree contains a char-wise normalizer anywhere (`c30_all_boundaries_charwise`);
* FALSE as literally stated (`c30_every_byte_boundary_false`): the byte-identity paths (`Bert`
  no-op, unmatched text in `Replace`, the initial map of `Sequence`) give the continuation bytes
  of a multi-byte char the offsets of the source's continuation bytes.  Pinned by the unit test
  `test_bert_noop` ⇒ open finding `C30-continuation-byte-offsets`.
-/
namespace RtenVerif.Normalizer

mutual
/-- Every normalizer tree returns a `Good` pair (or panics on a regex-contract violation). -/
theorem run_good (u : Uni) : ∀ (n : Norm) (t : List Char) (r : List Char × List Nat),
    run u n t = some r → Good t r.1 r.2
  | .bert l s, t, r, h => by
    simp only [run, Option.some.injEq] at h; subst h; exact bert_good u l s t
  | .unicode f, t, r, h => by
    simp only [run, Option.some.injEq] at h; subst h; exact (unicode_good' u f t).1
  | .replace c ms, t, r, h => replace_good t c ms r (by simpa only [run] using h)
  | .replaceErr, _, _, h => by simp [run] at h
  | .seq ns, t, r, h =>
    runSeq_good u ns t (t, List.range' 0 (blen t)) r (identity_good t) (by simpa only [run] using h)

/-- The `Sequence` loop keeps the invariant relative to the *original* source text. -/
theorem runSeq_good (u : Uni) : ∀ (ns : List Norm) (src : List Char) (st r : List Char × List Nat),
    Good src st.1 st.2 → runSeq u ns (blen src) st = some r → Good src r.1 r.2
  | [], src, st, r, hg, h => by
    simp only [runSeq, Option.some.injEq] at h; subst h; exact hg
  | n :: ns, src, st, r, hg, h => by
    simp only [runSeq] at h
    split at h
    · simp at h
    · rename_i r' hr'
      exact runSeq_good u ns src _ r
        (compose_good src st.1 r'.1 st.2 r'.2 hg (run_good u n st.1 r' hr')) h
end

/-! ### Bridges to the decidable predicates evaluated by the harness oracle -/

theorem nonDecreasing_of_pairwise : ∀ (l : List Nat), l.Pairwise (· ≤ ·) → nonDecreasing l = true
  | [], _ => rfl
  | [_], _ => rfl
  | a :: b :: rest, h => by
    rw [List.pairwise_cons] at h
    simp only [nonDecreasing, Bool.and_eq_true, decide_eq_true_eq]
    exact ⟨h.1 b (by simp), nonDecreasing_of_pairwise (b :: rest) h.2⟩

theorem boundaryOK_of_bnd (src norm : List Char) (offs : List Nat)
    (h : Bnd (fun o => isBoundary src o = true) norm offs) : boundaryOK src norm offs = true := by
  simp only [boundaryOK, List.all_eq_true, List.mem_range, Bool.or_eq_true, Bool.not_eq_true']
  intro p hp
  by_cases hb : isBoundary norm p = true
  · right
    apply h p _ _ hb
    rw [List.getD_eq_getElem?_getD, List.getElem?_eq_getElem hp]; rfl
  · left; simpa using hb

/-! ### The property -/

/-- **C30 (T1–T3, `_partial`: T3 speaks about char-boundary positions only).**  For every
Unicode table, every normalizer tree and every input text, if `normalize` returns
`(normalized, offsets)` then: `offsets` has exactly one entry per byte of `normalized`; it is
non-decreasing; every entry is a position in `0..=text.len()`; and the entry at every char
boundary of `normalized` is a char boundary of the input. -/
theorem c30_offsets_partial (u : Uni) (n : Norm) (text : List Char) (normalized : List Char)
    (offsets : List Nat) (h : run u n text = some (normalized, offsets)) :
    offsets.length = blen normalized ∧
    nonDecreasing offsets = true ∧
    (∀ o ∈ offsets, o ≤ blen text) ∧
    boundaryOK text normalized offsets = true := by
  have g := run_good u n text _ h
  exact ⟨g.len, nonDecreasing_of_pairwise _ g.mono, g.le, boundaryOK_of_bnd _ _ _ g.bnd⟩

/-- Same statement, index form: `offsets[p]` for a char boundary `p` of `normalized`. -/
theorem c30_boundary_positions (u : Uni) (n : Norm) (text normalized : List Char)
    (offsets : List Nat) (h : run u n text = some (normalized, offsets))
    (p o : Nat) (hp : offsets[p]? = some o) (hb : isBoundary normalized p = true) :
    isBoundary text o = true :=
  (run_good u n text _ h).bnd p o hp hb

/-- Inside `Sequence`, every lookup `offsets[o]` made for a stage's map is in range, or is the
end-of-input position `offsets.len()` (which the code maps to `text.len()`); before the fix of
`Sequence::normalize` the latter case panicked. -/
theorem c30_sequence_lookup_in_range (src cur nx : List Char) (offs no : List Nat)
    (h1 : Good src cur offs) (h2 : Good cur nx no) : ∀ o ∈ no, o ≤ offs.length := by
  intro o ho; rw [h1.len]; exact h2.le o ho

/- Chains without `Replace` never panic (`Replace` panics only if the regex engine breaks its
contract: matches in order, on char boundaries, `start ≤ end`). -/
mutual
def replaceFree : Norm → Bool
  | .bert _ _ => true
  | .unicode _ => true
  | .replace _ _ => false
  | .replaceErr => false
  | .seq ns => allReplaceFree ns
def allReplaceFree : List Norm → Bool
  | [] => true
  | n :: ns => replaceFree n && allReplaceFree ns
end

mutual
theorem run_total (u : Uni) : ∀ (n : Norm) (t : List Char), replaceFree n = true →
    (run u n t).isSome = true
  | .bert _ _, _, _ => by simp [run]
  | .unicode _, _, _ => by simp [run]
  | .replace _ _, _, h => by simp [replaceFree] at h
  | .replaceErr, _, h => by simp [replaceFree] at h
  | .seq ns, t, h => by
    simp only [run]
    exact runSeq_total u ns (blen t) _ (by simpa only [replaceFree] using h)

theorem runSeq_total (u : Uni) : ∀ (ns : List Norm) (len : Nat) (st : List Char × List Nat),
    allReplaceFree ns = true → (runSeq u ns len st).isSome = true
  | [], _, _, _ => by simp [runSeq]
  | n :: ns, len, st, h => by
    simp only [allReplaceFree, Bool.and_eq_true] at h
    simp only [runSeq]
    have h1 := run_total u n st.1 h.1
    split
    · rename_i hnone; simp [hnone] at h1
    · exact runSeq_total u ns len _ h.2
end

/-! ### All offsets are boundaries as soon as one stage is char-wise -/

/- The tree contains a char-wise leaf: a `Bert` that lower-cases or strips accents, or a
`Unicode` normalizer (these attribute every output byte to the start of a source char). -/
mutual
def hasCharwise : Norm → Bool
  | .bert l s => l || s
  | .unicode _ => true
  | .replace _ _ => false
  | .replaceErr => false
  | .seq ns => anyCharwise ns
def anyCharwise : List Norm → Bool
  | [] => false
  | n :: ns => hasCharwise n || anyCharwise ns
end

/-- Every offset is a char boundary of `src`. -/
def AllB (src : List Char) (offs : List Nat) : Prop := ∀ o ∈ offs, isBoundary src o = true

theorem composeMap_allB_left (src : List Char) (offs no : List Nat) (h : AllB src offs) :
    AllB src (composeMap (blen src) offs no) := by
  intro o ho
  simp only [composeMap, List.mem_map] at ho
  obtain ⟨x, _, rfl⟩ := ho
  rw [List.getD_eq_getElem?_getD]
  cases hx : offs[x]? with
  | none => exact isBoundary_blen src
  | some v => exact h v (List.mem_of_getElem? hx)

theorem composeMap_allB_right (src cur : List Char) (offs no : List Nat) (hg : Good src cur offs)
    (h : AllB cur no) : AllB src (composeMap (blen src) offs no) := by
  intro o ho
  simp only [composeMap, List.mem_map] at ho
  obtain ⟨x, hx, rfl⟩ := ho
  have hxb := h x hx
  rw [List.getD_eq_getElem?_getD]
  cases hv : offs[x]? with
  | none => exact isBoundary_blen src
  | some v => exact hg.bnd x v hv hxb

mutual
theorem run_allB (u : Uni) : ∀ (n : Norm) (t : List Char) (r : List Char × List Nat),
    hasCharwise n = true → run u n t = some r → AllB t r.2
  | .bert l s, t, r, hc, h => by
    simp only [run, Option.some.injEq] at h; subst h
    exact bert_allBoundaries u l s t (by simpa only [hasCharwise] using hc)
  | .unicode f, t, r, _, h => by
    simp only [run, Option.some.injEq] at h; subst h; exact (unicode_good' u f t).2
  | .replace _ _, _, _, hc, _ => by simp [hasCharwise] at hc
  | .replaceErr, _, _, hc, _ => by simp [hasCharwise] at hc
  | .seq ns, t, r, hc, h =>
    runSeq_allB u ns t (t, List.range' 0 (blen t)) r (identity_good t)
      (Or.inr (by simpa only [hasCharwise] using hc)) (by simpa only [run] using h)

theorem runSeq_allB (u : Uni) : ∀ (ns : List Norm) (src : List Char) (st r : List Char × List Nat),
    Good src st.1 st.2 → (AllB src st.2 ∨ anyCharwise ns = true) →
    runSeq u ns (blen src) st = some r → AllB src r.2
  | [], src, st, r, _, hc, h => by
    simp only [runSeq, Option.some.injEq] at h; subst h
    rcases hc with hc | hc
    · exact hc
    · simp [anyCharwise] at hc
  | n :: ns, src, st, r, hg, hc, h => by
    simp only [runSeq] at h
    split at h
    · simp at h
    · rename_i r' hr'
      have hg' := compose_good src st.1 r'.1 st.2 r'.2 hg (run_good u n st.1 r' hr')
      refine runSeq_allB u ns src _ r hg' ?_ h
      rcases hc with hc | hc
      · exact Or.inl (composeMap_allB_left src st.2 r'.2 hc)
      · simp only [anyCharwise, Bool.or_eq_true] at hc
        rcases hc with hc | hc
        · exact Or.inl (composeMap_allB_right src st.1 st.2 r'.2 hg (run_allB u n st.1 r' hc hr'))
        · exact Or.inr hc
end

/-- **C30 (full strength whenever a char-wise stage is involved).**  If the normalizer tree
contains at least one char-wise leaf (`Bert` with lower-casing or accent stripping, any
`Unicode::*`) — anywhere, also inside nested `Sequence`s — then *every* normalized byte
position is mapped to a char boundary of the input.  The literal statement can therefore only
fail for trees built from no-op `Bert`, `Replace` and `Sequence` alone. -/
theorem c30_all_boundaries_charwise (u : Uni) (n : Norm) (text normalized : List Char)
    (offsets : List Nat) (hc : hasCharwise n = true)
    (h : run u n text = some (normalized, offsets)) :
    allBoundaries text offsets = true := by
  simp only [allBoundaries, List.all_eq_true]
  exact run_allB u n text _ hc h

/-! ### `Sequence`: the offset map of a chain is the composition of the stages' maps -/

theorem runSeq_append (u : Uni) (len : Nat) : ∀ (ns ms : List Norm) (st : List Char × List Nat),
    runSeq u (ns ++ ms) len st = (runSeq u ns len st).bind (runSeq u ms len)
  | [], ms, st => by simp [runSeq]
  | n :: ns, ms, st => by
    simp only [List.cons_append, runSeq]
    split
    · simp
    · exact runSeq_append u len ns ms _

/-- **C30 (composition law).**  For every list of normalizers `ns` and every further normalizer
`n`: `Sequence [ns…, n]` normalizes with `Sequence ns`, feeds the result to `n`, and reports
`n`'s map composed with the accumulated map (`offsets[o]`, the end-of-input position mapping to
`text.len()`). -/
theorem c30_sequence_snoc (u : Uni) (ns : List Norm) (n : Norm) (text : List Char) :
    run u (.seq (ns ++ [n])) text =
      (run u (.seq ns) text).bind fun st =>
        (run u n st.1).map fun r => (r.1, composeMap (blen text) st.2 r.2) := by
  simp only [run, runSeq_append]
  cases h : runSeq u ns (blen text) (text, List.range' 0 (blen text)) with
  | none => rfl
  | some st =>
    simp only [Option.bind_some, runSeq]
    cases run u n st.1 <;> rfl

/-- **C30 for `Sequence` of an arbitrary list of (arbitrarily nested) normalizers**: the
composed map has one entry per normalized byte, is non-decreasing, stays within
`0..=text.len()` and sends char boundaries to char boundaries. -/
theorem c30_sequence (u : Uni) (ns : List Norm) (text normalized : List Char) (offsets : List Nat)
    (h : run u (.seq ns) text = some (normalized, offsets)) :
    offsets.length = blen normalized ∧ nonDecreasing offsets = true ∧
    (∀ o ∈ offsets, o ≤ blen text) ∧ boundaryOK text normalized offsets = true :=
  c30_offsets_partial u (.seq ns) text normalized offsets h

/-! ### `Replace`: every well-formed match list, every replacement string -/

/-- **C30 for `Replace`.**  For ANY list of matches that are in order, non-overlapping, have
`start ≤ end` and lie on char boundaries of the text (`matchesOk`; empty matches, adjacent
matches, matches at the very start or end, no match at all) and ANY replacement string (also
empty): `Replace::normalize` does not panic and its offset map satisfies T1–T3.  The hypothesis
is what the harness checks on fancy-regex's real output (failure kind `ASSUMPTION`). -/
theorem c30_replace_any_matches (src content : List Char) (ms : List (Nat × Nat))
    (hok : matchesOk src ms 0 = true) :
    ∃ r, replace src content ms = some r ∧ Good src r.1 r.2 := by
  obtain ⟨r, hr⟩ := replaceFrom_isSome src content ms 0 hok
  exact ⟨r, hr, replace_good src content ms r hr⟩

/-! ### Byte level: the statement on the UTF-8 encodings -/

/-- **C30 on bytes.**  With `nb`/`tb` the UTF-8 encodings of the normalized and the input text
(`utf8`, `Utf8.encCp` = `char::encode_utf8`): `nb` is well-formed UTF-8
(`Utf8.valid` = `String::from_utf8`), `offsets.len() = nb.len()` (the code adds no extra entry),
offsets are non-decreasing, each is `≤ tb.len()`, and for every position `p` that
`is_char_boundary` accepts in `nb`, `offsets[p]` is accepted by `is_char_boundary` in `tb`
(`Utf8.isBoundary`: start, end, or not a continuation byte). -/
theorem c30_offsets_bytes (u : Uni) (n : Norm) (text normalized : List Char) (offsets : List Nat)
    (h : run u n text = some (normalized, offsets)) :
    Utf8.valid (utf8 normalized) = true ∧
    offsets.length = (utf8 normalized).length ∧
    offsets.Pairwise (· ≤ ·) ∧
    (∀ o ∈ offsets, o ≤ (utf8 text).length) ∧
    (∀ p o, offsets[p]? = some o → Utf8.isBoundary (utf8 normalized) p = true →
      Utf8.isBoundary (utf8 text) o = true) := by
  have g := run_good u n text _ h
  refine ⟨utf8_valid _, by rw [utf8_length]; exact g.len, g.mono, ?_, ?_⟩
  · intro o ho; rw [utf8_length]; exact g.le o ho
  · intro p o hp hb
    rw [isBoundary_bytes] at hb ⊢
    exact g.bnd p o hp hb

/-- Full strength on bytes whenever a char-wise stage is involved: every offset is accepted by
`is_char_boundary` on the input's bytes. -/
theorem c30_all_boundaries_bytes (u : Uni) (n : Norm) (text normalized : List Char)
    (offsets : List Nat) (hc : hasCharwise n = true)
    (h : run u n text = some (normalized, offsets)) :
    ∀ o ∈ offsets, Utf8.isBoundary (utf8 text) o = true := by
  intro o ho
  rw [isBoundary_bytes]
  exact run_allB u n text _ hc h o ho

/-! ### Non-vacuity and the negation witness -/

/-- A tiny Unicode table for the examples: `İ` (U+0130) lower-cases to `i` + U+0307 and
decomposes to `I` + U+0307, U+0307 is a nonspacing mark, `I` + U+0307 composes to `İ`;
everything else is the identity. -/
def demoUni : Uni where
  lower c := if c = 'İ' then ['i', '̇'] else if c = 'A' then ['a'] else [c]
  decompCanon c := if c = 'İ' then ['I', '̇'] else [c]
  decompCompat c := if c = 'İ' then ['I', '̇'] else [c]
  isMn c := c = '̇'
  compose a b := if a = 'I' ∧ b = '̇' then some 'İ' else none

/-- The hypothesis of `c30_offsets_partial` is met by non-trivial runs (these are the unit tests
`test_bert_lowercase`, `test_unicode`, and a `Sequence` with a `Replace` that matches the empty
string at the end of its input — the configuration that used to panic). -/
example : run demoUni (.bert true false) ['İ', 'İ', 'A', 'B'] =
    some (['i', '̇', 'i', '̇', 'a', 'B'], [0, 0, 0, 2, 2, 2, 4, 5]) := by decide
example : run demoUni (.unicode .nfc) ['I', '̇', 'a', 'b'] = some (['İ', 'a', 'b'], [0, 0, 3, 4]) := by
  decide
example : run demoUni (.seq [.unicode .nfd, .replace ['!'] [(4, 4)]]) ['İ', 'a'] =
    some (['I', '̇', 'a', '!'], [0, 0, 0, 2, 3]) := by decide
example : hasCharwise (.seq [.seq [.replace [] []], .unicode .nfd]) = true ∧
    replaceFree (.seq [.unicode .nfd, .bert true true]) = true := by decide

/-- **The literal statement is false**: with the no-op `Bert` normalizer (and likewise for
`Replace` without a match or the empty `Sequence`) the second byte of "ö" gets the source
offset 1, which is not a char boundary of the input.  (`test_bert_noop` pins this output.) -/
theorem c30_every_byte_boundary_false :
    ¬ ∀ (u : Uni) (n : Norm) (text normalized : List Char) (offsets : List Nat),
        run u n text = some (normalized, offsets) → allBoundaries text offsets = true := by
  intro h
  have := h demoUni (.bert false false) ['ö'] ['ö'] [0, 1] (by decide)
  revert this; decide

/-- The same witness for the other byte-identity paths. -/
example : run demoUni (.replace ['_'] []) ['ö'] = some (['ö'], [0, 1]) ∧
    run demoUni (.seq []) ['ö'] = some (['ö'], [0, 1]) ∧
    run demoUni (.seq [.bert false false, .replace ['_'] [(2, 3)]]) ['ö', 'x'] = some (['ö', '_'], [0, 1, 2]) ∧
    run demoUni (.seq [.unicode .nfc, .replace ['_'] [(2, 3)]]) ['ö', 'x'] = some (['ö', '_'], [0, 0, 2]) ∧
    allBoundaries ['ö'] [0, 1] = false := by decide

/-- Non-vacuity of the new statements: a match list with an empty match at the start, an
adjacent non-empty match and an empty match at the very end satisfies `matchesOk` ("öx", byte
ranges); the byte-level boundary predicate agrees with Rust on "ö" = `C3 B6`; the composition
law instance. -/
example : matchesOk ['ö', 'x'] [(0, 0), (0, 2), (3, 3)] 0 = true ∧
    matchesOk ['ö', 'x'] [(1, 2)] 0 = false ∧ matchesOk ['ö', 'x'] [(2, 3), (0, 2)] 0 = false := by
  decide
example : replace ['ö', 'x'] [] [(0, 0), (0, 2), (3, 3)] = some (['x'], [2]) := by decide
example : utf8 ['ö', 'x'] = [0xC3, 0xB6, 0x78] ∧ Utf8.isBoundary (utf8 ['ö', 'x']) 1 = false ∧
    Utf8.isBoundary (utf8 ['ö', 'x']) 2 = true ∧ Utf8.isBoundary (utf8 ['ö', 'x']) 3 = true := by
  decide
example : run demoUni (.seq ([.unicode .nfd] ++ [.bert true false])) ['İ', 'A'] =
    some (['I', '̇', 'a'], [0, 0, 0, 2]) := by decide

end RtenVerif.Normalizer
