import RtenVerif.Props.C35

/-!
# C35.S3 bounded scope: all 6-point multisets of the 4×4 grid — definitions

54,264 inputs, among them 296 on which the scan performs at least two strict right-turn pops
for one point.  The scope is split by the two smallest point codes into 14 chunks (files
`C35Bounded6a … 6n`), each evaluated in the kernel as one Boolean; `C35Bounded6.lean` proves that
the chunks cover the whole scope.
-/
namespace RtenVerif.Poly

/-- Point number `k` of the 4×4 grid. -/
def gp4 (k : Nat) : Pt := (Int.ofNat (k % 4), Int.ofNat (k / 4))

/-- All non-decreasing lists of length `k` over `lo .. n-1`. -/
def msets (n : Nat) : Nat → Nat → List (List Nat)
  | 0, _ => [[]]
  | k + 1, lo => ((List.range n).filter (fun a => decide (lo ≤ a))).flatMap fun a =>
      (msets n k a).map (a :: ·)

def rangeIn (lo hi : Nat) : List Nat := (List.range (hi + 1)).filter (fun a => decide (lo ≤ a))

/-- The check on every 6-point multiset `a ≤ b ≤ …` with `a0 ≤ a ≤ a1`, `b0 ≤ b ≤ b1`. -/
def chunkOk (a0 a1 b0 b1 : Nat) : Bool :=
  (rangeIn a0 a1).all fun a => (rangeIn (max a b0) b1).all fun b =>
    (msets 16 4 b).all fun r => hullContainsCheck ((a :: b :: r).map gp4)

end RtenVerif.Poly
