import RtenVerif.Props.C38
import RtenVerif.Lemmas.ProtobufCost

/-!
# C38, part 2 — the "linear" clause and the nesting invariant

`c38_decode_terminates` bounds the *height* of the decoder's call tree by the fuel.  Here the decoder
is instrumented (`decodeFieldsS`, `parseS`) with the work counter that the `cfg(rten_verif)` hook
`rten_onnx::verif::DECODE_STEPS` maintains on the real code (one step per primitive `LimitReader`
read, one per string/bytes byte copied) and with the deepest nesting level of any invocation.

* `c38_counted_refines`: the instrumented decoder returns exactly `decodeFields`' result.
* `c38_steps_linear` / `c38_parse_steps_linear`: the total work is `≤ 2·(end − pos) + 1`, i.e.
  `≤ 2·|d| + 1` for a whole parse — whatever the outcome (message or error).
* `c38_depth_invariant` / `c38_parse_depth_le`: every `decodeFields` invocation in the call tree of a
  run started at depth `≤ maxDepth` has depth `≤ maxDepth` (= 100).
-/
namespace RtenVerif.Protobuf

/-- The instrumented decoder computes the same result as `decodeFields` (all arguments, no
hypotheses): the counters are pure observers. -/
theorem c38_counted_refines (S : Schema) (d : Bytes) :
    ∀ (fuel depth m : Nat) (pos end_ : UInt64) (acc : List (UInt64 × Val)),
      (decodeFieldsS S d fuel depth m pos end_ acc).res = decodeFields S d fuel depth m pos end_ acc := by
  intro fuel
  induction fuel with
  | zero => intro depth m pos end_ acc; rfl
  | succ fuel ih =>
    intro depth m pos end_ acc
    unfold decodeFieldsS decodeFields
    simp only []
    cases nextField d pos end_ with
    | done p => rfl
    | err e => rfl
    | field num fv p fend =>
      simp only []
      split
      · rename_i child hk
        cases fv with
        | len l =>
          simp only []
          split
          · rfl
          · cases lrSub p fend l with
            | error e => rfl
            | ok cend =>
              simp only []
              rw [ih (depth + 1) child p cend []]
              cases decodeFields S d fuel (depth + 1) child p cend [] with
              | error e => rfl
              | ok r =>
                obtain ⟨sub, p2⟩ := r
                simp only []
                exact ih depth m p2 end_ _
        | varint v => rfl
        | i64 v => rfl
        | sgroup => rfl
        | egroup => rfl
        | i32 v => rfl
      · rename_i k hk
        cases consumeField d fuel (S.lookup m num).kind fv p fend with
        | error e => rfl
        | ok r =>
          obtain ⟨v, p2⟩ := r
          simp only []
          exact ih depth m p2 end_ _

/-- **Linear work** (the "finishes in time linear in the input size" clause, on the model): decoding
the region `[pos, end_)` performs at most `2·(end_ − pos) + 1` counted steps — primitive reads plus
bytes copied — whether it ends in a message or an error. -/
theorem c38_steps_linear (S : Schema) {d : Bytes} (hsz : d.size < UInt64.size) :
    ∀ (fuel depth m : Nat) (pos end_ : UInt64) (acc : List (UInt64 × Val)),
      pos.toNat ≤ end_.toNat → end_.toNat ≤ d.size → end_.toNat - pos.toNat < fuel →
      (decodeFieldsS S d fuel depth m pos end_ acc).steps ≤ 2 * (end_.toNat - pos.toNat) + 1 := by
  intro fuel
  induction fuel with
  | zero => intro depth m pos end_ acc _ _ h; omega
  | succ fuel ih =>
    intro depth m pos end_ acc hpe hes hfuel
    have hN2 := nextFieldN_le_two d pos end_
    have hNl := nextFieldN_le_len hsz hpe hes
    unfold decodeFieldsS
    simp only []
    cases hn : nextField d pos end_ with
    | done p => simp only []; omega
    | err e => simp only []; omega
    | field num fv p fend =>
      simp only []
      have hf := nextField_field hsz hpe hes hn
      have hNf := nextFieldN_field hsz hpe hes hn
      split
      · rename_i child hk
        cases fv with
        | len l =>
          simp only []
          split
          · simp only []; omega
          · have hsub := lrSub_spec hsz (pos := p) (end_ := fend) hf.2.1 (by omega) l
            cases hs : lrSub p fend l with
            | error e => simp only []; omega
            | ok cend =>
              simp only []
              have hc := hsub.ok _ hs
              have ih1 := ih (depth + 1) child p cend [] (by omega) (by omega) (by omega)
              have ht := c38_decode_terminates S hsz fuel (depth + 1) child p cend []
                (by omega) (by omega) (by omega)
              rw [c38_counted_refines] at *
              cases hd : decodeFields S d fuel (depth + 1) child p cend [] with
              | error e => simp only []; omega
              | ok r =>
                obtain ⟨sub, p2⟩ := r
                simp only []
                have hp2 := ht.1 _ _ hd
                have ih2 := ih depth m p2 end_ ((num, .msg sub) :: acc) (by omega) hes (by omega)
                omega
        | varint v => simp only []; omega
        | i64 v => simp only []; omega
        | sgroup => simp only []; omega
        | egroup => simp only []; omega
        | i32 v => simp only []; omega
      · rename_i k hk
        have hc := consumeField_spec hsz (p := p) (fend := fend) hf.2.1 (by omega) fuel (by omega)
          (S.lookup m num).kind fv
        have hb := consumeSteps_spec hsz (p := p) (fend := fend) hf.2.1 (by omega) fuel (by omega)
          (S.lookup m num).kind fv
        cases hd : consumeField d fuel (S.lookup m num).kind fv p fend with
        | error e => simp only []; omega
        | ok r =>
          obtain ⟨v, p2⟩ := r
          simp only []
          have hp2 := hc.1 _ _ hd
          have hb2 := hb.2 _ _ hd
          have ih2 := ih depth m p2 end_ (pushVal acc num v) (by omega) hes (by omega)
          omega

/-- Whole-input form: `parseS` returns `parse`'s result and its work counter is `≤ 2·|d| + 1`. -/
theorem c38_parse_steps_linear (S : Schema) (d : Bytes) (root : Nat) (hsz : d.size < UInt64.size) :
    (parseS S d root).res = parse S d root ∧ (parseS S d root).steps ≤ 2 * d.size + 1 := by
  unfold parseS parse
  refine ⟨c38_counted_refines S d _ _ _ _ _ _, ?_⟩
  rw [c38_toplevel_end_is_input_size hsz]
  have hs := sizeU_toNat hsz
  have h0 : (0 : UInt64).toNat = 0 := rfl
  have := c38_steps_linear S hsz (d.size + 1) 0 root 0 (sizeU d) []
    (by rw [h0]; omega) (by omega) (by rw [h0, hs]; omega)
  rw [h0, hs] at this
  omega

/-- **Nesting invariant**: in the call tree of a run started at depth `≤ maxDepth`, every
`decodeFields` invocation has depth `≤ maxDepth` (`deepest` is the maximum over the tree, and is at
least the starting depth). No hypothesis on the input. -/
theorem c38_depth_invariant (S : Schema) (d : Bytes) :
    ∀ (fuel depth m : Nat) (pos end_ : UInt64) (acc : List (UInt64 × Val)), depth ≤ maxDepth →
      depth ≤ (decodeFieldsS S d fuel depth m pos end_ acc).deepest ∧
      (decodeFieldsS S d fuel depth m pos end_ acc).deepest ≤ maxDepth := by
  intro fuel
  induction fuel with
  | zero => intro depth m pos end_ acc h; exact ⟨Nat.le_refl _, h⟩
  | succ fuel ih =>
    intro depth m pos end_ acc hd
    unfold decodeFieldsS
    simp only []
    cases nextField d pos end_ with
    | done p => exact ⟨Nat.le_refl _, hd⟩
    | err e => exact ⟨Nat.le_refl _, hd⟩
    | field num fv p fend =>
      simp only []
      split
      · rename_i child hk
        cases fv with
        | len l =>
          simp only []
          split
          · exact ⟨Nat.le_refl _, hd⟩
          · rename_i hlt
            cases lrSub p fend l with
            | error e => exact ⟨Nat.le_refl _, hd⟩
            | ok cend =>
              simp only []
              have ih1 := ih (depth + 1) child p cend [] (by omega)
              cases hres : (decodeFieldsS S d fuel (depth + 1) child p cend []).res with
              | error e =>
                simp only []
                exact ⟨Nat.le_max_left _ _, Nat.max_le.mpr ⟨hd, ih1.2⟩⟩
              | ok r =>
                obtain ⟨sub, p2⟩ := r
                simp only []
                have ih2 := ih depth m p2 end_ ((num, .msg sub) :: acc) hd
                exact ⟨Nat.le_trans ih2.1 (Nat.le_max_right _ _), Nat.max_le.mpr ⟨ih1.2, ih2.2⟩⟩
        | varint v => exact ⟨Nat.le_refl _, hd⟩
        | i64 v => exact ⟨Nat.le_refl _, hd⟩
        | sgroup => exact ⟨Nat.le_refl _, hd⟩
        | egroup => exact ⟨Nat.le_refl _, hd⟩
        | i32 v => exact ⟨Nat.le_refl _, hd⟩
      · rename_i k hk
        cases consumeField d fuel (S.lookup m num).kind fv p fend with
        | error e => exact ⟨Nat.le_refl _, hd⟩
        | ok r =>
          obtain ⟨v, p2⟩ := r
          simp only []
          exact ih depth m p2 end_ _ hd

/-- No invocation reached from `parse` (any schema, any input) is nested deeper than 100. -/
theorem c38_parse_depth_le (S : Schema) (d : Bytes) (root : Nat) :
    (parseS S d root).deepest ≤ 100 :=
  (c38_depth_invariant S d _ 0 root _ _ [] (by decide)).2

/-! ## Non-vacuity -/

open RtenVerif.Generated.OnnxSchema in
/-- `3A 02 0A 00` (model → graph → node): 3 `Fields::next` calls with a header (2 reads each … the
node has none) and 3 end-of-message reads; depth 2 is reached. -/
example : (parseS schema exOk idModelProto).steps = 7 ∧ (parseS schema exOk idModelProto).deepest = 2 := by
  decide

end RtenVerif.Protobuf
