import RtenVerif.Props.C35Bounded6Defs

/-! C35.S3 bounded scope, chunk `l`: smallest code in `4..4`, second smallest in `4..15`
(kernel evaluation; bounded statement). -/
namespace RtenVerif.Poly

theorem c35_chunk6_l : chunkOk 4 4 4 15 = true := by decide +kernel

end RtenVerif.Poly
