import RtenVerif.Props.C10Eq

/-! # C10 — vector-level `Where` with its three-way cycling -/
namespace RtenVerif.ShapeInfer

theorem evalList_cycAux (σ : Env) : ∀ (n : Nat) (orig cur : List Sym) (vo vc : List Int),
    evalList σ orig = some vo → evalList σ cur = some vc →
    evalList σ (cycAux n orig cur) = some (cycAux n vo vc) := by
  intro n
  induction n with
  | zero => intro orig cur vo vc _ _; rfl
  | succ n ih =>
    intro orig cur vo vc ho hc
    cases cur with
    | nil =>
      simp only [evalList, mapO] at hc; cases hc
      cases orig with
      | nil => simp only [evalList, mapO] at ho; cases ho; rfl
      | cons o os =>
        obtain ⟨v, vs, hv, hvs, rfl⟩ := evalList_cons σ o os vo ho
        simp only [cycAux]
        exact evalList_cons_intro σ o _ v _ hv (ih (o :: os) os (v :: vs) vs ho hvs)
    | cons c cs =>
      obtain ⟨v, vs, hv, hvs, rfl⟩ := evalList_cons σ c cs vc hc
      simp only [cycAux]
      exact evalList_cons_intro σ c _ v _ hv (ih orig cs vo vs ho hvs)

theorem evalList_cycleTake (σ : Env) (n : Nat) (l : List Sym) (vl : List Int) (h : evalList σ l = some vl) :
    evalList σ (cycleTake n l) = some (cycleTake n vl) := evalList_cycAux σ n l l vl vl h h

/-- `cycleTake` is NumPy broadcasting of a rank-1 operand to length `n`: a full-length operand is
unchanged … -/
theorem cycAux_full {α : Type} : ∀ (cur orig : List α), cycAux cur.length orig cur = cur := by
  intro cur
  induction cur with
  | nil => intro orig; rfl
  | cons c cs ih => intro orig; simp [cycAux, ih]

theorem cycleTake_full {α : Type} (l : List α) : cycleTake l.length l = l := cycAux_full l l

/-- … and a length-1 operand is repeated `n` times. -/
theorem cycleTake_one {α : Type} (v : α) : ∀ n, cycleTake n [v] = List.replicate n v := by
  have aux : ∀ n, cycAux n [v] [] = List.replicate n v ∧ cycAux n [v] [v] = List.replicate n v := by
    intro n
    induction n with
    | zero => exact ⟨rfl, rfl⟩
    | succ n ih => exact ⟨by simp [cycAux, ih.1, List.replicate_succ], by simp [cycAux, ih.1, List.replicate_succ]⟩
  intro n; exact (aux n).2

theorem where_zip3 (σ : Env) : ∀ (cs xs ys : List Sym) (vc vx vy : List Int) (out : List Sym),
    evalList σ cs = some vc → evalList σ xs = some vx → evalList σ ys = some vy →
    mapO (fun (t : Sym × Sym × Sym) => whereElem (fun v => v != 0) t.1 t.2.1 t.2.2)
      (List.zip cs (List.zip xs ys)) = some out →
    evalList σ out = some ((List.zip vc (List.zip vx vy)).map
      fun (t : Int × Int × Int) => if t.1 ≠ 0 then t.2.1 else t.2.2) := by
  intro cs
  induction cs with
  | nil =>
    intro xs ys vc vx vy out hc _ _ hi
    simp only [evalList, mapO] at hc; cases hc
    simp only [List.zip_nil_left, mapO] at hi; cases hi
    rfl
  | cons c cs ih =>
    intro xs ys vc vx vy out hc hx hy hi
    obtain ⟨v, vcs, hcv, hcs, rfl⟩ := evalList_cons σ c cs vc hc
    cases xs with
    | nil =>
      simp only [evalList, mapO] at hx; cases hx
      simp only [List.zip_nil_left, List.zip_nil_right, mapO] at hi; cases hi
      simp [evalList, mapO]
    | cons x xs =>
      obtain ⟨wx, vxs, hxv, hxs, rfl⟩ := evalList_cons σ x xs vx hx
      cases ys with
      | nil =>
        simp only [evalList, mapO] at hy; cases hy
        simp only [List.zip_nil_right, mapO] at hi; cases hi
        simp [evalList, mapO]
      | cons y ys =>
        obtain ⟨wy, vys, hyv, hys, rfl⟩ := evalList_cons σ y ys vy hy
        simp only [List.zip_cons_cons, mapO] at hi
        cases he : whereElem (fun v => v != 0) c x y with
        | none => simp [he] at hi
        | some r =>
          simp only [he] at hi
          cases hr : mapO (fun (t : Sym × Sym × Sym) => whereElem (fun v => v != 0) t.1 t.2.1 t.2.2)
              (List.zip cs (List.zip xs ys)) with
          | none => simp [hr] at hi
          | some rs =>
            simp only [hr] at hi; cases hi
            have e1 := c10_where_elem_sound σ c x y r v wx wy hcv hxv hyv he
            have e2 := ih xs ys vcs vxs vys rs hcs hxs hys hr
            simpa using evalList_cons_intro σ r rs _ _ e1 e2

/-- **C10.T1-where (vector level)**: whenever `Where` decides every element, the inferred elements
evaluate to the executed selection, for all three-way combinations of operand lengths. -/
theorem c10_whereVals_sound (σ : Env) (cs xs ys : List Sym) (vc vx vy : List Int) (out : List Sym)
    (hc : evalList σ cs = some vc) (hx : evalList σ xs = some vx) (hy : evalList σ ys = some vy)
    (hi : whereVals (fun v => v != 0) cs xs ys = some out) : evalList σ out = some (cwhere vc vx vy) := by
  unfold whereVals at hi
  unfold cwhere
  rw [← evalList_length σ cs vc hc, ← evalList_length σ xs vx hx, ← evalList_length σ ys vy hy]
  exact where_zip3 σ _ _ _ _ _ _ out (evalList_cycleTake σ _ cs vc hc) (evalList_cycleTake σ _ xs vx hx)
    (evalList_cycleTake σ _ ys vy hy) hi

/-- **C10.T1-where (tensor level)**: for three value-carrying operands, if the value path of
`Where` (post-fix: `c ≠ 0`, three scalars give a scalar) produces a result, it agrees with the
executed tensor: a scalar for three scalars, otherwise the vector `cwhere`. -/
theorem c10_where_sound (σ : Env) (c x y : STn) (cv xv yv : List Sym) (vc vx vy : List Int) (out : List Sym)
    (hcv : c.values = some cv) (hxv : x.values = some xv) (hyv : y.values = some yv)
    (hc : evalList σ cv = some vc) (hx : evalList σ xv = some vx) (hy : evalList σ yv = some vy)
    (hw : whereVals (fun v => v != 0) cv xv yv = some out) :
    ∃ r, whereInfer (fun v => v != 0) true c x y = .ok r ∧
      ((∃ e v, r = .scalar e ∧ cwhere vc vx vy = [v] ∧ e.eval σ = some v) ∨
       (r = .vector out ∧ evalList σ out = some (cwhere vc vx vy))) := by
  have hs := c10_whereVals_sound σ cv xv yv vc vx vy out hc hx hy hw
  unfold whereInfer
  simp only [hcv, hxv, hyv, hw]
  by_cases hb : (true && c.isScalar && x.isScalar && y.isScalar) = true
  · simp only [hb, if_true]
    match out, hs, hw with
    | [v], hs, _ =>
      obtain ⟨w, ws, hv, hws, hcons⟩ := evalList_cons σ v [] _ hs
      simp only [evalList, mapO] at hws; cases hws
      exact ⟨_, rfl, Or.inl ⟨v, w, rfl, hcons, hv⟩⟩
    | [], hs, _ => exact ⟨_, rfl, Or.inr ⟨rfl, hs⟩⟩
    | _ :: _ :: _, hs, _ => exact ⟨_, rfl, Or.inr ⟨rfl, hs⟩⟩
  · simp only [hb, Bool.false_eq_true, if_false]
    exact ⟨_, rfl, Or.inr ⟨rfl, hs⟩⟩

/-- Non-vacuity: `Where([2, 0], [$a], [7, 8])` with `a = 5` infers `[$a, 8]`, executed `[5, 8]`. -/
example : whereVals (fun v => v != 0) [.val 2, .val 0] [.var "a" true] [.val 7, .val 8] = some [.var "a" true, .val 8] ∧
    cwhere [2, 0] [5] [7, 8] = [5, 8] := by decide

end RtenVerif.ShapeInfer
