import RtenVerif.Lemmas.OnnxRefBroadcast
/-!
# C15 — Operators conform to ONNX reference semantics (partial)

The reference (`Model/OnnxRef.lean`) is written from the ONNX specification text and is
compared exactly with rten by the harness. The theorems here are *specification-validating
laws*: algebraic facts every correct implementation of the ONNX text must satisfy, proved for
all inputs so that the oracle is not trusted blindly.
-/
namespace RtenVerif.OnnxRef

/-- L1. Broadcast shape is commutative. -/
theorem c15_bshape_comm (a b : List Nat) : bshape a b = bshape b a := bshape_comm a b

example : bshape [2, 1, 3] [4, 1] = some [2, 4, 3] := by decide
example : bshape [2, 3] [4, 3] = none := by decide

end RtenVerif.OnnxRef
