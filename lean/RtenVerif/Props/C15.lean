import RtenVerif.Lemmas.OnnxRefBroadcast
import RtenVerif.Lemmas.OnnxRefIndex
import RtenVerif.Lemmas.OnnxRefConcat
import RtenVerif.Lemmas.OnnxRefPad
import RtenVerif.Lemmas.OnnxRefSlice
import RtenVerif.Lemmas.OnnxRefWhere
import RtenVerif.Lemmas.OnnxRefArg
import RtenVerif.Lemmas.OnnxRefTranspose
import RtenVerif.Lemmas.OnnxRefGather
import RtenVerif.Lemmas.OnnxRefReshape
import RtenVerif.Lemmas.OnnxRefSqueeze
import RtenVerif.Lemmas.OnnxRefTile
import RtenVerif.Lemmas.OnnxRefCumSum
import RtenVerif.Lemmas.OnnxRefPool
import RtenVerif.Lemmas.OnnxRefSliceAxis
import RtenVerif.Lemmas.OnnxRefArith
import RtenVerif.Lemmas.OnnxRefSplit
import RtenVerif.Lemmas.OnnxRefTopK
import RtenVerif.Lemmas.OnnxRefIndexNorm
import RtenVerif.Lemmas.OnnxRefTrilu
import RtenVerif.Lemmas.OnnxRefSqueezeOp
/-!
# C15 — Operators conform to ONNX reference semantics (partial)

Full statement of the property (not provable here): *for every supported ONNX operator, attribute
setting and input the specification defines, `rten::Model::run` returns the tensor the ONNX reference
implementation returns.* Neither side is a Lean object: rten's kernels are Rust, and no ONNX reference
implementation exists in the sandbox. What is done instead:

* `Model/OnnxRef.lean` + `Model/OnnxRefRun.lean`: an executable reference of the integer / index
  semantics of about 60 operators, written from the specification text (trusted base);
* the harness compares rten with that reference EXACTLY on single-operator ONNX models;
* the theorems below are *specification-validating laws*: facts every correct reading of the ONNX text
  must satisfy, proved for ALL shapes / ranks / values, so that the oracle is not trusted blindly.
  They are stated on the very functions the driver executes (`bshape`, `build`/`get`, `concat2`,
  `narrow`, `padCore`, `sliceCore`, `broadcastTo`, `expand`, `binop`).

Float operators (unary math, Softmax, normalisations, Conv, pooling, Resize, …) are outside the model.
-/
namespace RtenVerif.OnnxRef

/-! ## Broadcasting -/

/-- L1. Multidirectional broadcasting of shapes is commutative (failure included). -/
theorem c15_bshape_comm (a b : List Nat) : bshape a b = bshape b a := bshape_comm a b

/-- L2. … and associative, with `none` (incompatible) propagating the same way on both sides. -/
theorem c15_bshape_assoc (a b c : List Nat) :
    (bshape a b).bind (fun s => bshape s c) = (bshape b c).bind (fun s => bshape a s) :=
  bshape_assoc a b c

example : bshape [2, 1, 3] [4, 1] = some [2, 4, 3] := by decide
example : bshape [2, 3] [4, 3] = none := by decide
example : (bshape [2, 1] [3]).bind (fun s => bshape s [4, 1, 1]) = some [4, 2, 3] := by decide

/-! ## Index form: `build` and `get` are inverse -/

/-- L3. The element of `build s f` at a valid index `idx` is `f idx` (row-major layout is coherent). -/
theorem c15_get_build (s : List Nat) (f : List Nat → Int) (idx : List Nat) (h : validIdx s idx = true) :
    (build s f).get idx = f idx := get_build s f idx h

/-- L4. A well-formed tensor is determined by its elements: rebuilding from `get` is the identity. -/
theorem c15_build_get (t : Tensor) (h : t.data.length = prod t.shape) : build t.shape t.get = t :=
  build_get t h

/-- L5. The enumeration of indices is exactly the row-major order: offsets are `0, 1, …, n-1`. -/
theorem c15_allIdx_row_major (s : List Nat) : (allIdx s).map (ravel s) = List.range (prod s) :=
  map_ravel_allIdx s

example : validIdx [2, 3] [1, 2] = true := by decide
example : (build [2, 2] (fun idx => (getN idx 0 : Int) * 10 + getN idx 1)).data = [0, 1, 10, 11] := by decide

/-! ## Concat / Split -/

/-- L6. `Concat(Split(x))` = `x`: splitting any well-formed tensor along any axis `ax` at any point `k`
and concatenating the two pieces along the same axis gives the tensor back. -/
theorem c15_concat_split (x : Tensor) (ax k : Nat) (hwf : x.data.length = prod x.shape)
    (hax : ax < x.shape.length) (hk : k ≤ getN x.shape ax) :
    concat2 ax (narrow x ax 0 k) (narrow x ax k (getN x.shape ax - k)) = x :=
  concat2_narrow x ax k hwf hax hk

example : let x : Tensor := ⟨[2, 3], [1, 2, 3, 4, 5, 6]⟩
    x.data.length = prod x.shape ∧ 1 < x.shape.length ∧ 1 ≤ getN x.shape 1 := by decide
example : (narrow ⟨[2, 3], [1, 2, 3, 4, 5, 6]⟩ 1 1 2).data = [2, 3, 5, 6] := by decide

/-! ## Pad / Slice -/

/-- L7. Padding (any mode, any constant) and then slicing the padding away (starts = begin pads,
steps 1, extent of the original) is the identity. -/
theorem c15_slice_pad (x : Tensor) (before : List Int) (outDims : List Nat) (mode : String) (c : Int)
    (hwf : x.data.length = prod x.shape)
    (hout : outDims.length = x.shape.length)
    (hnn : ∀ k, k < x.shape.length → 0 ≤ getI before k)
    (hfit : ∀ k, k < x.shape.length → getI before k + (getN x.shape k : Int) ≤ (getN outDims k : Int)) :
    sliceCore (padCore x before outDims mode c) before (List.replicate x.shape.length 1) x.shape = x :=
  slice_padCore x before outDims mode c hwf hout hnn hfit

example : (padCore ⟨[3], [1, 2, 3]⟩ [2] [6] "reflect" 0).data = [3, 2, 1, 2, 3, 2] := by decide
example : (sliceCore (padCore ⟨[3], [1, 2, 3]⟩ [2] [6] "edge" 0) [2] [1] [3]).data = [1, 2, 3] := by decide

/-- L8. Slice ∘ Slice is one Slice: starts compose affinely and steps multiply (steps of either
sign), whenever the second slice stays inside the extent of the first. -/
theorem c15_slice_slice (x : Tensor) (st1 sp1 st2 sp2 : List Int) (d1 d2 : List Nat)
    (hlen : d2.length = d1.length)
    (hin : ∀ idx, validIdx d2 idx = true → ∀ k, k < d1.length →
      0 ≤ getI st2 k + (getN idx k : Int) * getI sp2 k ∧
      getI st2 k + (getN idx k : Int) * getI sp2 k < (getN d1 k : Int)) :
    sliceCore (sliceCore x st1 sp1 d1) st2 sp2 d2 =
      sliceCore x ((List.range d1.length).map (fun k => getI st1 k + getI st2 k * getI sp1 k))
        ((List.range d1.length).map (fun k => getI sp1 k * getI sp2 k)) d2 :=
  sliceCore_sliceCore x st1 sp1 st2 sp2 d1 d2 hlen hin

-- x[8:0:-2] = [8,6,4,2] then [3:0:-1] → [2,4,6] = x[2:8:2]
example : (sliceCore (sliceCore ⟨[10], [0, 1, 2, 3, 4, 5, 6, 7, 8, 9]⟩ [8] [-2] [4]) [3] [-1] [3]).data = [2, 4, 6] := by
  decide
example : (sliceCore ⟨[10], [0, 1, 2, 3, 4, 5, 6, 7, 8, 9]⟩ [8 + 3 * -2] [-2 * -1] [3]).data = [2, 4, 6] := by decide

/-! ## Expand -/

/-- L9. Expanding (broadcasting) a tensor to its own shape is the identity. -/
theorem c15_expand_self (x : Tensor) (hwf : x.data.length = prod x.shape) : broadcastTo x x.shape = x :=
  broadcastTo_self x hwf

/-- L10. `Expand` = broadcast: `Expand(x, shape)` is the left projection of the broadcasting binary
operator applied to `x` and any tensor of shape `shape` (same result, same failure). -/
theorem c15_expand_eq_broadcast (x : Tensor) (sh : List Int) (y : Tensor) (hnn : sh.all (· ≥ 0) = true)
    (hy : y.shape = sh.map Int.toNat) : expand x sh = binop (fun v _ => v) x y :=
  expand_eq_binop x sh y hnn hy

example : (match expand ⟨[2, 1], [1, 2]⟩ [1, 3] with | .ok t => (t.shape, t.data) | .error _ => ([], []))
    = ([2, 3], [1, 1, 1, 2, 2, 2]) := by decide

/-! ## Transpose -/

/-- L11. Transposing with the identity permutation is the identity. -/
theorem c15_transpose_id (x : Tensor) (hwf : x.data.length = prod x.shape) :
    transposeP x (List.range x.shape.length) = x := transposeP_id x hwf

/-- L12. Composition: `Transpose(q) ∘ Transpose(p) = Transpose(k ↦ p[q[k]])` for permutations `p`, `q`. -/
theorem c15_transpose_comp (x : Tensor) (p q : List Nat)
    (hp : p.Perm (List.range x.shape.length)) (hq : q.Perm (List.range x.shape.length)) :
    transposeP (transposeP x p) q = transposeP x (q.map (getN p)) := transposeP_comp x p q hp hq

/-- L13. Involution: transposing by `p` then by its inverse `q` (`p[q[k]] = k`) gives the tensor back. -/
theorem c15_transpose_inverse (x : Tensor) (p q : List Nat) (hwf : x.data.length = prod x.shape)
    (hp : p.Perm (List.range x.shape.length)) (hq : q.Perm (List.range x.shape.length))
    (hinv : q.map (getN p) = List.range x.shape.length) :
    transposeP (transposeP x p) q = x := transposeP_inverse x p q hwf hp hq hinv

example : ([2, 0, 1] : List Nat).Perm (List.range 3) ∧ ([1, 2, 0] : List Nat).Perm (List.range 3) ∧
    ([1, 2, 0] : List Nat).map (getN [2, 0, 1]) = List.range 3 := by decide
example : (transposeP ⟨[2, 3], [1, 2, 3, 4, 5, 6]⟩ [1, 0]).data = [1, 4, 2, 5, 3, 6] := by decide

/-! ## Reductions -/

/-- L14. Reduce over all axes (axes omitted) = the fold `f` (sum, product, min, max, …) of the
row-major element sequence, with result shape `[]`, or `[1,…,1]` of the input's rank with keepdims. -/
theorem c15_reduce_all (f : List Int → Option Int) (x : Tensor) (v : Int) (keepdims : Bool)
    (hwf : x.data.length = prod x.shape) (hf : f x.data = some v) :
    reduce f x none keepdims false = .ok ⟨if keepdims then List.replicate x.rank 1 else [], [v]⟩ :=
  reduce_all f x v keepdims hwf hf

example : maxL [3, -1, 7, 2] = some 7 ∧ (fun l => some (sumI l)) [3, -1, 7, 2] = some (11 : Int) := by decide

/-- L15. ArgMax with `select_last_index = 0`: the returned index holds a maximum of the lane and every
earlier position holds a strictly smaller value — the least index among the maxima (the behaviour of
rten after fix 5e14f6c). -/
theorem c15_argmax_first (l : List Int) (i : Nat)
    (h : argBest (fun a b => decide (a > b)) false l = some i) :
    i < l.length ∧ (∀ j, j < l.length → getI l j ≤ getI l i) ∧ (∀ j, j < i → getI l j < getI l i) :=
  argBest_max_first l i h

example : argBest (fun a b => decide (a > b)) false [2, -3, 2] = some 0 := by decide
example : argBest (fun a b => decide (a > b)) true [2, -3, 2] = some 2 := by decide

/-! ## Where -/

/-- L16. `Where` with a constant (scalar) condition is the broadcast of the selected operand: the
broadcasting binary operator returning its first argument if the condition is true, else its second. -/
theorem c15_where_const (v : Int) (x y : Tensor) :
    whereOp (scalar v) x y = binop (fun a b => if v ≠ 0 then a else b) x y := whereOp_scalar v x y

example : (match whereOp (scalar 1) ⟨[2], [5, 6]⟩ ⟨[2, 1], [8, 9]⟩ with | .ok t => (t.shape, t.data) | .error _ => ([], []))
    = ([2, 2], [5, 6, 5, 6]) := by decide

/-! ## Gather -/

/-- L17. Gather (axis 0) with a permutation `p` of the rows and then with its inverse `q`
(`p[q[i]] = i`) is the identity. -/
theorem c15_gather_perm_inverse (x : Tensor) (d : Nat) (rest p q : List Nat) (hs : x.shape = d :: rest)
    (hwf : x.data.length = prod x.shape)
    (hp : ∀ a ∈ p, a < d) (hq : ∀ a ∈ q, a < p.length) (hql : q.length = d)
    (hinv : q.map (getN p) = List.range d) :
    (gather x ⟨[p.length], p.map Int.ofNat⟩ 0).bind (fun y => gather y ⟨[q.length], q.map Int.ofNat⟩ 0)
      = .ok x := gather_perm_inverse x d rest p q hs hwf hp hq hql hinv

example : (∀ a ∈ ([2, 0, 1] : List Nat), a < 3) ∧ (∀ a ∈ ([1, 2, 0] : List Nat), a < [2, 0, 1].length) ∧
    ([1, 2, 0] : List Nat).map (getN [2, 0, 1]) = List.range 3 := by decide
example : (match gather ⟨[3, 2], [1, 2, 3, 4, 5, 6]⟩ ⟨[3], [2, 0, 1]⟩ 0 with | .ok t => t.data | .error _ => [])
    = [5, 6, 1, 2, 3, 4] := by decide

/-! ## Reshape / Squeeze / Unsqueeze -/

/-- L18. The target shape `Reshape` computes (with `0` = copy the input dimension, one `-1` = infer,
`allowzero`) always has exactly the element count of the input shape. -/
theorem c15_reshape_count (inShape : List Nat) (spec : List Int) (allowzero : Bool) (out : List Nat)
    (h : reshapeDims inShape spec allowzero = .ok out) : prod out = prod inShape :=
  reshapeDims_prod inShape spec allowzero out h

/-- L19. `Reshape` preserves the row-major element sequence (and so well-formedness). -/
theorem c15_reshape_data (x y : Tensor) (spec : List Int) (allowzero : Bool)
    (h : reshape x spec allowzero = .ok y) : y.data = x.data ∧ prod y.shape = prod x.shape :=
  reshape_spec x y spec allowzero h

example : (match reshapeDims [2, 3, 4] [0, -1] false with | .ok s => s | .error _ => []) = [2, 12] := by decide
example : (match reshapeDims [2, 0] [0, 0] true with | .ok s => s | .error _ => [9]) = [0, 0] := by decide

/-- L20. `Squeeze(Unsqueeze(x, axes), axes) = x` on shapes (both operators leave the element sequence
untouched by definition): removing the inserted positions gives the original shape back, the result of
Unsqueeze has rank `r + |axes|`, and every inserted extent is 1 (so the Squeeze is legal). `hax` states
that the axes are distinct positions of the result. -/
theorem c15_squeeze_unsqueeze (s axes : List Nat)
    (hax : ((List.range (s.length + axes.length)).filter (fun j => axes.contains j)).length = axes.length) :
    removeAxes (insertOnes s 0 axes (s.length + axes.length)) axes = s ∧
    (insertOnes s 0 axes (s.length + axes.length)).length = s.length + axes.length ∧
    (∀ k, k < s.length + axes.length → axes.contains k = true →
      getN (insertOnes s 0 axes (s.length + axes.length)) k = 1) :=
  squeeze_unsqueeze_shape s axes hax

example : ((List.range ([2, 3].length + [3, 0].length)).filter (fun j => [3, 0].contains j)).length = [3, 0].length := by
  decide
example : insertOnes [2, 3] 0 [3, 0] 4 = [1, 2, 3, 1] ∧ removeAxes [1, 2, 3, 1] [3, 0] = [2, 3] := by decide

/-! ## Tile / CumSum -/

/-- L21. Tile = Concat of copies: tiling `k+1` times along `ax` (once along every other axis) is the
concatenation along `ax` of the `k`-fold tiling with one more copy of `x`. -/
theorem c15_tile_concat (x : Tensor) (reps : List Nat) (ax k : Nat)
    (hl : reps.length = x.shape.length) (hax : ax < x.shape.length)
    (hone : ∀ j, j < x.shape.length → j ≠ ax → getN reps j = 1) :
    tileCore x (reps.set ax (k + 1)) = concat2 ax (tileCore x (reps.set ax k)) x :=
  tile_succ x reps ax k hl hax hone

example : (tileCore ⟨[2, 2], [1, 2, 3, 4]⟩ [1, 2]).data = [1, 2, 1, 2, 3, 4, 3, 4] := by decide
example : (concat2 1 ⟨[2, 2], [1, 2, 3, 4]⟩ ⟨[2, 2], [1, 2, 3, 4]⟩).data = [1, 2, 1, 2, 3, 4, 3, 4] := by decide

/-- L22. `CumSum(reverse = 1)` = flip ∘ `CumSum(reverse = 0)` ∘ flip along the axis (inclusive and
exclusive variants); `flipAx` reverses the axis. -/
theorem c15_cumsum_reverse (x : Tensor) (ax : Nat) (excl : Bool) (hax : ax < x.shape.length) :
    cumsumCore x ax excl true = flipAx (cumsumCore (flipAx x ax) ax excl false) ax :=
  cumsum_reverse x ax excl hax

example : (cumsumCore ⟨[4], [1, 2, 3, 4]⟩ 0 false true).data = [10, 9, 7, 4] := by decide
example : (cumsumCore ⟨[4], [1, 2, 3, 4]⟩ 0 true true).data = [9, 7, 4, 0] := by decide
example : (flipAx ⟨[2, 2], [1, 2, 3, 4]⟩ 1).data = [2, 1, 4, 3] := by decide

/-! ## Pooling reference -/

/-- L23. AveragePool with a 1×…×1 kernel, unit strides / dilations and no padding is the identity (either
rounding mode, either `count_include_pad`): validates the window position and divisor of the reference. -/
theorem c15_avgpool_identity (x : Tensor) (n : Nat) (ceil cip : Bool) (hn : n ≥ 1)
    (hr : x.shape.length = n + 2) (hwf : x.data.length = prod x.shape)
    (hpos : ∀ a, a < n → getN (x.shape.drop 2) a ≥ 1) :
    pool "avg" x (List.replicate n 1) (List.replicate n 1) (List.replicate n 1) (List.replicate (2 * n) 0)
      ceil "NOTSET" cip 1 = .ok x :=
  avgPool_identity x n ceil cip hn hr hwf hpos

/-- L24. `Global{Max,Average}Pool` is the `{Max,Average}Pool` computation with kernel = the whole spatial
extent, unit strides, no padding (holds by construction of the reference; stated for completeness). -/
theorem c15_globalpool_is_pool (mode : String) (a : Attrs) (x : Tensor) (h3 : x.rank ≥ 3) :
    globalPoolOp mode a [some x] =
      (pool mode x (x.shape.drop 2) (List.replicate (x.shape.drop 2).length 1)
        (List.replicate (x.shape.drop 2).length 1) (List.replicate (2 * (x.shape.drop 2).length) 0)
        false "NOTSET" false (a.int "scale" 1)).map (fun r => [r]) :=
  globalPool_is_pool mode a x h3

example : (match pool "max" ⟨[1, 1, 4], [3, 9, 2, 5]⟩ [2] [2] [1] [0, 0] false "NOTSET" false 1 with
    | .ok t => (t.shape, t.data) | .error _ => ([], [])) = ([1, 1, 2], [9, 5]) := by decide
example : (match pool "avg" ⟨[1, 1, 3], [1, 2, 4]⟩ [2] [1] [1] [0, 0] false "NOTSET" false 2 with
    | .ok t => (t.shape, t.data) | .error _ => ([], [])) = ([1, 1, 2], [3, 6]) := by decide

/-! ## Laws on the functions where the ONNX index semantics live (audit round 1) -/

/-- L25. `Slice`, positive step: `sliceAxis` (negative starts/ends counted from the end, clamping into
`[0, dim]`, INT_MAX ends) selects exactly Python's `range(*slice(start, stop, step).indices(dim))`:
every selected index `s + k·step`, `k < len`, lies in `[s, e) ⊆ [0, dim)` and `s + len·step` is the first
index of the progression at or past the clamped end `e`. -/
theorem c15_slice_axis_pos (dim : Nat) (start stop step : Int) (hd : dim ≠ 0) (hs : step > 0) :
    let s := sliceStart dim start step
    let e := sliceStop dim stop step
    sliceAxis dim start stop step = (s, (sliceAxis dim start stop step).2) ∧
    0 ≤ s ∧ s ≤ dim ∧ 0 ≤ e ∧ e ≤ dim ∧
    (∀ k : Nat, k < (sliceAxis dim start stop step).2 → s ≤ s + k * step ∧ s + k * step < e) ∧
    e ≤ s + ((sliceAxis dim start stop step).2 : Int) * step :=
  sliceAxis_pos dim start stop step hd hs

/-- L26. `Slice`, negative step: start clamped into `[0, dim-1]`, end into `[-1, dim-1]`; every selected
index lies in `(e, s] ⊆ [0, dim)` and `s + len·step` is the first one at or below `e`. -/
theorem c15_slice_axis_neg (dim : Nat) (start stop step : Int) (hd : dim ≠ 0) (hs : step < 0) :
    let s := sliceStart dim start step
    let e := sliceStop dim stop step
    sliceAxis dim start stop step = (s, (sliceAxis dim start stop step).2) ∧
    0 ≤ s ∧ s ≤ (dim : Int) - 1 ∧ -1 ≤ e ∧ e ≤ (dim : Int) - 1 ∧
    (∀ k : Nat, k < (sliceAxis dim start stop step).2 → e < s + k * step ∧ s + k * step ≤ s) ∧
    s + ((sliceAxis dim start stop step).2 : Int) * step ≤ e :=
  sliceAxis_neg dim start stop step hd hs

/-- L27. Exporter idioms: `end ≥ dim` (INT_MAX) with step 1 slices to the end of the axis; `start ≥ dim-1`,
`end ≤ -dim-1` (INT_MIN) with step −1 reverses the whole axis. -/
theorem c15_slice_axis_idioms (dim : Nat) (start stop : Int) (hd : dim ≠ 0) :
    (0 ≤ start → start ≤ dim → (dim : Int) ≤ stop → sliceAxis dim start stop 1 = (start, (dim - start).toNat)) ∧
    ((dim : Int) - 1 ≤ start → stop ≤ -(dim : Int) - 1 → sliceAxis dim start stop (-1) = ((dim : Int) - 1, dim)) :=
  ⟨fun h0 h1 he => sliceAxis_to_end dim start stop hd h0 h1 he,
   fun h0 he => sliceAxis_full_reverse dim start stop hd h0 he⟩

example : sliceAxis 5 (-1) (-9223372036854775808) (-2) = (4, 3) := by decide
example : sliceAxis 5 1 9223372036854775807 2 = (1, 2) := by decide
example : sliceAxis 3 (-5) 5 (-1) = (0, 0) := by decide

/-- L28. `Div` / `Mod(fmod=1)` is the C pair: `x = y·q + r`, `|r| < |y|`, `r` has the sign of the dividend
(quotient truncated toward zero). -/
theorem c15_div_fmod (x y : Int) (hy : y ≠ 0) :
    x = y * divI x y + modI true x y ∧ (modI true x y).natAbs < y.natAbs ∧
    (0 ≤ x → 0 ≤ modI true x y) ∧ (x ≤ 0 → modI true x y ≤ 0) := div_fmod_spec x y hy

/-- L29. `Mod(fmod=0)` is Python `%`: `x = y·⌊x/y⌋ + r`, `|r| < |y|`, `r` has the sign of the divisor. -/
theorem c15_mod (x y : Int) (hy : y ≠ 0) :
    x = y * Int.fdiv x y + modI false x y ∧ (modI false x y).natAbs < y.natAbs ∧
    (0 < y → 0 ≤ modI false x y) ∧ (y < 0 → modI false x y ≤ 0) := mod_spec x y hy

example : divI (-7) 2 = -3 ∧ modI true (-7) 2 = -1 ∧ modI false (-7) 2 = 1 ∧ modI false 7 (-2) = -1 := by decide

/-- L30. `Pow` with a non-negative integer exponent is repeated multiplication. -/
theorem c15_pow (x : Int) (n : Nat) : powI x 0 = 1 ∧ powI x ((n : Int) + 1) = x * powI x n := pow_spec x n

/-- L31. `Clip`: result within `[lo, hi]`, unchanged if already inside, absent bounds do not constrain. -/
theorem c15_clip (lo hi v : Int) (h : lo ≤ hi) :
    lo ≤ clipI (some lo) (some hi) v ∧ clipI (some lo) (some hi) v ≤ hi ∧
    (lo ≤ v → v ≤ hi → clipI (some lo) (some hi) v = v) ∧
    clipI none none v = v ∧ clipI (some lo) none v = max v lo ∧ clipI none (some hi) v = min v hi :=
  clip_spec lo hi v h

/-- L32. `Range(start, limit, delta)`: `max(⌈(limit − start)/delta⌉, 0)` elements `start + i·delta`, each
strictly before `limit` in the direction of `delta`, and the next one is not. -/
theorem c15_range (start limit delta : Int) (t : Tensor) (hd : delta ≠ 0)
    (h : rangeOp start limit delta = .ok t) :
    t.shape = [t.data.length] ∧
    (∀ i : Nat, i < t.data.length → getI t.data i = start + i * delta ∧
      (0 < delta → getI t.data i < limit) ∧ (delta < 0 → limit < getI t.data i)) ∧
    (0 < delta → limit ≤ start + (t.data.length : Int) * delta) ∧
    (delta < 0 → start + (t.data.length : Int) * delta ≤ limit) := range_spec start limit delta t hd h

example : (match rangeOp 10 3 (-3) with | .ok t => t.data | .error _ => []) = [10, 7, 4] := by decide

/-- L33. Index rule of Gather / GatherElements / GatherND / Scatter*: `normIndex dim i` accepts exactly
`-dim ≤ i < dim` and returns `i`, or `i + dim` for negative `i`. -/
theorem c15_norm_index (dim : Nat) (i : Int) (k : Nat) :
    normIndex dim i = some k ↔
      (-(dim : Int) ≤ i ∧ i < dim ∧ (k : Int) = if i < 0 then i + dim else i) := normIndex_spec dim i k

/-- L34. Axis attributes (`axis`, `axes`): accepted exactly for `-rank ≤ a < rank`, negative counted from the back. -/
theorem c15_norm_axis (rank : Nat) (a : Int) (k : Nat) :
    normAxis rank a = .ok k ↔
      (-(rank : Int) ≤ a ∧ a < rank ∧ (k : Int) = if a < 0 then a + rank else a) := normAxis_spec rank a k

/-- L35. `Concat(Split(x, sizes)) = x` for ANY number of pieces whose sizes sum to the axis extent
(n-way version of L6; `concat` folds `concat2` over the pieces exactly like this). -/
theorem c15_concat_split_sizes (x : Tensor) (ax n : Nat) (ns : List Nat) (hwf : x.data.length = prod x.shape)
    (hax : ax < x.shape.length) (hsum : n + ns.foldr (· + ·) 0 = getN x.shape ax) :
    (splitSizes x ax ns n).foldl (concat2 ax) (narrow x ax 0 n) = x :=
  concat_splitSizes x ax n ns hwf hax hsum

/-- L36. TopK order: the lane is a permutation of the (value, index) pairs, sorted so that an earlier pair
has a strictly better value than a later one, or the same value and a lower index. -/
theorem c15_topk_order (largest : Bool) (l : List (Int × Nat)) :
    (sortBy (topkBefore largest) l).Perm l ∧
    (sortBy (topkBefore largest) l).Pairwise (fun a b =>
      (if largest then a.1 > b.1 else a.1 < b.1) ∨ (a.1 = b.1 ∧ a.2 ≤ b.2)) := topk_order largest l

example : sortBy (topkBefore true) [(3, 0), (1, 1), (3, 2), (9, 3)] = [(9, 3), (3, 0), (3, 2), (1, 1)] := by decide

/-- L37. NonZero lists the non-zero positions in row-major order (strictly increasing linear offsets),
exactly the valid indices whose element is non-zero. -/
theorem c15_nonzero_order (x : Tensor) :
    let hits := (allIdx x.shape).filter (fun idx => x.get idx != 0)
    (hits.map (ravel x.shape)).Pairwise (· < ·) ∧
    (∀ idx ∈ hits, validIdx x.shape idx = true ∧ x.get idx ≠ 0) ∧
    (∀ idx, validIdx x.shape idx = true → x.get idx ≠ 0 → idx ∈ hits) := nonZero_order x

/-- L38. Reduce with EXPLICIT axes (any order, positive or negative form) covering every axis = the fold
of the row-major data, shape `[]` / `[1,…,1]` (keepdims), regardless of `noop_with_empty_axes`. -/
theorem c15_reduce_explicit_full (f : List Int → Option Int) (x : Tensor) (axes : List Int) (ax : List Nat)
    (v : Int) (keepdims noop : Bool)
    (hwf : x.data.length = prod x.shape) (hf : f x.data = some v)
    (hnorm : normAxes x.rank axes = .ok ax) (hne : ax ≠ [])
    (hall : ∀ k, k < x.rank → ax.contains k = true) :
    reduce f x (some axes) keepdims noop = .ok ⟨if keepdims then List.replicate x.rank 1 else [], [v]⟩ :=
  reduce_explicit_full f x axes ax v keepdims noop hwf hf hnorm hne hall

example : (match normAxes 2 [-1, 0] with | .ok a => a | .error _ => []) = [1, 0] := by decide

/-- L39. Trilu: the upper triangle from diagonal `k` plus the lower triangle up to diagonal `k-1` is `x`. -/
theorem c15_trilu_partition (x : Tensor) (k : Int) (hwf : x.data.length = prod x.shape) (hr : x.rank ≥ 2) :
    (trilu x k true).bind (fun u => (trilu x (k - 1) false).bind (fun l => binop (· + ·) u l)) = .ok x :=
  trilu_partition x k hwf hr

/-- L40. On the operators themselves: if `Unsqueeze(x, axes)` succeeds (axes, possibly negative, normalise
against the OUTPUT rank to distinct positions) then `Squeeze(·, axes)` of the result succeeds and returns `x`. -/
theorem c15_squeeze_unsqueeze_op (x y : Tensor) (axes : List Int) (h : unsqueeze x axes = .ok y) :
    squeeze y (some axes) = .ok x := squeeze_unsqueeze_op x y axes h

example : (match unsqueeze ⟨[2, 3], [1, 2, 3, 4, 5, 6]⟩ [-1, 0] with | .ok t => t.shape | .error _ => []) = [1, 2, 3, 1] := by
  decide

end RtenVerif.OnnxRef
