import RtenVerif.Lemmas.OnnxRefBroadcast
import RtenVerif.Lemmas.OnnxRefIndex
import RtenVerif.Lemmas.OnnxRefConcat
import RtenVerif.Lemmas.OnnxRefPad
import RtenVerif.Lemmas.OnnxRefSlice
import RtenVerif.Lemmas.OnnxRefWhere
import RtenVerif.Lemmas.OnnxRefArg
import RtenVerif.Lemmas.OnnxRefTranspose
import RtenVerif.Lemmas.OnnxRefGather
import RtenVerif.Lemmas.OnnxRefReshape
import RtenVerif.Lemmas.OnnxRefSqueeze
import RtenVerif.Lemmas.OnnxRefTile
import RtenVerif.Lemmas.OnnxRefCumSum
import RtenVerif.Lemmas.OnnxRefPool
/-!
# C15 — Operators conform to ONNX reference semantics (partial)

Full statement of the property (not provable here): *for every supported ONNX operator, attribute
setting and input the specification defines, `rten::Model::run` returns the tensor the ONNX reference
implementation returns.* Neither side is a Lean object: rten's kernels are Rust, and no ONNX reference
implementation exists in the sandbox. What is done instead:

* `Model/OnnxRef.lean` + `Model/OnnxRefRun.lean`: an executable reference of the integer / index
  semantics of about 60 operators, written from the specification text (trusted base);
* the harness compares rten with that reference EXACTLY on single-operator ONNX models;
* the theorems below are *specification-validating laws*: facts every correct reading of the ONNX text
  must satisfy, proved for ALL shapes / ranks / values, so that the oracle is not trusted blindly.
  They are stated on the very functions the driver executes (`bshape`, `build`/`get`, `concat2`,
  `narrow`, `padCore`, `sliceCore`, `broadcastTo`, `expand`, `binop`).

Float operators (unary math, Softmax, normalisations, Conv, pooling, Resize, …) are outside the model.
-/
namespace RtenVerif.OnnxRef

/-! ## Broadcasting -/

/-- L1. Multidirectional broadcasting of shapes is commutative (failure included). -/
theorem c15_bshape_comm (a b : List Nat) : bshape a b = bshape b a := bshape_comm a b

/-- L2. … and associative, with `none` (incompatible) propagating the same way on both sides. -/
theorem c15_bshape_assoc (a b c : List Nat) :
    (bshape a b).bind (fun s => bshape s c) = (bshape b c).bind (fun s => bshape a s) :=
  bshape_assoc a b c

example : bshape [2, 1, 3] [4, 1] = some [2, 4, 3] := by decide
example : bshape [2, 3] [4, 3] = none := by decide
example : (bshape [2, 1] [3]).bind (fun s => bshape s [4, 1, 1]) = some [4, 2, 3] := by decide

/-! ## Index form: `build` and `get` are inverse -/

/-- L3. The element of `build s f` at a valid index `idx` is `f idx` (row-major layout is coherent). -/
theorem c15_get_build (s : List Nat) (f : List Nat → Int) (idx : List Nat) (h : validIdx s idx = true) :
    (build s f).get idx = f idx := get_build s f idx h

/-- L4. A well-formed tensor is determined by its elements: rebuilding from `get` is the identity. -/
theorem c15_build_get (t : Tensor) (h : t.data.length = prod t.shape) : build t.shape t.get = t :=
  build_get t h

/-- L5. The enumeration of indices is exactly the row-major order: offsets are `0, 1, …, n-1`. -/
theorem c15_allIdx_row_major (s : List Nat) : (allIdx s).map (ravel s) = List.range (prod s) :=
  map_ravel_allIdx s

example : validIdx [2, 3] [1, 2] = true := by decide
example : (build [2, 2] (fun idx => (getN idx 0 : Int) * 10 + getN idx 1)).data = [0, 1, 10, 11] := by decide

/-! ## Concat / Split -/

/-- L6. `Concat(Split(x))` = `x`: splitting any well-formed tensor along any axis `ax` at any point `k`
and concatenating the two pieces along the same axis gives the tensor back. -/
theorem c15_concat_split (x : Tensor) (ax k : Nat) (hwf : x.data.length = prod x.shape)
    (hax : ax < x.shape.length) (hk : k ≤ getN x.shape ax) :
    concat2 ax (narrow x ax 0 k) (narrow x ax k (getN x.shape ax - k)) = x :=
  concat2_narrow x ax k hwf hax hk

example : let x : Tensor := ⟨[2, 3], [1, 2, 3, 4, 5, 6]⟩
    x.data.length = prod x.shape ∧ 1 < x.shape.length ∧ 1 ≤ getN x.shape 1 := by decide
example : (narrow ⟨[2, 3], [1, 2, 3, 4, 5, 6]⟩ 1 1 2).data = [2, 3, 5, 6] := by decide

/-! ## Pad / Slice -/

/-- L7. Padding (any mode, any constant) and then slicing the padding away (starts = begin pads,
steps 1, extent of the original) is the identity. -/
theorem c15_slice_pad (x : Tensor) (before : List Int) (outDims : List Nat) (mode : String) (c : Int)
    (hwf : x.data.length = prod x.shape)
    (hout : outDims.length = x.shape.length)
    (hnn : ∀ k, k < x.shape.length → 0 ≤ getI before k)
    (hfit : ∀ k, k < x.shape.length → getI before k + (getN x.shape k : Int) ≤ (getN outDims k : Int)) :
    sliceCore (padCore x before outDims mode c) before (List.replicate x.shape.length 1) x.shape = x :=
  slice_padCore x before outDims mode c hwf hout hnn hfit

example : (padCore ⟨[3], [1, 2, 3]⟩ [2] [6] "reflect" 0).data = [3, 2, 1, 2, 3, 2] := by decide
example : (sliceCore (padCore ⟨[3], [1, 2, 3]⟩ [2] [6] "edge" 0) [2] [1] [3]).data = [1, 2, 3] := by decide

/-- L8. Slice ∘ Slice is one Slice: starts compose affinely and steps multiply (steps of either
sign), whenever the second slice stays inside the extent of the first. -/
theorem c15_slice_slice (x : Tensor) (st1 sp1 st2 sp2 : List Int) (d1 d2 : List Nat)
    (hlen : d2.length = d1.length)
    (hin : ∀ idx, validIdx d2 idx = true → ∀ k, k < d1.length →
      0 ≤ getI st2 k + (getN idx k : Int) * getI sp2 k ∧
      getI st2 k + (getN idx k : Int) * getI sp2 k < (getN d1 k : Int)) :
    sliceCore (sliceCore x st1 sp1 d1) st2 sp2 d2 =
      sliceCore x ((List.range d1.length).map (fun k => getI st1 k + getI st2 k * getI sp1 k))
        ((List.range d1.length).map (fun k => getI sp1 k * getI sp2 k)) d2 :=
  sliceCore_sliceCore x st1 sp1 st2 sp2 d1 d2 hlen hin

-- x[8:0:-2] = [8,6,4,2] then [3:0:-1] → [2,4,6] = x[2:8:2]
example : (sliceCore (sliceCore ⟨[10], [0, 1, 2, 3, 4, 5, 6, 7, 8, 9]⟩ [8] [-2] [4]) [3] [-1] [3]).data = [2, 4, 6] := by
  decide
example : (sliceCore ⟨[10], [0, 1, 2, 3, 4, 5, 6, 7, 8, 9]⟩ [8 + 3 * -2] [-2 * -1] [3]).data = [2, 4, 6] := by decide

/-! ## Expand -/

/-- L9. Expanding (broadcasting) a tensor to its own shape is the identity. -/
theorem c15_expand_self (x : Tensor) (hwf : x.data.length = prod x.shape) : broadcastTo x x.shape = x :=
  broadcastTo_self x hwf

/-- L10. `Expand` = broadcast: `Expand(x, shape)` is the left projection of the broadcasting binary
operator applied to `x` and any tensor of shape `shape` (same result, same failure). -/
theorem c15_expand_eq_broadcast (x : Tensor) (sh : List Int) (y : Tensor) (hnn : sh.all (· ≥ 0) = true)
    (hy : y.shape = sh.map Int.toNat) : expand x sh = binop (fun v _ => v) x y :=
  expand_eq_binop x sh y hnn hy

example : (match expand ⟨[2, 1], [1, 2]⟩ [1, 3] with | .ok t => (t.shape, t.data) | .error _ => ([], []))
    = ([2, 3], [1, 1, 1, 2, 2, 2]) := by decide

/-! ## Transpose -/

/-- L11. Transposing with the identity permutation is the identity. -/
theorem c15_transpose_id (x : Tensor) (hwf : x.data.length = prod x.shape) :
    transposeP x (List.range x.shape.length) = x := transposeP_id x hwf

/-- L12. Composition: `Transpose(q) ∘ Transpose(p) = Transpose(k ↦ p[q[k]])` for permutations `p`, `q`. -/
theorem c15_transpose_comp (x : Tensor) (p q : List Nat)
    (hp : p.Perm (List.range x.shape.length)) (hq : q.Perm (List.range x.shape.length)) :
    transposeP (transposeP x p) q = transposeP x (q.map (getN p)) := transposeP_comp x p q hp hq

/-- L13. Involution: transposing by `p` then by its inverse `q` (`p[q[k]] = k`) gives the tensor back. -/
theorem c15_transpose_inverse (x : Tensor) (p q : List Nat) (hwf : x.data.length = prod x.shape)
    (hp : p.Perm (List.range x.shape.length)) (hq : q.Perm (List.range x.shape.length))
    (hinv : q.map (getN p) = List.range x.shape.length) :
    transposeP (transposeP x p) q = x := transposeP_inverse x p q hwf hp hq hinv

example : ([2, 0, 1] : List Nat).Perm (List.range 3) ∧ ([1, 2, 0] : List Nat).Perm (List.range 3) ∧
    ([1, 2, 0] : List Nat).map (getN [2, 0, 1]) = List.range 3 := by decide
example : (transposeP ⟨[2, 3], [1, 2, 3, 4, 5, 6]⟩ [1, 0]).data = [1, 4, 2, 5, 3, 6] := by decide

/-! ## Reductions -/

/-- L14. Reduce over all axes (axes omitted) = the fold `f` (sum, product, min, max, …) of the
row-major element sequence, with result shape `[]`, or `[1,…,1]` of the input's rank with keepdims. -/
theorem c15_reduce_all (f : List Int → Option Int) (x : Tensor) (v : Int) (keepdims : Bool)
    (hwf : x.data.length = prod x.shape) (hf : f x.data = some v) :
    reduce f x none keepdims false = .ok ⟨if keepdims then List.replicate x.rank 1 else [], [v]⟩ :=
  reduce_all f x v keepdims hwf hf

example : maxL [3, -1, 7, 2] = some 7 ∧ (fun l => some (sumI l)) [3, -1, 7, 2] = some (11 : Int) := by decide

/-- L15. ArgMax with `select_last_index = 0`: the returned index holds a maximum of the lane and every
earlier position holds a strictly smaller value — the least index among the maxima (the behaviour of
rten after fix 5e14f6c). -/
theorem c15_argmax_first (l : List Int) (i : Nat)
    (h : argBest (fun a b => decide (a > b)) false l = some i) :
    i < l.length ∧ (∀ j, j < l.length → getI l j ≤ getI l i) ∧ (∀ j, j < i → getI l j < getI l i) :=
  argBest_max_first l i h

example : argBest (fun a b => decide (a > b)) false [2, -3, 2] = some 0 := by decide
example : argBest (fun a b => decide (a > b)) true [2, -3, 2] = some 2 := by decide

/-! ## Where -/

/-- L16. `Where` with a constant (scalar) condition is the broadcast of the selected operand: the
broadcasting binary operator returning its first argument if the condition is true, else its second. -/
theorem c15_where_const (v : Int) (x y : Tensor) :
    whereOp (scalar v) x y = binop (fun a b => if v ≠ 0 then a else b) x y := whereOp_scalar v x y

example : (match whereOp (scalar 1) ⟨[2], [5, 6]⟩ ⟨[2, 1], [8, 9]⟩ with | .ok t => (t.shape, t.data) | .error _ => ([], []))
    = ([2, 2], [5, 6, 5, 6]) := by decide

/-! ## Gather -/

/-- L17. Gather (axis 0) with a permutation `p` of the rows and then with its inverse `q`
(`p[q[i]] = i`) is the identity. -/
theorem c15_gather_perm_inverse (x : Tensor) (d : Nat) (rest p q : List Nat) (hs : x.shape = d :: rest)
    (hwf : x.data.length = prod x.shape)
    (hp : ∀ a ∈ p, a < d) (hq : ∀ a ∈ q, a < p.length) (hql : q.length = d)
    (hinv : q.map (getN p) = List.range d) :
    (gather x ⟨[p.length], p.map Int.ofNat⟩ 0).bind (fun y => gather y ⟨[q.length], q.map Int.ofNat⟩ 0)
      = .ok x := gather_perm_inverse x d rest p q hs hwf hp hq hql hinv

example : (∀ a ∈ ([2, 0, 1] : List Nat), a < 3) ∧ (∀ a ∈ ([1, 2, 0] : List Nat), a < [2, 0, 1].length) ∧
    ([1, 2, 0] : List Nat).map (getN [2, 0, 1]) = List.range 3 := by decide
example : (match gather ⟨[3, 2], [1, 2, 3, 4, 5, 6]⟩ ⟨[3], [2, 0, 1]⟩ 0 with | .ok t => t.data | .error _ => [])
    = [5, 6, 1, 2, 3, 4] := by decide

/-! ## Reshape / Squeeze / Unsqueeze -/

/-- L18. The target shape `Reshape` computes (with `0` = copy the input dimension, one `-1` = infer,
`allowzero`) always has exactly the element count of the input shape. -/
theorem c15_reshape_count (inShape : List Nat) (spec : List Int) (allowzero : Bool) (out : List Nat)
    (h : reshapeDims inShape spec allowzero = .ok out) : prod out = prod inShape :=
  reshapeDims_prod inShape spec allowzero out h

/-- L19. `Reshape` preserves the row-major element sequence (and so well-formedness). -/
theorem c15_reshape_data (x y : Tensor) (spec : List Int) (allowzero : Bool)
    (h : reshape x spec allowzero = .ok y) : y.data = x.data ∧ prod y.shape = prod x.shape :=
  reshape_spec x y spec allowzero h

example : (match reshapeDims [2, 3, 4] [0, -1] false with | .ok s => s | .error _ => []) = [2, 12] := by decide
example : (match reshapeDims [2, 0] [0, 0] true with | .ok s => s | .error _ => [9]) = [0, 0] := by decide

/-- L20. `Squeeze(Unsqueeze(x, axes), axes) = x` on shapes (both operators leave the element sequence
untouched by definition): removing the inserted positions gives the original shape back, the result of
Unsqueeze has rank `r + |axes|`, and every inserted extent is 1 (so the Squeeze is legal). `hax` states
that the axes are distinct positions of the result. -/
theorem c15_squeeze_unsqueeze (s axes : List Nat)
    (hax : ((List.range (s.length + axes.length)).filter (fun j => axes.contains j)).length = axes.length) :
    removeAxes (insertOnes s 0 axes (s.length + axes.length)) axes = s ∧
    (insertOnes s 0 axes (s.length + axes.length)).length = s.length + axes.length ∧
    (∀ k, k < s.length + axes.length → axes.contains k = true →
      getN (insertOnes s 0 axes (s.length + axes.length)) k = 1) :=
  squeeze_unsqueeze_shape s axes hax

example : ((List.range ([2, 3].length + [3, 0].length)).filter (fun j => [3, 0].contains j)).length = [3, 0].length := by
  decide
example : insertOnes [2, 3] 0 [3, 0] 4 = [1, 2, 3, 1] ∧ removeAxes [1, 2, 3, 1] [3, 0] = [2, 3] := by decide

/-! ## Tile / CumSum -/

/-- L21. Tile = Concat of copies: tiling `k+1` times along `ax` (once along every other axis) is the
concatenation along `ax` of the `k`-fold tiling with one more copy of `x`. -/
theorem c15_tile_concat (x : Tensor) (reps : List Nat) (ax k : Nat)
    (hl : reps.length = x.shape.length) (hax : ax < x.shape.length)
    (hone : ∀ j, j < x.shape.length → j ≠ ax → getN reps j = 1) :
    tileCore x (reps.set ax (k + 1)) = concat2 ax (tileCore x (reps.set ax k)) x :=
  tile_succ x reps ax k hl hax hone

example : (tileCore ⟨[2, 2], [1, 2, 3, 4]⟩ [1, 2]).data = [1, 2, 1, 2, 3, 4, 3, 4] := by decide
example : (concat2 1 ⟨[2, 2], [1, 2, 3, 4]⟩ ⟨[2, 2], [1, 2, 3, 4]⟩).data = [1, 2, 1, 2, 3, 4, 3, 4] := by decide

/-- L22. `CumSum(reverse = 1)` = flip ∘ `CumSum(reverse = 0)` ∘ flip along the axis (inclusive and
exclusive variants); `flipAx` reverses the axis. -/
theorem c15_cumsum_reverse (x : Tensor) (ax : Nat) (excl : Bool) (hax : ax < x.shape.length) :
    cumsumCore x ax excl true = flipAx (cumsumCore (flipAx x ax) ax excl false) ax :=
  cumsum_reverse x ax excl hax

example : (cumsumCore ⟨[4], [1, 2, 3, 4]⟩ 0 false true).data = [10, 9, 7, 4] := by decide
example : (cumsumCore ⟨[4], [1, 2, 3, 4]⟩ 0 true true).data = [9, 7, 4, 0] := by decide
example : (flipAx ⟨[2, 2], [1, 2, 3, 4]⟩ 1).data = [2, 1, 4, 3] := by decide

/-! ## Pooling reference -/

/-- L23. AveragePool with a 1×…×1 kernel, unit strides / dilations and no padding is the identity (either
rounding mode, either `count_include_pad`): validates the window position and divisor of the reference. -/
theorem c15_avgpool_identity (x : Tensor) (n : Nat) (ceil cip : Bool) (hn : n ≥ 1)
    (hr : x.shape.length = n + 2) (hwf : x.data.length = prod x.shape)
    (hpos : ∀ a, a < n → getN (x.shape.drop 2) a ≥ 1) :
    pool "avg" x (List.replicate n 1) (List.replicate n 1) (List.replicate n 1) (List.replicate (2 * n) 0)
      ceil "NOTSET" cip 1 = .ok x :=
  avgPool_identity x n ceil cip hn hr hwf hpos

/-- L24. `Global{Max,Average}Pool` is the `{Max,Average}Pool` computation with kernel = the whole spatial
extent, unit strides, no padding (holds by construction of the reference; stated for completeness). -/
theorem c15_globalpool_is_pool (mode : String) (a : Attrs) (x : Tensor) (h3 : x.rank ≥ 3) :
    globalPoolOp mode a [some x] =
      (pool mode x (x.shape.drop 2) (List.replicate (x.shape.drop 2).length 1)
        (List.replicate (x.shape.drop 2).length 1) (List.replicate (2 * (x.shape.drop 2).length) 0)
        false "NOTSET" false (a.int "scale" 1)).map (fun r => [r]) :=
  globalPool_is_pool mode a x h3

example : (match pool "max" ⟨[1, 1, 4], [3, 9, 2, 5]⟩ [2] [2] [1] [0, 0] false "NOTSET" false 1 with
    | .ok t => (t.shape, t.data) | .error _ => ([], [])) = ([1, 1, 2], [9, 5]) := by decide
example : (match pool "avg" ⟨[1, 1, 3], [1, 2, 4]⟩ [2] [1] [1] [0, 0] false "NOTSET" false 2 with
    | .ok t => (t.shape, t.data) | .error _ => ([], [])) = ([1, 1, 2], [3, 6]) := by decide

end RtenVerif.OnnxRef
