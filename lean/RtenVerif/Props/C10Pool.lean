import RtenVerif.Model.PoolSize
import RtenVerif.Lemmas.ShapeInferRange

/-!
# C10 — conv / pool output size: inference agrees with the executor
-/
namespace RtenVerif.ShapeInfer

/-- The arithmetic heart: `min(c + 1, max(c, ⌈I / s⌉))` is `c` when `c * s ≥ I` (the executor
drops the last position) and `c + 1` otherwise, for every `c` and every `I ≥ 0`. -/
theorem pool_clamp (c I s : Nat) (hs : 0 < s) :
    Nat.min (c + 1) (Nat.max c ((I + s - 1) / s)) = if c * s ≥ I then c else c + 1 := by
  have h1 : c * s ≥ I → (I + s - 1) / s ≤ c := fun h => by
    have : (I + s - 1) / s < c + 1 := (Nat.div_lt_iff_lt_mul hs).mpr (by rw [Nat.add_mul]; omega)
    omega
  have h2 : ¬ c * s ≥ I → c + 1 ≤ (I + s - 1) / s := fun h =>
    (Nat.le_div_iff_mul_le hs).mpr (by rw [Nat.add_mul]; omega)
  generalize (I + s - 1) / s = q at *
  generalize c * s = cs at *
  simp only [Nat.min_def, Nat.max_def]
  by_cases h : cs ≥ I
  · have := h1 h; simp only [h, if_true]; (repeat' split) <;> omega
  · have := h2 h; simp only [h, if_false]; (repeat' split) <;> omega

theorem tdiv_natCast (a b : Nat) : tdiv (a : Int) (b : Int) = ((a / b : Nat) : Int) := by
  unfold tdiv
  rw [Int.tdiv_eq_ediv_of_nonneg (Int.natCast_nonneg a)]
  exact (Int.natCast_ediv a b).symm

theorem nat_ceil_div (w s : Nat) (hs : 0 < s) : (w + s - 1) / s = w / s + (if w % s = 0 then 0 else 1) := by
  have hw := Nat.div_add_mod w s
  have hlt := Nat.mod_lt w hs
  by_cases hr : w % s = 0
  · simp only [hr, if_true, Nat.add_zero]
    have e : w + s - 1 = s * (w / s) + (s - 1) := by
      generalize s * (w / s) = q at *; omega
    rw [e, Nat.mul_add_div hs, Nat.div_eq_of_lt (show s - 1 < s by omega)]; simp
  · simp only [hr, if_false]
    have e : w + s - 1 = s * (w / s) + (s + (w % s - 1)) := by
      generalize s * (w / s) = q at *; omega
    rw [e, Nat.mul_add_div hs, Nat.add_div_left _ hs, Nat.div_eq_of_lt (show w % s - 1 < s by omega)]

theorem cdiv_natCast (a b : Nat) (hb : 0 < b) : cdiv (a : Int) (b : Int) = (((a + b - 1) / b : Nat) : Int) := by
  unfold cdiv
  have h1 : Int.tdiv (a : Int) (b : Int) = ((a / b : Nat) : Int) := tdiv_natCast a b
  have h2 : Int.tmod (a : Int) (b : Int) = ((a % b : Nat) : Int) := by
    rw [Int.tmod_eq_emod_of_nonneg (Int.natCast_nonneg a)]; exact (Int.natCast_emod a b).symm
  rw [nat_ceil_div a b hb]
  have hsign : (decide ((a : Int) < 0) == decide ((b : Int) < 0)) = true := by
    have ha : ¬ ((a : Int) < 0) := by omega
    have hb' : ¬ ((b : Int) < 0) := by omega
    simp [ha, hb']
  show (if (Int.tmod (a : Int) (b : Int) != 0) = true then
      (if (decide ((a : Int) < 0) == decide ((b : Int) < 0)) = true then Int.tdiv (a : Int) (b : Int) + 1 else Int.tdiv (a : Int) (b : Int))
      else Int.tdiv (a : Int) (b : Int)) = _
  rw [h1, h2, hsign]
  by_cases hr : a % b = 0
  · simp [hr]
  · have hne : (((a % b : Nat) : Int) != 0) = true := by
      simp only [bne_iff_ne, ne_eq]; omega
    rw [if_pos hne]
    simp only [if_true, hr, if_false]
    omega

/-- **C10.T1-pool (output size)** — for every input size, kernel, stride, dilation and paddings
(`stride, kernel, dilation ≥ 1`), whenever the executor accepts the configuration, the value of the
inferred size expression is exactly the executed size, in floor and in ceil mode. -/
theorem c10_pool_output_size_agrees (inp k s d ps pe : Nat) (ceil : Bool) (n : Nat)
    (hs : 1 ≤ s) (hk : 1 ≤ k) (hd : 1 ≤ d)
    (he : poolExecSize inp k s d ps pe ceil = some n) :
    poolInferSize inp k s d ps pe ceil = n := by
  unfold poolExecSize at he
  simp only at he
  by_cases hsmall : inp + ps + pe < k + (k - 1) * (d - 1)
  · simp [hsmall] at he
  · simp only [hsmall, if_false] at he
    -- the windowed size is a natural number
    have hdk : k + (k - 1) * (d - 1) = d * (k - 1) + 1 := by
      obtain ⟨k', rfl⟩ : ∃ k', k = k' + 1 := ⟨k - 1, by omega⟩
      obtain ⟨d', rfl⟩ : ∃ d', d = d' + 1 := ⟨d - 1, by omega⟩
      simp only [Nat.add_sub_cancel]
      rw [Nat.add_mul, Nat.mul_comm k' d']; omega
    have hge : d * (k - 1) + 1 ≤ inp + ps + pe := by omega
    have hw : ((inp : Int) + ps + pe - (d : Int) * ((k : Int) - 1) - 1) = ((inp + ps + pe - d * (k - 1) - 1 : Nat) : Int) := by
      have : ((k : Int) - 1) = ((k - 1 : Nat) : Int) := by omega
      rw [this, ← Int.natCast_mul]
      omega
    unfold poolInferSize
    simp only [hw]
    cases ceil with
    | false =>
      simp only [Bool.not_false, if_true, Bool.false_and, Bool.false_eq_true, if_false, Option.some.injEq] at he ⊢
      rw [tdiv_natCast]; omega
    | true =>
      simp only [Bool.not_true, Bool.false_eq_true, if_false, if_true, Bool.true_and, decide_eq_true_eq,
        Nat.add_sub_cancel] at he ⊢
      have hI : ((inp : Int) + ps) = ((inp + ps : Nat) : Int) := by omega
      rw [cdiv_natCast _ s (by omega), hI, cdiv_natCast _ s (by omega)]
      have key := pool_clamp ((inp + ps + pe - d * (k - 1) - 1 + s - 1) / s) (inp + ps) s (by omega)
      have cast : (Min.min ((((inp + ps + pe - d * (k - 1) - 1 + s - 1) / s : Nat) : Int) + 1)
          (Max.max (((inp + ps + pe - d * (k - 1) - 1 + s - 1) / s : Nat) : Int) (((inp + ps + s - 1) / s : Nat) : Int)))
          = ((Nat.min ((inp + ps + pe - d * (k - 1) - 1 + s - 1) / s + 1)
              (Nat.max ((inp + ps + pe - d * (k - 1) - 1 + s - 1) / s) ((inp + ps + s - 1) / s)) : Nat) : Int) := by
        simp only [Nat.min_def, Nat.max_def]; (repeat' split) <;> omega
      rw [cast, key]
      by_cases hc : (inp + ps + pe - d * (k - 1) - 1 + s - 1) / s * s ≥ inp + ps
      · simp only [hc, if_true, Option.some.injEq] at he ⊢; omega
      · simp only [hc, if_false, Option.some.injEq] at he ⊢; omega

/-- Finding `C10-pool-ceil-empty-input` (fixed): with the limit written `(in + pad_start - 1) / stride + 1`
an EMPTY input axis without start padding gave 1 where the executor produces 0, because `/`
truncates `(0 - 1) / 2` to 0 (`in = 0, k = 1, s = 2, pads = (0, 1), ceil_mode`); `div_ceil` is right. -/
theorem c10_pool_empty_input_false :
    poolInferSizeTrunc 0 1 2 1 0 1 = 1 ∧ poolExecSize 0 1 2 1 0 1 true = some 0 ∧
    poolInferSize 0 1 2 1 0 1 true = 0 := by decide

/-- Before fix 1c9e5a4 the clamp could drop more than one position: `in = 4, k = 1, s = 1,
pads = (0, 2), ceil_mode` is inferred as 4 but executes to 5. -/
theorem c10_pool_old_rule_false :
    poolInferSizeOld 4 1 1 1 0 2 = 4 ∧ poolExecSize 4 1 1 1 0 2 true = some 5 ∧ poolInferSize 4 1 1 1 0 2 true = 5 := by decide

/-- Seeded variant C10_c: `in = 10, k = 3, s = 2, pads = (1, 1), ceil_mode` is inferred as 5 but
executes to 6. -/
theorem c10_pool_seeded_rule_false :
    poolInferSizeSeeded 10 3 2 1 1 1 = 5 ∧ poolExecSize 10 3 2 1 1 1 true = some 6 ∧
    poolInferSize 10 3 2 1 1 1 true = 6 := by decide

/-- Symbolic input size and symbolic kernel size (Conv takes the kernel from the weights' shape):
the inferred expression evaluates to `poolInferSize` of the instantiated sizes, so
`c10_pool_output_size_agrees` transfers to symbolic dims. -/
theorem c10_pool_sym_eval (σ : Env) (inp k : Sym) (v kv s d ps pe : Int) (ceil : Bool) (hs : s ≠ 0)
    (hv : inp.eval σ = some v) (hk : k.eval σ = some kv) :
    (poolInferSym inp k s d ps pe ceil).eval σ = some (poolInferSize v kv s d ps pe ceil) := by
  unfold poolInferSym convOutSym poolInferSize
  cases ceil <;> simp [Sym.eval, hv, hk, hs]

end RtenVerif.ShapeInfer
