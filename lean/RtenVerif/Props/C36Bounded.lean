import RtenVerif.Props.C36

/-!
# C36 — bounded statements (kernel evaluation of complete finite scopes)
-/
namespace RtenVerif.Contours

/-- Bounding-box check for one line. -/
def bboxOk (s e : Pt) : Bool :=
  (bresenham s e).all fun p =>
    decide (min s.1 e.1 ≤ p.1 ∧ p.1 ≤ max s.1 e.1 ∧ min s.2 e.2 ≤ p.2 ∧ p.2 ≤ max s.2 e.2)

/-- **C36.T2b (bounded)** For all 625 lines with endpoints in `[0,4]²` every Bresenham point
lies in the bounding box of the endpoints.  Bounded statement. -/
theorem c36_bresenham_bbox_bounded :
    ∀ y0 : Fin 5, ∀ x0 : Fin 5, ∀ y1 : Fin 5, ∀ x1 : Fin 5,
      bboxOk ((y0.1 : Int), (x0.1 : Int)) ((y1.1 : Int), (x1.1 : Int)) = true := by
  decide +kernel



/-! ## T1 / S5 contours (bounded) -/

/-- The oracle for one mask: the call returns, and every contour point is an in-image
foreground pixel with a non-foreground position in its 8-neighbourhood. -/
def contoursOk (rows cols : Nat) (mask : List Bool) (outerOnly : Bool) : Bool :=
  match findContours rows cols mask outerOnly with
  | .ok cs => cs.all fun c => !c.isEmpty && c.all fun p =>
      maskAt rows cols mask p && (neighbors p).any fun q => !maskAt rows cols mask q
  | _ => false

def bitsOf (n : Nat) (code : Nat) : List Bool :=
  (List.range n).map fun i => code / 2 ^ i % 2 == 1

/-- **C36.T1/S5 (bounded)** For all masks of size `rows × cols` with `rows, cols ≤ 3` and
`rows·cols ≤ 6` (incl. the degenerate sizes with 0 rows or columns), both retrieval modes:
`find_contours` returns within the fuel bound `8·padded pixels + 8` and every contour point is
a foreground pixel inside the image that is adjacent to the background or the image edge.
Bounded statement. -/
theorem c36_contours_bounded_small :
    ∀ rows : Fin 4, ∀ cols : Fin 4, rows.1 * cols.1 ≤ 6 → ∀ code : Fin 64, ∀ mode : Bool,
      contoursOk rows.1 cols.1 (bitsOf (rows.1 * cols.1) code.1) mode = true := by
  decide +kernel

/-- Non-vacuity: a ring gives its outer border; an isolated pixel a one-point contour. -/
example : findContours 3 3 (bitsOf 9 0b111101111) false =
    .ok [[(0, 0), (1, 0), (2, 0), (2, 1), (2, 2), (1, 2), (0, 2), (0, 1)]] := by decide +kernel
example : findContours 1 3 [false, true, false] true = .ok [[(0, 1)]] := by decide +kernel



end RtenVerif.Contours
