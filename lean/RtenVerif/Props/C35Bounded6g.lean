import RtenVerif.Props.C35Bounded6Defs

/-! C35.S3 bounded scope, chunk `g`: smallest code in `1..1`, second smallest in `4..15`
(kernel evaluation; bounded statement). -/
namespace RtenVerif.Poly

theorem c35_chunk6_g : chunkOk 1 1 4 15 = true := by decide +kernel

end RtenVerif.Poly
