import RtenVerif.Props.C35Bounded6Defs

/-! C35.S3 bounded scope, chunk `m`: smallest code in `5..5`, second smallest in `5..15`
(kernel evaluation; bounded statement). -/
namespace RtenVerif.Poly

theorem c35_chunk6_m : chunkOk 5 5 5 15 = true := by decide +kernel

end RtenVerif.Poly
