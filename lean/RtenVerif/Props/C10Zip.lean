import RtenVerif.Lemmas.ShapeInferZip
import RtenVerif.Props.C10

/-!
# C10 — further T1 theorems for modelled rules

All three zipping modes of `symbolic_binary_op`, the complete value-level binary rule, `Shape`,
`Size`, `Gather` with a scalar index, `Concat` of two valued inputs.
-/
namespace RtenVerif.ShapeInfer

/-- **C10.T1-zip**: whatever mode `symbolic_binary_op` chooses (left cycling, right cycling,
plain zip), if the executed NumPy-style broadcast of the two rank-≤1 operands succeeds, the
inferred elements evaluate to the executed elements. -/
theorem c10_zipCycle_sound (σ : Env) (op) (f) (h : OpHom σ op f) (l r : List Sym) (vl vr : List Int)
    (out : List Sym) (w : List Int)
    (hl : evalList σ l = some vl) (hr : evalList σ r = some vr)
    (hi : zipCycle op l r = some out) (he : czip f vl vr = some w) : evalList σ out = some w := by
  have hll := evalList_length σ l vl hl
  have hrl := evalList_length σ r vr hr
  match l, vl, hl, hll with
  | [x], [vx], hl, _ =>
    obtain ⟨v, vs', hx, _, hcons⟩ := evalList_cons σ x [] [vx] hl
    cases hcons
    simp only [zipCycle] at hi
    simp only [czip] at he
    exact mapO_left σ op f h x vx hx r vr out w hr hi he
  | [], [], _, _ =>
    match r, vr, hr, hrl with
    | [y], [vy], _, _ =>
      simp only [zipCycle, mapO] at hi; simp only [czip, mapO] at he
      cases hi; cases he; rfl
    | [], [], _, _ =>
      simp only [zipCycle, List.zip_nil_left, mapO] at hi; cases hi
      simp [czip, mapO] at he; cases he; rfl
    | _ :: _ :: _, _ :: _ :: _, _, _ =>
      simp only [zipCycle, List.zip_nil_left, mapO] at hi; cases hi
      simp [czip] at he
  | x1 :: x2 :: l', v1 :: v2 :: vl', hl, _ =>
    match r, vr, hr, hrl with
    | [y], [vy], hr, _ =>
      obtain ⟨v, vs', hy, _, hcons⟩ := evalList_cons σ y [] [vy] hr
      cases hcons
      simp only [zipCycle] at hi
      simp only [czip] at he
      exact mapO_right σ op f h y vy hy _ _ out w hl hi he
    | [], [], _, _ =>
      simp only [zipCycle, List.zip_nil_right, mapO] at hi; cases hi
      simp [czip] at he
    | y1 :: y2 :: r', w1 :: w2 :: vr', hr, _ =>
      simp only [zipCycle] at hi
      simp only [czip] at he
      split at he
      · exact mapO_zip σ op f h _ _ _ _ out w hl hr hi he
      · cases he

/-- **C10.T1-binary (complete value level)**: for two value-carrying operands (scalar or vector),
if `symbolic_binary_op` produces a result and the executed element-wise operator succeeds, the
result agrees (rank and every element). -/
theorem c10_symBinary_sound (σ : Env) (op) (f) (h : OpHom σ op f) (a b r : STn) (ca cb cr : CT)
    (ha : Agrees σ a ca) (hb : Agrees σ b cb)
    (hi : symBinary op a b = some r) (he : execBinary f ca cb = some cr) : Agrees σ r cr := by
  -- extract values of both operands together with their executed values
  have vals : ∀ (t : STn) (c : CT) (es : List Sym), Agrees σ t c → t.values = some es →
      ∃ vs, c.values = some vs ∧ evalList σ es = some vs := by
    intro t c es hag hv
    cases t with
    | scalar e =>
      obtain ⟨v, rfl, hev⟩ := hag
      simp only [STn.values] at hv; cases hv
      exact ⟨[v], rfl, by simp [evalList, mapO, hev]⟩
    | vector es' =>
      obtain ⟨vs, rfl, hev⟩ := hag
      simp only [STn.values] at hv; cases hv
      exact ⟨vs, rfl, hev⟩
    | shape ds => simp [STn.values] at hv
    | unknown => simp [STn.values] at hv
  cases a with
  | scalar x =>
    cases b with
    | scalar y => exact c10_binary_scalar_sound σ op f h x y ca cb cr r ha hb hi he
    | vector ys =>
      obtain ⟨vx, rfl, hx⟩ := ha
      obtain ⟨vys, rfl, hys⟩ := hb
      simp only [symBinary, STn.values] at hi
      simp only [execBinary, CT.values] at he
      cases hz : zipCycle op [x] ys with
      | none => simp [hz] at hi
      | some out =>
        simp only [hz, Option.map_some] at hi; cases hi
        cases hc : czip f [vx] vys with
        | none => simp [hc] at he
        | some w =>
          simp only [hc, Option.map_some] at he; cases he
          exact ⟨w, rfl, c10_zipCycle_sound σ op f h [x] ys [vx] vys out w
            (by simp [evalList, mapO, hx]) hys hz hc⟩
    | shape ds => simp [symBinary, STn.values] at hi
    | unknown => simp [symBinary, STn.values] at hi
  | vector xs =>
    obtain ⟨vxs, rfl, hxs⟩ := ha
    cases hbv : b.values with
    | none => cases b <;> simp [symBinary, STn.values] at hi hbv
    | some ys =>
      obtain ⟨vys, hcb, hys⟩ := vals b cb ys hb hbv
      have hi' : (zipCycle op xs ys).map STn.vector = some r := by
        cases b <;> simp_all [symBinary, STn.values]
      have he' : (czip f vxs vys).map CT.vector = some cr := by
        cases cb <;> simp_all [execBinary, CT.values]
      cases hz : zipCycle op xs ys with
      | none => simp [hz] at hi'
      | some out =>
        simp only [hz, Option.map_some] at hi'; cases hi'
        cases hc : czip f vxs vys with
        | none => simp [hc] at he'
        | some w =>
          simp only [hc, Option.map_some] at he'; cases he'
          exact ⟨w, rfl, c10_zipCycle_sound σ op f h xs ys vxs vys out w hxs hys hz hc⟩
  | shape ds => simp [symBinary, STn.values] at hi
  | unknown => simp [symBinary, STn.values] at hi

/-! ## `Shape`, `Size` -/

/-- The dimensions an inferred tensor claims evaluate to the executed dimensions. -/
theorem dims_agree (σ : Env) (a : STn) (c : CT) (ds : List Sym) (ha : Agrees σ a c)
    (hd : a.dims = some ds) : evalList σ ds = some c.dims := by
  cases a with
  | scalar e => obtain ⟨v, rfl, _⟩ := ha; simp only [STn.dims] at hd; cases hd; rfl
  | vector es =>
    obtain ⟨vs, rfl, hev⟩ := ha
    simp only [STn.dims] at hd; cases hd
    have := evalList_length σ es vs hev
    simp [evalList, mapO, Sym.eval, CT.dims, this]
  | shape ds' => simp only [STn.dims] at hd; cases hd; exact ha
  | unknown => simp [STn.dims] at hd

/-- **C10.T1-shape**: `Shape` of any tensor whose inferred form agrees with the executed one. -/
theorem c10_shape_sound (σ : Env) (start stop : Option Int) (a : STn) (c : CT) (ha : Agrees σ a c) :
    Agrees σ (shapeInfer start stop a) (execShape start stop c) := by
  unfold shapeInfer execShape
  cases hd : a.dims with
  | none => simp [Agrees]
  | some ds =>
    have hev := dims_agree σ a c ds ha hd
    have hlen := evalList_length σ ds c.dims hev
    simp only [hlen]
    exact ⟨_, rfl, evalList_take σ _ _ _ (evalList_drop σ _ _ _ hev)⟩

theorem eval_foldl_mul (σ : Env) : ∀ (ds : List Sym) (vs : List Int) (acc : Sym) (va : Int),
    evalList σ ds = some vs → acc.eval σ = some va →
    (ds.foldl (fun p d => Sym.mul p d) acc).eval σ = some (vs.foldl (fun p d => p * d) va) := by
  intro ds
  induction ds with
  | nil => intro vs acc va h ha; simp only [evalList, mapO] at h; cases h; simpa using ha
  | cons d ds ih =>
    intro vs acc va h ha
    obtain ⟨v, vs', hd, hds, rfl⟩ := evalList_cons σ d ds vs h
    simp only [List.foldl_cons]
    exact ih vs' (.mul acc d) (va * v) hds (by simp [Sym.eval, ha, hd])

/-- **C10.T1-size** (the rule without its final `simplify()`, which is C11's subject): the inferred
scalar evaluates to the product of the executed dimensions. -/
theorem c10_size_sound (σ : Env) (a : STn) (c : CT) (ds : List Sym) (ha : Agrees σ a c) (hd : a.dims = some ds) :
    Agrees σ (sizeInfer a) (.scalar (c.dims.foldl (fun p d => p * d) 1)) := by
  unfold sizeInfer
  simp only [hd]
  exact ⟨_, rfl, eval_foldl_mul σ ds c.dims (.val 1) 1 (dims_agree σ a c ds ha hd) rfl⟩

/-! ## `Gather`, `Concat` on vectors -/

/-- **C10.T1-gather (scalar index)**: `Gather(axis=0)` of a valued vector with a constant scalar
index infers the element the executed gather selects (`resolve_index` is the ONNX negative-index
rule). -/
theorem c10_gather_scalar_sound (σ : Env) (es : List Sym) (vs : List Int) (i : Int) (r : STn)
    (hev : evalList σ es = some vs) (hi : gatherValues es true [i] = .ok r) :
    ∃ k v, resolveIndex vs.length i = some k ∧ vs[k]? = some v ∧ Agrees σ r (.scalar v) := by
  have hlen := evalList_length σ es vs hev
  simp only [gatherValues, if_true, gatherGet] at hi
  cases hk : resolveIndex es.length i with
  | none => simp [hk] at hi
  | some k =>
    simp only [hk, Option.bind_some] at hi
    cases he : es[k]? with
    | none => simp [he] at hi
    | some e =>
      simp only [he] at hi
      cases hi
      obtain ⟨v, hv, hee⟩ := evalList_getElem σ es vs k e hev he
      exact ⟨k, v, by rw [← hlen]; exact hk, hv, v, rfl, hee⟩

/-- **C10.T1-concat (two inputs)**: concatenating two valued inputs along axis 0. -/
theorem c10_concat2_sound (σ : Env) (a b r : STn) (ca cb : CT) (va vb : List Int)
    (ha : Agrees σ a ca) (hb : Agrees σ b cb) (hva : ca.values = some va) (hvb : cb.values = some vb)
    (hi : concatValues [a, b] = some r) : Agrees σ r (.vector (va ++ vb)) := by
  have vals : ∀ (t : STn) (c : CT) (vs : List Int), Agrees σ t c → c.values = some vs →
      ∀ es, t.values = some es → evalList σ es = some vs := by
    intro t c vs hag hv es hes
    cases t with
    | scalar e =>
      obtain ⟨v, rfl, hev⟩ := hag
      simp only [STn.values] at hes; cases hes
      simp only [CT.values] at hv; cases hv
      simp [evalList, mapO, hev]
    | vector es' =>
      obtain ⟨vs', rfl, hev⟩ := hag
      simp only [STn.values] at hes; cases hes
      simp only [CT.values] at hv; cases hv
      exact hev
    | shape ds => simp [STn.values] at hes
    | unknown => simp [STn.values] at hes
  simp only [concatValues, mapO] at hi
  cases hav : a.values with
  | none => simp [hav] at hi
  | some ea =>
    cases hbv : b.values with
    | none => simp [hav, hbv] at hi
    | some eb =>
      simp only [hav, hbv, Option.map_some] at hi
      cases hi
      refine ⟨va ++ vb, rfl, ?_⟩
      simpa using evalList_append σ ea eb va vb (vals a ca va ha hva ea hav) (vals b cb vb hb hvb eb hbv)

end RtenVerif.ShapeInfer
