import RtenVerif.Lemmas.Npy

/-!
# C34 — Tensor file formats round-trip and reject malformed files
-/
namespace RtenVerif.Npy

/-- Decimal printer/parser round trip used by the shape tuple. -/
theorem c34_usize_round_trip (n : Nat) (rest : List Nat) (hn : n < usizeLimit)
    (hr : ∀ b, rest.head? = some b → isDigit b = false) :
    parseUsize (natDigits n ++ rest) = .ok (n, rest) :=
  parseUsize_natDigits n rest hn hr

end RtenVerif.Npy
