import RtenVerif.Lemmas.NpyRead
import RtenVerif.Lemmas.NpyTotal
import RtenVerif.Lemmas.NpyNpz
import RtenVerif.Lemmas.NpyFortran
import RtenVerif.Lemmas.NpyUtf8
import RtenVerif.Lemmas.NpySafetensors

/-!
# C34 — Tensor file formats round-trip and reject malformed files

Property theorems over `RtenVerif/Model/Npy.lean`, the byte-level model of
`rten-serialize/src/npy.rs` (+ `npy/dtype.rs`, the name handling of `npz.rs`).
Bytes are `Nat`s; `usizeLimit = 2^64`, `isizeLimit = 2^63`.

The model is of the code **after** the three `fix:` commits recorded in `findings/C34.json`
(the full round-trip statement T2 was false before them: the reader capped arrays at 4 GiB
although the writer does not, see below).
-/
namespace RtenVerif.Npy

/-! ## T1 — `parse_header (build_header dt shape) = (dt, C order, shape)` -/

/-- **C34.T1a** The header parser inverts the dictionary printer — for every element type, every
shape (every rank, every dim that fits `usize`) and any padding/trailing text. -/
theorem c34_parse_header_dict (dt : DataType) (shape : List Nat)
    (hall : ∀ d ∈ shape, d < usizeLimit) (tail : List Nat) :
    parseHeaderRest (dictText dt shape ++ tail) =
      .ok (⟨⟨false, dt.kind, dt.itemSize⟩, false, shape⟩, tail) :=
  parseHeaderRest_dictText dt shape hall tail

/-- **C34.T1b** File level: `read_header` on `build_header`'s bytes followed by arbitrary data
returns the written type/order/shape, maps back to the same `DataType`, and leaves exactly the
data unread. -/
theorem c34_read_header_build_header (dt : DataType) (shape data hdr : List Nat)
    (hall : ∀ d ∈ shape, d < usizeLimit) (hb : buildHeader dt shape = .ok hdr) :
    readHeader (hdr ++ data) = .ok (⟨⟨false, dt.kind, dt.itemSize⟩, false, shape⟩, data) ∧
    dataTypeOf ⟨false, dt.kind, dt.itemSize⟩ = some dt :=
  ⟨readHeader_buildHeader dt shape data hdr hall hb, dataTypeOf_descr dt⟩

-- non-vacuity: a rank-3 shape with a zero and a huge dim
example : ∃ hdr, buildHeader .f32 [0, 7, 2 ^ 64 - 1] = .ok hdr :=
  buildHeader_ok_of_rank .f32 [0, 7, 2 ^ 64 - 1] (by decide) (by decide)

/-- **C34.T1c** `build_header` succeeds for every shape of rank ≤ 2900 and its output is padded to
a multiple of 64 bytes. (The only failure of the writer is the `u16` length field:
`c34_header_too_large_witness`.) -/
theorem c34_build_header_ok (dt : DataType) (shape : List Nat) (h : ∀ d ∈ shape, d < usizeLimit)
    (hr : shape.length ≤ 2900) : ∃ hdr, buildHeader dt shape = .ok hdr ∧ hdr.length % 64 = 0 := by
  obtain ⟨hdr, hb⟩ := buildHeader_ok_of_rank dt shape h hr
  exact ⟨hdr, hb, buildHeader_aligned dt shape hdr hb⟩

/-- **C34.T1d (negation witness for "write succeeds on every tensor")** every shape of rank
≥ 21846 is refused by the writer (`u16` length of format 1.0). Documented in the code; recorded as
an open finding because the property text promises a round trip for any tensor. -/
theorem c34_header_too_large_witness (dt : DataType) (shape : List Nat) (hr : 21846 ≤ shape.length) :
    buildHeader dt shape = .error .headerTooLarge ∧ write ⟨dt, shape, []⟩ = .error .headerTooLarge := by
  have := buildHeader_too_large dt shape hr
  exact ⟨this, by simp [write, this]⟩

theorem c34_write_any_false :
    ¬ ∀ (dt : DataType) (shape : List Nat), ∃ hdr, buildHeader dt shape = .ok hdr := by
  intro h
  obtain ⟨hdr, hh⟩ := h .i8 (List.replicate 21846 1)
  rw [buildHeader_too_large .i8 _ (by rw [List.length_replicate]; exact Nat.le_refl _)] at hh
  cases hh

/-- Decimal printer/parser round trip used by the shape tuple (`usize::to_string` then
`parse_usize`), for every `n < 2^64` and any following non-digit. -/
theorem c34_usize_round_trip (n : Nat) (rest : List Nat) (hn : n < usizeLimit)
    (hr : ∀ b, rest.head? = some b → isDigit b = false) :
    parseUsize (natDigits n ++ rest) = .ok (n, rest) :=
  parseUsize_natDigits n rest hn hr

example : parseUsize (natDigits 18446744073709551615 ++ [44, 32]) = .ok (18446744073709551615, [44, 32]) :=
  c34_usize_round_trip _ _ (by decide) (by decide)

/-! ## T2 — element codecs and `read (write t) = t` -/

/-- **C34.T2a** `from_le_bytes (to_le_bytes x) = x` for every `w`-byte pattern, and
`to_le_bytes (from_le_bytes bs) = bs` for every `w`-byte string: the codecs are mutually inverse
bijections between `[0, 256^w)` and byte strings of length `w`. -/
theorem c34_le_bijection (w : Nat) :
    (∀ x, x < 256 ^ w → fromLE (toLE w x) = x ∧ (toLE w x).length = w ∧ ∀ b ∈ toLE w x, b < 256) ∧
    (∀ bs : List Nat, bs.length = w → (∀ b ∈ bs, b < 256) →
      toLE w (fromLE bs) = bs ∧ fromLE bs < 256 ^ w) := by
  constructor
  · intro x hx
    exact ⟨fromLE_toLE w x hx, toLE_length w x, toLE_lt w x⟩
  · intro bs hl hb
    subst hl
    exact ⟨toLE_fromLE bs hb, fromLE_lt bs hb⟩

/-- The same for Lean's fixed-width machine integers. -/
theorem c34_le_round_trip_uint :
    (∀ x : UInt8, fromLE (toLE 1 x.toNat) = x.toNat) ∧ (∀ x : UInt16, fromLE (toLE 2 x.toNat) = x.toNat) ∧
    (∀ x : UInt32, fromLE (toLE 4 x.toNat) = x.toNat) ∧ (∀ x : UInt64, fromLE (toLE 8 x.toNat) = x.toNat) :=
  ⟨fun x => fromLE_toLE 1 _ (by have := x.toNat_lt; omega),
   fun x => fromLE_toLE 2 _ (by have := x.toNat_lt; omega),
   fun x => fromLE_toLE 4 _ (by have := x.toNat_lt; omega),
   fun x => fromLE_toLE 8 _ (by have := x.toNat_lt; omega)⟩

/-- **C34.T2b** Per-dtype element round trip (bool is `b != 0` on `bool as u8`). -/
theorem c34_elem_round_trip (dt : DataType) (x : Nat) (h : ValidElem dt x) :
    decodeElem dt (encodeElem dt x) = x ∧ (encodeElem dt x).length = dt.itemSize :=
  ⟨decode_encode dt x h, encodeElem_length dt x⟩

/-- **C34.T2** `read (write a) = a` for every element type, every shape whose non-zero dims
multiply to at most `isize::MAX` (the tensor library's own limit on any tensor or view) and
every element list in logical order. `hbytes` only excludes broadcast views of more than
`usize::MAX` bytes, which cannot be written in finite time. No 4 GiB bound: see the findings. -/
theorem c34_read_write (a : Array) (file : List Nat)
    (hshape : prod (a.shape.map (fun d => max d 1)) < isizeLimit)
    (hbytes : prod a.shape * a.dtype.itemSize < usizeLimit)
    (hlen : a.vals.length = prod a.shape)
    (hvals : ∀ x ∈ a.vals, ValidElem a.dtype x)
    (hw : write a = .ok file) : read file = .ok a :=
  read_write a file hshape hbytes hlen hvals hw

-- non-vacuity: a 2x0x3 (empty) and a 2x2 tensor meet the hypotheses and are written
example : ∃ f, write ⟨.i16, [2, 2], [1, 65535, 0, 258]⟩ = .ok f ∧ read f = .ok ⟨.i16, [2, 2], [1, 65535, 0, 258]⟩ := by
  obtain ⟨f, hf⟩ := write_ok_of_rank ⟨.i16, [2, 2], [1, 65535, 0, 258]⟩ (by decide) (by decide)
  exact ⟨f, hf, c34_read_write _ f (by decide) (by decide) (by decide) (by decide) hf⟩
example : ∃ f, write ⟨.bool, [2, 0, 3], []⟩ = .ok f ∧ read f = .ok ⟨.bool, [2, 0, 3], []⟩ := by
  obtain ⟨f, hf⟩ := write_ok_of_rank ⟨.bool, [2, 0, 3], []⟩ (by decide) (by decide)
  exact ⟨f, hf, c34_read_write _ f (by decide) (by decide) (by decide) (by decide) hf⟩

/-! ## T3 — the parser is total and consumes its input monotonically -/

/-- **C34.T3** For every byte string: the two loops of the header parser never exhaust the fuel
`input length + 1` (so the Rust loops terminate and `Err.fuel` is unreachable: the result is a
header or one of the real error classes), and what an accepted parse leaves unread is a strict
suffix of the input. -/
theorem c34_parser_total (inp : List Nat) :
    parseHeader inp ≠ .error .fuel ∧ parseHeaderRest inp ≠ .error .fuel ∧
    (∀ h rest, parseHeaderRest inp = .ok (h, rest) → rest <:+ inp ∧ rest.length < inp.length) :=
  ⟨parseHeader_ne_fuel inp, parseHeaderRest_ne_fuel inp, fun _ _ hp => parseHeaderRest_ssuffix hp⟩

/-- Same for the whole reader: `npy::read` returns a value or a genuine error on every file. -/
theorem c34_read_total (file : List Nat) : read file ≠ .error .fuel :=
  read_ne_fuel file

/-- The shape-tuple loop on its own (used inside `c34_parser_total`). -/
theorem c34_shape_loop_total (fuel : Nat) (inp : List Nat) :
    (∀ vs r, shapeLoop fuel inp = .ok (vs, r) → r <:+ inp ∧ r.length < inp.length) ∧
    (inp.length < fuel → shapeLoop fuel inp ≠ .error .fuel) :=
  shapeLoop_spec fuel inp

/-! ## T4 — accepted files -/

/-- **C34.T4** If `read` accepts a file then: the header parsed, the shape's non-zero dims multiply
to at most `isize::MAX` (no stride or count can overflow), the byte count fits `usize`, that many
bytes were actually present after the header, and exactly `∏ shape` elements are returned. -/
theorem c34_read_ok_sizes (file : List Nat) (a : Array) (h : read file = .ok a) :
    ∃ hd data, readHeader file = .ok (hd, data) ∧ dataTypeOf hd.dtype = some a.dtype ∧
      a.shape = hd.shape ∧
      prod (a.shape.map (fun d => max d 1)) < isizeLimit ∧
      prod a.shape * a.dtype.itemSize < usizeLimit ∧
      prod a.shape * a.dtype.itemSize ≤ data.length ∧
      a.vals.length = prod a.shape :=
  read_ok_sizes file a h

/-- Size guard, concretely: a zero dimension does not mask huge ones (the pre-fix code accepted
this header and built a tensor with wrapped strides). Complete evaluation of the model. -/
theorem c34_zero_times_huge_rejected :
    readTyped ⟨⟨false, 105, 4⟩, false, [0, 2 ^ 32, 2 ^ 32]⟩ .i32 [] = .error .countOverflow := by
  rfl

/-! ## Fortran (column-major) order -/

/-- **C34.F1** `fortran_order_to_row_major` is the transpose permutation on the data, for every
shape (every rank, including 0 and 1 where it is the identity): the element it puts at the
row-major position of a valid multi-index `idx` is the input's element at the column-major
position of `idx`. -/
theorem c34_fortran_pointwise (shape vals idx : List Nat) (hlen : vals.length = prod shape)
    (hidx : validIdx shape idx) :
    (fortranToRowMajor shape vals).getD (rowOffset shape idx) 0 =
      vals.getD (fortranOffset shape idx) 0 := by
  have hi := rowOffset_lt shape idx hidx
  rw [fortranToRowMajor_getD shape vals hlen _ hi]
  unfold fSigma
  rw [unravel_rowOffset shape idx hidx]

/-- **C34.F2** The index map is a bijection of `[0, ∏ shape)`: `fSigma` (row-major position ↦
column-major position of the same multi-index) and `fTau` are mutually inverse and stay in range;
output element `i` is input element `fSigma i`; the length is preserved. -/
theorem c34_fortran_bijection (shape : List Nat) :
    (∀ i, i < prod shape → fSigma shape i < prod shape ∧ fTau shape (fSigma shape i) = i) ∧
    (∀ k, k < prod shape → fTau shape k < prod shape ∧ fSigma shape (fTau shape k) = k) ∧
    (∀ vals : List Nat, vals.length = prod shape →
      (fortranToRowMajor shape vals).length = vals.length ∧
      ∀ i, i < prod shape → (fortranToRowMajor shape vals).getD i 0 = vals.getD (fSigma shape i) 0) :=
  ⟨fun i hi => ⟨fSigma_lt shape i hi, fTau_fSigma shape i hi⟩,
   fun k hk => ⟨fTau_lt shape k hk, fSigma_fTau shape k hk⟩,
   fun vals hl => ⟨fortranToRowMajor_length shape vals,
     fun i hi => fortranToRowMajor_getD shape vals hl i hi⟩⟩

-- non-vacuity: index (1,0,2) of a 2x3x4 shape; row-major 14 ↔ column-major 13
example : validIdx [2, 3, 4] [1, 0, 2] ∧ rowOffset [2, 3, 4] [1, 0, 2] = 14 ∧
    fortranOffset [2, 3, 4] [1, 0, 2] = 13 ∧ fSigma [2, 3, 4] 14 = 13 ∧ fTau [2, 3, 4] 13 = 14 := by
  refine ⟨by simp [validIdx], by decide, by decide, by decide, by decide⟩

/-- **C34.F3** The header parser accepts the dictionary NumPy writes for either order and
reports the order flag faithfully (T1a generalised to `fortran_order: True`). -/
theorem c34_parse_header_dict_any_order (dt : DataType) (fo : Bool) (shape : List Nat)
    (hall : ∀ d ∈ shape, d < usizeLimit) (tail : List Nat) :
    parseHeaderRest (dictTextF dt fo shape ++ tail) =
      .ok (⟨⟨false, dt.kind, dt.itemSize⟩, fo, shape⟩, tail) :=
  parseHeaderRest_dictTextF dt fo shape hall tail

/-- **C34.F4** Round trip with Fortran-order input: a format-1.0 file whose header says
`fortran_order: True` and whose data are the elements of `a` serialised in column-major order
(`toFortranOrder`) reads back as exactly `a` (row-major), for every dtype and shape. -/
theorem c34_read_fortran_file (a : Array)
    (hshape : prod (a.shape.map (fun d => max d 1)) < isizeLimit)
    (hbytes : prod a.shape * a.dtype.itemSize < usizeLimit)
    (hlen : a.vals.length = prod a.shape)
    (hvals : ∀ x ∈ a.vals, ValidElem a.dtype x)
    (hdict : (dictTextF a.dtype true a.shape ++ [10]).length ≤ 65535) :
    read (npyFileV1 (dictTextF a.dtype true a.shape ++ [10])
      (((toFortranOrder a.shape a.vals).map (encodeElem a.dtype)).flatten)) = .ok a :=
  read_fortran_file a hshape hbytes hlen hvals hdict

/-- Converting to column-major order and back is the identity on the data. -/
theorem c34_fortran_inverse (shape vals : List Nat) (hlen : vals.length = prod shape) :
    fortranToRowMajor shape (toFortranOrder shape vals) = vals :=
  fortranToRowMajor_toFortranOrder shape vals hlen

example : toFortranOrder [2, 3] [1, 2, 3, 4, 5, 6] = [1, 4, 2, 5, 3, 6] ∧
    fortranToRowMajor [2, 3] [1, 4, 2, 5, 3, 6] = [1, 2, 3, 4, 5, 6] := by decide

/-! ## UTF-8 (the header text)

`rten-serialize` delegates validation to `std::str::from_utf8`; `validUtf8` is the model's
definition of that call (tied to std by the harness). It is exactly well-formedness: -/

/-- **C34.U1** `validUtf8` accepts exactly the well-formed UTF-8 byte sequences: a byte string is
accepted iff it is the concatenation of the encodings of a list of Unicode scalar values. -/
theorem c34_utf8_exact (bs : List Nat) :
    validUtf8 bs = true ↔ ∃ cs : List Nat, (∀ c ∈ cs, isScalar c) ∧ bs = (cs.map encodeScalar).flatten := by
  constructor
  · exact scalars_of_validUtf8 bs
  · rintro ⟨cs, hcs, rfl⟩
    exact validUtf8_of_scalars cs hcs

example : validUtf8 [0xED, 0xA0, 0x80] = false ∧ validUtf8 [0xC0, 0x80] = false ∧
    validUtf8 [0xF4, 0x90, 0x80, 0x80] = false ∧ validUtf8 [0xF0, 0x9F, 0x98, 0x80] = true ∧
    encodeScalar 0x1F600 = [0xF0, 0x9F, 0x98, 0x80] := by decide

/-- **C34.U2** What the crate itself relies on: the text between two `'` of a validated header is
itself well-formed, so the inner `from_utf8` of `parse_string` ("npy header string is not valid
UTF-8") is unreachable after `read_header`'s check. -/
theorem c34_utf8_between_quotes (pre s rest : List Nat)
    (h : validUtf8 (pre ++ 39 :: (s ++ 39 :: rest)) = true) : validUtf8 s = true :=
  validUtf8_between_quotes pre s rest h

/-! ## safetensors wrapper (first-party logic of `safetensors.rs`; the container crate is external) -/

/-- **C34.S1** The dtype maps are mutually inverse on the supported types:
`data_type_from_safetensors ∘ DTYPE = id`, and nothing else maps to a supported type. -/
theorem c34_st_dtype_maps :
    (∀ dt : DataType, dataTypeFromSafetensors (stDtypeOf dt) = some dt) ∧
    (∀ (d : StDtype) (dt : DataType), dataTypeFromSafetensors d = some dt → d = stDtypeOf dt) :=
  ⟨dataTypeFromSafetensors_stDtypeOf, fun _ _ h => stDtypeOf_of_dataTypeFromSafetensors h⟩

/-- **C34.S2 ("from any memory layout")** `SafeElement::to_le_bytes` gives the same bytes whether
it takes the contiguous fast path (`cast_slice(view.data())`) or the iterator path: for every
dtype, shape and strides (contiguous per `is_contiguous` or not, zero strides, size-1 dims with
arbitrary strides, empty dims) and every storage that covers the layout, the bytes are the
little-endian encodings of the elements in logical order. -/
theorem c34_st_fast_path_eq_iter (dt : DataType) (v : SView)
    (hl : v.shape.length = v.strides.length)
    (hs : minDataLen v.shape v.strides ≤ v.storage.length) :
    stToLeBytes dt v = ((viewIter v).map (encodeElem dt)).flatten :=
  stToLeBytes_eq_iter dt v hl hs

-- non-vacuity: a contiguous view with a size-1 dim of odd stride takes the fast path, a transposed
-- one does not; both satisfy the hypotheses
example : isContig [2, 1, 3] [3, 77, 1] = true ∧ isContig [3, 2] [1, 3] = false ∧
    minDataLen [2, 1, 3] [3, 77, 1] = 6 ∧ minDataLen [3, 2] [1, 3] = 6 ∧
    viewIter ⟨[10, 11, 12, 13, 14, 15], [3, 2], [1, 3]⟩ = [10, 13, 11, 14, 12, 15] := by decide

/-- **C34.S3** Wrapper round trip: decoding (`from_le_bytes`) what `to_le_bytes` produced for any
view yields exactly its logical elements, `∏ shape` of them, and the dtype survives the maps. -/
theorem c34_st_round_trip (dt : DataType) (v : SView)
    (hl : v.shape.length = v.strides.length)
    (hs : minDataLen v.shape v.strides ≤ v.storage.length)
    (hv : ∀ x ∈ v.storage, ValidElem dt x) :
    stFromLeBytes dt (stToLeBytes dt v) = viewIter v ∧ (viewIter v).length = prod v.shape ∧
    dataTypeFromSafetensors (stDtypeOf dt) = some dt := by
  refine ⟨?_, by simp [viewIter], dataTypeFromSafetensors_stDtypeOf dt⟩
  rw [stToLeBytes_eq_iter dt v hl hs]
  exact stFromLeBytes_encode dt _ (viewIter_valid dt v hv)

/-- **C34.S4** `from_le_bytes` on arbitrary bytes: `⌊len / size⌋` elements (a trailing partial
chunk is dropped by `chunks_exact`), and for `bool` every byte `b` — not only 0/1 — reads as `b != 0`. -/
theorem c34_st_from_le_bytes (dt : DataType) (bytes : List Nat) :
    (stFromLeBytes dt bytes).length = bytes.length / dt.itemSize ∧
    stFromLeBytes .bool bytes = bytes.map (fun b => if b ≠ 0 then 1 else 0) :=
  ⟨stFromLeBytes_length dt bytes, stFromLeBytes_bool bytes⟩

/-- **C34.T4b** The last step of `npy::read_typed`, `Tensor::try_from_data(shape, values)`, cannot
fail on an accepted file: the model has no error class for "invalid npy array shape" because the
size guard implies `checked_shape_len(shape) = Some(values.len())`. -/
theorem c34_try_from_data_unreachable (file : List Nat) (a : Array) (h : read file = .ok a) :
    tryFromDataOk a.shape a.vals.length = true := by
  obtain ⟨_, _, _, _, _, hg, _, _, hlen⟩ := read_ok_sizes file a h
  rw [hlen]
  exact tryFromDataOk_of_guard a.shape hg

example : tryFromDataOk [0, 2 ^ 40, 2 ^ 40] 0 = false ∧ tryFromDataOk [0, 5] 0 = true ∧
    tryFromDataOk [2, 3] 6 = true ∧ tryFromDataOk [2, 3] 5 = false := by decide

/-! ## npz entry names -/

/-- **C34.N1** `npz_file_name` yields `base.npy` (non-empty base) for a name given with or without
the suffix; it is idempotent; and `npz::read` reports the entry under `base`. So a tensor written
as `name` is found again by `read_array(name)`, `read_array(file name)` and under the stripped key —
provided no other written name maps to the same entry: `"a"` and `"a.npy"` both map to `a.npy`, and
`npz::write` given both fails with the zip crate's duplicate-filename error (harness case
`# npz-duplicate`; nothing is silently shadowed). -/
theorem c34_npz_names (name f : List Nat) (h : npzFileName name = some f) :
    ∃ base, base ≠ [] ∧ f = base ++ npySuffix ∧ (name = base ∨ name = base ++ npySuffix) ∧
      npzFileName f = some f ∧ npzKey f = some base := by
  obtain ⟨base, hne, hf, hn⟩ := npzFileName_some h
  refine ⟨base, hne, hf, hn, ?_, ?_⟩
  · rw [hf]; exact npzFileName_base base hne
  · rw [hf]; exact stripNpy_append base

example : npzFileName [97] = some [97, 46, 110, 112, 121] := by decide
example : npzFileName [46, 110, 112, 121] = none := by decide

end RtenVerif.Npy
