import RtenVerif.Lemmas.ExtData

/-!
# C21 — External tensor data cannot escape the model directory or its file bounds

Property theorems over `RtenVerif.Model.ExtData` (model of `src/model/external_data.rs`
and of the Unix `std::path` functions it calls).  Paths are byte lists (`47 = '/'`,
`46 = '.'`).

* T1 (`c21_allowed_direct_child`, `c21_allowed_shape`): an accepted location denotes a
  direct child of the model directory and carries a data extension.
* T2 (`c21_allowed_iff`, `c21_reject_*`): every other class of location is rejected.
* T3 (`c21_mem_range_sound`, `c21_mmap_range_sound`, `c21_range_complete`,
  `c21_slice_exact`): accepted `(offset, length)` pairs lie inside the file, with no
  wrap-around anywhere, for all `u64` inputs.
* T4 (`c21_file_read_exact`, `c21_file_read_complete`): the file loader returns exactly
  `file[offset .. offset+length]` or an error.
* End to end (`c21_load_end_to_end`): parsing + allow-list + lookup + range check of any of
  the three loaders only ever yields `file[offset .. offset+length]` of an allowed name.
-/
namespace RtenVerif.ExtData

/-! ## T1 — accepted locations -/

/-- Shape of accepted locations: exactly one `Normal` component and an allowed extension. -/
theorem c21_allowed_iff (p : List Nat) :
    allowed p = true ↔
      ∃ name, components p = [Comp.normal name] ∧ ∃ e, extOfName name = some e ∧ extOk e = true := by
  unfold allowed
  constructor
  · intro h
    split at h
    · rename_i n more hc
      cases more with
      | cons x xs => simp at h
      | nil =>
        refine ⟨n, hc, ?_⟩
        simp only [List.isEmpty_nil, if_true] at h
        have hf : extension p = extOfName n := by
          simp [extension, fileName, hc]
        rw [hf] at h
        cases he : extOfName n with
        | none => rw [he] at h; cases h
        | some e => rw [he] at h; exact ⟨e, rfl, h⟩
    · cases h
  · rintro ⟨name, hc, e, he, hok⟩
    have hf : extension p = some e := by
      simp [extension, fileName, hc, he]
    simp [hc, hf, hok]

/-- **C21.T1** An accepted location `p` names a direct child of the model directory:
there is a file name `name` — non-empty, not `.`, not `..`, without `/`, with an extension
starting with `data` or `onnx_data` — such that for *every* directory buffer `d`
(`FileLoader`/`MmapLoader` use the canonicalised parent of the model file) the path
`d.push(p)` that is handed to `File::open` has exactly the components of `d` followed by
`name`, and lexical resolution ends in `name` directly below whatever `d` resolves to. -/
theorem c21_allowed_direct_child (p : List Nat) (h : allowed p = true) :
    ∃ name, name ≠ [] ∧ name ≠ [46] ∧ name ≠ [46, 46] ∧ 47 ∉ name ∧
      components p = [Comp.normal name] ∧
      (∃ e, extOfName name = some e ∧ extOk e = true) ∧
      ∀ d, components (push d p) = components d ++ [Comp.normal name] ∧
        lexResolve (components (push d p)) = lexResolve (components d) ++ [Comp.normal name] := by
  obtain ⟨name, hc, hext⟩ := (c21_allowed_iff p).mp h
  obtain ⟨hb, hhead⟩ := components_eq_body_of_head_normal hc
  have hbody : body p = [Comp.normal name] := by rw [← hb, hc]
  have hmem : Comp.normal name ∈ body p := by rw [hbody]; simp
  obtain ⟨h1, h2, h3, h4⟩ := body_normal_props hmem
  refine ⟨name, h1, h2, h3, h4, hc, hext, ?_⟩
  intro d
  have hcomp : components (push d p) = components d ++ [Comp.normal name] := by
    by_cases hd : d = []
    · subst hd; rw [push_nil, hc]; simp [components]
    · rw [components_push_rel d p hd hhead, hbody]
  exact ⟨hcomp, by rw [hcomp, lexResolve_append_normal]⟩

example : allowed [109, 46, 100, 97, 116, 97] = true := by decide          -- "m.data"
example : allowed [109, 46, 100, 97, 116, 97, 47, 46, 47] = true := by decide  -- "m.data/./"
example : components (push [47, 120] [109, 46, 100, 97, 116, 97]) =
    [Comp.root, Comp.normal [120], Comp.normal [109, 46, 100, 97, 116, 97]] := by decide

/-- **C21.T1 (string level)** An accepted location is literally `name ++ tail` where `name`
is the file name of T1 and `tail` is empty or starts with `/` and consists only of empty
and `.` segments (`/`, `/.`, `//./` …): nothing but the name reaches the directory walk. -/
theorem c21_allowed_shape (p : List Nat) (h : allowed p = true) :
    ∃ name tail, p = name ++ tail ∧ components p = [Comp.normal name] ∧ 47 ∉ name ∧
      (tail = [] ∨ tail.head? = some 47) ∧ body tail = [] := by
  obtain ⟨name, hc, _⟩ := (c21_allowed_iff p).mp h
  obtain ⟨hb, hhead⟩ := components_eq_body_of_head_normal hc
  have hbody : body p = [Comp.normal name] := by rw [← hb, hc]
  obtain ⟨seg, hns, hsplit⟩ := splitSlash_head p
  -- the first segment is a normal component
  have hcls : classify seg = some (Comp.normal name) ∧
      ((p = seg ∧ splitSlash p = [seg]) ∨ ∃ p', p = seg ++ 47 :: p' ∧ splitSlash p = seg :: splitSlash p' ∧ body p' = []) := by
    have hsp : ∃ rest, splitSlash p = seg :: rest := by
      rcases hsplit with ⟨_, h2⟩ | ⟨p', _, h2⟩
      · exact ⟨[], h2⟩
      · exact ⟨_, h2⟩
    obtain ⟨rest, hrest⟩ := hsp
    have hb2 := hbody
    unfold body at hb2
    rw [hrest, List.filterMap_cons] at hb2
    cases hcl : classify seg with
    | none =>
      exfalso
      -- seg = [] or seg = [46]
      unfold classify at hcl
      split at hcl
      · rename_i he
        subst he
        rcases hsplit with ⟨h1, _⟩ | ⟨p', h1, _⟩
        · subst h1; simp [components] at hc
        · rw [h1] at hhead; simp at hhead
      · split at hcl
        · rename_i he
          subst he
          rcases hsplit with ⟨h1, _⟩ | ⟨p', h1, _⟩
          · subst h1; simp [components] at hc
          · rw [h1] at hc; simp [components] at hc
        · split at hcl <;> cases hcl
    | some c =>
      rw [hcl] at hb2
      simp only at hb2
      injection hb2 with hb3 hb4
      subst hb3
      refine ⟨rfl, ?_⟩
      rcases hsplit with h | ⟨p', h1, h2⟩
      · exact Or.inl h
      · right
        refine ⟨p', h1, h2, ?_⟩
        rw [hrest] at h2
        injection h2 with _ h2
        unfold body
        rw [← h2]; exact hb4
  obtain ⟨hcl, hshape⟩ := hcls
  have hname : seg = name := by
    unfold classify at hcl
    split at hcl
    · cases hcl
    · split at hcl
      · cases hcl
      · split at hcl
        · cases hcl
        · injection hcl with hcl; injection hcl
  subst hname
  rcases hshape with ⟨h1, _⟩ | ⟨p', h1, _, h3⟩
  · exact ⟨seg, [], by simp [h1], hc, hns, Or.inl rfl, body_nil⟩
  · exact ⟨seg, 47 :: p', h1, hc, hns, Or.inr rfl, by rw [body_slash_cons]; exact h3⟩

/-! ## Audit follow-up: trailing separators, backslashes, the extension prefix rule, the cache key -/

/-- **Backslashes, drive letters, anything without `/`.** On Unix a string without a forward
slash that is not ``, `.`, `..` is one `Normal` component equal to the whole string —
`..\x.data`, `C:\x.data`, `dir\file.data` are plain file names (byte 92 is not a separator). -/
theorem c21_no_slash_single_name (p : List Nat) (h47 : 47 ∉ p)
    (h0 : p ≠ []) (h1 : p ≠ [46]) (h2 : p ≠ [46, 46]) : components p = [Comp.normal p] := by
  have hb : body p = [Comp.normal p] := by
    simp [body, splitSlash_no47 p h47, classify, h0, h1, h2]
  cases p with
  | nil => exact absurd rfl h0
  | cons c r =>
    have hc : c ≠ 47 := by intro e; apply h47; simp [e]
    simp only [components, hc, if_false]
    by_cases hd : c = 46
    · subst hd
      simp only [if_true]
      cases r with
      | nil => exact absurd rfl h1
      | cons d r' =>
        have hd' : d ≠ 47 := by intro e; apply h47; simp [e]
        simp only [hd', if_false]; exact hb
    · simp only [hd, if_false]; exact hb

/-- **Trailing `/`, `/.`, `//./` are harmless.** If `p` is accepted then its file name `name`
alone is accepted too, `p` and `name` are equal as `Path`s (same component list, hence the
same loader cache key), and for every directory `d` the path handed to `File::open` has the
same components as `d/name`: the resolved path is the direct child `name` of `d`. -/
theorem c21_trailing_noise_harmless (p : List Nat) (h : allowed p = true) :
    ∃ name tail, p = name ++ tail ∧ body tail = [] ∧ allowed name = true ∧
      components p = components name ∧
      ∀ d, components (push d p) = components (push d name) ∧
        components (push d p) = components d ++ [Comp.normal name] := by
  obtain ⟨name, h1, h2, h3, h4, hc, hext, hpush⟩ := c21_allowed_direct_child p h
  obtain ⟨name', tail, hp, hc', _, _, htail⟩ := c21_allowed_shape p h
  have hn : name' = name := by
    rw [hc] at hc'; injection hc' with e _; injection e with e; exact e.symm
  subst hn
  have hcn : components name' = [Comp.normal name'] := c21_no_slash_single_name name' h4 h1 h2 h3
  have han : allowed name' = true := (c21_allowed_iff name').mpr ⟨name', hcn, hext⟩
  obtain ⟨n2, _, _, _, _, hc2, _, hpush2⟩ := c21_allowed_direct_child name' han
  have hn2 : n2 = name' := by
    rw [hcn] at hc2; injection hc2 with e _; injection e with e; exact e.symm
  subst hn2
  refine ⟨n2, tail, hp, htail, han, by rw [hc, hcn], ?_⟩
  intro d
  exact ⟨by rw [(hpush d).1, (hpush2 d).1], (hpush d).1⟩

/-- **What "recognised data extension" means in the code**: a *prefix* rule.  The extension
(text after the last `.`) is `data…` or `onnx_data…` with an arbitrary suffix — so
`x.database`, `m.data_evil`, `w.onnx_data_7` are all recognised.  (T1 applies to all of
them alike: they are direct children of the model directory.) -/
theorem c21_ext_rule_exact (e : List Nat) :
    extOk e = true ↔ ∃ s, e = strData ++ s ∨ e = strOnnxData ++ s := by
  unfold extOk
  rw [Bool.or_eq_true, startsWith_iff, startsWith_iff]
  constructor
  · rintro (⟨s, h⟩ | ⟨s, h⟩)
    · exact ⟨s, Or.inl h⟩
    · exact ⟨s, Or.inr h⟩
  · rintro ⟨s, h | h⟩
    · exact Or.inl ⟨s, h⟩
    · exact Or.inr ⟨s, h⟩

/-- Cache invariant: every entry was produced by opening an accepted location with that key. -/
def CacheInv (openf : List Nat → Option (List Nat)) (c : Cache) : Prop :=
  ∀ k f, cacheFind c k = some f → ∃ q, allowed q = true ∧ components q = k ∧ openf q = some f

theorem cacheInv_nil (openf : List Nat → Option (List Nat)) : CacheInv openf [] := by
  intro k f h; simp [cacheFind] at h

/-- **The `PathBuf`-keyed cache cannot serve a different file.** Whatever `get_or_open_*`
returns for `loc` — freshly opened or from the cache, where `m.data` and `m.data/.` share
one entry — is the result of `File::open` on an accepted location `q` with the same
component list as `loc`; by `c21_trailing_noise_harmless` both denote the same direct child
of the model directory.  The invariant is preserved. -/
theorem c21_cache_sound (openf : List Nat → Option (List Nat)) (cache cache' : Cache)
    (loc file : List Nat) (hinv : CacheInv openf cache)
    (h : getOrOpen cache openf loc = .ok (file, cache')) :
    allowed loc = true ∧
    (∃ q, allowed q = true ∧ components q = components loc ∧ openf q = some file ∧
      ∀ d, components (push d q) = components (push d loc)) ∧
    CacheInv openf cache' := by
  unfold getOrOpen at h
  split at h
  · cases h
  · rename_i ha
    have hal : allowed loc = true := by
      cases hh : allowed loc with
      | true => rfl
      | false => simp [hh] at ha
    have same : ∀ q, allowed q = true → components q = components loc →
        ∀ d, components (push d q) = components (push d loc) := by
      intro q hq hqc d
      obtain ⟨n1, _, _, _, _, c1, _, p1⟩ := c21_allowed_direct_child q hq
      obtain ⟨n2, _, _, _, _, c2, _, p2⟩ := c21_allowed_direct_child loc hal
      have : n1 = n2 := by
        rw [c1, c2] at hqc; injection hqc with e _; injection e
      subst this
      rw [(p1 d).1, (p2 d).1]
    refine ⟨hal, ?_⟩
    split at h
    · rename_i f hf
      injection h with h; injection h with e1 e2; subst e1 e2
      obtain ⟨q, hq, hqc, hqo⟩ := hinv _ _ hf
      exact ⟨⟨q, hq, hqc, hqo, same q hq hqc⟩, hinv⟩
    · split at h
      · cases h
      · rename_i hmiss f hf
        injection h with h; injection h with e1 e2; subst e1 e2
        refine ⟨⟨loc, hal, rfl, hf, fun d => rfl⟩, ?_⟩
        intro k f' hk
        simp only [cacheFind] at hk
        split at hk
        · rename_i hkk
          injection hk with hk; subst hk
          exact ⟨loc, hal, hkk, hf⟩
        · exact hinv k f' hk

-- the spellings named by the audit and the property's quantifier text
example : allowed [109,46,100,97,116,97,47] = true := by decide                      -- "m.data/"
example : allowed [109,46,100,97,116,97,47,46] = true := by decide                   -- "m.data/."
example : allowed [109,46,100,97,116,97,47,47,46,47] = true := by decide             -- "m.data//./"
example : components [109,46,100,97,116,97,47,47,46,47] = components [109,46,100,97,116,97] := by decide
example : allowed [120,46,100,97,116,97,98,97,115,101] = true := by decide           -- "x.database"
example : allowed [109,46,100,97,116,97,95,101,118,105,108] = true := by decide      -- "m.data_evil"
example : allowed [46,46,92,120,46,100,97,116,97] = true ∧
    components [46,46,92,120,46,100,97,116,97] = [Comp.normal [46,46,92,120,46,100,97,116,97]] := by decide  -- "..\x.data"
example : allowed [67,58,92,120,46,100,97,116,97] = true ∧
    components [67,58,92,120,46,100,97,116,97] = [Comp.normal [67,58,92,120,46,100,97,116,97]] := by decide  -- "C:\x.data"
example : allowed [100,105,114,92,102,105,108,101,46,100,97,116,97] = true ∧
    components (push [47,109] [100,105,114,92,102,105,108,101,46,100,97,116,97]) =
      [Comp.root, Comp.normal [109], Comp.normal [100,105,114,92,102,105,108,101,46,100,97,116,97]] := by decide  -- "dir\file.data"
example : getOrOpen [] (fun l => if l = [109,46,100,97,116,97] then some [1,2] else none) [109,46,100,97,116,97] =
    .ok ([1,2], [([Comp.normal [109,46,100,97,116,97]], [1,2])]) := by decide
-- "m.data/." is served from the entry created by "m.data" although the OS would refuse to open it
example : getOrOpen [([Comp.normal [109,46,100,97,116,97]], [1,2])] (fun _ => none) [109,46,100,97,116,97,47,46] =
    .ok ([1,2], [([Comp.normal [109,46,100,97,116,97]], [1,2])]) := by decide

/-! ## T2 — everything else is rejected -/

/-- **C21.T2a** absolute locations are rejected. -/
theorem c21_reject_absolute (p : List Nat) (h : p.head? = some 47) : allowed p = false := by
  cases p with
  | nil => simp at h
  | cons c r =>
    simp at h
    subst h
    simp [allowed, components]

/-- Where the components of a path come from: every `body` entry of the segments. -/
theorem parent_mem_components {p : List Nat} (h : [46, 46] ∈ splitSlash p) :
    Comp.parent ∈ components p := by
  have hb : ∀ s, [46, 46] ∈ splitSlash s → Comp.parent ∈ body s := by
    intro s hs
    unfold body
    exact List.mem_filterMap.mpr ⟨[46, 46], hs, by decide⟩
  cases p with
  | nil => simp [splitSlash] at h
  | cons c r =>
    simp only [components]
    by_cases hc : c = 47
    · subst hc
      simp only [if_true]
      have : [46, 46] ∈ splitSlash r := by
        simp only [splitSlash, if_true] at h
        simpa using h
      exact List.mem_cons_of_mem _ (hb r this)
    · simp only [hc, if_false]
      by_cases hd : c = 46
      · subst hd
        simp only [if_true]
        cases r with
        | nil => simp [splitSlash] at h
        | cons d r' =>
          by_cases h47 : d = 47
          · subst h47
            simp only [if_true]
            have : [46, 46] ∈ splitSlash r' := by
              have hs : splitSlash (46 :: 47 :: r') = [46] :: splitSlash r' := by
                simp [splitSlash]
              rw [hs] at h
              simpa using h
            exact List.mem_cons_of_mem _ (hb r' this)
          · simp only [h47, if_false]
            exact hb _ h
      · simp only [hd, if_false]
        exact hb _ h

/-- **C21.T2b** a `..` segment anywhere (leading, middle, trailing) is rejected. -/
theorem c21_reject_parent (p : List Nat) (h : [46, 46] ∈ splitSlash p) : allowed p = false := by
  cases ha : allowed p with
  | false => rfl
  | true =>
    obtain ⟨name, hc, _⟩ := (c21_allowed_iff p).mp ha
    have := parent_mem_components h
    rw [hc] at this
    simp at this

/-- **C21.T2c** two or more components of any kind are rejected (this covers
`dir/file`, `./file`, `file/..`, `a/b/c`, …). -/
theorem c21_reject_two_components (p : List Nat) (h : 2 ≤ (components p).length) :
    allowed p = false := by
  cases ha : allowed p with
  | false => rfl
  | true =>
    obtain ⟨name, hc, _⟩ := (c21_allowed_iff p).mp ha
    rw [hc] at h
    simp at h

/-- String-level form of T2c: a separator with a real component on both sides. -/
theorem c21_reject_nested (a b : List Nat) (ha : body a ≠ []) (hb : body b ≠ []) :
    allowed (a ++ 47 :: b) = false := by
  apply c21_reject_two_components
  rw [components_append_slash]
  have h1 : 1 ≤ (components (a ++ [47])).length := by
    cases a with
    | nil => simp [components]
    | cons c a' =>
      rw [components_append_single_slash _ (by simp)]
      simp only [components]
      by_cases hc : c = 47
      · simp [hc]
      · simp only [hc, if_false]
        have hbl : 1 ≤ (body (c :: a')).length := by
          cases hbb : body (c :: a') with
          | nil => exact absurd hbb ha
          | cons x xs => simp
        by_cases hd : c = 46
        · simp only [hd, if_true]
          cases a' with
          | nil => simp
          | cons d a'' =>
            by_cases h47 : d = 47
            · simp [h47]
            · simp only [h47, if_false]; rw [hd] at hbl; exact hbl
        · simp only [hd, if_false]; exact hbl
  have h2 : 1 ≤ (body b).length := by
    cases hbb : body b with
    | nil => exact absurd hbb hb
    | cons x xs => simp
  simp only [List.length_append]
  omega

/-- **C21.T2d** the empty location, `.`, and anything starting with `./` are rejected. -/
theorem c21_reject_empty_and_dot :
    allowed [] = false ∧ allowed [46] = false ∧ allowed [46, 46] = false ∧
      ∀ r, allowed (46 :: 47 :: r) = false := by
  refine ⟨by decide, by decide, by decide, ?_⟩
  intro r
  simp [allowed, components]

/-- **C21.T2e** a single file name whose extension is missing or not a data extension is
rejected. -/
theorem c21_reject_extension (p name : List Nat) (hc : components p = [Comp.normal name])
    (h : ∀ e, extOfName name = some e → extOk e = false) : allowed p = false := by
  cases ha : allowed p with
  | false => rfl
  | true =>
    obtain ⟨name', hc', e, he, hok⟩ := (c21_allowed_iff p).mp ha
    rw [hc] at hc'
    injection hc' with h1 _
    injection h1 with h1
    subst h1
    rw [h e he] at hok
    cases hok

-- negative examples (tests, not proofs of the general statements above)
example : allowed [46, 46, 47, 109, 46, 100, 97, 116, 97] = false := by decide   -- "../m.data"
example : allowed [47, 109, 46, 100, 97, 116, 97] = false := by decide           -- "/m.data"
example : allowed [109, 46, 116, 120, 116] = false := by decide                  -- "m.txt"
example : allowed [46, 100, 97, 116, 97] = false := by decide                    -- ".data" (no extension)
example : allowed [97, 47, 109, 46, 100, 97, 116, 97] = false := by decide       -- "a/m.data"
/-- On Unix `\` is an ordinary byte: `..\m.data` is one file name (accepted, and harmless:
it is a direct child called `..\m.data`). -/
example : allowed [46, 46, 92, 109, 46, 100, 97, 116, 97] = true := by decide

/-! ## T3 — range checks of the in-memory and mmap loaders -/

/-- **C21.T3 (MemLoader)** For all `offset`, `length` (any `Nat`, in particular all of
`u64`) and every buffer length below `u64::MAX` (a Rust slice has at most `isize::MAX`
bytes), an accepted request has byte range exactly `offset .. offset+length` over `Nat`
and lies inside the buffer.  No wrap-around: the sum is the unbounded one. -/
theorem c21_mem_range_sound (off len flen s e : Nat) (hf : flen < U64_MAX)
    (h : memRange off len flen = .ok (s, e)) : s = off ∧ e = off + len ∧ off + len ≤ flen := by
  unfold memRange at h
  simp only at h
  split at h
  · cases h
  · rename_i hle
    injection h with h
    injection h with h1 h2
    have hlt : satAdd off len < U64_MAX := by omega
    have := satAdd_eq_of_lt hlt
    omega

/-- **C21.T3 (MmapLoader)** Same statement; the range end is recomputed by the code with
a wrapping `usize` addition, which the theorem shows never wraps. -/
theorem c21_mmap_range_sound (off len flen s e : Nat) (hf : flen < U64_MAX)
    (h : mmapRange off len flen = .ok (s, e)) : s = off ∧ e = off + len ∧ off + len ≤ flen := by
  unfold mmapRange at h
  simp only at h
  split at h
  · cases h
  · rename_i hle
    injection h with h
    injection h with h1 h2
    have hlt : satAdd off len < U64_MAX := by omega
    have hs := satAdd_eq_of_lt hlt
    have hm : (off + len) % (U64_MAX + 1) = off + len := Nat.mod_eq_of_lt (by omega)
    omega

example : memRange 8 8 32 = .ok (8, 16) := by decide
example : mmapRange 8 8 32 = .ok (8, 16) := by decide
example : mmapRange U64_MAX 8 32 = .error (.tooShort U64_MAX 32) := by decide
example : memRange (U64_MAX - 7) 8 32 = .error (.tooShort U64_MAX 32) := by decide

/-- The hypothesis `flen < u64::MAX` of T3 is necessary for the full statement: with a
(physically impossible) buffer of `u64::MAX` bytes the saturated sum passes the check and
the mmap loader's recomputed end wraps.  Unreachable: slices are ≤ `isize::MAX` bytes. -/
theorem c21_range_sound_without_bound_false :
    ¬ ∀ off len flen s e : Nat, off ≤ U64_MAX → len ≤ U64_MAX → flen ≤ U64_MAX →
      mmapRange off len flen = .ok (s, e) → off + len ≤ flen := by
  intro h
  have := h U64_MAX 1 U64_MAX U64_MAX 0 (by decide) (by decide) (by decide) (by decide)
  exact absurd this (by decide)

/-- Completeness: every in-range request is accepted by both loaders with the exact range. -/
theorem c21_range_complete (off len flen : Nat) (hf : flen ≤ U64_MAX) (h : off + len ≤ flen) :
    memRange off len flen = .ok (off, off + len) ∧ mmapRange off len flen = .ok (off, off + len) := by
  have hs : satAdd off len = off + len := by
    unfold satAdd; split <;> omega
  have hm : (off + len) % (U64_MAX + 1) = off + len := Nat.mod_eq_of_lt (by omega)
  constructor
  · unfold memRange; simp only [hs]; split
    · omega
    · rfl
  · unfold mmapRange; simp only [hs, hm]; split
    · omega
    · rfl

/-- Every out-of-range request (including every overflowing sum) is an error. -/
theorem c21_range_reject (off len flen : Nat) (hf : flen < U64_MAX) (h : flen < off + len) :
    (∃ r a, memRange off len flen = .error (.tooShort r a)) ∧
    (∃ r a, mmapRange off len flen = .error (.tooShort r a)) := by
  have hs : flen < satAdd off len := by
    unfold satAdd; split <;> omega
  constructor
  · exact ⟨satAdd off len, flen, by unfold memRange; simp only; rw [if_pos hs]⟩
  · exact ⟨satAdd off len, flen, by unfold mmapRange; simp only; rw [if_pos hs]⟩

/-- The bytes a tensor sees (`DataSlice::data`) for an accepted range are exactly
`data[offset .. offset+length]`; the slice indexing cannot panic. -/
theorem c21_slice_exact (data : List Nat) (off len : Nat) (h : off + len ≤ data.length) :
    sliceOf data (off, off + len) = some ((data.drop off).take len) ∧
      ((data.drop off).take len).length = len := by
  unfold sliceOf
  constructor
  · simp only [Nat.le_add_right, h, and_self, if_true, Nat.add_sub_cancel_left]
  · simp; omega

/-! ## T4 — the file loader -/

/-- **C21.T4** `FileLoader::read` (chunked loop with any positive chunk size, after the
file has been opened) either fails or returns exactly `length` bytes, which are
`file[offset .. offset+length]`, and the range lies inside the file. -/
theorem c21_file_read_exact (C : Nat) (hC : 0 < C) (file : List Nat) (off len : Nat) (bytes : List Nat)
    (h : fileReadWith true C file off len = .ok bytes) :
    bytes.length = len ∧ off + len ≤ file.length ∧ bytes = (file.drop off).take len := by
  unfold fileReadWith at h
  split at h
  · cases h
  · rename_i hlen
    split at h
    · cases h
    · rename_i hpre
      simp only [Bool.true_and, decide_eq_true_eq] at hpre
      split at h
      · cases h
      · rename_i hoff
        simp only at h
        rw [readLoop_spec C hC file _ off len [] (by omega)] at h
        simp only [List.nil_append] at h
        split at h
        · cases h
        · rename_i hl
          injection h with h
          subst h
          have hs : satAdd off len = off + len := by
            unfold satAdd
            unfold ISIZE_MAX at hlen
            unfold I64_MAX at hoff
            unfold U64_MAX
            split <;> omega
          rw [hs] at hpre
          refine ⟨by simpa using hl, by omega, rfl⟩

theorem c21_file_read_exact' (file : List Nat) (off len : Nat) (bytes : List Nat)
    (h : fileRead file off len = .ok bytes) :
    bytes.length = len ∧ off + len ≤ file.length ∧ bytes = (file.drop off).take len :=
  c21_file_read_exact TMP_SIZE (by decide) file off len bytes h

/-- Whatever short reads the OS produces, `read_fill` delivers `min k avail` bytes — the
atomic `readFill` of the model (`(readFill file pos k).length = min k (file.length - pos)`). -/
theorem c21_read_fill_short_reads (avail k : Nat) (hint : Nat → Nat) :
    ∀ fuel total, k - total < fuel → total ≤ min k avail →
      readFillCount avail k hint fuel total = min k avail := by
  intro fuel
  induction fuel with
  | zero => intro total h; omega
  | succ fuel ih =>
    intro total hf ht
    unfold readFillCount
    simp only
    obtain ⟨hb, hp⟩ := osRead_bounds (avail - total) (k - total) (hint total)
    by_cases hstop : osRead (avail - total) (k - total) (hint total) = 0 ∨
        total + osRead (avail - total) (k - total) (hint total) = k
    · simp only [hstop, if_true]
      rcases hstop with h0 | hk
      · rw [h0]
        have : ¬ 0 < min (k - total) (avail - total) := by
          intro hpos; have := hp hpos; omega
        omega
      · omega
    · simp only [hstop, if_false]
      have hn0 : osRead (avail - total) (k - total) (hint total) ≠ 0 := fun h => hstop (Or.inl h)
      apply ih
      · omega
      · omega


example : readFillCount 10 4 (fun _ => 1) 5 0 = 4 := by decide   -- four 1-byte reads
example : readFillCount 3 8 (fun t => t) 9 0 = 3 := by decide    -- EOF after 3 bytes

/-- Completeness of the file loader on real files (length ≤ `i64::MAX`). -/
theorem c21_file_read_complete (C : Nat) (hC : 0 < C) (file : List Nat) (off len : Nat)
    (hf : file.length ≤ I64_MAX) (h : off + len ≤ file.length) :
    fileReadWith true C file off len = .ok ((file.drop off).take len) := by
  have hs : satAdd off len = off + len := by
    unfold satAdd; split
    · rename_i hov; unfold U64_MAX at hov; unfold I64_MAX at hf; omega
    · rfl
  unfold fileReadWith
  have h1 : ¬ len > ISIZE_MAX := by unfold ISIZE_MAX; unfold I64_MAX at hf; omega
  have h2 : ¬ satAdd off len > file.length := by omega
  have h3 : ¬ off > I64_MAX := by omega
  simp only [h1, if_false, Bool.true_and, decide_eq_true_eq, h2, h3]
  rw [readLoop_spec C hC file _ off len [] (by omega)]
  simp only [List.nil_append]
  have : ((file.drop off).take len).length = len := by simp; omega
  simp [this]

/-- Out-of-range requests, oversized lengths and overflowing sums are errors. -/
theorem c21_file_read_reject (C : Nat) (file : List Nat) (off len : Nat)
    (h : file.length < off + len) (hf : file.length < U64_MAX) :
    ∃ e, fileReadWith true C file off len = .error e := by
  have hs : file.length < satAdd off len := by
    unfold satAdd; split <;> omega
  unfold fileReadWith
  split
  · exact ⟨_, rfl⟩
  · simp only [Bool.true_and, decide_eq_true_eq, gt_iff_lt, hs, if_true]
    exact ⟨_, rfl⟩

/-- What held for the code *before* the C21 fix (no comparison with the file size before
allocating and reading): the returned bytes are still exact … -/
theorem c21_file_read_orig_partial (C : Nat) (hC : 0 < C) (file : List Nat) (off len : Nat)
    (bytes : List Nat) (h : fileReadWith false C file off len = .ok bytes) :
    bytes.length = len ∧ bytes = (file.drop off).take len ∧ (len = 0 ∨ off + len ≤ file.length) := by
  unfold fileReadWith at h
  split at h
  · cases h
  · split at h
    · rename_i hh; simp at hh
    · split at h
      · cases h
      · simp only at h
        rw [readLoop_spec C hC file _ off len [] (by omega)] at h
        simp only [List.nil_append] at h
        split at h
        · cases h
        · rename_i hl
          injection h with h
          subst h
          have hl' : ((file.drop off).take len).length = len := by simpa using hl
          refine ⟨hl', rfl, ?_⟩
          simp at hl'
          omega

/-- … but the full statement was false of the original code: an offset past the end of
the file with `length = 0` was accepted (reproduced on the real code: `f 3 0 1 → ok`). -/
theorem c21_file_read_orig_false :
    ¬ ∀ (file : List Nat) (off len : Nat) (bytes : List Nat),
      fileReadWith false TMP_SIZE file off len = .ok bytes → off + len ≤ file.length := by
  intro h
  have := h [7] 3 0 [] (by decide)
  exact absurd this (by decide)

example : fileRead [1, 2, 3, 4, 5] 1 3 = .ok [2, 3, 4] := by decide
example : fileRead [1, 2, 3, 4, 5] 3 3 = .error (.tooShort 6 5) := by decide
example : fileRead [1, 2, 3] 0 (ISIZE_MAX + 1) = .error .invalidLength := by decide
example : fileReadWith true 2 [1, 2, 3, 4, 5] 0 5 = .ok [1, 2, 3, 4, 5] := by decide

/-! ## `external_data_location`: `u64` parsing cannot produce out-of-range numbers -/

theorem parseDigits_le (s : List Nat) : ∀ acc n, acc ≤ U64_MAX → parseDigits s acc = some n → n ≤ U64_MAX := by
  induction s with
  | nil => intro acc n ha h; simp [parseDigits] at h; omega
  | cons c cs ih =>
    intro acc n ha h
    unfold parseDigits at h
    split at h
    · simp only at h
      split at h
      · cases h
      · exact ih _ n (by omega) h
    · cases h

/-- Parsed offsets/lengths are genuine `u64` values (so T3/T4 cover everything the ONNX
loader can pass on). -/
theorem c21_parse_u64_bound (s : List Nat) (n : Nat) (h : parseU64 s = some n) : n ≤ U64_MAX := by
  unfold parseU64 at h
  split at h
  · cases h
  · split at h
    · split at h
      · cases h
      · exact parseDigits_le _ 0 n (by decide) h
    · exact parseDigits_le _ 0 n (by decide) h

/-! ## End to end -/

/-- **C21 (end to end)** Whatever loader is used, if the external-data path hands bytes to
a tensor then: the location passed the allow-list (hence T1: it is a plain data file name
directly in the model directory), offset and length were well-formed `u64` numbers, the
environment really has an entry for that location, the range lies inside that entry with
no wrap-around, and the bytes are exactly `file[offset .. offset+length]`. -/
theorem c21_load_end_to_end (ld : Loader) (lookup : List Nat → Option (List Nat))
    (hfiles : ∀ l f, lookup l = some f → f.length < U64_MAX)
    (loc offS lenS bytes : List Nat) (h : loadExternal ld lookup loc offS lenS = .ok bytes) :
    allowed loc = true ∧ ∃ off len file, parseU64 offS = some off ∧ parseU64 lenS = some len ∧
      off ≤ U64_MAX ∧ len ≤ U64_MAX ∧
      lookup loc = some file ∧ off + len ≤ file.length ∧ bytes = (file.drop off).take len ∧
      bytes.length = len := by
  unfold loadExternal at h
  split at h
  · cases h
  · rename_i off hoff
    split at h
    · cases h
    · rename_i len hlen
      split at h
      · cases h
      · split at h
        · cases h
        · rename_i hallow
          have hal : allowed loc = true := by
            cases ha : allowed loc with
            | true => rfl
            | false => simp [ha] at hallow
          refine ⟨hal, off, len, ?_⟩
          split at h
          · cases h
          · rename_i file hfile
            have hfl := hfiles loc file hfile
            refine ⟨file, hoff, hlen, c21_parse_u64_bound _ _ hoff, c21_parse_u64_bound _ _ hlen, hfile, ?_⟩
            split at h
            · -- file loader
              split at h
              · rename_i bs hr
                injection h with h; subst h
                obtain ⟨h1, h2, h3⟩ := c21_file_read_exact' file off len _ hr
                exact ⟨h2, h3, h1⟩
              · cases h
            · -- mmap loader
              split at h
              · cases h
              · rename_i r hr
                obtain ⟨s, e⟩ := r
                obtain ⟨hs, he, hle⟩ := c21_mmap_range_sound off len file.length s e hfl hr
                obtain ⟨hsl, hl⟩ := c21_slice_exact file off len hle
                rw [hs, he, hsl] at h
                simp only at h
                injection h with h; subst h
                exact ⟨hle, rfl, hl⟩
            · -- in-memory loader
              split at h
              · cases h
              · rename_i r hr
                obtain ⟨s, e⟩ := r
                obtain ⟨hs, he, hle⟩ := c21_mem_range_sound off len file.length s e hfl hr
                obtain ⟨hsl, hl⟩ := c21_slice_exact file off len hle
                rw [hs, he, hsl] at h
                simp only at h
                injection h with h; subst h
                exact ⟨hle, rfl, hl⟩

/-- Non-vacuity: `"w.data"`, offset `"1"`, length `"2"` on a 4-byte file, all loaders. -/
example : ∀ ld, loadExternal ld (fun l => if l = [119, 46, 100, 97, 116, 97] then some [9, 8, 7, 6] else none)
    [119, 46, 100, 97, 116, 97] [49] [50] = .ok [8, 7] := by
  intro ld; cases ld <;> decide
/-- `"../w.data"` is refused by every loader even though the environment would serve it. -/
example : ∀ ld, loadExternal ld (fun _ => some [9, 8, 7, 6])
    [46, 46, 47, 119, 46, 100, 97, 116, 97] [49] [50] = .error (.load .disallowed) := by
  intro ld; cases ld <;> decide

end RtenVerif.ExtData
