import RtenVerif.Props.C35Bounded6Defs

/-! C35.S3 bounded scope, chunk `c`: smallest code in `0..0`, second smallest in `2..3`
(kernel evaluation; bounded statement). -/
namespace RtenVerif.Poly

theorem c35_chunk6_c : chunkOk 0 0 2 3 = true := by decide +kernel

end RtenVerif.Poly
