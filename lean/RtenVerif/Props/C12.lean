import RtenVerif.Lemmas.OutputTypes
import RtenVerif.Generated.OutputTypeTable

/-!
# C12 — Declared operator output types match produced types

Model: `RtenVerif/Model/OutputTypes.lean` (rule language of `src/operator.rs`, the type part of
`infer_shapes`, `CastElimination`'s guard, `Cast`); per-operator rule table generated from
`src/ops/**/*.rs` by `translate/output_types.py`.

The property has two layers.  The *leaf* layer — each operator's declared rule equals the dtype
the operator really produces (`RuleSound`, hypothesis `H_o`) — is a statement about ~160 Rust
kernels; it is discharged by finite enumeration on the real code (harness `c12`: complete in
the dtype dimension, sampled in shapes and attributes).  The *composition* layer — sound rules
imply sound labels over any graph, and `CastElimination` is then semantics preserving — is
proved here.
-/
namespace RtenVerif.OutputTypes

/-- **C12.T1** Composition: for every plan (any list of operator nodes, any wiring), any static
metadata and any execution `rt`: if the static metadata is right about the execution, every
label already present is right, and every operator's rule is sound for this execution (`H_o`),
then every label computed by the propagation loop — strict or best-effort — is the run-time
type of that value. -/
theorem c12_propagation_sound (rt : RtTyping) (strict : Bool) (static : NodeId → Option VType)
    (hs : StaticSound rt static) :
    ∀ (plan : List OpNode) (types0 types : TypeMap),
      Sound rt types0 → (∀ op ∈ plan, RuleSound rt op) →
      propagate strict static plan types0 = some types → Sound rt types := by
  intro plan
  induction plan with
  | nil =>
    intro types0 types h0 _ h
    simp [propagate] at h; cases h; exact h0
  | cons op ops ih =>
    intro types0 types h0 hall h
    simp only [propagate] at h
    split at h
    · rename_i types' hstep
      exact ih types' types
        (stepOp_sound rt strict static op types0 types' hs h0 (hall op (by simp)) hstep)
        (fun o ho => hall o (by simp [ho])) h
    · cases h

/-- **C12.T1'** The label the optimizer leaves on a value (`update_value_type` over the static
dtype) is its run-time type. This is the label `CastElimination` reads. -/
theorem c12_label_sound (rt : RtTyping) (strict : Bool) (static : NodeId → Option VType)
    (plan : List OpNode) (types : TypeMap)
    (hs : StaticSound rt static) (hall : ∀ op ∈ plan, RuleSound rt op)
    (h : propagate strict static plan [] = some types) (id : NodeId) (t : VType)
    (hl : label static types id = some t) : rt id = some t := by
  have hsound := c12_propagation_sound rt strict static hs plan [] types
    (by intro id t h; simp [TypeMap.get] at h) hall h
  unfold label at hl
  cases hget : types.get id with
  | some t' => simp only [hget] at hl; cases hl; exact hsound id _ hget
  | none => simp only [hget] at hl; exact hs id t hl

/-- Non-vacuity of T1: `x:float → Cast(to=int32) → Equal(·,·) → SequenceConstruct → SequenceAt`
with an execution in which every rule is sound; all four labels are computed. -/
def demoPlan : List OpNode :=
  [ { rules := some [.fixed (.tensor .int32)], inputs := [some 0], outputs := [some 1] },
    { rules := some [.fixed (.tensor .int32)], inputs := [some 1, some 1], outputs := [some 2] },
    { rules := some [.sequenceWithElementTypeOfInput 0], inputs := [some 0, some 0], outputs := [some 3] },
    { rules := some [.elementTypeOfInputSequence 0], inputs := [some 3, some 2], outputs := [some 4] } ]

def demoStatic : NodeId → Option VType := fun id => if id = 0 then some (.tensor .float) else none

example : propagate true demoStatic demoPlan [] =
    some [(4, .tensor .float), (3, .sequence .float), (2, .tensor .int32), (1, .tensor .int32)] := by
  decide

/-- The hypothesis `H_o` cannot be dropped: with an operator whose rule says `CopyFromInput(0)` but
which produces int32 from a float input, the computed label is wrong. -/
theorem c12_unsound_rule_gives_wrong_label :
    ∃ (rt : RtTyping) (static : NodeId → Option VType) (plan : List OpNode) (types : TypeMap),
      StaticSound rt static ∧ propagate false static plan [] = some types ∧ ¬ Sound rt types := by
  refine ⟨fun id => if id = 0 then some (.tensor .float) else if id = 1 then some (.tensor .int32) else none,
    demoStatic,
    [{ rules := some [.copyFromInput 0], inputs := [some 0], outputs := [some 1] }],
    [(1, .tensor .float)], ?_, by decide, ?_⟩
  · intro id t h
    unfold demoStatic at h
    by_cases h0 : id = 0
    · subst h0; simpa using h
    · simp [h0] at h
  · intro hs
    have := hs 1 (.tensor .float) (by decide)
    simp at this

/-- Finding `C12-quantizelinear-u8` (fixed): before the fix `QuantizeLinear::output_types` returned
`Fixed(int8)` when no `output_dtype` attribute is set, while `run` produces the zero point's type.
For the execution "inputs float, float, uint8 → output uint8" (what the real operator does) the old
rule violates `H_o`; the new rule `CopyFromInput(2)` evaluates to the produced type. -/
def quantRt : RtTyping := fun id => if id = 2 ∨ id = 3 then some (.tensor .uint8) else some (.tensor .float)
def quantOp (r : Rule) : OpNode := { rules := some [r], inputs := [some 0, some 1, some 2], outputs := [some 3] }

theorem c12_quantize_old_rule_unsound :
    ¬ RuleSound quantRt (quantOp (.fixed (.tensor .int8))) ∧
    (Rule.copyFromInput 2).eval (rtInput quantRt (quantOp (.copyFromInput 2))) = quantRt 3 := by
  refine ⟨?_, by decide⟩
  intro h
  have := h [.fixed (.tensor .int8)] rfl 0 3 (.fixed (.tensor .int8)) (by decide) rfl
    (.tensor .int8) rfl
  revert this
  decide

/-- **C12.T2** `CastElimination` is semantics preserving given sound labels: if the guard holds
for a label that is the run-time type of the Cast's input, then `Cast` returns its input
unchanged, so replacing the node by the identity (`Fusion::Identity`) does not change any value. -/
theorem c12_cast_elimination_sound {α : Type} (conv : DType → DType → α → α) (to : DType)
    (v : RtValue α) (lab : Option VType)
    (hsound : ∀ t, lab = some t → v.vtype = t)
    (hguard : castElimGuard lab to = true) : castOp conv to v = some v := by
  unfold castElimGuard at hguard
  cases lab with
  | none => simp at hguard
  | some t =>
    have ht : t = .tensor to := by simpa using hguard
    have hv := hsound t rfl
    subst ht
    cases v with
    | tensor d p =>
      have : d = to := by simpa [RtValue.vtype] using hv
      simp [castOp, this]
    | sequence d items => simp [RtValue.vtype] at hv

/-- Non-vacuity of T2: a float tensor labelled float, Cast(to = float). -/
example : castElimGuard (some (.tensor .float)) .float = true ∧
    (RtValue.tensor .float (7 : Nat)).vtype = .tensor .float := by decide

/-- T2 needs the sound label: a float tensor wrongly labelled int32 would have its
`Cast(to = int32)` removed although the cast changes type and payload. -/
theorem c12_cast_elimination_needs_sound_label :
    castElimGuard (some (.tensor .int32)) .int32 = true ∧
    castOp (fun _ _ (p : Nat) => p + 1) .int32 (RtValue.tensor .float 7) = some (.tensor .int32 8) := by
  decide

/-- The guard never fires without a label, and never for a sequence label. -/
theorem c12_guard_conservative (to d : DType) :
    castElimGuard none to = false ∧ castElimGuard (some (.sequence d)) to = false := by
  cases to <;> cases d <;> decide

/-- **C12.T3** Sanity of the generated table (re-checked on every run because the table is
regenerated from the source first): every input index used by a `CopyFromInput` /
`ElementTypeOfInputSequence` / `SequenceWithElementTypeOfInput` rule of an operator with a literal
`max_inputs = Some(n)` is `< n`. -/
theorem c12_table_slots_ok : Generated.table.all Entry.slotsOk = true := by decide

/-- The table is not empty and not all-opaque (so T3 is not vacuous): it has more than 150 entries,
fewer than 5 opaque ones, and `OneHot`'s `CopyFromInput(2)` is checked against `max_inputs = 3`. -/
theorem c12_table_nontrivial :
    150 < Generated.table.length ∧
    (Generated.table.filter fun e => match e.body with | .opaque => true | _ => false).length < 5 ∧
    (Generated.table.filter fun e => match e.body, e.maxInputs with
      | .list [.copyFromInput 2], some 3 => true | _, _ => false).length ≥ 1 := by decide +kernel

/-! ## Static metadata: where `StaticSound` is really needed (audit M2) -/

/-- An inferred label overwrites whatever the model file declared for that value
(`update_value_type`): for a labelled id the optimizer's label does not depend on `static` at all, so
a wrong `value_info` dtype on a value that receives an inferred label is harmless. -/
theorem c12_label_overwrites_static (static static' : NodeId → Option VType) (types : TypeMap) (id : NodeId)
    (t : VType) (h : types.get id = some t) : label static types id = some t ∧ label static' types id = some t := by
  simp [label, h]

/-- `StaticSound` cannot be dropped for values that receive NO inferred label (producer without
rules, or with an input of unknown type): `x` (undeclared, float at run time) → `Identity` → `m`
declared int32 by a lying `value_info` → `Cast(to = int32)`. No label is inferred for `m`, the
guard reads the declaration and the needed Cast is removed. The harness reproduces exactly this
on the real optimizer (bucket `lying_value_info_changed_output`; classified as an inconsistent model
file, not a defect: rten trusts declared types, and ONNX requires typed graph inputs). -/
theorem c12_lying_value_info_drops_cast :
    let static : NodeId → Option VType := fun id => if id = 1 then some (.tensor .int32) else none
    let plan : List OpNode := [{ rules := some [.copyFromInput 0], inputs := [some 0], outputs := [some 1] }]
    propagate false static plan [] = some [] ∧
    castElimGuard (label static [] 1) .int32 = true ∧
    castOp (fun _ _ (p : Nat) => p + 1) .int32 (RtValue.tensor .float 7) ≠ some (RtValue.tensor .float 7) := by
  decide

/-- With a declared (sound) input the same lying `value_info` is overwritten and the Cast stays. -/
theorem c12_lying_value_info_overwritten :
    let static : NodeId → Option VType := fun id =>
      if id = 0 then some (.tensor .float) else if id = 1 then some (.tensor .int32) else none
    let plan : List OpNode := [{ rules := some [.copyFromInput 0], inputs := [some 0], outputs := [some 1] }]
    ∃ types, propagate false static plan [] = some types ∧ label static types 1 = some (.tensor .float) ∧
      castElimGuard (label static types 1) .int32 = false := by
  exact ⟨[(1, .tensor .float)], by decide, by decide, by decide⟩

/-! ## The plan's rules are the generated table's rules (audit M3) -/

/-- One operator of a graph as the harness / driver describes it: table key, dtype attributes,
input and output ids. -/
structure OpSpec where
  key : String
  attrs : Attrs
  inputs : List (Option NodeId)
  outputs : List (Option NodeId)

/-- The `OpNode` whose rule list is what the generated table gives for this operator
(`none`: unknown key, opaque body or missing attribute). -/
def OpSpec.toNode (table : List Entry) (o : OpSpec) : Option OpNode :=
  (findEntry table o.key).bind fun e =>
    (e.body.rules o.attrs o.outputs.length).map fun r => { rules := r, inputs := o.inputs, outputs := o.outputs }

def planOfTable (table : List Entry) : List OpSpec → Option (List OpNode)
  | [] => some []
  | o :: os =>
    match o.toNode table with
    | none => none
    | some n =>
      match planOfTable table os with
      | none => none
      | some ns => some (n :: ns)

theorem mem_planOfTable (table : List Entry) : ∀ (specs : List OpSpec) (plan : List OpNode),
    planOfTable table specs = some plan → ∀ op ∈ plan, ∃ o ∈ specs, o.toNode table = some op := by
  intro specs
  induction specs with
  | nil => intro plan h op hop; simp only [planOfTable] at h; cases h; simp at hop
  | cons o os ih =>
    intro plan h op hop
    simp only [planOfTable] at h
    cases hn : o.toNode table with
    | none => simp [hn] at h
    | some n =>
      simp only [hn] at h
      cases hr : planOfTable table os with
      | none => simp [hr] at h
      | some ns =>
        simp only [hr] at h; cases h
        rcases List.mem_cons.mp hop with rfl | hmem
        · exact ⟨o, by simp, hn⟩
        · obtain ⟨o', ho', hn'⟩ := ih ns hr op hmem
          exact ⟨o', by simp [ho'], hn'⟩

/-- **C12.T1 over the generated table**: for a graph described by table keys, if every operator's
TABLE rule (`Body.rules` of its `Generated.table` entry, instantiated with its attributes and output
count) is sound for the execution, every propagated label is the run-time type. This is the form in
which the leaf hypothesis is discharged by the harness: its `rules` lines show that the table rule
equals the rule object the live operator returns, its `lab` lines that the rule predicts the
produced dtype. -/
theorem c12_propagation_sound_table (rt : RtTyping) (strict : Bool) (static : NodeId → Option VType)
    (hs : StaticSound rt static) (specs : List OpSpec) (plan : List OpNode) (types : TypeMap)
    (hplan : planOfTable Generated.table specs = some plan)
    (hleaf : ∀ o ∈ specs, ∀ n, o.toNode Generated.table = some n → RuleSound rt n)
    (h : propagate strict static plan [] = some types) : Sound rt types := by
  refine c12_propagation_sound rt strict static hs plan [] types (by intro id t h; simp [TypeMap.get] at h) ?_ h
  intro op hop
  obtain ⟨o, ho, hn⟩ := mem_planOfTable Generated.table specs plan hplan op hop
  exact hleaf o ho op hn

end RtenVerif.OutputTypes
