import RtenVerif.Lemmas.TensorBoundsOverlapM
import RtenVerif.Lemmas.TensorBoundsSplit
import RtenVerif.Lemmas.TensorBoundsViews
import RtenVerif.Lemmas.TensorBoundsSliceM
import RtenVerif.Lemmas.TensorBoundsOwned
import RtenVerif.Lemmas.TensorBoundsAxes
import RtenVerif.Props.C08

/-!
# C06 — Safe tensor APIs never access memory out of bounds or alias mutably

Theorems over `RtenVerif/Model/TensorBounds.lean` (model of the size / offset arithmetic of
`rten-tensor`'s `layout.rs`, `tensor.rs`, `overlap.rs`, `storage.rs`).  `dims` is the list of
`(size, stride)` pairs of a layout; `ValidIdx dims idx` (from `Lemmas/Overlap.lean`) says that
`idx` has the right rank and every component is in range.

* **T1** (ideal) every valid index maps below `min_data_len`.
* **T2** (ideal) constructor soundness: every accepted tensor has `min_data_len ≤ |storage|`, so
  every valid index addresses an element of the storage; tensors with mutable storage have
  passed the overlap check, so distinct valid indices address distinct elements (C08); the two
  halves of `split_at_mut` address disjoint element sets inside their own storage ranges.
* **T3** (machine) the `UInt64` constructors accept exactly what the ideal ones accept — only
  layouts whose ideal `len` and `min_data_len` are `≤ isize::MAX` — and on every accepted
  layout the wrap-around arithmetic equals the ideal arithmetic.  For the code *before* the
  fix T3 is false; the witnesses are kept (`c06_T3_old_false_*`).
-/
namespace RtenVerif.TensorBounds
open RtenVerif.Overlap

/-! ## T1 -/

/-- **C06.T1** (`TrustedLayout` promise, ideal integers): for every layout, every valid index
maps to an offset `< min_data_len`. -/
theorem c06_T1_offset_lt_min_data_len (dims : List (Nat × Nat)) (idx : List Nat)
    (h : ValidIdx dims idx) : offset dims idx < minDataLen dims := by
  unfold minDataLen
  rw [valid_hasZero h]
  have := valid_offset_le h
  simp only [Bool.false_eq_true, if_false]
  omega

/-- T1 in terms of the executable `Layout::offset` model: whatever it returns is in range. -/
theorem c06_T1_offsetOf (dims : List (Nat × Nat)) (idx : List Nat) (o : Nat)
    (h : offsetOf dims idx = some o) : o < minDataLen dims := by
  unfold offsetOf at h
  split at h
  · next hv =>
    cases h
    exact c06_T1_offset_lt_min_data_len dims idx ((validIdx_iff _ _).mp hv)
  · cases h

/-- Non-vacuity: a transposed, stepped layout and its last element. -/
example : ValidIdx [(3, 2), (4, 8)] [2, 3] ∧ offset [(3, 2), (4, 8)] [2, 3] = 28 ∧
    minDataLen [(3, 2), (4, 8)] = 29 := by
  refine ⟨.cons (by omega) (.cons (by omega) .nil), by decide, by decide⟩

/-! ## T2: constructor soundness -/

/-- The invariant every constructor establishes between a layout, the length `n` of the
storage it is paired with, and the storage's mutability. -/
structure Accepted (dims : List (Nat × Nat)) (n : Nat) (mutable : Bool) : Prop where
  /-- the element count, counted over the non-empty dimensions, fits `isize` -/
  shape_fits : prodNZ (shapeOf dims) ≤ isizeMax
  /-- the largest offset fits `isize` -/
  offset_fits : maxOffset dims < isizeMax
  /-- the storage is long enough -/
  storage_long_enough : minDataLen dims ≤ n
  /-- mutable storage only with layouts that passed the overlap check -/
  no_overlap : mutable = true → mayOverlap dims = false

/-- **C06.T2a** every valid index of an accepted tensor addresses an element of its storage. -/
theorem c06_T2_in_bounds {dims : List (Nat × Nat)} {n : Nat} {m : Bool} (acc : Accepted dims n m)
    {idx : List Nat} (h : ValidIdx dims idx) : offset dims idx < n :=
  Nat.lt_of_lt_of_le (c06_T1_offset_lt_min_data_len dims idx h) acc.storage_long_enough

/-- **C06.T2b** in an accepted tensor with mutable storage, two different valid indices never
address the same element, so the `&mut` obtained for them (`get_mut`, `IndexMut`) do not
alias.  (C08.T1 applied to the overlap check the constructors ran.) -/
theorem c06_T2_no_alias {dims : List (Nat × Nat)} {n : Nat} (acc : Accepted dims n true)
    {i j : List Nat} (hi : ValidIdx dims i) (hj : ValidIdx dims j) (hne : i ≠ j) :
    offset dims i ≠ offset dims j := fun h =>
  hne (c08_no_overlap_injective dims i j (acc.no_overlap rfl) hi hj h)

/-- The index → offset map of a layout is injective on valid indices (what the overlap check
guarantees, `c08_no_overlap_injective`; unlike the conservative check itself, this property is
inherited by every sub-view). -/
def Inj (dims : List (Nat × Nat)) : Prop :=
  ∀ i j, ValidIdx dims i → ValidIdx dims j → offset dims i = offset dims j → i = j

theorem inj_of_no_overlap {dims : List (Nat × Nat)} (h : mayOverlap dims = false) : Inj dims :=
  fun i j hi hj heq => c08_no_overlap_injective dims i j h hi hj heq

theorem accepted_of_checked {dims : List (Nat × Nat)} {n : Nat} {m : Bool}
    (h1 : (checkedMinDataLen dims).isSome) (h2 : minDataLen dims ≤ n)
    (h3 : m = true → mayOverlap dims = false) : Accepted dims n m := by
  rw [checkedMinDataLen_eq] at h1
  split at h1
  · next h => exact ⟨h.1, h.2, h2, h3⟩
  · cases h1

/-- **C06.T2c** `try_from_data` (owning / mutable storage): accepted ⇒ invariant, and the storage
length is exactly the element count. -/
theorem c06_T2_tryFromData {shape : List Nat} {n : Nat} {l : List (Nat × Nat)}
    (h : tryFromData shape n = .ok l) :
    l = contigDims shape ∧ Accepted l n true ∧ len l = n ∧ minDataLen l = n := by
  unfold tryFromData at h
  split at h
  · cases h
  · next h1 =>
    split at h
    · cases h
    · next h2 =>
      cases h
      rw [checkedShapeLen_eq] at h1
      have hfit : prodNZ shape ≤ isizeMax := by
        by_cases hp : prodNZ shape ≤ isizeMax
        · exact hp
        · simp [hp] at h1
      have hmo := maxOffset_contig_lt shape
      have hn : minDataLen (contigDims shape) = n := by
        by_cases hq : minDataLen (contigDims shape) = n
        · exact hq
        · exact absurd hq h2
      refine ⟨rfl, ⟨?_, ?_, ?_, fun _ => mayOverlap_contig shape⟩, ?_, hn⟩
      · rw [shapeOf_contigDims]; exact hfit
      · omega
      · omega
      · rw [len_contig, ← hn, minDataLen_contig]

/-- `from_data` accepts exactly what `try_from_data` accepts. -/
theorem c06_T2_fromData {shape : List Nat} {n : Nat} {l : List (Nat × Nat)}
    (h : fromData shape n = .ok l) : Accepted l n true ∧ len l = n := by
  unfold fromData at h
  split at h
  · next l' h' =>
    cases h
    have := c06_T2_tryFromData h'
    exact ⟨this.2.1, this.2.2.1⟩
  · cases h

theorem fromShapeAndStrides_ok {dims l : List (Nat × Nat)} {d : Bool}
    (h : fromShapeAndStrides dims d = .ok l) :
    l = dims ∧ (checkedMinDataLen dims).isSome ∧ (d = true → mayOverlap dims = false) := by
  unfold fromShapeAndStrides at h
  split at h
  · cases h
  · next h1 =>
    split at h
    · cases h
    · next h2 =>
      cases h
      refine ⟨rfl, ?_, ?_⟩
      · cases hc : checkedMinDataLen dims <;> simp_all
      · intro hd
        subst hd
        simpa using h2

/-- **C06.T2d** `from_data_with_strides` (owning / mutable storage, `DisallowOverlap`). -/
theorem c06_T2_fromDataWithStrides {dims l : List (Nat × Nat)} {n : Nat}
    (h : fromDataWithStrides dims n = .ok l) : l = dims ∧ Accepted l n true := by
  unfold fromDataWithStrides at h
  split at h
  · cases h
  · next l' h' =>
    obtain ⟨rfl, h1, h3⟩ := fromShapeAndStrides_ok h'
    split at h
    · cases h
    · next h2 =>
      cases h
      exact ⟨rfl, accepted_of_checked h1 (by omega) h3⟩

/-- **C06.T2e** `from_slice_with_strides` (immutable view, `AllowOverlap`). -/
theorem c06_T2_fromSliceWithStrides {dims l : List (Nat × Nat)} {n : Nat}
    (h : fromSliceWithStrides dims n = .ok l) : l = dims ∧ Accepted l n false := by
  unfold fromSliceWithStrides at h
  split at h
  · cases h
  · next l' h' =>
    obtain ⟨rfl, h1, _⟩ := fromShapeAndStrides_ok h'
    split at h
    · cases h
    · next h2 =>
      cases h
      exact ⟨rfl, accepted_of_checked h1 (by omega) (fun h => by cases h)⟩

/-- **C06.T2f** `from_storage_and_layout` with an arbitrary layout value (e.g. after
`resize_dim`) and mutable or immutable storage. -/
theorem c06_T2_fromStorageAndLayout {dims l : List (Nat × Nat)} {n : Nat} {m : Bool}
    (h : fromStorageAndLayout dims n m = .ok l) : l = dims ∧ Accepted l n m := by
  unfold fromStorageAndLayout at h
  split at h
  · cases h
  · next k hk =>
    split at h
    · cases h
    · next h2 =>
      split at h
      · cases h
      · next h3 =>
        cases h
        have hk' := hk
        rw [checkedMinDataLen_eq] at hk'
        split at hk'
        · cases hk'
          refine ⟨rfl, accepted_of_checked (by simp [hk]) (by omega) ?_⟩
          intro hm
          subst hm
          simpa using h3
        · cases hk'

/-- Non-vacuity: each constructor accepts a non-trivial tensor (a 2×3 matrix; a transposed,
stepped 3×4 view of 29 elements; a broadcast immutable view), and rejects what it should. -/
example : tryFromData [2, 3] 6 = .ok [(2, 3), (3, 1)] ∧ tryFromData [2, 3] 5 = .error .mismatch ∧
    fromDataWithStrides [(3, 2), (4, 8)] 29 = .ok [(3, 2), (4, 8)] ∧
    fromDataWithStrides [(3, 2), (4, 8)] 28 = .error .tooShort ∧
    fromDataWithStrides [(5, 1), (5, 0)] 5 = .error .overlap ∧
    fromSliceWithStrides [(5, 1), (5, 0)] 5 = .ok [(5, 1), (5, 0)] ∧
    fromStorageAndLayout [(5, 1), (5, 0)] 5 true = .error .panic ∧
    fromStorageAndLayout [(5, 1), (5, 0)] 5 false = .ok [(5, 1), (5, 0)] := by decide

/-! ## T2: `split_at_mut` -/

/-- **C06.T2g** (`MutLayout::split`, used by `split_at` / `split_at_mut`).  For every layout,
axis and split point the code accepts: an element addressed through the left half lies in the
left half's offset range, an element addressed through the right half lies in the right half's
range, both lie below the parent's `min_data_len` (hence inside the parent's storage), and —
when the parent passed the overlap check, as every mutable tensor has — no element can be
reached through both halves, so the two `&mut` views never alias. -/
theorem c06_T2_split {dims : List (Nat × Nat)} {axis mid : Nat} {l r : View}
    (h : split dims axis mid = some (l, r)) :
    (∀ i, ValidIdx l.dims i →
      l.start + offset l.dims i < l.stop ∧ l.start + offset l.dims i < minDataLen dims) ∧
    (∀ j, ValidIdx r.dims j →
      r.start ≤ r.start + offset r.dims j ∧ r.start + offset r.dims j < r.stop ∧
      r.stop ≤ minDataLen dims) ∧
    (Inj dims → (∀ i j, ValidIdx l.dims i → ValidIdx r.dims j →
      l.start + offset l.dims i ≠ r.start + offset r.dims j) ∧ Inj l.dims ∧ Inj r.dims) := by
  unfold split at h
  split at h
  · next hc =>
    obtain ⟨hax, hmid⟩ := hc
    simp only [Option.some.injEq, Prod.mk.injEq] at h
    obtain ⟨rfl, rfl⟩ := h
    have hR : ∀ j, ValidIdx (setSize dims axis (sizeAt dims axis - mid)) j →
        (if len (setSize dims axis (sizeAt dims axis - mid)) = 0 then
            (⟨minDataLen dims, minDataLen dims, setSize dims axis (sizeAt dims axis - mid)⟩ : View)
          else ⟨mid * strideAt dims axis, minDataLen dims,
            setSize dims axis (sizeAt dims axis - mid)⟩) =
          ⟨mid * strideAt dims axis, minDataLen dims,
            setSize dims axis (sizeAt dims axis - mid)⟩ := by
      intro j hj
      rw [if_neg (valid_len_pos hj)]
    refine ⟨?_, ?_, ?_⟩
    · intro i hi
      obtain ⟨v, o, _⟩ := embedL dims axis mid i hax hmid hi
      simp only [Nat.zero_add]
      refine ⟨c06_T1_offset_lt_min_data_len _ _ hi, ?_⟩
      rw [← o]
      exact c06_T1_offset_lt_min_data_len _ _ v
    · intro j hj
      have hview := hR j (by
        have : ValidIdx (setSize dims axis (sizeAt dims axis - mid)) j := by
          split at hj <;> exact hj
        exact this)
      rw [hview] at hj ⊢
      obtain ⟨v, o, _⟩ := embedR dims axis mid j hax hmid hj
      refine ⟨Nat.le_add_right _ _, ?_, Nat.le_refl _⟩
      show mid * strideAt dims axis + offset (setSize dims axis (sizeAt dims axis - mid)) j <
        minDataLen dims
      rw [← o]
      exact c06_T1_offset_lt_min_data_len _ _ v
    · intro hno
      refine ⟨?_, fun a b ha hb hab =>
          setSize_injective dims axis 0 mid hax (by omega) hno a b ha hb hab,
        fun a b ha hb hab => ?_⟩
      rotate_left
      · have ha' : ValidIdx (setSize dims axis (sizeAt dims axis - mid)) a := by
          split at ha <;> exact ha
        have hb' : ValidIdx (setSize dims axis (sizeAt dims axis - mid)) b := by
          split at hb <;> exact hb
        have hab' : offset (setSize dims axis (sizeAt dims axis - mid)) a =
            offset (setSize dims axis (sizeAt dims axis - mid)) b := by
          split at hab <;> exact hab
        exact setSize_injective dims axis mid (sizeAt dims axis - mid) hax (by omega) hno
          a b ha' hb' hab'
      intro i j hi hj
      have hj' : ValidIdx (setSize dims axis (sizeAt dims axis - mid)) j := by
        split at hj <;> exact hj
      rw [hR j hj']
      obtain ⟨vi, oi, gi⟩ := embedL dims axis mid i hax hmid hi
      obtain ⟨vj, oj, gj⟩ := embedR dims axis mid j hax hmid hj'
      simp only [Nat.zero_add]
      show offset (setSize dims axis mid) i ≠
        mid * strideAt dims axis + offset (setSize dims axis (sizeAt dims axis - mid)) j
      rw [← oi, ← oj]
      intro heq
      have := hno i (addAt j axis mid) vi vj heq
      rw [this] at gi
      omega
  · cases h

/-- Non-vacuity: splitting the columns of a 2×3 row-major matrix at 1 gives halves whose
offset ranges `[0,4)` and `[1,6)` overlap, yet whose element sets `{0,3}` and `{1,2,4,5}`
are disjoint. -/
example : split [(2, 3), (3, 1)] 1 1 =
      some (⟨0, 4, [(2, 3), (1, 1)]⟩, ⟨1, 6, [(2, 3), (2, 1)]⟩) ∧
    mayOverlap [(2, 3), (3, 1)] = false ∧
    ValidIdx [(2, 3), (1, 1)] [1, 0] ∧ ValidIdx [(2, 3), (2, 1)] [1, 1] := by
  refine ⟨by decide, by decide, .cons (by omega) (.cons (by omega) .nil),
    .cons (by omega) (.cons (by omega) .nil)⟩

/-! ## T3: negation witnesses for the code before the fix -/

/-- **C06.T3 is false for the unfixed code (1)**: `Tensor::try_from_data(&[2^32, 2^32], vec![])`
is accepted by the wrap-around arithmetic (the product wraps to 0), although the ideal element
count is `2^64 > isize::MAX`; the valid index `[1, 1]` then maps to offset `2^32 + 1` of an
empty storage.  Replayed on the real crate by the harness (request `c=tfd shape=4294967296,4294967296 len=0`). -/
theorem c06_T3_old_false_len :
    M.Old.tryFromData [4294967296, 4294967296] 0 = .ok [(4294967296, 4294967296), (4294967296, 1)] ∧
    len (M.toN [(4294967296, 4294967296), (4294967296, 1)]) = 18446744073709551616 ∧
    M.offsetOf [(4294967296, 4294967296), (4294967296, 1)] [1, 1] = some 4294967297 := by
  decide

/-- **C06.T3 is false for the unfixed code (2)**: shape `[3, 2]`, strides `[2^63, 1]` and two
elements of storage pass `from_data_with_strides`: `(3-1)·2^63` wraps to 0 both in the overlap
check and in `min_data_len` (machine value 2, ideal value `2^64 + 2`); the valid index `[1, 0]`
maps to offset `2^63`. -/
theorem c06_T3_old_false_stride :
    M.Old.fromDataWithStrides [(3, 9223372036854775808), (2, 1)] 2 =
      .ok [(3, 9223372036854775808), (2, 1)] ∧
    M.minDataLen [(3, 9223372036854775808), (2, 1)] = 2 ∧
    minDataLen (M.toN [(3, 9223372036854775808), (2, 1)]) = 18446744073709551618 ∧
    M.offsetOf [(3, 9223372036854775808), (2, 1)] [1, 0] = some 9223372036854775808 := by
  decide

/-- The fixed constructors reject both witnesses. -/
theorem c06_T3_fixed_rejects_witnesses :
    M.tryFromData [4294967296, 4294967296] 0 = .error .mismatch ∧
    M.fromData [4294967296, 4294967296] 0 = .error .panic ∧
    M.fromDataWithStrides [(3, 9223372036854775808), (2, 1)] 2 = .error .tooShort ∧
    M.fromSliceWithStrides [(3, 9223372036854775808), (2, 1)] 2 = .error .tooShort ∧
    M.fromStorageAndLayout [(3, 9223372036854775808), (2, 1)] 2 true = .error .panic := by
  decide

/-! ## T3: the fixed constructors on machine integers -/

/-- **C06.T3a** every accepted tensor has ideal `len` and `min_data_len` `≤ isize::MAX`
(`< 2^63`), whatever constructor produced it. -/
theorem c06_T3_accepted_fits {dims : List (Nat × Nat)} {n : Nat} {m : Bool}
    (acc : Accepted dims n m) : len dims ≤ isizeMax ∧ minDataLen dims ≤ isizeMax := by
  refine ⟨Nat.le_trans (prod_le_prodNZ _) acc.shape_fits, ?_⟩
  unfold minDataLen
  have := acc.offset_fits
  split <;> omega

/-- **C06.T3b** on every layout that passed the guards, the wrap-around (`UInt64`) evaluation
of `min_data_len`, `len`, the overlap check, index validation and the offset sum equals the
ideal evaluation. -/
theorem c06_T3_machine_eq_ideal (d : List (M.U × M.U)) {n : Nat} {m : Bool}
    (acc : Accepted (M.toN d) n m) :
    (M.minDataLen d).toNat = minDataLen (M.toN d) ∧
    (M.len d).toNat = len (M.toN d) ∧
    M.mayOverlap d = mayOverlap (M.toN d) ∧
    ∀ idx : List M.U, (M.offsetOf d idx).map UInt64.toNat = offsetOf (M.toN d) (M.toNs idx) := by
  have hW := M.isizeMax_lt_W
  have hfit := c06_T3_accepted_fits acc
  refine ⟨M.minDataLen_toNat d (by have := acc.offset_fits; omega),
    M.len_toNat d (by omega), M.mayOverlap_eq d acc.shape_fits acc.offset_fits, ?_⟩
  intro idx
  unfold M.offsetOf offsetOf
  rw [M.validIdx_eq]
  split
  · next hv =>
    simp only [Option.map_some]
    congr 1
    rw [M.offset_toNat, Nat.mod_eq_of_lt]
    have := valid_offset_le ((validIdx_iff _ _).mp hv)
    have := acc.offset_fits
    omega
  · rfl

theorem isNone_of_map {α β : Type} {f : α → β} {a : Option α} {b : Option β}
    (h : a.map f = b) : a.isNone = b.isNone := by
  subst h; cases a <;> rfl

/-- **C06.T3c** `from_shape` on machine integers = ideal `from_shape`. -/
theorem c06_T3_fromShape (s : List M.U) :
    (M.fromShape s).map M.toN = fromShape (M.toNs s) := by
  unfold M.fromShape fromShape
  rw [isNone_of_map (M.checkedShapeLen_eq s)]
  split
  · rfl
  · next h =>
    rw [checkedShapeLen_eq] at h
    have hfit : prodNZ (M.toNs s) ≤ isizeMax := by
      by_cases hp : prodNZ (M.toNs s) ≤ isizeMax
      · exact hp
      · simp [hp] at h
    simp only [Except.map, M.contigDims_toN s hfit]

/-- **C06.T3d** `try_from_data` on machine integers accepts exactly what the ideal model
accepts, with the same layout. -/
theorem c06_T3_tryFromData (s : List M.U) (n : M.U) :
    (M.tryFromData s n).map M.toN = tryFromData (M.toNs s) n.toNat := by
  unfold M.tryFromData tryFromData
  rw [isNone_of_map (M.checkedShapeLen_eq s)]
  split
  · rfl
  · next h =>
    rw [checkedShapeLen_eq] at h
    have hfit : prodNZ (M.toNs s) ≤ isizeMax := by
      by_cases hp : prodNZ (M.toNs s) ≤ isizeMax
      · exact hp
      · simp [hp] at h
    have hW := M.isizeMax_lt_W
    have hmo := maxOffset_contig_lt (M.toNs s)
    have hm : (M.minDataLen (M.contigDims s)).toNat = minDataLen (contigDims (M.toNs s)) := by
      rw [M.minDataLen_toNat, M.contigDims_toN s hfit]
      rw [M.contigDims_toN s hfit]; omega
    by_cases hne : M.minDataLen (M.contigDims s) = n
    · have : minDataLen (contigDims (M.toNs s)) = n.toNat := by rw [← hm, hne]
      simp only [hne, this, ne_eq, not_true_eq_false, if_false, Except.map, M.contigDims_toN s hfit]
    · have : minDataLen (contigDims (M.toNs s)) ≠ n.toNat := by
        rw [← hm]; exact fun h' => hne (UInt64.toNat_inj.mp h')
      simp only [ne_eq, hne, this, not_false_eq_true, if_true, Except.map]

/-- **C06.T3e** `from_data`. -/
theorem c06_T3_fromData (s : List M.U) (n : M.U) :
    (M.fromData s n).map M.toN = fromData (M.toNs s) n.toNat := by
  unfold M.fromData fromData
  rw [← c06_T3_tryFromData]
  cases M.tryFromData s n <;> rfl

theorem checkedMinDataLen_fits {d : List (Nat × Nat)} (h : ¬ (checkedMinDataLen d).isNone = true) :
    prodNZ (shapeOf d) ≤ isizeMax ∧ maxOffset d < isizeMax := by
  rw [checkedMinDataLen_eq] at h
  by_cases hp : prodNZ (shapeOf d) ≤ isizeMax ∧ maxOffset d < isizeMax
  · exact hp
  · simp [hp] at h

/-- **C06.T3f** `from_shape_and_strides` (both overlap policies). -/
theorem c06_T3_fromShapeAndStrides (d : List (M.U × M.U)) (disallow : Bool) :
    (M.fromShapeAndStrides d disallow).map M.toN = fromShapeAndStrides (M.toN d) disallow := by
  unfold M.fromShapeAndStrides fromShapeAndStrides
  rw [isNone_of_map (M.checkedMinDataLen_eq d)]
  split
  · rfl
  · next h =>
    obtain ⟨h1, h2⟩ := checkedMinDataLen_fits h
    rw [M.mayOverlap_eq d h1 h2]
    split <;> rfl

theorem minDataLen_gt_eq (d : List (M.U × M.U)) (n : M.U)
    (h : ¬ (checkedMinDataLen (M.toN d)).isNone = true) :
    (M.minDataLen d > n) ↔ (minDataLen (M.toN d) > n.toNat) := by
  obtain ⟨_, h2⟩ := checkedMinDataLen_fits h
  have hW := M.isizeMax_lt_W
  show n < M.minDataLen d ↔ _
  rw [UInt64.lt_iff_toNat_lt, M.minDataLen_toNat d (by omega)]

/-- **C06.T3g** `from_data_with_strides`. -/
theorem c06_T3_fromDataWithStrides (d : List (M.U × M.U)) (n : M.U) :
    (M.fromDataWithStrides d n).map M.toN = fromDataWithStrides (M.toN d) n.toNat := by
  unfold M.fromDataWithStrides fromDataWithStrides
  rw [← c06_T3_fromShapeAndStrides]
  cases hc : M.fromShapeAndStrides d true with
  | error e => rfl
  | ok l =>
    have hl : l = d := by
      unfold M.fromShapeAndStrides at hc
      split at hc
      · cases hc
      · split at hc <;> cases hc; rfl
    subst hl
    have hnone : ¬ (checkedMinDataLen (M.toN l)).isNone = true := by
      unfold M.fromShapeAndStrides at hc
      rw [isNone_of_map (M.checkedMinDataLen_eq l)] at hc
      split at hc
      · cases hc
      · assumption
    simp only [Except.map]
    by_cases hgt : M.minDataLen l > n
    · have := (minDataLen_gt_eq l n hnone).mp hgt
      simp only [hgt, this, if_true]
    · have : ¬ minDataLen (M.toN l) > n.toNat := fun h' => hgt ((minDataLen_gt_eq l n hnone).mpr h')
      simp only [hgt, this, if_false]

/-- **C06.T3h** `from_slice_with_strides`. -/
theorem c06_T3_fromSliceWithStrides (d : List (M.U × M.U)) (n : M.U) :
    (M.fromSliceWithStrides d n).map M.toN = fromSliceWithStrides (M.toN d) n.toNat := by
  unfold M.fromSliceWithStrides fromSliceWithStrides
  rw [← c06_T3_fromShapeAndStrides]
  cases hc : M.fromShapeAndStrides d false with
  | error e => rfl
  | ok l =>
    have hl : l = d := by
      unfold M.fromShapeAndStrides at hc
      split at hc
      · cases hc
      · split at hc <;> cases hc; rfl
    subst hl
    have hnone : ¬ (checkedMinDataLen (M.toN l)).isNone = true := by
      unfold M.fromShapeAndStrides at hc
      rw [isNone_of_map (M.checkedMinDataLen_eq l)] at hc
      split at hc
      · cases hc
      · assumption
    simp only [Except.map]
    by_cases hgt : M.minDataLen l > n
    · have := (minDataLen_gt_eq l n hnone).mp hgt
      simp only [hgt, this, if_true]
    · have : ¬ minDataLen (M.toN l) > n.toNat := fun h' => hgt ((minDataLen_gt_eq l n hnone).mpr h')
      simp only [hgt, this, if_false]

/-- **C06.T3i** `from_storage_and_layout`. -/
theorem c06_T3_fromStorageAndLayout (d : List (M.U × M.U)) (n : M.U) (m : Bool) :
    (M.fromStorageAndLayout d n m).map M.toN = fromStorageAndLayout (M.toN d) n.toNat m := by
  unfold M.fromStorageAndLayout fromStorageAndLayout
  have hc := M.checkedMinDataLen_eq d
  cases hk : M.checkedMinDataLen d with
  | none => rw [hk] at hc; rw [← hc]; rfl
  | some k =>
    rw [hk] at hc
    rw [← hc]
    simp only [Option.map_some]
    have hnone : ¬ (checkedMinDataLen (M.toN d)).isNone = true := by rw [← hc]; simp
    obtain ⟨h1, h2⟩ := checkedMinDataLen_fits hnone
    rw [M.mayOverlap_eq d h1 h2]
    by_cases hlt : n < k
    · have : n.toNat < k.toNat := UInt64.lt_iff_toNat_lt.mp hlt
      simp only [hlt, this, if_true, Except.map]
    · have : ¬ n.toNat < k.toNat := fun h' => hlt (UInt64.lt_iff_toNat_lt.mpr h')
      simp only [hlt, this, if_false]
      split <;> rfl

/-- Non-vacuity of T3: machine constructors accept non-trivial tensors, including one whose
element count is exactly `isize::MAX` (a broadcast immutable view of one element). -/
example : M.tryFromData [2, 3] 6 = .ok [(2, 3), (3, 1)] ∧
    M.fromDataWithStrides [(3, 2), (4, 8)] 29 = .ok [(3, 2), (4, 8)] ∧
    M.fromSliceWithStrides [(9223372036854775807, 0)] 1 = .ok [(9223372036854775807, 0)] ∧
    M.fromSliceWithStrides [(9223372036854775808, 0)] 1 = .error .tooShort := by decide

/-! ## T2 (continued): views and owned tensors that grow or shrink -/

/-- The view computed by `slice_axis` before the storage range assertion. -/
def sliceView (dims : List (Nat × Nat)) (axis s e : Nat) : View :=
  if len (setSize dims axis (e - s)) = 0 then ⟨0, 0, setSize dims axis (e - s)⟩
  else ⟨s * strideAt (setSize dims axis (e - s)) axis,
    s * strideAt (setSize dims axis (e - s)) axis + minDataLen (setSize dims axis (e - s)),
    setSize dims axis (e - s)⟩

theorem sliceAxis_unfold (dims : List (Nat × Nat)) (n axis s e : Nat) :
    sliceAxis dims n axis s e =
      if axis < dims.length ∧ s ≤ e ∧ e ≤ sizeAt dims axis then
        if rangeValid (sliceView dims axis s e) n then some (sliceView dims axis s e) else none
      else none := rfl

theorem sliceView_dims (dims : List (Nat × Nat)) (axis s e : Nat) :
    (sliceView dims axis s e).dims = setSize dims axis (e - s) := by
  unfold sliceView; split <;> rfl

/-- **C06.T2h** `slice_axis` / `slice_axis_mut` (`MutLayout::slice_axis` + `Storage::slice(_mut)`):
whenever the call succeeds on a tensor whose storage has `n` elements, every valid index of the
slice addresses an element inside the slice's own storage range, that range lies inside the
parent's storage, the element is one the parent addresses too (`< min_data_len` of the parent),
and if the parent passed the overlap check the slice maps distinct indices to distinct
elements (so a `slice_axis_mut` view never aliases itself). -/
theorem c06_T2_sliceAxis {dims : List (Nat × Nat)} {n axis s e : Nat} {v : View}
    (h : sliceAxis dims n axis s e = some v) :
    v.start ≤ n ∧ v.stop ≤ n ∧
    (∀ j, ValidIdx v.dims j →
      v.start + offset v.dims j < v.stop ∧ v.start + offset v.dims j < minDataLen dims) ∧
    (Inj dims → Inj v.dims) := by
  rw [sliceAxis_unfold] at h
  split at h
  · next hc =>
    obtain ⟨hax, hse, hes⟩ := hc
    split at h
    · next hrv =>
      have hv := Option.some.inj h
      subst hv
      simp only [rangeValid, Bool.and_eq_true, decide_eq_true_eq] at hrv
      have hle : s + (e - s) ≤ sizeAt dims axis := by omega
      refine ⟨hrv.1, hrv.2, ?_, ?_⟩
      · intro j hj
        rw [sliceView_dims] at hj
        have hne := valid_len_pos hj
        obtain ⟨vj, oj⟩ := embedShift dims axis s (e - s) j hax hle hj
        have ht := c06_T1_offset_lt_min_data_len _ _ hj
        have hp := c06_T1_offset_lt_min_data_len _ _ vj
        rw [oj] at hp
        unfold sliceView
        rw [if_neg hne, strideAt_setSize]
        refine ⟨?_, ?_⟩
        · show s * strideAt dims axis + offset (setSize dims axis (e - s)) j <
            s * strideAt dims axis + minDataLen (setSize dims axis (e - s))
          exact Nat.add_lt_add_left ht _
        · show s * strideAt dims axis + offset (setSize dims axis (e - s)) j < minDataLen dims
          exact hp
      · intro hno j j' hj hj' heq
        rw [sliceView_dims] at hj hj' heq
        exact setSize_injective dims axis s (e - s) hax hle hno j j' hj hj' heq
    · cases h
  · cases h

/-- **C06.T2i** `try_broadcast` / `broadcast`: every valid index of the broadcast layout maps to
an element the parent addresses (`< min_data_len` of the parent), hence inside the storage of an
accepted parent.  (The broadcast view shares the parent's whole storage and its type,
`TensorBase<ViewData, _>`, is immutable.) -/
theorem c06_T2_broadcast {dims b : List (Nat × Nat)} {target : List Nat}
    (h : broadcast dims target = some b) {idx : List Nat} (hv : ValidIdx b idx) :
    offset b idx < minDataLen dims ∧ prodNZ (shapeOf b) ≤ isizeMax := by
  obtain ⟨hmo, hz⟩ := broadcast_spec h
  have hb := valid_hasZero hv
  have hd : hasZero dims = false := by
    cases hd : hasZero dims
    · rfl
    · rw [hz hd] at hb; cases hb
  refine ⟨?_, ?_⟩
  · unfold minDataLen
    rw [hd]
    have := valid_offset_le hv
    simp only [Bool.false_eq_true, if_false]
    omega
  · -- the `checked_shape_len` guard of `broadcast`
    unfold broadcast at h
    dsimp only at h
    split at h
    · split at h
      · next hlen hok =>
        simp only [Bool.and_eq_true] at hok
        cases h
        have hsl := hok.2
        rw [checkedShapeLen_eq] at hsl
        have hfit : prodNZ target ≤ isizeMax := by
          by_cases hp : prodNZ target ≤ isizeMax
          · exact hp
          · simp [hp] at hsl
        have hshape : shapeOf (List.map (fun s => (s, 0)) (List.take (target.length - dims.length) target) ++
            List.map (fun p => (p.2, if p.1.1 == 1 && decide (p.2 > 1) then 0 else p.1.2))
              (dims.zip (List.drop (target.length - dims.length) target))) = target := by
          simp only [shapeOf, List.map_append, List.map_map, Function.comp_def]
          have h1 : List.map (fun x : Nat => x) (List.take (target.length - dims.length) target) =
              List.take (target.length - dims.length) target := List.map_id' _
          have h2 : List.map (fun x : (Nat × Nat) × Nat => x.2)
              (dims.zip (List.drop (target.length - dims.length) target)) =
              List.drop (target.length - dims.length) target :=
            List.map_snd_zip (by rw [List.length_drop]; omega)
          rw [h1, h2, List.take_append_drop]
        rw [hshape]; exact hfit
      · cases h
    · cases h

/-- Non-vacuity: a `[3,1]` column broadcast to `[2,3,4]`. -/
example : broadcast [(3, 1), (1, 1)] [2, 3, 4] = some [(2, 0), (3, 1), (4, 0)] ∧
    ValidIdx [(2, 0), (3, 1), (4, 0)] [1, 2, 3] ∧ minDataLen [(3, 1), (1, 1)] = 3 := by
  refine ⟨by decide, .cons (by omega) (.cons (by omega) (.cons (by omega) .nil)), by decide⟩

/-- **C06.T2j** a tensor with mutable storage is never genuinely broadcast: in a non-empty
accepted mutable layout every dimension with more than one entry has a non-zero stride.
(`broadcast` itself only returns immutable views; the only way to pair a zero-stride layout
with mutable storage is through the constructors, which run the overlap check.) -/
theorem c06_T2_mutable_not_broadcast {dims : List (Nat × Nat)} {n : Nat}
    (acc : Accepted dims n true) (hne : hasZero dims = false) (k : Nat) (hk : k < dims.length)
    (hs : 1 < sizeAt dims k) : strideAt dims k ≠ 0 := by
  obtain ⟨v0, v1, o0, o1, hneq⟩ := zeros_unit dims k hne hk hs
  intro h0
  exact hneq (c08_no_overlap_injective dims _ _ (acc.no_overlap rfl) v0 v1 (by rw [o0, o1, h0]))

/-- The `assert!(!view.is_broadcast())` of `LanesMut` / `AxisIterMut` / `AxisChunksMut`: a
non-empty layout that passes it has no zero stride at all. -/
theorem c06_T2_is_broadcast_assert {dims : List (Nat × Nat)} (h : isBroadcast dims = false)
    (hne : len dims ≠ 0) : ∀ d ∈ dims, d.2 ≠ 0 := by
  intro d hd h0
  unfold isBroadcast at h
  have h1 : (len dims != 0) = true := by simpa using hne
  have h2 : dims.any (fun d => d.2 == 0) = true := List.any_eq_true.mpr ⟨d, hd, by simpa using h0⟩
  rw [h1, h2] at h
  cases h

/-- **C06.T2k** `has_capacity` / `append` (via `expanded_layout`): whenever `append` succeeds, the
grown tensor satisfies the constructor invariant with its new storage length, which still
fits the capacity; in particular all its indices are in bounds and do not alias
(`c06_T2_in_bounds`, `c06_T2_no_alias`), and the block written by `append`
(`slice_axis_mut(axis, old..new)`) is covered by `c06_T2_sliceAxis`. -/
theorem c06_T2_append {t t' : Owned} {axis : Nat} {other : List (Nat × Nat)}
    (h : append t axis other = .ok t') (hcap : t.dataLen ≤ t.cap) :
    Accepted t'.dims t'.dataLen true ∧ t'.dataLen ≤ t'.cap ∧ t'.cap = t.cap ∧
    t'.dims = setSize t.dims axis (sizeAt t.dims axis + sizeAt other axis) := by
  unfold append at h
  split at h
  · cases h
  · split at h
    · cases h
    · split at h
      · cases h
      · next nl hnl =>
        cases h
        unfold expandedLayout at hnl
        split at hnl
        · cases hnl
        · next m hm =>
          split at hnl
          · next hc =>
            cases hnl
            have hm' := hm
            rw [checkedMinDataLen_eq] at hm'
            split at hm'
            · cases hm'
              refine ⟨accepted_of_checked (by simp [hm]) (Nat.le_max_right _ _) (fun _ => hc.2),
                ?_, rfl, rfl⟩
              exact Nat.max_le.mpr ⟨hcap, hc.1⟩
            · cases hm'
          · cases hnl

/-- Non-vacuity: a `with_capacity([3,2], 0)` tensor grows by two rows; a third row is refused. -/
example : append ⟨[(0, 2), (2, 1)], 0, 6⟩ 0 [(2, 0), (2, 0)] = .ok ⟨[(2, 2), (2, 1)], 4, 6⟩ ∧
    append ⟨[(2, 2), (2, 1)], 4, 6⟩ 0 [(2, 0), (2, 0)] = .error .noCapacity ∧
    append ⟨[(2, 2), (2, 1)], 4, 6⟩ 0 [(1, 0), (3, 0)] = .error .shapeMismatch := by decide

theorem clipDim_unfold (t : Owned) (dim s e : Nat) :
    clipDim t dim s e =
      if dim < t.dims.length ∧ s ≤ e ∧ e ≤ sizeAt t.dims dim then
        if (if len (setSize t.dims dim (e - s)) = 0 then 0
              else s * strideAt (setSize t.dims dim (e - s)) dim) +
            (if len (setSize t.dims dim (e - s)) = 0 then 0
              else minDataLen (setSize t.dims dim (e - s))) ≤ t.dataLen then
          some ⟨setSize t.dims dim (e - s),
            min t.dataLen (if len (setSize t.dims dim (e - s)) = 0 then 0
              else minDataLen (setSize t.dims dim (e - s))), t.cap⟩
        else none
      else none := rfl

/-- **C06.T2l** `clip_dim`: after a successful call every valid index of the clipped layout is
below the new storage length, and if the tensor was accepted (passed the overlap check) the
clipped layout still maps distinct indices to distinct elements. -/
theorem c06_T2_clipDim {t t' : Owned} {dim s e : Nat} (h : clipDim t dim s e = some t') :
    (∀ j, ValidIdx t'.dims j → offset t'.dims j < t'.dataLen) ∧
    (Inj t.dims → Inj t'.dims) ∧ t'.dataLen ≤ t.dataLen ∧ t'.cap = t.cap ∧
    (∃ n, n ≤ sizeAt t.dims dim ∧ t'.dims = setSize t.dims dim n) := by
  rw [clipDim_unfold] at h
  by_cases hc : dim < t.dims.length ∧ s ≤ e ∧ e ≤ sizeAt t.dims dim
  · rw [if_pos hc] at h
    obtain ⟨hax, hse, hes⟩ := hc
    have hinj : Inj t.dims → ∀ j j', ValidIdx (setSize t.dims dim (e - s)) j →
        ValidIdx (setSize t.dims dim (e - s)) j' →
        offset (setSize t.dims dim (e - s)) j = offset (setSize t.dims dim (e - s)) j' → j = j' :=
      fun hno j j' hj hj' heq => setSize_injective t.dims dim s (e - s) hax (by omega)
        hno j j' hj hj' heq
    by_cases hlen : len (setSize t.dims dim (e - s)) = 0
    · simp only [if_pos hlen] at h
      split at h
      · have ht := Option.some.inj h
        subst ht
        exact ⟨fun j hj => absurd hlen (valid_len_pos hj), hinj, Nat.min_le_left _ _, rfl,
          e - s, by omega, rfl⟩
      · cases h
    · simp only [if_neg hlen] at h
      split at h
      · next hfit =>
        have ht := Option.some.inj h
        subst ht
        refine ⟨fun j hj => ?_, hinj, Nat.min_le_left _ _, rfl, e - s, by omega, rfl⟩
        have hj' : ValidIdx (setSize t.dims dim (e - s)) j := hj
        have hlt := c06_T1_offset_lt_min_data_len _ _ hj'
        show offset (setSize t.dims dim (e - s)) j <
          min t.dataLen (minDataLen (setSize t.dims dim (e - s)))
        exact Nat.lt_min.mpr ⟨by omega, hlt⟩
      · cases h
  · rw [if_neg hc] at h
    cases h

/-! ## T3 (continued): `expanded_layout` on machine integers -/

theorem setSize_toN : ∀ (d : List (M.U × M.U)) (axis : Nat) (n : M.U),
    M.toN (M.setSize d axis n) = setSize (M.toN d) axis n.toNat := by
  intro d
  induction d with
  | nil => intro axis n; rfl
  | cons x xs ih =>
    obtain ⟨size, stride⟩ := x
    intro axis n
    cases axis with
    | zero => rfl
    | succ a => simp only [M.setSize, M.toN_cons, setSize, ih]

/-- **C06.T3j** `expanded_layout` (the decision behind `has_capacity` and `append`) on machine
integers accepts exactly what the ideal model accepts — for *every* requested size. -/
theorem c06_T3_expandedLayout (d : List (M.U × M.U)) (cap : M.U) (axis : Nat) (ns : M.U) :
    (M.expandedLayout d cap axis ns).map M.toN =
      expandedLayout (M.toN d) cap.toNat axis ns.toNat := by
  unfold M.expandedLayout expandedLayout
  have hc := M.checkedMinDataLen_eq (M.setSize d axis ns)
  rw [setSize_toN] at hc
  cases hk : M.checkedMinDataLen (M.setSize d axis ns) with
  | none => rw [hk] at hc; rw [← hc]; rfl
  | some k =>
    rw [hk] at hc
    rw [← hc]
    simp only [Option.map_some]
    have hnone : ¬ (checkedMinDataLen (setSize (M.toN d) axis ns.toNat)).isNone = true := by
      rw [← hc]; simp
    obtain ⟨h1, h2⟩ := checkedMinDataLen_fits hnone
    have hov := M.mayOverlap_eq (M.setSize d axis ns) (by rw [setSize_toN]; exact h1)
      (by rw [setSize_toN]; exact h2)
    rw [setSize_toN] at hov
    by_cases hcnd : k ≤ cap ∧ M.mayOverlap (M.setSize d axis ns) = false
    · have : k.toNat ≤ cap.toNat ∧ mayOverlap (setSize (M.toN d) axis ns.toNat) = false :=
        ⟨UInt64.le_iff_toNat_le.mp hcnd.1, by rw [← hov]; exact hcnd.2⟩
      rw [if_pos hcnd, if_pos this]
      simp only [Option.map_some, setSize_toN]
    · have : ¬ (k.toNat ≤ cap.toNat ∧ mayOverlap (setSize (M.toN d) axis ns.toNat) = false) :=
        fun h => hcnd ⟨UInt64.le_iff_toNat_le.mpr h.1, by rw [hov]; exact h.2⟩
      rw [if_neg hcnd, if_neg this]
      rfl

/-- **C06.T3 was false for `expanded_layout` before fix 0049079**: an empty `[0, 2]` tensor
with strides `[2^63, 1]` (accepted: it needs no storage) and capacity 8 "has capacity" for 3
rows on wrap-around integers (`2·2^63` wraps to 0, machine `min_data_len` = 2) although the
ideal requirement is `2^64 + 2` elements; index `[1, 0]` of the grown layout maps to offset
`2^63`.  The fixed `expanded_layout` refuses.  Replayed on the real crate by the harness
(`a … shape=0,2 strides=9223372036854775808,1 len=0 cap=8 ops=hc:0,3;ap:0/3,2`). -/
theorem c06_T3_old_false_append :
    M.fromDataWithStrides [(0, 9223372036854775808), (2, 1)] 0 =
      .ok [(0, 9223372036854775808), (2, 1)] ∧
    M.Old.expandedLayout [(0, 9223372036854775808), (2, 1)] 8 0 3 =
      some [(3, 9223372036854775808), (2, 1)] ∧
    minDataLen (M.toN [(3, 9223372036854775808), (2, 1)]) = 18446744073709551618 ∧
    M.offsetOf [(3, 9223372036854775808), (2, 1)] [1, 0] = some 9223372036854775808 ∧
    M.expandedLayout [(0, 9223372036854775808), (2, 1)] 8 0 3 = none := by
  decide

/-! ## `slice` / `try_slice` / `slice_mut`: `resolve` + the `step == 1` fast path

The ideal-arithmetic *semantics* of slicing (which elements the view denotes, all steps) is
C09's `c09_slice`; here: the view never leaves the parent's storage, and on machine integers
nothing wraps — provided `resolve` returns `start ≤ end`, which the current code guarantees
(`resolve1_ok`) and the variant without `end.max(start)` does not. -/

/-- The view `slice_dyn` computes before the storage range assertion. -/
def sliceViewR (dims : List (Nat × Nat)) (items : List RItem) : View :=
  ⟨if hasZero (sliceLoopR dims items).2 then 0 else (sliceLoopR dims items).1,
    (if hasZero (sliceLoopR dims items).2 then 0 else (sliceLoopR dims items).1) +
      minDataLen (sliceLoopR dims items).2,
    (sliceLoopR dims items).2⟩

theorem trySliceR_unfold (dims : List (Nat × Nat)) (n : Nat) (items : List RItem) :
    trySliceR dims n items =
      if rangeValid (sliceViewR dims items) n then some (sliceViewR dims items) else none := rfl

/-- **C06.T2m** for resolved items with `start ≤ end ≤ size`: whenever `slice_dyn` +
`Storage::slice(_mut)` succeed on a tensor with `n` elements of storage, the view's storage
range ends inside the storage, every valid index of the view addresses an element inside the
view's own range which the parent addresses too, and a non-overlapping parent gives an
injective view (no aliasing through `slice_mut`). -/
theorem c06_T2_slice {dims : List (Nat × Nat)} {n : Nat} {items : List RItem} {v : View}
    (hok : ItemsOk dims items) (h : trySliceR dims n items = some v) :
    v.start ≤ n ∧ v.stop ≤ n ∧
    (∀ j, ValidIdx v.dims j →
      v.start + offset v.dims j < v.stop ∧ v.start + offset v.dims j < minDataLen dims) ∧
    (Inj dims → Inj v.dims) := by
  rw [trySliceR_unfold] at h
  by_cases hrv : rangeValid (sliceViewR dims items) n = true
  · rw [if_pos hrv] at h
    have hv := Option.some.inj h
    subst hv
    simp only [rangeValid, Bool.and_eq_true, decide_eq_true_eq] at hrv
    refine ⟨hrv.1, hrv.2, ?_, ?_⟩
    · intro j hj
      have hj' : ValidIdx (sliceLoopR dims items).2 j := hj
      have hz := valid_hasZero hj'
      obtain ⟨vi, oi⟩ := slice_embed dims items hok j hj'
      have ht := c06_T1_offset_lt_min_data_len _ _ hj'
      have hp := c06_T1_offset_lt_min_data_len _ _ vi
      rw [oi] at hp
      show (if hasZero (sliceLoopR dims items).2 = true then 0 else (sliceLoopR dims items).1) +
          offset (sliceLoopR dims items).2 j <
          (if hasZero (sliceLoopR dims items).2 = true then 0 else (sliceLoopR dims items).1) +
            minDataLen (sliceLoopR dims items).2 ∧
        (if hasZero (sliceLoopR dims items).2 = true then 0 else (sliceLoopR dims items).1) +
          offset (sliceLoopR dims items).2 j < minDataLen dims
      rw [hz]
      simp only [Bool.false_eq_true, if_false]
      exact ⟨by omega, hp⟩
    · intro hno j j' hj hj' heq
      have hj1 : ValidIdx (sliceLoopR dims items).2 j := hj
      have hj2 : ValidIdx (sliceLoopR dims items).2 j' := hj'
      obtain ⟨vi, oi⟩ := slice_embed dims items hok j hj1
      obtain ⟨vi', oi'⟩ := slice_embed dims items hok j' hj2
      have heq' : offset (sliceLoopR dims items).2 j = offset (sliceLoopR dims items).2 j' := heq
      exact embedIdx_inj dims items hok j j' hj1 hj2
        (hno _ _ vi vi' (by rw [oi, oi', heq']))
  · rw [if_neg hrv] at h
    cases h

/-- **C06.T2n** the same for the API as called: `try_slice(items)` with indices and step-1
ranges in any spelling, resolved by the current `SliceRange::resolve`. -/
theorem c06_T2_trySlice {dims : List (Nat × Nat)} {n : Nat} {items : List SItem} {v : View}
    (h : trySlice true dims n items = .ok v) :
    v.start ≤ n ∧ v.stop ≤ n ∧
    (∀ j, ValidIdx v.dims j →
      v.start + offset v.dims j < v.stop ∧ v.start + offset v.dims j < minDataLen dims) ∧
    (Inj dims → Inj v.dims) := by
  unfold trySlice at h
  split at h
  · cases h
  · next rs hrs =>
    split at h
    · cases h
    · next v' hv =>
      cases h
      exact c06_T2_slice (resolveItems_ok dims items rs hrs) hv

/-- Non-vacuity: `t.slice((1..3, -2..))` on a 3×4 row-major tensor; and the reversed in-bounds
range `5..2` on 8 elements, which the current `resolve` turns into the empty range `5..5`. -/
example : trySlice true [(3, 4), (4, 1)] 12 [.range 1 (some 3), .range (-2) none] =
      .ok ⟨6, 12, [(2, 4), (2, 1)]⟩ ∧
    ValidIdx [(2, 4), (2, 1)] [1, 1] ∧
    trySlice true [(8, 1)] 8 [.range 5 (some 2)] = .ok ⟨0, 0, [(0, 1)]⟩ ∧
    resolve1 true (-1) (some (-3)) 8 = some (7, 7) := by
  refine ⟨by decide, .cons (by omega) (.cons (by omega) .nil), by decide, by decide⟩

/-- **C06.T3k** on every accepted tensor and for resolved items with `start ≤ end ≤ size`, the
`UInt64` evaluation of `slice_layout`'s fast path, of `offset + min_data_len` and of the storage
range assertion equals the ideal evaluation: `end - start` cannot wrap, the offset of a
non-empty result cannot wrap, the range end cannot wrap. -/
theorem c06_T3_slice (d : List (M.U × M.U)) (n : M.U) (items : List M.RItem) {k : Nat} {m : Bool}
    (acc : Accepted (M.toN d) k m) (hok : ItemsOk (M.toN d) (items.map M.RItem.toN)) :
    (M.trySliceR d n items).map M.viewToN =
      trySliceR (M.toN d) n.toNat (items.map M.RItem.toN) :=
  M.trySliceR_eq d n items acc.offset_fits hok

/-- **Without `let end = end.max(start)` the machine model accepts an out-of-bounds view**:
`resolve` then returns the reversed range `5..2` for `t.slice(5..2)` on 8 elements;
`end - start` wraps to `2^64 - 3`, `offset + min_data_len` wraps to the range `5..2`, which
`assert_storage_range_valid` accepts (`5 ≤ 8 ∧ 2 ≤ 8`) and whose `Range::len()` is 0: a view of
`2^64 - 3` elements over an empty storage, whose valid index `[1]` is element 6 of the parent.
The current `resolve` yields `5..5` and an empty view instead. -/
theorem c06_T3_resolve_without_max_false :
    resolve1 false 5 (some 2) 8 = some (5, 2) ∧
    resolve1 true 5 (some 2) 8 = some (5, 5) ∧
    M.trySliceR [(8, 1)] 8 [.span 5 2] = some ⟨5, 2, [(18446744073709551613, 1)]⟩ ∧
    (⟨5, 2, [(18446744073709551613, 1)]⟩ : M.View).storageLen = 0 ∧
    M.offsetOf [(18446744073709551613, 1)] [1] = some 1 ∧
    M.trySliceR [(8, 1)] 8 [.span 5 5] = some ⟨0, 0, [(0, 1)]⟩ := by
  decide

/-! ## Any sequence of calls

`VSafe` is the invariant that composes: unlike `Accepted` (which mentions the conservative
overlap *check*, not inherited by sub-views) it only says what safety needs — every valid index
addresses an element of the view's own storage and, for mutable views, distinct indices
address distinct elements.  Every constructor establishes it, every view operation hands it
to the child together with a storage range inside the parent's, and every mutating call on an
owned tensor preserves it (a failing call leaves the tensor unchanged). -/

structure VSafe (mutable : Bool) (dims : List (Nat × Nat)) (n : Nat) : Prop where
  in_bounds : ∀ j, ValidIdx dims j → offset dims j < n
  inj : mutable = true → Inj dims

/-- Every constructor-accepted tensor is `VSafe`. -/
theorem c06_accepted_vsafe {dims : List (Nat × Nat)} {n : Nat} {m : Bool}
    (acc : Accepted dims n m) : VSafe m dims n :=
  ⟨fun _ hj => c06_T2_in_bounds acc hj, fun hm => inj_of_no_overlap (acc.no_overlap hm)⟩

theorem sub_facts {v : AView} {w : View} (h1 : w.start ≤ v.len) (h2 : w.stop ≤ v.len) :
    v.base ≤ (v.sub w).base ∧ (v.sub w).base + (v.sub w).len ≤ v.base + v.len := by
  simp only [AView.sub]; omega

/-- **C06.T2o** one view-producing call (`try_slice`/`slice_mut` with indices and step-1
ranges, `slice_axis(_mut)`, either half of `split_at(_mut)`, `broadcast` of an immutable view)
on a `VSafe` view yields a `VSafe` view whose storage lies inside the parent's storage. -/
theorem c06_T2_view_step {m : Bool} {v w : AView} {op : ViewOp}
    (hs : VSafe m v.dims v.len) (h : applyView m v op = some w) :
    VSafe m w.dims w.len ∧ v.base ≤ w.base ∧ w.base + w.len ≤ v.base + v.len := by
  cases op with
  | slice items =>
    simp only [applyView] at h
    split at h
    · next x hx =>
      cases h
      obtain ⟨h1, h2, hb, hi⟩ := c06_T2_trySlice hx
      exact ⟨⟨fun j hj => by have := (hb j hj).1; simp only [AView.sub]; omega,
        fun hm => hi (hs.inj hm)⟩, sub_facts h1 h2⟩
    · cases h
  | sliceAxis axis s e =>
    simp only [applyView, Option.map_eq_some_iff] at h
    obtain ⟨x, hx, rfl⟩ := h
    obtain ⟨h1, h2, hb, hi⟩ := c06_T2_sliceAxis hx
    exact ⟨⟨fun j hj => by have := (hb j hj).1; simp only [AView.sub]; omega,
      fun hm => hi (hs.inj hm)⟩, sub_facts h1 h2⟩
  | splitLeft axis mid =>
    simp only [applyView, Option.map_eq_some_iff] at h
    obtain ⟨⟨l, r⟩, hx, rfl⟩ := h
    unfold splitAtMut at hx
    split at hx
    · cases hx
    · next l' r' hsp =>
      split at hx
      · next hrv =>
        cases hx
        simp only [rangeValid, Bool.and_eq_true, decide_eq_true_eq] at hrv
        obtain ⟨hl, _, hd⟩ := c06_T2_split hsp
        exact ⟨⟨fun j hj => by have := (hl j hj).1; simp only [AView.sub]; omega,
          fun hm => (hd (hs.inj hm)).2.1⟩, sub_facts hrv.1.1 hrv.1.2⟩
      · cases hx
  | splitRight axis mid =>
    simp only [applyView, Option.map_eq_some_iff] at h
    obtain ⟨⟨l, r⟩, hx, rfl⟩ := h
    unfold splitAtMut at hx
    split at hx
    · cases hx
    · next l' r' hsp =>
      split at hx
      · next hrv =>
        cases hx
        simp only [rangeValid, Bool.and_eq_true, decide_eq_true_eq] at hrv
        obtain ⟨_, hr, hd⟩ := c06_T2_split hsp
        exact ⟨⟨fun j hj => by have := (hr j hj).2.1; simp only [AView.sub]; omega,
          fun hm => (hd (hs.inj hm)).2.2⟩, sub_facts hrv.2.1 hrv.2.2⟩
      · cases hx
  | broadcast target =>
    simp only [applyView] at h
    split at h
    · cases h
    · next hm =>
      simp only [Option.map_eq_some_iff] at h
      obtain ⟨b, hb, rfl⟩ := h
      refine ⟨⟨fun j hj => ?_, fun hm' => absurd hm' (by simpa using hm)⟩,
        Nat.le_refl _, Nat.le_refl _⟩
      have := (c06_T2_broadcast hb hj).1
      have := minDataLen_le_of_bounded hs.in_bounds
      show offset b j < v.len
      omega

/-- **C06.T2p** (any sequence of views): after any chain of view-producing calls starting from
a `VSafe` view — in particular from any constructor-accepted tensor — the resulting view is
`VSafe` and its storage lies inside the storage of the view the chain started from.  Hence
every element it can address (`base + offset`, `offset < len`) is an element of the original
storage, and mutable views obtained this way never map two indices to one element. -/
theorem c06_T2_view_chain {m : Bool} : ∀ (ops : List ViewOp) {v w : AView},
    VSafe m v.dims v.len → runViews m v ops = some w →
    VSafe m w.dims w.len ∧ v.base ≤ w.base ∧ w.base + w.len ≤ v.base + v.len := by
  intro ops
  induction ops with
  | nil =>
    intro v w hs h
    simp only [runViews, Option.some.injEq] at h
    subst h
    exact ⟨hs, Nat.le_refl _, Nat.le_refl _⟩
  | cons op ops ih =>
    intro v w hs h
    simp only [runViews] at h
    split at h
    · cases h
    · next u hu =>
      obtain ⟨hsu, h1, h2⟩ := c06_T2_view_step hs hu
      obtain ⟨hsw, h3, h4⟩ := ih hsu h
      exact ⟨hsw, by omega, by omega⟩

/-- Non-vacuity: rows 1..3 of a 3×4 tensor, then the right half of a column split, then a
reversed (empty) slice of that — a chain of three views, the second one non-contiguous. -/
example : runViews true ⟨0, 12, [(3, 4), (4, 1)]⟩
      [.sliceAxis 0 1 3, .splitRight 1 1, .slice [.range 0 none, .range 2 (some 1)]] =
    some ⟨0 + 4 + 1 + 0, 0, [(2, 4), (0, 1)]⟩ ∧
    runViews true ⟨0, 12, [(3, 4), (4, 1)]⟩ [.sliceAxis 0 1 3, .splitRight 1 1] =
      some ⟨5, 7, [(2, 4), (3, 1)]⟩ := by decide

/-! ### Element addresses: a child view only reaches elements its parent reaches -/

/-- `a` is the absolute offset (into the root storage) of an element the view can address. -/
def Addr (v : AView) (a : Nat) : Prop := ∃ j, ValidIdx v.dims j ∧ a = v.base + offset v.dims j

theorem split_embeds {dims : List (Nat × Nat)} {axis mid : Nat} {l r : View}
    (h : split dims axis mid = some (l, r)) :
    (∀ i, ValidIdx l.dims i → ∃ p, ValidIdx dims p ∧ offset dims p = l.start + offset l.dims i) ∧
    (∀ j, ValidIdx r.dims j → ∃ p, ValidIdx dims p ∧ offset dims p = r.start + offset r.dims j) := by
  unfold split at h
  split at h
  · next hc =>
    obtain ⟨hax, hmid⟩ := hc
    simp only [Option.some.injEq, Prod.mk.injEq] at h
    obtain ⟨rfl, rfl⟩ := h
    refine ⟨fun i hi => ?_, fun j hj => ?_⟩
    · obtain ⟨v, o, _⟩ := embedL dims axis mid i hax hmid hi
      exact ⟨i, v, by simp only [Nat.zero_add]; exact o⟩
    · have hj' : ValidIdx (setSize dims axis (sizeAt dims axis - mid)) j := by
        split at hj <;> exact hj
      obtain ⟨v, o, _⟩ := embedR dims axis mid j hax hmid hj'
      refine ⟨_, v, ?_⟩
      rw [if_neg (valid_len_pos hj')]
      exact o
  · cases h

theorem sliceAxis_embeds {dims : List (Nat × Nat)} {n axis s e : Nat} {v : View}
    (h : sliceAxis dims n axis s e = some v) :
    ∀ j, ValidIdx v.dims j → ∃ p, ValidIdx dims p ∧ offset dims p = v.start + offset v.dims j := by
  rw [sliceAxis_unfold] at h
  split at h
  · next hc =>
    obtain ⟨hax, hse, hes⟩ := hc
    split at h
    · have hv := Option.some.inj h
      subst hv
      intro j hj
      rw [sliceView_dims] at hj
      obtain ⟨vj, oj⟩ := embedShift dims axis s (e - s) j hax (by omega) hj
      refine ⟨_, vj, ?_⟩
      unfold sliceView
      rw [if_neg (valid_len_pos hj), strideAt_setSize]
      exact oj
    · cases h
  · cases h

theorem trySlice_embeds {dims : List (Nat × Nat)} {n : Nat} {items : List SItem} {v : View}
    (h : trySlice true dims n items = .ok v) :
    ∀ j, ValidIdx v.dims j → ∃ p, ValidIdx dims p ∧ offset dims p = v.start + offset v.dims j := by
  unfold trySlice at h
  split at h
  · cases h
  · next rs hrs =>
    split at h
    · cases h
    · next v' hv =>
      cases h
      have hok := resolveItems_ok dims items rs hrs
      rw [trySliceR_unfold] at hv
      split at hv
      · have hv' := Option.some.inj hv
        subst hv'
        intro j hj
        have hj' : ValidIdx (sliceLoopR dims rs).2 j := hj
        obtain ⟨vi, oi⟩ := slice_embed dims rs hok j hj'
        refine ⟨_, vi, ?_⟩
        show _ = (if hasZero (sliceLoopR dims rs).2 = true then 0 else (sliceLoopR dims rs).1) +
          offset (sliceLoopR dims rs).2 j
        rw [valid_hasZero hj']
        exact oi
      · cases hv

/-- **C06.T2r** every element a child view can address through a mutable-view operation is an
element its parent addresses (same absolute offset, through a valid parent index). -/
theorem c06_T2_view_step_addr {v w : AView} {op : ViewOp} (h : applyView true v op = some w)
    {a : Nat} (ha : Addr w a) : Addr v a := by
  obtain ⟨j, hj, rfl⟩ := ha
  cases op with
  | slice items =>
    simp only [applyView] at h
    split at h
    · next x hx =>
      cases h
      obtain ⟨p, hp, ho⟩ := trySlice_embeds hx j hj
      exact ⟨p, hp, by simp only [AView.sub]; omega⟩
    · cases h
  | sliceAxis axis s e =>
    simp only [applyView, Option.map_eq_some_iff] at h
    obtain ⟨x, hx, rfl⟩ := h
    obtain ⟨p, hp, ho⟩ := sliceAxis_embeds hx j hj
    exact ⟨p, hp, by simp only [AView.sub]; omega⟩
  | splitLeft axis mid =>
    simp only [applyView, Option.map_eq_some_iff] at h
    obtain ⟨⟨l, r⟩, hx, rfl⟩ := h
    unfold splitAtMut at hx
    split at hx
    · cases hx
    · next l' r' hsp =>
      split at hx
      · cases hx
        obtain ⟨p, hp, ho⟩ := (split_embeds hsp).1 j hj
        exact ⟨p, hp, by simp only [AView.sub]; omega⟩
      · cases hx
  | splitRight axis mid =>
    simp only [applyView, Option.map_eq_some_iff] at h
    obtain ⟨⟨l, r⟩, hx, rfl⟩ := h
    unfold splitAtMut at hx
    split at hx
    · cases hx
    · next l' r' hsp =>
      split at hx
      · cases hx
        obtain ⟨p, hp, ho⟩ := (split_embeds hsp).2 j hj
        exact ⟨p, hp, by simp only [AView.sub]; omega⟩
      · cases hx
  | broadcast target => simp [applyView] at h

theorem c06_T2_view_chain_addr : ∀ (ops : List ViewOp) {v w : AView},
    runViews true v ops = some w → ∀ {a : Nat}, Addr w a → Addr v a := by
  intro ops
  induction ops with
  | nil =>
    intro v w h a ha
    simp only [runViews, Option.some.injEq] at h
    subst h; exact ha
  | cons op ops ih =>
    intro v w h a ha
    simp only [runViews] at h
    split at h
    · cases h
    · next u hu => exact c06_T2_view_step_addr hu (ih h ha)

/-- **C06.T2s** (siblings at any depth): split a mutable view with injective offsets along any
axis, then apply *any* chain of mutable-view operations to the left half and any other chain
to the right half: the two resulting views have no element in common.  (Their storage
*ranges* may overlap — `c06_T2_view_chain` only bounds ranges — but no address is reachable
from both, so `l.slice_mut(..)` and `r.slice_mut(..)` etc. never alias.) -/
theorem c06_T2_siblings_disjoint {v l r wl wr : AView} {axis mid : Nat}
    {opsL opsR : List ViewOp} (hinj : Inj v.dims)
    (hl : applyView true v (.splitLeft axis mid) = some l)
    (hr : applyView true v (.splitRight axis mid) = some r)
    (hwl : runViews true l opsL = some wl) (hwr : runViews true r opsR = some wr)
    {a : Nat} (hal : Addr wl a) (har : Addr wr a) : False := by
  obtain ⟨i, hi, hai⟩ := c06_T2_view_chain_addr opsL hwl hal
  obtain ⟨j, hj, haj⟩ := c06_T2_view_chain_addr opsR hwr har
  simp only [applyView, Option.map_eq_some_iff] at hl hr
  obtain ⟨⟨l1, r1⟩, hx, rfl⟩ := hl
  obtain ⟨⟨l2, r2⟩, hy, rfl⟩ := hr
  rw [hx] at hy
  simp only [Option.some.injEq, Prod.mk.injEq] at hy
  obtain ⟨rfl, rfl⟩ := hy
  unfold splitAtMut at hx
  split at hx
  · cases hx
  · next l' r' hsp =>
    split at hx
    · cases hx
      have hd := ((c06_T2_split hsp).2.2 hinj).1 i j hi hj
      simp only [AView.sub] at hai haj
      omega
    · cases hx

/-- Non-vacuity: the halves of a column split of a 2×3 tensor, each sliced again. -/
example : applyView true ⟨0, 6, [(2, 3), (3, 1)]⟩ (.splitLeft 1 1) = some ⟨0, 4, [(2, 3), (1, 1)]⟩ ∧
    applyView true ⟨0, 6, [(2, 3), (3, 1)]⟩ (.splitRight 1 1) = some ⟨1, 5, [(2, 3), (2, 1)]⟩ ∧
    runViews true ⟨0, 4, [(2, 3), (1, 1)]⟩ [.sliceAxis 0 1 2] = some ⟨3, 1, [(1, 3), (1, 1)]⟩ ∧
    runViews true ⟨1, 5, [(2, 3), (2, 1)]⟩ [.slice [.range 0 (some 1)]] =
      some ⟨1, 2, [(1, 3), (2, 1)]⟩ := by decide

/-- The invariant of an owned tensor: `VSafe` within the `Vec` capacity, plus the size guards
(needed by `c06_T3_append_size_no_wrap` and by the machine = ideal theorems). -/
structure OSafe (t : Owned) : Prop where
  vsafe : VSafe true t.dims t.dataLen
  cap : t.dataLen ≤ t.cap
  shape_fits : prodNZ (shapeOf t.dims) ≤ isizeMax
  offset_fits : maxOffset t.dims < isizeMax

/-- Every constructor-accepted owned tensor satisfies it. -/
theorem c06_accepted_osafe {dims : List (Nat × Nat)} {n cap : Nat} (acc : Accepted dims n true)
    (hcap : n ≤ cap) : OSafe ⟨dims, n, cap⟩ :=
  ⟨c06_accepted_vsafe acc, hcap, acc.shape_fits, acc.offset_fits⟩

theorem osafe_contig {shape : List Nat} {n cap : Nat} (hfit : prodNZ shape ≤ isizeMax)
    (hn : prod shape ≤ n) (hcap : n ≤ cap) : OSafe ⟨contigDims shape, n, cap⟩ := by
  refine ⟨⟨fun j hj => ?_, fun _ => inj_of_no_overlap (mayOverlap_contig shape)⟩, hcap, ?_, ?_⟩
  · have hj' : ValidIdx (contigDims shape) j := hj
    have := c06_T1_offset_lt_min_data_len _ _ hj'
    rw [minDataLen_contig] at this
    show offset (contigDims shape) j < n
    omega
  · show prodNZ (shapeOf (contigDims shape)) ≤ isizeMax
    rw [shapeOf_contigDims]; exact hfit
  · have := maxOffset_contig_lt shape
    show maxOffset (contigDims shape) < isizeMax
    omega

/-- **C06.T2q** every mutating call on an owned tensor (`clip_dim`, `append`, in-place `reshape`,
`make_contiguous`; successful or failing) preserves the invariant… -/
theorem c06_T2_owned_step {t : Owned} (op : OwnedOp) (hs : OSafe t) : OSafe (stepOwned t op) := by
  cases op with
  | clip dim s e =>
    simp only [stepOwned]
    cases hc : clipDim t dim s e with
    | none => exact hs
    | some t' =>
      obtain ⟨hb, hi, hle, hcap, n, hn, hd⟩ := c06_T2_clipDim hc
      show OSafe t'
      refine ⟨⟨hb, fun _ => hi (hs.vsafe.inj rfl)⟩, by rw [hcap]; exact Nat.le_trans hle hs.cap,
        ?_, ?_⟩
      · rw [hd]; exact Nat.le_trans (prodNZ_setSize_le _ _ _ hn) hs.shape_fits
      · rw [hd]; exact Nat.lt_of_le_of_lt (maxOffset_setSize_le _ _ _ hn) hs.offset_fits
  | append axis other =>
    simp only [stepOwned]
    split
    · next t' ha =>
      obtain ⟨acc, hcap, _, _⟩ := c06_T2_append ha hs.cap
      exact ⟨c06_accepted_vsafe acc, hcap, acc.shape_fits, acc.offset_fits⟩
    · exact hs
  | reshape shape =>
    simp only [stepOwned]
    cases hr : reshape t shape with
    | none => exact hs
    | some t' =>
      show OSafe t'
      unfold reshape at hr
      split at hr
      · cases hr
      · next hsl =>
        rw [checkedShapeLen_eq] at hsl
        have hfit : prodNZ shape ≤ isizeMax := by
          by_cases hp : prodNZ shape ≤ isizeMax
          · exact hp
          · simp [hp] at hsl
        split at hr
        · cases hr
        · next hlen =>
          have hlen' : prod shape = len t.dims := by
            by_cases hq : prod shape = len t.dims
            · exact hq
            · exact absurd hq hlen
          split at hr
          · next hc =>
            cases hr
            refine osafe_contig hfit ?_ hs.cap
            -- contiguous: the storage already holds `len` elements
            cases hz : hasZero t.dims
            · rw [hlen', ← minDataLen_of_contiguous hc hz]
              exact minDataLen_le_of_bounded hs.vsafe.in_bounds
            · rw [hlen']
              have : len t.dims = 0 := by
                unfold len
                exact prod_of_anyZero (by rw [← hasZero_eq_anyZero]; exact hz)
              omega
          · cases hr
            exact osafe_contig hfit (by rw [hlen']; exact Nat.le_refl _) (Nat.le_refl _)
  | makeContiguous =>
    simp only [stepOwned, makeContiguous]
    split
    · exact hs
    · exact osafe_contig hs.shape_fits (Nat.le_refl _) (Nat.le_refl _)

/-- …hence so does **any program** of such calls, from any constructor-accepted tensor. -/
theorem c06_T2_owned_program (ops : List OwnedOp) {t : Owned} (hs : OSafe t) :
    OSafe (ops.foldl stepOwned t) := by
  induction ops generalizing t with
  | nil => exact hs
  | cons op ops ih => exact ih (c06_T2_owned_step op hs)

/-- Non-vacuity: `with_capacity([3,2], 0)`, two appends (the second refused), a clip that
makes the tensor non-contiguous, a failing and a succeeding reshape. -/
example : [OwnedOp.append 0 [(2, 0), (2, 0)], .append 0 [(2, 0), (2, 0)], .clip 1 0 1,
      .reshape [5], .reshape [1, 2]].foldl stepOwned ⟨[(0, 2), (2, 1)], 0, 6⟩ =
    ⟨[(1, 2), (2, 1)], 2, 2⟩ := by decide

/-- **C06 was false for in-place `reshape` before fix `d75b8c9`**: `from_data(&[2,3], 0..6)`,
`clip_dim(1, 0..1)` (shape `[2,1]`, strides `[3,1]`), then `reshape(&[5])`: the elements were
copied into a 2-element `Vec` before the shape was rejected; after the panic the old strided
layout addresses offset 3 of 2 elements.  The fixed `reshape` leaves the tensor unchanged. -/
theorem c06_reshape_old_false :
    clipDim ⟨[(2, 3), (3, 1)], 6, 6⟩ 1 0 1 = some ⟨[(2, 3), (1, 1)], 4, 6⟩ ∧
    reshapeOld ⟨[(2, 3), (1, 1)], 4, 6⟩ [5] = (⟨[(2, 3), (1, 1)], 2, 2⟩, true) ∧
    validIdx [(2, 3), (1, 1)] [1, 0] = true ∧ offset [(2, 3), (1, 1)] [1, 0] = 3 ∧
    reshape ⟨[(2, 3), (1, 1)], 4, 6⟩ [5] = none ∧
    stepOwned ⟨[(2, 3), (1, 1)], 4, 6⟩ (.reshape [5]) = ⟨[(2, 3), (1, 1)], 4, 6⟩ := by
  decide

/-! ## `DynLayout` axis arguments (audit H1) -/

/-- **C06 was false before fix `90df0e8`**: in a release build
`Tensor::<u32>::from_data(&[2,3], ..).clip_dim(2, 0..1)` overwrites the strides `[3,1]` with
`[1,1]` and *then* panics; after catching the panic the valid indices `[0,1]` and `[1,0]` of
the (mutable) tensor address the same element.  `remove_axis(4)` on a `[1,3,2]` tensor with
strides `[6,1,3]` leaves shape `[1,3]` with strides `[2,6,3]`: index `[0,2]` maps to offset 12
of a 6-element storage.  Both reproduced on the real crate by the harness. -/
theorem c06_dyn_axis_old_false :
    OldDyn.clipDim [2, 3, 3, 1] 2 0 1 = ([2, 3, 1, 1], true) ∧
    OldDyn.dims [2, 3, 1, 1] = [(2, 1), (3, 1)] ∧
    validIdx [(2, 1), (3, 1)] [0, 1] = true ∧ validIdx [(2, 1), (3, 1)] [1, 0] = true ∧
    offset [(2, 1), (3, 1)] [0, 1] = offset [(2, 1), (3, 1)] [1, 0] ∧
    OldDyn.removeAxis [1, 3, 2, 6, 1, 3] 4 = ([1, 3, 2, 6, 3], true) ∧
    OldDyn.dims [1, 3, 2, 6, 3] = [(1, 2), (3, 6)] ∧
    validIdx [(1, 2), (3, 6)] [0, 2] = true ∧ offset [(1, 2), (3, 6)] [0, 2] = 12 := by
  decide

/-- The fixed code refuses both calls before touching the layout (a failing call is the
identity on the state, `stepOwned`), and `size` / `stride` / `remove_axis` / `insert_axis` /
`move_axis` with an axis past the rank are refused too. -/
theorem c06_dyn_axis_fixed :
    clipDim ⟨[(2, 3), (3, 1)], 6, 6⟩ 2 0 1 = none ∧
    stepOwned ⟨[(2, 3), (3, 1)], 6, 6⟩ (.clip 2 0 1) = ⟨[(2, 3), (3, 1)], 6, 6⟩ ∧
    removeAxis [(1, 6), (3, 1), (2, 3)] 4 = none ∧
    (∀ dims axis, dims.length ≤ axis → sizeOf? dims axis = none ∧ strideOf? dims axis = none ∧
      removeAxis dims axis = none ∧ insertAxis dims (axis + 1) = none ∧
      (∀ k, moveAxis dims axis k = none ∧ moveAxis dims k axis = none) ∧
      (∀ t s e, t.dims = dims → clipDim t axis s e = none)) := by
  refine ⟨by decide, by decide, by decide, ?_⟩
  intro dims axis h
  have h' : ¬ axis < dims.length := by omega
  refine ⟨by simp [sizeOf?, h'], by simp [strideOf?, h'], by simp [removeAxis, h'],
    by simp [insertAxis]; omega, fun k => ⟨by simp [moveAxis, h'], by simp [moveAxis, h']⟩, ?_⟩
  intro t s e ht
  subst ht
  rw [clipDim_unfold, if_neg (fun hc => h' hc.1)]

/-! ## Remaining machine-arithmetic facts -/

theorem sizeAt_le_prodNZ : ∀ (dims : List (Nat × Nat)) (axis : Nat),
    sizeAt dims axis ≤ prodNZ (shapeOf dims) := by
  intro dims
  induction dims with
  | nil => intro axis; simp [sizeAt, shapeOf, prodNZ]
  | cons d ds ih =>
    obtain ⟨size, stride⟩ := d
    intro axis
    have hp := prodNZ_pos (shapeOf ds)
    cases axis with
    | zero =>
      simp only [sizeAt, List.getD_cons_zero, shapeOf, List.map_cons, prodNZ]
      split
      · omega
      · exact Nat.le_mul_of_pos_right _ hp
    | succ a =>
      have := ih a
      simp only [sizeAt, List.getD_cons_succ, shapeOf, List.map_cons, prodNZ] at *
      split
      · exact this
      · exact Nat.le_trans this (Nat.le_mul_of_pos_left _ (by omega))

/-- **C06.T3l** `append`'s `new_size = self.size(axis) + other.size(axis)` cannot wrap: both
operands are sizes of accepted tensors, each `≤ isize::MAX`. -/
theorem c06_T3_append_size_no_wrap {a b : List (Nat × Nat)} {n k : Nat} {m m' : Bool}
    (ha : Accepted a n m) (hb : Accepted b k m') (axis : Nat) :
    sizeAt a axis + sizeAt b axis < wordSize := by
  have h1 := Nat.le_trans (sizeAt_le_prodNZ a axis) ha.shape_fits
  have h2 := Nat.le_trans (sizeAt_le_prodNZ b axis) hb.shape_fits
  have : isizeMax + isizeMax < wordSize := by decide
  omega

/-- The same from the program invariant: at every `append` reached by any program on an owned
tensor (`c06_T2_owned_program`), `new_size` cannot wrap. -/
theorem c06_T3_append_size_no_wrap_program {t : Owned} (hs : OSafe t) {other : List (Nat × Nat)}
    (ho : prodNZ (shapeOf other) ≤ isizeMax) (axis : Nat) :
    sizeAt t.dims axis + sizeAt other axis < wordSize := by
  have h1 := Nat.le_trans (sizeAt_le_prodNZ t.dims axis) hs.shape_fits
  have h2 := Nat.le_trans (sizeAt_le_prodNZ other axis) ho
  have : isizeMax + isizeMax < wordSize := by decide
  omega

/-- Non-vacuity of T3k with a non-empty result: `t.slice((1..3, -2..))` of a 3×4 tensor on
machine integers. -/
example : M.trySliceR [(3, 4), (4, 1)] 12 [.span 1 3, .span 2 4] =
    some ⟨6, 12, [(2, 4), (2, 1)]⟩ ∧
    ItemsOk (M.toN [(3, 4), (4, 1)]) ([M.RItem.span 1 3, .span 2 4].map M.RItem.toN) :=
  ⟨by decide, .cons ⟨by decide, by decide⟩ (.cons ⟨by decide, by decide⟩ (.nil _))⟩

/-! ## `insert_axis` / `remove_axis` / `move_axis` preserve the invariants

The edited layout has the same element addresses as the original: every valid index of the
result is a valid index of the source at the same offset (and vice versa), so in-storage and
injectivity are inherited.  These calls exist on owned tensors and on views alike. -/

/-- Moving one dimension of a layout to another position keeps `VSafe`. -/
theorem vsafe_reinsert {m : Bool} {E : List (Nat × Nat)} {d : Nat × Nat} {f t n : Nat}
    (hf : f ≤ E.length) (ht : t ≤ E.length) (hs : VSafe m (insertAt E f d) n) :
    VSafe m (insertAt E t d) n := by
  obtain ⟨sz, st⟩ := d
  refine ⟨fun j hj => ?_, fun hm j j' hj hj' heq => ?_⟩
  · obtain ⟨k, js, rfl, hk, v, o⟩ := valid_insertAt_inv E t j sz st ht hj
    obtain ⟨v', o'⟩ := valid_insertAt E f js k sz st hf v hk
    have := hs.in_bounds _ v'
    omega
  · obtain ⟨k, js, rfl, hk, v, o⟩ := valid_insertAt_inv E t j sz st ht hj
    obtain ⟨k', js', rfl, hk', v', o'⟩ := valid_insertAt_inv E t j' sz st ht hj'
    obtain ⟨w, p⟩ := valid_insertAt E f js k sz st hf v hk
    obtain ⟨w', p'⟩ := valid_insertAt E f js' k' sz st hf v' hk'
    have := hs.inj hm _ _ w w' (by omega)
    obtain ⟨h1, h2⟩ := insertAt_inj2 js js' f k k'
      (by rw [valid_length v, valid_length v']) this
    rw [h1, h2]

theorem vsafe_insert_unit {m : Bool} {ds : List (Nat × Nat)} {i st n : Nat}
    (hi : i ≤ ds.length) (hs : VSafe m ds n) : VSafe m (insertAt ds i (1, st)) n := by
  refine ⟨fun j hj => ?_, fun hm j j' hj hj' heq => ?_⟩
  · obtain ⟨k, js, rfl, hk, v, o⟩ := valid_insertAt_inv ds i j 1 st hi hj
    have := hs.in_bounds _ v
    have : k = 0 := by omega
    subst this
    omega
  · obtain ⟨k, js, rfl, hk, v, o⟩ := valid_insertAt_inv ds i j 1 st hi hj
    obtain ⟨k', js', rfl, hk', v', o'⟩ := valid_insertAt_inv ds i j' 1 st hi hj'
    have hk0 : k = 0 := by omega
    have hk0' : k' = 0 := by omega
    subst hk0 hk0'
    have := hs.inj hm _ _ v v' (by omega)
    rw [this]

theorem vsafe_remove_unit {m : Bool} {E : List (Nat × Nat)} {i st n : Nat}
    (hi : i ≤ E.length) (hs : VSafe m (insertAt E i (1, st)) n) : VSafe m E n := by
  refine ⟨fun js hj => ?_, fun hm js js' hj hj' heq => ?_⟩
  · obtain ⟨v, o⟩ := valid_insertAt E i js 0 1 st hi hj (by omega)
    have := hs.in_bounds _ v
    omega
  · obtain ⟨v, o⟩ := valid_insertAt E i js 0 1 st hi hj (by omega)
    obtain ⟨v', o'⟩ := valid_insertAt E i js' 0 1 st hi hj' (by omega)
    have := hs.inj hm _ _ v v' (by omega)
    exact (insertAt_inj2 js js' i 0 0 (by rw [valid_length hj, valid_length hj']) this).1

theorem removeAxis_shape {dims d' : List (Nat × Nat)} {i : Nat} (h : removeAxis dims i = some d') :
    ∃ st, i ≤ d'.length ∧ dims = insertAt d' i (1, st) := by
  unfold removeAxis at h
  split at h
  · next hc =>
    cases h
    refine ⟨strideAt dims i, ?_, ?_⟩
    · have := length_eraseIdx_lt dims i hc.1; omega
    · have h1 := insertAt_eraseIdx dims i (0, 0) hc.1
      have h2 : dims.getD i (0, 0) = (1, strideAt dims i) := by
        have := hc.2
        simp only [sizeAt] at this
        simp only [strideAt]
        rw [← this]
    
      rw [h2] at h1
      exact h1.symm
  · cases h

/-- **C06.T2t** `remove_axis`, `insert_axis` and `move_axis` (owned tensors and views) keep
`VSafe`: the result addresses exactly the elements the source addresses. -/
theorem c06_T2_axis_edits {m : Bool} {dims d' : List (Nat × Nat)} {n : Nat}
    (hs : VSafe m dims n) :
    (∀ i, removeAxis dims i = some d' → VSafe m d' n) ∧
    (∀ i, insertAxis dims i = some d' → VSafe m d' n) ∧
    (∀ src dst, moveAxis dims src dst = some d' → VSafe m d' n) := by
  refine ⟨fun i h => ?_, fun i h => ?_, fun src dst h => ?_⟩
  · obtain ⟨st, hi, hd⟩ := removeAxis_shape h
    rw [hd] at hs
    exact vsafe_remove_unit hi hs
  · unfold insertAxis at h
    split at h
    · next hi => cases h; exact vsafe_insert_unit hi hs
    · cases h
  · unfold moveAxis at h
    split at h
    · next hc =>
      cases h
      have hlen := length_eraseIdx_lt dims src hc.1
      have hd := insertAt_eraseIdx dims src (0, 0) hc.1
      rw [← hd] at hs
      exact vsafe_reinsert (by omega) (by omega) hs
    · cases h

/-- Non-vacuity: the three edits on a transposed 3×1×2 layout. -/
example : removeAxis [(3, 1), (1, 7), (2, 3)] 1 = some [(3, 1), (2, 3)] ∧
    insertAxis [(3, 1), (2, 3)] 2 = some [(3, 1), (2, 3), (1, 6)] ∧
    moveAxis [(3, 1), (1, 7), (2, 3)] 0 2 = some [(1, 7), (2, 3), (3, 1)] := by decide

/-- Layout edits of an owned tensor. -/
inductive LayoutOp where
  | removeAxis (index : Nat)
  | insertAxis (index : Nat)
  | moveAxis (src dst : Nat)
  deriving DecidableEq, Repr

/-- A failing edit panics before anything is modified (fix `90df0e8`). -/
def stepLayout (t : Owned) : LayoutOp → Owned
  | .removeAxis i => match removeAxis t.dims i with
    | some d => { t with dims := d }
    | none => t
  | .insertAxis i => match insertAxis t.dims i with
    | some d => { t with dims := d }
    | none => t
  | .moveAxis s d => match moveAxis t.dims s d with
    | some x => { t with dims := x }
    | none => t

/-- Any mutating call on an owned tensor modelled here. -/
inductive OwnedOpX where
  | base (op : OwnedOp)
  | layout (op : LayoutOp)
  deriving DecidableEq, Repr

def stepOwnedX (t : Owned) : OwnedOpX → Owned
  | .base op => stepOwned t op
  | .layout op => stepLayout t op

theorem osafe_layout_step {t : Owned} (op : LayoutOp) (hs : OSafe t) : OSafe (stepLayout t op) := by
  have hax := c06_T2_axis_edits (d' := (stepLayout t op).dims) hs.vsafe
  cases op with
  | removeAxis i =>
    simp only [stepLayout] at hax ⊢
    cases h : removeAxis t.dims i with
    | none => exact hs
    | some d =>
      rw [h] at hax
      obtain ⟨st, hi, hd⟩ := removeAxis_shape h
      have hsf := hs.shape_fits
      have hof := hs.offset_fits
      rw [hd, prodNZ_insertAt] at hsf
      rw [hd, maxOffset_insertAt] at hof
      exact ⟨hax.1 i (by rw [h]), hs.cap, by simpa [prodNZ] using hsf, by simpa using hof⟩
  | insertAxis i =>
    simp only [stepLayout] at hax ⊢
    cases h : insertAxis t.dims i with
    | none => exact hs
    | some d =>
      rw [h] at hax
      have hd : ∃ st, d = insertAt t.dims i (1, st) := by
        unfold insertAxis at h
        split at h
        · cases h; exact ⟨_, rfl⟩
        · cases h
      obtain ⟨st, rfl⟩ := hd
      refine ⟨hax.2.1 i (by rw [h]), hs.cap, ?_, ?_⟩
      · show prodNZ (shapeOf (insertAt t.dims i (1, st))) ≤ isizeMax
        rw [prodNZ_insertAt]; simpa [prodNZ] using hs.shape_fits
      · show maxOffset (insertAt t.dims i (1, st)) < isizeMax
        rw [maxOffset_insertAt]; simpa using hs.offset_fits
  | moveAxis src dst =>
    simp only [stepLayout] at hax ⊢
    cases h : moveAxis t.dims src dst with
    | none => exact hs
    | some d =>
      rw [h] at hax
      have hd : src < t.dims.length ∧
          d = insertAt (t.dims.eraseIdx src) dst (t.dims.getD src (0, 0)) := by
        unfold moveAxis at h
        split at h
        · next hc => cases h; exact ⟨hc.1, rfl⟩
        · cases h
      obtain ⟨hsrc, rfl⟩ := hd
      have hdims := insertAt_eraseIdx t.dims src (0, 0) hsrc
      have hsf := hs.shape_fits
      have hof := hs.offset_fits
      rw [← hdims, prodNZ_insertAt] at hsf
      rw [← hdims, maxOffset_insertAt] at hof
      refine ⟨hax.2.2 src dst (by rw [h]), hs.cap, ?_, ?_⟩
      · show prodNZ (shapeOf (insertAt (t.dims.eraseIdx src) dst (t.dims.getD src (0, 0)))) ≤ _
        rw [prodNZ_insertAt]; exact hsf
      · show maxOffset (insertAt (t.dims.eraseIdx src) dst (t.dims.getD src (0, 0))) < _
        rw [maxOffset_insertAt]; exact hof

/-- **C06.T2u** any program of `clip_dim`, `append`, `reshape`, `make_contiguous`, `remove_axis`,
`insert_axis` and `move_axis` calls (successful or failing) on an owned tensor preserves the
invariant. -/
theorem c06_T2_owned_programX (ops : List OwnedOpX) {t : Owned} (hs : OSafe t) :
    OSafe (ops.foldl stepOwnedX t) := by
  induction ops generalizing t with
  | nil => exact hs
  | cons op ops ih =>
    apply ih
    cases op with
    | base op => exact c06_T2_owned_step op hs
    | layout op => exact osafe_layout_step op hs

/-! ## `transposed` / `transpose` -/

/-- **C06.T2v** reversing the dimension order (`transposed`, `transpose`; the layout code is
`permute_iter((0..ndim).rev())`, modelled as `dims.reverse`, tied to the real code by C09's
harness) keeps `VSafe`: the transposed layout addresses exactly the same elements. -/
theorem c06_T2_transposed {m : Bool} {dims : List (Nat × Nat)} {n : Nat} (hs : VSafe m dims n) :
    VSafe m dims.reverse n := by
  refine ⟨fun j hj => ?_, fun hm j j' hj hj' heq => ?_⟩
  · obtain ⟨v, o⟩ := valid_reverse hj
    rw [List.reverse_reverse] at v o
    have := hs.in_bounds _ v
    omega
  · obtain ⟨v, o⟩ := valid_reverse hj
    obtain ⟨v', o'⟩ := valid_reverse hj'
    rw [List.reverse_reverse] at v o v' o'
    have := hs.inj hm _ _ v v' (by omega)
    have h2 := congrArg List.reverse this
    rwa [List.reverse_reverse, List.reverse_reverse] at h2

/-! ## T3 (continued): the offset arithmetic of `split`, `slice_axis`, `clip_dim` cannot wrap -/

theorem hasZero_of_len_ne {d : List (Nat × Nat)} (h : len d ≠ 0) : hasZero d = false := by
  cases hz : hasZero d
  · rfl
  · exfalso
    apply h
    unfold len
    exact prod_of_anyZero (by rw [← hasZero_eq_anyZero]; exact hz)

/-- The block of `dims` that keeps entries `s .. s+n` of dimension `axis` ends inside the
parent: `s·stride + min_data_len(block) ≤ min_data_len(dims)`. -/
theorem subblock_end_le {dims : List (Nat × Nat)} {axis s n : Nat} (hax : axis < dims.length)
    (hle : s + n ≤ sizeAt dims axis) (hne : len (setSize dims axis n) ≠ 0) :
    s * strideAt dims axis + minDataLen (setSize dims axis n) ≤ minDataLen dims :=
  stop_le_of_bounded (fun j hj => by
    obtain ⟨vj, oj⟩ := embedShift dims axis s n j hax hle hj
    have := c06_T1_offset_lt_min_data_len _ _ vj
    omega) (hasZero_of_len_ne hne)

/-- **C06.T3m** on an accepted tensor every quantity `MutLayout::split`, `slice_axis` and
`clip_dim` compute is bounded by the tensor's `min_data_len ≤ isize::MAX`, so the `usize`
evaluation cannot wrap and equals the ideal one the model uses:
`mid_offset = mid·stride` and the range ends (`s = mid`, or `s = 0`, `n = mid`), `slice_axis` /
`clip_dim`'s `start·stride` and `start·stride + min_data_len(sliced)`, and the element count of
the resized shape behind `is_empty()`.  (`broadcast` performs no offset arithmetic; its only
size computation is `checked_shape_len`, covered by T3c.) -/
theorem c06_T3_subblock_no_wrap {dims : List (Nat × Nat)} {k : Nat} {m : Bool}
    (acc : Accepted dims k m) {axis s n : Nat} (hax : axis < dims.length)
    (hle : s + n ≤ sizeAt dims axis) :
    len (setSize dims axis n) ≤ isizeMax ∧
    (len (setSize dims axis n) ≠ 0 →
      s * strideAt dims axis ≤ isizeMax ∧
      s * strideAt dims axis + minDataLen (setSize dims axis n) ≤ isizeMax) := by
  have hfit := (c06_T3_accepted_fits acc).2
  refine ⟨?_, fun hne => ?_⟩
  · exact Nat.le_trans (prod_le_prodNZ _)
      (Nat.le_trans (prodNZ_setSize_le dims axis n (by omega)) acc.shape_fits)
  · have := subblock_end_le hax hle hne
    omega

/-- The quantities of T3m are exactly what the model's `split` / `sliceAxis` / `clipDim`
return: instances for a 3×4 tensor. -/
example : sliceAxis [(3, 4), (4, 1)] 12 0 1 3 = some ⟨1 * 4, 1 * 4 + minDataLen [(2, 4), (4, 1)],
      setSize [(3, 4), (4, 1)] 0 2⟩ ∧
    split [(3, 4), (4, 1)] 1 1 = some (⟨0, minDataLen (setSize [(3, 4), (4, 1)] 1 1),
      setSize [(3, 4), (4, 1)] 1 1⟩, ⟨1 * 1, minDataLen [(3, 4), (4, 1)],
      setSize [(3, 4), (4, 1)] 1 3⟩) := by decide

/-! ## `index_axis` / `index_axis_mut` -/

/-- `MutLayout::index_axis(axis, index)` + `Storage::slice(_mut)`: the layout with `axis`
removed, the range `stride·index .. + min_data_len` (`0..0` when empty).  This is the
`slice_layout` computation for the items `[.., .., index]` (`axis` full ranges, then an
index), so it is expressed through `trySliceR`; `none` = panic (failed assertion). -/
def indexAxis (dims : List (Nat × Nat)) (n axis index : Nat) : Option View :=
  if axis < dims.length ∧ index < sizeAt dims axis then
    trySliceR dims n (List.replicate axis RItem.keep ++ [RItem.pick index])
  else none

theorem itemsOk_indexAxis : ∀ (dims : List (Nat × Nat)) (axis index : Nat),
    axis < dims.length → index < sizeAt dims axis →
    ItemsOk dims (List.replicate axis RItem.keep ++ [RItem.pick index]) := by
  intro dims
  induction dims with
  | nil => intro axis index h; simp at h
  | cons d ds ih =>
    obtain ⟨size, stride⟩ := d
    intro axis index hax hidx
    cases axis with
    | zero =>
      simp only [sizeAt, List.getD_cons_zero] at hidx
      exact .cons hidx (.nil _)
    | succ a =>
      simp only [sizeAt, List.getD_cons_succ] at hidx
      simp only [List.length_cons, Nat.add_lt_add_iff_right] at hax
      exact .cons trivial (ih a index hax hidx)

/-- **C06.T2w** `index_axis(_mut)`: the sub-view lies inside the parent's storage, addresses
only elements the parent addresses, and is injective if the parent is. -/
theorem c06_T2_indexAxis {dims : List (Nat × Nat)} {n axis index : Nat} {v : View}
    (h : indexAxis dims n axis index = some v) :
    v.start ≤ n ∧ v.stop ≤ n ∧
    (∀ j, ValidIdx v.dims j →
      v.start + offset v.dims j < v.stop ∧ v.start + offset v.dims j < minDataLen dims) ∧
    (Inj dims → Inj v.dims) := by
  unfold indexAxis at h
  split at h
  · next hc => exact c06_T2_slice (itemsOk_indexAxis dims axis index hc.1 hc.2) h
  · cases h

/-- Non-vacuity: row 1 of a transposed 3×4 tensor (strides `[1, 3]`). -/
example : indexAxis [(3, 1), (4, 3)] 12 0 1 = some ⟨1, 11, [(4, 3)]⟩ ∧
    indexAxis [(3, 1), (4, 3)] 12 0 3 = none ∧ ValidIdx [(4, 3)] [3] :=
  ⟨by decide, by decide, .cons (by omega) .nil⟩

end RtenVerif.TensorBounds
