import RtenVerif.Model.TensorBounds
import RtenVerif.Lemmas.Overlap

namespace RtenVerif.TensorBounds
open RtenVerif.Overlap

/-- placeholder witness (replaced below as the proofs land). -/
theorem c06_T3_old_false :
    M.Old.tryFromData [4294967296, 4294967296] 0 = .ok [(4294967296, 4294967296), (4294967296, 1)] := by
  decide

end RtenVerif.TensorBounds
