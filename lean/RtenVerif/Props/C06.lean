import RtenVerif.Lemmas.TensorBoundsOverlapM
import RtenVerif.Lemmas.TensorBoundsSplit
import RtenVerif.Props.C08

/-!
# C06 — Safe tensor APIs never access memory out of bounds or alias mutably

Theorems over `RtenVerif/Model/TensorBounds.lean` (model of the size / offset arithmetic of
`rten-tensor`'s `layout.rs`, `tensor.rs`, `overlap.rs`, `storage.rs`).  `dims` is the list of
`(size, stride)` pairs of a layout; `ValidIdx dims idx` (from `Lemmas/Overlap.lean`) says that
`idx` has the right rank and every component is in range.

* **T1** (ideal) every valid index maps below `min_data_len`.
* **T2** (ideal) constructor soundness: every accepted tensor has `min_data_len ≤ |storage|`, so
  every valid index addresses an element of the storage; tensors with mutable storage have
  passed the overlap check, so distinct valid indices address distinct elements (C08); the two
  halves of `split_at_mut` address disjoint element sets inside their own storage ranges.
* **T3** (machine) the `UInt64` constructors accept exactly what the ideal ones accept — only
  layouts whose ideal `len` and `min_data_len` are `≤ isize::MAX` — and on every accepted
  layout the wrap-around arithmetic equals the ideal arithmetic.  For the code *before* the
  fix T3 is false; the witnesses are kept (`c06_T3_old_false_*`).
-/
namespace RtenVerif.TensorBounds
open RtenVerif.Overlap

/-! ## T1 -/

/-- **C06.T1** (`TrustedLayout` promise, ideal integers): for every layout, every valid index
maps to an offset `< min_data_len`. -/
theorem c06_T1_offset_lt_min_data_len (dims : List (Nat × Nat)) (idx : List Nat)
    (h : ValidIdx dims idx) : offset dims idx < minDataLen dims := by
  unfold minDataLen
  rw [valid_hasZero h]
  have := valid_offset_le h
  simp only [Bool.false_eq_true, if_false]
  omega

/-- T1 in terms of the executable `Layout::offset` model: whatever it returns is in range. -/
theorem c06_T1_offsetOf (dims : List (Nat × Nat)) (idx : List Nat) (o : Nat)
    (h : offsetOf dims idx = some o) : o < minDataLen dims := by
  unfold offsetOf at h
  split at h
  · next hv =>
    cases h
    exact c06_T1_offset_lt_min_data_len dims idx ((validIdx_iff _ _).mp hv)
  · cases h

/-- Non-vacuity: a transposed, stepped layout and its last element. -/
example : ValidIdx [(3, 2), (4, 8)] [2, 3] ∧ offset [(3, 2), (4, 8)] [2, 3] = 28 ∧
    minDataLen [(3, 2), (4, 8)] = 29 := by
  refine ⟨.cons (by omega) (.cons (by omega) .nil), by decide, by decide⟩

/-! ## T2: constructor soundness -/

/-- The invariant every constructor establishes between a layout, the length `n` of the
storage it is paired with, and the storage's mutability. -/
structure Accepted (dims : List (Nat × Nat)) (n : Nat) (mutable : Bool) : Prop where
  /-- the element count, counted over the non-empty dimensions, fits `isize` -/
  shape_fits : prodNZ (shapeOf dims) ≤ isizeMax
  /-- the largest offset fits `isize` -/
  offset_fits : maxOffset dims < isizeMax
  /-- the storage is long enough -/
  storage_long_enough : minDataLen dims ≤ n
  /-- mutable storage only with layouts that passed the overlap check -/
  no_overlap : mutable = true → mayOverlap dims = false

/-- **C06.T2a** every valid index of an accepted tensor addresses an element of its storage. -/
theorem c06_T2_in_bounds {dims : List (Nat × Nat)} {n : Nat} {m : Bool} (acc : Accepted dims n m)
    {idx : List Nat} (h : ValidIdx dims idx) : offset dims idx < n :=
  Nat.lt_of_lt_of_le (c06_T1_offset_lt_min_data_len dims idx h) acc.storage_long_enough

/-- **C06.T2b** in an accepted tensor with mutable storage, two different valid indices never
address the same element, so the `&mut` obtained for them (`get_mut`, `IndexMut`) do not
alias.  (C08.T1 applied to the overlap check the constructors ran.) -/
theorem c06_T2_no_alias {dims : List (Nat × Nat)} {n : Nat} (acc : Accepted dims n true)
    {i j : List Nat} (hi : ValidIdx dims i) (hj : ValidIdx dims j) (hne : i ≠ j) :
    offset dims i ≠ offset dims j := fun h =>
  hne (c08_no_overlap_injective dims i j (acc.no_overlap rfl) hi hj h)

theorem accepted_of_checked {dims : List (Nat × Nat)} {n : Nat} {m : Bool}
    (h1 : (checkedMinDataLen dims).isSome) (h2 : minDataLen dims ≤ n)
    (h3 : m = true → mayOverlap dims = false) : Accepted dims n m := by
  rw [checkedMinDataLen_eq] at h1
  split at h1
  · next h => exact ⟨h.1, h.2, h2, h3⟩
  · cases h1

/-- **C06.T2c** `try_from_data` (owning / mutable storage): accepted ⇒ invariant, and the storage
length is exactly the element count. -/
theorem c06_T2_tryFromData {shape : List Nat} {n : Nat} {l : List (Nat × Nat)}
    (h : tryFromData shape n = .ok l) :
    l = contigDims shape ∧ Accepted l n true ∧ len l = n ∧ minDataLen l = n := by
  unfold tryFromData at h
  split at h
  · cases h
  · next h1 =>
    split at h
    · cases h
    · next h2 =>
      cases h
      rw [checkedShapeLen_eq] at h1
      have hfit : prodNZ shape ≤ isizeMax := by
        by_cases hp : prodNZ shape ≤ isizeMax
        · exact hp
        · simp [hp] at h1
      have hmo := maxOffset_contig_lt shape
      have hn : minDataLen (contigDims shape) = n := by
        by_cases hq : minDataLen (contigDims shape) = n
        · exact hq
        · exact absurd hq h2
      refine ⟨rfl, ⟨?_, ?_, ?_, fun _ => mayOverlap_contig shape⟩, ?_, hn⟩
      · rw [shapeOf_contigDims]; exact hfit
      · omega
      · omega
      · rw [len_contig, ← hn, minDataLen_contig]

/-- `from_data` accepts exactly what `try_from_data` accepts. -/
theorem c06_T2_fromData {shape : List Nat} {n : Nat} {l : List (Nat × Nat)}
    (h : fromData shape n = .ok l) : Accepted l n true ∧ len l = n := by
  unfold fromData at h
  split at h
  · next l' h' =>
    cases h
    have := c06_T2_tryFromData h'
    exact ⟨this.2.1, this.2.2.1⟩
  · cases h

theorem fromShapeAndStrides_ok {dims l : List (Nat × Nat)} {d : Bool}
    (h : fromShapeAndStrides dims d = .ok l) :
    l = dims ∧ (checkedMinDataLen dims).isSome ∧ (d = true → mayOverlap dims = false) := by
  unfold fromShapeAndStrides at h
  split at h
  · cases h
  · next h1 =>
    split at h
    · cases h
    · next h2 =>
      cases h
      refine ⟨rfl, ?_, ?_⟩
      · cases hc : checkedMinDataLen dims <;> simp_all
      · intro hd
        subst hd
        simpa using h2

/-- **C06.T2d** `from_data_with_strides` (owning / mutable storage, `DisallowOverlap`). -/
theorem c06_T2_fromDataWithStrides {dims l : List (Nat × Nat)} {n : Nat}
    (h : fromDataWithStrides dims n = .ok l) : l = dims ∧ Accepted l n true := by
  unfold fromDataWithStrides at h
  split at h
  · cases h
  · next l' h' =>
    obtain ⟨rfl, h1, h3⟩ := fromShapeAndStrides_ok h'
    split at h
    · cases h
    · next h2 =>
      cases h
      exact ⟨rfl, accepted_of_checked h1 (by omega) h3⟩

/-- **C06.T2e** `from_slice_with_strides` (immutable view, `AllowOverlap`). -/
theorem c06_T2_fromSliceWithStrides {dims l : List (Nat × Nat)} {n : Nat}
    (h : fromSliceWithStrides dims n = .ok l) : l = dims ∧ Accepted l n false := by
  unfold fromSliceWithStrides at h
  split at h
  · cases h
  · next l' h' =>
    obtain ⟨rfl, h1, _⟩ := fromShapeAndStrides_ok h'
    split at h
    · cases h
    · next h2 =>
      cases h
      exact ⟨rfl, accepted_of_checked h1 (by omega) (fun h => by cases h)⟩

/-- **C06.T2f** `from_storage_and_layout` with an arbitrary layout value (e.g. after
`resize_dim`) and mutable or immutable storage. -/
theorem c06_T2_fromStorageAndLayout {dims l : List (Nat × Nat)} {n : Nat} {m : Bool}
    (h : fromStorageAndLayout dims n m = .ok l) : l = dims ∧ Accepted l n m := by
  unfold fromStorageAndLayout at h
  split at h
  · cases h
  · next k hk =>
    split at h
    · cases h
    · next h2 =>
      split at h
      · cases h
      · next h3 =>
        cases h
        have hk' := hk
        rw [checkedMinDataLen_eq] at hk'
        split at hk'
        · cases hk'
          refine ⟨rfl, accepted_of_checked (by simp [hk]) (by omega) ?_⟩
          intro hm
          subst hm
          simpa using h3
        · cases hk'

/-- Non-vacuity: each constructor accepts a non-trivial tensor (a 2×3 matrix; a transposed,
stepped 3×4 view of 29 elements; a broadcast immutable view), and rejects what it should. -/
example : tryFromData [2, 3] 6 = .ok [(2, 3), (3, 1)] ∧ tryFromData [2, 3] 5 = .error .mismatch ∧
    fromDataWithStrides [(3, 2), (4, 8)] 29 = .ok [(3, 2), (4, 8)] ∧
    fromDataWithStrides [(3, 2), (4, 8)] 28 = .error .tooShort ∧
    fromDataWithStrides [(5, 1), (5, 0)] 5 = .error .overlap ∧
    fromSliceWithStrides [(5, 1), (5, 0)] 5 = .ok [(5, 1), (5, 0)] ∧
    fromStorageAndLayout [(5, 1), (5, 0)] 5 true = .error .panic ∧
    fromStorageAndLayout [(5, 1), (5, 0)] 5 false = .ok [(5, 1), (5, 0)] := by decide

/-! ## T2: `split_at_mut` -/

/-- **C06.T2g** (`MutLayout::split`, used by `split_at` / `split_at_mut`).  For every layout,
axis and split point the code accepts: an element addressed through the left half lies in the
left half's offset range, an element addressed through the right half lies in the right half's
range, both lie below the parent's `min_data_len` (hence inside the parent's storage), and —
when the parent passed the overlap check, as every mutable tensor has — no element can be
reached through both halves, so the two `&mut` views never alias. -/
theorem c06_T2_split {dims : List (Nat × Nat)} {axis mid : Nat} {l r : View}
    (h : split dims axis mid = some (l, r)) :
    (∀ i, ValidIdx l.dims i →
      l.start + offset l.dims i < l.stop ∧ l.start + offset l.dims i < minDataLen dims) ∧
    (∀ j, ValidIdx r.dims j →
      r.start ≤ r.start + offset r.dims j ∧ r.start + offset r.dims j < r.stop ∧
      r.stop ≤ minDataLen dims) ∧
    (mayOverlap dims = false → ∀ i j, ValidIdx l.dims i → ValidIdx r.dims j →
      l.start + offset l.dims i ≠ r.start + offset r.dims j) := by
  unfold split at h
  split at h
  · next hc =>
    obtain ⟨hax, hmid⟩ := hc
    simp only [Option.some.injEq, Prod.mk.injEq] at h
    obtain ⟨rfl, rfl⟩ := h
    have hR : ∀ j, ValidIdx (setSize dims axis (sizeAt dims axis - mid)) j →
        (if len (setSize dims axis (sizeAt dims axis - mid)) = 0 then
            (⟨minDataLen dims, minDataLen dims, setSize dims axis (sizeAt dims axis - mid)⟩ : View)
          else ⟨mid * strideAt dims axis, minDataLen dims,
            setSize dims axis (sizeAt dims axis - mid)⟩) =
          ⟨mid * strideAt dims axis, minDataLen dims,
            setSize dims axis (sizeAt dims axis - mid)⟩ := by
      intro j hj
      rw [if_neg (valid_len_pos hj)]
    refine ⟨?_, ?_, ?_⟩
    · intro i hi
      obtain ⟨v, o, _⟩ := embedL dims axis mid i hax hmid hi
      simp only [Nat.zero_add]
      refine ⟨c06_T1_offset_lt_min_data_len _ _ hi, ?_⟩
      rw [← o]
      exact c06_T1_offset_lt_min_data_len _ _ v
    · intro j hj
      have hview := hR j (by
        have : ValidIdx (setSize dims axis (sizeAt dims axis - mid)) j := by
          split at hj <;> exact hj
        exact this)
      rw [hview] at hj ⊢
      obtain ⟨v, o, _⟩ := embedR dims axis mid j hax hmid hj
      refine ⟨Nat.le_add_right _ _, ?_, Nat.le_refl _⟩
      show mid * strideAt dims axis + offset (setSize dims axis (sizeAt dims axis - mid)) j <
        minDataLen dims
      rw [← o]
      exact c06_T1_offset_lt_min_data_len _ _ v
    · intro hno i j hi hj
      have hj' : ValidIdx (setSize dims axis (sizeAt dims axis - mid)) j := by
        split at hj <;> exact hj
      rw [hR j hj']
      obtain ⟨vi, oi, gi⟩ := embedL dims axis mid i hax hmid hi
      obtain ⟨vj, oj, gj⟩ := embedR dims axis mid j hax hmid hj'
      simp only [Nat.zero_add]
      show offset (setSize dims axis mid) i ≠
        mid * strideAt dims axis + offset (setSize dims axis (sizeAt dims axis - mid)) j
      rw [← oi, ← oj]
      intro heq
      have := c08_no_overlap_injective dims i (addAt j axis mid) hno vi vj heq
      rw [this] at gi
      omega
  · cases h

/-- Non-vacuity: splitting the columns of a 2×3 row-major matrix at 1 gives halves whose
offset ranges `[0,4)` and `[1,6)` overlap, yet whose element sets `{0,3}` and `{1,2,4,5}`
are disjoint. -/
example : split [(2, 3), (3, 1)] 1 1 =
      some (⟨0, 4, [(2, 3), (1, 1)]⟩, ⟨1, 6, [(2, 3), (2, 1)]⟩) ∧
    mayOverlap [(2, 3), (3, 1)] = false ∧
    ValidIdx [(2, 3), (1, 1)] [1, 0] ∧ ValidIdx [(2, 3), (2, 1)] [1, 1] := by
  refine ⟨by decide, by decide, .cons (by omega) (.cons (by omega) .nil),
    .cons (by omega) (.cons (by omega) .nil)⟩

/-! ## T3: negation witnesses for the code before the fix -/

/-- **C06.T3 is false for the unfixed code (1)**: `Tensor::try_from_data(&[2^32, 2^32], vec![])`
is accepted by the wrap-around arithmetic (the product wraps to 0), although the ideal element
count is `2^64 > isize::MAX`; the valid index `[1, 1]` then maps to offset `2^32 + 1` of an
empty storage.  Replayed on the real crate by the harness (request `c=tfd shape=4294967296,4294967296 len=0`). -/
theorem c06_T3_old_false_len :
    M.Old.tryFromData [4294967296, 4294967296] 0 = .ok [(4294967296, 4294967296), (4294967296, 1)] ∧
    len (M.toN [(4294967296, 4294967296), (4294967296, 1)]) = 18446744073709551616 ∧
    M.offsetOf [(4294967296, 4294967296), (4294967296, 1)] [1, 1] = some 4294967297 := by
  decide

/-- **C06.T3 is false for the unfixed code (2)**: shape `[3, 2]`, strides `[2^63, 1]` and two
elements of storage pass `from_data_with_strides`: `(3-1)·2^63` wraps to 0 both in the overlap
check and in `min_data_len` (machine value 2, ideal value `2^64 + 2`); the valid index `[1, 0]`
maps to offset `2^63`. -/
theorem c06_T3_old_false_stride :
    M.Old.fromDataWithStrides [(3, 9223372036854775808), (2, 1)] 2 =
      .ok [(3, 9223372036854775808), (2, 1)] ∧
    M.minDataLen [(3, 9223372036854775808), (2, 1)] = 2 ∧
    minDataLen (M.toN [(3, 9223372036854775808), (2, 1)]) = 18446744073709551618 ∧
    M.offsetOf [(3, 9223372036854775808), (2, 1)] [1, 0] = some 9223372036854775808 := by
  decide

/-- The fixed constructors reject both witnesses. -/
theorem c06_T3_fixed_rejects_witnesses :
    M.tryFromData [4294967296, 4294967296] 0 = .error .mismatch ∧
    M.fromData [4294967296, 4294967296] 0 = .error .panic ∧
    M.fromDataWithStrides [(3, 9223372036854775808), (2, 1)] 2 = .error .tooShort ∧
    M.fromSliceWithStrides [(3, 9223372036854775808), (2, 1)] 2 = .error .tooShort ∧
    M.fromStorageAndLayout [(3, 9223372036854775808), (2, 1)] 2 true = .error .panic := by
  decide

/-! ## T3: the fixed constructors on machine integers -/

/-- **C06.T3a** every accepted tensor has ideal `len` and `min_data_len` `≤ isize::MAX`
(`< 2^63`), whatever constructor produced it. -/
theorem c06_T3_accepted_fits {dims : List (Nat × Nat)} {n : Nat} {m : Bool}
    (acc : Accepted dims n m) : len dims ≤ isizeMax ∧ minDataLen dims ≤ isizeMax := by
  refine ⟨Nat.le_trans (prod_le_prodNZ _) acc.shape_fits, ?_⟩
  unfold minDataLen
  have := acc.offset_fits
  split <;> omega

/-- **C06.T3b** on every layout that passed the guards, the wrap-around (`UInt64`) evaluation
of `min_data_len`, `len`, the overlap check, index validation and the offset sum equals the
ideal evaluation. -/
theorem c06_T3_machine_eq_ideal (d : List (M.U × M.U)) {n : Nat} {m : Bool}
    (acc : Accepted (M.toN d) n m) :
    (M.minDataLen d).toNat = minDataLen (M.toN d) ∧
    (M.len d).toNat = len (M.toN d) ∧
    M.mayOverlap d = mayOverlap (M.toN d) ∧
    ∀ idx : List M.U, (M.offsetOf d idx).map UInt64.toNat = offsetOf (M.toN d) (M.toNs idx) := by
  have hW := M.isizeMax_lt_W
  have hfit := c06_T3_accepted_fits acc
  refine ⟨M.minDataLen_toNat d (by have := acc.offset_fits; omega),
    M.len_toNat d (by omega), M.mayOverlap_eq d acc.shape_fits acc.offset_fits, ?_⟩
  intro idx
  unfold M.offsetOf offsetOf
  rw [M.validIdx_eq]
  split
  · next hv =>
    simp only [Option.map_some]
    congr 1
    rw [M.offset_toNat, Nat.mod_eq_of_lt]
    have := valid_offset_le ((validIdx_iff _ _).mp hv)
    have := acc.offset_fits
    omega
  · rfl

theorem isNone_of_map {α β : Type} {f : α → β} {a : Option α} {b : Option β}
    (h : a.map f = b) : a.isNone = b.isNone := by
  subst h; cases a <;> rfl

/-- **C06.T3c** `from_shape` on machine integers = ideal `from_shape`. -/
theorem c06_T3_fromShape (s : List M.U) :
    (M.fromShape s).map M.toN = fromShape (M.toNs s) := by
  unfold M.fromShape fromShape
  rw [isNone_of_map (M.checkedShapeLen_eq s)]
  split
  · rfl
  · next h =>
    rw [checkedShapeLen_eq] at h
    have hfit : prodNZ (M.toNs s) ≤ isizeMax := by
      by_cases hp : prodNZ (M.toNs s) ≤ isizeMax
      · exact hp
      · simp [hp] at h
    simp only [Except.map, M.contigDims_toN s hfit]

/-- **C06.T3d** `try_from_data` on machine integers accepts exactly what the ideal model
accepts, with the same layout. -/
theorem c06_T3_tryFromData (s : List M.U) (n : M.U) :
    (M.tryFromData s n).map M.toN = tryFromData (M.toNs s) n.toNat := by
  unfold M.tryFromData tryFromData
  rw [isNone_of_map (M.checkedShapeLen_eq s)]
  split
  · rfl
  · next h =>
    rw [checkedShapeLen_eq] at h
    have hfit : prodNZ (M.toNs s) ≤ isizeMax := by
      by_cases hp : prodNZ (M.toNs s) ≤ isizeMax
      · exact hp
      · simp [hp] at h
    have hW := M.isizeMax_lt_W
    have hmo := maxOffset_contig_lt (M.toNs s)
    have hm : (M.minDataLen (M.contigDims s)).toNat = minDataLen (contigDims (M.toNs s)) := by
      rw [M.minDataLen_toNat, M.contigDims_toN s hfit]
      rw [M.contigDims_toN s hfit]; omega
    by_cases hne : M.minDataLen (M.contigDims s) = n
    · have : minDataLen (contigDims (M.toNs s)) = n.toNat := by rw [← hm, hne]
      simp only [hne, this, ne_eq, not_true_eq_false, if_false, Except.map, M.contigDims_toN s hfit]
    · have : minDataLen (contigDims (M.toNs s)) ≠ n.toNat := by
        rw [← hm]; exact fun h' => hne (UInt64.toNat_inj.mp h')
      simp only [ne_eq, hne, this, not_false_eq_true, if_true, Except.map]

/-- **C06.T3e** `from_data`. -/
theorem c06_T3_fromData (s : List M.U) (n : M.U) :
    (M.fromData s n).map M.toN = fromData (M.toNs s) n.toNat := by
  unfold M.fromData fromData
  rw [← c06_T3_tryFromData]
  cases M.tryFromData s n <;> rfl

theorem checkedMinDataLen_fits {d : List (Nat × Nat)} (h : ¬ (checkedMinDataLen d).isNone = true) :
    prodNZ (shapeOf d) ≤ isizeMax ∧ maxOffset d < isizeMax := by
  rw [checkedMinDataLen_eq] at h
  by_cases hp : prodNZ (shapeOf d) ≤ isizeMax ∧ maxOffset d < isizeMax
  · exact hp
  · simp [hp] at h

/-- **C06.T3f** `from_shape_and_strides` (both overlap policies). -/
theorem c06_T3_fromShapeAndStrides (d : List (M.U × M.U)) (disallow : Bool) :
    (M.fromShapeAndStrides d disallow).map M.toN = fromShapeAndStrides (M.toN d) disallow := by
  unfold M.fromShapeAndStrides fromShapeAndStrides
  rw [isNone_of_map (M.checkedMinDataLen_eq d)]
  split
  · rfl
  · next h =>
    obtain ⟨h1, h2⟩ := checkedMinDataLen_fits h
    rw [M.mayOverlap_eq d h1 h2]
    split <;> rfl

theorem minDataLen_gt_eq (d : List (M.U × M.U)) (n : M.U)
    (h : ¬ (checkedMinDataLen (M.toN d)).isNone = true) :
    (M.minDataLen d > n) ↔ (minDataLen (M.toN d) > n.toNat) := by
  obtain ⟨_, h2⟩ := checkedMinDataLen_fits h
  have hW := M.isizeMax_lt_W
  show n < M.minDataLen d ↔ _
  rw [UInt64.lt_iff_toNat_lt, M.minDataLen_toNat d (by omega)]

/-- **C06.T3g** `from_data_with_strides`. -/
theorem c06_T3_fromDataWithStrides (d : List (M.U × M.U)) (n : M.U) :
    (M.fromDataWithStrides d n).map M.toN = fromDataWithStrides (M.toN d) n.toNat := by
  unfold M.fromDataWithStrides fromDataWithStrides
  rw [← c06_T3_fromShapeAndStrides]
  cases hc : M.fromShapeAndStrides d true with
  | error e => rfl
  | ok l =>
    have hl : l = d := by
      unfold M.fromShapeAndStrides at hc
      split at hc
      · cases hc
      · split at hc <;> cases hc; rfl
    subst hl
    have hnone : ¬ (checkedMinDataLen (M.toN l)).isNone = true := by
      unfold M.fromShapeAndStrides at hc
      rw [isNone_of_map (M.checkedMinDataLen_eq l)] at hc
      split at hc
      · cases hc
      · assumption
    simp only [Except.map]
    by_cases hgt : M.minDataLen l > n
    · have := (minDataLen_gt_eq l n hnone).mp hgt
      simp only [hgt, this, if_true]
    · have : ¬ minDataLen (M.toN l) > n.toNat := fun h' => hgt ((minDataLen_gt_eq l n hnone).mpr h')
      simp only [hgt, this, if_false]

/-- **C06.T3h** `from_slice_with_strides`. -/
theorem c06_T3_fromSliceWithStrides (d : List (M.U × M.U)) (n : M.U) :
    (M.fromSliceWithStrides d n).map M.toN = fromSliceWithStrides (M.toN d) n.toNat := by
  unfold M.fromSliceWithStrides fromSliceWithStrides
  rw [← c06_T3_fromShapeAndStrides]
  cases hc : M.fromShapeAndStrides d false with
  | error e => rfl
  | ok l =>
    have hl : l = d := by
      unfold M.fromShapeAndStrides at hc
      split at hc
      · cases hc
      · split at hc <;> cases hc; rfl
    subst hl
    have hnone : ¬ (checkedMinDataLen (M.toN l)).isNone = true := by
      unfold M.fromShapeAndStrides at hc
      rw [isNone_of_map (M.checkedMinDataLen_eq l)] at hc
      split at hc
      · cases hc
      · assumption
    simp only [Except.map]
    by_cases hgt : M.minDataLen l > n
    · have := (minDataLen_gt_eq l n hnone).mp hgt
      simp only [hgt, this, if_true]
    · have : ¬ minDataLen (M.toN l) > n.toNat := fun h' => hgt ((minDataLen_gt_eq l n hnone).mpr h')
      simp only [hgt, this, if_false]

/-- **C06.T3i** `from_storage_and_layout`. -/
theorem c06_T3_fromStorageAndLayout (d : List (M.U × M.U)) (n : M.U) (m : Bool) :
    (M.fromStorageAndLayout d n m).map M.toN = fromStorageAndLayout (M.toN d) n.toNat m := by
  unfold M.fromStorageAndLayout fromStorageAndLayout
  have hc := M.checkedMinDataLen_eq d
  cases hk : M.checkedMinDataLen d with
  | none => rw [hk] at hc; rw [← hc]; rfl
  | some k =>
    rw [hk] at hc
    rw [← hc]
    simp only [Option.map_some]
    have hnone : ¬ (checkedMinDataLen (M.toN d)).isNone = true := by rw [← hc]; simp
    obtain ⟨h1, h2⟩ := checkedMinDataLen_fits hnone
    rw [M.mayOverlap_eq d h1 h2]
    by_cases hlt : n < k
    · have : n.toNat < k.toNat := UInt64.lt_iff_toNat_lt.mp hlt
      simp only [hlt, this, if_true, Except.map]
    · have : ¬ n.toNat < k.toNat := fun h' => hlt (UInt64.lt_iff_toNat_lt.mpr h')
      simp only [hlt, this, if_false]
      split <;> rfl

/-- Non-vacuity of T3: machine constructors accept non-trivial tensors, including one whose
element count is exactly `isize::MAX` (a broadcast immutable view of one element). -/
example : M.tryFromData [2, 3] 6 = .ok [(2, 3), (3, 1)] ∧
    M.fromDataWithStrides [(3, 2), (4, 8)] 29 = .ok [(3, 2), (4, 8)] ∧
    M.fromSliceWithStrides [(9223372036854775807, 0)] 1 = .ok [(9223372036854775807, 0)] ∧
    M.fromSliceWithStrides [(9223372036854775808, 0)] 1 = .error .tooShort := by decide

end RtenVerif.TensorBounds
