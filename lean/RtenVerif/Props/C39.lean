import RtenVerif.Lemmas.Ctc
import RtenVerif.Lemmas.CtcBound
import RtenVerif.Lemmas.CtcExact
import RtenVerif.Lemmas.CtcNoPrune
import RtenVerif.Lemmas.CtcHom
import RtenVerif.Lemmas.CtcLen

/-!
# C39 — CTC decoding returns distinct, correctly scored hypotheses

Property theorems over `RtenVerif.Model.Ctc` (model of `/repo/src/ctc.rs` after the
`fix:` commit "CTC beam search skips zero-probability extensions").

* **T1** greedy = collapse of the arg-max path, first-occurrence positions, score = Σ
  (product in probability space) of the chosen entries — every `Ops α`, every matrix.
* **T2** beam states have pairwise distinct label sequences after every step — every
  `Ops α` satisfying the single law `isZero (add zero zero)` (which is exactly the
  "all −inf" special case of `log_sum_exp`), hence independent of float rounding.
  False for the code before the fix (`c39_beam_distinct_old_false`).
* **T3** over exact `Nat` arithmetic (`natOps`): every state's `(pb, pnb)` is bounded by
  the (blank-ending, non-blank-ending) parts of the total weight of all alignments of its
  label sequence, hence score ≤ exact total probability (`exactTotal`, a brute-force sum
  over all `L^T` alignments).  Float `log_sum_exp` rounding is outside the model (tested by
  the harness with a tolerance).
* **F** (finite scores) over `natOps`: if every row has a positive entry, the all-zero
  fallback never fires and every returned score is non-zero (`c39_scores_finite`).
* **S4** over `natOps`: if no extension of non-zero probability is ever dropped (`noPrune`),
  every score *equals* the exact total and every label sequence of positive probability is
  in the beam (`c39_beam_exact_when_unpruned`).
-/
namespace RtenVerif.Ctc

/-! ## T1 — greedy decoding -/

/-- **C39.T1** For every carrier, every comparison and every matrix: if `decode_greedy`
returns, it returns exactly the collapsed arg-max path — run starts of non-blank labels
with the position of their first occurrence — whose label sequence is the CTC collapse
`B(path)` (merge repeats, drop blanks), and the score is the left-to-right "sum" (`mul`
in probability space) of the chosen entries. -/
theorem c39_greedy_collapse {α} (ops : Ops α) (L : Nat) (rows : List (List α)) (h : Hyp α)
    (hd : decodeGreedy ops L rows = some h) :
    ∃ path, rows.mapM (argmaxRow ops) = some path ∧
      h.steps = collapsePos path ∧ labels h.steps = collapse path ∧
      h.score = greedyScore ops rows path := by
  unfold decodeGreedy at hd
  split at hd
  · cases hd
  · split at hd
    · cases hd
    · rename_i path hp
      cases hd
      refine ⟨path, hp, ?_, ?_, rfl⟩
      · exact greedyLoop_eq_filter path 0 0 none (Or.inr ⟨rfl, rfl⟩)
      · simp only
        rw [greedyLoop_eq_filter path 0 0 none (Or.inr ⟨rfl, rfl⟩)]
        exact labels_collapsePos path

/-- `decode_greedy` panics only for `n_labels = 0` (rows of a `[T, L]` tensor are
non-empty when `L ≠ 0`). -/
theorem c39_greedy_total {α} (ops : Ops α) (L : Nat) (rows : List (List α)) (hL : L ≠ 0)
    (hr : ∀ r ∈ rows, r ≠ []) : (decodeGreedy ops L rows).isSome := by
  unfold decodeGreedy
  rw [if_neg hL]
  have : ∃ path, rows.mapM (argmaxRow ops) = some path := by
    induction rows with
    | nil => exact ⟨[], rfl⟩
    | cons r rs ih =>
      obtain ⟨p, hp⟩ := ih (fun r' h' => hr r' (List.mem_cons_of_mem _ h'))
      cases r with
      | nil => exact absurd rfl (hr [] List.mem_cons_self)
      | cons x xs =>
        refine ⟨argmaxGo ops 0 x 1 xs :: p, ?_⟩
        simp [List.mapM_cons, argmaxRow, hp]
  obtain ⟨p, hp⟩ := this
  rw [hp]
  rfl

example : (decodeGreedy natOps 3 [[1, 2, 2], [1, 1, 1], [3, 1, 1], [1, 5, 1], [1, 5, 1], [1, 1, 1]]).map
    (fun h => (h.steps, h.score)) = some ([⟨1, 0⟩, ⟨1, 3⟩], 150) := by decide

/-- What a collapsed position means: `⟨l, p⟩` is reported iff `l` is a non-blank label
that occurs at `p` and `p` is the *first* position of its run. -/
theorem c39_collapsePos_mem (path : List Nat) (l p : Nat) :
    (⟨l, p⟩ : Step) ∈ collapsePos path ↔
      l ≠ 0 ∧ path[p]? = some l ∧ (p = 0 ∨ path[p - 1]? ≠ some l) := by
  have lb : ∀ (ls : List Nat) (pos : Nat) (prev : Option Nat) (s : Step),
      s ∈ runStarts pos prev ls → pos ≤ s.pos := by
    intro ls
    induction ls with
    | nil => intro pos prev s h; simp [runStarts] at h
    | cons x xs ih =>
      intro pos prev s h
      simp only [runStarts] at h
      split at h
      · have := ih _ _ _ h; omega
      · rcases List.mem_cons.mp h with rfl | h
        · exact Nat.le_refl _
        · have := ih _ _ _ h; omega
  have gen : ∀ (ls : List Nat) (pos : Nat) (prev : Option Nat) (d : Nat),
      (⟨l, pos + d⟩ : Step) ∈ runStarts pos prev ls ↔
        ls[d]? = some l ∧
          (match d with | 0 => prev ≠ some l | d' + 1 => ls[d']? ≠ some l) := by
    intro ls
    induction ls with
    | nil => intro pos prev d; simp [runStarts]
    | cons x xs ih =>
      intro pos prev d
      cases d with
      | zero =>
        have hnot : (⟨l, pos + 0⟩ : Step) ∉ runStarts (pos + 1) (some x) xs := by
          intro h; have := lb _ _ _ _ h; simp only [Nat.add_zero] at this; omega
        simp only [runStarts]
        split
        · rename_i hx
          simp only [List.getElem?_cons_zero, Option.some.injEq]
          constructor
          · intro h; exact absurd h hnot
          · rintro ⟨rfl, h⟩; exact absurd hx h
        · rename_i hx
          simp only [List.mem_cons, Step.mk.injEq, List.getElem?_cons_zero, Option.some.injEq]
          constructor
          · rintro (⟨rfl, _⟩ | h)
            · exact ⟨rfl, hx⟩
            · exact absurd h hnot
          · rintro ⟨rfl, _⟩; exact Or.inl ⟨rfl, rfl⟩
      | succ d' =>
        have e : pos + (d' + 1) = (pos + 1) + d' := by omega
        have hmem : (⟨l, pos + (d' + 1)⟩ : Step) ∈ runStarts pos prev (x :: xs) ↔
            (⟨l, (pos + 1) + d'⟩ : Step) ∈ runStarts (pos + 1) (some x) xs := by
          simp only [runStarts]
          split
          · rw [e]
          · simp only [List.mem_cons, Step.mk.injEq]
            rw [e]
            constructor
            · rintro (⟨_, h⟩ | h)
              · omega
              · exact h
            · intro h; exact Or.inr h
        rw [hmem, ih]
        simp only [List.getElem?_cons_succ]
        cases d' with
        | zero => simp
        | succ d'' => simp
  unfold collapsePos
  rw [List.mem_filter]
  have := gen path 0 none p
  simp only [Nat.zero_add] at this
  rw [this]
  simp only [decide_eq_true_eq]
  cases p with
  | zero => simp; exact And.comm
  | succ k => simp; constructor <;> (intro h; simp [h])

/-- Exact instance: the arg-max of a row is an index of a maximal entry, and among equal
maxima the **first** one (`max_position_by` replaces the best only on `Greater`). -/
theorem c39_argmax_nat (row : List Nat) (i : Nat) (h : argmaxRow natOps row = some i) :
    ∃ v, row[i]? = some v ∧ ∀ j w, row[j]? = some w → w ≤ v ∧ (w = v → i ≤ j) := by
  have gen : ∀ (ys pre : List Nat) (bi bv : Nat), pre[bi]? = some bv →
      (∀ j w, pre[j]? = some w → w ≤ bv ∧ (w = bv → bi ≤ j)) →
      ∃ v, (pre ++ ys)[argmaxGo natOps bi bv pre.length ys]? = some v ∧
        ∀ j w, (pre ++ ys)[j]? = some w →
          w ≤ v ∧ (w = v → argmaxGo natOps bi bv pre.length ys ≤ j) := by
    intro ys
    induction ys with
    | nil => intro pre bi bv h1 h2; exact ⟨bv, by simpa [argmaxGo] using h1, by simpa [argmaxGo] using h2⟩
    | cons y ys ih =>
      intro pre bi bv h1 h2
      have hbi : bi < pre.length := by
        obtain ⟨hlt, _⟩ := List.getElem?_eq_some_iff.mp h1; exact hlt
      have hlen : (pre ++ [y]).length = pre.length + 1 := by simp
      have happ : pre ++ y :: ys = (pre ++ [y]) ++ ys := by simp
      simp only [argmaxGo]
      by_cases hgt : bv < y
      · have : natOps.argGt y bv = true := by simp [natOps, hgt]
        rw [if_pos this, happ, ← hlen]
        have hlen' : (pre ++ [y]).length - 1 = pre.length := by simp
        have e : argmaxGo natOps pre.length y (pre ++ [y]).length ys =
            argmaxGo natOps ((pre ++ [y]).length - 1) y (pre ++ [y]).length ys := by rw [hlen']
        rw [e]
        apply ih (pre ++ [y]) ((pre ++ [y]).length - 1) y
        · rw [hlen', List.getElem?_append_right (Nat.le_refl _)]; simp
        · intro j w hj
          by_cases hjl : j < pre.length
          · rw [List.getElem?_append_left hjl] at hj
            have := h2 j w hj
            rw [hlen']; omega
          · rw [List.getElem?_append_right (by omega)] at hj
            have : j - pre.length = 0 := by
              cases hk : j - pre.length with
              | zero => rfl
              | succ k => rw [hk] at hj; simp at hj
            rw [this] at hj
            simp at hj
            rw [hlen']; omega
      · have : natOps.argGt y bv = false := by simp [natOps]; omega
        rw [if_neg (by simp [this]), happ, ← hlen]
        apply ih (pre ++ [y]) bi bv
        · rw [List.getElem?_append_left hbi]; exact h1
        · intro j w hj
          by_cases hjl : j < pre.length
          · rw [List.getElem?_append_left hjl] at hj; exact h2 j w hj
          · rw [List.getElem?_append_right (by omega)] at hj
            have : j - pre.length = 0 := by
              cases hk : j - pre.length with
              | zero => rfl
              | succ k => rw [hk] at hj; simp at hj
            rw [this] at hj
            simp at hj
            omega
  cases row with
  | nil => cases h
  | cons x xs =>
    simp only [argmaxRow, Option.some.injEq] at h
    subst h
    have := gen xs [x] 0 x (by simp) (by
      intro j w hj
      cases j with
      | zero => simp at hj; omega
      | succ k => simp at hj)
    simpa using this

/-- In the exact instance the greedy score is the weight (product of entries) of the
arg-max alignment. -/
theorem c39_greedy_score_nat (rows : List (List Nat)) (path : List Nat) :
    greedyScore natOps rows path = weight rows path := rfl

/-! ## T2 — beam search: pairwise distinct label sequences -/

/-- The single law T2 needs: `log_sum_exp([-inf, -inf]) == -inf` (the special case at the
top of `log_sum_exp`; without it the result would be NaN and the skip would not fire). -/
theorem c39_natOps_zero_law : natOps.isZero (natOps.add natOps.zero natOps.zero) = true := rfl

/-- **C39.T2 (step)** One decoding step preserves "label sequences pairwise distinct",
for every carrier, arithmetic, comparison, beam width, label count and input row. -/
theorem c39_beam_step_distinct {α} (ops : Ops α)
    (hz : ops.isZero (ops.add ops.zero ops.zero) = true) (B L : Nat)
    (beam : List (BState α)) (pos : Nat) (row : List α) (h : Distinct beam) :
    Distinct (beamStep ops B L beam pos row) :=
  beamStep_distinct ops hz B L beam pos row h

/-- **C39.T2** `decode_beam_impl` returns states with pairwise distinct label sequences,
for every matrix, beam width and label count (and after every step: apply this to
`rows.take k`). -/
theorem c39_beam_distinct {α} (ops : Ops α)
    (hz : ops.isZero (ops.add ops.zero ops.zero) = true) (B L : Nat)
    (rows : List (List α)) (beam : List (BState α))
    (h : decodeBeamImpl ops B L rows = some beam) : Distinct beam := by
  unfold decodeBeamImpl at h
  split at h
  · cases h; exact initBeam_distinct ops
  · split at h
    · cases h
    · cases h
      exact beamLoop_distinct ops hz B L rows _ _ (initBeam_distinct ops)

/-- **C39.T2 (n-best)** The hypotheses returned by `decode_beam_nbest` have pairwise
distinct label sequences, for every `beam_size` and `n_best`. -/
theorem c39_nbest_distinct {α} (ops : Ops α)
    (hz : ops.isZero (ops.add ops.zero ops.zero) = true) (B N L : Nat)
    (rows : List (List α)) (hs : List (Hyp α))
    (h : decodeBeamNbest ops B N L rows = some hs) :
    (hs.map (fun hy => labels hy.steps)).Nodup := by
  unfold decodeBeamNbest at h
  cases hb : decodeBeamImpl ops B L rows with
  | none => rw [hb] at h; cases h
  | some beam =>
    rw [hb] at h
    simp only [Option.map_some, Option.some.injEq] at h
    subst h
    have hd := c39_beam_distinct ops hz B L rows beam hb
    unfold Distinct at hd
    rw [List.map_map]
    have : (List.map ((fun hy => labels hy.steps) ∘ hypOf ops) (List.take N beam)) =
        (beam.map (fun s => labels s.pre)).take N := by
      rw [List.map_take]; rfl
    rw [this]
    exact (List.take_sublist _ _).nodup hd

/-- The defect input: uniform 2×3 matrix. -/
def uniform23 : List (List Nat) := [[1, 1, 1], [1, 1, 1]]

/-- Non-vacuity: on the uniform 2×3 input with beam 10 the fixed decoder returns five
distinct hypotheses with exact scores 3/9, 3/9, 1/9, 1/9, 1/9. -/
example : (decodeBeamNbest natOps 10 10 3 uniform23).map
    (·.map fun h => (labels h.steps, h.steps.map (·.pos), h.score)) =
    some [([1], [0], 3), ([2], [0], 3), ([], [], 1), ([1, 2], [0, 1], 1), ([2, 1], [0, 1], 1)] := by
  decide

/-- **C39.T2 is false for the code before the fix** (the full statement, kept visible):
the old selection loop on the uniform 2×3 matrix with beam 10 returns `[1]` and `[2]`
twice.  (Observed on the real code: second copies with score −inf.) -/
theorem c39_beam_distinct_old_false :
    ¬ Distinct (beamLoopOld natOps 10 3 (initBeam natOps) 0 uniform23) := by
  unfold Distinct; decide

example : (beamLoopOld natOps 10 3 (initBeam natOps) 0 uniform23).map
    (fun s => (labels s.pre, s.pb + s.pnb)) =
    [([1], 3), ([2], 3), ([], 1), ([1, 2], 1), ([2, 1], 1), ([1], 0), ([2], 0), ([1, 1], 0),
      ([2, 2], 0)] := by decide

/-! ## "Finite scores" (partial) -/

/-- **C39 finite scores, `_partial`.**  Every state created by a regular selection step
(i.e. unless *every* extension has zero probability and the fallback keeps state 0) has a
non-zero score (`score != -inf`), for every carrier.  Not proved: that the fallback never
fires when every row has a non-zero entry (the harness checks "all rows have a positive
weight ⇒ every returned score is finite" on the real code for every case). -/
theorem c39_step_scores_nonzero_partial {α} (ops : Ops α) (B L : Nat) (beam : List (BState α))
    (pos : Nat) (row : List α)
    (hne : ((candidates ops L beam.length (extendAll ops L beam row)).foldl (pushExt ops B) []).isEmpty
      = false) :
    ∀ st ∈ beamStep ops B L beam pos row, ops.isZero (hypOf ops st).score = false := by
  intro st hst
  unfold beamStep selectTopk at hst
  simp only [hne, Bool.false_eq_true, if_false, List.mem_map] at hst
  obtain ⟨e, he, rfl⟩ := hst
  obtain ⟨_, q2⟩ := foldl_pushExt_spec ops B
    (candidates ops L beam.length (extendAll ops L beam row)) []
    (by simp) (by simp) (candidates_keys_nodup ops L beam.length _)
  rcases q2 e he with h | ⟨h, hz⟩
  · cases h
  · obtain ⟨_, _, hp⟩ := mem_candidates ops L beam.length _ e h
    simp only [hypOf, mkState]
    rw [← hp]; exact hz

/-! ## T3 — scores never exceed the exact total probability (exact arithmetic) -/

/-- **C39.T3 (invariant form)** After `decode_beam_impl`, every state's `prob_blank` /
`prob_no_blank` is at most the total weight of the alignments of its label sequence that end
in a blank / in a non-blank (`dpRev`, the textbook prefix recursion, proved equal to the
brute-force sums in `Lemmas/CtcExact.lean`).  For every matrix, beam width and label count. -/
theorem c39_beam_parts_le (B L : Nat) (rows : List (List Nat)) (beam : List (BState Nat))
    (h : decodeBeamImpl natOps B L rows = some beam) :
    ∀ st ∈ beam, st.pb ≤ (dpRev rows.reverse (labels st.pre)).1 ∧
      st.pnb ≤ (dpRev rows.reverse (labels st.pre)).2 := by
  have hinit : Inv [] (initBeam natOps) := by
    intro st hst
    simp only [initBeam, List.mem_singleton] at hst
    subst hst
    simp [dpRev, labels, natOps]
  unfold decodeBeamImpl at h
  split at h
  · rename_i he
    cases h
    have : rows = [] := by simpa using he
    subst this
    exact hinit
  · split at h
    · cases h
    · cases h
      have := beamLoop_inv B L rows (initBeam natOps) 0 [] hinit (initBeam_distinct natOps)
      have h2 : Inv rows.reverse (beamLoop natOps B L (initBeam natOps) 0 rows) := by
        simpa using this
      exact h2

/-- **C39.T3** Over exact arithmetic the score of every state returned by
`decode_beam_impl` is at most the exact total probability of its label sequence — the sum of
the weights of **all** `L^T` alignments that collapse to it — for every well-shaped matrix,
every beam width and label count. -/
theorem c39_beam_score_le_exact (B L : Nat) (rows : List (List Nat))
    (hw : ∀ r ∈ rows, r.length = L) (beam : List (BState Nat))
    (h : decodeBeamImpl natOps B L rows = some beam) :
    ∀ st ∈ beam, (hypOf natOps st).score ≤ exactTotal L rows (labels st.pre) := by
  intro st hst
  have hparts := c39_beam_parts_le B L rows beam h st hst
  have hnz : NZ beam := by
    unfold decodeBeamImpl at h
    split at h
    · cases h; intro st hst m hm; simp [initBeam] at hst; subst hst; simp [labels] at hm
    · split at h
      · cases h
      · cases h
        apply beamLoop_nz
        intro st hst m hm; simp [initBeam] at hst; subst hst; simp [labels] at hm
  rw [← dpRev_eq_exactTotal L rows hw (labels st.pre) (hnz st hst)]
  simp only [hypOf, natOps]
  omega

/-- **C39.T3 (n-best)** The same bound for the hypotheses of `decode_beam_nbest`, for every
`beam_size` and `n_best`. -/
theorem c39_nbest_score_le_exact (B N L : Nat) (rows : List (List Nat))
    (hw : ∀ r ∈ rows, r.length = L) (hs : List (Hyp Nat))
    (h : decodeBeamNbest natOps B N L rows = some hs) :
    ∀ hy ∈ hs, hy.score ≤ exactTotal L rows (labels hy.steps) := by
  unfold decodeBeamNbest at h
  cases hb : decodeBeamImpl natOps B L rows with
  | none => rw [hb] at h; cases h
  | some beam =>
    rw [hb] at h
    simp only [Option.map_some, Option.some.injEq] at h
    subst h
    intro hy hhy
    obtain ⟨st, hst, rfl⟩ := List.mem_map.mp hhy
    exact c39_beam_score_le_exact B L rows hw beam hb st (List.mem_of_mem_take hst)

/-- Non-vacuity and strictness: with beam 1 on `[[1,2],[2,1]]` the alignment `0 1` of `[1]`
is pruned (the state `[]` is dropped after the first step), so the score 6 is strictly below
the exact total 7. -/
example : (decodeBeamNbest natOps 1 1 2 [[1, 2], [2, 1]]).map
    (·.map fun h => (labels h.steps, h.score, exactTotal 2 [[1, 2], [2, 1]] (labels h.steps))) =
    some [([1], 6, 7)] := by decide

/-! ## F — finite scores: the all-zero fallback never fires on proper inputs -/

/-- **C39.F (step)** Over exact arithmetic, with `beam_size ≥ 1`, a beam whose states all
have positive probability and a row with at least one positive entry, some extension has
non-zero probability, so the "keep state 0" fallback is not taken. -/
theorem c39_fallback_never_fires (B L : Nat) (hB : 1 ≤ B) (beam : List (BState Nat))
    (row : List Nat) (hrow : ∃ l, l < L ∧ 0 < row.getD l 0) (h : Pos beam) :
    ((candidates natOps L beam.length (extendAll natOps L beam row)).foldl (pushExt natOps B) []).isEmpty
      = false :=
  fallback_not_fired B L hB beam row hrow h

/-- **C39.F** If every row of the matrix has a positive entry (in log space: a finite
log-probability; true of every row of a probability distribution), `decode_beam_impl`
returns a non-empty beam whose scores are all non-zero (finite in log space) — every beam
width and label count.  Upgrades `c39_step_scores_nonzero_partial`. -/
theorem c39_scores_finite (B L : Nat) (rows : List (List Nat))
    (hrows : ∀ row ∈ rows, ∃ l, l < L ∧ 0 < row.getD l 0) (beam : List (BState Nat))
    (h : decodeBeamImpl natOps B L rows = some beam) :
    beam ≠ [] ∧ ∀ st ∈ beam, natOps.isZero (hypOf natOps st).score = false := by
  have hinit : Pos (initBeam natOps) := by
    refine ⟨by simp [initBeam], ?_⟩
    intro st hst
    simp [initBeam] at hst; subst hst; simp [natOps]
  have hpos : Pos beam := by
    unfold decodeBeamImpl at h
    split at h
    · cases h; exact hinit
    · split at h
      · cases h
      · rename_i hb
        cases h
        exact beamLoop_pos B L (by omega) rows hrows _ _ hinit
  refine ⟨hpos.1, ?_⟩
  intro st hst
  have := hpos.2 st hst
  simp only [hypOf, natOps, beq_eq_false_iff_ne, ne_eq]
  omega

/-! ## S4 — exact scores and a complete result when nothing is pruned -/

theorem dedupAdj_subset (a : List Nat) : ∀ x ∈ dedupAdj a, x ∈ a := by
  fun_induction dedupAdj a with
  | case1 => intro x hx; exact hx
  | case2 y => intro x hx; exact hx
  | case3 y r ih =>
    intro x hx; exact List.mem_cons_of_mem _ (ih x hx)
  | case4 y z r hne ih =>
    intro x hx
    rcases List.mem_cons.mp hx with rfl | hx
    · exact List.mem_cons_self
    · exact List.mem_cons_of_mem _ (ih x hx)

theorem allAligns_lt (L : Nat) : ∀ t, ∀ a ∈ allAligns L t, ∀ x ∈ a, x < L := by
  intro t
  induction t with
  | zero => intro a ha x hx; simp [allAligns] at ha; subst ha; cases hx
  | succ t ih =>
    intro a ha x hx
    simp only [allAligns, List.mem_flatMap, List.mem_map, List.mem_range] at ha
    obtain ⟨a', ha', l, hl, rfl⟩ := ha
    rcases List.mem_append.mp hx with h | h
    · exact ih a' ha' x h
    · simp only [List.mem_singleton] at h; subst h; exact hl

theorem exists_of_sum_pos {β : Type} (f : β → Nat) (l : List β) (h : 0 < (l.map f).sum) :
    ∃ x, x ∈ l := by
  cases l with
  | nil => simp at h
  | cons a l => exact ⟨a, List.mem_cons_self⟩

/-- A label sequence of positive total probability only uses labels `1 .. L-1`. -/
theorem exactTotal_pos_ok (L : Nat) (rows : List (List Nat)) (s : List Nat)
    (h : 0 < exactTotal L rows s) : okSeq L s := by
  unfold exactTotal at h
  obtain ⟨a, ha⟩ := exists_of_sum_pos _ _ h
  simp only [List.mem_filter, beq_iff_eq] at ha
  obtain ⟨hmem, hcol⟩ := ha
  intro m hm
  rw [← hcol] at hm
  unfold collapse at hm
  simp only [List.mem_filter, decide_eq_true_eq] at hm
  exact ⟨hm.2, allAligns_lt L _ a hmem m (dedupAdj_subset a m hm.1)⟩

/-- **C39.S4** Over exact arithmetic: if during the whole run the number of extensions with
non-zero probability never exceeds the beam width (`noPrune`, i.e. nothing is pruned at any
step — decidable and executable; it holds in particular when `beam_size` is at least the
number of label sequences of positive probability at every step), then for every well-shaped
matrix (a) the score of every returned state **equals** the exact total probability of its
label sequence (sum over all `L^T` alignments), and (b) the result is **complete**: every
label sequence with positive total probability is in the beam. -/
theorem c39_beam_exact_when_unpruned (B L : Nat) (rows : List (List Nat))
    (hw : ∀ r ∈ rows, r.length = L) (beam : List (BState Nat))
    (h : decodeBeamImpl natOps B L rows = some beam)
    (hnp : noPrune natOps B L (initBeam natOps) 0 rows = true) :
    (∀ st ∈ beam, (hypOf natOps st).score = exactTotal L rows (labels st.pre)) ∧
    (∀ s, 0 < exactTotal L rows s → ∃ st ∈ beam, labels st.pre = s) := by
  have hE : Exact L rows.reverse beam := by
    unfold decodeBeamImpl at h
    split at h
    · rename_i he
      cases h
      have : rows = [] := by simpa using he
      subst this
      exact initBeam_exact L
    · split at h
      · cases h
      · rename_i hb
        cases h
        have := beamLoop_exact B L (by omega) rows _ 0 [] (initBeam_exact L) hnp
        simpa using this
  constructor
  · intro st hst
    have he := hE.eq st hst
    have hnz : ∀ m ∈ labels st.pre, m ≠ 0 := fun m hm => (hE.lr st hst m hm).1
    rw [← dpRev_eq_exactTotal L rows hw (labels st.pre) hnz]
    simp only [hypOf, natOps]
    omega
  · intro s hs
    have hok := exactTotal_pos_ok L rows s hs
    have hnz : ∀ m ∈ s, m ≠ 0 := fun m hm => (hok m hm).1
    rw [← dpRev_eq_exactTotal L rows hw s hnz] at hs
    exact hE.complete s hok hs

/-- **C39.S4 (n-best)** Under the same condition every hypothesis of `decode_beam_nbest` has
its exact score (with `n_best ≥ beam_size` the list is the whole, complete beam). -/
theorem c39_nbest_exact_when_unpruned (B N L : Nat) (rows : List (List Nat))
    (hw : ∀ r ∈ rows, r.length = L) (hs : List (Hyp Nat))
    (h : decodeBeamNbest natOps B N L rows = some hs)
    (hnp : noPrune natOps B L (initBeam natOps) 0 rows = true) :
    ∀ hy ∈ hs, hy.score = exactTotal L rows (labels hy.steps) := by
  unfold decodeBeamNbest at h
  cases hb : decodeBeamImpl natOps B L rows with
  | none => rw [hb] at h; cases h
  | some beam =>
    rw [hb] at h
    simp only [Option.map_some, Option.some.injEq] at h
    subst h
    intro hy hhy
    obtain ⟨st, hst, rfl⟩ := List.mem_map.mp hhy
    exact (c39_beam_exact_when_unpruned B L rows hw beam hb hnp).1 st (List.mem_of_mem_take hst)

/-- Non-vacuity: on the uniform 2×3 matrix beam 10 (indeed beam 5) prunes nothing; beam 1
on `[[1,2],[2,1]]` does (and there the score 6 is below the exact total 7, see above). -/
example : noPrune natOps 10 3 (initBeam natOps) 0 uniform23 = true := by decide
example : noPrune natOps 5 3 (initBeam natOps) 0 uniform23 = true := by decide
example : noPrune natOps 4 3 (initBeam natOps) 0 uniform23 = false := by decide
example : noPrune natOps 1 2 (initBeam natOps) 0 [[1, 2], [2, 1]] = false := by decide

/-! ## The carrier the driver runs projects exactly onto the `natOps` model -/

/-- **C39.H (general)** A map that preserves the operations and comparisons of the carrier
commutes with the whole beam search (every beam width, label count, matrix, start beam). -/
theorem c39_beam_hom {α β : Type} (o1 : Ops α) (o2 : Ops β) (φ : α → β) (hh : OpsHom o1 o2 φ)
    (B L : Nat) (rows : List (List α)) (beam : List (BState α)) (pos : Nat) :
    (beamLoop o1 B L beam pos rows).map (mapState φ) =
      beamLoop o2 B L (beam.map (mapState φ)) pos (rows.map (·.map φ)) :=
  beamLoop_hom hh B L rows beam pos

/-- **C39.H** `V.val` is such a homomorphism from the driver's carrier `vOps` (exact value +
expression hash, with its zero-absorption and `vOne` shortcuts) to `natOps`. -/
theorem c39_vOps_hom : OpsHom vOps natOps V.val := vOps_hom

/-- **C39.H (driver, n-best)** What `model_C39` computes for a `beam` request — the beam search
over `vOps` on the weights lifted by `leaf` — has exactly the labels, positions and score
values of the `natOps` model on the original weights, which T3 / F / S4 are about. -/
theorem c39_driver_nbest_eq_nat (B N L : Nat) (rows : List (List Nat)) :
    (decodeBeamNbest vOps B N L (rows.map (·.map leaf))).map (·.map (mapHyp V.val)) =
      decodeBeamNbest natOps B N L rows := by
  rw [decodeBeamNbest_hom vOps_hom, rows_leaf_val]

/-- **C39.H (driver, best)** The same for a `best` request (`decode_beam`). -/
theorem c39_driver_best_eq_nat (B L : Nat) (rows : List (List Nat)) :
    (decodeBeam vOps B L (rows.map (·.map leaf))).map (mapHyp V.val) =
      decodeBeam natOps B L rows := by
  rw [decodeBeam_hom vOps_hom, rows_leaf_val]

/-! ## Beam size and table bounds (the `[beam_size, n_labels]` tensors are never over-indexed) -/

/-- **C39.B** `decode_beam_impl` returns a non-empty beam of at most `max beam_size 1` states
(at most `beam_size` whenever there is a time step, since then `beam_size ≠ 0`), for every
carrier. -/
theorem c39_beam_length {α} (ops : Ops α) (B L : Nat) (rows : List (List α))
    (beam : List (BState α)) (h : decodeBeamImpl ops B L rows = some beam) :
    beam ≠ [] ∧ beam.length ≤ max B 1 ∧ (rows ≠ [] → beam.length ≤ B) := by
  unfold decodeBeamImpl at h
  split at h
  · rename_i he
    cases h
    have : rows = [] := by simpa using he
    refine ⟨by simp [initBeam], by simp [initBeam]; omega, fun hne => absurd this hne⟩
  · split at h
    · cases h
    · rename_i hb
      cases h
      have := beamLoop_length ops B L rows (initBeam ops) 0
        ⟨by simp [initBeam], by simp [initBeam]; omega⟩
      refine ⟨this.1, this.2, fun _ => ?_⟩
      have h2 := this.2
      omega

/-- **C39.B (indices)** In one decoding step from a non-empty beam of at most `beam_size ≥ 1`
states with `n_labels ≥ 1`, every index the code uses on the `[beam_size, n_labels]` tables is
in range: the row of each state, the row of each merge target, and the `(index, label)` of each
selected extension (which also indexes `beam`).  The beam invariant needed here is
`c39_beam_length`.  So the total function tables of the model never hide an out-of-range read. -/
theorem c39_step_indices_in_bounds {α} (ops : Ops α) (B L : Nat) (beam : List (BState α))
    (row : List α) (hL : 0 < L) (hne : beam ≠ []) (hlen : beam.length ≤ B) :
    (∀ sb ∈ beam.zipIdx, sb.2 < B ∧ 0 < L) ∧
    (∀ s ∈ beam, ∀ l ti, mergeTarget beam s.pre l = some ti → ti < B ∧ 0 < L) ∧
    (∀ label ∈ List.range' 1 (L - 1), label < L) ∧
    (∀ e ∈ selectTopk ops B (candidates ops L beam.length (extendAll ops L beam row)),
      e.index < beam.length ∧ e.index < B ∧ e.label < L) := by
  refine ⟨?_, ?_, ?_, ?_⟩
  · intro sb hsb
    have := (List.getElem?_eq_some_iff.mp (List.mem_zipIdx_iff_getElem?.mp hsb)).1
    exact ⟨by omega, hL⟩
  · intro s _ l ti h
    have := mergeTarget_lt beam s.pre l ti h
    exact ⟨by omega, hL⟩
  · intro label hl
    have := List.mem_range'_1.mp hl
    omega
  · intro e he
    have hpos : 0 < beam.length := by
      cases beam with
      | nil => exact absurd rfl hne
      | cons a l => simp
    rcases selectTopk_mem ops B L beam.length _ e he with ⟨h0, h1⟩ | ⟨h0, h1⟩
    · rw [h0, h1]; exact ⟨hpos, by omega, hL⟩
    · exact ⟨h0, by omega, h1⟩

/-! ## `decode_beam` (single best hypothesis) -/

theorem decodeBeam_spec {α} (ops : Ops α) (B L : Nat) (rows : List (List α)) (h : Hyp α)
    (hd : decodeBeam ops B L rows = some h) :
    ∃ beam st, decodeBeamImpl ops B L rows = some beam ∧ beam.head? = some st ∧ st ∈ beam ∧
      h = hypOf ops st := by
  unfold decodeBeam at hd
  split at hd
  · rename_i s rest heq
    cases hd
    exact ⟨s :: rest, s, heq, rfl, List.mem_cons_self, rfl⟩
  · cases hd

/-- **C39 best (totality)** `decode_beam` panics exactly when `decode_beam_impl` does: the
`remove(0)` never hits an empty vector, for every carrier. -/
theorem c39_best_total {α} (ops : Ops α) (B L : Nat) (rows : List (List α)) :
    (decodeBeam ops B L rows).isSome = (decodeBeamImpl ops B L rows).isSome := by
  unfold decodeBeam
  cases hb : decodeBeamImpl ops B L rows with
  | none => rfl
  | some beam =>
    have := (c39_beam_length ops B L rows beam hb).1
    cases beam with
    | nil => exact absurd rfl this
    | cons s rest => rfl

/-- **C39 best = head of n-best** for every `n_best ≥ 1`. -/
theorem c39_best_is_nbest_head {α} (ops : Ops α) (B N L : Nat) (hN : 1 ≤ N)
    (rows : List (List α)) (h : Hyp α) (hd : decodeBeam ops B L rows = some h) :
    ∃ hs, decodeBeamNbest ops B N L rows = some (h :: hs) := by
  obtain ⟨beam, st, hb, hhead, _, rfl⟩ := decodeBeam_spec ops B L rows h hd
  unfold decodeBeamNbest
  rw [hb]
  cases beam with
  | nil => cases hhead
  | cons s rest =>
    simp only [List.head?_cons, Option.some.injEq] at hhead
    subst hhead
    cases N with
    | zero => omega
    | succ n => exact ⟨(rest.take n).map (hypOf ops), by simp⟩

/-- **C39.T3 (best)** The score of `decode_beam`'s hypothesis never exceeds the exact total
probability of its label sequence. -/
theorem c39_best_score_le_exact (B L : Nat) (rows : List (List Nat))
    (hw : ∀ r ∈ rows, r.length = L) (h : Hyp Nat) (hd : decodeBeam natOps B L rows = some h) :
    h.score ≤ exactTotal L rows (labels h.steps) := by
  obtain ⟨beam, st, hb, _, hst, rfl⟩ := decodeBeam_spec natOps B L rows h hd
  exact c39_beam_score_le_exact B L rows hw beam hb st hst

/-- **C39.F (best)** … and is non-zero when every row has a positive entry. -/
theorem c39_best_finite (B L : Nat) (rows : List (List Nat))
    (hrows : ∀ row ∈ rows, ∃ l, l < L ∧ 0 < row.getD l 0) (h : Hyp Nat)
    (hd : decodeBeam natOps B L rows = some h) : natOps.isZero h.score = false := by
  obtain ⟨beam, st, hb, _, hst, rfl⟩ := decodeBeam_spec natOps B L rows h hd
  exact (c39_scores_finite B L rows hrows beam hb).2 st hst

/-- **C39.S4 (best)** … and equals the exact total when nothing is pruned. -/
theorem c39_best_exact_when_unpruned (B L : Nat) (rows : List (List Nat))
    (hw : ∀ r ∈ rows, r.length = L) (h : Hyp Nat) (hd : decodeBeam natOps B L rows = some h)
    (hnp : noPrune natOps B L (initBeam natOps) 0 rows = true) :
    h.score = exactTotal L rows (labels h.steps) := by
  obtain ⟨beam, st, hb, _, hst, rfl⟩ := decodeBeam_spec natOps B L rows h hd
  exact (c39_beam_exact_when_unpruned B L rows hw beam hb hnp).1 st hst

/-! ## Greedy decoding with NaN entries (`cmp_nan_greater`) -/

/-- T1 (`c39_greedy_collapse`, `c39_greedy_total`) holds for every carrier, in particular for
`nanOps`; here the arg-max semantics on NaN: a NaN entry beats every number, and among several
NaNs the **last** one is chosen (`cmp_nan_greater(NaN, NaN) = Greater` replaces the best). -/
example : argmaxRow nanOps [some 3, none, some 5, none, some 1] = some 3 := by decide
example : argmaxRow nanOps [some 3, some 5, some 5] = some 1 := by decide
example : (decodeGreedy nanOps 3 [[some 1, none, some 2], [some 1, some 1, some 1]]).map
    (fun h => (h.steps, h.score)) = some ([⟨1, 0⟩], none) := by decide

end RtenVerif.Ctc
