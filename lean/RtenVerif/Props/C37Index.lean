import RtenVerif.Model.BlockQuantIndex

/-!
# C37 — index arithmetic of the block-quantized kernels

For every SIMD width of the code (`epv` = 32 generic, 64 AVX2, 128 AVX-512), every power-of-two
block size `bs ≥ 16`, every block count `nb` and every element position `k < nb·bs`, the scale
index computed by the Float kernel (`scaleIdxFloat`: main loop with `SCALES_PER_VBLOCK` arithmetic
and shift, scalar tail with `tail_scales[i / elements_per_scale]`) and by the Int8 kernel
(`scaleIdxInt8`: per-lane `select` masks, whole-block tail) is `k / bs` — the index the
reference (`expandScales`, `c37_scale_of_element`) uses.  The two seeded slips are refuted.

The transcription of the Rust loops into `Model/BlockQuantIndex.lean` is tied to the real kernels
by the `sidx` lines of the harness (one-hot LHS × all-ones weights with a distinct power-of-two
scale per block, every `k`, per ISA).
-/
namespace RtenVerif.BlockQuantIndex

theorem float_32_16 (nb k : Nat) (h : k < nb * 16) : scaleIdxFloat 32 16 nb k = k / 16 := by
  simp only [scaleIdxFloat, mainLen, floatMainIdx, floatTailIdx, scalesPerVblock, Nat.reduceDiv,
    (by decide : max 2 1 = 2)]
  have e := Nat.div_add_mod nb 2
  have hm := Nat.mod_lt nb (by decide : 0 < 2)
  have hp : (nb * 16 - nb * 16 / 32 * 32) / 2 = nb % 2 * 8 := by omega
  rw [hp]
  generalize nb / 2 = q at *
  generalize nb % 2 = t at *
  rcases (by omega : t = 0 ∨ t = 1) with
    rfl | rfl <;> (split <;> (try simp) <;> omega)

theorem int8_32_16 (nb k : Nat) (h : k < nb * 16) : scaleIdxInt8 32 16 nb k = k / 16 := by
  have _ := h
  simp only [scaleIdxInt8, mainLen, int8MainIdx, blocksPerVec, scalesPerVblock, quadLane, selectLane,
    Nat.reduceDiv, Nat.reduceMul, Nat.reduceAdd, Nat.reduceSub, (by decide : max 2 1 = 2)]
  split <;> (try split) <;> (try split) <;> (try split) <;> omega

theorem float_64_16 (nb k : Nat) (h : k < nb * 16) : scaleIdxFloat 64 16 nb k = k / 16 := by
  simp only [scaleIdxFloat, mainLen, floatMainIdx, floatTailIdx, scalesPerVblock, Nat.reduceDiv,
    (by decide : max 4 1 = 4)]
  have e := Nat.div_add_mod nb 4
  have hm := Nat.mod_lt nb (by decide : 0 < 4)
  have hp : (nb * 16 - nb * 16 / 64 * 64) / 2 = nb % 4 * 8 := by omega
  rw [hp]
  generalize nb / 4 = q at *
  generalize nb % 4 = t at *
  rcases (by omega : t = 0 ∨ t = 1 ∨ t = 2 ∨ t = 3) with
    rfl | rfl | rfl | rfl <;> (split <;> (try simp) <;> omega)

theorem int8_64_16 (nb k : Nat) (h : k < nb * 16) : scaleIdxInt8 64 16 nb k = k / 16 := by
  have _ := h
  simp only [scaleIdxInt8, mainLen, int8MainIdx, blocksPerVec, scalesPerVblock, quadLane, selectLane,
    Nat.reduceDiv, Nat.reduceMul, Nat.reduceAdd, Nat.reduceSub, (by decide : max 4 1 = 4)]
  split <;> (try split) <;> (try split) <;> (try split) <;> omega

theorem float_64_32 (nb k : Nat) (h : k < nb * 32) : scaleIdxFloat 64 32 nb k = k / 32 := by
  simp only [scaleIdxFloat, mainLen, floatMainIdx, floatTailIdx, scalesPerVblock, Nat.reduceDiv,
    (by decide : max 2 1 = 2)]
  have e := Nat.div_add_mod nb 2
  have hm := Nat.mod_lt nb (by decide : 0 < 2)
  have hp : (nb * 32 - nb * 32 / 64 * 64) / 2 = nb % 2 * 16 := by omega
  rw [hp]
  generalize nb / 2 = q at *
  generalize nb % 2 = t at *
  rcases (by omega : t = 0 ∨ t = 1) with
    rfl | rfl <;> (split <;> (try simp) <;> omega)

theorem int8_64_32 (nb k : Nat) (h : k < nb * 32) : scaleIdxInt8 64 32 nb k = k / 32 := by
  have _ := h
  simp only [scaleIdxInt8, mainLen, int8MainIdx, blocksPerVec, scalesPerVblock, quadLane, selectLane,
    Nat.reduceDiv, Nat.reduceMul, Nat.reduceAdd, Nat.reduceSub, (by decide : max 2 1 = 2)]
  split <;> (try split) <;> (try split) <;> (try split) <;> omega

theorem float_128_16 (nb k : Nat) (h : k < nb * 16) : scaleIdxFloat 128 16 nb k = k / 16 := by
  simp only [scaleIdxFloat, mainLen, floatMainIdx, floatTailIdx, scalesPerVblock, Nat.reduceDiv,
    (by decide : max 8 1 = 8)]
  have e := Nat.div_add_mod nb 8
  have hm := Nat.mod_lt nb (by decide : 0 < 8)
  have hp : (nb * 16 - nb * 16 / 128 * 128) / 2 = nb % 8 * 8 := by omega
  rw [hp]
  generalize nb / 8 = q at *
  generalize nb % 8 = t at *
  rcases (by omega : t = 0 ∨ t = 1 ∨ t = 2 ∨ t = 3 ∨ t = 4 ∨ t = 5 ∨ t = 6 ∨ t = 7) with
    rfl | rfl | rfl | rfl | rfl | rfl | rfl | rfl <;> (split <;> (try simp) <;> omega)

theorem int8_128_16 (nb k : Nat) (h : k < nb * 16) : scaleIdxInt8 128 16 nb k = k / 16 := by
  have _ := h
  simp only [scaleIdxInt8, mainLen, int8MainIdx, blocksPerVec, scalesPerVblock, quadLane, selectLane,
    Nat.reduceDiv, Nat.reduceMul, Nat.reduceAdd, Nat.reduceSub, (by decide : max 8 1 = 8)]
  split <;> (try split) <;> (try split) <;> (try split) <;> omega

theorem float_128_32 (nb k : Nat) (h : k < nb * 32) : scaleIdxFloat 128 32 nb k = k / 32 := by
  simp only [scaleIdxFloat, mainLen, floatMainIdx, floatTailIdx, scalesPerVblock, Nat.reduceDiv,
    (by decide : max 4 1 = 4)]
  have e := Nat.div_add_mod nb 4
  have hm := Nat.mod_lt nb (by decide : 0 < 4)
  have hp : (nb * 32 - nb * 32 / 128 * 128) / 2 = nb % 4 * 16 := by omega
  rw [hp]
  generalize nb / 4 = q at *
  generalize nb % 4 = t at *
  rcases (by omega : t = 0 ∨ t = 1 ∨ t = 2 ∨ t = 3) with
    rfl | rfl | rfl | rfl <;> (split <;> (try simp) <;> omega)

theorem int8_128_32 (nb k : Nat) (h : k < nb * 32) : scaleIdxInt8 128 32 nb k = k / 32 := by
  have _ := h
  simp only [scaleIdxInt8, mainLen, int8MainIdx, blocksPerVec, scalesPerVblock, quadLane, selectLane,
    Nat.reduceDiv, Nat.reduceMul, Nat.reduceAdd, Nat.reduceSub, (by decide : max 4 1 = 4)]
  split <;> (try split) <;> (try split) <;> (try split) <;> omega

theorem float_128_64 (nb k : Nat) (h : k < nb * 64) : scaleIdxFloat 128 64 nb k = k / 64 := by
  simp only [scaleIdxFloat, mainLen, floatMainIdx, floatTailIdx, scalesPerVblock, Nat.reduceDiv,
    (by decide : max 2 1 = 2)]
  have e := Nat.div_add_mod nb 2
  have hm := Nat.mod_lt nb (by decide : 0 < 2)
  have hp : (nb * 64 - nb * 64 / 128 * 128) / 2 = nb % 2 * 32 := by omega
  rw [hp]
  generalize nb / 2 = q at *
  generalize nb % 2 = t at *
  rcases (by omega : t = 0 ∨ t = 1) with
    rfl | rfl <;> (split <;> (try simp) <;> omega)

theorem int8_128_64 (nb k : Nat) (h : k < nb * 64) : scaleIdxInt8 128 64 nb k = k / 64 := by
  have _ := h
  simp only [scaleIdxInt8, mainLen, int8MainIdx, blocksPerVec, scalesPerVblock, quadLane, selectLane,
    Nat.reduceDiv, Nat.reduceMul, Nat.reduceAdd, Nat.reduceSub, (by decide : max 2 1 = 2)]
  split <;> (try split) <;> (try split) <;> (try split) <;> omega

/-- Blocks at least as large as a vblock (`bs = epv·2^j`): one scale per vblock, selected with the
shift `v >> log2(bs / epv)`; there is no tail. -/
theorem scalesPerVblock_big (epv j : Nat) (hepv : 0 < epv) : scalesPerVblock epv (epv * 2 ^ j) = 1 := by
  unfold scalesPerVblock
  have hpos : 0 < 2 ^ j := Nat.pow_pos (by decide)
  have : epv / (epv * 2 ^ j) ≤ 1 := by
    apply Nat.div_le_of_le_mul
    have := Nat.mul_le_mul_left epv hpos
    omega
  omega

theorem mainLen_big (epv j nb : Nat) (hepv : 0 < epv) : mainLen epv (epv * 2 ^ j) nb = nb * (epv * 2 ^ j) := by
  unfold mainLen
  have _ := hepv
  apply Nat.div_mul_cancel
  exact ⟨nb * 2 ^ j, by rw [← Nat.mul_assoc, ← Nat.mul_assoc, Nat.mul_comm nb epv]⟩

theorem shift_big (epv j v : Nat) (hepv : 0 < epv) :
    v >>> vecsPerBlockLog2 epv (epv * 2 ^ j) = v / 2 ^ j := by
  unfold vecsPerBlockLog2
  have hdiv : epv * 2 ^ j / epv = 2 ^ j := Nat.mul_div_cancel_left _ hepv
  have hpos : 0 < 2 ^ j := Nat.pow_pos (by decide)
  rw [hdiv, if_pos (by omega), Nat.log2_two_pow, Nat.shiftRight_eq_div_pow]

theorem float_big (epv j nb k : Nat) (hepv : 0 < epv) (h : k < nb * (epv * 2 ^ j)) :
    scaleIdxFloat epv (epv * 2 ^ j) nb k = k / (epv * 2 ^ j) := by
  unfold scaleIdxFloat
  rw [mainLen_big epv j nb hepv, if_pos h]
  unfold floatMainIdx
  rw [scalesPerVblock_big epv j hepv]
  simp only []
  rw [shift_big epv j _ hepv, Nat.div_div_eq_div_mul]

theorem int8_big (epv j nb k : Nat) (hepv : 0 < epv) (h : k < nb * (epv * 2 ^ j)) :
    scaleIdxInt8 epv (epv * 2 ^ j) nb k = k / (epv * 2 ^ j) := by
  unfold scaleIdxInt8
  rw [mainLen_big epv j nb hepv, if_pos h]
  unfold int8MainIdx
  rw [scalesPerVblock_big epv j hepv]
  simp only []
  rw [shift_big epv j _ hepv, Nat.div_div_eq_div_mul]

/-- The SIMD widths of the code: generic (128-bit), AVX2, AVX-512. -/
def IsEpv (epv : Nat) : Prop := epv = 32 ∨ epv = 64 ∨ epv = 128

theorem pow_split3 (j : Nat) : 16 * 2 ^ (j + 3) = 128 * 2 ^ j ∧ 16 * 2 ^ (j + 2) = 64 * 2 ^ j ∧
    16 * 2 ^ (j + 1) = 32 * 2 ^ j := by
  simp only [Nat.pow_add]
  omega

/-- **C37.I1** Float kernel (`VecDotMatrix::eval_impl`): for every SIMD width, every power-of-two
block size `bs = 16·2^j`, every block count and every element position, the scale index used by
the main loop / the scalar tail is `k / bs`. -/
theorem c37_scale_index_float (epv j nb k : Nat) (hepv : IsEpv epv) (h : k < nb * (16 * 2 ^ j)) :
    scaleIdxFloat epv (16 * 2 ^ j) nb k = k / (16 * 2 ^ j) := by
  rcases hepv with rfl | rfl | rfl
  · match j with
    | 0 => exact float_32_16 nb k (by simpa using h)
    | j + 1 =>
      rw [(pow_split3 j).2.2] at h ⊢
      exact float_big 32 j nb k (by decide) h
  · match j with
    | 0 => exact float_64_16 nb k (by simpa using h)
    | 1 => exact float_64_32 nb k (by simpa using h)
    | j + 2 =>
      rw [(pow_split3 j).2.1] at h ⊢
      exact float_big 64 j nb k (by decide) h
  · match j with
    | 0 => exact float_128_16 nb k (by simpa using h)
    | 1 => exact float_128_32 nb k (by simpa using h)
    | 2 => exact float_128_64 nb k (by simpa using h)
    | j + 3 =>
      rw [(pow_split3 j).1] at h ⊢
      exact float_big 128 j nb k (by decide) h

/-- **C37.I2** Int8 kernel (`VecDotMatrixQuant::eval_impl`): the block whose `col_scale·row_scale`
multiplies i32 lane `l` of the low/high accumulator (via the `select` masks for 4 and 8 scales per
vblock), and the block of each tail chunk, is `k / bs` for every element the lane/chunk covers. -/
theorem c37_scale_index_int8 (epv j nb k : Nat) (hepv : IsEpv epv) (h : k < nb * (16 * 2 ^ j)) :
    scaleIdxInt8 epv (16 * 2 ^ j) nb k = k / (16 * 2 ^ j) := by
  rcases hepv with rfl | rfl | rfl
  · match j with
    | 0 => exact int8_32_16 nb k (by simpa using h)
    | j + 1 =>
      rw [(pow_split3 j).2.2] at h ⊢
      exact int8_big 32 j nb k (by decide) h
  · match j with
    | 0 => exact int8_64_16 nb k (by simpa using h)
    | 1 => exact int8_64_32 nb k (by simpa using h)
    | j + 2 =>
      rw [(pow_split3 j).2.1] at h ⊢
      exact int8_big 64 j nb k (by decide) h
  · match j with
    | 0 => exact int8_128_16 nb k (by simpa using h)
    | 1 => exact int8_128_32 nb k (by simpa using h)
    | 2 => exact int8_128_64 nb k (by simpa using h)
    | j + 3 =>
      rw [(pow_split3 j).1] at h ⊢
      exact int8_big 128 j nb k (by decide) h

/-- Non-vacuity: AVX-512 width, block size 16, 15 blocks (one full vblock + 7 tail blocks):
position 239 is in the scalar tail and uses scale 14. -/
example : IsEpv 128 ∧ 239 < 15 * (16 * 2 ^ 0) ∧ ¬ (239 < mainLen 128 16 15) ∧
    scaleIdxFloat 128 16 15 239 = 14 ∧ scaleIdxInt8 128 16 15 239 = 14 ∧
    scaleIdxInt8 128 16 15 100 = 6 ∧ quadLane 16 9 = 2 := by
  refine ⟨Or.inr (Or.inr rfl), by decide, by decide, by decide, by decide, by decide, by decide⟩

/-- **C37.I3** The seeded slip C37_a (`block_idx = vblock_idx * 4` in the 8-scales arm) is wrong
from the second vblock on: AVX-512 width, `bs = 16`, element 128 belongs to block 8 but gets the
scale of block 4. -/
theorem c37_seed_a_refuted :
    scaleIdxFloatSeedA 128 16 16 128 = 4 ∧ scaleIdxFloat 128 16 16 128 = 8 ∧ 128 / 16 = 8 := by decide

/-- **C37.I4** The seeded slip C37_b (`pairs >> tail_scales.len().ilog2()`) is wrong when the number
of tail blocks is not a power of two: AVX-512 width, `bs = 16`, 11 blocks (3 tail blocks): element
160 belongs to block 10 but gets the scale of block 9; with 2 or 4 tail blocks it is right. -/
theorem c37_seed_b_refuted :
    scaleIdxFloatSeedB 128 16 11 160 = 9 ∧ scaleIdxFloat 128 16 11 160 = 10 ∧
    (∀ k : Fin 160, scaleIdxFloatSeedB 128 16 10 k.val = k.val / 16) := by decide +kernel

end RtenVerif.BlockQuantIndex
