import RtenVerif.Props.C37

/-!
# C37 — index arithmetic of the block-quantized kernels

For every SIMD width of the code (`epv` = 32 generic, 64 AVX2, 128 AVX-512), every power-of-two
block size `bs ≥ 16`, every block count `nb` and every element position `k < nb·bs`, the scale
index computed by the Float kernel (`scaleIdxFloat`: main loop with `SCALES_PER_VBLOCK` arithmetic
and shift, scalar tail with `tail_scales[i / elements_per_scale]`) and by the Int8 kernel
(`scaleIdxInt8`: per-lane `select` masks, whole-block tail) is `k / bs` — the index the
reference (`expandScales`, `c37_scale_of_element`) uses.  The two seeded slips are refuted.

The transcription of the Rust loops into `Model/BlockQuantIndex.lean` is tied to the real kernels
by the `sidx` lines of the harness (one-hot LHS × all-ones weights with a distinct power-of-two
scale per block, every `k`, per ISA).
-/
namespace RtenVerif.BlockQuantIndex

theorem float_32_16 (nb k : Nat) (h : k < nb * 16) : scaleIdxFloat 32 16 nb k = k / 16 := by
  simp only [scaleIdxFloat, mainLen, floatMainIdx, floatTailIdx, scalesPerVblock, Nat.reduceDiv,
    (by decide : max 2 1 = 2)]
  have e := Nat.div_add_mod nb 2
  have hm := Nat.mod_lt nb (by decide : 0 < 2)
  have hp : (nb * 16 - nb * 16 / 32 * 32) / 2 = nb % 2 * 8 := by omega
  rw [hp]
  generalize nb / 2 = q at *
  generalize nb % 2 = t at *
  rcases (by omega : t = 0 ∨ t = 1) with
    rfl | rfl <;> (split <;> (try simp) <;> omega)

theorem int8_32_16 (nb k : Nat) (h : k < nb * 16) : scaleIdxInt8 32 16 nb k = k / 16 := by
  have _ := h
  simp only [scaleIdxInt8, mainLen, int8MainIdx, blocksPerVec, scalesPerVblock, quadLane, selectLane,
    Nat.reduceDiv, Nat.reduceMul, Nat.reduceAdd, Nat.reduceSub, (by decide : max 2 1 = 2)]
  split <;> (try split) <;> (try split) <;> (try split) <;> omega

theorem float_64_16 (nb k : Nat) (h : k < nb * 16) : scaleIdxFloat 64 16 nb k = k / 16 := by
  simp only [scaleIdxFloat, mainLen, floatMainIdx, floatTailIdx, scalesPerVblock, Nat.reduceDiv,
    (by decide : max 4 1 = 4)]
  have e := Nat.div_add_mod nb 4
  have hm := Nat.mod_lt nb (by decide : 0 < 4)
  have hp : (nb * 16 - nb * 16 / 64 * 64) / 2 = nb % 4 * 8 := by omega
  rw [hp]
  generalize nb / 4 = q at *
  generalize nb % 4 = t at *
  rcases (by omega : t = 0 ∨ t = 1 ∨ t = 2 ∨ t = 3) with
    rfl | rfl | rfl | rfl <;> (split <;> (try simp) <;> omega)

theorem int8_64_16 (nb k : Nat) (h : k < nb * 16) : scaleIdxInt8 64 16 nb k = k / 16 := by
  have _ := h
  simp only [scaleIdxInt8, mainLen, int8MainIdx, blocksPerVec, scalesPerVblock, quadLane, selectLane,
    Nat.reduceDiv, Nat.reduceMul, Nat.reduceAdd, Nat.reduceSub, (by decide : max 4 1 = 4)]
  split <;> (try split) <;> (try split) <;> (try split) <;> omega

theorem float_64_32 (nb k : Nat) (h : k < nb * 32) : scaleIdxFloat 64 32 nb k = k / 32 := by
  simp only [scaleIdxFloat, mainLen, floatMainIdx, floatTailIdx, scalesPerVblock, Nat.reduceDiv,
    (by decide : max 2 1 = 2)]
  have e := Nat.div_add_mod nb 2
  have hm := Nat.mod_lt nb (by decide : 0 < 2)
  have hp : (nb * 32 - nb * 32 / 64 * 64) / 2 = nb % 2 * 16 := by omega
  rw [hp]
  generalize nb / 2 = q at *
  generalize nb % 2 = t at *
  rcases (by omega : t = 0 ∨ t = 1) with
    rfl | rfl <;> (split <;> (try simp) <;> omega)

theorem int8_64_32 (nb k : Nat) (h : k < nb * 32) : scaleIdxInt8 64 32 nb k = k / 32 := by
  have _ := h
  simp only [scaleIdxInt8, mainLen, int8MainIdx, blocksPerVec, scalesPerVblock, quadLane, selectLane,
    Nat.reduceDiv, Nat.reduceMul, Nat.reduceAdd, Nat.reduceSub, (by decide : max 2 1 = 2)]
  split <;> (try split) <;> (try split) <;> (try split) <;> omega

theorem float_128_16 (nb k : Nat) (h : k < nb * 16) : scaleIdxFloat 128 16 nb k = k / 16 := by
  simp only [scaleIdxFloat, mainLen, floatMainIdx, floatTailIdx, scalesPerVblock, Nat.reduceDiv,
    (by decide : max 8 1 = 8)]
  have e := Nat.div_add_mod nb 8
  have hm := Nat.mod_lt nb (by decide : 0 < 8)
  have hp : (nb * 16 - nb * 16 / 128 * 128) / 2 = nb % 8 * 8 := by omega
  rw [hp]
  generalize nb / 8 = q at *
  generalize nb % 8 = t at *
  rcases (by omega : t = 0 ∨ t = 1 ∨ t = 2 ∨ t = 3 ∨ t = 4 ∨ t = 5 ∨ t = 6 ∨ t = 7) with
    rfl | rfl | rfl | rfl | rfl | rfl | rfl | rfl <;> (split <;> (try simp) <;> omega)

theorem int8_128_16 (nb k : Nat) (h : k < nb * 16) : scaleIdxInt8 128 16 nb k = k / 16 := by
  have _ := h
  simp only [scaleIdxInt8, mainLen, int8MainIdx, blocksPerVec, scalesPerVblock, quadLane, selectLane,
    Nat.reduceDiv, Nat.reduceMul, Nat.reduceAdd, Nat.reduceSub, (by decide : max 8 1 = 8)]
  split <;> (try split) <;> (try split) <;> (try split) <;> omega

theorem float_128_32 (nb k : Nat) (h : k < nb * 32) : scaleIdxFloat 128 32 nb k = k / 32 := by
  simp only [scaleIdxFloat, mainLen, floatMainIdx, floatTailIdx, scalesPerVblock, Nat.reduceDiv,
    (by decide : max 4 1 = 4)]
  have e := Nat.div_add_mod nb 4
  have hm := Nat.mod_lt nb (by decide : 0 < 4)
  have hp : (nb * 32 - nb * 32 / 128 * 128) / 2 = nb % 4 * 16 := by omega
  rw [hp]
  generalize nb / 4 = q at *
  generalize nb % 4 = t at *
  rcases (by omega : t = 0 ∨ t = 1 ∨ t = 2 ∨ t = 3) with
    rfl | rfl | rfl | rfl <;> (split <;> (try simp) <;> omega)

theorem int8_128_32 (nb k : Nat) (h : k < nb * 32) : scaleIdxInt8 128 32 nb k = k / 32 := by
  have _ := h
  simp only [scaleIdxInt8, mainLen, int8MainIdx, blocksPerVec, scalesPerVblock, quadLane, selectLane,
    Nat.reduceDiv, Nat.reduceMul, Nat.reduceAdd, Nat.reduceSub, (by decide : max 4 1 = 4)]
  split <;> (try split) <;> (try split) <;> (try split) <;> omega

theorem float_128_64 (nb k : Nat) (h : k < nb * 64) : scaleIdxFloat 128 64 nb k = k / 64 := by
  simp only [scaleIdxFloat, mainLen, floatMainIdx, floatTailIdx, scalesPerVblock, Nat.reduceDiv,
    (by decide : max 2 1 = 2)]
  have e := Nat.div_add_mod nb 2
  have hm := Nat.mod_lt nb (by decide : 0 < 2)
  have hp : (nb * 64 - nb * 64 / 128 * 128) / 2 = nb % 2 * 32 := by omega
  rw [hp]
  generalize nb / 2 = q at *
  generalize nb % 2 = t at *
  rcases (by omega : t = 0 ∨ t = 1) with
    rfl | rfl <;> (split <;> (try simp) <;> omega)

theorem int8_128_64 (nb k : Nat) (h : k < nb * 64) : scaleIdxInt8 128 64 nb k = k / 64 := by
  have _ := h
  simp only [scaleIdxInt8, mainLen, int8MainIdx, blocksPerVec, scalesPerVblock, quadLane, selectLane,
    Nat.reduceDiv, Nat.reduceMul, Nat.reduceAdd, Nat.reduceSub, (by decide : max 2 1 = 2)]
  split <;> (try split) <;> (try split) <;> (try split) <;> omega

/-- Blocks at least as large as a vblock (`bs = epv·2^j`): one scale per vblock, selected with the
shift `v >> log2(bs / epv)`; there is no tail. -/
theorem scalesPerVblock_big (epv j : Nat) (hepv : 0 < epv) : scalesPerVblock epv (epv * 2 ^ j) = 1 := by
  unfold scalesPerVblock
  have hpos : 0 < 2 ^ j := Nat.pow_pos (by decide)
  have : epv / (epv * 2 ^ j) ≤ 1 := by
    apply Nat.div_le_of_le_mul
    have := Nat.mul_le_mul_left epv hpos
    omega
  omega

theorem mainLen_big (epv j nb : Nat) (hepv : 0 < epv) : mainLen epv (epv * 2 ^ j) nb = nb * (epv * 2 ^ j) := by
  unfold mainLen
  have _ := hepv
  apply Nat.div_mul_cancel
  exact ⟨nb * 2 ^ j, by rw [← Nat.mul_assoc, ← Nat.mul_assoc, Nat.mul_comm nb epv]⟩

theorem shift_big (epv j v : Nat) (hepv : 0 < epv) :
    v >>> vecsPerBlockLog2 epv (epv * 2 ^ j) = v / 2 ^ j := by
  unfold vecsPerBlockLog2
  have hdiv : epv * 2 ^ j / epv = 2 ^ j := Nat.mul_div_cancel_left _ hepv
  have hpos : 0 < 2 ^ j := Nat.pow_pos (by decide)
  rw [hdiv, if_pos (by omega), Nat.log2_two_pow, Nat.shiftRight_eq_div_pow]

theorem float_big (epv j nb k : Nat) (hepv : 0 < epv) (h : k < nb * (epv * 2 ^ j)) :
    scaleIdxFloat epv (epv * 2 ^ j) nb k = k / (epv * 2 ^ j) := by
  unfold scaleIdxFloat
  rw [mainLen_big epv j nb hepv, if_pos h]
  unfold floatMainIdx
  rw [scalesPerVblock_big epv j hepv]
  simp only []
  rw [shift_big epv j _ hepv, Nat.div_div_eq_div_mul]

theorem int8_big (epv j nb k : Nat) (hepv : 0 < epv) (h : k < nb * (epv * 2 ^ j)) :
    scaleIdxInt8 epv (epv * 2 ^ j) nb k = k / (epv * 2 ^ j) := by
  unfold scaleIdxInt8
  rw [mainLen_big epv j nb hepv, if_pos h]
  unfold int8MainIdx
  rw [scalesPerVblock_big epv j hepv]
  simp only []
  rw [shift_big epv j _ hepv, Nat.div_div_eq_div_mul]

/-- The SIMD widths of the code: generic (128-bit), AVX2, AVX-512. -/
def IsEpv (epv : Nat) : Prop := epv = 32 ∨ epv = 64 ∨ epv = 128

theorem pow_split3 (j : Nat) : 16 * 2 ^ (j + 3) = 128 * 2 ^ j ∧ 16 * 2 ^ (j + 2) = 64 * 2 ^ j ∧
    16 * 2 ^ (j + 1) = 32 * 2 ^ j := by
  simp only [Nat.pow_add]
  omega

/-- **C37.I1** Float kernel (`VecDotMatrix::eval_impl`): for every SIMD width, every power-of-two
block size `bs = 16·2^j`, every block count and every element position, the scale index used by
the main loop / the scalar tail is `k / bs`. -/
theorem c37_scale_index_float (epv j nb k : Nat) (hepv : IsEpv epv) (h : k < nb * (16 * 2 ^ j)) :
    scaleIdxFloat epv (16 * 2 ^ j) nb k = k / (16 * 2 ^ j) := by
  rcases hepv with rfl | rfl | rfl
  · match j with
    | 0 => exact float_32_16 nb k (by simpa using h)
    | j + 1 =>
      rw [(pow_split3 j).2.2] at h ⊢
      exact float_big 32 j nb k (by decide) h
  · match j with
    | 0 => exact float_64_16 nb k (by simpa using h)
    | 1 => exact float_64_32 nb k (by simpa using h)
    | j + 2 =>
      rw [(pow_split3 j).2.1] at h ⊢
      exact float_big 64 j nb k (by decide) h
  · match j with
    | 0 => exact float_128_16 nb k (by simpa using h)
    | 1 => exact float_128_32 nb k (by simpa using h)
    | 2 => exact float_128_64 nb k (by simpa using h)
    | j + 3 =>
      rw [(pow_split3 j).1] at h ⊢
      exact float_big 128 j nb k (by decide) h

/-- **C37.I2** Int8 kernel (`VecDotMatrixQuant::eval_impl`): the block whose `col_scale·row_scale`
multiplies i32 lane `l` of the low/high accumulator (via the `select` masks for 4 and 8 scales per
vblock), and the block of each tail chunk, is `k / bs` for every element the lane/chunk covers. -/
theorem c37_scale_index_int8 (epv j nb k : Nat) (hepv : IsEpv epv) (h : k < nb * (16 * 2 ^ j)) :
    scaleIdxInt8 epv (16 * 2 ^ j) nb k = k / (16 * 2 ^ j) := by
  rcases hepv with rfl | rfl | rfl
  · match j with
    | 0 => exact int8_32_16 nb k (by simpa using h)
    | j + 1 =>
      rw [(pow_split3 j).2.2] at h ⊢
      exact int8_big 32 j nb k (by decide) h
  · match j with
    | 0 => exact int8_64_16 nb k (by simpa using h)
    | 1 => exact int8_64_32 nb k (by simpa using h)
    | j + 2 =>
      rw [(pow_split3 j).2.1] at h ⊢
      exact int8_big 64 j nb k (by decide) h
  · match j with
    | 0 => exact int8_128_16 nb k (by simpa using h)
    | 1 => exact int8_128_32 nb k (by simpa using h)
    | 2 => exact int8_128_64 nb k (by simpa using h)
    | j + 3 =>
      rw [(pow_split3 j).1] at h ⊢
      exact int8_big 128 j nb k (by decide) h

/-- Non-vacuity: AVX-512 width, block size 16, 15 blocks (one full vblock + 7 tail blocks):
position 239 is in the scalar tail and uses scale 14. -/
example : IsEpv 128 ∧ 239 < 15 * (16 * 2 ^ 0) ∧ ¬ (239 < mainLen 128 16 15) ∧
    scaleIdxFloat 128 16 15 239 = 14 ∧ scaleIdxInt8 128 16 15 239 = 14 ∧
    scaleIdxInt8 128 16 15 100 = 6 ∧ quadLane 16 9 = 2 := by
  refine ⟨Or.inr (Or.inr rfl), by decide, by decide, by decide, by decide, by decide, by decide⟩

/-- **C37.I3** The seeded slip C37_a (`block_idx = vblock_idx * 4` in the 8-scales arm) is wrong
from the second vblock on: AVX-512 width, `bs = 16`, element 128 belongs to block 8 but gets the
scale of block 4. -/
theorem c37_seed_a_refuted :
    scaleIdxFloatSeedA 128 16 16 128 = 4 ∧ scaleIdxFloat 128 16 16 128 = 8 ∧ 128 / 16 = 8 := by decide

/-- **C37.I4** The seeded slip C37_b (`pairs >> tail_scales.len().ilog2()`) is wrong when the number
of tail blocks is not a power of two: AVX-512 width, `bs = 16`, 11 blocks (3 tail blocks): element
160 belongs to block 10 but gets the scale of block 9; with 2 or 4 tail blocks it is right. -/
theorem c37_seed_b_refuted :
    scaleIdxFloatSeedB 128 16 11 160 = 9 ∧ scaleIdxFloat 128 16 11 160 = 10 ∧
    (∀ k : Fin 160, scaleIdxFloatSeedB 128 16 10 k.val = k.val / 16) := by decide +kernel

/-! ### Composition: kernel sums through the index arithmetic = the reference -/

section Compose
open RtenVerif.BlockQuant Lean.Grind
variable {R : Type} [CommRing R]

theorem idxDot_congr (f g : Nat → R) : ∀ (k0 : Nat) (a q : List R),
    (∀ k, k0 ≤ k → k < k0 + a.length → f k = g k) → idxDot f k0 a q = idxDot g k0 a q
  | _, [], _, _ => by simp [idxDot]
  | _, _ :: _, [], _ => by simp [idxDot]
  | k0, x :: xs, y :: ys, h => by
    have h0 := h k0 (Nat.le_refl _) (by simp)
    have ih := idxDot_congr f g (k0 + 1) xs ys (fun k hk1 hk2 => h k (by omega) (by
      simp only [List.length_cons]; omega))
    simp only [idxDot, h0, ih]

theorem idxDot_getD (w : List R) : ∀ (k0 : Nat) (a q : List R),
    idxDot (fun k => w.getD k 0) k0 a q = dot3 a (w.drop k0) q
  | _, [], _ => by simp [idxDot, dot3_nil_a]
  | _, _ :: _, [] => by simp [idxDot, dot3_nil_q]
  | k0, x :: xs, y :: ys => by
    have ih := idxDot_getD w (k0 + 1) xs ys
    simp only [List.getD_eq_getElem?_getD] at ih ⊢
    by_cases hk : k0 < w.length
    · rw [List.drop_eq_getElem_cons hk]
      simp only [idxDot, dot3, ih, List.getD_eq_getElem?_getD, List.getElem?_eq_getElem hk,
        Option.getD_some]
    · have hd : w.drop k0 = [] := List.drop_eq_nil_of_le (by omega)
      have hd1 : w.drop (k0 + 1) = [] := List.drop_eq_nil_of_le (by omega)
      rw [hd1, dot3_nil_w] at ih
      rw [hd, dot3_nil_w]
      simp only [idxDot, ih, List.getD_eq_getElem?_getD, List.getElem?_eq_none (by omega : w.length ≤ k0),
        Option.getD_none]
      grind

/-- **C37.I5** Float kernel = dequantize-then-multiply: summing, for every element, `a_k` times the
weight dequantised with the scale *the kernel's own index arithmetic* selects equals the reference
`refDot`, for every SIMD width of the code, every power-of-two block size `≥ 16`, every block
count, and LHS/weights of equal length `≤ nb·bs`. -/
theorem c37_float_kernel_eq_reference (epv j nb : Nat) (hepv : IsEpv epv) (scales a q : List R)
    (hlen : a.length ≤ nb * (16 * 2 ^ j)) :
    floatKernelDot epv (16 * 2 ^ j) nb scales a q = refDot (16 * 2 ^ j) scales a q := by
  have hbs : 0 < 16 * 2 ^ j := Nat.mul_pos (by decide) (Nat.pow_pos (by decide))
  unfold floatKernelDot refDot
  have h := idxDot_getD (expandScales (16 * 2 ^ j) scales) 0 a q
  rw [List.drop_zero] at h
  rw [← h]
  apply idxDot_congr
  intro k _ hk
  rw [c37_scale_index_float epv j nb k hepv (by omega), expandScales_getD _ hbs]

theorem idxDot2_congr (f g f' g' : Nat → R) : ∀ (k0 : Nat) (l q : List R),
    (∀ k, k0 ≤ k → k < k0 + l.length → f k = f' k ∧ g k = g' k) →
      idxDot2 f g k0 l q = idxDot2 f' g' k0 l q
  | _, [], _, _ => by simp [idxDot2]
  | _, _ :: _, [], _ => by simp [idxDot2]
  | k0, x :: xs, y :: ys, h => by
    have h0 := h k0 (Nat.le_refl _) (by simp)
    have ih := idxDot2_congr f g f' g' (k0 + 1) xs ys (fun k hk1 hk2 => h k (by omega) (by
      simp only [List.length_cons]; omega))
    simp only [idxDot2, h0.1, h0.2, ih]

theorem idxDot2_getD (cw rw' : List R) : ∀ (k0 : Nat) (l q : List R),
    idxDot2 (fun k => cw.getD k 0) (fun k => rw'.getD k 0) k0 l q =
      dot3 (List.zipWith (· * ·) (rw'.drop k0) l) (cw.drop k0) q
  | _, [], _ => by simp [idxDot2, dot3_nil_a]
  | _, _ :: _, [] => by simp [idxDot2, dot3_nil_q]
  | k0, x :: xs, y :: ys => by
    have ih := idxDot2_getD cw rw' (k0 + 1) xs ys
    simp only [List.getD_eq_getElem?_getD] at ih ⊢
    by_cases hr : k0 < rw'.length
    · rw [List.drop_eq_getElem_cons hr]
      by_cases hc : k0 < cw.length
      · rw [List.drop_eq_getElem_cons hc]
        simp only [idxDot2, List.zipWith_cons_cons, dot3, ih, List.getD_eq_getElem?_getD,
          List.getElem?_eq_getElem hr, List.getElem?_eq_getElem hc, Option.getD_some]
        grind
      · have hd : cw.drop k0 = [] := List.drop_eq_nil_of_le (by omega)
        have hd1 : cw.drop (k0 + 1) = [] := List.drop_eq_nil_of_le (by omega)
        rw [hd1, dot3_nil_w] at ih
        rw [hd, dot3_nil_w]
        simp only [idxDot2, ih, List.getD_eq_getElem?_getD,
          List.getElem?_eq_none (by omega : cw.length ≤ k0), Option.getD_none]
        grind
    · have hd : rw'.drop k0 = [] := List.drop_eq_nil_of_le (by omega)
      have hd1 : rw'.drop (k0 + 1) = [] := List.drop_eq_nil_of_le (by omega)
      rw [hd1] at ih
      simp only [List.zipWith_nil_left, dot3_nil_a] at ih
      rw [hd]
      simp only [List.zipWith_nil_left, dot3_nil_a, idxDot2, ih, List.getD_eq_getElem?_getD,
        List.getElem?_eq_none (by omega : rw'.length ≤ k0), Option.getD_none]
      grind

/-- **C37.I6** Int8 kernel = dequantize-then-multiply applied to the de-quantised LHS, and = the
per-block model `int8Blocks` (both dot-product flavours): each integer product scaled by the
`col_scale·row_scale` that the kernel's lane/tail index arithmetic selects. -/
theorem c37_int8_kernel_eq_reference (epv j nb : Nat) (hepv : IsEpv epv) (u : Bool)
    (cs rs l q : List R) (hl : l.length = q.length) (hc : cs.length = rs.length)
    (hlen : l.length ≤ nb * (16 * 2 ^ j)) :
    int8KernelDot epv (16 * 2 ^ j) nb cs rs l q = refDot (16 * 2 ^ j) cs (scaleLhs (16 * 2 ^ j) rs l) q ∧
    int8KernelDot epv (16 * 2 ^ j) nb cs rs l q = int8Blocks u (16 * 2 ^ j) cs rs l q := by
  have hbs : 0 < 16 * 2 ^ j := Nat.mul_pos (by decide) (Nat.pow_pos (by decide))
  have key : int8KernelDot epv (16 * 2 ^ j) nb cs rs l q =
      refDot (16 * 2 ^ j) cs (scaleLhs (16 * 2 ^ j) rs l) q := by
    unfold int8KernelDot refDot scaleLhs
    have h := idxDot2_getD (expandScales (16 * 2 ^ j) cs) (expandScales (16 * 2 ^ j) rs) 0 l q
    rw [List.drop_zero, List.drop_zero] at h
    rw [← h]
    apply idxDot2_congr
    intro k _ hk
    rw [c37_scale_index_int8 epv j nb k hepv (by omega), expandScales_getD _ hbs,
      expandScales_getD _ hbs]
    exact ⟨rfl, rfl⟩
  exact ⟨key, by rw [key, c37_int8_mode_eq_dequantize u _ cs rs l q hl hc]⟩

end Compose

/-- Non-vacuity over `Int`: generic width (32), block size 16, 3 blocks (one vblock + one tail
block), distinct scales: the kernel sums equal the reference / the per-block Int8 model. -/
def exA : List Int := (List.range 48).map fun k => Int.ofNat k - 20
def exQ : List Int := (List.range 48).map fun k => Int.ofNat (k * 7 % 16)

example : RtenVerif.BlockQuant.floatKernelDot 32 16 3 [1, 2, 4] exA exQ =
      RtenVerif.BlockQuant.refDot 16 [1, 2, 4] exA exQ ∧
    RtenVerif.BlockQuant.int8KernelDot 32 16 3 [1, 2, 4] [3, 1, 2] exA exQ =
      RtenVerif.BlockQuant.int8Blocks true 16 [1, 2, 4] [3, 1, 2] exA exQ := by decide +kernel

end RtenVerif.BlockQuantIndex
