import RtenVerif.Props.C35Bounded6Defs

/-! C35.S3 bounded scope, chunk `f`: smallest code in `1..1`, second smallest in `2..3`
(kernel evaluation; bounded statement). -/
namespace RtenVerif.Poly

theorem c35_chunk6_f : chunkOk 1 1 2 3 = true := by decide +kernel

end RtenVerif.Poly
