import RtenVerif.Props.C35Bounded6Defs

/-! C35.S3 bounded scope, chunk `k`: smallest code in `3..3`, second smallest in `4..15`
(kernel evaluation; bounded statement). -/
namespace RtenVerif.Poly

theorem c35_chunk6_k : chunkOk 3 3 4 15 = true := by decide +kernel

end RtenVerif.Poly
